------------------------------ MODULE Overlay ------------------------------
(***************************************************************************)
(* C12 -- reference semantics of the documented overlay merge              *)
(* (doc/pargma.md, the comment above build.parseAndAugment, the comments   *)
(* of overrideInfo and pruneImports).                                      *)
(*                                                                         *)
(* A package is presented as two "sides": the ORIGINAL side (side 1, one   *)
(* source file of the standard library) and the OVERLAY side (side 2, one  *)
(* file of compiler/natives).  A side is a record                          *)
(*     [bl |-> BOOLEAN, decls |-> sequence of declarations]                *)
(* bl = the file has a blank import (import _ "vp/p3"); every other import *)
(* of the file is DERIVED from what its declarations use (a Go file with   *)
(* an unused import is not a Go file), see ImportsBefore.                  *)
(*                                                                         *)
(* A declaration is the uniform record Dc(k, d, n, r, rk, u, su, g, specs): *)
(*   k     "func" | "meth" | "lnk" | "type" | "var" | "const"              *)
(*         ("lnk" = body-less func carrying a //go:linkname directive,     *)
(*          which makes the file import "unsafe")                          *)
(*   d     directive on the whole declaration (overlay side only):         *)
(*         "" | "keep" | "purge" | "sig"  (keep-original / purge /         *)
(*         override-signature)                                             *)
(*   n     function / method name ("init" allowed for func); "" otherwise  *)
(*   r     receiver type name (meth)                                       *)
(*   rk    meth: "val" | "ptr" | "gen"  (T, *T, *T[X] receiver)            *)
(*         lnk : "doc" | "float" (directive in the doc comment / separated *)
(*               from the declaration by a blank line)                     *)
(*   u     import used by the body: "" | "pl" (plain import) | "nm" (named *)
(*         import) | "dot" | "us" (unsafe.Sizeof) | "sy" | "syn" (sync,    *)
(*         plain / named import)                                           *)
(*   su    import used by the SIGNATURE of a func / meth / lnk:            *)
(*         ""    func F(x int32) (res int32)                               *)
(*         "pl"  parameter of a plain-imported type      (y p1.T)          *)
(*         "plr" result of a plain-imported type         (z p1.T)          *)
(*         "plc" constraint from a plain-imported package [T p1.C] (g)     *)
(*         "nm"  parameter of a named-imported type      (y q.T)           *)
(*         "dot" parameter of a dot-imported type        (y DotT)          *)
(*         "us"  parameter unsafe.Pointer                                  *)
(*         "sy" / "syn" parameter *sync.Mutex / *s.Mutex                   *)
(*         SuClass(su) is the import class the signature needs.  A         *)
(*         function whose signature is replaced (override-signature) stays *)
(*         in the ORIGINAL file: the uses of its old signature disappear   *)
(*         and the uses of the overlay signature count for the original    *)
(*         file (see "Imports" below).                                     *)
(*   g     func has type parameters                                        *)
(*   specs type/var/const: sequence of Sp(ns, f, d, u)                     *)
(*         ns names (1 or 2), d "" | "purge" (directive on the spec),      *)
(*         u import used by the initialiser(s),                            *)
(*         f  type : "plain" | "generic"                                   *)
(*            value: "one"   a = v                                         *)
(*                   "match" a, b = v1, v2                                 *)
(*                   "call"  a, b = f()        (one multi-value call)      *)
(*                   "typed" a, b int32        (no initialiser)            *)
(*                   "iota"  const group: first spec `a = iota + K`, the   *)
(*                           following ones repeat it implicitly           *)
(*                   "emb"   //go:embed f  var a string | embed.FS (u=em)  *)
(*                                                                         *)
(* Merged(o, v, ip) is the documented result as a SET of items             *)
(*     [k, key, sig, body, init, ord]                                      *)
(* k/key identify the symbol; sig/body/init are PROVENANCE TAGS            *)
(* Code(side, decl, spec, name) saying which input text the signature,     *)
(* the body (func body / type body) and the initial value must come from   *)
(* (0 = none); ord = Code(side, rank of the declaration in its file, rank  *)
(* of the spec in the declaration, rank of the name in the spec) after     *)
(* removal.  Imports are items k="import", key = path|name; directives     *)
(* that downstream passes consume (//go:linkname, //go:embed) are items    *)
(* k="directive".                                                          *)
(*                                                                         *)
(* The harness (harness/props/c12) renders the two sides as Go source with *)
(* the tags as literal markers, runs the real build.augmentOverlayFile /   *)
(* augmentOriginalImports / augmentOriginalFile on the parsed files,       *)
(* extracts the same item set from the resulting ASTs and compares; when   *)
(* TypeChecks(o, v) holds the result must also pass go/types.  The         *)
(* signature tag stands for the whole signature text of the declaration it *)
(* names (receiver, type parameters incl. an imported constraint,          *)
(* parameters and results incl. imported types), so a replaced signature   *)
(* is compared field by field.  Pairs in the unspecified case              *)
(* SigImportsOpen (record field "open") are compared without the imports   *)
(* of the original file and without the type check.                        *)
(* OverlayScen.tla enumerates the pairs and checks the theorems at the     *)
(* bottom of this module on every enumerated pair.                         *)
(***************************************************************************)
EXTENDS Integers, Sequences, FiniteSets, TLC

Prefix == "_gopherjs_original_"

Sp(ns, f, d, u) == [ns |-> ns, f |-> f, d |-> d, u |-> u]
Dc(k, d, n, r, rk, u, su, g, specs) ==
  [k |-> k, d |-> d, n |-> n, r |-> r, rk |-> rk, u |-> u, su |-> su, g |-> g, specs |-> specs]

EmptySide == [bl |-> FALSE, decls |-> <<>>]

\* import paths for which augmentOriginalImports substitutes sync by nosync
NosyncPkgs == {"crypto/rand", "encoding/gob", "encoding/json", "expvar", "go/token", "log",
               "math/big", "math/rand", "regexp", "time"}

SeqRange(s) == {s[i] : i \in DOMAIN s}
Code(side, i, j, p) == side * 1000 + i * 100 + j * 10 + p
Rank(P, n) == Cardinality({m \in DOMAIN P : m <= n /\ P[m]})

IsFn(dc)     == dc.k \in {"func", "meth", "lnk"}
FuncKey(dc)  == IF dc.k = "meth" THEN dc.r \o "." \o dc.n ELSE dc.n
RenKey(dc)   == IF dc.k = "meth" THEN dc.r \o "." \o Prefix \o dc.n ELSE Prefix \o dc.n
SpecNames(dc) == UNION {SeqRange(dc.specs[j].ns) : j \in DOMAIN dc.specs}
DeclKeys(dc) == IF IsFn(dc) THEN {FuncKey(dc)} ELSE SpecNames(dc)
NameCount(dc) == IF dc.specs = <<>> THEN 0
                 ELSE LET F[j \in 0..Len(dc.specs)] == IF j = 0 THEN 0 ELSE F[j-1] + Len(dc.specs[j].ns)
                      IN F[Len(dc.specs)]

(***************************************************************************)
(* Well-formed sides.                                                      *)
(***************************************************************************)
FnUses  == {"", "pl", "nm", "dot", "us", "sy", "syn"}
SigUses == {"", "pl", "plr", "plc", "nm", "dot", "us", "sy", "syn"}
SuClass(su) == IF su \in {"plr", "plc"} THEN "pl" ELSE su
ValUses == {"", "pl", "nm", "dot", "us"}

WfSpec(k, sp, ovl) ==
  /\ Len(sp.ns) \in {1, 2}
  /\ sp.d \in (IF ovl THEN {"", "purge"} ELSE {""})
  /\ (k = "type" => sp.f \in {"plain", "generic"} /\ Len(sp.ns) = 1 /\ sp.u = "")
  /\ (k = "const" => sp.f \in {"one", "match", "iota"} /\ sp.u \in ValUses)
  /\ (k = "var" => sp.f \in {"one", "match", "call", "typed", "emb"})
  /\ (sp.f \in {"one", "iota", "emb"} => Len(sp.ns) = 1)
  /\ (sp.f \in {"match", "call", "typed"} => Len(sp.ns) = 2)
  /\ (sp.f \in {"typed", "iota"} => sp.u = "")
  /\ (sp.f = "emb" => sp.u \in {"", "em"})
  /\ (sp.f \in {"one", "match", "call"} => sp.u \in ValUses)

WfDecl(dc, ovl) ==
  /\ dc.d \in (IF ~ovl THEN {""}
               ELSE IF dc.k = "meth" \/ (dc.k = "func" /\ dc.n # "init") THEN {"", "keep", "purge", "sig"}
               ELSE IF dc.n = "init" THEN {""} ELSE {"", "purge"})
  /\ (IF IsFn(dc)
      THEN /\ dc.specs = <<>>
           /\ dc.su \in SigUses
           /\ (dc.su = "plc" => dc.g)                               \* a constraint needs a type parameter
           /\ (dc.d = "sig" => dc.u = "")                           \* an override-signature marker has no body
           /\ (dc.k = "func" => dc.r = "" /\ dc.rk = "" /\ dc.u \in FnUses /\ (dc.n = "init" => ~dc.g /\ dc.su = ""))
           /\ (dc.k = "meth" => dc.rk \in {"val", "ptr", "gen"} /\ dc.u \in FnUses /\ ~dc.g)   \* a METHOD may be called init: it is an ordinary method (key T.init)
           /\ (dc.k = "lnk" => dc.r = "" /\ dc.rk \in {"doc", "float"} /\ dc.u = "" /\ ~dc.g /\ dc.n # "init")
      ELSE /\ dc.n = "" /\ dc.r = "" /\ dc.rk = "" /\ dc.u = "" /\ dc.su = "" /\ ~dc.g
           /\ Len(dc.specs) \in 1..3
           /\ \A j \in DOMAIN dc.specs : WfSpec(dc.k, dc.specs[j], ovl)
           /\ Cardinality(SpecNames(dc)) = NameCount(dc)             \* no name twice
           /\ ((\E j \in DOMAIN dc.specs : dc.specs[j].f = "iota")
                 => Len(dc.specs) >= 2 /\ \A j \in DOMAIN dc.specs : dc.specs[j].f = "iota")
           /\ (dc.d = "purge" => \A j \in DOMAIN dc.specs : dc.specs[j].d = ""))

\* a side never declares a key twice
WfSide(s, ovl) ==
  /\ \A i \in DOMAIN s.decls : WfDecl(s.decls[i], ovl)
  /\ \A i, j \in DOMAIN s.decls : i < j => DeclKeys(s.decls[i]) \cap DeclKeys(s.decls[j]) = {}

(***************************************************************************)
(* What the overlay says (the "overrides" of parseAndAugment).             *)
(***************************************************************************)
SpecPurged(dc, j) == dc.d = "purge" \/ dc.specs[j].d = "purge"
\* `init` is never overridden
OvKeys(v)   == (UNION {DeclKeys(v.decls[i]) : i \in DOMAIN v.decls}) \ {"init"}
KeepKeys(v) == {FuncKey(v.decls[i]) : i \in {x \in DOMAIN v.decls : IsFn(v.decls[x]) /\ v.decls[x].d = "keep"}} \ {"init"}
SigIdx(v, key) ==
  LET S == {i \in DOMAIN v.decls : IsFn(v.decls[i]) /\ v.decls[i].d = "sig" /\ FuncKey(v.decls[i]) = key}
  IN IF S = {} THEN 0 ELSE CHOOSE i \in S : TRUE
PurgedTypes(v) ==
  UNION {UNION {SeqRange(v.decls[i].specs[j].ns) : j \in {y \in DOMAIN v.decls[i].specs : SpecPurged(v.decls[i], y)}}
         : i \in {x \in DOMAIN v.decls : v.decls[x].k = "type"}}

(***************************************************************************)
(* Which parts of each side survive.                                       *)
(*   overlay : everything except purge / override-signature markers        *)
(*   original: everything whose key is not overridden; functions survive   *)
(*             renamed (keep-original) or re-signed (override-signature);  *)
(*             a method without an override of its own goes with its       *)
(*             purged receiver type                                        *)
(***************************************************************************)
\* The overlay together with what it overrides, computed once per pair (every operator below that takes
\* "the overlay v" takes this record).
Ov(v) == [bl |-> v.bl, decls |-> v.decls, keys |-> OvKeys(v), keep |-> KeepKeys(v), purged |-> PurgedTypes(v)]
EmptyOv == Ov(EmptySide)

\* fate of original function declaration dc under overlay v
Fate(dc, v) ==
  LET key == FuncKey(dc) IN
  IF key \in v.keys
  THEN (IF key \in v.keep THEN "ren" ELSE IF SigIdx(v, key) # 0 THEN "sig" ELSE "drop")
  ELSE IF dc.k = "meth" /\ dc.r \in v.purged THEN "drop" ELSE "keep"

\* side \in {1,2}; s the side itself, v the overlay
NameKept(side, s, v, i, j, p) ==
  IF side = 2 THEN ~SpecPurged(s.decls[i], j) ELSE s.decls[i].specs[j].ns[p] \notin v.keys
SpecKept(side, s, v, i, j) == \E p \in DOMAIN s.decls[i].specs[j].ns : NameKept(side, s, v, i, j, p)
DeclKept(side, s, v, i) ==
  LET dc == s.decls[i] IN
  IF IsFn(dc) THEN (IF side = 2 THEN dc.d \notin {"purge", "sig"} ELSE Fate(dc, v) # "drop")
  ELSE \E j \in DOMAIN dc.specs : SpecKept(side, s, v, i, j)

\* did the augmentation touch the file at all (nothing removed => imports untouched)
Changed(side, s, v) ==
  IF side = 2
  THEN \E i \in DOMAIN s.decls : s.decls[i].d \in {"purge", "sig"} \/ \E j \in DOMAIN s.decls[i].specs : s.decls[i].specs[j].d = "purge"
  ELSE \E i \in DOMAIN s.decls :
         IF IsFn(s.decls[i]) THEN Fate(s.decls[i], v) # "keep"
         ELSE \E j \in DOMAIN s.decls[i].specs : \E p \in DOMAIN s.decls[i].specs[j].ns : ~NameKept(1, s, v, i, j, p)

(***************************************************************************)
(* Declaration items.                                                      *)
(***************************************************************************)
Item(k, key, sig, body, init, ord) == [k |-> k, key |-> key, sig |-> sig, body |-> body, init |-> init, ord |-> ord]

\* items of declaration i of side s, each paired with its position Code(side, i, j, p) in the input
\* (directive items: position 0).  The tag of a "call"/"typed" name is the tag of its spec plus the
\* position of the name; an embedded variable has no initial value (its directive is an item).
PosItemsOf(side, s, v, i, dk) ==
    LET dc == s.decls[i]
        ri == Rank(dk, i)
        own == Code(side, i, 0, 0)
    IN IF IsFn(dc)
       THEN LET fate == IF side = 2 THEN "keep" ELSE Fate(dc, v)
                kind == IF dc.k = "meth" THEN "meth" ELSE "func"
                body == IF dc.k = "lnk" THEN 0 ELSE own
            IN {<<own, Item(kind,
                     IF fate = "ren" THEN RenKey(dc) ELSE FuncKey(dc),
                     IF fate = "sig" THEN Code(2, SigIdx(v, FuncKey(dc)), 0, 0) ELSE own,
                     body, 0, Code(side, ri, 0, 0))>>}
               \cup (IF dc.k = "lnk" THEN {<<0, Item("directive", "linkname:" \o dc.n, 0, 0, 0, side * 1000)>>} ELSE {})
       ELSE LET sk == [j \in DOMAIN dc.specs |-> SpecKept(side, s, v, i, j)] IN
            UNION {
              LET sp == dc.specs[j]
                  rj == Rank(sk, j)
                  nk == [p \in DOMAIN sp.ns |-> NameKept(side, s, v, i, j, p)]
              IN {<<Code(side, i, j, p),
                    IF dc.k = "type"
                    THEN Item("type", sp.ns[p], (IF sp.f = "generic" THEN 1 ELSE 0), Code(side, i, j, 0), 0, Code(side, ri, rj, 1))
                    ELSE Item(dc.k, sp.ns[p], 0, 0,
                            (IF sp.f = "emb" THEN 0 ELSE Code(side, i, j, p)),
                            Code(side, ri, rj, Rank(nk, p)))>>
                  : p \in {q \in DOMAIN sp.ns : nk[q]}}
                 \cup (IF sp.f = "emb" THEN {<<0, Item("directive", "embed:" \o sp.ns[1], 0, 0, 0, side * 1000)>>} ELSE {})
              : j \in {y \in DOMAIN dc.specs : sk[y]}}

PosItems(side, s, v) ==
  LET dk == [i \in DOMAIN s.decls |-> DeclKept(side, s, v, i)] IN
  UNION {PosItemsOf(side, s, v, i, dk) : i \in {x \in DOMAIN s.decls : dk[x]}}

DeclItems(side, s, v) == {x[2] : x \in PosItems(side, s, v)}

(***************************************************************************)
(* Imports.  Before: derived from the uses.  After: an import that became  *)
(* unused is removed; blank and dot imports are kept; "unsafe" / "embed"   *)
(* stay (as blank imports) while a //go:linkname / //go:embed directive    *)
(* remains in the file; a file left without any declaration and without a  *)
(* linkname directive loses all its imports (comment of pruneImports).     *)
(* An untouched file keeps its imports as they are.                        *)
(*                                                                         *)
(* A function uses the imports its BODY names (field u) and the imports    *)
(* its SIGNATURE names (field su).  What a function of the original file   *)
(* uses after the merge depends on its fate:                               *)
(*   keep  both as written                                                 *)
(*   ren   (keep-original) both as written: only the name changes          *)
(*   drop  (overridden, purged, method of a purged type) nothing           *)
(*   sig   (override-signature) the body as written; the signature is the  *)
(*         OVERLAY's, so the uses of the original signature are gone and   *)
(*         the uses of the overlay signature are now uses of the ORIGINAL  *)
(*         file ("the original function's signature is changed to match",  *)
(*         the function stays where it was).  Every such change touches    *)
(*         the file, so "pruneImports will remove any unused imports from  *)
(*         the file": an import whose last use was the replaced signature  *)
(*         goes, an import the new signature uses stays.                   *)
(* In the overlay file the override-signature / purge markers are removed, *)
(* their uses with them.                                                   *)
(*                                                                         *)
(* UNSPECIFIED: the documentation says nothing about an overlay signature  *)
(* that needs an import the original file does not have (nothing documents *)
(* that imports are ever added or carried over from the overlay file).     *)
(* SigImportsOpen marks these pairs; the harness does not judge the        *)
(* imports of the original file nor the type check of such a pair.         *)
(***************************************************************************)
\* uses of function declaration i of side s after the merge (fate # "drop" / not a marker)
FnUsesAfter(side, s, v, i) ==
  LET dc == s.decls[i] IN
  IF side = 1 /\ Fate(dc, v) = "sig"
  THEN {dc.u, SuClass(v.decls[SigIdx(v, FuncKey(dc))].su)}
  ELSE {dc.u, SuClass(dc.su)}
UsesIn(side, s, v, after) ==
  UNION {
    LET dc == s.decls[i] IN
    IF IsFn(dc) THEN (IF after THEN FnUsesAfter(side, s, v, i) ELSE {dc.u, SuClass(dc.su)})
    ELSE {dc.specs[j].u : j \in {y \in DOMAIN dc.specs : ~after \/ SpecKept(side, s, v, i, y)}}
    : i \in {x \in DOMAIN s.decls : ~after \/ DeclKept(side, s, v, x)}} \ {""}
HasLnk(side, s, v, after) == \E i \in DOMAIN s.decls : s.decls[i].k = "lnk" /\ (~after \/ DeclKept(side, s, v, i))
HasEmb(side, s, v, after) ==
  \E i \in DOMAIN s.decls : \E j \in DOMAIN s.decls[i].specs :
      s.decls[i].specs[j].f = "emb" /\ (~after \/ SpecKept(side, s, v, i, j))

SyncPath(ip) == IF ip \in NosyncPkgs THEN "github.com/gopherjs/gopherjs/nosync" ELSE "sync"
ImpKey(c, ip) ==
  CASE c = "pl"  -> "vp/p1|"
    [] c = "nm"  -> "vp/p2|q"
    [] c = "dot" -> "vp/p4|."
    [] c = "bl"  -> "vp/p3|_"
    [] c = "sy"  -> IF ip \in NosyncPkgs THEN SyncPath(ip) \o "|sync" ELSE "sync|"
    [] c = "syn" -> SyncPath(ip) \o "|s"
    [] c = "us"  -> "unsafe|"
    [] c = "us_" -> "unsafe|_"
    [] c = "em"  -> "embed|"
    [] c = "em_" -> "embed|_"

\* import classes of the file as written
ImportsBefore(side, s, v) ==
  LET U == UsesIn(side, s, v, FALSE) IN
  (U \cap {"pl", "nm", "dot", "sy", "syn"})
  \cup (IF s.bl THEN {"bl"} ELSE {})
  \cup (IF "us" \in U THEN {"us"} ELSE IF HasLnk(side, s, v, FALSE) THEN {"us_"} ELSE {})
  \cup (IF "em" \in U THEN {"em"} ELSE IF HasEmb(side, s, v, FALSE) THEN {"em_"} ELSE {})

ImportsAfter(side, s, v) ==
  LET B == ImportsBefore(side, s, v)
      U == UsesIn(side, s, v, TRUE)
      empty == ~\E i \in DOMAIN s.decls : DeclKept(side, s, v, i)
  IN IF ~Changed(side, s, v) THEN B
     ELSE IF empty THEN {}            \* no declaration left, hence no linkname directive either
     ELSE {c \in B : c \in {"bl", "dot", "us_", "em_"} \/ c \in U}
          \cup (IF "us" \in B /\ "us" \notin U /\ HasLnk(side, s, v, TRUE) THEN {"us_"} ELSE {})
          \cup (IF "em" \in B /\ "em" \notin U /\ HasEmb(side, s, v, TRUE) THEN {"em_"} ELSE {})

ImportItems(side, s, v, ip) ==
  {Item("import", ImpKey(c, IF side = 1 THEN ip ELSE ""), 0, 0, 0, side * 1000) : c \in ImportsAfter(side, s, v)}

\* the import a use needs is there / every import is used, blank, dot or kept for a directive
NoMissingImport(side, s, v) == UsesIn(side, s, v, TRUE) \subseteq ImportsAfter(side, s, v)
NoUnusedImport(side, s, v) ==
  \A c \in ImportsAfter(side, s, v) : c \in {"bl", "dot", "us_", "em_"} \/ c \in UsesIn(side, s, v, TRUE)
\* UNSPECIFIED case: an overlay signature names an import that the original file does not have
SigImportsOpen(o, v) ==
  \E i \in DOMAIN o.decls :
     /\ IsFn(o.decls[i]) /\ Fate(o.decls[i], v) = "sig"
     /\ LET c == SuClass(v.decls[SigIdx(v, FuncKey(o.decls[i]))].su) IN c # "" /\ c \notin ImportsBefore(1, o, v)

(***************************************************************************)
(* The merge.                                                              *)
(***************************************************************************)
MergedW(o, w, ip) ==
  DeclItems(2, w, w) \cup DeclItems(1, o, w) \cup ImportItems(2, w, w, ip) \cup ImportItems(1, o, w, ip)
Merged(o, v, ip) == MergedW(o, Ov(v), ip)

(***************************************************************************)
(* When must the merged package type-check?  ("consistent pair")           *)
(*  - every method has its receiver type, with matching genericity         *)
(*  - a keep-original function refers to _gopherjs_original_<name>, which  *)
(*    must exist (and not be generic: it is referred to uninstantiated)    *)
(*  - a dot import that is kept must still be used                         *)
(*  - every import a signature or body names after the merge is imported   *)
(*    by its file: the overlay signature of an override-signature names    *)
(*    only imports of the original file (otherwise unspecified, see above) *)
(*  - override-signature does not add type parameters to a body-less       *)
(*    (linkname) function                                                  *)
(* OrigAlone: the original file by itself is a Go package.                 *)
(***************************************************************************)
TypesOf(side, s, v) ==
  UNION {UNION {{<<s.decls[i].specs[j].ns[1], s.decls[i].specs[j].f = "generic">>}
                : j \in {y \in DOMAIN s.decls[i].specs : SpecKept(side, s, v, i, y)}}
         : i \in {x \in DOMAIN s.decls : s.decls[x].k = "type"}}
MethsOf(side, s, v) ==
  {LET dc == s.decls[i]
       src == IF side = 1 /\ Fate(dc, v) = "sig" THEN v.decls[SigIdx(v, FuncKey(dc))] ELSE dc
   IN <<src.r, src.rk = "gen">>
   : i \in {x \in DOMAIN s.decls : s.decls[x].k = "meth" /\ DeclKept(side, s, v, x)}}
DotOK(side, s, v) == "dot" \in ImportsAfter(side, s, v) => "dot" \in UsesIn(side, s, v, TRUE)

OrigAlone(o) == MethsOf(1, o, EmptyOv) \subseteq TypesOf(1, o, EmptyOv)

TypeChecks(o, v0) ==
  LET v == Ov(v0) IN
  /\ OrigAlone(o)
  /\ (MethsOf(1, o, v) \cup MethsOf(2, v, v)) \subseteq (TypesOf(1, o, v) \cup TypesOf(2, v, v))
  /\ \A i \in DOMAIN v.decls :
        (IsFn(v.decls[i]) /\ v.decls[i].d = "keep") =>
           \E x \in DOMAIN o.decls : /\ IsFn(o.decls[x]) /\ FuncKey(o.decls[x]) = FuncKey(v.decls[i])
                                     /\ ~o.decls[x].g /\ o.decls[x].k = v.decls[i].k
  \* a body-less (linkname) function cannot be given type parameters
  /\ \A x \in DOMAIN o.decls :
        (o.decls[x].k = "lnk" /\ Fate(o.decls[x], v) = "sig") => ~v.decls[SigIdx(v, FuncKey(o.decls[x]))].g
  /\ DotOK(1, o, v) /\ DotOK(2, v, v)
  /\ ~SigImportsOpen(o, v)
  /\ NoMissingImport(1, o, v) /\ NoMissingImport(2, v, v)

(***************************************************************************)
(* Theorems about the reference itself, checked by TLC on every pair that  *)
(* OverlayScen enumerates.                                                 *)
(***************************************************************************)
Syms(M) == {m \in M : m.k \notin {"import", "directive"}}

\* T1: every overlay declaration is in the result unless it is a purge / override-signature marker
OverlayAllIn(v, M) ==
  \A i \in DOMAIN v.decls :
    LET dc == v.decls[i] IN
    IF IsFn(dc)
    THEN dc.d \in {"purge", "sig"} \/ \E m \in M : m.key = FuncKey(dc) /\ m.sig = Code(2, i, 0, 0)
    ELSE \A j \in DOMAIN dc.specs : SpecPurged(dc, j) \/
           \A p \in DOMAIN dc.specs[j].ns : \E m \in M : m.k = dc.k /\ m.key = dc.specs[j].ns[p] /\ m.ord \div 1000 = 2

\* T2: no key occurs twice (init may)
NoDupKeys(M) ==
  \A m1, m2 \in Syms(M) : (m1.key = m2.key /\ m1.key # "init") => m1 = m2

\* T3: an empty overlay changes nothing: every declaration survives under its own key with its own tags,
\* the imports are the ones written
EmptyIsIdentity(o, ip) ==
  /\ \A i \in DOMAIN o.decls : DeclKept(1, o, EmptyOv, i)
  /\ ImportsAfter(1, o, EmptyOv) = ImportsBefore(1, o, EmptyOv)
  /\ \A x \in PosItems(1, o, EmptyOv) :
        LET m == x[2] IN
        x[1] = 0 \/ ( /\ m.ord = x[1]
                      /\ (m.k \in {"func", "meth"} => m.sig = x[1] /\ m.body \in {0, x[1]})
                      /\ (m.k \in {"var", "const"} => m.init \in {0, x[1]}) )
  /\ \A i \in DOMAIN o.decls : IsFn(o.decls[i]) => \E m \in Merged(o, EmptySide, ip) : m.key = FuncKey(o.decls[i])

\* T4: an original declaration none of whose keys the overlay mentions (and whose receiver type is not
\* purged) is in the result exactly as without overlay (up to its rank), `init` included; and the
\* surviving original symbols keep their relative order
StripOrd(S) == {[k |-> x[2].k, key |-> x[2].key, sig |-> x[2].sig, body |-> x[2].body, init |-> x[2].init] : x \in S}
Unrelated(o, w) ==
  /\ \A i \in DOMAIN o.decls :
        LET dc == o.decls[i]
            all == [x \in DOMAIN o.decls |-> TRUE] IN
        (DeclKeys(dc) \cap w.keys = {} /\ ~(dc.k = "meth" /\ dc.r \in w.purged))
          => /\ DeclKept(1, o, w, i)
             /\ StripOrd(PosItemsOf(1, o, w, i, all)) = StripOrd(PosItemsOf(1, o, EmptyOv, i, all))
  /\ \A x, y \in PosItems(1, o, w) : (x[1] # 0 /\ y[1] # 0 /\ x[1] < y[1]) => x[2].ord < y[2].ord

\* T5: nothing appears from nowhere: every symbol item has a key of the side it is attributed to
OnlyInputs(o, v, M) ==
  \A m \in Syms(M) :
     LET side == m.ord \div 1000 s == IF side = 1 THEN o ELSE v IN
     \E i \in DOMAIN s.decls :
        IF IsFn(s.decls[i]) THEN m.key \in {FuncKey(s.decls[i]), RenKey(s.decls[i])} ELSE m.key \in SpecNames(s.decls[i])

\* T6: after the merge no file has an import that is neither used (by a body, an initialiser or a
\* signature) nor blank, dot or kept for a directive -- whatever the overlay did to the file, in
\* particular when its only change is a replaced signature or a renamed function
\* T7: unless the pair is in the unspecified case, every use has its import (a consistent pair yields
\* a package without "undefined: p" / "imported and not used")
ImportsExact(o, w) ==
  LET A1 == ImportsAfter(1, o, w)  U1 == UsesIn(1, o, w, TRUE)  B1 == ImportsBefore(1, o, w)
      A2 == ImportsAfter(2, w, w)  U2 == UsesIn(2, w, w, TRUE)
      Excused == {"bl", "dot", "us_", "em_"}
  IN /\ \A c \in A1 : c \in Excused \/ c \in U1                 \* NoUnusedImport(1, o, w)
     /\ \A c \in A2 : c \in Excused \/ c \in U2                 \* NoUnusedImport(2, w, w)
     /\ U2 \subseteq A2                                          \* NoMissingImport(2, w, w)
     /\ (~SigImportsOpen(o, w) => U1 \subseteq A1)               \* NoMissingImport(1, o, w)
     \* the imports after the merge are among the imports written (up to unsafe/embed turning blank):
     \* nothing is ever added to a file
     /\ \A c \in A1 : c \in B1 \/ (c = "us_" /\ "us" \in B1) \/ (c = "em_" /\ "em" \in B1)
     \* the LET form above is the definition below, unfolded once per pair
     /\ (NoUnusedImport(1, o, w) <=> \A c \in A1 : c \in Excused \/ c \in U1)

Theorems(o, v, ip) ==
  LET w == Ov(v) M == MergedW(o, w, ip) IN
  /\ OverlayAllIn(v, M) /\ NoDupKeys(M) /\ EmptyIsIdentity(o, ip)
  /\ Unrelated(o, w) /\ OnlyInputs(o, v, M) /\ ImportsExact(o, w)
=============================================================================
