------------------------------- MODULE Bits -------------------------------
(***************************************************************************)
(* Reference semantics of Go's fixed-width integer arithmetic (C06, C13).  *)
(*                                                                         *)
(* A w-bit value is a sequence of w bits, least significant first.  TLC's  *)
(* integers are 32 bits wide, so 32- and 64-bit arithmetic cannot be       *)
(* written with Integers; every operator below is defined on bit vectors   *)
(* for an arbitrary width and BitsValidate.tla checks the same operators   *)
(* against plain integer formulas for ALL pairs of 8-bit operands.         *)
(***************************************************************************)
EXTENDS Integers, Sequences, TLC

Bit == {0, 1}

Zero(w) == [i \in 1..w |-> 0]
Ones(w) == [i \in 1..w |-> 1]

\* n is a natural number < 2^31
FromNat(n, w) == TLCEval([i \in 1..w |-> IF i <= 31 THEN (n \div (2^(i-1))) % 2 ELSE 0])

\* value of bits lo..hi as a natural number (hi-lo < 31)
RECURSIVE NatOf(_, _, _)
NatOf(v, lo, hi) == IF hi < lo THEN 0 ELSE v[hi] * (2^(hi-lo)) + NatOf(v, lo, hi-1)

\* 16-bit limbs, least significant first (8-bit values: one limb)
NLimbs(w) == IF w <= 16 THEN 1 ELSE w \div 16
LimbW(w) == IF w <= 16 THEN w ELSE 16
ToLimbs(v) == LET w == Len(v) IN TLCEval([k \in 1..NLimbs(w) |-> NatOf(v, LimbW(w)*(k-1)+1, LimbW(w)*k)])
FromLimbs(l, w) == TLCEval([i \in 1..w |-> (l[((i-1) \div LimbW(w)) + 1] \div (2^((i-1) % LimbW(w)))) % 2])

Not(a)       == TLCEval([i \in 1..Len(a) |-> 1 - a[i]])
And(a, b)    == TLCEval([i \in 1..Len(a) |-> a[i] * b[i]])
Or(a, b)     == TLCEval([i \in 1..Len(a) |-> IF a[i] + b[i] > 0 THEN 1 ELSE 0])
Xor(a, b)    == TLCEval([i \in 1..Len(a) |-> (a[i] + b[i]) % 2])
AndNot(a, b) == TLCEval([i \in 1..Len(a) |-> a[i] * (1 - b[i])])

RECURSIVE AddR(_, _, _, _, _)
AddR(a, b, c, i, acc) ==
  IF i > Len(a) THEN acc
  ELSE LET s == a[i] + b[i] + c IN AddR(a, b, s \div 2, i + 1, Append(acc, s % 2))

Add(a, b) == AddR(a, b, 0, 1, <<>>)
Sub(a, b) == AddR(a, Not(b), 1, 1, <<>>)
Neg(a)    == Sub(Zero(Len(a)), a)

\* shifts by n >= 0 (n may be as large as 2^31-1)
Clamp(n, w) == IF n > w THEN w ELSE n
Shl(a, n0)  == LET w == Len(a) n == Clamp(n0, w) IN TLCEval([i \in 1..w |-> IF i - n >= 1 THEN a[i-n] ELSE 0])
ShrU(a, n0) == LET w == Len(a) n == Clamp(n0, w) IN TLCEval([i \in 1..w |-> IF i + n <= w THEN a[i+n] ELSE 0])
ShrS(a, n0) == LET w == Len(a) n == Clamp(n0, w) IN TLCEval([i \in 1..w |-> IF i + n <= w THEN a[i+n] ELSE a[w]])

RECURSIVE MulR(_, _, _, _)
MulR(a, b, i, acc) ==
  IF i > Len(a) THEN acc
  ELSE MulR(a, b, i + 1, IF b[i] = 1 THEN Add(acc, Shl(a, i - 1)) ELSE acc)
Mul(a, b) == MulR(a, b, 1, Zero(Len(a)))

\* unsigned comparison, from the most significant bit
RECURSIVE ULessR(_, _, _)
ULessR(a, b, i) == IF i = 0 THEN FALSE
                   ELSE IF a[i] # b[i] THEN a[i] < b[i] ELSE ULessR(a, b, i - 1)
ULess(a, b) == ULessR(a, b, Len(a))
SLess(a, b) == LET w == Len(a) IN IF a[w] # b[w] THEN a[w] = 1 ELSE ULess(a, b)
IsZero(a) == \A i \in 1..Len(a) : a[i] = 0

\* restoring long division on w+1 bit remainders; b # 0.  Result <<q, r>>.
RECURSIVE UDivR(_, _, _, _, _)
UDivR(a, bx, i, q, r) ==
  IF i = 0 THEN <<q, r>>
  ELSE LET r1 == TLCEval([j \in 1..Len(r) |-> IF j = 1 THEN a[i] ELSE r[j-1]])   \* (r << 1) | a[i]
           ge == ~ULess(r1, bx)
           r2 == IF ge THEN Sub(r1, bx) ELSE r1
       IN UDivR(a, bx, i - 1, [q EXCEPT ![i] = IF ge THEN 1 ELSE 0], r2)
UDivMod(a, b) ==
  LET w == Len(a)
      res == UDivR(a, Append(b, 0), w, Zero(w), Zero(w + 1))
  IN <<res[1], SubSeq(res[2], 1, w)>>

\* Go's truncated signed division: sign of the remainder follows the dividend;
\* MinInt / -1 wraps to MinInt.
SDivMod(a, b) ==
  LET w == Len(a)
      na == a[w] = 1
      nb == b[w] = 1
      ua == IF na THEN Neg(a) ELSE a
      ub == IF nb THEN Neg(b) ELSE b
      qr == UDivMod(ua, ub)
  IN <<IF na # nb THEN Neg(qr[1]) ELSE qr[1], IF na THEN Neg(qr[2]) ELSE qr[2]>>

\* conversion between integer types: truncate, or sign-/zero-extend by the
\* signedness of the SOURCE type
Conv(a, srcSigned, w2) ==
  LET w == Len(a) IN
  TLCEval([i \in 1..w2 |-> IF i <= w THEN a[i] ELSE IF srcSigned THEN a[w] ELSE 0])

(***************************************************************************)
(* Typed layer: Go's integer types.                                        *)
(***************************************************************************)
IntTypes == {"i8", "i16", "i32", "i64", "u8", "u16", "u32", "u64", "int", "uint", "uptr"}
W(t) == CASE t \in {"i8", "u8"} -> 8
          [] t \in {"i16", "u16"} -> 16
          [] t \in {"i32", "u32", "int", "uint", "uptr"} -> 32
          [] t \in {"i64", "u64"} -> 64
Signed(t) == t \in {"i8", "i16", "i32", "i64", "int"}

ArithOps == {"add", "sub", "mul", "quo", "rem", "and", "or", "xor", "andnot"}
CmpOps   == {"eq", "ne", "lt", "le", "gt", "ge"}

PanicVal == [p |-> TRUE]
Val(t, v) == [p |-> FALSE, t |-> t, v |-> v]
BoolVal(b) == [p |-> FALSE, t |-> "bool", v |-> <<IF b THEN 1 ELSE 0>>]

Arith(op, t, a, b) ==
  CASE op = "add" -> Val(t, Add(a, b))
    [] op = "sub" -> Val(t, Sub(a, b))
    [] op = "mul" -> Val(t, Mul(a, b))
    [] op = "and" -> Val(t, And(a, b))
    [] op = "or"  -> Val(t, Or(a, b))
    [] op = "xor" -> Val(t, Xor(a, b))
    [] op = "andnot" -> Val(t, AndNot(a, b))
    [] op = "quo" -> IF IsZero(b) THEN PanicVal
                     ELSE Val(t, (IF Signed(t) THEN SDivMod(a, b) ELSE UDivMod(a, b))[1])
    [] op = "rem" -> IF IsZero(b) THEN PanicVal
                     ELSE Val(t, (IF Signed(t) THEN SDivMod(a, b) ELSE UDivMod(a, b))[2])

Less(t, a, b) == IF Signed(t) THEN SLess(a, b) ELSE ULess(a, b)
Cmp(op, t, a, b) ==
  CASE op = "eq" -> a = b
    [] op = "ne" -> a # b
    [] op = "lt" -> Less(t, a, b)
    [] op = "le" -> ~Less(t, b, a)
    [] op = "gt" -> Less(t, b, a)
    [] op = "ge" -> ~Less(t, a, b)

\* shift count: the unsigned value of the count operand; anything >= 2^31
\* certainly exceeds every width
CountOf(v) == IF \E i \in 32..Len(v) : v[i] = 1 THEN 2147483647
              ELSE NatOf(v, 1, IF Len(v) < 31 THEN Len(v) ELSE 31)

(***************************************************************************)
(* Expression trees (JSON friendly: tuples of strings, numbers, tuples).   *)
(*   <<"var", t, limbs>>   run-time operand                                *)
(*   <<"lit", t, limbs>>   constant operand                                *)
(*   <<"bin", op, e1, e2>> arithmetic, same operand type                   *)
(*   <<"cmp", op, e1, e2>>                                                 *)
(*   <<"shl", e, cnt>>  <<"shr", e, cnt>>   cnt of an unsigned type        *)
(*   <<"neg", e>>  <<"com", e>>  (unary - and ^)                           *)
(*   <<"conv", t2, e>>                                                     *)
(***************************************************************************)
RECURSIVE Eval(_)
Eval(e) ==
  CASE e[1] \in {"var", "lit"} -> Val(e[2], FromLimbs(e[3], W(e[2])))
    [] e[1] = "bin" -> LET x == Eval(e[3]) IN IF x.p THEN PanicVal ELSE
                       LET y == Eval(e[4]) IN IF y.p THEN PanicVal ELSE Arith(e[2], x.t, x.v, y.v)
    [] e[1] = "cmp" -> LET x == Eval(e[3]) IN IF x.p THEN PanicVal ELSE
                       LET y == Eval(e[4]) IN IF y.p THEN PanicVal ELSE BoolVal(Cmp(e[2], x.t, x.v, y.v))
    [] e[1] = "shl" -> LET x == Eval(e[2]) IN IF x.p THEN PanicVal ELSE
                       LET y == Eval(e[3]) IN IF y.p THEN PanicVal ELSE Val(x.t, Shl(x.v, CountOf(y.v)))
    [] e[1] = "shr" -> LET x == Eval(e[2]) IN IF x.p THEN PanicVal ELSE
                       LET y == Eval(e[3]) IN IF y.p THEN PanicVal ELSE
                       Val(x.t, IF Signed(x.t) THEN ShrS(x.v, CountOf(y.v)) ELSE ShrU(x.v, CountOf(y.v)))
    [] e[1] = "neg" -> LET x == Eval(e[2]) IN IF x.p THEN PanicVal ELSE Val(x.t, Neg(x.v))
    [] e[1] = "com" -> LET x == Eval(e[2]) IN IF x.p THEN PanicVal ELSE Val(x.t, Not(x.v))
    [] e[1] = "conv" -> LET x == Eval(e[3]) IN IF x.p THEN PanicVal ELSE Val(e[2], Conv(x.v, Signed(x.t), W(e[2])))

\* result as emitted: <<-1>> for a run-time panic, else the limbs
Result(e) == LET r == Eval(e) IN IF r.p THEN <<-1>> ELSE ToLimbs(r.v)
=============================================================================
