------------------------------- MODULE BitsFn -------------------------------
(***************************************************************************)
(* Reference semantics of package math/bits (C13), width-generic, on the   *)
(* bit vectors of Bits.tla.  GopherJS replaces Mul32, Add32, Div32 and     *)
(* Rem32 by 32-bit-only code (no 64-bit intermediate) and compiles the     *)
(* other functions from the Go sources; all of them are specified here for *)
(* an arbitrary width w (the functions of width 32 and 64 are instances).  *)
(*                                                                         *)
(*   MulW(x, y)        = <<hi, lo>>     the 2w-bit product                 *)
(*   AddW(x, y, c)     = <<sum, carry>> c, carry in {0,1} (as w-bit values)*)
(*   SubW(x, y, b)     = <<diff, borrow>>                                  *)
(*   DivW(hi, lo, y)   = <<quo, rem>>   panics: y = 0 (divide error),      *)
(*                                      y <= hi (overflow error)           *)
(*   RemW(hi, lo, y)   = rem            panics only for y = 0              *)
(*   LeadingZeros, TrailingZeros, OnesCount, Len (results as numbers),     *)
(*   RotateLeft(x, k) (k any integer), Reverse, ReverseBytes               *)
(*                                                                         *)
(* A result is a tuple of w-bit vectors / numbers, or a panic:             *)
(*   [p |-> 0, r |-> <<...>>]   p = 1 divide by zero, p = 2 overflow       *)
(* BitsFnScen.tla validates the definitions at w = 8 against integer       *)
(* arithmetic for ALL operands and enumerates the 32/64-bit cases.         *)
(***************************************************************************)
EXTENDS Bits

ZX(v, w2) == Conv(v, FALSE, w2)
Lo(v, w) == SubSeq(v, 1, w)
Hi(v, w) == SubSeq(v, w + 1, 2 * w)
Cat(hi, lo) == lo \o hi                       \* bit vectors are LSB first

RetV(r) == [p |-> 0, r |-> r]
PanicDivide == [p |-> 1, r |-> <<>>]
PanicOverflow == [p |-> 2, r |-> <<>>]

MulW(x, y) == LET w == Len(x) p == Mul(ZX(x, 2 * w), ZX(y, 2 * w)) IN RetV(<<Hi(p, w), Lo(p, w)>>)
AddW(x, y, c) == LET w == Len(x) s == Add(Add(ZX(x, 2 * w), ZX(y, 2 * w)), ZX(c, 2 * w))
                 IN RetV(<<Lo(s, w), FromNat(s[w + 1], w)>>)
SubW(x, y, b) == LET w == Len(x) s == Sub(Sub(ZX(x, 2 * w), ZX(y, 2 * w)), ZX(b, 2 * w))
                 IN RetV(<<Lo(s, w), FromNat(s[w + 1], w)>>)
DivW(hi, lo, y) == LET w == Len(y) IN
                   IF IsZero(y) THEN PanicDivide
                   ELSE IF ~ULess(hi, y) THEN PanicOverflow
                   ELSE LET qr == UDivMod(Cat(hi, lo), ZX(y, 2 * w)) IN RetV(<<Lo(qr[1], w), Lo(qr[2], w)>>)
RemW(hi, lo, y) == LET w == Len(y) IN
                   IF IsZero(y) THEN PanicDivide
                   ELSE RetV(<<Lo(UDivMod(Cat(hi, lo), ZX(y, 2 * w))[2], w)>>)

\* counting functions: results are natural numbers
RECURSIVE LZ(_, _)
LZ(x, i) == IF i = 0 THEN 0 ELSE IF x[i] = 1 THEN 0 ELSE 1 + LZ(x, i - 1)
LeadingZeros(x) == LZ(x, Len(x))
RECURSIVE TZ(_, _)
TZ(x, i) == IF i > Len(x) THEN 0 ELSE IF x[i] = 1 THEN 0 ELSE 1 + TZ(x, i + 1)
TrailingZeros(x) == TZ(x, 1)                                   \* = w for x = 0
RECURSIVE OC(_, _)
OC(x, i) == IF i = 0 THEN 0 ELSE x[i] + OC(x, i - 1)
OnesCount(x) == OC(x, Len(x))
BitLen(x) == Len(x) - LeadingZeros(x)
\* k may be negative (rotate right); bit i of the result is bit i-k of x (mod w)
RotateLeft(x, k) == LET w == Len(x) IN TLCEval([i \in 1..w |-> x[((i - 1 - k) % w) + 1]])
Reverse(x) == LET w == Len(x) IN TLCEval([i \in 1..w |-> x[w + 1 - i]])
ReverseBytes(x) == LET w == Len(x) nb == w \div 8 IN
                   TLCEval([i \in 1..w |-> x[8 * (nb - 1 - ((i - 1) \div 8)) + ((i - 1) % 8) + 1]])
=============================================================================
