----------------------------- MODULE GoChanProg -----------------------------
(***************************************************************************)
(* Forward model for C03: goroutines run straight-line programs that are   *)
(* constructed ON DEMAND: when a goroutine reaches the end of its program  *)
(* TLC either lets it return or appends one more instruction from the      *)
(* alphabet.  TLC therefore explores exactly the (program, schedule) pairs *)
(* that differ in behaviour, sharing prefixes; programs whose goroutine     *)
(* blocks for ever are not extended behind the blocking instruction.       *)
(* Every terminal state (main returned / all asleep) writes the program as *)
(* one JSON line; the harness renders it as Go, runs it on the real run    *)
(* time under scripted scheduling choices and validates the recorded       *)
(* traces with GoChanTrace.                                                *)
(***************************************************************************)
EXTENDS GoChan, Json, CSV

\* c03_params.json (written by the harness):
\*   K: K[g] maximal number of instructions of goroutine g (besides main's go statements)
\*   caps: sequence of capacity assignments, e.g. [[0,1],[1,1]]
\*   alpha: instruction kinds to use, subset of send recv close sel seld len yield range nil
\*   out: output file
Params == JsonDeserialize("c03_params.json")
K == Params.K
Caps == {Params.caps[i] : i \in DOMAIN Params.caps}
Alpha == {Params.alpha[i] : i \in DOMAIN Params.alpha}
OutFile == Params.out

VARIABLES prog, pc
vars == <<cvars, prog, pc>>

Spawned == 2..NG

ChanSet == Chans \cup (IF "nil" \in Alpha THEN {0} ELSE {})
Offers1 == {<< <<d, c, 0>> >> : d \in {"s", "r"}, c \in Chans}
Offers2 == {<< <<d1, c1, 0>>, <<d2, c2, 0>> >> : d1 \in {"s", "r"}, d2 \in {"s", "r"}, c1 \in Chans, c2 \in ChanSet}
Instrs ==
  (IF "send" \in Alpha THEN {<<"send", c>> : c \in ChanSet} ELSE {})
  \cup (IF "recv" \in Alpha THEN {<<"recv", c>> : c \in ChanSet} ELSE {})
  \cup (IF "close" \in Alpha THEN {<<"close", c>> : c \in ChanSet} ELSE {})
  \cup (IF "len" \in Alpha THEN {<<"len", c>> : c \in Chans} ELSE {})
  \cup (IF "yield" \in Alpha THEN {<<"yield">>} ELSE {})
  \cup (IF "range" \in Alpha THEN {<<"range", c>> : c \in Chans} ELSE {})
  \cup (IF "sel" \in Alpha THEN {<<"sel", o, FALSE>> : o \in Offers2} ELSE {})
  \cup (IF "seld" \in Alpha THEN {<<"sel", o, TRUE>> : o \in Offers1 \cup Offers2} ELSE {})

Init ==
  /\ CInit
  /\ cap \in {[c \in Chans |-> cs[c]] : cs \in Caps}
  /\ prog = [g \in G |-> IF g = 1 THEN [h \in 1..(NG-1) |-> <<"go", h + 1>>] ELSE <<>>]
  /\ pc = [g \in G |-> 1]

AtEnd(g) == pc[g] > Len(prog[g])
Limit(g) == IF g = 1 THEN K[1] + NG - 1 ELSE K[g]

Extend(g) ==
  /\ Live /\ st[g] = "run" /\ AtEnd(g) /\ Len(prog[g]) < Limit(g)
  /\ \E ins \in Instrs : prog' = [prog EXCEPT ![g] = Append(@, ins)]
  /\ UNCHANGED <<cvars, pc>>

Finish(g) ==
  /\ AtEnd(g) /\ Exit(g)
  /\ UNCHANGED <<prog, pc>>

StepInvoke(g) ==
  /\ ~AtEnd(g)
  /\ LET ins == prog[g][pc[g]] IN
     IF ins[1] = "go"
     THEN /\ Spawn(g, ins[2]) /\ pc' = [pc EXCEPT ![g] = @ + 1]
     ELSE /\ Invoke(g, OpOf(g, pc[g], ins)) /\ UNCHANGED pc
  /\ UNCHANGED prog

StepRespond(g) ==
  /\ Respond(g)
  /\ LET ins == prog[g][pc[g]] IN
     pc' = [pc EXCEPT ![g] = IF ins[1] = "range" /\ res[g].ok THEN @ ELSE @ + 1]
  /\ UNCHANGED prog

Next ==
  \/ \E g \in G : Extend(g) \/ Finish(g) \/ StepInvoke(g) \/ StepRespond(g)
  \/ (Lin /\ UNCHANGED <<prog, pc>>)
  \/ (DeadlockStep /\ UNCHANGED <<prog, pc>>)

Spec == Init /\ [][Next]_vars

(***************************************************************************)
(* Properties of the reference semantics checked on every reachable state  *)
(***************************************************************************)
\* the run ends in "deadlock" only when nothing could ever proceed, and a state
\* in which nothing can proceed and main has not returned is reported
DeadlockExact ==
  /\ (ended = "deadlock" => \A g \in G : st[g] \in {"off", "pend", "done"})
  /\ (Live /\ ~ENABLED Next => FALSE)          \* no silent stop: every stuck state is reported
\* a channel never holds more than its capacity, values are never invented
BufOK == \A c \in Chans : /\ Len(buf[c]) <= cap[c]
                          /\ \A i \in DOMAIN buf[c] : buf[c][i] > 100
\* a result handed to a receiver is a value some send instruction carries, or the zero value with ok = FALSE
ResOK == \A g \in G : st[g] = "res" /\ res[g].t \in {"val", "sel"} /\ res[g].ok /\ res[g].v # 0 => res[g].v > 100

Emit == ended # "" =>
  CSVWrite("%1$s", <<ToJson([caps |-> cap, prog |-> prog, ended |-> ended])>>, OutFile)
=============================================================================
