------------------------------- MODULE InitJS -------------------------------
(***************************************************************************)
(* C10 -- IMPLEMENTATION-SHAPED model of program start-up and of the       *)
(* emitted $init functions (code -> model).  Init.tla is the reference     *)
(* (Go rules); this module models what the generated JavaScript DOES, one  *)
(* action per step of the real code, and is bound to the real code by      *)
(* trace validation (InitJSTrace.tla, wrappers js/inittrace.js).           *)
(*                                                                         *)
(* WHAT IS MODELLED                                                        *)
(*  compiler/compiler.go WriteProgramCode (boot sequence of the file)      *)
(*    package bodies `$packages[p] = (function(){..})()` in link order     *)
(*                                  LoadPkg (reads $packages[imp]: imports *)
(*                                  must be loaded)                        *)
(*    $callForAllPackages("$finishSetup")     BootStep finishSetup         *)
(*    $synthesizeMethods()                    BootStep synth               *)
(*    $callForAllPackages("$initLinknames")   BootStep initLinknames       *)
(*    $packages["runtime"].$init()            BootStep rtinit              *)
(*    $go($mainPkg.$init, [])                 BootStep go  (the function   *)
(*                                  VALUE is captured here)                *)
(*    scheduler runs the goroutine            StartGoroutine               *)
(*  compiler/compiler.go WritePkgCode, the $init function of package p     *)
(*    $pkg.$init = function() {};             SelfReplace  (first          *)
(*                                  statement of the FUNCTION: executed on *)
(*                                  every entry, also on every resumption) *)
(*    var $f,$c=false,$s=0,$r; if (this.$blk !== undefined) {$f=this;      *)
(*      $c=true;$s=$f.$s;$r=$f.$r}  frame fields pc (= $s), c (= $c)       *)
(*    s: while (true) { switch ($s) { case 0:                              *)
(*    per import (decls.go importInitializer, sorted by import path,       *)
(*    Blocking+Flattened):                                                 *)
(*      $r = imp.$init(); $s = k; case k:     CallImport (orig: new frame; *)
(*                                  noop: returns undefined)               *)
(*      if ($c) {$c=false; $r=$r.$blk();}     ResumeChild                  *)
(*      if ($r && $r.$blk !== undefined) break s;   SuspendReturn of the   *)
(*                                  child sets r = blk in the parent; the  *)
(*                                  parent's own SuspendReturn follows     *)
(*    variable initialisers (go/types InitOrder), init functions, (main    *)
(*    package) main()               ItemRun: completes (marker) or returns *)
(*                                  a $blk object (r = blk); on resumption *)
(*                                  `$r = $r.$blk()` of the same statement *)
(*    $mainFinished = true;         SetMainFinished                        *)
(*    } return; }                   NormalReturn                           *)
(*    $f = {$blk: $init}; $f.$s = $s; $f.$r = $r; return $f;               *)
(*                                  SuspendReturn (the frame is saved; the *)
(*                                  caller frame sees r = blk)             *)
(*  goroutine: fun returned a $blk object -> parked; when woken calls      *)
(*    r.$blk() of the OUTERMOST frame          Wake                        *)
(*                                                                         *)
(* A program P is [np, imp, items, any]: imp[p] the imports of p in the    *)
(* EMITTED call order, items[p] the ids of the non-import statements of    *)
(* p's $init in emitted order (the last item of package 1 is main.main),   *)
(* any = TRUE: every item may suspend any number of times (trace           *)
(* validation: the recorded events decide), FALSE: item id suspends        *)
(* exactly susp[id] times (model checking).  P has the fields Init.tla's   *)
(* ImpSet / ImpStar / TopoOrders need, so the refinement is stated with    *)
(* the reference's own operators.                                          *)
(*                                                                         *)
(* EVENTS (variable ev = events of the last step, hist = all of them);     *)
(* they are exactly what js/inittrace.js logs from the real code:          *)
(*   boot steps  e = finishSetup | synth | initLinknames | rtinit | go     *)
(*   I+ p        original $init of p entered by a call                     *)
(*   X  p        $packages[p].$init assigned (self-replacement)            *)
(*   I0 p        the replaced (empty) $init of p called                    *)
(*   I- p s mf   the frame entered by I+ returns (s=1: a $blk object)      *)
(*   R+ p        saved frame of p re-entered through $blk                  *)
(*   R- p s mf   ... and returns; mf = $mainFinished at that moment        *)
(*   M  id       marker of item id (printed when the item completes)       *)
(*                                                                         *)
(* WHAT TLC CHECKS (cfg/InitJS.cfg; every import DAG of <= MaxPk packages, *)
(* edges from lower to higher index, every package imported; two items per *)
(* package + main.main; every assignment of suspension counts to items     *)
(* with total <= MaxSusp, so: none, the deepest import, a middle package,  *)
(* main's own items, main.main, the same item twice, two different ones):  *)
(*   InvOnce      (a) a package body is entered at most once, the          *)
(*                self-replacement precedes everything else of the body    *)
(*                (active or suspended frame => initFn = noop), a later    *)
(*                call hits the noop                                       *)
(*   InvDeps      (b) no item of p runs before every transitive import of  *)
(*                p has completed                                          *)
(*   InvQuiet     (c) every entered, uncompleted package has its frame on  *)
(*                the stack or in the saved chain; while part of the chain *)
(*                is saved the only running code is the resumption descent;*)
(*                parked => empty stack; the saved chain is a path of the  *)
(*                import graph from main ending at an item                 *)
(*   InvResume    (d) resumption re-enters the frames of the chain saved   *)
(*                at the last suspension outermost -> innermost, each at   *)
(*                its saved pc                                             *)
(*   InvMain      (e) main.main runs after every other package completed   *)
(*                and every other item ran; $mainFinished only after it    *)
(*   InvBoot      boot order: finishSetup < synth < initLinknames < rtinit *)
(*                < go; no $init frame before go                           *)
(*   Refines      (f) at exit the completion order is in                   *)
(*                Init!TopoOrders(P), equals the DFS post-order over the   *)
(*                emitted import-call order, every package completed once  *)
(*   deadlock     the machine is never stuck before exit                   *)
(*                                                                         *)
(* DEVIATION SWITCHES (CONSTANTS, FALSE in the check) reproduce realistic  *)
(* bugs; TLC must find the stated violation (non-vacuity; recorded         *)
(* 2026-09-24, tlc -workers 4):                                            *)
(*   cfg/InitJS_dev_replace.cfg   DevReplaceAfterBody: the self-           *)
(*       replacement is executed at the end of the body -> InvOnce         *)
(*   cfg/InitJS_dev_parent.cfg    DevParentContinuesAfterChildSuspends:    *)
(*       the `$r.$blk` check after an import call is missing -> InvDeps    *)
(*       (also InvQuiet)                                                   *)
(*   cfg/InitJS_dev_linknames.cfg DevLinknamesAfterRuntimeInit -> InvBoot  *)
(* The harness (props/c10/initjs.go) re-runs all four configurations on    *)
(* every invocation and requires completion / these violations.            *)
(***************************************************************************)
EXTENDS Init

CONSTANTS DevReplaceAfterBody, DevParentContinuesAfterChildSuspends, DevLinknamesAfterRuntimeInit,
          MaxPk, MaxSusp

VARIABLES prog,          \* the program (constant along a behaviour)
          phase,         \* idle | load | boot | sched | run | parked | exit
          loaded,        \* packages whose body has been evaluated
          boot,          \* number of boot steps done
          bootDone,      \* their names
          initFn,        \* initFn[p] : orig | noop    ($packages[p].$init)
          gofn,          \* function value captured by $go
          stack,         \* JS activation stack of $init frames (last = top)
          saved,         \* suspended frame chain, outermost first: <<[pkg, pc]>>
          lastChain,     \* the chain as it was at the last parking
          resumed,       \* frames re-entered since then
          calls,         \* calls[p] : how often the ORIGINAL body of p was entered
          done,          \* packages whose $init completed
          order,         \* ... in completion order
          left,          \* left[id] : suspensions item id still has to perform (any = FALSE)
          ran,           \* items completed
          mainFinished,  \* $mainFinished
          hist,          \* all events
          ev             \* events of the last step

vars == <<prog, phase, loaded, boot, bootDone, initFn, gofn, stack, saved, lastChain, resumed,
          calls, done, order, left, ran, mainFinished, hist, ev>>

(***************************************************************************)
(* structure of the emitted $init of package p                             *)
(***************************************************************************)
NI(P, p)   == Len(P.imp[p])
NT(P, p)   == Len(P.items[p])
\* pc 1..NI: import calls, NI+1..NI+NT: items, (main) NI+NT+1: $mainFinished = true, End: return
End(P, p)  == NI(P, p) + NT(P, p) + (IF p = 1 THEN 2 ELSE 1)
IsImpPc(P, p, pc)  == pc \in 1..NI(P, p)
IsItemPc(P, p, pc) == pc \in (NI(P, p) + 1)..(NI(P, p) + NT(P, p))
ItemAt(P, p, pc)   == P.items[p][pc - NI(P, p)]
ItemIds(P)  == UNION {{P.items[p][k] : k \in DOMAIN P.items[p]} : p \in 1..P.np}
PkgOfItem(P, id) == CHOOSE p \in 1..P.np : \E k \in DOMAIN P.items[p] : P.items[p][k] = id
MainItem(P) == P.items[1][Len(P.items[1])]

BootSeq == IF DevLinknamesAfterRuntimeInit
           THEN <<"finishSetup", "synth", "rtinit", "initLinknames", "go">>
           ELSE <<"finishSetup", "synth", "initLinknames", "rtinit", "go">>

E(e, p, s, id) == [e |-> e, p |-> p, s |-> s, id |-> id, mf |-> 0]
ERet(res, p, s) == [e |-> IF res THEN "R-" ELSE "I-", p |-> p, s |-> s, id |-> 0,
                    mf |-> IF mainFinished THEN 1 ELSE 0]
Frame(p, pc, c, res) == [pkg |-> p, st |-> "replace", pc |-> pc, c |-> c, r |-> "none", res |-> res]

(***************************************************************************)
(* the start state for a program                                           *)
(***************************************************************************)
StartOf(P, susp) ==
  /\ prog = P /\ phase = "load" /\ loaded = {} /\ boot = 0 /\ bootDone = {}
  /\ initFn = [p \in 1..P.np |-> "orig"] /\ gofn = "none"
  /\ stack = <<>> /\ saved = <<>> /\ lastChain = <<>> /\ resumed = <<>>
  /\ calls = [p \in 1..P.np |-> 0] /\ done = {} /\ order = <<>>
  /\ left = susp /\ ran = {} /\ mainFinished = FALSE /\ hist = <<>> /\ ev = <<>>

(***************************************************************************)
(* actions                                                                 *)
(***************************************************************************)
Emit(es) == ev' = es /\ hist' = hist \o es
Top      == stack[Len(stack)]
Running  == phase = "run" /\ stack # <<>>
SetTop(f) == [stack EXCEPT ![Len(stack)] = f]
Pop      == SubSeq(stack, 1, Len(stack) - 1)

\* `$packages[p] = (function() { ... p3 = $packages["vp/p3"]; ... })();`
LoadPkg(p) ==
  /\ phase = "load" /\ p \notin loaded /\ ImpSet(prog, p) \subseteq loaded
  /\ loaded' = loaded \cup {p}
  /\ Emit(<<>>)
  /\ UNCHANGED <<prog, phase, boot, bootDone, initFn, gofn, stack, saved, lastChain, resumed, calls, done, order, left, ran, mainFinished>>

LoadDone ==
  /\ phase = "load" /\ loaded = 1..prog.np
  /\ phase' = "boot"
  /\ Emit(<<>>)
  /\ UNCHANGED <<prog, loaded, boot, bootDone, initFn, gofn, stack, saved, lastChain, resumed, calls, done, order, left, ran, mainFinished>>

\* the five statements after the package bodies
BootStep ==
  /\ phase = "boot" /\ boot < Len(BootSeq)
  /\ LET s == BootSeq[boot + 1] IN
     /\ boot' = boot + 1 /\ bootDone' = bootDone \cup {s}
     /\ gofn' = IF s = "go" THEN initFn[1] ELSE gofn
     /\ phase' = IF s = "go" THEN "sched" ELSE phase
     /\ Emit(<<E(s, 0, 0, 0)>>)
  /\ UNCHANGED <<prog, loaded, initFn, stack, saved, lastChain, resumed, calls, done, order, left, ran, mainFinished>>

\* the scheduler runs the goroutine: fun.apply(undefined, [])
StartGoroutine ==
  /\ phase = "sched"
  /\ IF gofn = "orig"
     THEN /\ stack' = <<Frame(1, 1, FALSE, FALSE)>>
          /\ calls' = [calls EXCEPT ![1] = @ + 1]
          /\ phase' = "run"
          /\ Emit(<<E("I+", 1, 0, 0)>>)
     ELSE /\ phase' = "exit" /\ Emit(<<E("I0", 1, 0, 0)>>) /\ UNCHANGED <<stack, calls>>
  /\ UNCHANGED <<prog, loaded, boot, bootDone, initFn, gofn, saved, lastChain, resumed, done, order, left, ran, mainFinished>>

\* `$pkg.$init = function() {};` -- first statement of the function
SelfReplace ==
  /\ Running /\ Top.st = "replace"
  /\ stack' = SetTop([Top EXCEPT !.st = "body"])
  /\ IF DevReplaceAfterBody
     THEN Emit(<<>>) /\ UNCHANGED initFn
     ELSE Emit(<<E("X", Top.pkg, 0, 0)>>) /\ initFn' = [initFn EXCEPT ![Top.pkg] = "noop"]
  /\ UNCHANGED <<prog, phase, loaded, boot, bootDone, gofn, saved, lastChain, resumed, calls, done, order, left, ran, mainFinished>>

\* `$r = imp.$init();`
CallImport ==
  /\ Running /\ Top.st = "body" /\ ~Top.c /\ Top.r = "none" /\ IsImpPc(prog, Top.pkg, Top.pc)
  /\ LET q == prog.imp[Top.pkg][Top.pc] IN
     IF initFn[q] = "orig"
     THEN /\ stack' = Append(stack, Frame(q, 1, FALSE, FALSE))
          /\ calls' = [calls EXCEPT ![q] = @ + 1]
          /\ Emit(<<E("I+", q, 0, 0)>>)
     ELSE /\ stack' = SetTop([Top EXCEPT !.pc = @ + 1])       \* undefined: falls through to the next statement
          /\ Emit(<<E("I0", q, 0, 0)>>)
          /\ UNCHANGED calls
  /\ UNCHANGED <<prog, phase, loaded, boot, bootDone, initFn, gofn, saved, lastChain, resumed, done, order, left, ran, mainFinished>>

\* re-entered frame at an import call: `if ($c) { $c = false; $r = $r.$blk(); }`
ResumeChild ==
  /\ Running /\ Top.st = "body" /\ Top.c /\ IsImpPc(prog, Top.pkg, Top.pc) /\ saved # <<>>
  /\ LET ch == Head(saved) IN
     /\ stack' = Append(SetTop([Top EXCEPT !.c = FALSE]), Frame(ch.pkg, ch.pc, TRUE, TRUE))
     /\ saved' = Tail(saved)
     /\ resumed' = Append(resumed, ch)
     /\ Emit(<<E("R+", ch.pkg, 0, 0)>>)
  /\ UNCHANGED <<prog, phase, loaded, boot, bootDone, initFn, gofn, lastChain, calls, done, order, left, ran, mainFinished>>

\* a variable initialiser / init function / main(): first call (c = FALSE) or
\* `$r = $r.$blk()` (c = TRUE); it completes (marker) or returns a $blk object
ItemRun ==
  /\ Running /\ Top.st = "body" /\ Top.r = "none" /\ IsItemPc(prog, Top.pkg, Top.pc)
  /\ LET id == ItemAt(prog, Top.pkg, Top.pc) IN
     \/ /\ (IF prog.any THEN TRUE ELSE left[id] = 0)
        /\ stack' = SetTop([Top EXCEPT !.pc = @ + 1, !.c = FALSE])
        /\ ran' = ran \cup {id}
        /\ Emit(<<E("M", 0, 0, id)>>)
        /\ UNCHANGED left
     \/ /\ (IF prog.any THEN TRUE ELSE left[id] > 0)
        /\ stack' = SetTop([Top EXCEPT !.r = "blk", !.c = FALSE])
        /\ left' = IF prog.any THEN left ELSE [left EXCEPT ![id] = @ - 1]
        /\ Emit(<<>>)
        /\ UNCHANGED ran
  /\ UNCHANGED <<prog, phase, loaded, boot, bootDone, initFn, gofn, saved, lastChain, resumed, calls, done, order, mainFinished>>

\* `$mainFinished = true;` (main package, after main() returned)
SetMainFinished ==
  /\ Running /\ Top.st = "body" /\ Top.r = "none" /\ Top.pkg = 1 /\ Top.pc = End(prog, 1) - 1
  /\ mainFinished' = TRUE
  /\ stack' = SetTop([Top EXCEPT !.pc = @ + 1])
  /\ Emit(<<>>)
  /\ UNCHANGED <<prog, phase, loaded, boot, bootDone, initFn, gofn, saved, lastChain, resumed, calls, done, order, left, ran>>

\* `if ($r && $r.$blk !== undefined) break s; ... $f.$s = $s; $f.$r = $r; return $f;`
SuspendReturn ==
  /\ Running /\ Top.st = "body" /\ Top.r = "blk"
  /\ LET f == Top rest == Pop IN
     /\ Emit(<<ERet(f.res, f.pkg, 1)>>)
     /\ IF rest = <<>>
        THEN /\ stack' = rest /\ phase' = "parked"
             /\ saved' = <<[pkg |-> f.pkg, pc |-> f.pc]>> \o saved
             /\ lastChain' = saved' /\ resumed' = <<>>
        ELSE LET par == rest[Len(rest)] IN
             IF DevParentContinuesAfterChildSuspends
             THEN \* the parent does not look at $r: next statement; the child's frame object is garbage
                  /\ stack' = [rest EXCEPT ![Len(rest)] = [par EXCEPT !.pc = @ + 1]]
                  /\ saved' = <<>> /\ UNCHANGED <<phase, lastChain, resumed>>
             ELSE /\ stack' = [rest EXCEPT ![Len(rest)] = [par EXCEPT !.r = "blk"]]
                  /\ saved' = <<[pkg |-> f.pkg, pc |-> f.pc]>> \o saved
                  /\ UNCHANGED <<phase, lastChain, resumed>>
  /\ UNCHANGED <<prog, loaded, boot, bootDone, initFn, gofn, calls, done, order, left, ran, mainFinished>>

\* deviation only: the self-replacement sits at the end of the body
LateReplace ==
  /\ DevReplaceAfterBody
  /\ Running /\ Top.st = "body" /\ Top.r = "none" /\ Top.pc = End(prog, Top.pkg) /\ initFn[Top.pkg] = "orig"
  /\ initFn' = [initFn EXCEPT ![Top.pkg] = "noop"]
  /\ Emit(<<E("X", Top.pkg, 0, 0)>>)
  /\ UNCHANGED <<prog, phase, loaded, boot, bootDone, gofn, stack, saved, lastChain, resumed, calls, done, order, left, ran, mainFinished>>

\* `} return; }` : the body is complete, the function returns undefined
NormalReturn ==
  /\ Running /\ Top.st = "body" /\ Top.r = "none" /\ Top.pc = End(prog, Top.pkg)
  /\ DevReplaceAfterBody => initFn[Top.pkg] = "noop"
  /\ LET f == Top rest == Pop IN
     /\ Emit(<<ERet(f.res, f.pkg, 0)>>)
     /\ done' = done \cup {f.pkg} /\ order' = Append(order, f.pkg)
     /\ IF rest = <<>>
        THEN stack' = rest /\ phase' = "exit"
        ELSE /\ stack' = [rest EXCEPT ![Len(rest)] = [rest[Len(rest)] EXCEPT !.pc = @ + 1]]
             /\ UNCHANGED phase
  /\ UNCHANGED <<prog, loaded, boot, bootDone, initFn, gofn, saved, lastChain, resumed, calls, left, ran, mainFinished>>

\* the parked goroutine is woken: fun = function() { return r.$blk(); }
Wake ==
  /\ phase = "parked" /\ saved # <<>>
  /\ LET ch == Head(saved) IN
     /\ stack' = <<Frame(ch.pkg, ch.pc, TRUE, TRUE)>>
     /\ saved' = Tail(saved)
     /\ resumed' = <<ch>>
     /\ phase' = "run"
     /\ Emit(<<E("R+", ch.pkg, 0, 0)>>)
  /\ UNCHANGED <<prog, loaded, boot, bootDone, initFn, gofn, lastChain, calls, done, order, left, ran, mainFinished>>

Step ==
  \/ \E p \in 1..prog.np : LoadPkg(p)
  \/ LoadDone \/ BootStep \/ StartGoroutine \/ SelfReplace \/ CallImport \/ ResumeChild \/ ItemRun
  \/ SetMainFinished \/ SuspendReturn \/ LateReplace \/ NormalReturn \/ Wake

Terminated == phase = "exit" /\ UNCHANGED vars
Next == Step \/ Terminated

(***************************************************************************)
(* programs enumerated for model checking                                  *)
(***************************************************************************)
Edges(np) == {e \in (1..np) \X (1..np) : e[1] < e[2]}
Dags(np)  == {X \in SUBSET Edges(np) : \A j \in 2..np : \E i \in 1..(j - 1) : <<i, j>> \in X}
AscSeq(X) == SetToSortSeq(X, LAMBDA a, b : a < b)
MkProg(np, X) ==
  [np |-> np,
   imp |-> [p \in 1..np |-> AscSeq({j \in 1..np : <<p, j>> \in X})],     \* emitted order: sorted by import path
   items |-> [p \in 1..np |-> IF p = 1 THEN <<11, 12, 13>> ELSE <<10 * p + 1, 10 * p + 2>>],
   any |-> FALSE]
MCProgs == UNION {{MkProg(np, X) : X \in Dags(np)} : np \in 1..MaxPk}
\* every assignment of suspension counts to the items with total <= MaxSusp
RECURSIVE SuspUpTo(_, _)
SuspUpTo(P, n) ==
  IF n = 0 THEN {[id \in ItemIds(P) |-> 0]}
  ELSE LET S == SuspUpTo(P, n - 1) IN S \cup {[f EXCEPT ![a] = @ + 1] : f \in S, a \in ItemIds(P)}
SuspChoices(P) == SuspUpTo(P, MaxSusp)

MCInit == \E P \in MCProgs : \E s \in SuspChoices(P) : StartOf(P, s)
Spec == MCInit /\ [][Next]_vars

(***************************************************************************)
(* invariants                                                              *)
(***************************************************************************)
PkgsOnStack == {stack[k].pkg : k \in DOMAIN stack}
PkgsSaved   == {saved[k].pkg : k \in DOMAIN saved}
Entered     == {p \in 1..prog.np : calls[p] > 0}
Completions(k) == {hist[j].p : j \in {h \in 1..(k - 1) : hist[h].e \in {"I-", "R-"} /\ hist[h].s = 0}}

\* (a)
InvOnce ==
  /\ \A p \in 1..prog.np : calls[p] <= 1
  /\ \A k \in DOMAIN stack : stack[k].st = "body" => initFn[stack[k].pkg] = "noop"
  /\ \A k \in DOMAIN saved : initFn[saved[k].pkg] = "noop"
  /\ \A p \in done : initFn[p] = "noop"
  /\ \A k \in DOMAIN hist : hist[k].e = "I0" => \E j \in 1..(k - 1) : hist[j].e = "I+" /\ hist[j].p = hist[k].p

\* (b)
InvDeps ==
  \A k \in DOMAIN hist : hist[k].e = "M" => ImpStar(prog, PkgOfItem(prog, hist[k].id)) \subseteq Completions(k)

\* (c)
InvQuiet ==
  /\ Entered \ done = PkgsOnStack \cup PkgsSaved
  /\ PkgsOnStack \cap PkgsSaved = {}
  /\ (stack # <<>> /\ saved # <<>>) => (Top.r = "blk" \/ (Top.res /\ (Top.st = "replace" \/ Top.c)))
  /\ phase = "parked" => stack = <<>> /\ saved # <<>> /\ saved[1].pkg = 1
  /\ phase \in {"load", "boot", "sched", "exit"} => stack = <<>> /\ saved = <<>>
  /\ \A k \in DOMAIN saved :
       IF k < Len(saved)
       THEN IsImpPc(prog, saved[k].pkg, saved[k].pc) /\ prog.imp[saved[k].pkg][saved[k].pc] = saved[k + 1].pkg
       ELSE IsItemPc(prog, saved[k].pkg, saved[k].pc)
  \* between the suspension of the outermost frame and its re-entry nothing of any $init runs
  /\ \A k \in DOMAIN hist : (hist[k].e \in {"I-", "R-"} /\ hist[k].p = 1 /\ hist[k].s = 1 /\ k < Len(hist))
        => hist[k + 1].e = "R+" /\ hist[k + 1].p = 1

\* (d)
InvResume ==
  /\ Len(resumed) <= Len(lastChain) /\ \A k \in DOMAIN resumed : resumed[k] = lastChain[k]
  /\ (phase = "run" /\ stack # <<>> /\ lastChain # <<>> /\ saved # <<>> /\ Top.r # "blk") => resumed \o saved = lastChain
  /\ \A k \in DOMAIN stack : stack[k].res => (k <= Len(resumed) /\ resumed[k].pkg = stack[k].pkg)

\* (e)
InvMain ==
  /\ MainItem(prog) \in ran => (ItemIds(prog) \subseteq ran /\ (1..prog.np) \ {1} \subseteq done)
  /\ mainFinished => MainItem(prog) \in ran
  /\ \A k \in DOMAIN hist : hist[k].mf = 1 => (hist[k].p = 1 /\ hist[k].s = 0)
  /\ 1 \in done => mainFinished

InvBoot ==
  /\ "synth" \in bootDone => "finishSetup" \in bootDone
  /\ "initLinknames" \in bootDone => "synth" \in bootDone
  /\ "rtinit" \in bootDone => "initLinknames" \in bootDone
  /\ "go" \in bootDone => "rtinit" \in bootDone
  /\ bootDone # {} => loaded = 1..prog.np
  /\ Entered # {} => "go" \in bootDone

\* (f) the emitted import-call order determines the completion order: DFS post-order
RECURSIVE DfsVisit(_, _, _), DfsList(_, _, _, _)
DfsList(S, lst, k, acc) ==
  IF k > Len(lst) THEN acc
  ELSE DfsList(S, lst, k + 1, IF lst[k] \in {acc[i] : i \in DOMAIN acc} THEN acc ELSE DfsVisit(S, lst[k], acc))
DfsVisit(S, p, acc) == Append(DfsList(S, S.imp[p], 1, acc), p)
DfsPost(S) == DfsVisit(S, 1, <<>>)

Refines ==
  phase = "exit" =>
    /\ order \in TopoOrders(prog)
    /\ order = DfsPost(prog)
    /\ done = 1..prog.np /\ mainFinished /\ ran = ItemIds(prog)
    /\ \A p \in 1..prog.np : calls[p] = 1 /\ initFn[p] = "noop"
    /\ (IF prog.any THEN TRUE ELSE \A id \in ItemIds(prog) : left[id] = 0)

InvAll == InvOnce /\ InvDeps /\ InvQuiet /\ InvResume /\ InvMain /\ InvBoot /\ Refines

\* coverage bookkeeping for the harness (printed once per TLC run)
ASSUME PrintT(<<"INITJS_DAGS", Cardinality(MCProgs), "INITJS_PROGRAMS",
                   FoldSet(LAMBDA P, acc : acc + Cardinality(SuspChoices(P)), 0, MCProgs)>>)
=============================================================================
