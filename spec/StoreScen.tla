----------------------------- MODULE StoreScen -----------------------------
(***************************************************************************)
(* Scenario enumeration for C07.                                           *)
(*                                                                         *)
(* A scenario = (type shape T, rendering variant, context, mutated side,   *)
(* mutated path | whole value) and its predicted probe integers, obtained  *)
(* by EXECUTING the scenario's instruction sequence on the abstract store  *)
(* of Store.tla:                                                           *)
(*      pre(context) ; mutation ; post(context) ; out src ; out dst        *)
(* The harness renders the same scenario from the Go template of the       *)
(* context (harness/props/c07/contexts.go, keyed by the context name n)    *)
(* and compares what the compiled program prints with pred.                *)
(*                                                                         *)
(* State space: start -> unit = (shape, variant) -> cx = context -> row = (side, *)
(* whole?, path index).  Every row state is one scenario; the "invariant"  *)
(* Emit writes it as one short JSON line (one file per unit).              *)
(* Invariants that TLC checks on the specification itself:                 *)
(*   CopyOK     Copy of a fresh value of every shape shares no array or    *)
(*              struct location with the original, allocates only, reads   *)
(*              the same integers and holds the same references            *)
(*   RowOK      NoSharing holds after every instruction of every scenario; *)
(*              aliasing contexts yield the SAME storage for src and dst;  *)
(*              the statement of C07 holds on the model: in a copying      *)
(*              context a mutation of one side that does not go through a  *)
(*              reference is not visible on the other side, in an aliasing *)
(*              context (or through a reference field) both sides agree    *)
(*              (the harness turns c.same into a pointer-equality probe)   *)
(*   CtxOK      every copying context is discriminated: some scenario of   *)
(*              it predicts differently when that context's copy is        *)
(*              skipped (so the scenario set can see a missing clone)      *)
(*                                                                         *)
(* Params (c07_params.json): seed; num, den (num/den of the (shape,        *)
(* variant, context) triples); rnum, rden (rnum/rden of the rows of a      *)
(* chosen triple); everything when num = den and rnum = rden; variants; out*)
(***************************************************************************)
EXTENDS Store, Json, CSV

Params == JsonDeserialize("c07_params.json")
OutFile == Params.out
Variants == Params.variants       \* rendering variants of a shape (named/anonymous inner types, leaf type)

\* ---------------------------------------------------------------- shapes
I == <<"int">>
A1 == <<"arr", I>>                 \* [2]int
S1 == <<"st", I, I>>               \* struct{a, b int}
Refs == << <<"ptr", I>>, <<"ptr", A1>>, <<"ptr", S1>>, <<"sl", I>>, <<"sl", A1>>, <<"sl", S1>>, <<"mp", I>> >>
Fields == <<A1, S1>> \o Refs
\* nesting <= 2: depth-1 values, arrays of them, structs with one non-trivial field in
\* either position, two nested values, embedded structs
Shapes ==
  <<A1, S1, <<"arr", A1>>, <<"arr", S1>>>>
  \o [i \in 1..Len(Fields) |-> <<"st", Fields[i], I>>]
  \o [i \in 1..Len(Fields) |-> <<"st", I, Fields[i]>>]
  \o << <<"st", A1, S1>>, <<"st", S1, S1>>, <<"st", <<"ptr", S1>>, <<"sl", S1>>>>,
        <<"emb", S1, I>>, <<"emb", S1, A1>>, <<"emb", S1, <<"ptr", S1>>>>, <<"emb", S1, <<"sl", I>>>>, <<"emb", S1, S1>> >>

\* ---------------------------------------------------------------- paths to integer leaves
Prefix(step, ps) == [i \in 1..Len(ps) |-> <<step>> \o ps[i]]
RECURSIVE LeafPaths(_)
LeafPaths(t) ==
  CASE t[1] = "int" -> << <<>> >>
    [] t[1] = "arr" -> Prefix(<<"e", 1>>, LeafPaths(t[2])) \o Prefix(<<"e", 2>>, LeafPaths(t[2]))
    [] t[1] \in {"st", "emb"} -> Prefix(<<"f", 1>>, LeafPaths(t[2])) \o Prefix(<<"f", 2>>, LeafPaths(t[3]))
    [] t[1] = "ptr" -> Prefix(<<"d", 0>>, LeafPaths(t[2]))
    [] t[1] = "sl" -> Prefix(<<"s", 1>>, LeafPaths(t[2])) \o Prefix(<<"s", 2>>, LeafPaths(t[2]))
    [] t[1] = "mp" -> IF t[2] = I THEN << <<<<"k", 1>>>> >> ELSE <<>>    \* m[k].f is not assignable
ThroughRef(path) == \E i \in 1..Len(path) : path[i][1] \in {"d", "s", "k"}
HasMapStep(path) == \E i \in 1..Len(path) : path[i][1] = "k"

\* ---------------------------------------------------------------- contexts
V(x) == <<x, <<>>>>
Ext(pl, path) == <<pl[1], pl[2] \o path>>
F1 == <<"f", 1>>
E1 == <<"e", 1>>
E2 == <<"e", 2>>
SL1 == <<"s", 1>>
SL2 == <<"s", 2>>
K1 == <<"k", 1>>
D == <<"d", 0>>
BOTH == {"src", "dst"}
SRC == {"src"}
DST == {"dst"}

Ctxs(T) ==
  LET W == <<"st", T, I>>            \* wrapper struct{f T; g int}
      A == <<"arr", T>>              \* [2]T
      M == <<"mp", T>>               \* map[int32]T
      x == V("x")
      y == V("y")
      NX == <<"new", "x", T, 10>>
      sub1 == KidTypes(T)[1]
      k1 == IF T[1] = "arr" THEN E1 ELSE F1
      C(n, kind, pre, post, src, dst, sides, wsides, same, tags) ==
        [n |-> n, kind |-> kind, pre |-> pre, post |-> post, src |-> src, dst |-> dst, sides |-> sides,
         wsides |-> wsides, same |-> same, tags |-> tags, pt |-> T, mp |-> "std", ok |-> TRUE]
      \* the plain copy y := x in context n
      CP(n, sides) == C(n, "copy", <<NX, <<"cp", y, x, n>>>>, <<>>, x, y, sides, sides, FALSE, {n})
      \* copy out of an element of a container / into an element of a container
      CPfrom(n, mk, from, sides, wsides) == C(n, "copy", <<mk, <<"cp", y, from, n>>>>, <<>>, from, y, sides, wsides, FALSE, {n})
      CPinto(n, mk, into, sides, wsides) == C(n, "copy", <<NX, mk, <<"cp", into, x, n>>>>, <<>>, x, into, sides, wsides, FALSE, {n})
      AL(n, pre, src, dst) == C(n, "alias", pre, <<>>, src, dst, BOTH, BOTH, TRUE, {})
      mkS1(b) == <<"mksl", "s", T, 1, 1, b>>
      newA == <<"new", "a", A, 10>>
      newW == <<"new", "w", W, 10>>
      newM == <<"new", "m", M, 10>>
      as2 == <<"a", <<E2>>>>
  IN <<
    \* ------------------------------------------------ copying contexts
    C("assign", "copy", <<NX, <<"new", "y", T, 40>>, <<"cp", y, x, "assign">>>>, <<>>, x, y, BOTH, BOTH, FALSE, {"assign"}),
    CP("define", BOTH), CP("vardecl", BOTH), CP("arg", BOTH), CP("variadic", BOTH),
    CP("result", BOTH), CP("result_arg", BOTH), CP("retdefer", SRC), CP("retdefer_named", SRC),
    CP("defer_arg", SRC), CP("go_arg", SRC), CP("methodexpr", BOTH),
    CPfrom("range_slice_val", <<"mksl", "s", T, 2, 2, 10>>, <<"s", <<SL2>>>>, BOTH, BOTH),
    C("range_array_val", "copy", <<newA, <<"cp", V("snap"), V("a"), "range_array_snap">>, <<"cp", y, <<"snap", <<E2>>>>, "range_array_val">>>>,
      <<>>, as2, y, BOTH, BOTH, FALSE, {"range_array_val", "range_array_snap"}),
    C("range_array_snap", "copy", <<newA, <<"cp", V("snap"), V("a"), "range_array_snap">>>>,
      <<<<"cp", y, <<"snap", <<E2>>>>, "range_array_val">>>>, as2, y, SRC, SRC, FALSE, {"range_array_snap"}),
    C("range_deref_snap", "copy", <<newA, <<"addr", "pa", V("a")>>, <<"cp", V("snap"), <<"pa", <<D>>>>, "range_deref_snap">>>>,
      <<<<"cp", y, <<"snap", <<E2>>>>, "range_array_val">>>>, as2, y, SRC, SRC, FALSE, {"range_deref_snap"}),
    C("range_field_snap", "copy", <<<<"new", "wa", <<"st", A, I>>, 10>>, <<"cp", V("snap"), <<"wa", <<F1>>>>, "range_field_snap">>>>,
      <<<<"cp", y, <<"snap", <<E2>>>>, "range_array_val">>>>, <<"wa", <<F1, E2>>>>, y, SRC, SRC, FALSE, {"range_field_snap"}),
    CPfrom("range_map_val", newM, <<"m", <<K1>>>>, DST, BOTH),
    C("chan", "copy", <<NX, <<"cp", V("buf"), x, "send">>, <<"cp", y, V("buf"), "recv">>>>, <<>>, x, y, BOTH, BOTH, FALSE, {"send", "recv"}),
    C("send", "copy", <<NX, <<"cp", V("buf"), x, "send">>>>, <<<<"cp", y, V("buf"), "recv">>>>, x, y, SRC, SRC, FALSE, {"send"}),
    C("select_send", "copy", <<NX, <<"cp", V("buf"), x, "select_send">>>>, <<<<"cp", y, V("buf"), "recv">>>>, x, y, SRC, SRC, FALSE, {"select_send"}),
    C("select_recv", "copy", <<NX, <<"cp", V("buf"), x, "send">>, <<"new", "y", T, 40>>, <<"cp", y, V("buf"), "select_recv">>>>, <<>>, x, y, BOTH, BOTH, FALSE, {"send", "select_recv"}),
    C("recv_ok", "copy", <<NX, <<"cp", V("buf"), x, "send">>, <<"cp", y, V("buf"), "recv_ok">>>>, <<>>, x, y, BOTH, BOTH, FALSE, {"send", "recv_ok"}),
    C("chan_unbuf", "copy", <<NX, <<"cp", V("buf"), x, "send_unbuf">>, <<"cp", y, V("buf"), "recv">>>>, <<>>, x, y, BOTH, BOTH, FALSE, {"send_unbuf", "recv"}),
    CPinto("map_store", <<"mkmap", "m">>, <<"m", <<K1>>>>, SRC, BOTH),
    CPinto("map_lit", <<"mkmap", "m">>, <<"m", <<K1>>>>, SRC, BOTH),
    CPfrom("map_load", newM, <<"m", <<K1>>>>, DST, BOTH),
    CPfrom("map_load_ok", newM, <<"m", <<K1>>>>, DST, BOTH),
    CPinto("elem_store_slice", mkS1(40), <<"s", <<SL1>>>>, BOTH, BOTH),
    CPinto("elem_store_array", <<"new", "a", A, 40>>, <<"a", <<E1>>>>, BOTH, BOTH),
    CPinto("field_store", <<"new", "w", W, 40>>, <<"w", <<F1>>>>, BOTH, BOTH),
    C("ptr_store", "copy", <<NX, <<"new", "t", T, 40>>, <<"addr", "p", V("t")>>, <<"cp", <<"p", <<D>>>>, x, "ptr_store">>>>, <<>>, x, <<"p", <<D>>>>, BOTH, BOTH, FALSE, {}),   \* a store through a pointer is always in place
    CPfrom("elem_load_slice", mkS1(10), <<"s", <<SL1>>>>, BOTH, BOTH),
    CPfrom("elem_load_array", newA, <<"a", <<E1>>>>, BOTH, BOTH),
    CPfrom("field_load", newW, <<"w", <<F1>>>>, BOTH, BOTH),
    C("ptr_load", "copy", <<NX, <<"addr", "p", x>>, <<"cp", y, <<"p", <<D>>>>, "ptr_load">>>>, <<>>, x, y, BOTH, BOTH, FALSE, {"ptr_load"}),
    \* y stands for the element slot of the fresh container the literal creates
    CP("lit_slice", BOTH), CP("lit_array", BOTH), CP("lit_struct", BOTH), CP("lit_struct_pos", BOTH), CP("lit_ptr_struct", BOTH),
    \* boxing: y stands for the value held by the interface (not addressable: only src is mutated)
    CP("box", SRC), CP("box_assign", SRC), CP("box_conv", SRC), CP("box_arg", SRC), CP("box_ret", SRC), CP("box_lit", SRC),
    CP("box_method_iface", SRC), CP("box_send", SRC), CP("box_map", SRC), CP("box_append", SRC),
    C("box_deref", "copy", <<NX, <<"addr", "p", x>>, <<"cp", y, <<"p", <<D>>>>, "box_deref">>>>, <<>>, x, y, SRC, SRC, FALSE, {"box_deref"}),
    CPfrom("box_elem", mkS1(10), <<"s", <<SL1>>>>, SRC, SRC),
    CPfrom("box_field", newW, <<"w", <<F1>>>>, SRC, SRC),
    \* unboxing: x stands for the value held by the interface
    CP("unbox", DST), CP("unbox_ok", DST), CP("unbox_switch", DST), CP("unbox_arg", DST),
    C("unbox_assign", "copy", <<NX, <<"new", "y", T, 40>>, <<"cp", y, x, "unbox_assign">>>>, <<>>, x, y, DST, DST, FALSE, {"unbox_assign"}),
    CP("methodval", SRC),
    C("methodval_ptr", "copy", <<NX, <<"addr", "p", x>>, <<"cp", y, <<"p", <<D>>>>, "methodval_ptr">>>>, <<>>, x, y, SRC, SRC, FALSE, {"methodval_ptr"}),
    CP("vrecv", BOTH),
    C("vrecv_ptr", "copy", <<NX, <<"addr", "p", x>>, <<"cp", y, <<"p", <<D>>>>, "vrecv_ptr">>>>, <<>>, x, y, BOTH, BOTH, FALSE, {"vrecv_ptr"}),
    CP("vrecv_iface", DST),
    CPfrom("vrecv_elem", mkS1(10), <<"s", <<SL1>>>>, BOTH, BOTH),
    C("append_elem", "copy", <<NX, <<"mksl", "s", T, 0, 1, 0>>, <<"app", "t", V("s"), x, "append_elem", "append_grow">>>>, <<>>, x, <<"t", <<SL1>>>>, BOTH, BOTH, FALSE, {"append_elem"}),
    C("append_elem_nil", "copy", <<NX, <<"nil", "s">>, <<"app", "t", V("s"), x, "append_elem_nil", "append_grow">>>>, <<>>, x, <<"t", <<SL1>>>>, BOTH, BOTH, FALSE, {"append_elem_nil"}),
    C("append_grow", "copy", <<mkS1(10), <<"new", "e", T, 40>>, <<"app", "t", V("s"), V("e"), "append_elem", "append_grow">>>>, <<>>, <<"s", <<SL1>>>>, <<"t", <<SL1>>>>, BOTH, BOTH, FALSE, {"append_grow"}),
    C("append_sub3_grow", "copy", <<<<"mksl", "s", T, 2, 2, 10>>, <<"sub", "u", V("s"), 0, 1, 1>>, <<"new", "e", T, 40>>, <<"app", "t", V("u"), V("e"), "append_elem", "append_sub3_grow">>>>,
      <<>>, <<"s", <<SL1>>>>, <<"t", <<SL1>>>>, BOTH, BOTH, FALSE, {"append_sub3_grow"}),
    C("append_spread", "copy", <<mkS1(10), <<"mksl", "t", T, 1, 1, 40>>, <<"cpsl", V("t"), V("s"), "append_spread">>>>, <<>>, <<"s", <<SL1>>>>, <<"t", <<SL1>>>>, BOTH, BOTH, FALSE, {"append_spread"}),
    C("copy_builtin", "copy", <<mkS1(10), <<"mksl", "t", T, 1, 1, 40>>, <<"cpsl", V("t"), V("s"), "copy_builtin">>>>, <<>>, <<"s", <<SL1>>>>, <<"t", <<SL1>>>>, BOTH, BOTH, FALSE, {"copy_builtin"}),
    CPfrom("slice_to_array", mkS1(10), <<"s", <<SL1>>>>, BOTH, BOTH),
    \* copying an enclosing value copies the nested one (one more level of nesting)
    C("outer_struct", "copy", <<newW, <<"cp", V("v"), V("w"), "outer_struct">>>>, <<>>, <<"w", <<F1>>>>, <<"v", <<F1>>>>, BOTH, BOTH, FALSE, {"outer_struct"}),
    C("outer_array", "copy", <<newA, <<"cp", V("b"), V("a"), "outer_array">>>>, <<>>, as2, <<"b", <<E2>>>>, BOTH, BOTH, FALSE, {"outer_array"}),
    C("outer_assign", "copy", <<newW, <<"new", "v", W, 40>>, <<"cp", V("v"), V("w"), "outer_assign">>>>, <<>>, <<"w", <<F1>>>>, <<"v", <<F1>>>>, BOTH, BOTH, FALSE, {"outer_assign"}),
    \* x, y = y, x: both right-hand sides are read before either store
    C("swap", "copy", <<NX, <<"new", "y", T, 40>>, <<"cp", V("t1"), y, "swap_tmp">>, <<"cp", V("t2"), x, "swap_tmp">>,
                        <<"cp", x, V("t1"), "swap">>, <<"cp", y, V("t2"), "swap">>>>, <<>>, x, y, BOTH, BOTH, FALSE, {"swap_tmp"}),
    CP("result_tuple", BOTH), [CP("convert", BOTH) EXCEPT !.wsides = SRC],
    \* identity conversions T(x): syntactically calls, semantically plain copies (seeded change C07-a)
    CP("convert_same", BOTH), CP("convert_same_var", BOTH), CP("convert_same_paren", BOTH), CP("convert_same_assign", BOTH),
    CP("convert_same_arg", BOTH), CP("convert_same_field", BOTH),
    C("ptr_to_ptr", "copy", <<NX, <<"new", "t", T, 40>>, <<"addr", "p", V("t")>>, <<"addr", "q", x>>, <<"cp", <<"p", <<D>>>>, <<"q", <<D>>>>, "ptr_to_ptr">>>>,
      <<>>, x, <<"p", <<D>>>>, BOTH, BOTH, FALSE, {}),
    \* ------------------------------------------------ aliasing contexts
    AL("addr", <<NX, <<"addr", "p", x>>>>, x, <<"p", <<D>>>>),
    AL("addr_field", <<newW, <<"addr", "p", <<"w", <<F1>>>>>>>>, <<"w", <<F1>>>>, <<"p", <<D>>>>),
    AL("addr_arrelem", <<newA, <<"addr", "p", as2>>>>, as2, <<"p", <<D>>>>),
    AL("addr_slelem", <<<<"mksl", "s", T, 2, 2, 10>>, <<"addr", "p", <<"s", <<SL2>>>>>>>>, <<"s", <<SL2>>>>, <<"p", <<D>>>>),
    AL("addr_global", <<<<"new", "g", T, 10>>, <<"addr", "p", V("g")>>>>, V("g"), <<"p", <<D>>>>),
    AL("addr_global_fn", <<<<"new", "g", T, 10>>, <<"addr", "p", V("g")>>>>, V("g"), <<"p", <<D>>>>),
    [AL("addr_sub", <<NX, <<"addr", "p", <<"x", <<k1>>>>>>>>, <<"x", <<k1>>>>, <<"p", <<D>>>>) EXCEPT !.pt = sub1, !.ok = IsAgg(sub1)],
    [AL("addr_leaf", <<NX>>, x, x) EXCEPT !.mp = "leafptr", !.wsides = {}],
    AL("subslice", <<<<"mksl", "s", T, 3, 3, 10>>, <<"sub", "t", V("s"), 1, 2, -1>>>>, <<"s", <<SL2>>>>, <<"t", <<SL1>>>>),
    AL("subslice3", <<<<"mksl", "s", T, 3, 3, 10>>, <<"sub", "t", V("s"), 1, 2, 2>>>>, <<"s", <<SL2>>>>, <<"t", <<SL1>>>>),
    AL("subslice_array", <<newA, <<"sub", "t", V("a"), 1, 2, -1>>>>, as2, <<"t", <<SL1>>>>),
    AL("subslice_ptrarray", <<newA, <<"addr", "pa", V("a")>>, <<"sub", "t", <<"pa", <<D>>>>, 0, 2, -1>>>>, as2, <<"t", <<SL2>>>>),
    AL("append_within", <<<<"mksl", "s", T, 1, 2, 10>>, <<"new", "e", T, 40>>, <<"app", "t", V("s"), V("e"), "append_elem", "append_grow">>>>, <<"s", <<SL1>>>>, <<"t", <<SL1>>>>),
    AL("append_sibling", <<<<"mksl", "s", T, 1, 2, 10>>, <<"new", "e", T, 40>>, <<"new", "e2", T, 50>>,
                           <<"app", "t", V("s"), V("e"), "append_elem", "append_grow">>, <<"app", "u", V("s"), V("e2"), "append_elem", "append_grow">>>>,
       <<"t", <<SL2>>>>, <<"u", <<SL2>>>>),
    AL("append_sub_cap", <<<<"mksl", "s", T, 3, 3, 10>>, <<"sub", "v", V("s"), 0, 1, -1>>, <<"new", "e", T, 40>>, <<"app", "t", V("v"), V("e"), "append_elem", "append_grow">>>>,
       <<"s", <<SL2>>>>, <<"t", <<SL2>>>>),
    AL("closure", <<NX>>, x, x),
    AL("precv", <<NX, <<"addr", "y", x>>>>, x, <<"y", <<D>>>>),
    AL("precv_methodval", <<NX, <<"addr", "y", x>>>>, x, <<"y", <<D>>>>),
    AL("ptr_arg", <<NX, <<"addr", "y", x>>>>, x, <<"y", <<D>>>>),
    AL("iface_ptr", <<NX, <<"addr", "y", x>>>>, x, <<"y", <<D>>>>),
    AL("chan_ptr", <<NX, <<"addr", "y", x>>>>, x, <<"y", <<D>>>>),
    AL("ptr_holder", <<NX, <<"addr", "p", x>>, <<"bind", "q", V("p")>>>>, x, <<"q", <<D>>>>),
    AL("slice_arg", <<mkS1(10), <<"bind", "t", V("s")>>>>, <<"s", <<SL1>>>>, <<"t", <<SL1>>>>),
    AL("slice_holder", <<mkS1(10), <<"bind", "t", V("s")>>>>, <<"s", <<SL1>>>>, <<"t", <<SL1>>>>),
    [AL("map_alias", <<newM, <<"bind", "n", V("m")>>>>, <<"m", <<K1>>>>, <<"n", <<K1>>>>) EXCEPT !.sides = {}],
    AL("ptrarr_index", <<newA, <<"addr", "pa", V("a")>>>>, as2, <<"pa", <<D, E2>>>>),
    AL("field_of_ptr", <<newW, <<"addr", "pw", V("w")>>>>, <<"w", <<F1>>>>, <<"pw", <<D, F1>>>>),
    \* ranging through a pointer to an array or over a slice of it takes no snapshot
    C("range_ptrarray", "alias", <<newA, <<"addr", "pa", V("a")>>>>, <<<<"cp", y, <<"pa", <<D, E2>>>>, "range_array_val">>>>, as2, y, SRC, SRC, FALSE, {}),
    C("range_slice_nosnap", "alias", <<newA, <<"sub", "t", V("a"), 0, 2, -1>>>>, <<<<"cp", y, <<"t", <<SL2>>>>, "range_slice_val">>>>, as2, y, SRC, SRC, FALSE, {})
  >>

NCtx == Len(Ctxs(S1))

\* ---------------------------------------------------------------- scenarios
MutVal == 99
WholeBase == 70

\* place that the mutation writes
MutPlace(cx, side, path) ==
  IF cx.mp = "leafptr"
  THEN (IF side = "src" THEN Ext(cx.src, path) ELSE <<"p", <<D>>>>)
  ELSE Ext(IF side = "src" THEN cx.src ELSE cx.dst, path)

Mutation(cx, side, whole, path) ==
  IF whole = 1
  THEN <<<<"new", "fresh", cx.pt, WholeBase>>, <<"cp", MutPlace(cx, side, <<>>), V("fresh"), "mut_whole">>>>
  ELSE <<<<"set", MutPlace(cx, side, path), MutVal>>>>

Outs(cx) == IF cx.mp = "leafptr" THEN <<<<"out", cx.src>>, <<"out", <<"p", <<D>>>>>>>>
            ELSE <<<<"out", cx.src>>, <<"out", cx.dst>>>>

\* the leaf pointer context takes the address of the mutated leaf itself
PreOf(cx, path) == IF cx.mp = "leafptr" THEN cx.pre \o <<<<"addr", "p", Ext(cx.src, path)>>>> ELSE cx.pre

Prog(cx, side, whole, path) == PreOf(cx, path) \o Mutation(cx, side, whole, path) \o cx.post \o Outs(cx)
ProgNoMut(cx, path) == PreOf(cx, path) \o cx.post \o Outs(cx)

Paths(cx) == LET ps == LeafPaths(cx.pt) IN
             IF cx.mp = "leafptr" THEN SelectSeq(ps, LAMBDA p : ~HasMapStep(p)) ELSE ps

NoRow == <<"", -1, -1>>
RowsOf(cx) ==
  IF ~cx.ok THEN {}
  ELSE {<<sd, 0, pi>> : sd \in cx.sides, pi \in 1..Len(Paths(cx))} \cup {<<sd, 1, 0>> : sd \in cx.wsides}
PathOf(cx, r) == IF r[2] = 1 THEN <<>> ELSE Paths(cx)[r[3]]

\* sampling: num/den of the (shape, variant, context) triples and, inside a chosen
\* triple, rnum/rden of its rows (both chosen by a hash of the indices and the seed)
Hash(n) == (n % 1000003)
Pick(si, vi, ci) ==
  Params.num >= Params.den
  \/ Hash(si * 7919 + vi * 104729 + ci * 1299709 + (Params.seed % 1000) * 104723) % Params.den < Params.num
RowIdx(r) == r[3] * 4 + r[2] * 2 + (IF r[1] = "src" THEN 0 ELSE 1)
PickRow(si, vi, ci, r) ==
  Params.rnum >= Params.rden
  \/ Hash(si * 7919 + vi * 104729 + ci * 1299709 + (Params.seed % 1000) * 104723 + RowIdx(r) * 15485863) % Params.rden < Params.rnum

Half(s, k) == LET n == Len(s) \div 2 IN IF k = 1 THEN SubSeq(s, 1, n) ELSE SubSeq(s, n + 1, Len(s))

\* everything known about one scenario
Scen(T, cx, r) ==
  LET path == PathOf(cx, r)
      prog == Prog(cx, r[1], r[2], path)
      st1 == Exec(prog, {})
      st0 == Exec(ProgNoMut(cx, path), {})
      stx == IF cx.tags = {} THEN st1 ELSE Exec(prog, cx.tags)
      o == IF r[1] = "src" THEN 2 ELSE 1        \* the half of the output that shows the OTHER side
  IN [pred |-> st1.out, base |-> st0.out, alt |-> stx.out, ok |-> st1.ok /\ st0.ok,
      disc |-> stx.out # st1.out,
      nt |-> IF cx.kind = "copy" THEN stx.out # st1.out ELSE Half(st1.out, o) # Half(st0.out, o),
      through |-> (r[2] = 0 /\ ThroughRef(path))]

\* the statement of C07 evaluated on the model
Visible(cx, r, sc) ==
  LET m == IF r[1] = "src" THEN 1 ELSE 2
      o == 3 - m
      S0 == Half(sc.base, 1)
      D0 == Half(sc.base, 2)
      S1x == Half(sc.pred, 1)
      D1 == Half(sc.pred, 2)
  IN IF cx.mp = "leafptr"
     THEN /\ sc.pred # sc.base
          /\ sc.pred[Len(sc.pred)] = MutVal
          /\ \E i \in 1..(Len(sc.pred) - 1) : sc.pred[i] = MutVal
     ELSE IF cx.kind = "copy" /\ ~sc.through
     THEN /\ Half(sc.pred, m) # Half(sc.base, m)
          /\ Half(sc.pred, o) = Half(sc.base, o)
     ELSE IF cx.kind = "copy"
     THEN \* through a reference field: the copies hold the same reference (unless the
          \* context exchanged two different values), so both observe the mutation
          /\ Half(sc.pred, m) # Half(sc.base, m)
          /\ (S0 = D0 => S1x = D1)
     ELSE /\ S1x = D1
          /\ S1x # S0

VARIABLES unit, cx, row
vars == <<unit, cx, row>>

Units == {<<si, vi>> : si \in 1..Len(Shapes), vi \in 1..Len(Variants)}
ShapeOf(u) == Shapes[u[1]]
CtxOf(u, ci) == Ctxs(ShapeOf(u))[ci]

NoUnit == <<0, 0>>
\* (one initial state: TLC generates initial states with a single thread)
Init == unit = NoUnit /\ cx = 0 /\ row = NoRow
Next ==
  \/ /\ unit = NoUnit
     /\ unit' \in Units
     /\ UNCHANGED <<cx, row>>
  \/ /\ unit # NoUnit /\ cx = 0
     /\ LET cs == Ctxs(ShapeOf(unit)) IN cx' \in {ci \in 1..NCtx : Pick(unit[1], unit[2], ci) /\ cs[ci].ok}
     /\ UNCHANGED <<unit, row>>
  \/ /\ cx # 0 /\ row = NoRow
     /\ row' \in {r \in RowsOf(CtxOf(unit, cx)) : PickRow(unit[1], unit[2], cx, r)}
     /\ UNCHANGED <<unit, cx>>
Spec == Init /\ [][Next]_vars

\* ---------------------------------------------------------------- invariants
CopyOK == (unit # NoUnit /\ cx = 0) =>
  LET r == Fresh(<<>>, ShapeOf(unit), 10)
      w == Fresh(<<>>, <<"arr", <<"st", ShapeOf(unit), I>>>>, 10)
  IN CopyPost(r[1], r[2]) /\ CopyPost(w[1], w[2])

CtxOK == (cx # 0 /\ row = NoRow) =>
  LET c == CtxOf(unit, cx) IN
  /\ RowsOf(c) # {}
  /\ (c.kind = "copy" /\ c.tags # {} => \E r \in RowsOf(c) : Scen(ShapeOf(unit), c, r).disc)
  /\ (c.same => LET st == Exec(c.pre, {}) IN SameStorage(st, c.src, c.dst))
  /\ (c.mp = "leafptr" => \A pi \in 1..Len(Paths(c)) :
        LET st == Exec(PreOf(c, Paths(c)[pi]), {}) IN SameStorage(st, <<"p", <<D>>>>, Ext(c.src, Paths(c)[pi])))

\* one invariant per scenario state: the model-level checks, then (side effect) one JSON line
RowOK(c, sc) == sc.ok /\ Visible(c, row, sc)
\* one file per unit: lines are short (< 1 KB), appended with one write each
UnitFile == OutFile \o "." \o ToString(unit[1]) \o "_" \o ToString(unit[2]) \o ".ndjson"
Emit == (row # NoRow) =>
  LET c == CtxOf(unit, cx)
      sc == Scen(ShapeOf(unit), c, row)
  IN /\ RowOK(c, sc)
     /\ CSVWrite("%1$s", <<ToJson([s |-> ShapeOf(unit), v |-> Variants[unit[2]], c |-> c.n, k |-> c.kind,
                                 side |-> row[1], w |-> row[2], path |-> PathOf(c, row),
                                 pt |-> c.pt, same |-> c.same, pred |-> sc.pred, base |-> sc.base, alt |-> sc.alt, nt |-> sc.nt, through |-> sc.through])>>, UnitFile)
=============================================================================
