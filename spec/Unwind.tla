------------------------------- MODULE Unwind -------------------------------
(***************************************************************************)
(* Reference semantics of defer / panic / recover / Goexit (C08, C02).     *)
(*                                                                         *)
(* A scenario is a family of functions F1..FN (F1 is the entry point, run  *)
(* in its own goroutine); every function has one named int result r and a  *)
(* body that is a sequence of operations:                                  *)
(*   <<"emit", k>>            print marker k                               *)
(*   <<"set", v>>             r = v                                         *)
(*   <<"ret", v>>             return v                                      *)
(*   <<"panic", v>>           panic(value number v)                         *)
(*   <<"rte", kind>>          an operation raising a run-time error         *)
(*   <<"call", j>>            x := Fj(); print x                            *)
(*   <<"recover", k>>         v := recover(); print k, v   (in the body)    *)
(*   <<"goexit">>             runtime.Goexit()                              *)
(*   <<"defer", d>>           defer of one of                               *)
(*       <<"emit", k>>        func(x int){ print k, x }(r)  -- r evaluated at the defer statement *)
(*       <<"rec", k>>         func(){ v := recover(); print k, v }()        *)
(*       <<"recnest", k>>     func(){ func(){ v := recover(); print k, v }() }()   *)
(*       <<"recbuiltin">>     defer recover()  (the built-in itself)        *)
(*       <<"setres", v>>      func(){ r = v }()                              *)
(*       <<"recset", k, v>>   func(){ if x := recover(); x != nil { print k, x; r = v } }() *)
(*       <<"repanic", k>>     func(){ x := recover(); print k, x; if x != nil { panic(x) } }() *)
(*       <<"panic", v>>       func(){ panic(v) }()                           *)
(*       <<"call", j>>        defer Fj()                                     *)
(*                                                                         *)
(* Rules (language specification and runtime/panic.go):                    *)
(*  1 defer evaluates its arguments immediately; records run LIFO, once.   *)
(*  2 return assigns the result, runs the records, returns the (possibly   *)
(*    modified) result.                                                     *)
(*  3 a panic runs the records of each frame from the top.                 *)
(*  4 recover() returns the value of the current panic and stops it iff    *)
(*    its caller is the deferred function that the processing of that      *)
(*    panic invoked directly (not a function it calls, not a deferred      *)
(*    function run by an ordinary return inside it, not `defer recover()`);*)
(*    otherwise nil.                                                        *)
(*  5 after a recovered panic the remaining records of the deferring frame *)
(*    run as for a normal return and the frame returns its named result.   *)
(*  6 a panic raised in a deferred call replaces the current one for the   *)
(*    records not yet run; if it is recovered inside that deferred call    *)
(*    the older panic continues.                                            *)
(*  7 Goexit runs all records with recover() = nil and ends the goroutine; *)
(*    a panic raised and recovered on the way does not stop it.            *)
(*  8 an unrecovered panic ends the program.                                *)
(* The semantics is written denotationally: RunFn(f, canRec, pval) returns *)
(* the outcome of one activation.                                           *)
(***************************************************************************)
EXTENDS Integers, Sequences, TLC

\* outcome of an activation / of a deferred call:
\*   obs   printed tuples
\*   kind  "ret" | "panic" | "goexit"
\*   val   returned value / panic value
\*   recd  the activation's body recovered the panic that was handed to it
Out(obs, kind, val, recd) == [obs |-> obs, kind |-> kind, val |-> val, recd |-> recd]

RteBase == 10      \* panic value of a run-time error of kind number n is RteBase + n

RECURSIVE RunFn(_, _, _, _), ExecOps(_, _, _, _, _, _), RunDefers(_, _, _, _, _, _, _), RunDeferred(_, _, _, _, _)

\* One deferred record d = <<kind, a, b, captured>> run while the deferring frame is in
\* `mode` ("ret" | "panic" | "goexit") with panic value pval; r is the frame's
\* named result.  Returns [obs, kind, val, recd, r].
RunDeferred(P, d, mode, pval, r) ==
  LET can == mode = "panic"
      res(o, k, v, rc, r2) == [obs |-> o, kind |-> k, val |-> v, recd |-> rc, r |-> r2]
  IN
  CASE d[1] = "emit"    -> res(<< <<"d", d[2], d[4]>> >>, "ret", 0, FALSE, r)
    [] d[1] = "rec"     -> res(<< <<"rec", d[2], IF can THEN pval ELSE 0>> >>, "ret", 0, can, r)
    [] d[1] = "recnest" -> res(<< <<"rec", d[2], 0>> >>, "ret", 0, FALSE, r)
    [] d[1] = "recbuiltin" -> res(<<>>, "ret", 0, FALSE, r)
    [] d[1] = "setres"  -> res(<<>>, "ret", 0, FALSE, d[2])
    [] d[1] = "recset"  -> IF can THEN res(<< <<"rec", d[2], pval>> >>, "ret", 0, TRUE, d[3])
                           ELSE res(<<>>, "ret", 0, FALSE, r)
    [] d[1] = "repanic" -> IF can THEN res(<< <<"rec", d[2], pval>> >>, "panic", pval, TRUE, r)
                           ELSE res(<< <<"rec", d[2], 0>> >>, "ret", 0, FALSE, r)
    [] d[1] = "panic"   -> res(<<>>, "panic", d[2], FALSE, r)
    [] d[1] = "call"    -> LET o == RunFn(P, d[2], can, pval) IN res(o.obs, o.kind, o.val, o.recd, r)

\* Run the deferred records (a stack, last = next to run) of a frame.
\*   mode/pval: the frame's condition; gx: the goroutine is exiting (Goexit);
\*   recd: what the frame's own body recovered (passed through for the caller)
RunDefers(P, defs, mode, pval, r, st, gx) ==
  IF defs = <<>>
  THEN Out(st.obs, IF mode = "ret" /\ gx THEN "goexit" ELSE mode, IF mode = "ret" THEN r ELSE pval, st.recd)
  ELSE
    LET d == defs[Len(defs)]
        rest == SubSeq(defs, 1, Len(defs) - 1)
        o == RunDeferred(P, d, mode, pval, r)
        st2 == [st EXCEPT !.obs = st.obs \o o.obs]
    IN
    IF o.kind = "panic"
    THEN RunDefers(P, rest, "panic", o.val, o.r, st2, gx)            \* rule 6: replaces the current panic
    ELSE IF o.kind = "goexit"
    THEN RunDefers(P, rest, "ret", 0, o.r, st2, TRUE)
    ELSE IF mode = "panic" /\ o.recd
    THEN RunDefers(P, rest, "ret", 0, o.r, st2, gx)                  \* rule 5 (and 7: gx stays)
    ELSE RunDefers(P, rest, mode, pval, o.r, st2, gx)

\* Execute the body of f from operation i.
\*   st = [obs, r, defs, recd]; canRec/pval: this activation is the deferred call
\*   that the processing of a panic with value pval invoked directly
ExecOps(P, f, i, st, canRec, pval) ==
  IF i > Len(P[f])
  THEN RunDefers(P, st.defs, "ret", 0, st.r, st, FALSE)
  ELSE
    LET op == P[f][i] IN
    CASE op[1] = "emit" -> ExecOps(P, f, i + 1, [st EXCEPT !.obs = Append(@, <<"e", op[2]>>)], canRec, pval)
      [] op[1] = "set"  -> ExecOps(P, f, i + 1, [st EXCEPT !.r = op[2]], canRec, pval)
      [] op[1] = "ret"  -> RunDefers(P, st.defs, "ret", 0, op[2], st, FALSE)
      [] op[1] = "panic" -> RunDefers(P, st.defs, "panic", op[2], st.r, st, FALSE)
      [] op[1] = "rte"  -> RunDefers(P, st.defs, "panic", RteBase + op[2], st.r, st, FALSE)
      [] op[1] = "goexit" -> RunDefers(P, st.defs, "ret", 0, st.r, st, TRUE)
      [] op[1] = "recover" ->
           LET ok == canRec /\ ~st.recd IN
           ExecOps(P, f, i + 1, [st EXCEPT !.obs = Append(@, <<"rec", op[2], IF ok THEN pval ELSE 0>>),
                                           !.recd = @ \/ ok], canRec, pval)
      [] op[1] = "call" ->
           LET o == RunFn(P, op[2], FALSE, 0) IN
           IF o.kind = "ret"
           THEN ExecOps(P, f, i + 1, [st EXCEPT !.obs = (@ \o o.obs) \o << <<"c", op[2], o.val>> >>], canRec, pval)
           ELSE IF o.kind = "panic"
           THEN RunDefers(P, st.defs, "panic", o.val, st.r, [st EXCEPT !.obs = @ \o o.obs], FALSE)
           ELSE RunDefers(P, st.defs, "ret", 0, st.r, [st EXCEPT !.obs = @ \o o.obs], TRUE)
      [] op[1] = "defer" ->
           LET d == op[2]
               rcd == <<d[1], IF Len(d) >= 2 THEN d[2] ELSE 0, IF Len(d) >= 3 THEN d[3] ELSE 0, st.r>>   \* rule 1: r captured now
           IN ExecOps(P, f, i + 1, [st EXCEPT !.defs = Append(@, rcd)], canRec, pval)

RunFn(P, f, canRec, pval) ==
  ExecOps(P, f, 1, [obs |-> <<>>, r |-> 0, defs |-> <<>>, recd |-> FALSE], canRec, pval)

\* The whole scenario: F1 in its own goroutine, main waits for it.
\*   end = "exit": F1 returned (its value is printed), "panic": the program died with
\*   the panic value, "deadlock": the goroutine exited through Goexit and main waits for ever
Run(P) ==
  LET o == RunFn(P, 1, FALSE, 0) IN
  [obs |-> IF o.kind = "ret" THEN Append(o.obs, <<"ret", o.val>>) ELSE o.obs,
   end |-> CASE o.kind = "ret" -> "exit" [] o.kind = "panic" -> "panic" [] o.kind = "goexit" -> "deadlock",
   val |-> IF o.kind = "panic" THEN o.val ELSE 0]
=============================================================================
