-------------------------------- MODULE Utf8 --------------------------------
(***************************************************************************)
(* Reference semantics of Go strings (C14).                                *)
(*                                                                         *)
(* A string is a finite sequence of bytes (0..255).  Go positions are      *)
(* 0-based byte offsets; TLA+ sequences are 1-based, so offset p names     *)
(* element p+1.  Nothing in a string has to be valid UTF-8: UTF-8 only     *)
(* matters where the language decodes (range over a string, []rune(s)) or  *)
(* encodes (string(rune), string([]rune), string(integer)).                *)
(*                                                                         *)
(* UTF-8 is given twice, independently:                                    *)
(*   - declaratively:  EncodeScalar is the RFC 3629 bit packing; a byte    *)
(*     sequence IS an encoding iff it equals EncodeScalar(r) for a Unicode *)
(*     scalar value r (IsEncoding).  DecodeSpec(s, p) is the Go rule: if   *)
(*     an encoding starts at p yield (its rune, its width), otherwise      *)
(*     (U+FFFD, 1) -- which covers stray continuation bytes, overlong      *)
(*     forms, surrogates, values above U+10FFFF, bytes F5..FF and          *)
(*     truncated sequences.                                                *)
(*   - operationally:  DecodeRune is the table of well-formed byte         *)
(*     sequences (Unicode Table 3-7: lead byte class and the admissible    *)
(*     range of the second byte), the shape of Go's unicode/utf8.          *)
(* Utf8Validate.tla checks the round trip for EVERY Unicode scalar value   *)
(* and Utf8Scen.tla checks DecodeRune = DecodeSpec at every offset of      *)
(* every enumerated string.                                                *)
(*                                                                         *)
(* A run-time panic is represented by the result Panic (= <<-1>>; all      *)
(* other results are sequences of naturals or naturals).                   *)
(***************************************************************************)
EXTENDS Integers, Sequences, FiniteSets, TLC

Byte == 0..255
IsString(s) == \A i \in DOMAIN s : s[i] \in Byte

RuneError == 65533            \* U+FFFD
MaxRune   == 1114111          \* U+10FFFF
SurrMin   == 55296            \* U+D800
SurrMax   == 57343            \* U+DFFF
Panic     == <<-1>>

Min(a, b) == IF a < b THEN a ELSE b

\* Unicode scalar values: the code points that have a UTF-8 encoding
IsScalar(r) == (0 <= r /\ r < SurrMin) \/ (SurrMax < r /\ r <= MaxRune)

(***************************************************************************)
(* Encoding                                                                *)
(***************************************************************************)
EncodeScalar(r) ==
  IF r <= 127 THEN <<r>>
  ELSE IF r <= 2047 THEN <<192 + (r \div 64), 128 + (r % 64)>>
  ELSE IF r <= 65535 THEN <<224 + (r \div 4096), 128 + ((r \div 64) % 64), 128 + (r % 64)>>
  ELSE <<240 + (r \div 262144), 128 + ((r \div 4096) % 64), 128 + ((r \div 64) % 64), 128 + (r % 64)>>

\* string(rune), one element of string([]rune): anything that is not a scalar
\* value (negative, surrogate, above U+10FFFF) is encoded as U+FFFD
EncodeRune(r) == EncodeScalar(IF IsScalar(r) THEN r ELSE RuneError)

RuneLen(r) == IF ~IsScalar(r) THEN -1 ELSE IF r <= 127 THEN 1 ELSE IF r <= 2047 THEN 2 ELSE IF r <= 65535 THEN 3 ELSE 4

(***************************************************************************)
(* Decoding, declaratively                                                 *)
(***************************************************************************)
IsCont(b) == 128 <= b /\ b <= 191

\* the payload bits of a byte sequence that has the SHAPE of a w-byte
\* encoding (lead byte pattern 0xxxxxxx / 110xxxxx / 1110xxxx / 11110xxx and
\* w-1 continuation bytes 10xxxxxx); -1 for any other sequence
Payload(b) ==
  LET n == Len(b) IN
  IF n = 1 /\ b[1] <= 127 THEN b[1]
  ELSE IF n = 2 /\ 192 <= b[1] /\ b[1] <= 223 /\ IsCont(b[2])
    THEN (b[1] - 192) * 64 + (b[2] - 128)
  ELSE IF n = 3 /\ 224 <= b[1] /\ b[1] <= 239 /\ IsCont(b[2]) /\ IsCont(b[3])
    THEN (b[1] - 224) * 4096 + (b[2] - 128) * 64 + (b[3] - 128)
  ELSE IF n = 4 /\ 240 <= b[1] /\ b[1] <= 247 /\ IsCont(b[2]) /\ IsCont(b[3]) /\ IsCont(b[4])
    THEN (b[1] - 240) * 262144 + (b[2] - 128) * 4096 + (b[3] - 128) * 64 + (b[4] - 128)
  ELSE -1

\* b is the UTF-8 encoding of a scalar value.  (If EncodeScalar(r) = b for a
\* scalar r then r = Payload(b): Utf8Validate checks Payload(EncodeScalar(r)) = r
\* for every scalar value, so the existential over r collapses to one candidate.)
IsEncoding(b) == LET r == Payload(b) IN IsScalar(r) /\ EncodeScalar(r) = b

\* widths w such that an encoding of width w starts at offset p of s
EncodingsAt(s, p) == {w \in 1..Min(4, Len(s) - p) : IsEncoding(SubSeq(s, p + 1, p + w))}

\* Go: "If the iteration encounters an invalid UTF-8 sequence, the second value
\* will be 0xFFFD, and the next iteration will advance a single byte"
DecodeSpec(s, p) ==
  LET ws == EncodingsAt(s, p) IN
  IF ws = {} THEN <<RuneError, 1>>
  ELSE LET w == CHOOSE w \in ws : TRUE IN <<Payload(SubSeq(s, p + 1, p + w)), w>>

(***************************************************************************)
(* Decoding, operationally (well-formed UTF-8 byte sequences)              *)
(***************************************************************************)
\* <<rune, width>> of the rune starting at offset p (0 <= p < Len(s))
DecodeRune(s, p) ==
  LET n  == Len(s) - p
      b0 == s[p + 1]
      need == IF b0 <= 127 THEN 1
              ELSE IF 194 <= b0 /\ b0 <= 223 THEN 2
              ELSE IF 224 <= b0 /\ b0 <= 239 THEN 3
              ELSE IF 240 <= b0 /\ b0 <= 244 THEN 4
              ELSE 0                                  \* 80..BF, C0, C1, F5..FF
      lo == IF b0 = 224 THEN 160 ELSE IF b0 = 240 THEN 144 ELSE 128
      hi == IF b0 = 237 THEN 159 ELSE IF b0 = 244 THEN 143 ELSE 191
      Err == <<RuneError, 1>>
  IN IF need = 1 THEN <<b0, 1>>
     ELSE IF need = 0 \/ n < need THEN Err
     ELSE IF ~(lo <= s[p + 2] /\ s[p + 2] <= hi) THEN Err
     ELSE IF need = 2 THEN <<(b0 - 192) * 64 + (s[p + 2] - 128), 2>>
     ELSE IF ~IsCont(s[p + 3]) THEN Err
     ELSE IF need = 3 THEN <<(b0 - 224) * 4096 + (s[p + 2] - 128) * 64 + (s[p + 3] - 128), 3>>
     ELSE IF ~IsCont(s[p + 4]) THEN Err
     ELSE <<(b0 - 240) * 262144 + (s[p + 2] - 128) * 4096 + (s[p + 3] - 128) * 64 + (s[p + 4] - 128), 4>>

(***************************************************************************)
(* range over a string, conversions                                        *)
(***************************************************************************)
\* the iterations of `for i, r := range s` from offset p on: <<i, r, width>>
RECURSIVE RangeAcc(_, _, _)
RangeAcc(s, p, acc) ==
  IF p >= Len(s) THEN acc
  ELSE LET d == DecodeRune(s, p) IN RangeAcc(s, p + d[2], Append(acc, <<p, d[1], d[2]>>))
RangeFrom(s, p) == RangeAcc(s, p, <<>>)
RangeSteps(s) == RangeFrom(s, 0)

\* []rune(s)
ToRunes(s) == LET st == RangeSteps(s) IN TLCEval([i \in 1..Len(st) |-> st[i][2]])
\* number of iterations (utf8.RuneCountInString), without building the steps
RECURSIVE CountFrom(_, _)
CountFrom(s, p) == IF p >= Len(s) THEN 0 ELSE 1 + CountFrom(s, p + DecodeRune(s, p)[2])
RuneCount(s) == CountFrom(s, 0)
\* s is valid UTF-8: every step decodes a real encoding
Valid(s) == LET st == RangeSteps(s) IN \A i \in 1..Len(st) : IsEncoding(SubSeq(s, st[i][1] + 1, st[i][1] + st[i][3]))

\* string([]rune)
RECURSIVE FromRunes(_)
FromRunes(rs) == IF rs = <<>> THEN <<>> ELSE EncodeRune(Head(rs)) \o FromRunes(Tail(rs))

\* []byte(s) and string([]byte): the bytes, unchanged
ToBytes(s) == s
FromBytes(b) == b

\* string(x) for an integer x of any integer type: "Values outside the range of
\* valid Unicode code points are converted to U+FFFD."  TLC's integers have 32
\* bits, so x is given as its 64-bit two's complement image in four 16-bit limbs
\* (least significant first).  Whether the type is signed or not, the VALUE of x
\* lies in 0..0x10FFFF iff limbs 3 and 4 are zero and limb 2 is at most 0x10 (a
\* negative signed value has limb 4 >= 0x8000).
IntInRuneRange(l) == l[3] = 0 /\ l[4] = 0 /\ l[2] <= 16
StringFromInt(l) ==
  IF IntInRuneRange(l) THEN EncodeRune(l[2] * 65536 + l[1]) ELSE EncodeScalar(RuneError)

(***************************************************************************)
(* len, index, slice, concatenation, comparison                            *)
(***************************************************************************)
StrLen(s) == Len(s)

\* s[i]: a byte, or a run-time panic when i is out of range
Index(s, i) == IF 0 <= i /\ i < Len(s) THEN s[i + 1] ELSE -1
IndexPanics(s, i) == ~(0 <= i /\ i < Len(s))

\* s[lo:hi]
Slice(s, lo, hi) == IF 0 <= lo /\ lo <= hi /\ hi <= Len(s) THEN SubSeq(s, lo + 1, hi) ELSE Panic
SliceFrom(s, lo) == Slice(s, lo, Len(s))        \* s[lo:]
SliceTo(s, hi)   == Slice(s, 0, hi)             \* s[:hi]

Concat(a, b) == a \o b

\* lexical byte-wise order
Less(a, b) ==
  \E k \in 0..Min(Len(a), Len(b)) :
    /\ SubSeq(a, 1, k) = SubSeq(b, 1, k)
    /\ \/ (k = Len(a) /\ k < Len(b))
       \/ (k < Len(a) /\ k < Len(b) /\ a[k + 1] < b[k + 1])
Cmp(a, b) == IF a = b THEN 0 ELSE IF Less(a, b) THEN -1 ELSE 1

(***************************************************************************)
(* copy / append from a string, strings as map keys and switch operands    *)
(***************************************************************************)
\* copy(dst, s): <<n, dst afterwards>>
Copy(dst, s) ==
  LET n == Min(Len(dst), Len(s)) IN <<n, TLCEval([i \in 1..Len(dst) |-> IF i <= n THEN s[i] ELSE dst[i]])>>
\* append(b, s...)
AppendStr(b, s) == b \o s

\* map[string]T / switch: a key matches iff it is the same byte sequence.
\* Index (1-based) of the entry of keys that p selects, 0 if none.
Lookup(keys, p) ==
  IF \E i \in DOMAIN keys : keys[i] = p THEN CHOOSE i \in DOMAIN keys : keys[i] = p /\ \A j \in 1..(i-1) : keys[j] # p
  ELSE 0
=============================================================================
