------------------------------- MODULE GoMap -------------------------------
(***************************************************************************)
(* Reference semantics of Go maps for property C15 ("maps use Go key       *)
(* equality for every comparable key type").                               *)
(*                                                                         *)
(* What is modelled                                                        *)
(*   - a universe of TYPE TERMS (basic kinds, named types with a scope of  *)
(*     declaration, arrays, structs with possibly blank fields, pointers,  *)
(*     channels, interfaces, and the unhashable kinds slice/map/func) and  *)
(*     of tagged VALUE TERMS of these types;                               *)
(*   - Go's `==` on values of a comparable type (KeyEq): NaN is equal to   *)
(*     nothing, +0 = -0, complex numbers part-wise, strings as byte        *)
(*     sequences, pointers/channels by identity, interfaces by dynamic     *)
(*     type IDENTITY (not by type name) and dynamic value, arrays and      *)
(*     structs element-wise (blank fields ignored), named types like their *)
(*     underlying type;                                                    *)
(*   - hashability of a key value (Hashable): a dynamic value of slice,    *)
(*     map or func type anywhere inside an interface-typed part makes      *)
(*     every map operation with that key panic with a run-time error;      *)
(*   - the map as a set of entries <<key, value, uid, ..>> (a bag of keys:  *)
(*     NaN-containing keys are never equal to themselves, so each insert   *)
(*     of such a key creates a further entry), with a nil flag;            *)
(*   - the operations insert, add-assign (m[k] += v), delete, lookup,      *)
(*     comma-ok lookup, len, range (collect), range whose first iteration  *)
(*     deletes / inserts another key, and clear-by-range, each as one      *)
(*     function Step(cat, st, op, uid) from state to state and result.     *)
(*                                                                         *)
(* Range is the only nondeterministic operation.  Its result is a list of  *)
(* ALTERNATIVES <<mode, first, must, may, end>>: the bag of visited        *)
(* <<key class, value>> pairs must contain `must`, may additionally        *)
(* contain any sub-bag of `may` (entries created during the loop), and     *)
(* nothing else (entries deleted before they are reached are in neither);  *)
(* with mode "first" the first visited pair must be `first`.               *)
(*                                                                         *)
(* How the harness uses it: GoMapScen.tla enumerates (key type, pool of    *)
(* key values, operation history) and evaluates Step along the history;    *)
(* the harness renders the histories as Go programs, runs them compiled by *)
(* GopherJS and natively, and compares every step with the prediction.     *)
(***************************************************************************)
EXTENDS Integers, Sequences, FiniteSets, TLC, SequencesExt

(***************************************************************************)
(* Type terms.  The kind is always the first component; components at the  *)
(* same position have the same sort for one kind (TLC cannot compare a     *)
(* string with a number).                                                  *)
(***************************************************************************)
Basic(n)              == <<"basic", n>>            \* bool int8 ... string unsafeptr
Named(name, scope, u) == <<"named", name, scope, u>> \* scope: where it is declared (package path or function)
Arr(n, e)             == <<"array", n, e>>
Struct(pkg, fs)       == <<"struct", pkg, fs>>      \* fs: sequence of <<field name, type>>; name "_" is blank
PtrT(tag)             == <<"ptr", tag>>             \* pointer to <tag>; equality is identity
ChanT(tag)            == <<"chan", tag>>
Iface(tag)            == <<"iface", tag>>           \* "any" or "M" (interface{ M() })
Unhash(kind)          == <<"unhashable", kind>>     \* slice, map, func, or a struct containing one

FloatKinds   == {"float32", "float64"}
ComplexKinds == {"complex64", "complex128"}

RECURSIVE Under(_)
Under(T) == IF T[1] = "named" THEN Under(T[4]) ELSE T

(***************************************************************************)
(* Value terms:                                                            *)
(*   <<"b", 0|1>>           bool                                           *)
(*   <<"i", hi, lo>>        integer, symbolic words (hi = 0 below 64 bit) *)
(*   <<"f", sym>>           float: "nan" "nan2" "+0" "-0" "1" ...         *)
(*   <<"c", re, im>>        complex, parts are float symbols              *)
(*   <<"s", bytes>>         string as a sequence of byte values           *)
(*   <<"p", obj, form>>     pointer / channel / unsafe.Pointer: id of the *)
(*                          object pointed to (0 = nil) and the form of   *)
(*                          the expression that produced it (irrelevant   *)
(*                          for equality: &a equals the conversion of the *)
(*                          slice a[:] to an array pointer)               *)
(*   <<"n">>                nil interface                                  *)
(*   <<"d", type, value>>   interface holding a dynamic value             *)
(*   <<"a", elems>>         array                                          *)
(*   <<"t", fields>>        struct                                         *)
(*   <<"u", kind>>          a value of an unhashable type                  *)
(***************************************************************************)
IsNaN(f) == f \in {"nan", "nan2"}
FNorm(f) == IF f = "-0" THEN "+0" ELSE f
FEq(a, b) == ~IsNaN(a) /\ ~IsNaN(b) /\ FNorm(a) = FNorm(b)

\* Go's == on two values of the comparable type T (for interface parts: only
\* evaluated on hashable values, see Hashable)
RECURSIVE KeyEq(_, _, _)
KeyEq(T, a, b) ==
  LET U == Under(T) IN
  CASE U[1] = "basic" /\ U[2] \in FloatKinds   -> FEq(a[2], b[2])
    [] U[1] = "basic" /\ U[2] \in ComplexKinds -> FEq(a[2], b[2]) /\ FEq(a[3], b[3])
    [] U[1] \in {"ptr", "chan"} \/ (U[1] = "basic" /\ U[2] = "unsafeptr") -> a[2] = b[2]   \* identity
    [] U[1] = "iface" -> IF a[1] = "n" \/ b[1] = "n" THEN a[1] = b[1]
                         ELSE a[2] = b[2] /\ KeyEq(a[2], a[3], b[3])      \* identical dynamic types, equal values
    [] U[1] = "array" -> \A i \in 1..U[2] : KeyEq(U[3], a[2][i], b[2][i])
    [] U[1] = "struct" -> \A i \in 1..Len(U[3]) : U[3][i][1] = "_" \/ KeyEq(U[3][i][2], a[2][i], b[2][i])
    [] OTHER -> a = b

\* can the value be hashed?  (a map operation with a key for which this is
\* false panics with a runtime.Error, whatever the map contains)
RECURSIVE Hashable(_, _)
Hashable(T, v) ==
  LET U == Under(T) IN
  CASE U[1] = "unhashable" -> FALSE
    [] U[1] = "iface"  -> v[1] = "n" \/ Hashable(v[2], v[3])
    [] U[1] = "array"  -> \A i \in 1..U[2] : Hashable(U[3], v[2][i])
    [] U[1] = "struct" -> \A i \in 1..Len(U[3]) : Hashable(U[3][i][2], v[2][i])
    [] OTHER -> TRUE

\* structural: does a NaN occur in a compared part of the value?
RECURSIVE HasNaN(_, _)
HasNaN(T, v) ==
  LET U == Under(T) IN
  CASE U[1] = "basic" /\ U[2] \in FloatKinds   -> IsNaN(v[2])
    [] U[1] = "basic" /\ U[2] \in ComplexKinds -> IsNaN(v[2]) \/ IsNaN(v[3])
    [] U[1] = "iface"  -> v[1] = "d" /\ HasNaN(v[2], v[3])
    [] U[1] = "array"  -> \E i \in 1..U[2] : HasNaN(U[3], v[2][i])
    [] U[1] = "struct" -> \E i \in 1..Len(U[3]) : U[3][i][1] # "_" /\ HasNaN(U[3][i][2], v[2][i])
    [] OTHER -> FALSE

\* The class of a key, named by the least index of an equal member of the
\* pool the keys are taken from; 0 for a key that is not equal to itself.
Rep(T, pool, k) ==
  IF ~KeyEq(T, k, k) THEN 0
  ELSE LET js == {j \in 1..Len(pool) : Hashable(T, pool[j]) /\ KeyEq(T, pool[j], k)} IN
       IF js = {} THEN 0 ELSE CHOOSE j \in js : \A j2 \in js : j <= j2

(***************************************************************************)
(* Map states and operations.  A "cat" record describes the key type and   *)
(* the pool the keys of a history are taken from:                          *)
(*   cat.t type term, cat.pool sequence of values,                         *)
(*   cat.hash[i] = 1 iff Hashable(t, pool[i]),                             *)
(*   cat.rep[i]  = Rep(t, pool, pool[i]) (0: unhashable or not reflexive). *)
(* An entry is <<key, value, uid, pool index of the key>>; the index is a  *)
(* ghost component used to name the key's class in observations.           *)
(***************************************************************************)
MkCat(T, pool) ==
  [t |-> T, pool |-> pool,
   hash |-> [i \in 1..Len(pool) |-> IF Hashable(T, pool[i]) THEN 1 ELSE 0],
   rep  |-> [i \in 1..Len(pool) |-> IF Hashable(T, pool[i]) THEN Rep(T, pool, pool[i]) ELSE 0]]

NilMap   == [nil |-> TRUE,  ents |-> {}]
EmptyMap == [nil |-> FALSE, ents |-> {}]

Find(T, st, k) == {e \in st.ents : KeyEq(T, e[1], k)}
ValOf(es) == IF es = {} THEN 0 ELSE (CHOOSE e \in es : TRUE)[2]
Uids(st) == {e[3] : e \in st.ents}

Panic == <<"P">>
None  == <<"n">>

\* the keyed non-loop operations on the key pool[i]; uid names the entry an
\* insert may create.  An overwrite keeps the entry (uid) and stores the new key.
Simple(cat, st, kind, i, v, uid) ==
  LET T == cat.t
      k == cat.pool[i]
  IN
  IF kind \in {"ins", "inc"} /\ st.nil THEN [st |-> st, res |-> Panic]      \* assignment to entry in nil map
  ELSE IF cat.hash[i] = 0 THEN [st |-> st, res |-> Panic]                   \* hash of unhashable type
  ELSE LET f == Find(T, st, k) IN
    CASE kind = "ins" ->
           [st |-> [st EXCEPT !.ents = IF f = {} THEN @ \cup {<<k, v, uid, i>>}
                                       ELSE (@ \ f) \cup {<<k, v, e[3], i>> : e \in f}],
            res |-> None]
      [] kind = "inc" ->
           [st |-> [st EXCEPT !.ents = IF f = {} THEN @ \cup {<<k, v, uid, i>>}
                                       ELSE (@ \ f) \cup {<<k, e[2] + v, e[3], i>> : e \in f}],
            res |-> None]
      [] kind = "del" -> [st |-> [st EXCEPT !.ents = @ \ f], res |-> None]
      [] kind = "get" -> [st |-> st, res |-> <<"g", ValOf(f)>>]
      [] kind = "ok"  -> [st |-> st, res |-> <<"o", ValOf(f), IF f = {} THEN 0 ELSE 1>>]

\* what a loop body observes of an entry: <<class of the key, value>>
Vis(cat, e) == <<cat.rep[e[4]], e[2]>>
VisSeq(cat, es) == LET s == SetToSeq(es) IN [i \in 1..Len(s) |-> Vis(cat, s[i])]

\* op = <<kind, pool index or 0, value>>
Step(cat, st, op, uid) ==
  LET kind == op[1]
      T == cat.t
  IN
  CASE kind \in {"ins", "inc", "del", "get", "ok"} -> Simple(cat, st, kind, op[2], op[3], uid)
    [] kind = "len" -> [st |-> st, res |-> <<"l", Cardinality(st.ents)>>]
    [] kind = "range" ->
         \* every entry exactly once, in any order
         [st |-> st, res |-> <<"R", << <<"any", <<>>, VisSeq(cat, st.ents), <<>>, "e">> >> >>]
    [] kind = "clear" ->
         \* for k := range m { delete(m, k) }: the entry being visited is deleted,
         \* all others are present until reached; keys not equal to themselves stay
         [st |-> [st EXCEPT !.ents = {e \in @ : ~KeyEq(T, e[1], e[1])}],
          res |-> <<"R", << <<"any", <<>>, VisSeq(cat, st.ents), <<>>, "e">> >> >>]
    [] kind \in {"rdel", "rins"} ->
         \* for k, v := range m { visit; if first iteration { delete(m, key) | m[key] = v } }
         IF st.ents = {} THEN [st |-> st, res |-> <<"R", << <<"any", <<>>, <<>>, <<>>, "e">> >> >>]
         ELSE LET r == Simple(cat, st, IF kind = "rdel" THEN "del" ELSE "ins", op[2], op[3], uid)
                  old == Uids(st)
                  fs == SetToSeq(st.ents)
              IN IF r.res = Panic
                 THEN [st |-> st, res |-> <<"R", [i \in 1..Len(fs) |-> <<"first", Vis(cat, fs[i]), <<>>, <<>>, "P">>] >>]
                 ELSE [st |-> r.st,
                       res |-> <<"R", [i \in 1..Len(fs) |->
                                 <<"first", Vis(cat, fs[i]),
                                   \* present before the loop, still present, not yet visited: exactly once,
                                   \* with the value it has when reached
                                   VisSeq(cat, {e \in r.st.ents : e[3] \in old /\ e[3] # fs[i][3]}),
                                   \* created during the loop: at most once
                                   VisSeq(cat, {e \in r.st.ents : e[3] \notin old}),
                                   "e">>] >>]

(***************************************************************************)
(* The same operations on the QUOTIENT: a map is a function from key        *)
(* classes (pool representatives) to values plus a count of entries whose   *)
(* key is not equal to itself.  GoMapScen checks that Step refines it:     *)
(* len = number of classes inserted and not deleted (+ NaN-like inserts).  *)
(***************************************************************************)
QEmpty(n) == [c |-> [i \in 1..n |-> 0], nan |-> 0]
QStep(q, kind, r, v, hashable, isnil) ==
  IF kind \in {"ins", "inc", "rins"} /\ isnil THEN q
  ELSE IF ~hashable THEN q
  ELSE CASE kind \in {"ins", "rins"} -> IF r = 0 THEN [q EXCEPT !.nan = @ + 1] ELSE [q EXCEPT !.c[r] = v]
         [] kind = "inc" -> IF r = 0 THEN [q EXCEPT !.nan = @ + 1] ELSE [q EXCEPT !.c[r] = @ + v]
         [] kind \in {"del", "rdel"} -> IF r = 0 THEN q ELSE [q EXCEPT !.c[r] = 0]
         [] kind = "clear" -> [q EXCEPT !.c = [i \in DOMAIN @ |-> 0]]
         [] OTHER -> q
QLen(q) == Cardinality({i \in DOMAIN q.c : q.c[i] # 0}) + q.nan

\* the entry set st is represented by the quotient state q
AbsOK(cat, st, q) ==
  /\ Cardinality(st.ents) = QLen(q)
  /\ Cardinality({e \in st.ents : cat.rep[e[4]] = 0}) = q.nan
  /\ \A e \in st.ents : cat.rep[e[4]] # 0 => q.c[cat.rep[e[4]]] = e[2]
  /\ \A r \in DOMAIN q.c : q.c[r] # 0 => \E e \in st.ents : cat.rep[e[4]] = r
  \* no two entries with equal keys, uids unique, only hashable keys, key = pool member
  /\ \A e1 \in st.ents : \A e2 \in st.ents : e1 # e2 => ~KeyEq(cat.t, e1[1], e2[1]) /\ e1[3] # e2[3]
  /\ \A e \in st.ents : cat.hash[e[4]] = 1 /\ e[1] = cat.pool[e[4]]
  /\ st.nil => st.ents = {}

(***************************************************************************)
(* Properties of key equality on the members idx of a pool of values of    *)
(* type T (checked by GoMapScen for every enumerated type)                 *)
(***************************************************************************)
EqLaws(T, pool, idx) ==
  LET H == {i \in idx : Hashable(T, pool[i])} IN
  /\ \A i \in H : KeyEq(T, pool[i], pool[i]) <=> ~HasNaN(T, pool[i])             \* reflexive exactly on NaN-free keys
  /\ \A i \in H : \A j \in H : KeyEq(T, pool[i], pool[j]) <=> KeyEq(T, pool[j], pool[i])
  /\ \A i \in H : \A j \in H : \A k \in H :
       KeyEq(T, pool[i], pool[j]) /\ KeyEq(T, pool[j], pool[k]) => KeyEq(T, pool[i], pool[k])
  /\ \A i \in H : \A j \in H : pool[i] = pool[j] /\ ~HasNaN(T, pool[i]) => KeyEq(T, pool[i], pool[j])
  /\ \A i \in H : Rep(T, pool, pool[i]) <= i
  /\ \A i \in H : LET r == Rep(T, pool, pool[i]) IN r # 0 => Rep(T, pool, pool[r]) = r
=============================================================================
