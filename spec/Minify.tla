------------------------------- MODULE Minify -------------------------------
(***************************************************************************)
(* C16, direct half: the two internal mechanisms of minification, each     *)
(* stated twice -- as the reference property the output must satisfy and   *)
(* as an implementation-shaped model of /repo's code -- and enumerated by  *)
(* TLC together with the predicted outcome.  (The end-to-end half of C16   *)
(* holds minified builds of MiniGo programs to the prediction of           *)
(* MiniGo.tla; it is props/minigo.)                                        *)
(*                                                                         *)
(* PART 1 -- the whitespace/comment remover (compiler/utils.go             *)
(* removeWhitespace, needsSpace).                                          *)
(*   * Input alphabet `Alphabet`: identifiers (`in`, `$y`, `_Z`), a        *)
(*     number, `-` `--` `+` `++` `/`, double-quoted string literals holding*)
(*     an escaped quote, backslashes, spaces and comment-like text,        *)
(*     `/* ... */` comments holding `*`, `/` and a quote, space, tab,      *)
(*     newline, and a source-map hint whose payload holds a quote, a       *)
(*     space, `/*` and `-`.  A case is a sequence of at most MaxLen items  *)
(*     followed by one of the four chunk endings the generator produces    *)
(*     (`;\n` `}\n` `{\n` `:\n`, assigned by rotation: all four are        *)
(*     neither identifier characters nor `-` `/` `"`).                     *)
(*   * Reference (RefTok): the JavaScript token sequence of a byte string: *)
(*     maximal munch over identifiers, numbers, string literals, `--` `++` *)
(*     `//` and single-character punctuators; white space and comments     *)
(*     separate tokens and are dropped; a hint is ZERO WIDTH (the          *)
(*     source-map filter deletes it from the final output), so it does not *)
(*     separate tokens; it is recorded with its position = the number of   *)
(*     token bytes in front of it.                                         *)
(*     Property TokensPreserved: RefTok(output) = RefTok(input): same      *)
(*     tokens byte for byte (string literals included), no two tokens      *)
(*     merged, none split, every hint byte-identical and between the same  *)
(*     tokens.                                                             *)
(*   * Implementation model (Scan): the scanner of utils.go as a state     *)
(*     machine with the states code / str / esc / com / hint, one step per *)
(*     byte, the same one-byte look-ahead b[i+1] and the same `previous`.  *)
(*   * Generator shapes (GenShape).  removeWhitespace is NOT token          *)
(*     preserving on arbitrary JavaScript; it is on what the code          *)
(*     generator emits.  The property is claimed for these shapes only     *)
(*     (each is a fact about compiler/*.go read for this module):          *)
(*       G1 a hint is directly followed by an identifier (`function`),     *)
(*          white space (indentation) or the end of the chunk              *)
(*          [utils.go writePos: first Write after SetPos;                  *)
(*          functions.go:353 "%sfunction"];                                *)
(*       G2 no two `+`/`++` operators follow each other (unary plus is     *)
(*          dropped, expressions.go:290; `++` only as `_i++)`): the scanner *)
(*          has a `- -` rule but no `+ +` rule;                            *)
(*       G3 a `/` is never followed by another `/` or directly by a        *)
(*          comment (no regular expressions, no line comments);            *)
(*       G7 a comment is directly followed by white space or the end of    *)
(*          the chunk (all emitted comments are "/* .. */ " or " */]").    *)
(*     Cases outside these shapes are still enumerated and emitted with    *)
(*     gen = FALSE: the harness replays them against the implementation    *)
(*     model only (byte equality), never against the property.  Further    *)
(*     assumption, not modelled: the generator terminates every statement  *)
(*     explicitly, so removing a newline never removes an automatic        *)
(*     semicolon.  Chunks that end in white space are not generated (the   *)
(*     real scanner indexes b[1] unchecked).                               *)
(*   TLC checks TokensPreserved and EndsInCode on the model for every case   *)
(*   and writes <<item sequence, gen, predicted tokens, predicted hints,   *)
(*   model output bytes>>; the harness runs the real removeWhitespace on   *)
(*   the same bytes and tokenises its output with an independent           *)
(*   tokenizer.                                                            *)
(*                                                                         *)
(* PART 2 -- the JavaScript name allocator (utils.go newVariable,          *)
(* package.go newRootCtx, functions.go nestedFunctionContext).             *)
(*   * Model: a tree of at most MaxScopes function scopes, scope 1 the     *)
(*     package-level context.  tab[s] is allVars of scope s (reserved      *)
(*     words pre-seeded with 1 in the root, kept implicit: see Cnt).       *)
(*     Create(p) copies tab[p]; Alloc(s, goName, pkgLevel) is newVariable: *)
(*     minified -> the first of a, b, .., z, aa, .. (A.. for package       *)
(*     level) whose count in tab[s] is 0; not minified -> encodeIdent      *)
(*     (goName) with the suffix $n when its count n > 0; the count is      *)
(*     stored in s and, for package level, in every proper ancestor        *)
(*     (overwriting, as the code does).                                    *)
(*   * Reference property.  A returned name is OWNED by the allocating     *)
(*     scope (local) or by the root (package level).                       *)
(*       NeverReserved  no returned name is a reserved word (every         *)
(*                      history);                                          *)
(*       NoCapture      a name returned to scope s differs from every name *)
(*                      returned earlier whose owner is s or an ancestor   *)
(*                      of s (this includes all package-level names).      *)
(*     RESTRICTION (reachability).  NoCapture is false of newVariable in   *)
(*     arbitrary interleavings: a child holds a COPY of its parent's       *)
(*     table, so a parent that allocates `a` after the child was created   *)
(*     leaves the child free to allocate `a` too.  In JavaScript this      *)
(*     matters only if the child refers to that variable of the parent.    *)
(*     The compiler cannot produce such a history: translation is a        *)
(*     recursive descent in which only the innermost open function         *)
(*     context allocates (no code reaches fc.parent or fc.root() except    *)
(*     the propagation loop and a map store), a nested context is          *)
(*     translated completely at the point of its function literal, and a   *)
(*     Go closure can only refer to variables declared -- and therefore    *)
(*     named -- before it.  Hence the STACK DISCIPLINE: an action on scope *)
(*     s closes every proper descendant of s for good.  NoCapture is       *)
(*     claimed (and checked by TLC as a state invariant, and by the        *)
(*     harness on the real names) for disciplined histories only; the      *)
(*     other interleavings are enumerated as well, the model predicts      *)
(*     their names, and the real allocator is compared with the prediction *)
(*     (implementation-model binding, never an alarm).                     *)
(*       AlphabetsDisjoint  (robustness, every history, minified) a        *)
(*                      package-level name never equals a local one.       *)
(*   * Go names: ASCII identifiers and the compiler's synthetic names; no  *)
(*     Go-side name ends in $<digits> (no Go identifier or synthetic name  *)
(*     does), which is what keeps `x`,`x` -> `x`,`x$1` apart from a third  *)
(*     variable.                                                           *)
(*   TLC enumerates every history of exactly AMaxOf(minify) actions (its   *)
(*   prefixes                                                              *)
(*   are the shorter ones) or follows the scripts the harness wrote (long  *)
(*   runs), checks the invariants in every state and writes <<history,     *)
(*   predicted names, first undisciplined step>>.                          *)
(*                                                                         *)
(* Params (c16_params.json): smax, sfull, score, sout | free, amaxmin,     *)
(* amaxplain, maxscopes, seeded, gonames, scripts, aout, maxidx.           *)
(* Specifications: SpecScan, SpecAlloc.                                    *)
(***************************************************************************)
EXTENDS Integers, Sequences, FiniteSets, TLC, Json, CSV, SequencesExt

Params == JsonDeserialize("c16_params.json")

VARIABLES sc, al
vars == <<sc, al>>

(***************************************************************************)
(*                           PART 1: the scanner                           *)
(***************************************************************************)
SMax  == Params.smax            \* longest item sequence
SFull == Params.sfull           \* sequences up to this length range over the whole alphabet,
SCore == ToSet(Params.score)    \* longer ones over these items only (indexes into Alphabet)
SOut  == Params.sout

SP == 32  TAB == 9  NL == 10  BS == 8  QUOTE == 34  BSL == 92
SLASH == 47  STAR == 42  MINUS == 45  PLUS == 43

Item(k, b) == [k |-> k, b |-> b]
Alphabet == <<
  Item("id",    <<105, 110>>),                                  \* in
  Item("id",    <<36, 121>>),                                   \* $y
  Item("id",    <<95, 90>>),                                    \* _Z
  Item("num",   <<49>>),                                        \* 1
  Item("minus", <<45>>),                                        \* -
  Item("minus", <<45, 45>>),                                    \* --
  Item("plus",  <<43>>),                                        \* +
  Item("plus",  <<43, 43>>),                                    \* ++
  Item("slash", <<47>>),                                        \* /
  Item("str",   <<34, 113, 92, 34, 114, 34>>),                  \* "q\"r"
  Item("str",   <<34, 92, 92, 34>>),                            \* "\\"
  Item("str",   <<34, 32, 47, 42, 32, 120, 32, 42, 47, 32, 45, 32, 45, 34>>),  \* " /* x */ - -"
  Item("com",   <<47, 42, 32, 99, 32, 42, 47>>),                \* /* c */
  Item("com",   <<47, 42, 42, 42, 47>>),                        \* /***/
  Item("com",   <<47, 42, 47, 34, 42, 47>>),                    \* /*/"*/
  Item("ws",    <<32>>),
  Item("ws",    <<9>>),
  Item("ws",    <<10>>),
  Item("hint",  <<8, 0, 5, 34, 32, 47, 42, 45>>),               \* \b, size 5, payload " /*-
  Item("id",    <<195, 164, 120>>)                              \* äx  (UTF-8 bytes: a Go identifier may start with any letter)
>>
NA == Len(Alphabet)
Endings == << <<59, 10>>, <<125, 10>>, <<123, 10>>, <<58, 10>> >>   \* ;\n  }\n  {\n  :\n

RECURSIVE SumSeq(_, _)
SumSeq(q, i) == IF i > Len(q) THEN 0 ELSE q[i] + SumSeq(q, i + 1)
Ending(q) == Endings[((SumSeq(q, 1) + Len(q)) % 4) + 1]

RECURSIVE Flat(_, _)
Flat(q, i) == IF i > Len(q) THEN <<>> ELSE Alphabet[q[i]].b \o Flat(q, i + 1)
Input(q) == Flat(q, 1) \o Ending(q)

Kind(q, i) == Alphabet[q[i]].k
IsSep(k) == k \in {"ws", "com", "hint"}
RECURSIVE NextSig(_, _)      \* kind of the next item after i that is a token, "" if none
NextSig(q, i) == IF i >= Len(q) THEN "" ELSE IF IsSep(Kind(q, i + 1)) THEN NextSig(q, i + 1) ELSE Kind(q, i + 1)

GenShape(q) ==
  \A i \in 1..Len(q) :
    LET k == Kind(q, i)
        nx == IF i < Len(q) THEN Kind(q, i + 1) ELSE "" IN
    /\ (k = "hint"  => nx \in {"", "id", "ws"})                               \* G1
    /\ (k = "plus"  => NextSig(q, i) # "plus")                                \* G2
    /\ (k = "slash" => nx # "com" /\ NextSig(q, i) # "slash")                 \* G3
    /\ (k = "com"   => nx \in {"", "ws"})                                     \* G7

IsWs(c) == c = SP \/ c = TAB \/ c = NL
IsDigit(c) == c >= 48 /\ c <= 57
\* bytes >= 128 belong to non-ASCII characters, which JavaScript only allows in identifiers (and strings)
IsLetter(c) == (c >= 97 /\ c <= 122) \/ (c >= 65 /\ c <= 90) \/ c >= 128
IsIdStart(c) == IsLetter(c) \/ c = 95 \/ c = 36
\* utils.go needsSpace
NeedsSpace(c) == IsLetter(c) \/ IsDigit(c) \/ c = 95 \/ c = 36 \/ c = BS

(* ---- implementation model: removeWhitespace, one step per byte ---- *)
ScStep(b, s) ==
  LET c == b[s.i] IN
  CASE s.m = "hint" -> [s EXCEPT !.o = Append(@, c), !.i = @ + 1, !.n = @ - 1,
                                 !.m = IF s.n = 1 THEN "code" ELSE "hint"]
    [] s.m = "str"  -> IF c = BSL THEN [s EXCEPT !.o = Append(@, c), !.i = @ + 1, !.m = "esc"]
                       ELSE IF c = QUOTE THEN [s EXCEPT !.o = Append(@, c), !.i = @ + 1, !.m = "code", !.p = QUOTE]
                       ELSE [s EXCEPT !.o = Append(@, c), !.i = @ + 1]
    [] s.m = "esc"  -> [s EXCEPT !.o = Append(@, c), !.i = @ + 1, !.m = "str"]
    [] s.m = "com"  -> IF c = STAR /\ b[s.i + 1] = SLASH THEN [s EXCEPT !.i = @ + 2, !.m = "code"]
                       ELSE [s EXCEPT !.i = @ + 1]
    [] s.m = "code" ->
         IF c = BS THEN                     \* sourcemapx.ReadHint: magic, 16-bit size, payload; previous unchanged
           [s EXCEPT !.o = Append(@, c), !.i = @ + 1, !.m = "hint", !.n = 2 + 256 * b[s.i + 1] + b[s.i + 2]]
         ELSE IF IsWs(c) /\ (~NeedsSpace(s.p) \/ ~NeedsSpace(b[s.i + 1])) /\ ~(s.p = MINUS /\ b[s.i + 1] = MINUS) THEN
           [s EXCEPT !.i = @ + 1]           \* dropped; previous unchanged
         ELSE IF c = QUOTE THEN
           [s EXCEPT !.o = Append(@, c), !.i = @ + 1, !.m = "str"]
         ELSE IF c = SLASH /\ b[s.i + 1] = STAR THEN
           [s EXCEPT !.i = @ + 2, !.m = "com"]      \* the search for */ starts behind /*
         ELSE
           [s EXCEPT !.o = Append(@, c), !.i = @ + 1, !.p = c]    \* also white space that is kept

RECURSIVE ScRun(_, _)
ScRun(b, s) == IF s.i > Len(b) THEN s ELSE ScRun(b, TLCEval(ScStep(b, s)))
Scan(b) == ScRun(b, [m |-> "code", i |-> 1, p |-> 0, o |-> <<>>, n |-> 0])

(* ---- reference: JavaScript tokens of a byte string, hints zero width ---- *)
RECURSIVE StrEnd(_, _)       \* index of the closing quote; first content byte at i
StrEnd(b, i) == IF i >= Len(b) THEN Len(b) ELSE IF b[i] = QUOTE THEN i ELSE IF b[i] = BSL THEN StrEnd(b, i + 2) ELSE StrEnd(b, i + 1)
RECURSIVE ComEnd(_, _)       \* index of the * of the closing */
ComEnd(b, i) == IF i >= Len(b) THEN Len(b) ELSE IF b[i] = STAR /\ b[i + 1] = SLASH THEN i ELSE ComEnd(b, i + 1)

Flush(t) == IF t.cur = <<>> THEN t ELSE [t EXCEPT !.toks = Append(@, t.cur), !.cur = <<>>]
\* t.nb = number of token bytes read so far: the position of a hint is the number
\* of token bytes in front of it (with equal token sequences this says between
\* which tokens, or where inside a token, the hint sits)
TkStep(b, t) ==
  LET c  == b[t.i]
      la == IF t.i < Len(b) THEN b[t.i + 1] ELSE 0 IN
  IF c = BS THEN
    LET n == 3 + 256 * b[t.i + 1] + b[t.i + 2] IN
    [t EXCEPT !.hints = Append(@, <<t.nb, SubSeq(b, t.i, t.i + n - 1)>>), !.i = @ + n]
  ELSE IF IsWs(c) THEN [Flush(t) EXCEPT !.i = @ + 1]
  ELSE IF c = SLASH /\ la = STAR THEN [Flush(t) EXCEPT !.i = ComEnd(b, t.i + 2) + 2]
  ELSE IF c = SLASH /\ la = SLASH THEN [Flush(t) EXCEPT !.toks = Append(@, <<SLASH, SLASH>>), !.i = @ + 2, !.nb = @ + 2]
  ELSE IF c = QUOTE THEN
    LET e == StrEnd(b, t.i + 1) IN [Flush(t) EXCEPT !.toks = Append(@, SubSeq(b, t.i, e)), !.i = e + 1, !.nb = @ + (e + 1 - t.i)]
  ELSE IF IsIdStart(c) THEN
    (IF t.cur # <<>> /\ IsIdStart(t.cur[1]) THEN [t EXCEPT !.cur = Append(@, c), !.i = @ + 1, !.nb = @ + 1]
     ELSE [Flush(t) EXCEPT !.cur = <<c>>, !.i = @ + 1, !.nb = @ + 1])
  ELSE IF IsDigit(c) THEN
    (IF t.cur # <<>> /\ (IsIdStart(t.cur[1]) \/ IsDigit(t.cur[1])) THEN [t EXCEPT !.cur = Append(@, c), !.i = @ + 1, !.nb = @ + 1]
     ELSE [Flush(t) EXCEPT !.cur = <<c>>, !.i = @ + 1, !.nb = @ + 1])
  ELSE IF c = MINUS \/ c = PLUS THEN
    (IF t.cur = <<c>> THEN [t EXCEPT !.toks = Append(@, <<c, c>>), !.cur = <<>>, !.i = @ + 1, !.nb = @ + 1]
     ELSE [Flush(t) EXCEPT !.cur = <<c>>, !.i = @ + 1, !.nb = @ + 1])
  ELSE [Flush(t) EXCEPT !.toks = Append(@, <<c>>), !.i = @ + 1, !.nb = @ + 1]

RECURSIVE TkRun(_, _)
TkRun(b, t) == IF t.i > Len(b) THEN Flush(t) ELSE TkRun(b, TLCEval(TkStep(b, t)))
RefTok(b) == LET t == TkRun(b, [i |-> 1, nb |-> 0, cur |-> <<>>, toks |-> <<>>, hints |-> <<>>]) IN [toks |-> t.toks, hints |-> t.hints]

Analyse(q) ==
  LET in == Input(q)
      s  == Scan(in) IN
  [q |-> q, gen |-> GenShape(q), out |-> s.o, endmode |-> s.m, rt |-> RefTok(in), ot |-> RefTok(s.o)]

ScanInit == sc = Analyse(<<>>)
ScanNext == /\ Len(sc.q) < SMax
            /\ \E a \in 1..NA :
                 /\ (Len(sc.q) < SFull \/ (a \in SCore /\ \A i \in 1..Len(sc.q) : sc.q[i] \in SCore))
                 /\ sc' = Analyse(Append(sc.q, a))

\* the model satisfies the reference property on every generator-shaped case
TokensPreserved == sc.gen => sc.rt = sc.ot
\* whatever the shape: the scanner model ends in the code state (no string, comment or hint left open)
EndsInCode == sc.endmode = "code"
HintPos(h) == [k \in DOMAIN h |-> h[k][1]]
ScanFile == SOut \o "." \o (IF sc.q = <<>> THEN "0" ELSE ToString(sc.q[1])) \o ".ndjson"
EmitScan == CSVWrite("%1$s", <<ToJson(<<sc.q, sc.gen, sc.rt.toks, HintPos(sc.rt.hints), sc.out>>)>>, ScanFile)
\* the alphabet and the endings, once, for the harness
EmitAlphabet == sc.q = <<>> => CSVWrite("%1$s", <<ToJson(<<[i \in 1..NA |-> Alphabet[i].b], Endings, [i \in 1..NA |-> Alphabet[i].k]>>)>>, SOut \o ".alphabet.json")

SpecScan == ScanInit /\ al = <<>> /\ [][ScanNext /\ UNCHANGED al]_vars

(***************************************************************************)
(*                        PART 2: the name allocator                       *)
(***************************************************************************)
MaxScopes == Params.maxscopes
Seeded    == Params.seeded         \* FALSE only for what-if runs of the model
GoNames   == ToSet(Params.gonames) \* Go-side names of the free enumeration, not minified
Free      == ToSet(Params.free)    \* which free enumerations to run: subset of {TRUE, FALSE} (minify)
AMaxOf(min) == IF min THEN Params.amaxmin ELSE Params.amaxplain
Scripts   == Params.scripts        \* [min, steps]: one behaviour per script (long runs)
AOut      == Params.aout
MaxIdx    == Params.maxidx

\* compiler/compiler.go reservedKeywords
Reserved == {
  "abstract", "arguments", "await", "async", "boolean", "break", "byte", "case", "catch", "char", "class", "const",
  "continue", "debugger", "default", "delete", "do", "double", "else", "enum", "eval", "export", "extends", "false",
  "final", "finally", "float", "for", "function", "goto", "if", "implements", "import", "in", "instanceof",
  "int", "interface", "let", "long", "native", "new", "null", "package", "private", "protected", "public",
  "return", "short", "static", "super", "switch", "synchronized", "this", "throw", "throws", "transient",
  "true", "try", "typeof", "undefined", "using", "var", "void", "volatile", "while", "with", "yield" }

Lower == <<"a","b","c","d","e","f","g","h","i","j","k","l","m","n","o","p","q","r","s","t","u","v","w","x","y","z">>
Upper == <<"A","B","C","D","E","F","G","H","I","J","K","L","M","N","O","P","Q","R","S","T","U","V","W","X","Y","Z">>
\* utils.go:296-304: name = letter(j%26) + name; j = j/26 - 1; until j = -1
RECURSIVE ShortFrom(_, _, _)
ShortFrom(j, L, acc) == LET acc2 == L[(j % 26) + 1] \o acc
                            j2   == (j \div 26) - 1 IN
                        IF j2 = -1 THEN acc2 ELSE ShortFrom(j2, L, acc2)
LowerNames == [i \in 0..MaxIdx |-> ShortFrom(i, Lower, "")]
UpperNames == [i \in 0..MaxIdx |-> ShortFrom(i, Upper, "")]
Short(i, pkg) == IF i <= MaxIdx THEN (IF pkg THEN UpperNames[i] ELSE LowerNames[i])
                 ELSE ShortFrom(i, IF pkg THEN Upper ELSE Lower, "")

\* encodeIdent = url.QueryEscape with % -> $ (and the middle dot kept): the
\* identity on [A-Za-z0-9_]; `$` becomes $24.
EncodeIdent(g) == CASE g = "x$ptr" -> "x$24ptr" [] g = "$r" -> "$24r" [] OTHER -> g

\* allVars[name] of a table: only changed entries are stored, the pre-seeded
\* reserved words are implicit
Cnt(t, n) == IF n \in DOMAIN t THEN t[n] ELSE IF Seeded /\ n \in Reserved THEN 1 ELSE 0
Put(t, n, v) == [x \in (DOMAIN t) \cup {n} |-> IF x = n THEN v ELSE t[x]]
EmptyTab == [x \in {} |-> 0]

RECURSIVE FirstFree(_, _, _)
FirstFree(t, pkg, i) == IF Cnt(t, Short(i, pkg)) = 0 THEN Short(i, pkg) ELSE FirstFree(t, pkg, i + 1)

RECURSIVE IsAnc(_, _, _)      \* a is a proper ancestor of s
IsAnc(par, a, s) == IF par[s] = 0 THEN FALSE ELSE par[s] = a \/ IsAnc(par, a, par[s])
AncOrSelf(par, a, s) == a = s \/ IsAnc(par, a, s)

\* state: par[s] parent (0 for the root), tab[s] table, steps = history so far
\* (<<"c", parent, "">> | <<"l"|"p", scope, goName>>), names[k] the name returned by
\* step k ("" for c), closed = scopes that may no longer act under the stack
\* discipline, bad = first undisciplined step (0: none), k = script position
Discipline(a, s, step) ==
  [a EXCEPT !.bad = IF a.bad = 0 /\ s \in a.closed THEN step ELSE a.bad,
            !.closed = a.closed \cup {d \in 1..Len(a.par) : IsAnc(a.par, s, d)}]

DoCreate(a0, p) ==
  LET step == Len(a0.names) + 1
      a == Discipline(a0, p, step) IN
  [a EXCEPT !.par = Append(@, p), !.tab = Append(@, a.tab[p]),            \* functions.go:48 copy
            !.steps = Append(@, <<"c", p, "">>), !.names = Append(@, "")]

DoAlloc(a0, s, g, pkg) ==
  LET step == Len(a0.names) + 1
      a    == Discipline(a0, s, step)
      name == IF a.min THEN FirstFree(a.tab[s], pkg, 0) ELSE EncodeIdent(g)
      n    == Cnt(a.tab[s], name)
      var  == IF n > 0 THEN name \o "$" \o ToString(n) ELSE name IN
  [a EXCEPT !.tab = [x \in DOMAIN a.tab |->
                       IF x = s \/ (pkg /\ IsAnc(a.par, x, s)) THEN Put(a.tab[x], name, n + 1) ELSE a.tab[x]],
            !.steps = Append(@, <<IF pkg THEN "p" ELSE "l", s, g>>), !.names = Append(@, var)]

\* si = 0: free enumeration; si > 0: following Scripts[si].  The steps are kept
\* in the state only for the free enumeration.
AllocStart(si, min) == [par |-> <<0>>, tab |-> <<EmptyTab>>, steps |-> <<>>, names |-> <<>>, closed |-> {}, bad |-> 0, si |-> si, min |-> min]

Apply(a, st) == IF st[1] = "c" THEN DoCreate(a, st[2]) ELSE DoAlloc(a, st[2], st[3], st[1] = "p")

AllocInit == \/ \E min \in Free : al = AllocStart(0, min)
             \/ \E si \in 1..Len(Scripts) : al = AllocStart(si, Scripts[si].min)
AllocNext ==
  IF al.si = 0 THEN
    /\ Len(al.names) < AMaxOf(al.min)
    /\ \/ \E p \in 1..Len(al.par) : Len(al.par) < MaxScopes /\ al' = TLCEval(DoCreate(al, p))
       \/ \E s \in 1..Len(al.par), g \in (IF al.min THEN {"x"} ELSE GoNames), pkg \in BOOLEAN : al' = TLCEval(DoAlloc(al, s, g, pkg))
  ELSE
    /\ Len(al.names) < Len(Scripts[al.si].steps)
    /\ al' = TLCEval(Apply(al, Scripts[al.si].steps[Len(al.names) + 1]))

IsAllocStep(a, k) == a.steps[k][1] # "c"
Owner(a, k) == IF a.steps[k][1] = "p" THEN 1 ELSE a.steps[k][2]
LastK == Len(al.names)

NeverReserved == LastK > 0 /\ IsAllocStep(al, LastK) => al.names[LastK] \notin Reserved
NoCapture ==
  LastK > 0 /\ IsAllocStep(al, LastK) /\ al.bad = 0 =>
    \A j \in 1..(LastK - 1) :
      IsAllocStep(al, j) /\ AncOrSelf(al.par, Owner(al, j), al.steps[LastK][2]) => al.names[j] # al.names[LastK]
AlphabetsDisjoint ==
  al.min /\ LastK > 0 /\ IsAllocStep(al, LastK) =>
    \A j \in 1..(LastK - 1) :
      IsAllocStep(al, j) /\ al.steps[j][1] # al.steps[LastK][1] => al.names[j] # al.names[LastK]

AtLeaf == IF al.si = 0 THEN LastK = AMaxOf(al.min) ELSE LastK = Len(Scripts[al.si].steps)
EmitAlloc == AtLeaf =>
  CSVWrite("%1$s", <<ToJson(<<al.si, al.min, IF al.si = 0 THEN al.steps ELSE <<>>, al.names, al.bad>>)>>,
           IF al.si = 0 THEN AOut ELSE AOut \o ".s" \o ToString(al.si))     \* a long line gets a file of its own

SpecAlloc == AllocInit /\ sc = <<>> /\ [][AllocNext /\ UNCHANGED sc]_vars
=============================================================================
