--------------------------- MODULE ConstraintsReal ---------------------------
(***************************************************************************)
(* C18 on real standard-library directories.  The harness lists the .go    *)
(* files of some directories of GOROOT/src, reads the //go:build line of   *)
(* each file into an expression tree and its name into parts, and writes   *)
(* them to c18_real.json.  TLC evaluates Constraints!Selected / ListOf for *)
(* every file under the standard-library tag environment (GOOS=js          *)
(* GOARCH=wasm whatever the process environment says) and every user tag   *)
(* set, and writes one line per directory:                                  *)
(*   <<path, << <<name, listWhenSelected, listWhenNot, <<mask_env1,..>>>>, ..>>>> *)
(* The harness loads the same packages by import path with the real build  *)
(* context of /repo and compares the lists.                                 *)
(*                                                                         *)
(* Params (c18_real.json):                                                  *)
(*   usersets  sequence of user tag sets                                    *)
(*   envs      sequence of [std, goos, goarch]                              *)
(*   pkgs      sequence of [path, files: sequence of                        *)
(*                [kind, pre, parts, expr, cgo]]   (expr as nested arrays)  *)
(*   out       prefix of the output files (one per directory)               *)
(***************************************************************************)
EXTENDS Constraints, Json, CSV, SequencesExt

Params == JsonDeserialize("c18_real.json")
Pkgs == Params.pkgs
UserSets == TLCEval([i \in DOMAIN Params.usersets |-> Range(Params.usersets[i])])
NU == Len(UserSets)
Envs == Params.envs
NE == Len(Envs)
TS == TLCEval([e \in 1..NE |-> [i \in 1..NU |->
         PkgTags(Envs[e].std, [goos |-> Envs[e].goos, goarch |-> Envs[e].goarch], UserSets[i])]])

RECURSIVE MaskFrom(_, _, _)
MaskFrom(f, e, i) ==
  IF i > NU THEN 0 ELSE (IF Selected(f, TS[e][i]) THEN 2^(i-1) ELSE 0) + MaskFrom(f, e, i + 1)

FileRec(f) == <<FileName(f), ListWhen(f, TRUE), ListWhen(f, FALSE), [e \in 1..NE |-> MaskFrom(f, e, 1)]>>
Rec(p) == <<Pkgs[p].path, [k \in DOMAIN Pkgs[p].files |-> FileRec(Pkgs[p].files[k])]>>

VARIABLES pkg
Init == pkg \in DOMAIN Pkgs
Next == UNCHANGED pkg
Spec == Init /\ [][Next]_pkg

\* one file per directory (concurrent appends of long lines to one file interleave)
Emit == CSVWrite("%1$s", <<ToJson(Rec(pkg))>>, Params.out \o "." \o ToString(pkg) \o ".ndjson")

\* every standard-library environment selects exactly as js/wasm does:
\* the process environment never shows
EnvBlind ==
  \A k \in DOMAIN Pkgs[pkg].files : \A e \in 1..NE : \A i \in 1..NU :
    Envs[e].std => (Selected(Pkgs[pkg].files[k], TS[e][i])
                    = Selected(Pkgs[pkg].files[k], EnvTags("js", "wasm", UserSets[i])))
=============================================================================
