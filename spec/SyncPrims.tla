------------------------------ MODULE SyncPrims ------------------------------
(***************************************************************************)
(* Sequential specifications of Go's sync primitives (C13): Mutex,         *)
(* RWMutex, WaitGroup, Once, Map, Pool -- what package sync does when ONE  *)
(* goroutine applies a history of operations to a fresh primitive.         *)
(*                                                                         *)
(* Every operation yields an outcome <<class, r1, r2, ...>> :              *)
(*   OK     the call returns; r_i are its results (integers, None = nil)   *)
(*   PANIC  the call panics with a recoverable panic (also in sync)        *)
(*   BLOCK  package sync would block for ever (contended step)             *)
(*   FATAL  package sync aborts the process ("fatal error: sync: unlock    *)
(*          of unlocked mutex")                                            *)
(* and a successor state.  A BLOCK or FATAL step has NO effect on the      *)
(* state: the history continues as if the step had not been written (this  *)
(* is what a single-threaded program that recovers from the replacement's  *)
(* panic observes, and it is how the guard runs the real sync package:     *)
(* the step is observed to block / to kill the process and the history is  *)
(* re-run without it).                                                     *)
(*                                                                         *)
(* Two predictions are produced for each step:                             *)
(*   ref   what package sync does (classes OK PANIC BLOCK FATAL)           *)
(*   impl  what the single-threaded replacement (gopherjs/nosync) must do: *)
(*         the same, except that BLOCK and FATAL become a PANIC            *)
(* They differ in one more place: a function passed to Once.Do that calls  *)
(* Do again blocks in sync; in the replacement that inner call panics, and *)
(* if f does not recover, the panic leaves the OUTER Do as well.           *)
(*                                                                         *)
(* Operations are tuples <<name, a, b>> (a, b integers, 0 when unused) so   *)
(* that alphabets can be passed as JSON.  Step(prim, st, op) is the SET of *)
(* possible [st, ref, impl] results (a singleton except for Pool.Get,      *)
(* which may return any value put before or call New).                     *)
(*                                                                         *)
(* SyncPrimsScen.tla enumerates all histories over a given alphabet with   *)
(* both predictions and checks the invariants below on every prefix.       *)
(***************************************************************************)
EXTENDS Integers, Sequences, FiniteSets, TLC

OK == 0
PANIC == 1
BLOCK == 2
FATAL == 3
None == -1

ImplOf(o) == IF o[1] \in {BLOCK, FATAL} THEN <<PANIC>> ELSE o
R(st, ref, impl) == [st |-> st, ref |-> ref, impl |-> impl]
Same(st, o) == {R(st, o, ImplOf(o))}
B01(b) == IF b THEN 1 ELSE 0

(***************************************************************************)
(* Mutex: Lock Unlock TryLock                                              *)
(***************************************************************************)
MutexInit == [locked |-> FALSE]
MutexStep(s, op) ==
  CASE op[1] = "Lock"    -> IF s.locked THEN Same(s, <<BLOCK>>) ELSE Same([locked |-> TRUE], <<OK>>)
    [] op[1] = "Unlock"  -> IF ~s.locked THEN Same(s, <<FATAL>>) ELSE Same([locked |-> FALSE], <<OK>>)
    [] op[1] = "TryLock" -> IF s.locked THEN Same(s, <<OK, 0>>) ELSE Same([locked |-> TRUE], <<OK, 1>>)
MutexOps == {"Lock", "Unlock", "TryLock"}
MutexTypeOK(s) == s.locked \in BOOLEAN

(***************************************************************************)
(* RWMutex: w = held for writing, r = number of read locks held.           *)
(* RLocker().Lock / Unlock are RLock / RUnlock.                            *)
(***************************************************************************)
RWInit == [w |-> FALSE, r |-> 0]
RWStep(s, op) ==
  CASE op[1] = "Lock"     -> IF s.w \/ s.r > 0 THEN Same(s, <<BLOCK>>) ELSE Same([s EXCEPT !.w = TRUE], <<OK>>)
    [] op[1] = "Unlock"   -> IF ~s.w THEN Same(s, <<FATAL>>) ELSE Same([s EXCEPT !.w = FALSE], <<OK>>)
    [] op[1] \in {"RLock", "RLocker.Lock"} ->
                             IF s.w THEN Same(s, <<BLOCK>>) ELSE Same([s EXCEPT !.r = @ + 1], <<OK>>)
    [] op[1] \in {"RUnlock", "RLocker.Unlock"} ->
                             IF s.r = 0 THEN Same(s, <<FATAL>>) ELSE Same([s EXCEPT !.r = @ - 1], <<OK>>)
    [] op[1] = "TryLock"  -> IF s.w \/ s.r > 0 THEN Same(s, <<OK, 0>>) ELSE Same([s EXCEPT !.w = TRUE], <<OK, 1>>)
    [] op[1] = "TryRLock" -> IF s.w THEN Same(s, <<OK, 0>>) ELSE Same([s EXCEPT !.r = @ + 1], <<OK, 1>>)
RWOps == {"Lock", "Unlock", "RLock", "RUnlock", "TryLock", "TryRLock", "RLocker.Lock", "RLocker.Unlock"}
RWTypeOK(s) == s.w \in BOOLEAN /\ s.r \in Nat
RWExclusion(s) == ~(s.w /\ s.r > 0)

(***************************************************************************)
(* WaitGroup: n = counter.  Add(delta) adds first and panics afterwards    *)
(* when the counter went negative (the negative value stays).  Wait        *)
(* returns iff the counter is zero, otherwise it blocks.                   *)
(***************************************************************************)
WGInit == [n |-> 0]
WGAdd(s, d) == LET n2 == s.n + d IN Same([n |-> n2], IF n2 < 0 THEN <<PANIC>> ELSE <<OK>>)
WGStep(s, op) ==
  CASE op[1] = "Add"  -> WGAdd(s, op[2])
    [] op[1] = "Done" -> WGAdd(s, -1)
    [] op[1] = "Wait" -> IF s.n = 0 THEN Same(s, <<OK>>) ELSE Same(s, <<BLOCK>>)
WGOps == {"Add", "Done", "Wait"}
WGTypeOK(s) == s.n \in Int

(***************************************************************************)
(* Once.  Do(f) with f one of                                              *)
(*   1 nop       f returns                                                 *)
(*   2 panic     f panics                                                  *)
(*   3 reent     f calls o.Do(nop) and does not recover                    *)
(*   4 reentrec  f calls o.Do(nop) under recover and returns               *)
(* calls = number of times any f passed to the OUTER Do was entered; done  *)
(* = a call of Do has completed (f returned or panicked); doing = inside   *)
(* f (sync: the Once's mutex is held).                                     *)
(* Outcome of Do: <<class, calls after the call, class of the inner Do or  *)
(* None>>.                                                                 *)
(***************************************************************************)
OnceInit == [done |-> FALSE, doing |-> FALSE, calls |-> 0]
\* the nested call made by f: the Once is in state s (doing = TRUE)
OnceInner(s) == IF s.done THEN OK ELSE IF s.doing THEN BLOCK ELSE OK
OnceStep(s, op) ==
  LET f == op[2] IN
  IF s.done THEN Same(s, <<OK, s.calls, None>>)
  ELSE IF s.doing THEN Same(s, <<BLOCK>>)
  ELSE LET s1 == [s EXCEPT !.doing = TRUE, !.calls = @ + 1]       \* f is entered
           fin == [s1 EXCEPT !.doing = FALSE, !.done = TRUE]      \* deferred: done is set when f returns OR panics
       IN CASE f = 1 -> Same(fin, <<OK, fin.calls, None>>)
            [] f = 2 -> Same(fin, <<PANIC, fin.calls, None>>)
            [] f = 3 -> LET i == OnceInner(s1) IN
                        IF i = BLOCK
                        THEN {R(fin, <<OK, fin.calls, BLOCK>>, <<PANIC, fin.calls, PANIC>>)}
                        ELSE Same(fin, <<OK, fin.calls, i>>)
            [] f = 4 -> LET i == OnceInner(s1) IN
                        IF i = BLOCK
                        THEN {R(fin, <<OK, fin.calls, BLOCK>>, <<OK, fin.calls, PANIC>>)}
                        ELSE Same(fin, <<OK, fin.calls, i>>)
OnceOps == {"Do"}
OnceTypeOK(s) == s.done \in BOOLEAN /\ s.doing \in BOOLEAN /\ s.calls \in Nat
OnceAtMostOnce(s) == s.calls <= 1 /\ (s.done => s.calls = 1) /\ ~s.doing

(***************************************************************************)
(* Map: a set of <<key, value>> pairs that is a function.  Key 0 stands    *)
(* for a key of an unhashable dynamic type (a slice): every operation that *)
(* takes it panics with a run-time error and changes nothing.              *)
(* Range(n): the callback returns false at its n-th call (n = 0: never);   *)
(* the outcome lists the number of calls the specification allows and the  *)
(* whole content in key order: the calls made must be that many distinct   *)
(* entries of the content (any of them: iteration order is unspecified).   *)
(* RangeDel: the callback deletes the key it is given.                     *)
(***************************************************************************)
MaxKey == 9
MapInit == {}
Has(m, k) == \E p \in m : p[1] = k
Get(m, k) == (CHOOSE p \in m : p[1] = k)[2]
Put(m, k, v) == {p \in m : p[1] # k} \cup {<<k, v>>}
Del(m, k) == {p \in m : p[1] # k}
RECURSIVE Flat(_, _)
Flat(m, k) == IF k > MaxKey THEN <<>>
              ELSE (IF Has(m, k) THEN <<k, Get(m, k)>> ELSE <<>>) \o Flat(m, k + 1)
Min2(a, b) == IF a < b THEN a ELSE b
MapStep(m, op) ==
  LET k == op[2] IN
  IF op[1] \notin {"Range", "RangeDel", "Clear"} /\ k = 0 THEN Same(m, <<PANIC>>)
  ELSE
  CASE op[1] = "Load"   -> Same(m, IF Has(m, k) THEN <<OK, 1, Get(m, k)>> ELSE <<OK, 0, None>>)
    [] op[1] = "Store"  -> Same(Put(m, k, op[3]), <<OK>>)
    [] op[1] = "LoadOrStore" -> IF Has(m, k) THEN Same(m, <<OK, 1, Get(m, k)>>)
                                ELSE Same(Put(m, k, op[3]), <<OK, 0, op[3]>>)
    [] op[1] = "LoadAndDelete" -> IF Has(m, k) THEN Same(Del(m, k), <<OK, 1, Get(m, k)>>)
                                  ELSE Same(m, <<OK, 0, None>>)
    [] op[1] = "Delete" -> Same(Del(m, k), <<OK>>)
    [] op[1] = "Swap"   -> Same(Put(m, k, op[3]), IF Has(m, k) THEN <<OK, 1, Get(m, k)>> ELSE <<OK, 0, None>>)
    \* CompareAndSwap(k, old, new): old = op[3], new = op[3] + 1 (alphabet size stays small)
    [] op[1] = "CompareAndSwap" -> IF Has(m, k) /\ Get(m, k) = op[3]
                                   THEN Same(Put(m, k, op[3] + 1), <<OK, 1>>) ELSE Same(m, <<OK, 0>>)
    [] op[1] = "CompareAndDelete" -> IF Has(m, k) /\ Get(m, k) = op[3]
                                     THEN Same(Del(m, k), <<OK, 1>>) ELSE Same(m, <<OK, 0>>)
    [] op[1] = "Range"    -> LET c == Cardinality(m) IN
                             Same(m, <<OK, IF op[2] = 0 THEN c ELSE Min2(op[2], c)>> \o Flat(m, 1))
    [] op[1] = "RangeDel" -> Same({}, <<OK, Cardinality(m)>> \o Flat(m, 1))
    [] op[1] = "Clear"    -> Same({}, <<OK>>)
MapOps == {"Load", "Store", "LoadOrStore", "LoadAndDelete", "Delete", "Swap", "CompareAndSwap",
           "CompareAndDelete", "Range", "RangeDel", "Clear"}
MapFunctional(m) == \A p, q \in m : p[1] = q[1] => p = q
MapTypeOK(m) == \A p \in m : p[1] \in 1..MaxKey /\ p[2] \in Nat

(***************************************************************************)
(* Pool: bag[v] = how many times value v is in the pool (values 1..3), new *)
(* = whether a New function is installed, news = calls of New so far (the  *)
(* i-th call returns 100 + i).  Get returns ANY value in the pool and      *)
(* removes it, or ignores the pool: New() if installed, else nil.          *)
(* Put(0) puts nil, which is ignored.  Items may also be dropped at any    *)
(* time; dropping only removes possibilities of Get and "ignore the pool"  *)
(* is always allowed, so the set of allowed results is the same without a  *)
(* drop action.                                                            *)
(***************************************************************************)
PoolVals == 1..3
PoolInit == [bag |-> [v \in PoolVals |-> 0], new |-> FALSE, news |-> 0]
PoolStep(s, op) ==
  CASE op[1] = "SetNew" -> Same([s EXCEPT !.new = (op[2] = 1)], <<OK>>)
    [] op[1] = "Put" -> IF op[2] = 0 THEN Same(s, <<OK>>) ELSE Same([s EXCEPT !.bag[op[2]] = @ + 1], <<OK>>)
    [] op[1] = "Get" ->
         UNION {Same([s EXCEPT !.bag[v] = @ - 1], <<OK, v>>) : v \in {x \in PoolVals : s.bag[x] > 0}}
         \cup (IF s.new THEN Same([s EXCEPT !.news = @ + 1], <<OK, 100 + s.news + 1>>)
               ELSE Same(s, <<OK, None>>))
PoolOps == {"SetNew", "Put", "Get"}
PoolTypeOK(s) == s.new \in BOOLEAN /\ s.news \in Nat /\ \A v \in PoolVals : s.bag[v] \in Nat

(***************************************************************************)
(* Dispatch                                                                *)
(***************************************************************************)
Prims == {"Mutex", "RWMutex", "WaitGroup", "Once", "Map", "Pool"}
InitOf(p) == CASE p = "Mutex" -> MutexInit [] p = "RWMutex" -> RWInit [] p = "WaitGroup" -> WGInit
               [] p = "Once" -> OnceInit [] p = "Map" -> MapInit [] p = "Pool" -> PoolInit
Step(p, s, op) == CASE p = "Mutex" -> MutexStep(s, op) [] p = "RWMutex" -> RWStep(s, op)
                    [] p = "WaitGroup" -> WGStep(s, op) [] p = "Once" -> OnceStep(s, op)
                    [] p = "Map" -> MapStep(s, op) [] p = "Pool" -> PoolStep(s, op)
OpsOf(p) == CASE p = "Mutex" -> MutexOps [] p = "RWMutex" -> RWOps [] p = "WaitGroup" -> WGOps
              [] p = "Once" -> OnceOps [] p = "Map" -> MapOps [] p = "Pool" -> PoolOps
TypeOKOf(p, s) == CASE p = "Mutex" -> MutexTypeOK(s) [] p = "RWMutex" -> RWTypeOK(s) [] p = "WaitGroup" -> WGTypeOK(s)
                    [] p = "Once" -> OnceTypeOK(s) [] p = "Map" -> MapTypeOK(s) [] p = "Pool" -> PoolTypeOK(s)
=============================================================================
