----------------------------- MODULE GoMapScen -----------------------------
(***************************************************************************)
(* Scenario enumeration for C15.  TLC builds                               *)
(*   - the CATALOG of key types: every leaf kind, its named version, an    *)
(*     array of it, a struct of it next to a string, a set of special      *)
(*     shapes (blank fields, empty struct, [0]T, nested string joiners),   *)
(*     and types generated to depth 3 from seeded selector vectors;        *)
(*   - per key type a POOL of key values with adversarial members (NaN,    *)
(*     signed zeros, complex numbers with NaN parts, strings made of the   *)
(*     separator and escape characters of the implementation's key         *)
(*     strings, 64-bit integers with equal low and different high words,   *)
(*     pointers to distinct but equal objects, interface values that look  *)
(*     alike but differ in dynamic type, equally named distinct types,     *)
(*     unhashable dynamic values); composite pools are products of the     *)
(*     element pools, cut to a cap by seeded selection;                    *)
(*   - per key type the HISTORIES of the families                          *)
(*       pairs: for all selected pool indices (i, j): insert i, insert j,  *)
(*              then lookup/len resp. delete/comma-ok (exhaustive),        *)
(*       dump:  map literal of the whole pool, len, range, clear, len,     *)
(*       sim:   seeded operation sequences of length L over all operations *)
(*              starting from make / literal / nil map,                    *)
(*       laws:  no history; checks the laws of key equality on the pool;   *)
(* evaluates GoMap!Step along every history, checks on every intermediate  *)
(* state that the entry-set model refines the quotient model (AbsOK) and   *)
(* that deterministic results agree with it, and writes one JSON line per  *)
(* history: [ty, fam, init, ops, res].  c15_catalog.json carries the type  *)
(* terms, the pools and what the specification says about every pool       *)
(* member (hashable, class representative).                                *)
(*                                                                         *)
(* Params (c15_params.json, written by the harness from VERIF_SEED):       *)
(*   out       prefix of the output files                                  *)
(*   poolCap   maximal pool size of a composite type                       *)
(*   elemCap   maximal pool size of a composite type used as element       *)
(*   pairCap   number of pool indices used by pairs and sim                *)
(*   L         history length (4 quick, 6 thorough)                        *)
(*   nsim      number of seeded histories per type                         *)
(*   typeSel   selector vectors (7 numbers each) of generated types        *)
(*   poolSel   numbers used to cut products to the cap                     *)
(*   simSel    nsim vectors of L+1 numbers                                 *)
(*   fams      families to enumerate                                       *)
(***************************************************************************)
EXTENDS GoMap, Json, CSV, FiniteSetsExt

Params == JsonDeserialize("c15_params.json")
OutFile == Params.out
PoolCap == Params.poolCap
ElemCap == Params.elemCap
PairCap == Params.pairCap
L       == Params.L
NSim    == Params.nsim
TypeSel == Params.typeSel
PoolSel == Params.poolSel
SimSel  == Params.simSel
Fams    == Range(Params.fams)

(***************************************************************************)
(* value constructors                                                      *)
(***************************************************************************)
B(x) == <<"b", x>>
I(h, l) == <<"i", h, l>>
F(s) == <<"f", s>>
C(r, i) == <<"c", r, i>>
S(bytes) == <<"s", bytes>>
P(o) == <<"p", o, 0>>
Pf(o, f) == <<"p", o, f>>
NilI == <<"n">>
D(T, v) == <<"d", T, v>>
A(es) == <<"a", es>>
St(fs) == <<"t", fs>>
Uv(kind) == <<"u", kind>>

(***************************************************************************)
(* leaf kinds                                                              *)
(***************************************************************************)
LeafNames == <<"bool", "int8", "int32", "int", "uint8", "uint32", "int64", "uint64", "float64", "float32",
               "complex128", "complex64", "string", "ptr", "ptrS", "ptrA", "chan", "uptr", "any", "imeth">>
LeafType(n) ==
  CASE n = "ptr"  -> PtrT("int32")
    [] n = "ptrS" -> PtrT("S")
    [] n = "ptrA" -> PtrT("A")
    [] n = "chan" -> ChanT("int32")
    [] n = "uptr" -> Basic("unsafeptr")
    [] n = "any"  -> Iface("any")
    [] n = "imeth" -> Iface("M")
    [] OTHER -> Basic(n)
LeafNameOf(U) ==
  CASE U[1] = "ptr"  -> (CASE U[2] = "int32" -> "ptr" [] U[2] = "S" -> "ptrS" [] U[2] = "A" -> "ptrA")
    [] U[1] = "chan" -> "chan"
    [] U[1] = "iface" -> (IF U[2] = "any" THEN "any" ELSE "imeth")
    [] U[1] = "basic" -> (IF U[2] = "unsafeptr" THEN "uptr" ELSE U[2])
IsLeaf(U) == U[1] \in {"basic", "ptr", "chan", "iface"}

\* types that only occur as dynamic types of interface values
TI32  == Basic("int32")
Tmain == Named("T", "main", TI32)       \* type T int32 at package level of main
Tf    == Named("T", "f", TI32)          \* type T int32 declared inside function f
Tg    == Named("T", "g", TI32)          \* type T int32 declared inside function g
Tax   == Named("T", "a/x", TI32)        \* type T int32 in package vp/a/x
Tbx   == Named("T", "b/x", TI32)        \* type T int32 in package vp/b/x (same package name)
R1    == Named("R1", "main", TI32)      \* has method M
R2    == Named("R2", "main", TI32)      \* has method M
SMain == Struct("main", << <<"a", TI32>> >>)
SAx   == Struct("a/x",  << <<"a", TI32>> >>)   \* unexported field: a different type in every package
SBx   == Struct("b/x",  << <<"a", TI32>> >>)
USlice == D(Unhash("slice"), Uv("slice"))
UMap   == D(Unhash("map"), Uv("map"))
UFunc  == D(Unhash("func"), Uv("func"))
UStruct == D(Unhash("structslice"), Uv("structslice"))
UArr   == D(Arr(1, Iface("any")), A(<< USlice >>))

AnyPool(pv) ==
  CASE pv = 1 -> \* equal-looking values of different dynamic types
         << D(Basic("int"), I(0, 1)), D(TI32, I(0, 1)), D(Basic("int64"), I(0, 1)), D(Basic("uint64"), I(0, 1)),
            D(Basic("uint8"), I(0, 1)), D(Basic("float64"), F("1")), D(Basic("float32"), F("1")),
            D(Basic("complex128"), C("1", "+0")), D(Basic("string"), S(<<49>>)), D(Basic("bool"), B(1)),
            D(Arr(1, TI32), A(<<I(0, 1)>>)), D(SMain, St(<<I(0, 1)>>)) >>
    [] pv = 2 -> \* equally named distinct types
         << D(Tmain, I(0, 1)), D(Tf, I(0, 1)), D(Tg, I(0, 1)), D(Tax, I(0, 1)), D(Tbx, I(0, 1)), D(TI32, I(0, 1)),
            D(SAx, St(<<I(0, 1)>>)), D(SBx, St(<<I(0, 1)>>)), D(SMain, St(<<I(0, 1)>>)), D(R1, I(0, 1)), D(R2, I(0, 1)) >>
    [] pv = 3 -> \* unhashable dynamic values
         << NilI, USlice, UMap, UFunc, UStruct, UArr, D(TI32, I(0, 0)), D(Basic("string"), S(<<>>)) >>
    [] pv = 4 -> \* nils, pointers, NaN, zeros
         << NilI, D(PtrT("int32"), P(0)), D(PtrT("S"), P(0)), D(ChanT("int32"), P(0)), D(PtrT("int32"), P(1)),
            D(PtrT("int32"), P(2)), D(Basic("float64"), F("nan")), D(Basic("float64"), F("+0")),
            D(Basic("float64"), F("-0")), D(Basic("complex128"), C("nan", "1")), D(Basic("string"), S(<<110, 105, 108>>)) >>

LeafPool(n, pv) ==
  CASE n = "bool"  -> << B(0), B(1) >>
    [] n = "int8"  -> << I(0, 0), I(0, 1), I(0, -1), I(0, 127), I(0, -128) >>
    [] n = "int32" -> << I(0, 0), I(0, 1), I(0, -1), I(0, 65536), I(0, 2147483647), I(0, -2147483647) >>
    [] n = "int"   -> << I(0, 0), I(0, 1), I(0, -1), I(0, 1000000) >>
    [] n = "uint8" -> << I(0, 0), I(0, 1), I(0, 255) >>
    [] n = "uint32" -> << I(0, 0), I(0, 1), I(0, -1), I(0, 2147483647) >>      \* -1: the all-ones word
    \* 64 bit: <<hi, lo>> words; -1 stands for the all-ones word
    \* around 2^53 (hi = 2097152: neighbours are not distinguishable as float64), around -2^53, near the extremes
    [] n = "int64"  -> << I(0, 0), I(0, 1), I(1, 1), I(1, 0), I(-1, 1), I(-1, -1), I(0, -1),
                          I(2097151, -1), I(2097152, 0), I(2097152, 1), I(2097152, 2), I(-2097152, 0), I(-2097153, -1),
                          I(-2097152, 1), I(2147483647, -1), I(2147483647, 0), I(2147483647, 1), I(-2147483647, 0), I(-2147483647, 1) >>
    [] n = "uint64" -> << I(0, 0), I(0, 1), I(1, 1), I(1, 0), I(-1, 1), I(-1, -1), I(0, -1),
                          I(2097151, -1), I(2097152, 0), I(2097152, 1), I(2097152, 2), I(2147483647, -1), I(2147483647, 0), I(-1, 0) >>
    [] n = "float64" -> << F("nan"), F("+0"), F("-0"), F("1"), F("-1"), F("inf"), F("nan2"), F("1.5"), F("1e21") >>
    [] n = "float32" -> << F("nan"), F("+0"), F("-0"), F("1"), F("0.1") >>
    [] n = "complex128" -> << C("nan", "1"), C("1", "nan"), C("nan", "nan"), C("+0", "-0"), C("-0", "+0"),
                              C("1", "1"), C("1", "-1"), C("1", "+0"), C("inf", "1") >>
    [] n = "complex64"  -> << C("nan", "1"), C("+0", "-0"), C("-0", "+0"), C("1", "1"), C("0.1", "1") >>
    \* "" a $ \ $$ \$ a$b \xff "ÿ" \x00 a\x00 NaN
    [] n = "string" -> << S(<<>>), S(<<97>>), S(<<36>>), S(<<92>>), S(<<36, 36>>), S(<<92, 36>>), S(<<97, 36, 98>>),
                          S(<<255>>), S(<<195, 191>>), S(<<0>>), S(<<97, 0>>), S(<<78, 97, 78>>) >>
    [] n = "ptr"  -> << P(0), P(1), P(2), P(3), P(4), P(1) >>
    [] n = "ptrS" -> << P(0), P(1), P(2), P(3), P(1) >>
    \* object 3 both as &a3 and as (*[2]int32)(a3[:])
    [] n = "ptrA" -> << P(0), P(1), P(2), P(3), Pf(3, 1), Pf(3, 1) >>
    [] n = "chan" -> << P(0), P(1), P(2), P(1) >>
    [] n = "uptr" -> << P(0), P(1), P(2), P(1) >>
    [] n = "any"  -> AnyPool(pv)
    [] n = "imeth" -> << NilI, D(R1, I(0, 1)), D(R2, I(0, 1)), D(R1, I(0, 2)) >>

\* small pools used for the elements of composite types
LeafElem(n) ==
  CASE n = "bool"  -> << B(0), B(1) >>
    [] n \in {"int8", "int32", "int"} -> << I(0, 0), I(0, 1), I(0, -1) >>
    [] n = "uint8" -> << I(0, 0), I(0, 1), I(0, 255) >>
    [] n = "uint32" -> << I(0, 0), I(0, 1), I(0, -1) >>
    [] n \in {"int64", "uint64"} -> << I(0, 1), I(1, 1), I(1, 0), I(-1, 1), I(2097152, 0), I(2097152, 1) >>
    [] n = "float64" -> << F("nan"), F("+0"), F("-0"), F("1") >>
    [] n = "float32" -> << F("nan"), F("+0"), F("-0"), F("0.1") >>
    [] n = "complex128" -> << C("nan", "1"), C("+0", "-0"), C("-0", "+0"), C("1", "1") >>
    [] n = "complex64"  -> << C("nan", "1"), C("+0", "-0"), C("1", "1") >>
    \* "" $ \ \$ $\ a : concatenations of these are ambiguous under every incomplete escaping of a $-joined key
    [] n = "string" -> << S(<<>>), S(<<36>>), S(<<92>>), S(<<92, 36>>), S(<<36, 92>>), S(<<97>>) >>
    [] n \in {"ptr", "ptrS", "chan", "uptr"} -> << P(0), P(1), P(2) >>
    [] n = "ptrA" -> << P(0), P(1), P(3), Pf(3, 1) >>
    [] n = "any"  -> << NilI, D(TI32, I(0, 1)), D(Tf, I(0, 1)), D(Tg, I(0, 1)), USlice >>
    [] n = "imeth" -> << NilI, D(R1, I(0, 1)), D(R2, I(0, 1)) >>

(***************************************************************************)
(* pools of composite types                                                *)
(***************************************************************************)
RECURSIVE ProdSeq(_)
ProdSeq(ps) ==
  IF ps = <<>> THEN << <<>> >>
  ELSE LET rest == TLCEval(ProdSeq(Tail(ps)))
           h == Head(ps)
       IN [k \in 1..(Len(h) * Len(rest)) |-> <<h[((k - 1) \div Len(rest)) + 1]>> \o rest[((k - 1) % Len(rest)) + 1]]

SelAt(k) == PoolSel[(k % Len(PoolSel)) + 1]
CutTo(seq, cap, salt) ==
  IF Len(seq) <= cap THEN seq
  ELSE [k \in 1..cap |-> seq[(SelAt(salt * 37 + k) % Len(seq)) + 1]]

RECURSIVE PoolOf(_, _, _, _)
PoolOf(T, pv, elem, salt) ==
  LET U == Under(T)
      cap == IF elem THEN ElemCap ELSE PoolCap
  IN
  IF IsLeaf(U) THEN (IF elem THEN LeafElem(LeafNameOf(U)) ELSE LeafPool(LeafNameOf(U), pv))
  ELSE IF U[1] = "array" THEN
    LET ep == TLCEval(PoolOf(U[3], 1, TRUE, salt * 2))
        pr == TLCEval(ProdSeq([i \in 1..U[2] |-> ep]))
    IN CutTo([k \in 1..Len(pr) |-> A(pr[k])], cap, salt)
  ELSE \* struct
    LET fps == [i \in 1..Len(U[3]) |->
                  IF U[3][i][1] = "_" THEN << I(0, 1), I(0, 2) >>       \* blank fields: int32, two values
                  ELSE TLCEval(PoolOf(U[3][i][2], 1, TRUE, salt * 2 + i))]
        pr == TLCEval(ProdSeq(fps))
    IN CutTo([k \in 1..Len(pr) |-> St(pr[k])], cap, salt)

(***************************************************************************)
(* the catalog of key types                                                *)
(***************************************************************************)
Fld(n, T) == <<n, T>>
S2(T1, T2) == Struct("main", << Fld("a", T1), Fld("b", T2) >>)
S1(T1) == Struct("main", << Fld("a", T1) >>)
TStr == Basic("string")

Specials == <<
  Struct("main", <<>>),                                        \* struct{}
  Arr(0, TI32),                                                \* [0]int32
  Struct("main", << Fld("a", TI32), Fld("_", TI32) >>),        \* blank field is not compared
  Struct("main", << Fld("_", TI32), Fld("a", TStr) >>),
  Arr(2, Arr(2, TStr)),                                        \* nested joiners
  S2(Arr(2, TStr), TStr),
  Arr(2, S2(TStr, TStr)),
  Named("N", "main", S2(Basic("float64"), TStr)),
  Arr(2, Named("N", "main", Basic("float64"))),
  S2(Basic("float64"), Basic("float64")),
  Named("N", "main", Struct("main", << Fld("a", TI32), Fld("_", TI32) >>)),   \* named struct with a blank field
  Arr(2, Arr(2, Basic("float64"))),
  S2(Basic("unsafeptr"), TI32),
  S2(Basic("complex128"), TStr),
  Arr(1, Basic("float64")),
  Arr(1, Iface("any")),
  S2(Iface("any"), Iface("any")),
  Arr(2, Basic("complex128")),
  Arr(3, Basic("uint8"))
>>

RECURSIVE Gen(_, _, _)
Gen(sv, p, d) ==
  LET s == sv[p]
      leaf == LeafType(LeafNames[((s \div 6) % Len(LeafNames)) + 1])
  IN IF d = 1 THEN leaf
     ELSE CASE s % 6 = 0 -> leaf
            [] s % 6 = 1 -> Named("N", "main", Gen(sv, 2 * p, d - 1))
            [] s % 6 = 2 -> Arr(1 + ((s \div 6) % 2), Gen(sv, 2 * p, d - 1))
            [] s % 6 = 3 -> S1(Gen(sv, 2 * p, d - 1))
            [] OTHER     -> S2(Gen(sv, 2 * p, d - 1), Gen(sv, 2 * p + 1, d - 1))
\* the root of a generated type is composite
GenRoot(sv) ==
  CASE sv[1] % 4 = 0 -> Named("N", "main", Gen(sv, 2, 2))
    [] sv[1] % 4 = 1 -> Arr(1 + ((sv[1] \div 4) % 2), Gen(sv, 2, 2))
    [] sv[1] % 4 = 2 -> S1(Gen(sv, 2, 2))
    [] OTHER         -> S2(Gen(sv, 2, 2), Gen(sv, 3, 2))

NLeaf == Len(LeafNames)
TypeList ==
  [i \in 1..NLeaf |-> <<LeafType(LeafNames[i]), 1>>]
  \o << <<Iface("any"), 2>>, <<Iface("any"), 3>>, <<Iface("any"), 4>> >>
  \o [i \in 1..NLeaf |-> <<Named("N", "main", LeafType(LeafNames[i])), IF LeafNames[i] = "any" THEN 2 ELSE 1>>]
  \o [i \in 1..NLeaf |-> <<Arr(2, LeafType(LeafNames[i])), 1>>]
  \o [i \in 1..NLeaf |-> <<S2(LeafType(LeafNames[i]), TStr), 1>>]
  \o [i \in 1..Len(Specials) |-> <<Specials[i], 1>>]
  \o [i \in 1..Len(TypeSel) |-> <<GenRoot(TypeSel[i]), 1>>]

NT == Len(TypeList)
Bit(b) == IF b THEN 1 ELSE 0
Catalog == TLCEval([ti \in 1..NT |->
  LET T == TypeList[ti][1]
      pool == TLCEval(PoolOf(T, TypeList[ti][2], FALSE, ti))
      cat == TLCEval(MkCat(T, pool))
  IN [t |-> T, pv |-> TypeList[ti][2], pool |-> pool, hash |-> cat.hash, rep |-> cat.rep,
      nan |-> [i \in 1..Len(pool) |-> Bit(HasNaN(T, pool[i]))]]])

ASSUME JsonSerialize(OutFile \o "_catalog.json", Catalog)

(***************************************************************************)
(* histories                                                               *)
(***************************************************************************)
N(ti) == Len(Catalog[ti].pool)
\* the pool indices used by pairs and sim
PairIdx(ti) ==
  IF N(ti) <= PairCap THEN 1..N(ti)
  ELSE {(SelAt(ti * 101 + k) % N(ti)) + 1 : k \in 1..PairCap}

\* the pool members on which the laws of key equality are checked (all of a
\* pool of up to 16 members; the laws are cubic in the number of members)
LawIdx(ti) == IF N(ti) <= 16 THEN 1..N(ti) ELSE PairIdx(ti) \cup 1..8

Op(kind, i, v) == <<kind, i, v>>
PairHists(ti) ==
  LET ix == PairIdx(ti) IN
  {[init |-> "make",
    ops |-> << Op("ins", i, 11), Op("ins", j, 21), Op("get", i, 0), Op("len", 0, 0) >>
            \o (IF L >= 6 THEN << Op("range", 0, 0), Op("ok", j, 0) >> ELSE <<>>)] : i \in ix, j \in ix}
  \cup
  {[init |-> "make",
    ops |-> << Op("ins", i, 11), Op("ins", j, 21), Op("del", i, 0), Op("ok", j, 0) >>
            \o (IF L >= 6 THEN << Op("len", 0, 0), Op("range", 0, 0) >> ELSE <<>>)] : i \in ix, j \in ix}

DumpHists(ti) ==
  {[init |-> "lit", ops |-> << Op("len", 0, 0), Op("range", 0, 0), Op("clear", 0, 0), Op("len", 0, 0) >>]}

OpKinds == <<"ins", "ins", "ins", "inc", "del", "del", "get", "ok", "len", "range", "rdel", "rins", "clear", "ins", "rdel", "range">>
InitKinds == <<"make", "make", "lit", "nil", "make", "lit">>
Mix(x, ti) == (x + ti * 7919) % 1000003
SimHists(ti) ==
  LET ix == SetToSeq(PairIdx(ti)) IN
  {[init |-> InitKinds[(Mix(SimSel[h][1], ti) % Len(InitKinds)) + 1],
    ops |-> [k \in 1..L |->
               LET s == Mix(SimSel[h][k + 1], ti)
                   kind == OpKinds[(s % 16) + 1]
               IN Op(kind,
                     IF kind \in {"len", "range", "clear"} THEN 0 ELSE ix[((s \div 16) % Len(ix)) + 1],
                     IF kind \in {"ins", "inc", "rins"} THEN 10 * k + 1 ELSE 0)]] : h \in 1..NSim}

Hists(u) ==
  CASE u[2] = "pairs" -> PairHists(u[1])
    [] u[2] = "dump"  -> DumpHists(u[1])
    [] u[2] = "sim"   -> SimHists(u[1])
    [] u[2] = "laws"  -> {[init |-> "laws", ops |-> <<>>]}

(***************************************************************************)
(* evaluation of one history                                               *)
(***************************************************************************)
\* map literal of all hashable pool members, in index order: later equal keys overwrite
RECURSIVE LitFrom(_, _, _)
LitFrom(cat, i, st) ==
  IF i > Len(cat.pool) THEN st
  ELSE LitFrom(cat, i + 1,
         TLCEval(IF cat.hash[i] = 1 THEN Simple(cat, st, "ins", i, 100 + i, 0 - i).st ELSE st))
RECURSIVE QLitFrom(_, _, _)
QLitFrom(cat, i, q) ==
  IF i > Len(cat.pool) THEN q
  ELSE QLitFrom(cat, i + 1, TLCEval(QStep(q, "ins", cat.rep[i], 100 + i, cat.hash[i] = 1, FALSE)))

\* deterministic results restated on the quotient
ResOK(cat, q, op, res, hashable, r) ==
  CASE op[1] = "get" /\ hashable -> res = <<"g", IF r = 0 THEN 0 ELSE q.c[r]>>
    [] op[1] = "ok"  /\ hashable -> res = <<"o", IF r = 0 THEN 0 ELSE q.c[r], Bit(r # 0 /\ q.c[r] # 0)>>
    [] op[1] = "len" -> res = <<"l", QLen(q)>>
    [] op[1] \in {"get", "ok", "del"} /\ ~hashable -> res = Panic
    [] OTHER -> TRUE

RECURSIVE Run(_, _, _, _)
Run(cat, ops, k, acc) ==
  IF k > Len(ops) THEN acc
  ELSE LET op == ops[k]
           r == Step(cat, acc.st, op, k)
           keyed == op[2] > 0
           hashable == keyed /\ cat.hash[op[2]] = 1
           rr == IF keyed THEN cat.rep[op[2]] ELSE 0
           loopRuns == acc.st.ents # {}
           q2 == IF op[1] \in {"rdel", "rins"} /\ ~loopRuns THEN acc.q
                 ELSE QStep(acc.q, op[1], rr, op[3], (~keyed) \/ hashable, acc.st.nil)
       IN Run(cat, ops, k + 1,
              TLCEval([st |-> r.st, q |-> q2, res |-> Append(acc.res, r.res),
                       ok |-> acc.ok /\ AbsOK(cat, r.st, q2)
                                     /\ ResOK(cat, acc.q, op, r.res, hashable, rr)]))

Eval(u, h) ==
  LET cat == Catalog[u[1]] IN
  IF h.init = "laws" THEN [init |-> "laws", ops |-> <<>>, res |-> <<>>, ok |-> EqLaws(cat.t, cat.pool, LawIdx(u[1]))]
  ELSE LET st0 == CASE h.init = "make" -> EmptyMap
                    [] h.init = "nil"  -> NilMap
                    [] h.init = "lit"  -> LitFrom(cat, 1, EmptyMap)
           q0 == IF h.init = "lit" THEN QLitFrom(cat, 1, QEmpty(Len(cat.pool))) ELSE QEmpty(Len(cat.pool))
           run == Run(cat, h.ops, 1, [st |-> st0, q |-> q0, res |-> <<>>, ok |-> AbsOK(cat, st0, q0)])
       IN [init |-> h.init, ops |-> h.ops, res |-> run.res, ok |-> run.ok]

(***************************************************************************)
(* state machine: one unit per (type, family), one row per history         *)
(***************************************************************************)
VARIABLES unit, row
vars == <<unit, row>>
NoRow == [init |-> "none", ops |-> <<>>, res |-> <<>>, ok |-> TRUE]

Units == {<<ti, f>> : ti \in 1..NT, f \in Fams}
Init == unit \in Units /\ row = NoRow
Next == row = NoRow /\ (\E h \in Hists(unit) : row' = Eval(unit, h)) /\ UNCHANGED unit
Spec == Init /\ [][Next]_vars

\* properties of the specification itself
SpecOK == row.ok

\* all rows of a unit are successors of one state and written by one worker
UnitFile(u) == OutFile \o "." \o ToString(u[1]) \o "_" \o u[2] \o ".ndjson"
Emit == row.init \notin {"none", "laws"} =>
  CSVWrite("%1$s", <<ToJson([ty |-> unit[1], fam |-> unit[2], init |-> row.init, ops |-> row.ops, res |-> row.res])>>, UnitFile(unit))
=============================================================================
