--------------------------- MODULE JsMappingScen ---------------------------
(***************************************************************************)
(* Scenario enumeration for C11.  TLC builds                               *)
(*   - the CATALOG of Go types: every leaf type of the documentation       *)
(*     table, and over every leaf type e the composites []e, [2]e,         *)
(*     map[string]e, struct{A e; b e; C string} (b unexported), *struct,   *)
(*     nested shapes (depth 2, one with a non-ASCII exported field name)   *)
(*     and the structs that wrap a *js.Object;                             *)
(*   - per type a POOL of values with the boundary members (extreme        *)
(*     integers, 64-bit integers around 2^53, NaN, signed zeros,           *)
(*     infinities, strings over an alphabet of UTF-8 chunks that contains  *)
(*     every encoding length, the surrogate boundaries, and every kind of  *)
(*     malformed sequence, nil of every kind, seeded members);             *)
(*   - the pool of JavaScript values (every class of the table, numeric    *)
(*     strings for parseInt/parseFloat, UTF-16 strings with boundary       *)
(*     surrogate pairs and unpaired surrogates);                           *)
(* and writes one JSON line per row with the cases of the families         *)
(*     E  [T, v, Externalize(v,T)]            Go value handed to JS        *)
(*     R  [T, v, Internalize(Externalize)]    round trip Go -> JS -> Go    *)
(*     I  [T, j, Internalize(j,T)]            JS value read at type T      *)
(*                                             (accessors = T in bool,     *)
(*                                             str, int, i64, u64, f64,    *)
(*                                             any)                        *)
(*     X  [T, j, Externalize(Internalize)]    JS -> exposed Go func -> JS  *)
(*     L  [j, length]   N [op, j, arg, j']    Length / Index / Get         *)
(*     M  [op, j, arg, T, v, j']              Set / SetIndex / Delete      *)
(*     F  [fs, ids]                           function identity (cache)    *)
(*     C  [context, body, outcome]            callback guard               *)
(*     W  [methods, property names]           MakeWrapper                  *)
(* The harness renders each case through every ROUTE of its family; the    *)
(* routes are listed below (RoutesE ... RoutesX, written to the header     *)
(* file together with the catalog) and say whether the conversion happens  *)
(* at the static type (result of an exposed function, js-tagged field,     *)
(* parameter of a function-typed js field, MakeWrapper method) or after    *)
(* boxing in interface{} (Set, Call/Invoke/New argument, SetIndex,         *)
(* MakeFunc result) -- BoxTransparent checks in the model that both        *)
(* predict the same value.  The state machine of the wrapper cache and of  *)
(* the callback guard is module JsMappingState (a separate TLC run); the   *)
(* families F and C here are its pure projections (ExternalizeFuncs,       *)
(* CallbackOutcome).                                                       *)
(*                                                                         *)
(* On every row TLC also checks SpecOK on exactly the enumerated values:   *)
(*   RoundTrip      Representable(v,T) => Internalize(Externalize(v,T),T)=v*)
(*   BoxTransparent Externalize(<<"if",T,v>>, any) = Externalize(v,T)      *)
(*   JsRoundTrip    well-formed strings, numbers, booleans survive         *)
(*                  JS -> Go -> JS at their natural type                   *)
(*   Utf16OK        ExtString yields well-formed UTF-16 whose decoding is  *)
(*                  []rune(s); for valid s the way back is s               *)
(*   NumOK          IntToNum/TruncNum agree on exact integers; RoundSig    *)
(*                  yields odd mantissas below 2^53                        *)
(*                                                                         *)
(* Params (c11_params.json, written by the harness from VERIF_SEED):       *)
(*   out        prefix of the output files                                 *)
(*   chunks     UTF-8 chunks (byte sequences): the string alphabet         *)
(*   maxChunks  strings = all concatenations of at most this many chunks   *)
(*   randStrs   seeded byte strings                                        *)
(*   units      UTF-16 chunks (code unit sequences)                        *)
(*   maxUnits   JS strings = all concatenations of at most this many       *)
(*   randI64    seeded 64-bit integers [sign, limbs] (int64 range)         *)
(*   randU64    seeded 64-bit naturals [0, limbs]                          *)
(*   randF64    seeded doubles as number terms                             *)
(*   fams       families to enumerate                                      *)
(***************************************************************************)
EXTENDS JsMapping, Json, CSV, SequencesExt

Params    == JsonDeserialize("c11_params.json")
OutFile   == Params.out
Chunks    == Params.chunks
MaxChunks == Params.maxChunks
RandStrs  == Params.randStrs
UChunks   == Params.units
MaxUnits  == Params.maxUnits
RandI64   == Params.randI64
RandU64   == Params.randU64
RandF64   == Params.randF64
Fams      == Range(Params.fams)

ASSUME /\ \A i \in DOMAIN Chunks : IsString(Chunks[i])
       /\ \A i \in DOMAIN RandStrs : IsString(RandStrs[i])
       /\ \A i \in DOMAIN RandF64 : IsNum(RandF64[i])
       /\ MaxChunks \in 0..3 /\ MaxUnits \in 0..3

(***************************************************************************)
(* value constructors                                                      *)
(***************************************************************************)
B(x) == <<"b", x>>
F(x) == <<"f", x>>
S(bytes) == <<"s", bytes>>
Sl(es) == <<"sl", 0, es>>
NilSl == <<"sl", 1, <<>>>>
Ar(es) == <<"ar", es>>
Mp(en) == <<"m", 0, en>>
NilMp == <<"m", 1, <<>>>>
St(vs) == <<"st", vs>>
Pt(sv) == <<"p", 0, sv>>
Fn(id) == <<"fn", id>>
O(j) == <<"o", j>>
If(t, v) == <<"if", t, v>>
IfNil == <<"ifnil">>
JB(x) == <<"jb", x>>
JN(x) == <<"jn", x>>
JS(u) == <<"js", u>>
JA(es) == <<"ja", es>>
JT(k, xs) == <<"jt", k, xs>>
JO(ps) == <<"jo", ps>>

NatV(n) == I(0, NatLimbs(n))
NegV(n) == I(1, NatLimbs(n))
\* 2^k as limbs
Pow2L(k) == LimbsOf([i \in 1..64 |-> IF i = k + 1 THEN 1 ELSE 0])
\* 2^k + d, 2^k - d (d small)
Pow2Plus(k, d) == LimbsOf(Bv!Add(BitsOf(Pow2L(k)), Bv!FromNat(d, 64)))
Pow2Minus(k, d) == LimbsOf(Bv!Sub(BitsOf(Pow2L(k)), Bv!FromNat(d, 64)))
AllOnes == <<65535, 65535, 65535, 65535>>

Take(s, n) == SubSeq(s, 1, Min(n, Len(s)))
Cyc(s, i) == s[((i - 1) % Len(s)) + 1]

(***************************************************************************)
(* leaf pools                                                              *)
(***************************************************************************)
PoolInt(k) ==
  LET w == KindW(k) IN
  IF KindSigned(k)
    THEN <<NatV(0), NatV(1), NegV(1), I(0, Pow2Minus(w - 1, 1)), I(1, Pow2L(w - 1)), NatV(100), NegV(77)>>
    ELSE <<NatV(0), NatV(1), I(0, Pow2Minus(w, 1)), I(0, Pow2L(w - 1)), NatV(200)>>

PoolI64 ==
  <<NatV(0), NegV(1), NatV(1), I(0, Pow2L(31)), I(1, Pow2Plus(32, 1)), I(0, Pow2Minus(53, 1)), I(0, Pow2L(53)),
    I(0, Pow2Plus(53, 1)), I(0, Pow2Plus(53, 2)), I(0, Pow2Plus(53, 3)), I(1, Pow2Plus(53, 1)), I(1, Pow2Minus(53, 1)),
    I(0, Pow2L(62)), I(0, Pow2Minus(63, 1)), I(1, Pow2L(63)), I(1, Pow2Minus(63, 1)), I(0, Pow2Plus(62, 513)),
    I(0, <<1, 0, 1, 0>>), I(1, <<65535, 65535, 0, 0>>)>>
  \o [i \in DOMAIN RandI64 |-> I(RandI64[i][1], RandI64[i][2])]
PoolU64 ==
  <<NatV(0), NatV(1), I(0, Pow2Minus(32, 1)), I(0, Pow2L(32)), I(0, Pow2Plus(53, 1)), I(0, Pow2L(63)), I(0, Pow2Plus(63, 1)),
    I(0, AllOnes), I(0, Pow2Minus(64, 2048)), I(0, Pow2Minus(64, 1025)), I(0, Pow2Minus(64, 1024)), I(0, Pow2Plus(63, 1024))>>
  \o [i \in DOMAIN RandU64 |-> I(0, RandU64[i][2])]

Num15 == Fin(0, NatLimbs(3), -1)                      \* 1.5
\* 0.1 = 3602879701896397 * 2^-55 (odd mantissa 0xCCCCCCCCCCCCD): limbs of 0x000CCCCCCCCCCCCD
NumTenthOdd == Fin(0, <<52429, 52428, 52428, 12>>, -55)
PoolF64 ==
  <<F(NaN), F(Zero(0)), F(Zero(1)), F(Inf(0)), F(Inf(1)), F(Num15), F(Fin(1, NatLimbs(11), -2)),        \* -2.75
    F(Fin(0, Pow2Minus(53, 1), 0)), F(Fin(0, Pow2Plus(52, 1), 1)), F(Fin(0, NatLimbs(1), -1074)),       \* 2^53-1, 2^53+2, min subnormal
    F(Fin(0, Pow2Minus(53, 1), 971)), F(NumTenthOdd), F(Fin(1, NatLimbs(1), 63)), F(Fin(0, NatLimbs(1), 64)),
    F(Fin(0, NatLimbs(7), 0)), F(Fin(0, NatLimbs(5), -3))>>                                             \* 7, 0.625
  \o [i \in DOMAIN RandF64 |-> F(RandF64[i])]
\* float32 values: 0.1f = 13421773 * 2^-27, MaxFloat32 = (2^24-1) * 2^104, 2^-149
PoolF32 ==
  <<F(NaN), F(Zero(0)), F(Zero(1)), F(Inf(1)), F(Num15), F(Fin(0, <<52429, 204, 0, 0>>, -27)),
    F(Fin(0, Pow2Minus(24, 1), 104)), F(Fin(1, NatLimbs(1), -149)), F(Fin(0, NatLimbs(3), 0))>>

\* small string pool (used inside composites and through every route)
StrSmall ==
  <<S(<<>>), S(<<65>>), S(<<195, 169, 226, 130, 172>>), S(<<240, 159, 152, 128>>), S(<<97, 0, 98>>),
    S(<<255>>), S(<<237, 160, 128, 66>>), S(<<244, 143, 191, 191, 240, 144, 128, 128>>)>>
\* all concatenations of at most n chunks
RECURSIVE Concats(_)
Concats(n) == IF n = 0 THEN {<<>>} ELSE Concats(n - 1) \cup {c \o Chunks[i] : c \in Concats(n - 1), i \in DOMAIN Chunks}
StrBulk == {S(x) : x \in Concats(MaxChunks) \cup Range(RandStrs)}
RECURSIVE UConcats(_)
UConcats(n) == IF n = 0 THEN {<<>>} ELSE UConcats(n - 1) \cup {c \o UChunks[i] : c \in UConcats(n - 1), i \in DOMAIN UChunks}
JStrBulk == {JS(x) : x \in UConcats(MaxUnits)}

\* map keys: valid UTF-8, pairwise different
Keys == << <<97>>, <<>>, <<195, 169>>, <<240, 159, 152, 128>>, <<107, 32, 49>>, <<36, 120>> >>

(***************************************************************************)
(* types                                                                   *)
(***************************************************************************)
NameA == <<65>>   NameB == <<98>>   NameC == <<67>>   NameAe == <<196>>    \* "A" "b" "C" "A-umlaut" (U+00C4)
StructOf(e) == TStruct("S", << <<NameA, 1, e>>, <<NameB, 0, e>>, <<NameC, 1, TStr>> >>)
ExpStructOf(e) == TStruct("S", << <<NameA, 1, e>>, <<NameC, 1, TStr>> >>)    \* exported fields only

LeafTypes ==
  << TBool, TInt("int8"), TInt("int16"), TInt("int32"), TInt("int"), TInt("uint8"), TInt("uint16"), TInt("uint32"),
     TInt("uint"), TInt("uintptr"), TI64, TU64, TF32, TF64, TStr, TFunc, TJs, TAny, TWrap, TWrap2 >>

S8 == ExpStructOf(TInt("int8"))
Deep ==
  << TSlice(TSlice(TInt("int8"))), TSlice(StructOf(TF64)), TMap(TSlice(TStr)), TArr(2, TArr(2, TInt("uint16"))),
     TSlice(TPtr(S8)), TMap(TMap(TI64)), TSlice(TMap(TAny)),
     TStruct("S", << <<NameA, 1, TSlice(TInt("int8"))>>, <<NameB, 0, TStr>>, <<NameC, 1, TMap(TF64)>>,
                     <<<<80>>, 1, TPtr(S8)>>, <<<<88>>, 1, TAny>>, <<<<73>>, 1, S8>>, <<<<70>>, 1, TFunc>> >>),
     TStruct("S", << <<NameA, 1, TStr>>, <<NameAe, 1, TStr>> >>),             \* an exported field with a non-ASCII name
     TStruct("S", << <<NameA, 1, TJs>>, <<NameC, 1, TStr>> >>), TPtr(TStruct("S", << <<<<79>>, 1, TJs>>, <<<<110>>, 0, TInt("int")>> >>)),
     TPtr(ExpStructOf(TSlice(TU64))), TArr(0, TInt("int8")), TArr(3, TStr), TSlice(TArr(2, TF32)) >>

\* (a struct with a *js.Object or wrapper field first is itself a wrapper: listed in Deep)
CompositesOf(e) == IF e = TWrap2 THEN <<>> ELSE
                   << TSlice(e), TArr(2, e), TMap(e) >> \o
                   (IF e \in {TJs, TWrap} THEN <<>> ELSE << StructOf(e), TPtr(StructOf(e)), TPtr(ExpStructOf(e)) >>)
RECURSIVE FlatComposites(_)
FlatComposites(i) == IF i > Len(LeafTypes) THEN <<>> ELSE CompositesOf(LeafTypes[i]) \o FlatComposites(i + 1)

Catalog == LeafTypes \o FlatComposites(1) \o Deep

(***************************************************************************)
(* JavaScript values                                                       *)
(***************************************************************************)
JObjTag(n) == JO(<< <<<<116, 97, 103>>, JN(NatToNum(0, n, 0))>> >>)       \* {tag: n}
U(str) == JS(str)
JNums == [i \in DOMAIN PoolF64 |-> JN(PoolF64[i][2])]
   \o <<JN(IntToNum(0, Pow2Minus(32, 1))), JN(IntToNum(0, Pow2L(32))), JN(IntToNum(1, Pow2L(31))), JN(IntToNum(0, Pow2L(31))),
        JN(NatToNum(0, 255, 0)), JN(NatToNum(0, 256, 0)), JN(NatToNum(1, 129, 0)), JN(NatToNum(0, 19, -1)), JN(NatToNum(1, 19, -1)),
        JN(IntToNum(0, AllOnes)), JN(IntToNum(0, Pow2Minus(63, 1))), JN(NatToNum(0, 1, -20)), JN(NatToNum(0, 1, -2))>>
\* strings that parseInt / parseFloat / ToBoolean look at
JParseStrs ==
  << U(<<49, 50>>), U(<<49, 50, 112, 120>>), U(<<45, 55>>), U(<<32, 9, 52, 50>>), U(<<48, 120, 49, 102>>), U(<<48, 88, 70, 70>>),
     U(<<>>), U(<<97, 98, 99>>), U(<<49, 46, 57>>), U(<<49, 101, 51>>), U(<<49, 46, 53>>), U(<<45, 48, 46, 50, 53, 120>>),
     U(<<46, 53>>), U(<<53, 46>>), U(<<46>>), U(<<45>>), U(<<43, 51>>), U(<<48>>), U(<<45, 48>>), U(<<50, 46, 53, 101, 49>>),
     U(<<49, 50, 53, 101, 45, 50>>), U(<<73, 110, 102, 105, 110, 105, 116, 121>>), U(<<45, 73, 110, 102, 105, 110, 105, 116, 121, 120>>),
     U(<<48, 46, 49>>), U(<<116, 114, 117, 101>>), U(<<50, 49, 52, 55, 52, 56, 51, 54, 52, 55>>), U(<<49, 50, 51, 52, 53, 54, 55, 56, 57>>),
     U(<<48, 120>>), U(<<160, 55>>), U(<<49, 95, 48>>) >>
JStrSmall == << U(<<>>), U(<<65>>), U(<<233, 8364>>), U(<<55357, 56832>>), U(<<97, 0, 98>>), U(<<65533>>), U(<<65535, 55296, 56320>>),
                U(<<56319, 57343, 66>>), U(<<55296>>), U(<<56320, 55296>>), U(<<55357, 65>>) >>
Ta(k, ns) == JT(k, [i \in DOMAIN ns |-> IF ns[i] >= 0 THEN NatToNum(0, ns[i], 0) ELSE NatToNum(1, -ns[i], 0)])
JTyped ==
  << Ta("Int8Array", <<1, -128, 127>>), Ta("Int16Array", <<-32768, 7>>), Ta("Int32Array", <<-2147483647, 5>>), Ta("Uint8Array", <<0, 255>>),
     Ta("Uint16Array", <<65535>>), JT("Uint32Array", <<IntToNum(0, Pow2Minus(32, 1)), NatToNum(0, 3, 0)>>),
     JT("Float32Array", <<Num15, NaN, Zero(1)>>), JT("Float64Array", <<NumTenthOdd, Inf(1), Zero(1)>>), Ta("Uint8Array", <<>>) >>
JArrays ==
  << JA(<<>>), JA(<<JN(NatToNum(0, 1, 0)), JN(NatToNum(0, 2, 0)), JN(NatToNum(0, 3, 0))>>),
     JA(<<JB(1), U(<<120>>), JNull, JN(Num15), JA(<<JN(NatToNum(0, 1, 0))>>), JO(<< <<<<107>>, Ta("Int16Array", <<1>>)>> >>)>>),
     JA(<<U(<<49>>), U(<<55357, 56832>>)>>), JA(<<JUndef, JN(NatToNum(0, 2, 0))>>), JA(<<JN(Num15), JN(NatToNum(0, 2, 0))>>) >>
JObjects ==
  << JO(<<>>), JObjTag(1),
     JO(<< <<NameA, JN(NatToNum(0, 3, 0))>>, <<NameB, JN(NatToNum(0, 4, 0))>>, <<NameC, U(<<113>>)>>, <<NameAe, JN(NatToNum(0, 5, 0))>> >>),
     JO(<< <<<<233, 55357, 56832>>, JB(0)>>, <<<<>>, JNull>>, <<<<108, 101, 110, 103, 116, 104>>, JN(NatToNum(0, 27, -1))>> >>),
     JO(<< <<NameA, JA(<<JN(NatToNum(0, 1, 0))>>)>>, <<<<120>>, JO(<< <<<<121>>, U(<<122>>)>> >>)>> >>) >>
JFuncs == << <<"jf", "js", 1>>, <<"jf", "js", 2>> >>
JMisc == << JB(0), JB(1), JNull, JUndef, <<"jd", 5>> >>

JPool == JMisc \o JNums \o JParseStrs \o JStrSmall \o JTyped \o JArrays \o JObjects \o JFuncs
\* foreign values tried against every composite type
JCross == << JNull, JUndef, JN(Num15), U(<<120>>), JA(<<>>), JO(<<>>), JB(1), JN(NumTenthOdd) >>

(***************************************************************************)
(* pools of Go values                                                      *)
(***************************************************************************)
PoolAny ==
  << IfNil, If(TBool, B(1)), If(TInt("int8"), NegV(5)), If(TInt("uint32"), I(0, Pow2Minus(32, 1))), If(TI64, I(1, Pow2Plus(53, 1))),
     If(TU64, I(0, AllOnes)), If(TF64, F(Zero(1))), If(TF64, F(NaN)), If(TF32, F(Num15)), If(TStr, S(<<240, 159, 152, 128, 255>>)),
     If(TSlice(TInt("int8")), Sl(<<NegV(1), NatV(2)>>)), If(TSlice(TInt("int")), Sl(<<NatV(7)>>)), If(TSlice(TInt("int32")), Sl(<<NatV(7)>>)),
     If(TSlice(TStr), Sl(<<S(<<97>>)>>)), If(TSlice(TAny), Sl(<<If(TF64, F(Num15)), IfNil, If(TStr, S(<<98>>)), If(TBool, B(0))>>)),
     If(TMap(TAny), Mp(<< <<<<107>>, If(TF64, F(Num15))>>, <<<<195, 169>>, If(TSlice(TAny), Sl(<<>>))>> >>)),
     If(TMap(TInt("int")), Mp(<< <<<<107>>, NatV(1)>> >>)), If(S8, St(<<NatV(3), S(<<120>>)>>)), If(TPtr(S8), Pt(St(<<NatV(4), S(<<>>)>>))),
     If(TPtr(S8), <<"p", 1, ZeroVal(S8)>>), If(TSlice(TInt("uint8")), NilSl), If(TMap(TStr), NilMp), If(TFunc, Fn(1)), If(TFunc, Fn(0)),
     If(TJs, O(JObjTag(2))), If(TJs, O(JUndef)), If(TArr(2, TInt("uint16")), Ar(<<NatV(1), NatV(65535)>>)), If(TInt("uintptr"), NatV(9)),
     If(TSlice(TInt("uintptr")), Sl(<<NatV(9)>>)), If(TSlice(TF64), Sl(<<F(Zero(1)), F(NaN)>>)), If(TSlice(TInt("uint")), Sl(<<NatV(8)>>)) >>

RECURSIVE Pool(_)
Pool(t) ==
  CASE t[1] = "bool" -> <<B(0), B(1)>>
    [] t[1] = "int" -> PoolInt(t[2])
    [] t[1] = "i64" -> PoolI64
    [] t[1] = "u64" -> PoolU64
    [] t[1] = "f32" -> PoolF32
    [] t[1] = "f64" -> PoolF64
    [] t[1] = "str" -> StrSmall
    [] t[1] = "func" -> <<Fn(0), Fn(1), Fn(2)>>
    [] t[1] = "js" -> <<O(JNull), O(JUndef), O(JN(Num15)), O(U(<<120>>)), O(JObjTag(3)), O(JA(<<JB(1)>>))>>
    [] t[1] = "wrap" -> <<<<"w", JObjTag(4)>>, <<"w", JNull>>, <<"w", JUndef>>, <<"w", JN(Num15)>>>>
    [] t[1] = "wrap2" -> <<<<"w2", NatV(0), JObjTag(5)>>, <<"w2", NatV(6), JObjTag(6)>>>>
    [] t[1] = "any" -> PoolAny
    [] t[1] = "slice" -> LET p == Pool(t[2]) IN <<NilSl, Sl(<<>>), Sl(Take(p, 8)), Sl(<<p[Len(p)], p[1]>>)>>
    [] t[1] = "arr" -> LET p == Pool(t[3]) IN
                       IF t[2] = 0 THEN <<Ar(<<>>)>>
                       ELSE <<Ar([i \in 1..t[2] |-> Cyc(p, i)]), Ar([i \in 1..t[2] |-> Cyc(p, Len(p) + 1 - i)]), Ar([i \in 1..t[2] |-> Cyc(p, 2 * i + 1)])>>
    [] t[1] = "map" -> LET p == Pool(t[2]) n == Min(Len(p), Len(Keys)) IN
                       <<NilMp, Mp(<<>>), Mp([i \in 1..n |-> <<Keys[i], p[i]>>]), Mp(<< <<Keys[1], p[Len(p)]>> >>)>>
    [] t[1] = "struct" -> LET fs == t[3] IN
                          [k \in 1..3 |-> St([i \in DOMAIN fs |-> LET p == Pool(fs[i][3]) IN Cyc(p, (k - 1) * (i + 1) + (IF k = 3 THEN Len(p) ELSE k))])]
                          \o <<ZeroVal(t)>>
    [] t[1] = "ptr" -> LET p == Pool(t[2]) IN <<<<"p", 1, ZeroVal(t[2])>>, Pt(p[1]), Pt(p[2]), Pt(p[Len(p)])>>

(***************************************************************************)
(* routes (rendered by the harness)                                        *)
(***************************************************************************)
\* <<name, conversion happens at: "static" type | "boxed" in interface{}>>
RoutesE == << <<"set", "boxed">>, <<"setkey", "boxed">>, <<"call", "boxed">>, <<"callkey", "boxed">>, <<"callv", "boxed">>, <<"invoke", "boxed">>, <<"new", "boxed">>,
              <<"setindex", "boxed">>, <<"makefunc", "boxed">>, <<"setdollar", "boxed">>, <<"ret", "static">>, <<"field", "static">>, <<"jsfunc", "static">>, <<"wrapret", "static">> >>
RoutesI == << <<"param", "static">>, <<"field", "static">>, <<"jsret", "static">>, <<"wrapparam", "static">> >>
RoutesAcc == << <<"acc", "static">>, <<"accidx", "static">>, <<"mfarg", "static">> >>    \* accessor on eval result / on Index(0) of an array / on MakeFunc arguments
RoutesR == << <<"idfield", "static">>, <<"setget", "static">>, <<"structfield", "static">> >>
RoutesX == << <<"goid", "static">>, <<"wrapid", "static">> >>

(***************************************************************************)
(* cases                                                                   *)
(***************************************************************************)
CaseE(t, v) == <<t, v, Externalize(v, t)>>
CaseR(t, v) == <<t, v, Internalize(Externalize(v, t), t)>>
CaseI(t, j) == <<t, j, Internalize(j, t)>>
CaseX(t, j) == LET g == Internalize(j, t) IN <<t, j, IF HasUnspec(g) THEN Unspec ELSE Externalize(g, t)>>

\* accessor methods.  Float(): "converted to float64 according to JavaScript type
\* conversions (parseFloat)" -- parseFloat(-0) is +0 in ECMAScript while the table
\* maps Number to float64 unchanged: the documentation contradicts itself on -0
CaseA(t, j) == IF t = TF64 /\ j = JN(Zero(1)) THEN <<t, j, Unspec>> ELSE CaseI(t, j)
AccTypes == <<TBool, TStr, TInt("int"), TI64, TU64, TF64, TAny>>
IsAccType(t) == \E i \in DOMAIN AccTypes : AccTypes[i] = t

\* JavaScript values read at type t: what Go values of the type look like, and foreign ones
JIn(t) == LET p == Pool(t) IN [i \in DOMAIN p |-> Externalize(p[i], t)] \o JCross

\* Length: parseInt(o.length)
LengthProp(j) ==
  CASE j[1] = "js" -> JN(NatToNum(0, Len(j[2]), 0))
    [] j[1] = "ja" -> JN(NatToNum(0, Len(j[2]), 0))
    [] j[1] = "jt" -> JN(NatToNum(0, Len(j[3]), 0))
    [] j[1] = "jo" -> (LET k == PropIndex(j, <<108, 101, 110, 103, 116, 104>>) IN IF k = 0 THEN JUndef ELSE j[2][k][2])
    [] j[1] = "jf" -> Unspec
    [] j[1] \in {"jnull", "jundef"} -> Unspec                      \* property access on null throws: not an accessor result
    [] OTHER -> JUndef
CaseL(j) == LET lp == LengthProp(j) IN <<j, IF IsUnspec(lp) THEN Unspec ELSE Internalize(lp, TInt("int"))>>

\* Index / Get
IndexOf(j, i) ==
  CASE j[1] = "ja" -> (IF 0 <= i /\ i < Len(j[2]) THEN j[2][i + 1] ELSE JUndef)
    [] j[1] = "jt" -> (IF 0 <= i /\ i < Len(j[3]) THEN JN(j[3][i + 1]) ELSE JUndef)
    [] j[1] = "js" -> (IF 0 <= i /\ i < Len(j[2]) THEN JS(<<j[2][i + 1]>>) ELSE JUndef)
    [] OTHER -> Unspec
GetOf(j, key) ==
  CASE j[1] = "jo" -> (LET k == PropIndex(j, key) IN IF k = 0 THEN JUndef ELSE j[2][k][2])
    [] OTHER -> Unspec
\* Set / SetIndex / Delete on objects and arrays
SetOf(j, key, x) ==
  LET k == PropIndex(j, key) IN
  IF k = 0 THEN JO(Append(j[2], <<key, x>>)) ELSE JO([j[2] EXCEPT ![k] = <<key, x>>])
DeleteOf(j, key) == JO(SelectSeq(j[2], LAMBDA p : p[1] # key))
SetIndexOf(j, i, x) == IF i < Len(j[2]) THEN JA([j[2] EXCEPT ![i + 1] = x]) ELSE JA(Append(j[2], x))   \* 0 <= i <= length

\* property names given to Get/Set/Delete/Call (as Go strings; JS sees ExtString)
PropKeys == << <<120>>, <<109, 121, 32, 107>>, <<209, 142, 240, 159, 152, 128>>, <<36, 99, 49, 49>>, <<>> >>   \* x | my k | U+044E U+1F600 | $c11 | ""

MutVals == << <<TInt("int8"), NegV(3)>>, <<TStr, S(<<240, 159, 152, 128>>)>>, <<TI64, I(1, Pow2Plus(53, 1))>>, <<TSlice(TInt("uint16")), Sl(<<NatV(1), NatV(2)>>)>>,
              <<TAny, IfNil>>, <<S8, St(<<NatV(1), S(<<97>>)>>)>> >>

\* callback guard: what the documentation promises for a Go function called back by JavaScript
CallbackOutcome(ctx, body) ==
  CASE ctx = "loop" /\ body \in {"recv", "send", "select"} -> <<"error", ErrBlock>>
    [] ctx = "loop" -> <<"returns">>                      \* "nonblocking", "go" (blocking code wrapped in a goroutine)
    [] ctx = "sync" /\ body \in {"recv", "send", "select"} -> Unspec   \* called synchronously from a running goroutine: not defined
    [] OTHER -> <<"returns">>

\* MakeWrapper: own properties of the wrapper object of a value whose method set is ms (<<name, exported>>)
WrapperProps(ms) == LET ex == SelectSeq(ms, LAMBDA m : m[2] = 1) IN [i \in DOMAIN ex |-> ex[i][1]] \o <<"__internal_object__">>

(***************************************************************************)
(* units and rows                                                          *)
(***************************************************************************)
NoRow == -1
TypeIdx == DOMAIN Catalog
RowSize == 40
NChunks(n) == (n + RowSize - 1) \div RowSize
StrBulkSeq == SetToSeq(StrBulk)
JStrBulkSeq == SetToSeq(JStrBulk)
FSeqs == UNION {[1..n -> {1, 2, 3}] : n \in 2..4}
FSeqSeq == SetToSeq(FSeqs)

\* <<family, index>>
Units ==
  (IF "E" \in Fams THEN {<<"E", i>> : i \in TypeIdx} ELSE {})
  \cup (IF "R" \in Fams THEN {<<"R", i>> : i \in TypeIdx} ELSE {})
  \cup (IF "I" \in Fams THEN {<<"I", i>> : i \in TypeIdx} ELSE {})
  \cup (IF "X" \in Fams THEN {<<"X", i>> : i \in TypeIdx} ELSE {})
  \cup (IF "A" \in Fams THEN {<<"A", i>> : i \in DOMAIN AccTypes} ELSE {})
  \cup (IF "ES" \in Fams THEN {<<"ES", 0>>} ELSE {})
  \cup (IF "IS" \in Fams THEN {<<"IS", 0>>} ELSE {})
  \cup (IF "L" \in Fams THEN {<<"L", 0>>} ELSE {})
  \cup (IF "N" \in Fams THEN {<<"N", 0>>} ELSE {})
  \cup (IF "M" \in Fams THEN {<<"M", 0>>} ELSE {})
  \cup (IF "F" \in Fams THEN {<<"F", 0>>} ELSE {})
  \cup (IF "C" \in Fams THEN {<<"C", 0>>} ELSE {})
  \cup (IF "W" \in Fams THEN {<<"W", 0>>} ELSE {})

Rows(u) ==
  CASE u[1] = "ES" -> 1..NChunks(Len(StrBulkSeq))
    [] u[1] = "IS" -> 1..NChunks(Len(JStrBulkSeq))
    [] u[1] = "A"  -> 1..NChunks(Len(JPool))
    [] u[1] = "F"  -> 1..NChunks(Len(FSeqSeq))
    [] OTHER -> {1}

ChunkOf(s, r) == SubSeq(s, (r - 1) * RowSize + 1, Min(r * RowSize, Len(s)))

Cases(u, r) ==
  CASE u[1] = "E" -> LET t == Catalog[u[2]] p == Pool(t) IN [i \in DOMAIN p |-> CaseE(t, p[i])]
    [] u[1] = "R" -> LET t == Catalog[u[2]] p == Pool(t) IN [i \in DOMAIN p |-> CaseR(t, p[i])]
    [] u[1] = "I" -> LET t == Catalog[u[2]] js == JIn(t) IN [i \in DOMAIN js |-> CaseI(t, js[i])]
    [] u[1] = "X" -> LET t == Catalog[u[2]] js == JIn(t) IN [i \in DOMAIN js |-> CaseX(t, js[i])]
    [] u[1] = "A" -> LET t == AccTypes[u[2]] js == ChunkOf(JPool, r) IN [i \in DOMAIN js |-> CaseA(t, js[i])]
    [] u[1] = "ES" -> LET p == ChunkOf(StrBulkSeq, r) IN [i \in DOMAIN p |-> <<CaseE(TStr, p[i]), CaseR(TStr, p[i])[3]>>]
    [] u[1] = "IS" -> LET js == ChunkOf(JStrBulkSeq, r) IN [i \in DOMAIN js |-> <<CaseI(TStr, js[i]), CaseX(TStr, js[i])[3]>>]
    [] u[1] = "L" -> [i \in DOMAIN JPool |-> CaseL(JPool[i])]
    [] u[1] = "N" -> LET src == JArrays \o JTyped \o <<JStrSmall[4]>> IN
                     [k \in 1..(3 * Len(src)) |-> LET j == src[((k - 1) \div 3) + 1] i == (k - 1) % 3 IN <<"index", j, i, IndexOf(j, i)>>]
                     \o [k \in 1..(Len(JObjects) * Len(PropKeys)) |->
                           LET j == JObjects[((k - 1) \div Len(PropKeys)) + 1] key == PropKeys[((k - 1) % Len(PropKeys)) + 1] IN
                           <<"get", SetOf(j, ExtString(key), JB(1)), key, GetOf(SetOf(j, ExtString(key), JB(1)), ExtString(key))>>]
                     \o [k \in DOMAIN JObjects |-> <<"get", JObjects[k], NameA, GetOf(JObjects[k], NameA)>>]
    [] u[1] = "M" -> LET os == <<JObjects[1], JObjects[3]>> IN
                     [k \in 1..(Len(os) * Len(PropKeys) * Len(MutVals)) |->
                        LET j == os[((k - 1) % Len(os)) + 1]
                            key == PropKeys[(((k - 1) \div Len(os)) % Len(PropKeys)) + 1]
                            tv == MutVals[((k - 1) \div (Len(os) * Len(PropKeys))) + 1] IN
                        <<"set", j, key, tv[1], tv[2], SetOf(j, ExtString(key), Externalize(tv[2], tv[1]))>>]
                     \o [k \in DOMAIN PropKeys |-> LET j == SetOf(SetOf(JObjects[3], ExtString(PropKeys[k]), JB(1)), <<122>>, JNull) IN
                                                    <<"delete", j, PropKeys[k], TBool, B(0), DeleteOf(j, ExtString(PropKeys[k]))>>]
                     \o [k \in 1..(3 * Len(MutVals)) |->
                           LET j == JArrays[2] i == ((k - 1) % 3) + 1 tv == MutVals[((k - 1) \div 3) + 1] IN
                           <<"setindex", j, i, tv[1], tv[2], SetIndexOf(j, i, Externalize(tv[2], tv[1]))>>]
    [] u[1] = "F" -> LET fs == ChunkOf(FSeqSeq, r) IN [i \in DOMAIN fs |-> <<fs[i], ExternalizeFuncs(fs[i])>>]
    [] u[1] = "C" -> LET cs == <<"loop", "sync">> bs == <<"recv", "send", "select", "nonblocking", "go">> IN
                     [k \in 1..(Len(cs) * Len(bs)) |-> LET c == cs[((k - 1) \div Len(bs)) + 1] b == bs[((k - 1) % Len(bs)) + 1] IN <<c, b, CallbackOutcome(c, b)>>]
    [] u[1] = "W" -> << << << <<"Get", 1>>, <<"Add", 1>>, <<"hidden", 0>>, <<"Name", 1>> >>,
                          WrapperProps(<< <<"Get", 1>>, <<"Add", 1>>, <<"hidden", 0>>, <<"Name", 1>> >>) >> >>

(***************************************************************************)
(* checks of the specification on the enumerated values                    *)
(***************************************************************************)
RoundTripOK(t, v) == Representable(v, t) => Internalize(Externalize(v, t), t) = v
BoxTransparentOK(t, v) == Externalize(If(t, v), TAny) = Externalize(v, t)
\* numbers: an exact integer survives Number and back; mantissas are odd and below 2^53
NumOK(t, v) ==
  IsIntType(t) =>
    LET x == IntToNum(v[2], v[3]) IN
    /\ IsNum(x)
    /\ (IntExact(v[3]) => TruncNum(x) = <<v[2], v[3]>>)
    /\ InRange(KindOf(t), v[2], v[3])
Utf16OK(s) ==
  LET u == ExtString(s) IN
  /\ WellFormed16(u)
  /\ RunesOfUtf16(u, 1) = ToRunes(s)
  /\ Len(u) = RuneCount(s) + Cardinality({i \in DOMAIN ToRunes(s) : ToRunes(s)[i] > 65535})
  /\ IntString(u) = S(FromRunes(ToRunes(s)))
  /\ (Valid(s) => IntString(u) = S(s))
\* JavaScript values that survive JS -> Go -> JS at their natural Go type
JsRoundTripOK(j) ==
  /\ (j[1] = "jb" => Externalize(Internalize(j, TBool), TBool) = j)
  /\ (j[1] = "jn" => Externalize(Internalize(j, TF64), TF64) = j)
  /\ (j[1] = "js" /\ WellFormed16(j[2]) => Externalize(Internalize(j, TStr), TStr) = j)
  /\ (j[1] = "jn" => Externalize(Internalize(j, TAny), TAny) = j)
  /\ (j[1] = "jt" => Externalize(Internalize(j, TAny), TAny) = j)
  /\ (j[1] = "jnull" => Externalize(Internalize(j, TAny), TAny) = j)

SpecOK(u, r) ==
  CASE u[1] \in {"E", "R"} -> LET t == Catalog[u[2]] p == Pool(t) IN
                              \A i \in DOMAIN p : RoundTripOK(t, p[i]) /\ BoxTransparentOK(t, p[i]) /\ NumOK(t, p[i])
    [] u[1] = "ES" -> LET p == ChunkOf(StrBulkSeq, r) IN \A i \in DOMAIN p : RoundTripOK(TStr, p[i]) /\ Utf16OK(p[i][2])
    [] u[1] = "IS" -> LET js == ChunkOf(JStrBulkSeq, r) IN \A i \in DOMAIN js : JsRoundTripOK(js[i])
    [] u[1] = "A" -> LET js == ChunkOf(JPool, r) IN \A i \in DOMAIN js : JsRoundTripOK(js[i])
    [] u[1] = "F" -> LET fs == ChunkOf(FSeqSeq, r) IN
                     \A i \in DOMAIN fs : LET ids == ExternalizeFuncs(fs[i]) IN
                       \A a, b \in DOMAIN ids : (ids[a] = ids[b]) <=> (fs[i][a] = fs[i][b])
    [] OTHER -> TRUE

\* the map-key pool is what Representable assumes: valid UTF-8, pairwise different also after externalisation
ASSUME \A i, k \in DOMAIN Keys : Valid(Keys[i]) /\ (i # k => ExtString(Keys[i]) # ExtString(Keys[k]))

VARIABLES unit, row
vars == <<unit, row>>

Init == unit \in Units /\ row = NoRow
Next == row = NoRow /\ row' \in Rows(unit) /\ UNCHANGED unit
Spec == Init /\ [][Next]_vars

UnitFile(u) == OutFile \o "." \o u[1] \o "_" \o ToString(u[2]) \o ".ndjson"
Check == row # NoRow => SpecOK(unit, row)
Emit == row # NoRow => CSVWrite("%1$s", <<ToJson(<<unit[1], unit[2], row, Cases(unit, row)>>)>>, UnitFile(unit))

\* header for the harness: catalog and routes as the specification defines them
Header == <<Catalog, RoutesE, RoutesI, RoutesAcc, RoutesR, RoutesX, AccTypes>>
ASSUME CSVWrite("%1$s", <<ToJson(Header)>>, OutFile \o ".header.json")
=============================================================================
