------------------------------ MODULE Instances ------------------------------
(***************************************************************************)
(* C04 -- every used generic instantiation exists, is distinct and behaves *)
(* correctly.  (Also the instance-id part of C17, see Build.tla.)          *)
(*                                                                         *)
(* WHAT IS MODELLED                                                        *)
(*                                                                         *)
(* A PROGRAM is a sequence of generic declarations G_1..G_n (n <= 3)       *)
(* spread over the packages a, b, c (a may import b and c, b may import c; *)
(* the main package m imports all) and a sequence of ROOTS: instantiations *)
(* with ground type arguments written in non-generic code of m, a, b or c. *)
(* A declaration is                                                        *)
(*   func    a generic function        func G[T1 C1, T2 C2](d int32, ...)  *)
(*   type    a generic struct type with one method M (pointer receiver)    *)
(*   nested  a struct type declared INSIDE a generic function (its host),  *)
(*           with 0 or 1 type parameters of its own; its parameter space   *)
(*           is the host's parameters followed by its own (Go: every       *)
(*           instantiation of the host has its own copy of the type).      *)
(* A body contains up to two USES: an instantiation of some G_j whose type *)
(* arguments are TYPE EXPRESSIONS over the user's own parameters:          *)
(*   T, []E, *E, P[E..] (instance of a generic struct type), L[E..] (a     *)
(*   local type of the user), ground types I8 U8 I16 (named int8, uint8,   *)
(*   int16 with a method Tag; I8.Tag blocks on a channel).  Type parameters*)
(*   have the constraint any or Num (~int8|~uint8|~int16 with Tag).        *)
(* Uses sit in a function/method BODY or (for struct types) in a FIELD     *)
(* type; functions are instantiated explicitly G[X](..) or by inference.   *)
(*                                                                         *)
(* REFERENCE (what Go says).  The instances a program needs are the least  *)
(* fixpoint RefFix of "the code of instance I mentions instance J" from    *)
(* the roots (finite: Go rejects expanding instantiation cycles -- Legal   *)
(* is the cycle test of go/types, mono.go).  Two instances are the same    *)
(* iff declaration, type arguments and nesting arguments are identical     *)
(* type terms.  Exec gives the observable behaviour of the rendered        *)
(* program: the sequence of executed instances with their type arguments,  *)
(* the arithmetic of Num parameters at the width of the argument type, the *)
(* method results, T1 == T2 as seen by a type assertion, and for every     *)
(* recorded value the index of the first recorded value of the same type   *)
(* (what interface comparison and map keys observe).                       *)
(*                                                                         *)
(* IMPLEMENTATION-SHAPED PART (compiler/internal/typeparams).  One action  *)
(* per step of the Collector:                                              *)
(*   ScanPkg   Collector.Scan of one package, in import-path order: the    *)
(*             seedVisitor adds the instances written in non-generic code. *)
(*   BeginRange / Pick / PropStep / EndProp                                *)
(*             Collector.Finish: `for !allExhausted() { for pkg, set :=    *)
(*             range *c.Instances { propagate(pkg, set) } }`.  The range   *)
(*             is over a Go MAP: Pick chooses any not yet visited key; keys*)
(*             inserted during the range may or may not be visited.        *)
(*             propagate drains the package's ordered InstanceSet through  *)
(*             the `unprocessed` index; PropStep scans one instance with a *)
(*             Resolver (walk order of the AST = order of Mentions),       *)
(*             addInstance appends the instance and, for named types, its  *)
(*             methods; InstanceSet.Add consults the InstanceMap `seen`    *)
(*             (buckets keyed by object and by an order-insensitive hash   *)
(*             of TNest and TArgs; candidateArgsMatch inside a bucket) and *)
(*             gives the instance the id Len(seen).                        *)
(* With Sorted = TRUE the range visits the keys present at its start in    *)
(* sorted order (the proposed repair of defect F6).                        *)
(*                                                                         *)
(* WHAT TLC CHECKS (cfg: INVARIANTS)                                       *)
(*   Sound      every collected instance is in ImplFix (always)            *)
(*   Confluent  at the end the collected SET equals ImplFix for every      *)
(*              iteration order (ImplFix = fixpoint of the collector's     *)
(*              one-step relation, computed without any order)             *)
(*   Complete   ImplFix contains RefFix (nothing Go needs is missing)      *)
(*   SeenOK     the InstanceMap agrees with equality of type terms: no     *)
(*              duplicates, Has(x) iff x was added, ids are positions      *)
(*   Emit       (side effect) writes the scenarios                         *)
(* and, in a separate configuration, IdsDeterministic: the ORDER of every  *)
(* package's set (= the numeric ids that reach the JavaScript) equals the  *)
(* order of the sorted run.  That one FAILS for the unsorted collector     *)
(* (defect F6); the harness reports the order-sensitive programs from the  *)
(* final orders written by Emit.                                           *)
(*                                                                         *)
(* HOW PROGRAMS ARE ENUMERATED.  The program is built by the Gen actions,  *)
(* one choice per step.  In the exhaustive mode every option inside        *)
(* Params.bnd is taken (TLC enumerates the whole family); in the scripted  *)
(* mode the harness supplies digit strings (from VERIF_SEED) and digit k   *)
(* selects the option, so the SPACE and its decoding are defined here and  *)
(* the harness only contributes entropy.  Programs that are not Legal, in  *)
(* which some declaration is unreachable, or whose closure exceeds MaxDep  *)
(* are dropped (pc = "skip").                                              *)
(*                                                                         *)
(* HARNESS (harness/props/c04).  Renders each emitted program as a real    *)
(* multi-package Go module, compiles it with the compiler under test and   *)
(* with go (guard), compares the printed log with Exec and the compiler's  *)
(* real instance sets (Sources.TypeInfo.InstanceSets, Decl.FullName) with  *)
(* ImplFix/RefFix, and checks that the real ORDER is one of the final      *)
(* orders of this model.                                                   *)
(***************************************************************************)
EXTENDS Integers, Sequences, FiniteSets, TLC, Json, CSV, SequencesExt, FiniteSetsExt

Params == JsonDeserialize("c04_params.json")
Codes    == Params.codes            \* scripted programs: sequences of digits; <<>> = exhaustive mode
Scripted == Len(Codes) > 0
Given    == Params.given            \* programs handed over as [decls, roots] (witness shapes found by an
UseGiven == Len(Given) > 0          \* exhaustive run, replays); takes precedence over the other modes
Bnd      == Params.bnd              \* bounds / alphabet of the family
Sorted   == Params.sorted           \* TRUE: model of the repaired Collector.Finish
ExecD    == Params.execDepth        \* depth at which the rendered bodies stop calling
OutFile  == Params.out
MaxDep   == 6                       \* type terms deeper than this: closure abandoned

MaxDecls == Bnd.maxDecls
MaxNP    == Bnd.maxNP
MaxUses  == Bnd.maxUses
MaxRoots == Bnd.maxRoots
TexDepth == Bnd.texDepth
RootDepth == Bnd.rootDepth          \* depth of the type arguments written at the roots
Canon    == Bnd.canon               \* exhaustive mode: packages non-decreasing along the declarations,
                                    \* roots in increasing order of one fixed enumeration (drops permutations)
Kinds    == Range(Bnd.kinds)
GPkgs    == Range(Bnd.pkgs)
RPkgs    == Range(Bnd.rootPkgs)
ConsSet  == Range(Bnd.cons)
Tags     == Range(Bnd.tags)
Grounds  == Range(Bnd.grounds)
Styles   == Range(Bnd.styles)
Sites    == Range(Bnd.sites)

PkgSeq == <<"m", "a", "b", "c">>     \* = order of the import paths vp, vp/a, vp/b, vp/c
POrd(p) == CASE p = "m" -> 0 [] p = "a" -> 1 [] p = "b" -> 2 [] p = "c" -> 3
Imports(x, y) == POrd(x) < POrd(y)
CanSee(x, y) == x = y \/ Imports(x, y)

(***************************************************************************)
(* type terms: uniform 4-tuples <<tag, n, name, subterms>>                 *)
(***************************************************************************)
TP(k)    == <<"p", k, "", <<>>>>
TG(g)    == <<"g", 0, g, <<>>>>
TS(e)    == <<"s", 0, "", <<e>>>>
TQ(e)    == <<"q", 0, "", <<e>>>>
TI(j, a) == <<"i", j, "", a>>        \* instance of the struct type G_j
TL(j, a) == <<"l", j, "", a>>        \* local type G_j; a = host arguments \o own arguments

RECURSIVE Subst(_, _), TDepth(_), TParams(_), TInsts(_), HasLocal(_)
\* parameters beyond Len(env) stay (the term is then "still generic")
Subst(e, env) ==
  IF e[1] = "p" THEN (IF e[2] <= Len(env) THEN env[e[2]] ELSE e)
  ELSE <<e[1], e[2], e[3], [k \in 1..Len(e[4]) |-> Subst(e[4][k], env)]>>
SubstAll(es, env) == [k \in 1..Len(es) |-> Subst(es[k], env)]
Max0(S) == IF S = {} THEN 0 ELSE Max(S)
TDepth(e) == IF e[1] \in {"p", "g"} THEN 0 ELSE 1 + Max0({TDepth(e[4][k]) : k \in 1..Len(e[4])})
TParams(e) == IF e[1] = "p" THEN {e[2]} ELSE UNION {TParams(e[4][k]) : k \in 1..Len(e[4])}
Closed(e) == TParams(e) = {}
HasLocal(e) == e[1] = "l" \/ \E k \in 1..Len(e[4]) : HasLocal(e[4][k])
RECURSIVE Flat(_)
Flat(ss) == IF ss = <<>> THEN <<>> ELSE Head(ss) \o Flat(Tail(ss))
\* the generic identifiers inside a type expression in source order: <<j, args>>
TInsts(e) ==
  IF e[1] \in {"p", "g"} THEN <<>>
  ELSE (IF e[1] \in {"i", "l"} THEN <<<<e[2], e[4]>>>> ELSE <<>>) \o Flat([k \in 1..Len(e[4]) |-> TInsts(e[4][k])])

(***************************************************************************)
(* declarations                                                            *)
(*   [kind, pkg, np (own parameters), cons (whole parameter space),        *)
(*    host (0 or the index of the host function), uses]                    *)
(*   use = [tgt, args (own arguments of the target), site, style]          *)
(***************************************************************************)
HNP(ds, i) == IF ds[i].kind = "nested" THEN ds[ds[i].host].np ELSE 0
NT(ds, i)  == HNP(ds, i) + ds[i].np
OwnCons(ds, j) == SubSeq(ds[j].cons, HNP(ds, j) + 1, NT(ds, j))
LocalsOf(ds, i) == {n \in 1..Len(ds) : ds[n].kind = "nested" /\ ds[n].host = i}
VisTypes(ds, pk) == {j \in 1..Len(ds) : ds[j].kind = "type" /\ CanSee(pk, ds[j].pkg)}
VisFuncs(ds, pk) == {j \in 1..Len(ds) : ds[j].kind = "func" /\ CanSee(pk, ds[j].pkg)}
HostParams(ds, n) == [k \in 1..HNP(ds, n) |-> TP(k)]
\* the arguments of a mention in the target's whole parameter space
FullArgs(ds, j, own) == IF ds[j].kind = "nested" THEN HostParams(ds, j) \o own ELSE own

(***************************************************************************)
(* choices                                                                 *)
(***************************************************************************)
Dg(code, k) == code[(k % Len(code)) + 1]
OptS(code, k, S) == IF Scripted THEN (LET q == SetToSeq(S) IN {q[(Dg(code, k) % Len(q)) + 1]}) ELSE S

\* ctx = [pkg, cons (parameter space of the user), locals (set of decl indices)]
RECURSIVE TE(_, _, _, _, _, _), ArgT(_, _, _, _, _, _)
TE(code, ds, ctx, cn, dep, k) ==
  LET nt == Len(ctx.cons)
      numOK == {TP(p) : p \in {q \in 1..nt : ctx.cons[q] = "num"}} \cup {TG(g) : g \in Grounds}
      tags == {t \in Tags : /\ (t \in {"s", "q", "i", "l"} => dep > 0)
                            /\ (t = "p" => nt > 0)
                            /\ (t = "i" => VisTypes(ds, ctx.pkg) # {})
                            /\ (t = "l" => ctx.locals # {})}
  IN IF cn = "num" THEN OptS(code, k, numOK)
     ELSE UNION { CASE t = "p" -> {TP(p) : p \in OptS(code, k + 1, 1..nt)}
                    [] t = "g" -> {TG(g) : g \in OptS(code, k + 1, Grounds)}
                    [] t = "s" -> {TS(e) : e \in TE(code, ds, ctx, "any", dep - 1, 3 * k + 1)}
                    [] t = "q" -> {TQ(e) : e \in TE(code, ds, ctx, "any", dep - 1, 3 * k + 1)}
                    [] t = "i" -> UNION {{TI(j, a) : a \in ArgT(code, ds, ctx, j, dep - 1, 3 * k + 2)} : j \in OptS(code, k + 1, VisTypes(ds, ctx.pkg))}
                    [] t = "l" -> UNION {{TL(n, HostParams(ds, n) \o a) : a \in ArgT(code, ds, ctx, n, dep - 1, 3 * k + 2)} : n \in OptS(code, k + 1, ctx.locals)}
                : t \in OptS(code, k, tags) }
\* tuples of own arguments for the target j
ArgT(code, ds, ctx, j, dep, k) ==
  LET oc == OwnCons(ds, j) IN
  CASE Len(oc) = 0 -> {<<>>}
    [] Len(oc) = 1 -> {<<e>> : e \in TE(code, ds, ctx, oc[1], dep, k)}
    [] Len(oc) = 2 -> {<<e1, e2>> : e1 \in TE(code, ds, ctx, oc[1], dep, k), e2 \in TE(code, ds, ctx, oc[2], dep, k + 7)}

CtxOf(ds, i) == [pkg |-> ds[i].pkg, cons |-> ds[i].cons, locals |-> IF ds[i].kind = "func" THEN LocalsOf(ds, i) ELSE {}]
RootCtx(pk)  == [pkg |-> pk, cons |-> <<>>, locals |-> {}]

\* headers for declaration number Len(ds)+1
ConsSeqs(code, np, k) ==
  CASE np = 0 -> {<<>>}
    [] np = 1 -> {<<c>> : c \in OptS(code, k, ConsSet)}
    [] np = 2 -> {<<c1, c2>> : c1 \in OptS(code, k, ConsSet), c2 \in OptS(code, k + 1, ConsSet)}
HdrOpts(code, ds, k) ==
  LET hosts == {h \in 1..Len(ds) : ds[h].kind = "func"}
      kinds == {kd \in Kinds : kd = "nested" => hosts # {}}
  IN UNION {
       IF kd = "nested"
       THEN UNION {{[kind |-> "nested", pkg |-> ds[h].pkg, np |-> np, cons |-> ds[h].cons \o [q \in 1..np |-> "any"], host |-> h, uses |-> <<>>]
                     : np \in OptS(code, k + 2, 0..1)} : h \in OptS(code, k + 1, hosts)}
       ELSE UNION {UNION {{[kind |-> kd, pkg |-> pk, np |-> np, cons |-> cs, host |-> 0, uses |-> <<>>]
                     : cs \in ConsSeqs(code, np, k + 3)} : np \in OptS(code, k + 2, 1..MaxNP)}
                   : pk \in OptS(code, k + 1, {g \in GPkgs : Canon => \A q \in 1..Len(ds) : POrd(ds[q].pkg) <= POrd(g)})}
     : kd \in OptS(code, k, kinds)}

\* uses available to declaration i
UseOpts(code, ds, i, k) ==
  LET d == ds[i]
      ctx == CtxOf(ds, i)
      sites == IF d.kind = "func" THEN {"body"} ELSE IF d.kind = "nested" THEN {"field"} ELSE Sites
      tgts(site) == IF site = "field" THEN VisTypes(ds, d.pkg)
                    ELSE VisTypes(ds, d.pkg) \cup VisFuncs(ds, d.pkg) \cup (IF d.kind = "func" THEN LocalsOf(ds, i) ELSE {})
  IN UNION { IF tgts(site) = {} THEN {} ELSE
       UNION { UNION { {[tgt |-> j, args |-> a, site |-> site, style |-> st] : a \in ArgT(code, ds, ctx, j, TexDepth, k + 5)}
                 : st \in IF ds[j].kind = "func" THEN OptS(code, k + 2, Styles) ELSE {"x"} }
             : j \in OptS(code, k + 1, tgts(site)) }
     : site \in OptS(code, k, sites) }

RootOpts(code, ds, k) ==
  LET ok == {pk \in RPkgs : VisTypes(ds, pk) \cup VisFuncs(ds, pk) # {}} IN
  UNION { UNION { UNION { {[pkg |-> pk, tgt |-> j, args |-> a, style |-> st] : a \in ArgT(code, ds, RootCtx(pk), j, RootDepth, k + 5)}
                    : st \in IF ds[j].kind = "func" THEN OptS(code, k + 2, Styles) ELSE {"x"} }
                : j \in OptS(code, k + 1, VisTypes(ds, pk) \cup VisFuncs(ds, pk)) }
        : pk \in OptS(code, k, ok) }

(***************************************************************************)
(* legality: go/types rejects instantiation cycles in which a type         *)
(* parameter flows back into itself through a composite type (mono.go).    *)
(* Vertices: parameters <<decl, index>> (the host part of a local type's   *)
(* parameter space IS the host's parameters); edge weight 1 = wrapped.     *)
(***************************************************************************)
Vx(ds, i, p) == IF ds[i].kind = "nested" /\ p <= HNP(ds, i) THEN <<ds[i].host, p>> ELSE <<i, p>>
RECURSIVE MentionEdges(_, _, _, _)
\* edges for one mention <<j, full>> written in the parameter space of declaration i
MentionEdges(ds, i, j, full) ==
  UNION {{<<Vx(ds, i, p), Vx(ds, j, q), IF full[q] = TP(p) THEN 0 ELSE 1>> : p \in TParams(full[q])} : q \in 1..Len(full)}
UseMentions(ds, u) ==
  <<<<u.tgt, FullArgs(ds, u.tgt, u.args)>>>> \o Flat([k \in 1..Len(u.args) |-> TInsts(u.args[k])])
Edges(ds) ==
  UNION {UNION {UNION {MentionEdges(ds, i, mn[1], mn[2]) : mn \in Range(UseMentions(ds, ds[i].uses[s]))}
                : s \in 1..Len(ds[i].uses)} : i \in 1..Len(ds)}
Vertices(ds) == UNION {{Vx(ds, i, p) : p \in 1..NT(ds, i)} : i \in 1..Len(ds)}
RECURSIVE Trans(_, _)
Trans(R, n) ==
  LET R2 == R \cup {<<xy[1][1], xy[2][2], IF xy[1][3] + xy[2][3] > 0 THEN 1 ELSE 0>> : xy \in {pr \in R \X R : pr[1][2] = pr[2][1]}}
  IN IF R2 = R \/ n = 0 THEN R2 ELSE Trans(R2, n - 1)
Legal(ds) == LET T == Trans(Edges(ds), 12) IN ~ \E r \in T : r[1] = r[2] /\ r[3] = 1

(***************************************************************************)
(* instances: [d, m (1 = the method M of struct type d), args, nest]       *)
(***************************************************************************)
Inst(j, m, args, nest) == [d |-> j, m |-> m, args |-> args, nest |-> nest]
Env(ins) == ins.nest \o ins.args
MkInst(ds, j, full) ==
  IF ds[j].kind = "nested" THEN Inst(j, 0, SubSeq(full, HNP(ds, j) + 1, Len(full)), SubSeq(full, 1, HNP(ds, j)))
  ELSE Inst(j, 0, full, <<>>)
PkgOf(ds, ins) == ds[ins.d].pkg
IDepth(ins) == Max0({TDepth(Env(ins)[k]) : k \in 1..Len(Env(ins))})

\* addInstance: the instance itself and, for a named type with methods, its methods
WithMethods(ds, ins) == IF ds[ins.d].kind = "type" /\ ins.m = 0 THEN <<ins, Inst(ins.d, 1, ins.args, <<>>)>> ELSE <<ins>>

\* what the visitor adds for one mention under the environment env
\* (isGeneric: a mention that still contains a type parameter is skipped)
AddsOfMention(ds, mn, env) ==
  LET full == SubstAll(mn[2], env) IN
  IF \A k \in 1..Len(full) : Closed(full[k]) THEN WithMethods(ds, MkInst(ds, mn[1], full)) ELSE <<>>
UsesAdds(ds, us, env) ==
  Flat([s \in 1..Len(us) |-> Flat([k \in 1..Len(UseMentions(ds, us[s])) |-> AddsOfMention(ds, UseMentions(ds, us[s])[k], env)])])
SiteUses(d, site) == SelectSeq(d.uses, LAMBDA u : u.site = site)

\* the collector's scan of one instance, in the order of the AST walk
ImplAdds(ds, ins) ==
  LET d == ds[ins.d] env == Env(ins) IN
  CASE d.kind = "func" ->
         \* local type declarations come first in the rendered body: visitNestedType adds the
         \* non-generic ones when their defining identifier is met, then their field types are walked
         Flat([q \in 1..Len(ds) |->
                 IF ds[q].kind = "nested" /\ ds[q].host = ins.d
                 THEN (IF ds[q].np = 0 THEN <<Inst(q, 0, <<>>, env)>> ELSE <<>>) \o UsesAdds(ds, ds[q].uses, env)
                 ELSE <<>>])
         \o UsesAdds(ds, d.uses, env)
    [] d.kind = "type" /\ ins.m = 0 -> UsesAdds(ds, SiteUses(d, "field"), env)     \* scanNamed walks the TypeSpec
    [] d.kind = "type" /\ ins.m = 1 -> UsesAdds(ds, SiteUses(d, "body"), env)      \* scanSignature walks the method
    [] d.kind = "nested" -> IF d.np = 0 THEN <<>>                                  \* no objMap entry: skipped
                            ELSE UsesAdds(ds, d.uses, env)

\* what Go needs: the code of an instance mentions ...
RefAdds(ds, ins) ==
  LET d == ds[ins.d] env == Env(ins) IN
  CASE d.kind = "func" -> Range(UsesAdds(ds, d.uses, env)) \cup {Inst(q, 0, <<>>, env) : q \in {n \in LocalsOf(ds, ins.d) : ds[n].np = 0}}
    [] d.kind = "type" /\ ins.m = 0 -> Range(UsesAdds(ds, SiteUses(d, "field"), env)) \cup {Inst(ins.d, 1, ins.args, <<>>)}
    [] d.kind = "type" /\ ins.m = 1 -> Range(UsesAdds(ds, SiteUses(d, "body"), env))
    [] d.kind = "nested" -> Range(UsesAdds(ds, d.uses, env))

RootAdds(ds, r) ==
  LET mns == <<<<r.tgt, r.args>>>> \o Flat([k \in 1..Len(r.args) |-> TInsts(r.args[k])]) IN
  Flat([k \in 1..Len(mns) |-> AddsOfMention(ds, mns[k], <<>>)])
Seeds(ds, rs, pk) == Flat([k \in 1..Len(rs) |-> IF rs[k].pkg = pk THEN RootAdds(ds, rs[k]) ELSE <<>>])
AllSeeds(ds, rs) == UNION {Range(Seeds(ds, rs, pk)) : pk \in Range(PkgSeq)}

RECURSIVE FixI(_, _, _), FixR(_, _, _)
\* least fixpoints (sets); n bounds the iteration, an instance deeper than MaxDep marks overflow
FixI(ds, S, n) ==
  LET S2 == S \cup UNION {Range(ImplAdds(ds, x)) : x \in S} IN
  IF S2 = S \/ n = 0 \/ \E x \in S2 : IDepth(x) > MaxDep THEN S2 ELSE FixI(ds, S2, n - 1)
FixR(ds, S, n) ==
  LET S2 == S \cup UNION {RefAdds(ds, x) : x \in S} IN
  IF S2 = S \/ n = 0 \/ \E x \in S2 : IDepth(x) > MaxDep THEN S2 ELSE FixR(ds, S2, n - 1)
ImplFix(ds, rs) == FixI(ds, AllSeeds(ds, rs), 40)
RefFix(ds, rs)  == FixR(ds, AllSeeds(ds, rs), 40)
Overflow(S) == \E x \in S : IDepth(x) > MaxDep
AllReached(ds, S) == \A i \in 1..Len(ds) : \E x \in S : x.d = i

(***************************************************************************)
(* observable behaviour of the rendered program                            *)
(* event = <<kind, decl, depth, nonnil, nums, idvals, zerovals>>           *)
(***************************************************************************)
PMod(v, m) == ((v % m) + m) % m
Wrap(g, v) == CASE g = "U8" -> PMod(v, 256)
                [] g = "I8" -> PMod(v + 128, 256) - 128
                [] g = "I16" -> PMod(v + 32768, 65536) - 32768
TagOf(g, x) == CASE g = "I8" -> x + 100 [] g = "U8" -> x + 200 [] g = "I16" -> x + 300
NumRec(g, d) == LET x == Wrap(g, d + 200) y == Wrap(g, x + Wrap(g, d + 100)) IN <<x, y, Wrap(g, x * x), TagOf(g, x)>>
NumsOf(cons, env, d) ==
  Flat([k \in 1..Len(cons) |-> IF cons[k] = "num" THEN NumRec(env[k][3], d) ELSE <<>>])
  \o (IF Len(cons) = 2 THEN <<IF env[1] = env[2] THEN 1 ELSE 0>> ELSE <<>>)
PtrVals(env) == [k \in 1..Len(env) |-> TQ(env[k])]

RECURSIVE ExecF(_, _, _, _), ExecM(_, _, _, _, _), ExecUse(_, _, _, _, _), ExecUses(_, _, _, _, _)
ExecUses(ds, i, us, env, d) == Flat([s \in 1..Len(us) |-> ExecUse(ds, i, us[s], env, d)])
ExecF(ds, i, env, d) ==
  LET locals == SetToSortSeq({n \in LocalsOf(ds, i) : ds[n].np = 0}, LAMBDA x, y : x < y)
      here == <<<<"F", i, d, 1, NumsOf(ds[i].cons, env, d), PtrVals(env), env>>>>
              \o [q \in 1..Len(locals) |-> <<"L", locals[q], d, 1, <<>>, <<TL(locals[q], env)>>, <<>>>>]
  IN here \o (IF d < ExecD THEN ExecUses(ds, i, ds[i].uses, env, d) ELSE <<>>)
ExecM(ds, j, env, d, nn) ==
  <<<<"M", j, d, nn, NumsOf(ds[j].cons, env, d), PtrVals(env) \o <<TQ(TI(j, env))>>, env>>>>
  \o (IF d < ExecD
      THEN ExecUses(ds, j, SiteUses(ds[j], "body"), env, d)
           \o (IF nn = 1 THEN LET fu == SiteUses(ds[j], "field") IN
                              Flat([s \in 1..Len(fu) |-> ExecM(ds, fu[s].tgt, SubstAll(fu[s].args, env), d + 1, 0)])
               ELSE <<>>)
      ELSE <<>>)
ExecUse(ds, i, u, env, d) ==
  LET j == u.tgt full == SubstAll(FullArgs(ds, j, u.args), env) IN
  CASE ds[j].kind = "func" -> ExecF(ds, j, full, d + 1)
    [] ds[j].kind = "type" -> ExecM(ds, j, full, d + 1, 1)
    [] ds[j].kind = "nested" ->
         (IF ds[j].np > 0 THEN <<<<"L", j, d, 1, <<>>, <<TL(j, full)>>, <<>>>>>> ELSE <<>>)
         \o Flat([s \in 1..Len(ds[j].uses) |-> ExecM(ds, ds[j].uses[s].tgt, SubstAll(ds[j].uses[s].args, full), d + 1, 0)])
ExecRoot(ds, r) ==
  IF ds[r.tgt].kind = "func" THEN ExecF(ds, r.tgt, r.args, 0) ELSE ExecM(ds, r.tgt, r.args, 0, 1)
Exec(ds, rs) == Flat([k \in 1..Len(rs) |-> ExecRoot(ds, rs[k])])
\* identity classes: index (from 0) of the first recorded value of the same type
IdVals(log) == Flat([k \in 1..Len(log) |-> log[k][6]])
Classes(vs) == [k \in 1..Len(vs) |-> Min({m \in 1..k : vs[m] = vs[k]}) - 1]

(***************************************************************************)
(* the collector as a state machine                                        *)
(***************************************************************************)
VARIABLES pc, cid, k, nd, decls, roots, ui, fix, rfix,
          sets, unproc, seen, scanned, round, fresh, cur, rounds
vars == <<pc, cid, k, nd, decls, roots, ui, fix, rfix, sets, unproc, seen, scanned, round, fresh, cur, rounds>>
gvars == <<cid, nd, decls, roots, fix, rfix>>
cvars == <<sets, unproc, seen, scanned, round, fresh, cur, rounds>>

Code == IF Scripted THEN Codes[cid] ELSE <<0>>
InMap == DOMAIN sets

\* InstanceMap: object -> hash -> bucket of <<instance, id>>; the hash of the real code is
\* the XOR of the hashes of TNest and TArgs: insensitive to order and to the nest/args split
HashOf(ins) == LET e == Env(ins) IN {<<t, Cardinality({q \in 1..Len(e) : e[q] = t})>> : t \in Range(e)}
ObjOf(ins) == <<ins.d, ins.m>>
Bucket(sn, ins) == IF <<ObjOf(ins), HashOf(ins)>> \in DOMAIN sn THEN sn[<<ObjOf(ins), HashOf(ins)>>] ELSE <<>>
\* candidateArgsMatch: TNest.Equal and TArgs.Equal (element-wise types.Identical)
Match(x, y) == x.nest = y.nest /\ x.args = y.args
Has(sn, ins) == \E q \in 1..Len(Bucket(sn, ins)) : Match(Bucket(sn, ins)[q][1], ins)
SeenLen(sn) == FoldSet(LAMBDA x, acc : acc + Len(sn[x]), 0, DOMAIN sn)
SetSeen(sn, ins) ==
  LET key == <<ObjOf(ins), HashOf(ins)>> IN
  [y \in DOMAIN sn \cup {key} |-> IF y = key THEN Append(Bucket(sn, ins), <<ins, SeenLen(sn)>>) ELSE sn[y]]

\* PackageInstanceSets.Add for a sequence of instances; st = [sets, unproc, seen]
RECURSIVE AddAll(_, _, _)
AddAll(ds, st, xs) ==
  IF xs = <<>> THEN st ELSE
  LET x == Head(xs) p == PkgOf(ds, x)
      ss == IF p \in DOMAIN st.sets THEN st.sets[p] ELSE <<>>
      sn == IF p \in DOMAIN st.seen THEN st.seen[p] ELSE <<>>     \* <<>> = function with empty domain
      st2 == IF Has(sn, x) THEN [st EXCEPT !.sets = [q \in DOMAIN st.sets \cup {p} |-> IF q = p THEN ss ELSE st.sets[q]],
                                           !.seen = [q \in DOMAIN st.seen \cup {p} |-> IF q = p THEN sn ELSE st.seen[q]],
                                           !.unproc = [q \in DOMAIN st.unproc \cup {p} |-> IF q \in DOMAIN st.unproc THEN st.unproc[q] ELSE 0]]
             ELSE [sets |-> [q \in DOMAIN st.sets \cup {p} |-> IF q = p THEN Append(ss, x) ELSE st.sets[q]],
                   seen |-> [q \in DOMAIN st.seen \cup {p} |-> IF q = p THEN SetSeen(sn, x) ELSE st.seen[q]],
                   unproc |-> [q \in DOMAIN st.unproc \cup {p} |-> IF q \in DOMAIN st.unproc THEN st.unproc[q] ELSE 0]]
  IN AddAll(ds, TLCEval(st2), Tail(xs))
CurSt == [sets |-> sets, unproc |-> unproc, seen |-> seen]
Exhausted(p) == unproc[p] >= Len(sets[p])
AllExhausted == \A p \in InMap : Exhausted(p)

Empty == [x \in {} |-> 0]
Init ==
  /\ (IF UseGiven
      THEN /\ pc = "check" /\ cid \in 1..Len(Given) /\ decls = Given[cid].decls /\ roots = Given[cid].roots
      ELSE /\ pc = "gen_n" /\ cid \in (IF Scripted THEN 1..Len(Codes) ELSE {0}) /\ decls = <<>> /\ roots = <<>>)
  /\ k = 1 /\ nd = 0 /\ ui = <<1, 1>> /\ fix = {} /\ rfix = {}
  /\ sets = Empty /\ unproc = Empty /\ seen = Empty /\ scanned = 0 /\ round = {} /\ fresh = {} /\ cur = "" /\ rounds = 0

(* --- program construction --- *)
GenN ==
  /\ pc = "gen_n"
  /\ \E n \in OptS(Code, k, 1..MaxDecls) : nd' = n
  /\ pc' = "gen_hdr" /\ k' = k + 11
  /\ UNCHANGED <<cid, decls, roots, ui, fix, rfix>> /\ UNCHANGED cvars
GenHdr ==
  /\ pc = "gen_hdr"
  /\ (IF Len(decls) < nd
      THEN /\ \E h \in HdrOpts(Code, decls, k) : decls' = Append(decls, h)
           /\ pc' = pc /\ ui' = ui
      ELSE /\ decls' = decls /\ pc' = "gen_use" /\ ui' = <<1, 1>>)
  /\ k' = k + 11
  /\ UNCHANGED <<cid, nd, roots, fix, rfix>> /\ UNCHANGED cvars
NextUse(i, s, took) == IF took /\ s < MaxUses THEN <<i, s + 1>> ELSE <<i + 1, 1>>
GenUse ==
  /\ pc = "gen_use"
  /\ (IF ui[1] > Len(decls)
      THEN /\ pc' = "gen_root" /\ decls' = decls /\ ui' = <<0, 0>>
      ELSE LET i == ui[1] opts == UseOpts(Code, decls, i, k + 1) IN
           /\ pc' = pc
           /\ \/ /\ opts # {}
                 /\ (Scripted => Dg(Code, k) % 4 # 0)            \* three quarters of the slots are used
                 /\ \E u \in opts : decls' = [decls EXCEPT ![i].uses = Append(@, u)]
                 /\ ui' = NextUse(i, ui[2], TRUE)
              \/ /\ (Scripted => (opts = {} \/ Dg(Code, k) % 4 = 0))
                 /\ decls' = decls /\ ui' = NextUse(i, ui[2], FALSE))
  /\ k' = k + 11
  /\ UNCHANGED <<cid, nd, roots, fix, rfix>> /\ UNCHANGED cvars
GenRoot ==
  /\ pc = "gen_root"
  /\ LET opts == RootOpts(Code, decls, k + 1)
         oseq == SetToSeq(opts) IN
     \/ /\ Len(roots) < MaxRoots /\ opts # {}
        /\ (Scripted => (Len(roots) = 0 \/ Dg(Code, k) % 3 # 0))
        /\ \E q \in 1..Len(oseq) :
             /\ (Canon /\ ~Scripted) => q > ui[2]
             /\ roots' = Append(roots, oseq[q])
             /\ ui' = <<0, IF Scripted THEN 0 ELSE q>>
        /\ pc' = pc
     \/ /\ Len(roots) > 0 \/ opts = {}
        /\ (Scripted => (Len(roots) = MaxRoots \/ opts = {} \/ (Len(roots) > 0 /\ Dg(Code, k) % 3 = 0)))
        /\ roots' = roots /\ ui' = ui
        /\ pc' = IF Len(roots) > 0 THEN "check" ELSE "skip"
  /\ k' = k + 11
  /\ UNCHANGED <<cid, nd, decls, fix, rfix>> /\ UNCHANGED cvars
\* the program is complete: keep it only if Go accepts it (no expanding instantiation cycle),
\* every declaration is instantiated, and the closure stays inside the depth bound
Check ==
  /\ pc = "check"
  /\ LET F == IF Legal(decls) THEN ImplFix(decls, roots) ELSE {} IN
     IF Legal(decls) /\ ~Overflow(F) /\ AllReached(decls, F)
     THEN pc' = "scan" /\ fix' = F /\ rfix' = RefFix(decls, roots)
     ELSE pc' = "skip" /\ fix' = {} /\ rfix' = {}
  /\ UNCHANGED <<k, nd, ui, cid, decls, roots>> /\ UNCHANGED cvars

(* --- Collector.Scan, package by package in import-path order --- *)
ScanPkg ==
  /\ pc = "scan"
  /\ (IF scanned < Len(PkgSeq)
      THEN LET st == AddAll(decls, CurSt, Seeds(decls, roots, PkgSeq[scanned + 1])) IN
           /\ sets' = st.sets /\ unproc' = st.unproc /\ seen' = st.seen
           /\ scanned' = scanned + 1 /\ pc' = pc
      ELSE /\ pc' = "finish" /\ UNCHANGED <<sets, unproc, seen, scanned>>)
  /\ UNCHANGED <<k, ui, round, fresh, cur, rounds>> /\ UNCHANGED gvars

(* --- Collector.Finish --- *)
BeginRange ==          \* `for !c.Instances.allExhausted() {` ... start of the range over the map
  /\ pc = "finish"
  /\ (IF AllExhausted THEN pc' = "done" /\ round' = {} /\ rounds' = rounds
      ELSE pc' = "range" /\ round' = InMap /\ rounds' = rounds + 1)
  /\ fresh' = {}
  /\ UNCHANGED <<k, ui, sets, unproc, seen, scanned, cur>> /\ UNCHANGED gvars
SortedMin(S) == CHOOSE p \in S : \A q \in S : POrd(p) <= POrd(q)
Pick ==                \* the range yields the next key
  /\ pc = "range"
  /\ (IF round \cup (IF Sorted THEN {} ELSE fresh) = {}
      THEN pc' = "finish" /\ cur' = "" /\ round' = round /\ fresh' = fresh
      ELSE \/ /\ round \cup fresh # {}
              /\ \E p \in (IF Sorted THEN {SortedMin(round)} ELSE round \cup fresh) :
                   cur' = p /\ round' = round \ {p} /\ fresh' = fresh \ {p}
              /\ pc' = "prop"
           \/ /\ ~Sorted /\ round = {}         \* keys inserted during the range need not be produced
              /\ pc' = "finish" /\ cur' = "" /\ round' = round /\ fresh' = fresh)
  /\ UNCHANGED <<k, ui, sets, unproc, seen, scanned, rounds>> /\ UNCHANGED gvars
PropStep ==            \* propagate: `inst, _ := iset.next()` and the scan of that instance
  /\ pc = "prop" /\ ~Exhausted(cur)
  /\ LET ins == sets[cur][unproc[cur] + 1]
         st0 == [CurSt EXCEPT !.unproc[cur] = @ + 1]
         st == AddAll(decls, st0, ImplAdds(decls, ins)) IN
     /\ sets' = st.sets /\ unproc' = st.unproc /\ seen' = st.seen
     /\ fresh' = fresh \cup (DOMAIN st.sets \ InMap)
  /\ UNCHANGED <<pc, k, ui, scanned, round, cur, rounds>> /\ UNCHANGED gvars
EndProp ==
  /\ pc = "prop" /\ Exhausted(cur)
  /\ pc' = "range" /\ cur' = ""
  /\ UNCHANGED <<k, ui, sets, unproc, seen, scanned, round, fresh, rounds>> /\ UNCHANGED gvars

Next == GenN \/ GenHdr \/ GenUse \/ GenRoot \/ Check \/ ScanPkg \/ BeginRange \/ Pick \/ PropStep \/ EndProp
Spec == Init /\ [][Next]_vars

(***************************************************************************)
(* properties                                                              *)
(***************************************************************************)
Collecting == pc \in {"scan", "finish", "range", "prop", "done"}
Collected == UNION {Range(sets[p]) : p \in InMap}
Sound == Collecting => Collected \subseteq fix
Confluent == pc = "done" => Collected = fix
Complete == pc = "done" => rfix \subseteq Collected
SeenOK ==
  Collecting =>
    \A p \in InMap :
      /\ \A i, j \in 1..Len(sets[p]) : sets[p][i] = sets[p][j] => i = j                    \* no duplicates
      /\ \A i \in 1..Len(sets[p]) : \E q \in 1..Len(Bucket(seen[p], sets[p][i])) :         \* ids are positions
             Bucket(seen[p], sets[p][i])[q] = <<sets[p][i], i - 1>>
      /\ SeenLen(seen[p]) = Len(sets[p])
      /\ \A x \in fix : PkgOf(decls, x) = p => (Has(seen[p], x) <=> x \in Range(sets[p]))
      /\ \A x \in Range(sets[p]) : PkgOf(decls, x) = p
      /\ unproc[p] <= Len(sets[p])

\* the order the repaired collector produces, computed functionally (the same step
\* operators, packages visited in sorted order)
RECURSIVE DrainPkg(_, _, _), SortedRounds(_, _, _)
DrainPkg(ds, st, p) ==
  IF st.unproc[p] >= Len(st.sets[p]) THEN st
  ELSE DrainPkg(ds, AddAll(ds, [st EXCEPT !.unproc[p] = @ + 1], ImplAdds(ds, st.sets[p][st.unproc[p] + 1])), p)
RECURSIVE DrainSeq(_, _, _)
DrainSeq(ds, st, ps) == IF ps = <<>> THEN st ELSE DrainSeq(ds, DrainPkg(ds, st, Head(ps)), Tail(ps))
SortedRounds(ds, st, n) ==
  IF n = 0 \/ \A p \in DOMAIN st.sets : st.unproc[p] >= Len(st.sets[p]) THEN st
  ELSE SortedRounds(ds, DrainSeq(ds, st, SelectSeq(PkgSeq, LAMBDA p : p \in DOMAIN st.sets)), n - 1)
RECURSIVE ScanAll(_, _, _, _)
ScanAll(ds, rs, st, i) == IF i > Len(PkgSeq) THEN st ELSE ScanAll(ds, rs, AddAll(ds, st, Seeds(ds, rs, PkgSeq[i])), i + 1)
SortedOrder(ds, rs) == SortedRounds(ds, ScanAll(ds, rs, [sets |-> Empty, unproc |-> Empty, seen |-> Empty], 1), 40).sets
\* ids are a function of the program (violated by the unsorted collector: F6)
IdsDeterministic == pc = "done" => sets = SortedOrder(decls, roots)

(***************************************************************************)
(* scenario emission                                                       *)
(***************************************************************************)
\* prog lines are long: one file per program (written by the single worker that evaluates the
\* state); order lines are short and share one file
Keyed == Scripted \/ UseGiven
ProgKey == IF Keyed THEN cid ELSE 0
ProgFile == OutFile \o ".prog." \o ToString(ProgKey) \o ".ndjson"
OrderFile == OutFile \o ".order.ndjson"
FixSeq(ds, rs) == SetToSeq(fix)
IndexIn(q, x) == CHOOSE i \in 1..Len(q) : q[i] = x
EmitProg ==
  LET log == Exec(decls, roots) fx == FixSeq(decls, roots) IN
  CSVWrite("%1$s", <<ToJson([cid |-> ProgKey, decls |-> decls, roots |-> roots, fix |-> fx,
                              ref |-> [i \in 1..Len(fx) |-> fx[i] \in rfix],
                              log |-> log, cls |-> Classes(IdVals(log))])>>, ProgFile)
EmitOrder ==
  LET fx == FixSeq(decls, roots) IN
  CSVWrite("%1$s", <<ToJson([cid |-> ProgKey, decls |-> IF Keyed THEN <<>> ELSE decls, roots |-> IF Keyed THEN <<>> ELSE roots,
                              rounds |-> rounds,
                              order |-> [q \in 1..Len(PkgSeq) |-> IF PkgSeq[q] \in InMap THEN [i \in 1..Len(sets[PkgSeq[q]]) |-> IndexIn(fx, sets[PkgSeq[q]][i])] ELSE <<>>]])>>, OrderFile)
Emit ==
  /\ (Keyed /\ pc = "scan" /\ scanned = 0) => EmitProg
  /\ pc = "done" => EmitOrder
=============================================================================
