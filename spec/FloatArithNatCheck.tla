------------------------- MODULE FloatArithNatCheck -------------------------
(***************************************************************************)
(* What "the limb operators of FloatArithNat agree with integer            *)
(* arithmetic on a and b" means, for one limb width LB (instantiated for   *)
(* LB = 2, 3 and 15 by FloatArithValidate.tla).  a, b are TLC integers     *)
(* with a, b, a*b and a*2^n below 2^31.                                    *)
(***************************************************************************)
EXTENDS FloatArithNat

I(n) == NFromInt(n)

\* a + b < 2^31
AgreeLin(a, b) ==
  LET x == I(a) y == I(b) IN
  /\ NCanon(x) /\ NToInt(x) = a
  /\ NAdd(x, y) = I(a + b)
  /\ (a >= b => NSub(x, y) = I(a - b))
  /\ NCmp(x, y) = (IF a < b THEN -1 ELSE IF a > b THEN 1 ELSE 0)
  /\ (b # 0 => NDivMod(x, y) = <<I(a \div b), I(a % b)>>)
  /\ NBitLen(x) = ILen(a)
  /\ (a # 0 => NTz(x) = ITz(a))
\* a * b < 2^31
AgreeMul(a, b) == NMul(I(a), I(b)) = I(a * b) /\ NMul(I(b), I(a)) = I(a * b)
Agree(a, b) == AgreeLin(a, b) /\ AgreeMul(a, b)

AgreeShift(a, n) ==        \* a * 2^n < 2^31
  LET x == I(a) IN
  /\ NShl(x, n) = I(a * 2^n)
  /\ NShr(x, n) = I(a \div 2^n)
  /\ NLowZero(x, n) = (a % 2^n = 0)
  /\ NBit(x, n) = (a \div 2^n) % 2
  /\ NShr(NShl(x, n), n) = x
  /\ NPow2(n) = I(2^n)
=============================================================================
