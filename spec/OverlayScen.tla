---------------------------- MODULE OverlayScen ----------------------------
(***************************************************************************)
(* Scenario enumeration for C12 (overlay merge).  TLC enumerates pairs     *)
(* (original side, overlay side) over the declaration alphabets defined    *)
(* here, evaluates Overlay!Merged on each pair, checks the theorems of     *)
(* Overlay.tla on it (INVARIANT Thm) and writes one JSON line per pair     *)
(* (INVARIANT Emit): the two sides, the import path, the predicted item    *)
(* set, and whether the merged package / the original alone must pass the  *)
(* type checker.  harness/props/c12 renders the sides as Go files, runs    *)
(* the real augmentation and compares.                                     *)
(*                                                                         *)
(* Parameters (constants of the cfg written by the harness):               *)
(*   Names, FU, VU, SU : the universe (names; imports a function body / an *)
(*                   initialiser / a function SIGNATURE may use)           *)
(*   Mode = "full"   : every pair of well-formed sides with <= MaxO / MaxV  *)
(*                     declarations over the classes Classes, blank import *)
(*                     flags Bls, import paths Ips                         *)
(*   Mode = "sample" : NChunks files c12_chunk_<u>.json, each a sequence   *)
(*                     of pair descriptors chosen by the harness from      *)
(*                     VERIF_SEED: [ob, vb, ip, o, v] with o a sequence of *)
(*                     <<class, index, su>> and v a sequence of <<class,   *)
(*                     index, variant, su>>, the numbers reduced modulo    *)
(*                     the size of the alphabet they index; su is the      *)
(*                     signature use given to a function declaration (the  *)
(*                     sample alphabets are built with SU = {""}; the      *)
(*                     harness chooses su so that imports whose LAST use   *)
(*                     is a signature, and override-signatures that name   *)
(*                     an import of the original file, are frequent)       *)
(*   Mode = "full" enumerates signature uses through SU: with MaxO = 1 an  *)
(*   original file whose ONLY change is an override-signature, a           *)
(*   keep-original or a purge of the last user of an import; with          *)
(*   MaxO = 2 the same next to an untouched declaration.                   *)
(*   OutFile : prefix of the output files (one per unit: a unit is         *)
(*             processed by one worker)                                    *)
(***************************************************************************)
EXTENDS Overlay, Json, CSV, SequencesExt, FiniteSetsExt

CONSTANTS Names, FU, VU, SU, Ips, Mode, Classes, Bls, MaxO, MaxV, NChunks, OutFile

Pairs2 == {x \in Names \X Names : x[1] # x[2]}
Gen(k, specs) == Dc(k, "", "", "", "", "", "", FALSE, specs)
Disjoint(s1, s2) == SeqRange(s1.ns) \cap SeqRange(s2.ns) = {}

TSpecs  == {Sp(<<n>>, f, "", "") : n \in Names, f \in {"plain", "generic"}}
VSpecs1 == {Sp(<<n>>, "one", "", u) : n \in Names, u \in VU}
           \cup {Sp(<<x[1], x[2]>>, f, "", u) : x \in Pairs2, f \in {"match", "call"}, u \in VU \cap {"", "pl"}}
           \cup {Sp(<<x[1], x[2]>>, "typed", "", "") : x \in Pairs2}
           \cup {Sp(<<n>>, "emb", "", u) : n \in Names, u \in {"", "em"}}
VSmall  == {s \in VSpecs1 : s.u = ""}
CSpecs1 == {Sp(<<n>>, "one", "", u) : n \in Names, u \in VU}
           \cup {Sp(<<x[1], x[2]>>, "match", "", u) : x \in Pairs2, u \in VU \cap {"", "pl"}}
CSmall  == {s \in CSpecs1 : s.u = ""}
Iota(n) == Sp(<<n>>, "iota", "", "")

\* "init" as a METHOD name is an ordinary name: only the package-level function init is special
MethNames == {"M", "N", "init"}
ClassNames == <<"func", "meth", "lnk", "type1", "type2", "var1", "var2", "var3", "const1", "const2", "iota">>

OClass(c) ==
  CASE c = "func"  -> {d \in {Dc("func", "", n, "", "", u, su, g, <<>>) : n \in Names, u \in FU, su \in SU, g \in BOOLEAN} : d.su = "plc" => d.g}
                      \cup {Dc("func", "", "init", "", "", u, "", FALSE, <<>>) : u \in FU}
    [] c = "meth"  -> {Dc("meth", "", m, r, rk, u, su, FALSE, <<>>) : m \in MethNames, r \in Names, rk \in {"val", "ptr", "gen"}, u \in FU \cap {"", "pl"}, su \in SU \ {"plc"}}
    [] c = "lnk"   -> {Dc("lnk", "", n, "", rk, "", su, FALSE, <<>>) : n \in Names, rk \in {"doc", "float"}, su \in SU \cap {"", "pl", "us"}}
    [] c = "type1" -> {Gen("type", <<s>>) : s \in TSpecs}
    [] c = "type2" -> {Gen("type", <<x[1], x[2]>>) : x \in {y \in TSpecs \X TSpecs : Disjoint(y[1], y[2])}}
    [] c = "var1"  -> {Gen("var", <<s>>) : s \in VSpecs1}
    [] c = "var2"  -> {Gen("var", <<x[1], x[2]>>) : x \in {y \in VSmall \X VSmall : Disjoint(y[1], y[2])}}
    [] c = "var3"  -> {Gen("var", <<Sp(<<x[1]>>, "one", "", ""), Sp(<<x[2]>>, "one", "", ""), Sp(<<x[3]>>, "one", "", "")>>)
                       : x \in {y \in Names \X Names \X Names : y[1] # y[2] /\ y[1] # y[3] /\ y[2] # y[3]}}
    [] c = "const1" -> {Gen("const", <<s>>) : s \in CSpecs1}
    [] c = "const2" -> {Gen("const", <<x[1], x[2]>>) : x \in {y \in CSmall \X CSmall : Disjoint(y[1], y[2])}}
    [] c = "iota"  -> {Gen("const", <<Iota(x[1]), Iota(x[2])>>) : x \in Pairs2}
                      \cup {Gen("const", <<Iota(x[1]), Iota(x[2]), Iota(x[3])>>)
                            : x \in {y \in Names \X Names \X Names : y[1] # y[2] /\ y[1] # y[3] /\ y[2] # y[3]}}

\* overlay variants of a declaration: directives on the declaration or on a non-empty set of its specs
\* (not inside an iota group: purging one spec of an implicit-repetition group is the overlay author's
\* own renumbering, the documentation does not say what it means)
IsIota(dc) == dc.specs # <<>> /\ dc.specs[1].f = "iota"
Variants(dc) ==
  IF IsFn(dc)
  THEN {[dc EXCEPT !.d = d, !.u = (IF d = "sig" THEN "" ELSE dc.u)]     \* an override-signature marker has no body
        : d \in (IF dc.n = "init" /\ dc.k = "func" THEN {""} ELSE IF dc.k = "lnk" THEN {"", "purge"} ELSE {"", "keep", "purge", "sig"})}
  ELSE {dc, [dc EXCEPT !.d = "purge"]}
       \cup (IF IsIota(dc) THEN {} ELSE
             {[dc EXCEPT !.specs = [j \in DOMAIN dc.specs |-> IF j \in S THEN [dc.specs[j] EXCEPT !.d = "purge"] ELSE dc.specs[j]]]
              : S \in (SUBSET DOMAIN dc.specs) \ {{}}})

OA == [c \in Range(ClassNames) |-> SetToSeq(OClass(c))]

(***************************************************************************)
(* sample mode                                                             *)
(***************************************************************************)
ClassOf(x) == ClassNames[(x % Len(ClassNames)) + 1]
\* give function declaration dc the signature use su where that is well-formed
WithSu(dc, su) ==
  IF ~IsFn(dc) \/ (dc.n = "init" /\ dc.k = "func") \/ su \notin SigUses THEN dc
  ELSE IF dc.k = "lnk" /\ su \notin {"", "pl", "us"} THEN dc
  ELSE IF su = "plc" /\ ~dc.g THEN [dc EXCEPT !.su = "pl"]
  ELSE [dc EXCEPT !.su = su]
ODecl0(t) == LET a == OA[ClassOf(t[1])] IN a[(t[2] % Len(a)) + 1]
ODecl(t) == WithSu(ODecl0(t), t[3])
VDecl(t) == LET vs == SetToSeq(Variants(ODecl0(t))) IN WithSu(vs[(t[3] % Len(vs)) + 1], t[4])
SamplePair(d) ==
  [o |-> [bl |-> d.ob, decls |-> [i \in DOMAIN d.o |-> ODecl(d.o[i])]],
   v |-> [bl |-> d.vb, decls |-> [i \in DOMAIN d.v |-> VDecl(d.v[i])]],
   ip |-> d.ip]
\* a chunk file is a sequence of batches, a batch a sequence of descriptors
Chunk(u) == JsonDeserialize("c12_chunk_" \o ToString(u) \o ".json")

(***************************************************************************)
(* full mode                                                               *)
(***************************************************************************)
ODecls == UNION {OClass(c) : c \in Classes}
VDecls == UNION {Variants(dc) : dc \in ODecls}
SidesOver(D, maxd, ovl) ==
  {s \in {[bl |-> b, decls |-> ds] : b \in Bls, ds \in UNION {[1..n -> D] : n \in 0..maxd}} : WfSide(s, ovl)}
OSeq == IF Mode = "full" THEN SetToSeq(SidesOver(ODecls, MaxO, FALSE)) ELSE <<>>
VSeq == IF Mode = "full" THEN SetToSeq(SidesOver(VDecls, MaxV, TRUE)) ELSE <<>>
IpSeq == SetToSeq(Ips)
Batch == 64

(***************************************************************************)
(* Enumeration.  A unit is an original side (full) / a chunk file          *)
(* (sample); a row is a batch of pair references of that unit: indices     *)
(* into VSeq x IpSeq (full), pair descriptors (sample).  All rows of a     *)
(* unit are successors of one state and are written to the unit's file.    *)
(***************************************************************************)
VARIABLES unit, row
vars == <<unit, row>>
NFull == Len(VSeq) * Len(IpSeq)
Init == /\ unit \in (IF Mode = "full" THEN 1..Len(OSeq) ELSE 1..NChunks)
        /\ row = <<>>
Next == /\ row = <<>>
        /\ (IF Mode = "full"
            THEN \E k \in 0..((NFull - 1) \div Batch) :
                   row' = [x \in 1..(IF (k + 1) * Batch <= NFull THEN Batch ELSE NFull - k * Batch) |-> k * Batch + x]
            ELSE \E b \in Range(Chunk(unit)) : row' = b)
        /\ row' # <<>>
        /\ UNCHANGED unit
Spec == Init /\ [][Next]_vars

PairOf(u, ref) ==
  IF Mode = "full"
  THEN [o |-> OSeq[u], v |-> VSeq[((ref - 1) \div Len(IpSeq)) + 1], ip |-> IpSeq[((ref - 1) % Len(IpSeq)) + 1]]
  ELSE SamplePair(ref)
Valid(pr) == Mode = "full" \/ (WfSide(pr.o, FALSE) /\ WfSide(pr.v, TRUE))
UnitFile(u) == OutFile \o "." \o ToString(u) \o ".ndjson"
Rec(pr) ==
  IF Valid(pr)
  THEN [ok |-> TRUE, o |-> pr.o, v |-> pr.v, ip |-> pr.ip, m |-> Merged(pr.o, pr.v, pr.ip),
        tc |-> TypeChecks(pr.o, pr.v), alone |-> OrigAlone(pr.o), open |-> SigImportsOpen(pr.o, Ov(pr.v))]
  ELSE [ok |-> FALSE, o |-> pr.o, v |-> pr.v, ip |-> pr.ip, m |-> {}, tc |-> FALSE, alone |-> FALSE, open |-> FALSE]

\* "invariants": Thm checks the reference on every pair of the batch, Emit writes the batch (side effect)
Thm  == \A i \in DOMAIN row : LET pr == PairOf(unit, row[i]) IN Valid(pr) => Theorems(pr.o, pr.v, pr.ip)
Emit == row # <<>> => CSVWrite("%1$s", <<ToJson([i \in DOMAIN row |-> Rec(PairOf(unit, row[i]))])>>, UnitFile(unit))
=============================================================================
