------------------------------ MODULE BitsScen ------------------------------
(***************************************************************************)
(* Scenario enumeration for C06: every (operator, type, operand shape,     *)
(* operand values) case inside the configured bounds, together with the    *)
(* result Bits.tla defines for it.  Each reachable "row" state writes one  *)
(* line of JSON: a sequence of <<expression, result>> pairs.  The harness  *)
(* renders the expressions as Go, compiles them with the compiler under    *)
(* test and compares what the program prints with `result`.                *)
(*                                                                         *)
(* Params (c06_params.json, written by the harness):                       *)
(*   rand:  [w8|w16|w32|w64 -> sequence of limb tuples]  seeded operands   *)
(*   classes: set of scenario classes to enumerate                         *)
(*   types: integer types to cover                                          *)
(*   nest1, nest2: operator sets for nested expressions                    *)
(*   out: output file                                                       *)
(***************************************************************************)
EXTENDS Bits, FiniteSets, Json, CSV, SequencesExt

Params == JsonDeserialize("c06_params.json")
OutFile == Params.out

Types   == Range(Params.types)
Classes == Range(Params.classes)
Nest1   == Range(Params.nest1)
Nest2   == Range(Params.nest2)

WKey(w) == CASE w = 8 -> "w8" [] w = 16 -> "w16" [] w = 32 -> "w32" [] w = 64 -> "w64"

Pow(k, w) == [i \in 1..w |-> IF i = k + 1 THEN 1 ELSE 0]
Alt(w, ph) == [i \in 1..w |-> (i + ph) % 2]
Small(w) == {FromNat(n, w) : n \in {0, 1, 2, 3, 7, 10, 100}}
BoundaryBits(w) ==
  Small(w) \cup {Neg(FromNat(n, w)) : n \in {1, 2, 3}}
  \cup {Pow(w-1, w), Add(Pow(w-1, w), FromNat(1, w)), Not(Pow(w-1, w)), Sub(Not(Pow(w-1, w)), FromNat(1, w))}
  \cup {Pow(w \div 2, w), Add(Pow(w \div 2, w), FromNat(1, w)), Sub(Pow(w \div 2, w), FromNat(1, w)), Neg(Pow(w \div 2, w))}
  \cup {Alt(w, 0), Alt(w, 1), Pow(w-2, w)}
Boundary(w) == {ToLimbs(v) : v \in BoundaryBits(w)}
Pool(w) == Boundary(w) \cup Range(Params.rand[WKey(w)])
\* literal operands: the extreme values and small ones
LitBits(w) == {FromNat(n, w) : n \in {0, 1, 2, 3, 10}} \cup {Ones(w), Pow(w-1, w), Not(Pow(w-1, w)), Pow(w \div 2, w), Alt(w, 0)}
Lits(w) == {ToLimbs(v) : v \in LitBits(w)}
NestPool(w) == {ToLimbs(v) : v \in {FromNat(0, w), FromNat(3, w), Ones(w), Pow(w-1, w), Not(Pow(w-1, w)), Alt(w, 1)}}

Nat64(n) == ToLimbs(FromNat(n, 64))
CountNats == {0, 1, 3, 4, 7, 8, 9, 15, 16, 17, 31, 32, 33, 63, 64, 65, 255}
Counts(ct) ==
  CASE ct = "u8"  -> {ToLimbs(FromNat(n, 8)) : n \in CountNats}
    [] ct = "u32" -> {ToLimbs(FromNat(n, 32)) : n \in CountNats} \cup {ToLimbs(Pow(31, 32)), ToLimbs(Ones(32))}
    [] ct = "u64" -> {ToLimbs(FromNat(n, 64)) : n \in CountNats} \cup {ToLimbs(Pow(31, 64)), ToLimbs(Pow(32, 64)), ToLimbs(Pow(63, 64)), ToLimbs(Ones(64))}

NoRow == <<-1>>

(* Units: tuples of strings <<class, t, op, x1, x2>> *)
Units ==
  (IF "vv" \in Classes THEN {<<"vv", t, op, "", "">> : t \in Types, op \in ArithOps \cup CmpOps} ELSE {})
  \cup (IF "vl" \in Classes THEN {<<"vl", t, op, "", "">> : t \in Types, op \in ArithOps \cup CmpOps} ELSE {})
  \cup (IF "lv" \in Classes THEN {<<"lv", t, op, "", "">> : t \in Types, op \in ArithOps \cup CmpOps} ELSE {})
  \cup (IF "shift" \in Classes THEN {<<"shift", t, d, ct, sh>> : t \in Types, d \in {"shl", "shr"}, ct \in {"u8", "u32", "u64"}, sh \in {"vv", "vl", "lv"}} ELSE {})
  \cup (IF "unary" \in Classes THEN {<<"unary", t, op, "", "">> : t \in Types, op \in {"neg", "com", "negneg", "negcom", "comneg"}} ELSE {})
  \cup (IF "conv" \in Classes THEN {<<"conv", t, "", t2, "">> : t \in Types, t2 \in Types} ELSE {})
  \cup (IF "convbin" \in Classes THEN {<<"convbin", t, op, t2, "">> : t \in Types, t2 \in Types, op \in {"add", "sub", "mul"}} ELSE {})
  \cup (IF "nest" \in Classes THEN {<<"nest", t, op1, op2, f>> : t \in Types, op1 \in Nest1, op2 \in Nest2, f \in {"l", "r"}} ELSE {})

Rows(u) ==
  LET w == W(u[2]) IN
  CASE u[1] = "vv" -> Pool(w)
    [] u[1] \in {"vl", "lv"} -> Lits(w)
    [] u[1] = "shift" -> Counts(u[4])
    [] u[1] \in {"unary", "conv", "convbin"} -> {<<0>>}
    [] u[1] = "nest" -> NestPool(w)

BinKind(op) == IF op \in CmpOps THEN "cmp" ELSE "bin"
V(t, l) == <<"var", t, l>>
L(t, l) == <<"lit", t, l>>
IsZeroL(l) == \A i \in DOMAIN l : l[i] = 0

\* the expressions of one row
Exprs(u, r) ==
  LET t == u[2] w == W(t) IN
  CASE u[1] = "vv" -> {<<BinKind(u[3]), u[3], V(t, r), V(t, b)>> : b \in Pool(w)}
    [] u[1] = "vl" -> IF u[3] \in {"quo", "rem"} /\ IsZeroL(r) THEN {}    \* constant division by zero does not compile
                      ELSE {<<BinKind(u[3]), u[3], V(t, a), L(t, r)>> : a \in Pool(w)}
    [] u[1] = "lv" -> {<<BinKind(u[3]), u[3], L(t, r), V(t, b)>> : b \in Pool(w)}
    [] u[1] = "shift" ->
         (CASE u[5] = "vv" -> {<<u[3], V(t, a), V(u[4], r)>> : a \in Pool(w)}
            [] u[5] = "vl" -> {<<u[3], V(t, a), L(u[4], r)>> : a \in Pool(w)}
            [] u[5] = "lv" -> {<<u[3], L(t, a), V(u[4], r)>> : a \in Lits(w)})
    [] u[1] = "unary" ->
         (CASE u[3] = "neg" -> {<<"neg", V(t, a)>> : a \in Pool(w)}
            [] u[3] = "com" -> {<<"com", V(t, a)>> : a \in Pool(w)}
            [] u[3] = "negneg" -> {<<"neg", <<"neg", V(t, a)>>>> : a \in Pool(w)}
            [] u[3] = "negcom" -> {<<"neg", <<"com", V(t, a)>>>> : a \in Pool(w)}
            [] u[3] = "comneg" -> {<<"com", <<"neg", V(t, a)>>>> : a \in Pool(w)})
    [] u[1] = "conv" -> IF u[2] = u[4] THEN {} ELSE {<<"conv", u[4], V(t, a)>> : a \in Pool(w)}
    [] u[1] = "convbin" -> IF u[2] = u[4] THEN {} ELSE
                           {<<"conv", u[4], <<"bin", u[3], V(t, a), V(t, b)>>>> : a \in Lits(w), b \in Lits(w)}
    [] u[1] = "nest" ->
         IF u[5] = "l" THEN {<<"bin", u[4], <<"bin", u[3], V(t, r), V(t, b)>>, V(t, c)>> : b \in NestPool(w), c \in NestPool(w)}
         ELSE {<<"bin", u[4], V(t, r), <<"bin", u[3], V(t, b), V(t, c)>>>> : b \in NestPool(w), c \in NestPool(w)}

Recs(u, r) == LET es == SetToSeq(Exprs(u, r)) IN [i \in 1..Len(es) |-> <<es[i], Result(es[i])>>]

VARIABLES unit, row
vars == <<unit, row>>

Init == unit \in Units /\ row = NoRow
Next == row = NoRow /\ row' \in Rows(unit) /\ UNCHANGED unit
Spec == Init /\ [][Next]_vars

\* "invariant" used for its side effect: one JSON line per row state
\* All rows of a unit are successors of one state, hence written by one worker:
\* a file per unit needs no synchronisation (concurrent appends of long lines to
\* a single file were observed to interleave).
UnitFile(u) == OutFile \o "." \o u[1] \o "_" \o u[2] \o "_" \o u[3] \o "_" \o u[4] \o "_" \o u[5] \o ".ndjson"
Emit == row # NoRow => (Exprs(unit, row) = {} \/ CSVWrite("%1$s", <<ToJson(Recs(unit, row))>>, UnitFile(unit)))
=============================================================================
