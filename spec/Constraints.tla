----------------------------- MODULE Constraints -----------------------------
(***************************************************************************)
(* Reference semantics for C18: which source files of a package directory  *)
(* take part in a GopherJS build.                                          *)
(*                                                                         *)
(* The module states, as plain definitions,                                *)
(*   - //go:build expressions as trees and their truth value Eval(e, T)    *)
(*     under a set T of satisfied tags;                                    *)
(*   - the tag environment GopherJS documents: user packages are selected  *)
(*     with GOOS=js GOARCH=ecmascript (or the GOOS/GOARCH of the process   *)
(*     environment when set), compiler gc, the always-on tags gopherjs,    *)
(*     netgo, purego, math_big_pure_go, the release tags go1.1 .. go1.20   *)
(*     and the -tags of the command line; cgo is never satisfied (unless   *)
(*     it is itself given as a -tags word); standard-library packages are  *)
(*     selected with GOOS=js GOARCH=wasm whatever the environment says;    *)
(*   - Go's file-name rule (x_GOOS, x_GOARCH, x_GOOS_GOARCH, x_test; files *)
(*     that start with "_" or "." are not part of the package);            *)
(*   - files that import "C" are never used;                               *)
(*   - *.inc.js files of the directory are always included, whatever their *)
(*     name suffixes or leading comments say (only "_"/"." files are       *)
(*     skipped);                                                           *)
(*   - ListOf(f, T): the list of the loaded package in which a file must   *)
(*     appear (GoFiles, TestGoFiles, IgnoredGoFiles, JSFiles, none).       *)
(*                                                                         *)
(* ConstraintsScen.tla enumerates expressions x file-name forms x tag sets *)
(* with this module and writes the predictions; harness/props/c18 renders  *)
(* them as real package directories, loads them with the real              *)
(* build.NewBuildContext(..).Import of /repo and compares the lists.       *)
(* ConstraintsReal.tla evaluates the same definitions on the file names    *)
(* and constraints of real standard-library directories.                   *)
(***************************************************************************)
EXTENDS Integers, Sequences, FiniteSets, TLC

----------------------------------------------------------------------------
(* Expressions.  A tree is a tuple whose first element is its kind.        *)
Tag(t)    == <<"tag", t>>
Not(x)    == <<"not", x>>
And(a, b) == <<"and", a, b>>
Or(a, b)  == <<"or", a, b>>
NoExpr    == <<"true">>          \* a file without a //go:build line

RECURSIVE Eval(_, _)
Eval(e, T) ==
  CASE e[1] = "tag"  -> e[2] \in T
    [] e[1] = "not"  -> ~Eval(e[2], T)
    [] e[1] = "and"  -> Eval(e[2], T) /\ Eval(e[3], T)
    [] e[1] = "or"   -> Eval(e[2], T) \/ Eval(e[3], T)
    [] e[1] = "true" -> TRUE

RECURSIVE TagsOf(_)
TagsOf(e) ==
  CASE e[1] = "tag"  -> {e[2]}
    [] e[1] = "not"  -> TagsOf(e[2])
    [] e[1] \in {"and", "or"} -> TagsOf(e[2]) \cup TagsOf(e[3])
    [] e[1] = "true" -> {}

RECURSIVE Depth(_)
Depth(e) ==
  CASE e[1] \in {"tag", "true"} -> 0
    [] e[1] = "not" -> 1 + Depth(e[2])
    [] e[1] \in {"and", "or"} -> 1 + (IF Depth(e[2]) > Depth(e[3]) THEN Depth(e[2]) ELSE Depth(e[3]))

(* Concrete syntax.  flip = TRUE writes the operands of && and || in the    *)
(* opposite order (the scenario module enumerates unordered operand pairs  *)
(* and checks that the order does not matter); min = TRUE omits the         *)
(* parentheses that the precedence ! > && > || makes redundant.            *)
RECURSIVE ShowIn(_, _, _, _)
ShowIn(e, ctx, flip, min) ==
  LET bin(op, me) ==
        LET l == ShowIn(IF flip THEN e[3] ELSE e[2], me, flip, min)
            r == ShowIn(IF flip THEN e[2] ELSE e[3], me, flip, min)
            s == l \o " " \o op \o " " \o r
            paren == IF min THEN (me = "or" /\ ctx \in {"and", "not"}) \/ (me = "and" /\ ctx = "not")
                            ELSE ctx # "top"
        IN IF paren THEN "(" \o s \o ")" ELSE s
  IN CASE e[1] = "tag" -> e[2]
       [] e[1] = "not" -> "!" \o ShowIn(e[2], "not", flip, min)
       [] e[1] = "and" -> bin("&&", "and")
       [] e[1] = "or"  -> bin("||", "or")
Show(e, flip, min) == ShowIn(e, "top", flip, min)

----------------------------------------------------------------------------
(* Tag environment.                                                        *)
SupportedGoMinor == 20            \* compiler.GoVersion of the pinned tree
GoTag(i) == "go1." \o ToString(i)
ReleaseTags == {GoTag(i) : i \in 1..SupportedGoMinor}
AlwaysOn == {"gopherjs", "netgo", "purego", "math_big_pure_go"}
Compiler == "gc"

\* go/build: operating systems for which the tag "unix" is satisfied, and the
\* operating systems that imply another one.
UnixOS == {"aix", "android", "darwin", "dragonfly", "freebsd", "hurd", "illumos", "ios",
           "linux", "netbsd", "openbsd", "solaris"}
Implied(goos) ==
  (IF goos \in UnixOS THEN {"unix"} ELSE {})
  \cup (IF goos = "android" THEN {"linux"} ELSE {})
  \cup (IF goos = "illumos" THEN {"solaris"} ELSE {})
  \cup (IF goos = "ios" THEN {"darwin"} ELSE {})

EnvTags(goos, goarch, user) ==
  {goos, goarch, Compiler} \cup Implied(goos) \cup AlwaysOn \cup ReleaseTags \cup user

\* env = [goos, goarch]: what the process environment asks for; the default is
\* js/ecmascript.  Standard-library packages ignore it.
DefaultEnv == [goos |-> "js", goarch |-> "ecmascript"]
UserPkgTags(env, user) == EnvTags(env.goos, env.goarch, user)
StdPkgTags(env, user)  == EnvTags("js", "wasm", user)
PkgTags(std, env, user) == IF std THEN StdPkgTags(env, user) ELSE UserPkgTags(env, user)

----------------------------------------------------------------------------
(* File names.  A file is a record                                          *)
(*   kind  "go" | "incjs"                                                   *)
(*   pre   "" | "_" | "."      leading character that hides the file        *)
(*   parts the name without extension split at "_" (first part: the stem)   *)
(*   expr  its //go:build expression (NoExpr when absent)                   *)
(*   cgo   whether it imports "C"                                           *)
KnownOS == {"aix", "android", "darwin", "dragonfly", "freebsd", "hurd", "illumos", "ios", "js",
            "linux", "nacl", "netbsd", "openbsd", "plan9", "solaris", "wasip1", "windows", "zos"}
KnownArch == {"386", "amd64", "amd64p32", "arm", "armbe", "arm64", "arm64be", "loong64", "mips",
              "mipsle", "mips64", "mips64le", "mips64p32", "mips64p32le", "ppc", "ppc64", "ppc64le",
              "riscv", "riscv64", "s390", "s390x", "sparc", "sparc64", "wasm"}
\* "ecmascript" is not an architecture the go command knows: a suffix
\* _ecmascript is an ordinary part of the name and constrains nothing.

RECURSIVE JoinParts(_)
JoinParts(p) == IF Len(p) = 1 THEN p[1] ELSE p[1] \o "_" \o JoinParts(Tail(p))
Ext(f) == IF f.kind = "go" THEN ".go" ELSE ".inc.js"
FileName(f) == f.pre \o JoinParts(f.parts) \o Ext(f)

Hidden(f) == f.pre \in {"_", "."}
IsTest(f) == f.kind = "go" /\ Len(f.parts) >= 2 /\ f.parts[Len(f.parts)] = "test"

\* the go command's rule: only what follows the first "_" counts, a final
\* "test" is dropped, then either the last two parts are GOOS_GOARCH or the
\* last part is a GOOS or a GOARCH; everything else constrains nothing.
\* NameReq(parts) is the set of tags the name requires.
KnownOSArch == KnownOS \cup KnownArch
NameReq(parts) ==
  LET l0 == Tail(parts)
      l  == IF Len(l0) >= 1 /\ l0[Len(l0)] = "test" THEN SubSeq(l0, 1, Len(l0) - 1) ELSE l0
      n  == Len(l)
  IN IF n >= 2 /\ l[n-1] \in KnownOS /\ l[n] \in KnownArch THEN {l[n-1], l[n]}
     ELSE IF n >= 1 /\ l[n] \in KnownOSArch THEN {l[n]}
     ELSE {}
NameOK(parts, T) == NameReq(parts) \subseteq T

\* tags a file mentions (for the independence property)
Mentions(f) == IF f.kind = "incjs" THEN {} ELSE NameReq(f.parts) \cup TagsOf(f.expr)

\* Selected(f, T): the file takes part in a build whose satisfied tags are T.
\* SelectedBy takes the truth value v of the file's expression and the tags
\* req its name requires as arguments (the scenario module computes them once
\* per file and checks that both definitions agree).
SelectedBy(f, T, v, req) ==
  /\ ~Hidden(f)
  /\ (f.kind = "go") => (req \subseteq T /\ v /\ ~f.cgo)
Selected(f, T) ==
  /\ ~Hidden(f)
  /\ (f.kind = "go") => (NameOK(f.parts, T) /\ Eval(f.expr, T) /\ ~f.cgo)

\* The list of the loaded package the file is reported in.
ListWhen(f, sel) ==
  IF Hidden(f) THEN "none"
  ELSE IF f.kind = "incjs" THEN "JSFiles"
  ELSE IF ~sel THEN "IgnoredGoFiles"
  ELSE IF IsTest(f) THEN "TestGoFiles"
  ELSE "GoFiles"
ListOf(f, T) == ListWhen(f, Selected(f, T))

\* A directory can be loaded iff some Go file (test files included) is selected.
Loadable(files, T) == \E f \in files : ListOf(f, T) \in {"GoFiles", "TestGoFiles"}
=============================================================================
