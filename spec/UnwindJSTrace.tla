--------------------------- MODULE UnwindJSTrace ---------------------------
(***************************************************************************)
(* Trace validation for the implementation-shaped model UnwindJS.tla       *)
(* (code -> model): event sequences recorded from the REAL $callDeferred,  *)
(* $panic and $recover of the emitted program (js/unwind_trace.js, inserted *)
(* with gjs.Opts.Inject) together with the program's own println lines     *)
(* must be behaviours of the machine.                                       *)
(*                                                                         *)
(* c08_impl_trace.ndjson holds many executions; every line carries all     *)
(* fields:                                                                 *)
(*   e    reset | cd.in | cd.out | panic.in | panic.out | recover.in |     *)
(*        recover.out | print | end                                        *)
(*   ps, ds, pn, off   panicStack.length, deferStack.length,               *)
(*        $panicStackDepth === null, $stackDepthOffset at that moment      *)
(*   x    cd.in: fromPanic, cd.out: left by an exception, recover.out: a   *)
(*        value was returned; reset: program index; end: panic value        *)
(*   t    print: the printed tuple; reset: <<V, Y>>; end: <<kind>>          *)
(* A step of the machine that emits events (variable ev) must find exactly *)
(* these events next in the trace; all other steps are silent.  Acceptance *)
(* is reported by the violation of NotAccepted; register 1 holds the       *)
(* high-water mark (number of consumed lines) so that a rejected batch     *)
(* names its first unexplained line.  Run with -workers 1 and the          *)
(* depth-first state queue.                                                 *)
(***************************************************************************)
EXTENDS UnwindJS

Trace == ndJsonDeserialize("c08_impl_trace.ndjson")
VARIABLE l
tvars == <<vars, l>>

HasEv == l <= Len(Trace)

\* does the recorded line tr explain the model event m ?
Explains(tr, m) ==
  IF m.e = "print" THEN tr.e = "print" /\ tr.t = m.t
  ELSE tr.e = m.e /\ tr.ps = m.ps /\ tr.ds = m.ds /\ tr.pn = m.pn /\ tr.off = m.off /\ tr.x = m.x

TInit ==
  /\ TLCSet(1, 0)
  /\ l = 1
  /\ pid = 1 /\ fam = Progs[1].P /\ V = 0 /\ Y = 0
  /\ stack = <<>> /\ exc = NoExc /\ retv = RUndef
  /\ dl = <<>> /\ dstack = <<>> /\ pstack = <<>>
  /\ psd = NullD /\ pval = 0 /\ off = 0
  /\ asleep = FALSE /\ exitf = FALSE
  /\ gsusp = <<>> /\ run = 0 /\ ended = "idle" /\ endval = 0
  /\ obs = <<>> /\ ev = <<>> /\ dev = {} /\ mode = "" /\ ran = {} /\ dup = FALSE /\ nid = 1 /\ gxAt = 0

\* the next execution starts: a fresh process (all run-time state initial)
TReset ==
  /\ HasEv /\ Trace[l].e = "reset" /\ ended = "idle"
  /\ pid' = Trace[l].x /\ fam' = Progs[Trace[l].x].P /\ V' = Trace[l].t[1] /\ Y' = Trace[l].t[2]
  /\ stack' = << [F0 EXCEPT !.k = "goroutine"] >>
  /\ exc' = NoExc /\ retv' = RUndef
  /\ dl' = <<>> /\ dstack' = <<>> /\ pstack' = <<>>
  /\ psd' = NullD /\ pval' = 0 /\ off' = 0
  /\ asleep' = FALSE /\ exitf' = FALSE
  /\ gsusp' = <<>> /\ run' = 0 /\ ended' = "" /\ endval' = 0
  /\ obs' = <<>> /\ ev' = <<>> /\ dev' = {} /\ mode' = "" /\ ran' = {} /\ dup' = FALSE /\ nid' = 1 /\ gxAt' = 0
  /\ l' = l + 1

\* a step of the machine; the events it emits are the next lines of the trace
TStep ==
  /\ Next
  /\ l + Len(ev') - 1 <= Len(Trace)
  /\ \A k \in 1..Len(ev') : Explains(Trace[l + k - 1], ev'[k])
  /\ l' = l + Len(ev')

\* how the process ended
TEnd ==
  /\ HasEv /\ Trace[l].e = "end" /\ ended \in {"exit", "panic", "deadlock", "jserror"}
  /\ Trace[l].t[1] = ended /\ (ended = "panic" => (Trace[l].x = endval \/ Trace[l].x = -1))
  /\ ended' = "idle" /\ l' = l + 1
  /\ UNCHANGED <<pid, V, Y, fam, stack, exc, retv, dl, dstack, pstack, psd, pval, off, asleep, exitf,
                 gsusp, run, endval, obs, ev, dev, mode, ran, dup, nid, gxAt>>

TNext == TReset \/ TStep \/ TEnd
TSpec == TInit /\ [][TNext]_tvars

NotAccepted == l <= Len(Trace)
HW == IF l - 1 > TLCGet(1) THEN TLCSet(1, l - 1) ELSE TRUE
HWReport == PrintT(<<"HIGHWATER", TLCGet(1)>>)

=============================================================================
