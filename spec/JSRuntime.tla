------------------------------ MODULE JSRuntime ------------------------------
(***************************************************************************)
(* Implementation-shaped model of compiler/prelude/goroutines.js (C03):    *)
(* the scheduler ($go, $schedule, $runScheduled, $block, the $goroutine    *)
(* wrapper with its deadlock check, $setTimeout) and the channel           *)
(* operations ($send, $recv, $close, $select with queue entries and        *)
(* removeFromQueues), one action per branch of the JavaScript.             *)
(*                                                                         *)
(* Goroutines run the straight-line programs of GoChanProg.tla (taken from *)
(* c03_impl_params.json).  The three sources of nondeterminism of the run  *)
(* time are explicit: the pick among ready select cases (SelectReady), the *)
(* time-slice break of $runScheduled (LoopBreak) and the order in which    *)
(* pending timers fire (FireTimer).  TLC explores all of them.             *)
(*                                                                         *)
(* Checked on this model: the invariants below (queue discipline,          *)
(* goroutine accounting, no lost wake-up, no silent exit, exactness of the *)
(* deadlock report), and -- through the history variable `hist`, which is  *)
(* the program-level invocation/response trace in the format of           *)
(* GoChanTrace.tla -- refinement of GoChan.tla by trace inclusion: every   *)
(* complete history is written out and validated by GoChanTrace.  The      *)
(* harness also requires every trace recorded from the REAL run time for   *)
(* the same program to be one of this model's histories (otherwise         *)
(* MODEL-DRIFT).                                                            *)
(***************************************************************************)
EXTENDS Integers, Sequences, FiniteSets, TLC, GoChanDefs, Json, CSV

CONSTANTS NG, NC
G == 1..NG
Chans == 1..NC

Params == JsonDeserialize("c03_impl_params.json")
Progs == Params.progs        \* sequence of [caps |-> <<..>>, prog |-> <<..>>, id |-> n]
OutFile == Params.out

VARIABLES
  pid,        \* index of the program being run
  pc,         \* pc[g]
  gst,        \* "off" | "live" | "done"
  asleep, exitf,            \* the goroutine object's flags
  scheduled,                \* $scheduled
  cur,                      \* $curGoroutine, 0 = $noGoroutine
  mode,                     \* "idle": event loop; "loop": inside $runScheduled between goroutines; "run": cur is executing
  ranOne,                   \* the current $runScheduled invocation has run at least one goroutine
  awake, total, mainFinished,
  cbuf, cclosed, sendQ, recvQ,   \* queue entries <<g, kind, idx, val>>, kind \in {"plain", "sel"}
  wake,                     \* wake[g]: result delivered to a blocked goroutine (NoRes: none)
  waitTimer,                \* waitTimer[g]: blocked in Gosched's private channel
  timers, tid, nr,          \* pending timers [id, kind, g]; id counter; timer id of the active $runScheduled
  reported,                 \* "fatal error: all goroutines are asleep - deadlock!" printed
  hist                      \* program-level trace

vars == <<pid, pc, gst, asleep, exitf, scheduled, cur, mode, ranOne, awake, total, mainFinished,
          cbuf, cclosed, sendQ, recvQ, wake, waitTimer, timers, tid, nr, reported, hist>>

Prog(g) == IF g <= Len(Progs[pid].prog) THEN Progs[pid].prog[g] ELSE <<>>
Cap(c) == Progs[pid].caps[c]

\* ---- history events (all fields always present, as in trace.ndjson) ----
Ev0 == [e |-> "", g |-> 0, h |-> 0, k |-> "", c |-> 0, v |-> 0, offers |-> <<>>, d |-> FALSE,
        t |-> "", i |-> 0, ok |-> FALSE, caps |-> <<>>, kind |-> ""]
InvEv(g, o) == [Ev0 EXCEPT !.e = "inv", !.g = g, !.k = o.k, !.c = o.c, !.v = o.v, !.offers = o.offers, !.d = o.dflt]
RespEv(g, r) == [Ev0 EXCEPT !.e = "resp", !.g = g, !.t = r.t, !.i = r.i, !.v = r.v, !.ok = r.ok]
GoEv(g, h) == [Ev0 EXCEPT !.e = "go", !.g = g, !.h = h]
ExitEv(g) == [Ev0 EXCEPT !.e = "exit", !.g = g]
EndEv(kind) == [Ev0 EXCEPT !.e = "end", !.kind = kind]

SelRes(i, v, b) == [t |-> "sel", i |-> i, v |-> v, ok |-> b]

Init ==
  /\ pid \in 1..Len(Progs)
  /\ pc = [g \in G |-> 1]
  /\ gst = [g \in G |-> IF g = 1 THEN "live" ELSE "off"]
  /\ asleep = [g \in G |-> FALSE] /\ exitf = [g \in G |-> FALSE]
  \* `$go($mainPkg.$init, [])` at the end of the emitted file: main is scheduled and,
  \* there being no current goroutine, $runScheduled starts synchronously
  /\ scheduled = <<1>> /\ cur = 0 /\ mode = "loop" /\ ranOne = FALSE
  /\ awake = 1 /\ total = 1 /\ mainFinished = FALSE
  /\ cbuf = [c \in Chans |-> <<>>] /\ cclosed = [c \in Chans |-> FALSE]
  /\ sendQ = [c \in Chans |-> <<>>] /\ recvQ = [c \in Chans |-> <<>>]
  /\ wake = [g \in G |-> NoRes] /\ waitTimer = [g \in G |-> FALSE]
  /\ timers = {[id |-> 1, kind |-> "sched", g |-> 0]} /\ tid = 1 /\ nr = 1
  /\ reported = FALSE
  /\ hist = <<>>

Ended == mainFinished \/ reported

\* ---- helpers on queues ----
RemoveG(q, g) == SelectSeq(q, LAMBDA e : e[1] # g)
\* removeFromQueues(): drop every entry of goroutine g from every queue
Purge(qs, g) == [c \in Chans |-> RemoveG(qs[c], g)]

\* $schedule(g) while some goroutine is running (cur # 0): wake and enqueue
\* returns the updated <<asleep, awake, scheduled>>
SchedUpd(as, aw, sc, g) == <<[as EXCEPT ![g] = FALSE], IF as[g] THEN aw + 1 ELSE aw, Append(sc, g)>>

\* ---- the $goroutine wrapper's finally block after fun() returned ----
\* g blocked (asleep set by $block) or finished (exit): awake--, deadlock check
AfterReturn(aw, mf) ==
  /\ cur' = 0 /\ mode' = "loop" /\ ranOne' = TRUE
  /\ awake' = aw - 1
  /\ reported' = (~mf /\ aw - 1 = 0)

(***************************************************************************)
(* Event loop and scheduler                                                *)
(***************************************************************************)
\* $runScheduled called by its timer
FireSched(t) ==
  /\ ~Ended /\ mode = "idle" /\ t \in timers /\ t.kind = "sched"
  /\ timers' = (timers \ {t}) \cup {[id |-> tid + 1, kind |-> "sched", g |-> 0]}
  /\ tid' = tid + 1 /\ nr' = tid + 1
  /\ mode' = "loop" /\ ranOne' = FALSE
  /\ UNCHANGED <<pid, pc, gst, asleep, exitf, scheduled, cur, awake, total, mainFinished, cbuf, cclosed, sendQ, recvQ, wake, waitTimer, reported, hist>>

\* the timer of runtime.Gosched(): $setTimeout's wrapper decrements $awakeGoroutines, the callback
\* closes the private channel, whose queued receiver is woken: $schedule(g) with no current
\* goroutine runs $runScheduled synchronously
FireGosched(t) ==
  /\ ~Ended /\ mode = "idle" /\ t \in timers /\ t.kind = "gosched"
  /\ timers' = (timers \ {t}) \cup {[id |-> tid + 1, kind |-> "sched", g |-> 0]}
  /\ tid' = tid + 1 /\ nr' = tid + 1
  /\ waitTimer' = [waitTimer EXCEPT ![t.g] = FALSE]
  /\ wake' = [wake EXCEPT ![t.g] = Ok]
  /\ asleep' = [asleep EXCEPT ![t.g] = FALSE]
  /\ awake' = (awake - 1) + 1
  /\ scheduled' = Append(scheduled, t.g)
  /\ mode' = "loop" /\ ranOne' = FALSE
  /\ UNCHANGED <<pid, pc, gst, exitf, cur, total, mainFinished, cbuf, cclosed, sendQ, recvQ, reported, hist>>

\* while ((r = $scheduled.shift()) !== undefined) r()
LoopNext ==
  /\ ~Ended /\ mode = "loop" /\ scheduled # <<>>
  /\ cur' = Head(scheduled) /\ scheduled' = Tail(scheduled) /\ mode' = "run"
  /\ UNCHANGED <<pid, pc, gst, asleep, exitf, ranOne, awake, total, mainFinished, cbuf, cclosed, sendQ, recvQ, wake, waitTimer, timers, tid, nr, reported, hist>>

\* loop exhausted: finally { if ($scheduled.length == 0) clearTimeout(nextRun) }
LoopEnd ==
  /\ ~Ended /\ mode = "loop" /\ scheduled = <<>>
  /\ timers' = {t \in timers : t.id # nr}
  /\ mode' = "idle"
  /\ UNCHANGED <<pid, pc, gst, asleep, exitf, scheduled, cur, ranOne, awake, total, mainFinished, cbuf, cclosed, sendQ, recvQ, wake, waitTimer, tid, nr, reported, hist>>

\* time-slice break (elapsed > 4 ms) with goroutines still scheduled: the timer stays
LoopBreak ==
  /\ ~Ended /\ mode = "loop" /\ ranOne /\ scheduled # <<>>
  /\ mode' = "idle"
  /\ UNCHANGED <<pid, pc, gst, asleep, exitf, scheduled, cur, ranOne, awake, total, mainFinished, cbuf, cclosed, sendQ, recvQ, wake, waitTimer, timers, tid, nr, reported, hist>>

(***************************************************************************)
(* The running goroutine                                                   *)
(***************************************************************************)
Running(g) == ~Ended /\ mode = "run" /\ cur = g
AtEnd(g) == pc[g] > Len(Prog(g))
Ins(g) == Prog(g)[pc[g]]
TheOp(g) == OpOf(g, pc[g], Ins(g))
\* after a response: a range loop stays on its instruction while values arrive
NextPc(g, r) == IF Ins(g)[1] = "range" /\ r.ok THEN pc[g] ELSE pc[g] + 1

\* resumption of a blocked goroutine: $blk returns the delivered value
Resume(g) ==
  /\ Running(g) /\ wake[g] # NoRes
  /\ hist' = Append(hist, RespEv(g, wake[g]))
  /\ pc' = [pc EXCEPT ![g] = NextPc(g, wake[g])]
  /\ wake' = [wake EXCEPT ![g] = NoRes]
  /\ UNCHANGED <<pid, gst, asleep, exitf, scheduled, cur, mode, ranOne, awake, total, mainFinished, cbuf, cclosed, sendQ, recvQ, waitTimer, timers, tid, nr, reported>>

Fresh(g) == Running(g) /\ wake[g] = NoRes /\ ~AtEnd(g)

\* the goroutine's function returns: exit = true; main sets $mainFinished first
Finish(g) ==
  /\ Running(g) /\ wake[g] = NoRes /\ AtEnd(g)
  /\ hist' = Append(hist, ExitEv(g))
  /\ mainFinished' = (mainFinished \/ g = 1)
  /\ exitf' = [exitf EXCEPT ![g] = TRUE]
  /\ asleep' = [asleep EXCEPT ![g] = TRUE]
  /\ gst' = [gst EXCEPT ![g] = "done"]
  /\ total' = total - 1
  /\ AfterReturn(awake, mainFinished')
  /\ UNCHANGED <<pid, pc, scheduled, cbuf, cclosed, sendQ, recvQ, wake, waitTimer, timers, tid, nr>>

\* go h: $go -> $totalGoroutines++, $awakeGoroutines++, $schedule(h) (a goroutine is running: just queued)
Spawn(g) ==
  /\ Fresh(g) /\ Ins(g)[1] = "go"
  /\ LET h == Ins(g)[2] IN
     /\ gst' = [gst EXCEPT ![h] = "live"]
     /\ scheduled' = Append(scheduled, h)
     /\ hist' = Append(hist, GoEv(g, h))
  /\ total' = total + 1 /\ awake' = awake + 1
  /\ pc' = [pc EXCEPT ![g] = @ + 1]
  /\ UNCHANGED <<pid, asleep, exitf, cur, mode, ranOne, mainFinished, cbuf, cclosed, sendQ, recvQ, wake, waitTimer, timers, tid, nr, reported>>

\* an operation that completes at once
Done(g, r, inv) ==
  /\ hist' = (IF inv THEN Append(hist, InvEv(g, TheOp(g))) ELSE hist) \o <<RespEv(g, r)>>
  /\ pc' = [pc EXCEPT ![g] = NextPc(g, r)]

\* $block() and return to the scheduler
Block(g) ==
  /\ hist' = Append(hist, InvEv(g, TheOp(g)))
  /\ asleep' = [asleep EXCEPT ![g] = TRUE]
  /\ AfterReturn(awake, mainFinished)
  /\ UNCHANGED <<pc>>

\* deliver to the receiver entry e (woken through $schedule); returns new <<recvQ, sendQ, wake, asleep, awake, scheduled>>
\* a select entry removes all entries of its goroutine from all queues
DeliverRecv(e, v, b, rq, sq, wk, as, aw, sc) ==
  LET g2 == e[1]
      res == IF e[2] = "sel" THEN SelRes(e[3], v, b) ELSE ValRes(v, b)
      su == SchedUpd(as, aw, sc, g2)
  IN <<IF e[2] = "sel" THEN Purge(rq, g2) ELSE rq, IF e[2] = "sel" THEN Purge(sq, g2) ELSE sq,
       [wk EXCEPT ![g2] = res], su[1], su[2], su[3]>>
\* take the value of sender entry e (closed: the channel is being closed)
WakeSender(e, closed, rq, sq, wk, as, aw, sc) ==
  LET g2 == e[1]
      res == IF closed THEN PanicRes("panic_send_closed")
             ELSE IF e[2] = "sel" THEN SelRes(e[3], 0, TRUE) ELSE Ok
      su == SchedUpd(as, aw, sc, g2)
  IN <<IF e[2] = "sel" THEN Purge(rq, g2) ELSE rq, IF e[2] = "sel" THEN Purge(sq, g2) ELSE sq,
       [wk EXCEPT ![g2] = res], su[1], su[2], su[3]>>

\* ---- $send(chan c, value v) as executed for offer number idx of the current operation ----
\* mk(res): result record for this offer
SendNow(g, c, v, res) ==
  IF cclosed[c] THEN
    /\ Done(g, PanicRes("panic_send_closed"), TRUE)
    /\ UNCHANGED <<cbuf, cclosed, sendQ, recvQ, wake, asleep, awake, scheduled>>
  ELSE IF recvQ[c] # <<>> THEN
    LET e == Head(recvQ[c])
        d == DeliverRecv(e, v, TRUE, [recvQ EXCEPT ![c] = Tail(@)], sendQ, wake, asleep, awake, scheduled)
    IN /\ recvQ' = d[1] /\ sendQ' = d[2] /\ wake' = d[3] /\ asleep' = d[4] /\ awake' = d[5] /\ scheduled' = d[6]
       /\ Done(g, res, TRUE) /\ UNCHANGED <<cbuf, cclosed>>
  ELSE
    /\ cbuf' = [cbuf EXCEPT ![c] = Append(@, v)]
    /\ Done(g, res, TRUE)
    /\ UNCHANGED <<cclosed, sendQ, recvQ, wake, asleep, awake, scheduled>>
CanSendNow(c) == c # 0 /\ (cclosed[c] \/ recvQ[c] # <<>> \/ Len(cbuf[c]) < Cap(c))

\* ---- $recv(chan c) ----
RecvNow(g, c, mk(_, _)) ==
  IF sendQ[c] # <<>> THEN
    \* chan.$buffer.push(queuedSend(false)); value = chan.$buffer.shift()
    LET e == Head(sendQ[c])
        w == WakeSender(e, FALSE, recvQ, [sendQ EXCEPT ![c] = Tail(@)], wake, asleep, awake, scheduled)
        b2 == Append(cbuf[c], e[4])
    IN /\ recvQ' = w[1] /\ sendQ' = w[2] /\ wake' = w[3] /\ asleep' = w[4] /\ awake' = w[5] /\ scheduled' = w[6]
       /\ cbuf' = [cbuf EXCEPT ![c] = Tail(b2)]
       /\ Done(g, mk(Head(b2), TRUE), TRUE) /\ UNCHANGED cclosed
  ELSE IF cbuf[c] # <<>> THEN
    /\ cbuf' = [cbuf EXCEPT ![c] = Tail(@)]
    /\ Done(g, mk(Head(cbuf[c]), TRUE), TRUE)
    /\ UNCHANGED <<cclosed, sendQ, recvQ, wake, asleep, awake, scheduled>>
  ELSE
    /\ Done(g, mk(0, FALSE), TRUE)
    /\ UNCHANGED <<cbuf, cclosed, sendQ, recvQ, wake, asleep, awake, scheduled>>
CanRecvNow(c) == c # 0 /\ (sendQ[c] # <<>> \/ cbuf[c] # <<>> \/ cclosed[c])

Rest1 == <<pid, gst, exitf, cur, mode, ranOne, total, mainFinished, waitTimer, timers, tid, nr, reported>>

Send(g) ==
  /\ Fresh(g) /\ Ins(g)[1] = "send"
  /\ LET c == Ins(g)[2] v == TheOp(g).v IN
     IF CanSendNow(c) THEN SendNow(g, c, v, Ok) /\ UNCHANGED Rest1
     ELSE \* enqueue and block (the nil channel's queues swallow the entry)
       /\ sendQ' = IF c = 0 THEN sendQ ELSE [sendQ EXCEPT ![c] = Append(@, <<g, "plain", 0, v>>)]
       /\ Block(g)
       /\ UNCHANGED <<pid, gst, exitf, total, mainFinished, scheduled, cbuf, cclosed, recvQ, wake, waitTimer, timers, tid, nr>>

Recv(g) ==
  /\ Fresh(g) /\ Ins(g)[1] \in {"recv", "range"}
  /\ LET c == Ins(g)[2] IN
     IF CanRecvNow(c) THEN RecvNow(g, c, ValRes) /\ UNCHANGED Rest1
     ELSE
       /\ recvQ' = IF c = 0 THEN recvQ ELSE [recvQ EXCEPT ![c] = Append(@, <<g, "plain", 0, 0>>)]
       /\ Block(g)
       /\ UNCHANGED <<pid, gst, exitf, total, mainFinished, scheduled, cbuf, cclosed, sendQ, wake, waitTimer, timers, tid, nr>>

\* ---- $close ----
RECURSIVE DrainSend(_, _, _, _, _, _, _), DrainRecv(_, _, _, _, _, _, _)
\* while (sendQueue.shift()) queuedSend(true)
DrainSend(c, rq, sq, wk, as, aw, sc) ==
  IF sq[c] = <<>> THEN <<rq, sq, wk, as, aw, sc>>
  ELSE LET w == WakeSender(Head(sq[c]), TRUE, rq, [sq EXCEPT ![c] = Tail(@)], wk, as, aw, sc)
       IN DrainSend(c, w[1], w[2], w[3], w[4], w[5], w[6])
DrainRecv(c, rq, sq, wk, as, aw, sc) ==
  IF rq[c] = <<>> THEN <<rq, sq, wk, as, aw, sc>>
  ELSE LET d == DeliverRecv(Head(rq[c]), 0, FALSE, [rq EXCEPT ![c] = Tail(@)], sq, wk, as, aw, sc)
       IN DrainRecv(c, d[1], d[2], d[3], d[4], d[5], d[6])

Close(g) ==
  /\ Fresh(g) /\ Ins(g)[1] = "close"
  /\ LET c == Ins(g)[2] IN
     IF c = 0 THEN /\ Done(g, PanicRes("panic_close_nil"), TRUE)
                   /\ UNCHANGED <<cbuf, cclosed, sendQ, recvQ, wake, asleep, awake, scheduled>>
     ELSE IF cclosed[c] THEN /\ Done(g, PanicRes("panic_close_closed"), TRUE)
                             /\ UNCHANGED <<cbuf, cclosed, sendQ, recvQ, wake, asleep, awake, scheduled>>
     ELSE LET a == DrainSend(c, recvQ, sendQ, wake, asleep, awake, scheduled)
              b == DrainRecv(c, a[1], a[2], a[3], a[4], a[5], a[6])
          IN /\ cclosed' = [cclosed EXCEPT ![c] = TRUE]
             /\ recvQ' = b[1] /\ sendQ' = b[2] /\ wake' = b[3] /\ asleep' = b[4] /\ awake' = b[5] /\ scheduled' = b[6]
             /\ Done(g, Ok, TRUE) /\ UNCHANGED cbuf
  /\ UNCHANGED Rest1

\* ---- len(c) ----
LenOf(g) ==
  /\ Fresh(g) /\ Ins(g)[1] = "len"
  /\ Done(g, [t |-> "len", i |-> 0, v |-> Len(cbuf[Ins(g)[2]]), ok |-> TRUE], TRUE)
  /\ UNCHANGED <<cbuf, cclosed, sendQ, recvQ, wake, asleep, awake, scheduled>> /\ UNCHANGED Rest1

\* ---- $select ----
Offers(g) == TheOp(g).offers
\* the scan of $select: a send case on a closed channel throws at once
ClosedSendCase(g) == \E i \in DOMAIN Offers(g) : Offers(g)[i][1] = "s" /\ Offers(g)[i][2] # 0 /\ cclosed[Offers(g)[i][2]]
ReadyCase(g, i) ==
  LET o == Offers(g)[i] IN
  /\ o[2] # 0
  /\ IF o[1] = "r" THEN sendQ[o[2]] # <<>> \/ cbuf[o[2]] # <<>> \/ cclosed[o[2]]
                   ELSE recvQ[o[2]] # <<>> \/ Len(cbuf[o[2]]) < Cap(o[2])
ReadySet(g) == {i \in DOMAIN Offers(g) : ReadyCase(g, i)}

SelectThrow(g) ==
  /\ Fresh(g) /\ Ins(g)[1] = "sel" /\ ClosedSendCase(g)
  /\ Done(g, PanicRes("panic_send_closed"), TRUE)
  /\ UNCHANGED <<cbuf, cclosed, sendQ, recvQ, wake, asleep, awake, scheduled>> /\ UNCHANGED Rest1

\* selection = ready[Math.floor(Math.random() * ready.length)]: any ready case
SelectReady(g, i) ==
  /\ Fresh(g) /\ Ins(g)[1] = "sel" /\ ~ClosedSendCase(g) /\ i \in ReadySet(g)
  /\ LET o == Offers(g)[i] IN
     IF o[1] = "s" THEN SendNow(g, o[2], o[3], SelRes(i - 1, 0, TRUE))
     ELSE RecvNow(g, o[2], LAMBDA v, b : SelRes(i - 1, v, b))
  /\ UNCHANGED Rest1

SelectDefault(g) ==
  /\ Fresh(g) /\ Ins(g)[1] = "sel" /\ ~ClosedSendCase(g) /\ ReadySet(g) = {} /\ TheOp(g).dflt
  /\ Done(g, SelRes(-1, 0, FALSE), TRUE)
  /\ UNCHANGED <<cbuf, cclosed, sendQ, recvQ, wake, asleep, awake, scheduled>> /\ UNCHANGED Rest1

RECURSIVE Enq(_, _, _, _, _)
\* push one entry per case into the case's queue (in case order)
Enq(g, offs, i, rq, sq) ==
  IF i > Len(offs) THEN <<rq, sq>>
  ELSE LET o == offs[i] IN
       IF o[2] = 0 THEN Enq(g, offs, i + 1, rq, sq)
       ELSE IF o[1] = "r" THEN Enq(g, offs, i + 1, [rq EXCEPT ![o[2]] = Append(@, <<g, "sel", i - 1, 0>>)], sq)
       ELSE Enq(g, offs, i + 1, rq, [sq EXCEPT ![o[2]] = Append(@, <<g, "sel", i - 1, o[3]>>)])

SelectBlock(g) ==
  /\ Fresh(g) /\ Ins(g)[1] = "sel" /\ ~ClosedSendCase(g) /\ ReadySet(g) = {} /\ ~TheOp(g).dflt
  /\ LET q == Enq(g, Offers(g), 1, recvQ, sendQ) IN recvQ' = q[1] /\ sendQ' = q[2]
  /\ Block(g)
  /\ UNCHANGED <<pid, gst, exitf, total, mainFinished, scheduled, cbuf, cclosed, wake, waitTimer, timers, tid, nr>>

\* ---- runtime.Gosched(): $setTimeout(close(c), 0); <-c ----
Yield(g) ==
  /\ Fresh(g) /\ Ins(g)[1] = "yield"
  /\ timers' = timers \cup {[id |-> tid + 1, kind |-> "gosched", g |-> g]} /\ tid' = tid + 1
  /\ waitTimer' = [waitTimer EXCEPT ![g] = TRUE]
  /\ hist' = Append(hist, InvEv(g, TheOp(g)))
  /\ asleep' = [asleep EXCEPT ![g] = TRUE]
  \* $setTimeout: $awakeGoroutines++, then the goroutine blocks: $awakeGoroutines--
  /\ AfterReturn(awake + 1, mainFinished)
  /\ UNCHANGED <<pid, pc, gst, exitf, total, mainFinished, scheduled, cbuf, cclosed, sendQ, recvQ, wake, nr>>

Step(g) == \/ Resume(g) \/ Finish(g) \/ Spawn(g) \/ Send(g) \/ Recv(g) \/ Close(g) \/ LenOf(g)
           \/ SelectThrow(g) \/ SelectDefault(g) \/ SelectBlock(g) \/ Yield(g)
           \/ \E i \in 1..2 : SelectReady(g, i)

Next == \/ \E t \in timers : FireSched(t) \/ FireGosched(t)
        \/ LoopNext \/ LoopEnd \/ LoopBreak
        \/ \E g \in G : Step(g)
Spec == Init /\ [][Next]_vars

(***************************************************************************)
(* Invariants                                                              *)
(***************************************************************************)
InQueue(g) == \E c \in Chans : (\E i \in DOMAIN sendQ[c] : sendQ[c][i][1] = g) \/ (\E i \in DOMAIN recvQ[c] : recvQ[c][i][1] = g)
NilBlocked(g) == \* blocked for ever on a nil channel (plain op, or a select whose cases are all nil): in no queue
  /\ ~AtEnd(g) /\ Ins(g)[1] \in {"send", "recv", "range", "sel"}
  /\ \A i \in DOMAIN TheOp(g).offers : TheOp(g).offers[i][2] = 0

TypeOK ==
  /\ \A c \in Chans : Len(cbuf[c]) <= Cap(c)
  /\ cur \in 0..NG /\ mode \in {"idle", "loop", "run"} /\ (mode = "run") = (cur # 0)

\* no pending receiver while a value or a sender is available, no pending sender while there is room
\* or a receiver waits (a select cannot rendezvous with itself)
QueueDiscipline ==
  \A c \in Chans :
    /\ recvQ[c] # <<>> => cbuf[c] = <<>> /\ ~cclosed[c] /\ \A i \in DOMAIN sendQ[c] : \A j \in DOMAIN recvQ[c] : sendQ[c][i][1] = recvQ[c][j][1]
    /\ sendQ[c] # <<>> => Len(cbuf[c]) = Cap(c) /\ ~cclosed[c]

\* $awakeGoroutines = goroutines that are live and not asleep + pending Gosched timers
Accounting ==
  awake = Cardinality({g \in G : gst[g] = "live" /\ ~asleep[g]}) + Cardinality({t \in timers : t.kind = "gosched"})

\* every sleeping live goroutine can still be reached: it is in a queue, waits for its timer, has a
\* delivered wake-up pending in $scheduled, or sleeps on nil channels only
NoLostWakeup ==
  \A g \in G : gst[g] = "live" /\ asleep[g] =>
      InQueue(g) \/ waitTimer[g] \/ NilBlocked(g)
SchedConsistent ==
  /\ \A i \in DOMAIN scheduled : gst[scheduled[i]] = "live" /\ ~asleep[scheduled[i]]
  /\ \A g \in G : gst[g] = "live" /\ ~asleep[g] /\ g # cur => \E i \in DOMAIN scheduled : scheduled[i] = g
  \* work to do outside the loop is always covered by a pending $runScheduled timer
  /\ (mode = "idle" /\ scheduled # <<>>) => \E t \in timers : t.kind = "sched"

\* the deadlock report is exact, and the process never just stops
DeadlockExact ==
  /\ reported => /\ ~mainFinished /\ scheduled = <<>>
                 /\ \A g \in G : gst[g] = "live" => asleep[g] /\ ~waitTimer[g]
  /\ (~Ended /\ mode = "idle" /\ timers = {}) => FALSE      \* silent exit: event loop empty, main not done, nothing reported

\* ---- output: every complete history ----
Complete == Ended
Emit == Complete =>
  CSVWrite("%1$s", <<ToJson([id |-> Progs[pid].id, caps |-> Progs[pid].caps,
                            hist |-> Append(hist, EndEv(IF reported THEN "deadlock" ELSE "exit"))])>>,
           OutFile \o "." \o ToString(pid) \o ".ndjson")
=============================================================================
