------------------------------- MODULE Build -------------------------------
(***************************************************************************)
(* C17 -- builds are reproducible: compiling the same sources with the     *)
(* same options yields the same JavaScript, whatever the process, the map  *)
(* iteration order inside the compiler, the order in which the source      *)
(* files are listed, the order in which packages are discovered, and       *)
(* whatever was compiled earlier in the same session.                      *)
(*                                                                         *)
(* WHAT IS MODELLED.  An implementation-shaped model of every container of *)
(* the build pipeline whose iteration order reaches the emitted bytes      *)
(* (audit of all 22 `range` statements over maps in build/, compiler/,     *)
(* compiler/internal/ of the pinned tree; the ones that do not appear here *)
(* copy a map into a map, compute a boolean, or are debug output):         *)
(*                                                                         *)
(*   container / step                       code                  here     *)
(*   ------------------------------------------------------------------    *)
(*   files listed on the command line       Session.BuildFiles    listed   *)
(*     (dir builds: go/build lists them ascending)                         *)
(*   Sources.Sort (descending file name)    sources.go:65         Sw.sortFiles *)
(*   Session.sources (a map) -> sorted      GetSortedSources      disc, Sw.sortPkgs *)
(*   the session keeps sources AND archives prepareAndCompile-    early, arch, *)
(*     of commands built earlier            Packages, compilePackage  Sw.isolated *)
(*   Collector.Scan in package order        PrepareAllSources     BScan    *)
(*   Collector.Finish: range over a MAP     collect.go:234        Instances!Pick, Sorted *)
(*   InstanceSet: ids = discovery order     instance.go:141       Instances!AddAll *)
(*   types.Package.Imports (source order)   decls.go:164-174      Sw.sortImports *)
(*     -> sorted by path                                                   *)
(*   pkgCtx.escapingVars (a map) -> sorted  expressions.go:205    es, Sw.sortEsc *)
(*   declarations in file order, instances  decls.go funcDecls,   PkgToks  *)
(*     of one object in set order           utils.go:459 ForObj            *)
(*   pkgCtx.anonTypes: names numbered in    utils.go:569 typeName  ord, pkg *)
(*     discovery order, package-wide                               count   *)
(*   link: dead-code elimination by NAME    WriteProgramCode,     LinkUnits *)
(*     (numeric ids are not compacted)      dce.Selector                   *)
(*                                                                         *)
(* Order-insensitive by construction, therefore not state in this model:   *)
(* dce.Info.deps (sorted, and Selector.AliveDecls returns a SET: Dce.tla), *)
(* the blocking propagation (monotone marking), pruneImports' `unused`     *)
(* (deletes commute), localVars and handleEscapingVars (filled in AST walk *)
(* order; their sorts only canonicalise).                                  *)
(*                                                                         *)
(* SOURCES.  A program of Instances.tla (generic declarations G_1..G_n in  *)
(* the packages a, b, c; roots = instantiations in non-generic code) plus  *)
(* a LAYOUT rfile: the file (1 or 2) of every root inside its package; the *)
(* declarations of a package and `func main` live in file 1.  The main     *)
(* package has one closure that captures two variables.                    *)
(* INPUT NONDETERMINISM (not part of the sources): the permutation in      *)
(* which the files of the main package are listed; the order in which the  *)
(* session's map of sources yields the packages; the iteration order of    *)
(* the escaping-variable map; every resolution of the range in             *)
(* Collector.Finish (action Pick of Instances.tla); and whether another    *)
(* command e -- one instantiation G_j[g] in its func main -- was built     *)
(* earlier in the same session (`gopherjs install e m`, tool.go).          *)
(*                                                                         *)
(* OUTPUT.  The sequence of tokens <<tag, pkg, n1, n2, n3, payload, ord>>   *)
(* of the linked program:  pkg (sorted/unsorted import list), inst (one    *)
(* translated instance: declaration, method flag, NUMERIC ID, type         *)
(* arguments, ordinal in the package's translation order = numbering of    *)
(* the anonymous types it allocates), ref (a use of an instance by numeric *)
(* id inside an instance or a root), root, esc (parameter list of the      *)
(* closure wrapper).  Dead-code elimination at link time drops the         *)
(* instances nobody refers to (by NAME, not by id).                        *)
(*                                                                         *)
(* PROPERTY (cfg: INVARIANTS).                                             *)
(*   Reproducible   at the end  out = RefOut, the output of the canonical  *)
(*                  resolution of the nondeterminism (ascending listing,   *)
(*                  key order in every map, fresh session) pushed through  *)
(*                  the same code; since that resolution is one of the     *)
(*                  behaviours, this says: Output is a FUNCTION of         *)
(*                  (sources, options).                                    *)
(*   NoDangling     every ref token has its inst token (a stale archive of *)
(*                  a shared generic package lacks the instances of the    *)
(*                  later command: that program cannot run).               *)
(*   BEmit          (side effect) writes a witness line for every final    *)
(*                  state that violates one of the two, so that one run    *)
(*                  enumerates ALL order-sensitive program shapes; in the  *)
(*                  keyed modes it also writes every final instance order. *)
(* plus Sound, Confluent, SeenOK of Instances.tla on the collector part.   *)
(* The switches Sw (and Sorted of Instances.tla) select between the code   *)
(* as it is and its repaired / mutated variants:                           *)
(*   Sorted = FALSE, Sw.isolated = FALSE     the pinned tree: Reproducible *)
(*                  FAILS through Collector.Finish (defect F6) and through *)
(*                  the session; NoDangling fails through the session.     *)
(*   Sorted = TRUE, Sw.isolated = TRUE       the repaired tree: both hold. *)
(*   one of sortFiles, sortPkgs, sortEsc off: fails (these sorts are load  *)
(*                  bearing); sortImports off alone: still holds (the list *)
(*                  is in source order, a function of the sorted files).   *)
(*                                                                         *)
(* WHAT TLC FINDS on the pinned tree (the harness reports the counts):     *)
(*   F6       packages x and y each instantiate a generic of package z     *)
(*            (z may be y) through generic code: the ids of z follow the    *)
(*            range over the package map (112 programs of the pass-through *)
(*            family with <= 3 declarations).                              *)
(*   session  an earlier command e instantiates G[I16] of a package the    *)
(*            later command m uses: m is linked against the archive that   *)
(*            was compiled for e -- dangling references (the program does  *)
(*            not run) or shifted ids / anonymous type names.              *)
(*                                                                         *)
(* FAMILIES.  Family = "pass": PassShapes below, one choice (exhaustive);  *)
(* Family = "gen": the Gen actions of Instances.tla over Params.bnd        *)
(* (exhaustive), its scripted mode (digit strings from VERIF_SEED) or its  *)
(* given mode (witness shapes, replays; BP.layouts fixes layout and        *)
(* session history).                                                       *)
(*                                                                         *)
(* HARNESS (harness/props/c17).  Runs this module on the families,         *)
(* collects the witness shapes (also one per load-bearing sort, from the   *)
(* runs with that sort removed: the shapes on which a regression would     *)
(* show), renders them and a seeded family of larger programs as real Go   *)
(* modules and builds each many times in FRESH compiler processes x listed *)
(* file permutations x minify on/off x earlier commands in the session;    *)
(* sha256 of the .js and of the .js.map must be one value per (program,    *)
(* options); the real instance orders must be among the final orders of    *)
(* this model; a difference is a known finding only where this model       *)
(* predicts it.                                                            *)
(***************************************************************************)
EXTENDS Instances

BP      == JsonDeserialize("c17_params.json")
Sw      == BP.sw            \* [sortFiles, sortPkgs, sortEsc, sortImports, isolated : BOOLEAN]
Nd      == BP.nd            \* which input nondeterminism is explored: [files, discovery, esc, session : BOOLEAN]
BOut    == BP.out           \* prefix of the files written by BEmit
EGrounds == Range(BP.egrounds)   \* ground type arguments of the earlier command's instantiation
EmitAll == BP.emitAll       \* write every final state (keyed modes)
Lays    == BP.layouts       \* given mode: per program [rfile, earlies]; <<>> = explore
Family  == BP.family        \* "pass": the family PassShapes below; "gen": the generator of Instances.tla (Params.bnd)

VARIABLES stage,   \* gen | input | scan | collect | done
          rfile,   \* layout: file of every root
          eff,     \* the resolved input: [fo, so, esc, early]
          arch,    \* archives the session already holds: package -> tokens
          out      \* the linked output
bvars == <<stage, rfile, eff, arch, out>>

(***************************************************************************)
(* small helpers                                                           *)
(***************************************************************************)
PO(p) == CASE p = "m" -> 0 [] p = "a" -> 1 [] p = "b" -> 2 [] p = "c" -> 3 [] p = "e" -> 4   \* order of the import paths
PkSeq(S) == SetToSortSeq(S, LAMBDA x, y : PO(x) < PO(y))
AscSeq(S) == SetToSortSeq(S, LAMBDA x, y : x < y)
DescSeq(S) == SetToSortSeq(S, LAMBDA x, y : x > y)
Perms(S) == {f \in [1..Cardinality(S) -> S] : \A i, j \in 1..Cardinality(S) : f[i] = f[j] => i = j}
RECURSIVE Dedupe(_, _)
Dedupe(s, acc) == IF s = <<>> THEN acc ELSE Dedupe(Tail(s), IF \E q \in 1..Len(acc) : acc[q] = Head(s) THEN acc ELSE Append(acc, Head(s)))
EmptySt == [sets |-> Empty, unproc |-> Empty, seen |-> Empty]
StrSeq(S) == SetToSortSeq(S, LAMBDA x, y : x = "u" /\ y = "v")       \* sort.Strings on {"u", "v"}

(***************************************************************************)
(* files                                                                   *)
(***************************************************************************)
RootsIn(p) == {q \in 1..Len(roots) : roots[q].pkg = p}
FilesOf(p) == {1} \cup {rfile[q] : q \in RootsIn(p)}
\* the order in which a package's files are processed: the main package's files arrive as listed
\* (fo), the others as go/build found them (ascending); Sources.Sort makes both descending
FileOrder(p, fo) == IF p = "m" THEN fo ELSE IF Sw.sortFiles THEN DescSeq(FilesOf(p)) ELSE AscSeq(FilesOf(p))
RootIdx(p, f) == SetToSortSeq({q \in RootsIn(p) : rfile[q] = f}, LAMBDA x, y : x < y)
RootIdxSeq(p, ford) == Flat([q \in 1..Len(ford) |-> RootIdx(p, ford[q])])
RootsSeq(p, ford) == LET ix == RootIdxSeq(p, ford) IN [q \in 1..Len(ix) |-> roots[ix[q]]]

(***************************************************************************)
(* imports                                                                 *)
(***************************************************************************)
MnPkgs(mns) == [q \in 1..Len(mns) |-> decls[mns[q][1]].pkg]
UsePkgSeq(u) == MnPkgs(UseMentions(decls, u))
DeclPkgSeq(i) == Flat([s \in 1..Len(decls[i].uses) |-> UsePkgSeq(decls[i].uses[s])])
RootMentions(r) == <<<<r.tgt, r.args>>>> \o Flat([q \in 1..Len(r.args) |-> TInsts(r.args[q])])
RootPkgSeq(r) == MnPkgs(RootMentions(r))
\* func main (file 1 of the main package) calls the root functions of the other packages
MainCalls == SelectSeq([q \in 1..Len(roots) |-> roots[q].pkg], LAMBDA x : x # "m")
FileImports(p, f) ==
  (IF f = 1 THEN Flat([i \in 1..Len(decls) |-> IF decls[i].pkg = p THEN DeclPkgSeq(i) ELSE <<>>])
                 \o (IF p = "m" THEN MainCalls ELSE <<>>)
   ELSE <<>>)
  \o Flat([q \in 1..Len(RootIdx(p, f)) |-> RootPkgSeq(roots[RootIdx(p, f)[q]])])
\* types.Package.Imports(): source order over the files as processed, first mention wins
SrcImports(p, ford) == Dedupe(SelectSeq(Flat([q \in 1..Len(ford) |-> FileImports(p, ford[q])]), LAMBDA x : x # p), <<>>)
ImportList(p, ford, sorted) == IF sorted THEN PkSeq(Range(SrcImports(p, ford))) ELSE SrcImports(p, ford)
\* the import graph (independent of the layout)
Mentioned(p) ==
  UNION {Range(DeclPkgSeq(i)) : i \in {x \in 1..Len(decls) : decls[x].pkg = p}}
  \cup UNION {Range(RootPkgSeq(roots[q])) : q \in RootsIn(p)}
  \cup (IF p = "m" THEN Range(MainCalls) ELSE {})
ImpSet(p, early) ==
  IF p = "e" THEN UNION {Range(RootPkgSeq(early[q])) : q \in 1..Len(early)}
  ELSE Mentioned(p) \ {p}
RECURSIVE Reach(_, _, _)
Reach(S, early, n) == LET S2 == S \cup UNION {ImpSet(p, early) : p \in S} IN IF S2 = S \/ n = 0 THEN S ELSE Reach(S2, early, n - 1)
MainPkgs == Reach({"m"}, <<>>, 6)
EarlyPkgs(early) == IF early = <<>> THEN {} ELSE Reach({"e"}, early, 6)

(***************************************************************************)
(* the collector's Scan over a sequence of packages (Collector.Scan is     *)
(* called once per package, PrepareAllSources), functionally               *)
(***************************************************************************)
\* (written with FoldLeft, which TLC evaluates in Java with concrete values: TLC passes the arguments
\* of RECURSIVE operators as lazy values and evaluates them again at every reference, which makes a
\* recursion that threads a state exponential in its depth)
ScanSeq(rs, st, ps) == FoldLeft(LAMBDA acc, p : AddAll(decls, acc, Seeds(decls, rs, p)), st, ps)
\* Collector.Finish with every range visiting the keys present at its start in path order (the
\* canonical resolution of the map order); the step operators are those of Instances.tla
Fuel == [i \in 1..48 |-> i]
DrainStep(st, p) ==
  IF st.unproc[p] >= Len(st.sets[p]) THEN st
  ELSE AddAll(decls, [st EXCEPT !.unproc[p] = @ + 1], ImplAdds(decls, st.sets[p][st.unproc[p] + 1]))
BDrainPkg(st, p) == FoldLeft(LAMBDA acc, i : DrainStep(acc, p), st, Fuel)
RoundStep(st) ==
  IF \A p \in DOMAIN st.sets : st.unproc[p] >= Len(st.sets[p]) THEN st
  ELSE FoldLeft(LAMBDA acc, p : BDrainPkg(acc, p), st, PkSeq(DOMAIN st.sets))
BRounds(st, n) == FoldLeft(LAMBDA acc, i : RoundStep(acc), st, [i \in 1..n |-> i])
Drained(st) == \A p \in DOMAIN st.sets : st.unproc[p] >= Len(st.sets[p])
\* the roots as the seed visitor meets them: per package in file order; the earlier command's last
AllRoots(fo, early) == Flat([q \in 1..Len(PkgSeq) |-> RootsSeq(PkgSeq[q], FileOrder(PkgSeq[q], fo))]) \o early

(***************************************************************************)
(* tokens                                                                  *)
(***************************************************************************)
IdIn(S, x) ==
  LET p == PkgOf(decls, x) IN
  IF p \in DOMAIN S /\ (\E i \in 1..Len(S[p]) : S[p][i] = x) THEN (CHOOSE i \in 1..Len(S[p]) : S[p][i] = x) - 1 ELSE 0 - 1
\* (TLCEval: function constructors are lazy values in TLC, every access would evaluate the body again)
RefToks(S, xs) == TLCEval([q \in 1..Len(xs) |-> <<"ref", PkgOf(decls, xs[q]), xs[q].d, xs[q].m, IdIn(S, xs[q]), Env(xs[q]), 0>>])
\* a UNIT is one declaration of an archive: [tok, refs]
InstUnits(S, p, i) ==      \* the instances of declaration i in the order of the package's set (InstanceSet.ForObj)
  IF p \notin DOMAIN S THEN <<>> ELSE
  Flat([q \in 1..Len(S[p]) |->
          IF S[p][q].d = i
          THEN <<[tok |-> <<"inst", p, i, S[p][q].m, q - 1, Env(S[p][q]), 0>>, refs |-> RefToks(S, ImplAdds(decls, S[p][q]))]>>
          ELSE <<>>])
\* While an instance is translated the package allocates names for the anonymous types it meets
\* (pkgCtx.anonTypes: ptrType$3, sliceType$1, ... numbered in discovery order): the names inside an
\* instance depend on how many instances were translated before it.  The last token component is
\* that ordinal (an over-approximation: an instance that needs no new anonymous type shifts nothing).
\* The names are package-wide, so the non-generic code of the package is shifted as well by every
\* instance translated before it -- also by one that dead-code elimination drops later: the pkg token
\* carries the number of instances the package translated.
Numbered(us) == TLCEval([q \in 1..Len(us) |-> [tok |-> [us[q].tok EXCEPT ![7] = q], refs |-> us[q].refs]])
PkgToks(p, S, ford, es, sortImp) ==
  <<[tok |-> <<"pkg", p, IF p \in DOMAIN S THEN Len(S[p]) ELSE 0, 0, 0, ImportList(p, ford, sortImp), 0>>, refs |-> <<>>]>>
  \o Numbered(Flat([i \in 1..Len(decls) |-> IF decls[i].pkg = p THEN InstUnits(S, p, i) ELSE <<>>]))
  \o (LET ix == TLCEval(RootIdxSeq(p, ford)) IN
      TLCEval([q \in 1..Len(ix) |-> [tok |-> <<"root", p, ix[q], 0, 0, <<>>, 0>>, refs |-> RefToks(S, RootAdds(decls, roots[ix[q]]))]]))
  \o (IF p = "m" THEN <<[tok |-> <<"esc", p, 0, 0, 0, es, 0>>, refs |-> <<>>]>> ELSE <<>>)
\* WriteProgramCode: dead-code elimination over the declarations of all archives.  A declaration of an
\* instance is selected through its NAME (object and type arguments, dce.Info), never through its
\* numeric id; roots (reached from main), import lists and the closure are always alive.
NameKey(t) == <<t[2], t[3], t[4], t[6]>>
RECURSIVE LiveNames(_, _, _)
LiveNames(us, L, n) ==
  LET L2 == L \cup UNION {{NameKey(us[q].refs[r]) : r \in 1..Len(us[q].refs)} :
                            q \in {x \in 1..Len(us) : us[x].tok[1] # "inst" \/ NameKey(us[x].tok) \in L}}
  IN IF L2 = L \/ n = 0 THEN L2 ELSE LiveNames(us, L2, n - 1)
LinkUnits(us0) ==
  LET us == TLCEval(us0)
      L == TLCEval(LiveNames(us, {}, 40)) IN
  Flat([q \in 1..Len(us) |-> IF us[q].tok[1] = "inst" /\ NameKey(us[q].tok) \notin L THEN <<>> ELSE <<us[q].tok>> \o us[q].refs])
\* WriteProgramCode: the dependencies of the command in a fixed order, the command last
LinkSeq == LET ps == PkSeq(MainPkgs \ {"m"}) IN Append(ps, "m")

(***************************************************************************)
(* the canonical resolution of the NONDETERMINISM (files listed ascending, *)
(* packages discovered in path order, maps iterated in key order, fresh    *)
(* session), pushed through the same code (the same switches): one of the  *)
(* behaviours of the model                                                 *)
(***************************************************************************)
RefFo == IF Sw.sortFiles THEN DescSeq(FilesOf("m")) ELSE AscSeq(FilesOf("m"))
RefSets == BRounds(ScanSeq(AllRoots(RefFo, <<>>), EmptySt, PkSeq(MainPkgs)), 12).sets
RefOut == LET S == TLCEval(RefSets) IN
          LinkUnits(Flat([q \in 1..Len(LinkSeq) |-> PkgToks(LinkSeq[q], S, FileOrder(LinkSeq[q], RefFo), <<"u", "v">>, Sw.sortImports)]))

(***************************************************************************)
(* the build of the earlier command e in the same session, with its own    *)
(* nondeterminism resolved canonically: what stays behind are the sources  *)
(* of its packages and their ARCHIVES                                      *)
(***************************************************************************)
EarlyArch(early) ==
  LET pk == EarlyPkgs(early)
      rs == Flat([q \in 1..Len(PkgSeq) |-> IF PkgSeq[q] \in pk THEN RootsSeq(PkgSeq[q], FileOrder(PkgSeq[q], <<>>)) ELSE <<>>]) \o early
      S  == TLCEval(BRounds(ScanSeq(rs, EmptySt, PkSeq(pk)), 12).sets)
  IN [p \in pk \ {"e"} |-> PkgToks(p, S, FileOrder(p, <<>>), <<>>, Sw.sortImports)]     \* (m is never among them)

(***************************************************************************)
(* choices                                                                 *)
(***************************************************************************)
LayoutOK(rf) ==     \* file 2 of a package is used only if its file 1 holds a root too (file names are arbitrary)
  \A p \in {"m", "a", "b", "c"} : (\E q \in RootsIn(p) : rf[q] = 2) => (\E q \in RootsIn(p) : rf[q] = 1)
LayoutOpts ==
  IF UseGiven /\ Len(Lays) >= cid /\ Len(Lays[cid].rfile) = Len(roots) THEN {Lays[cid].rfile}
  ELSE IF Nd.files THEN {rf \in [1..Len(roots) -> 1..2] : LayoutOK(rf)}
  ELSE {[q \in 1..Len(roots) |-> 1]}
ListedOpts == IF Nd.files THEN Perms(FilesOf("m")) ELSE {AscSeq(FilesOf("m"))}
EscOpts == IF Nd.esc THEN {<<"u", "v">>, <<"v", "u">>} ELSE {<<"u", "v">>}
EarlyRoot(j, g) == [pkg |-> "e", tgt |-> j, args |-> [q \in 1..decls[j].np |-> TG(g)], style |-> "i"]
EarlyOpts ==
  IF UseGiven /\ Len(Lays) >= cid THEN Range(Lays[cid].earlies)
  ELSE IF Nd.session
  THEN {<<>>} \cup {<<EarlyRoot(j, g)>> : j \in {i \in 1..Len(decls) : decls[i].kind \in {"func", "type"} /\ \A q \in 1..Len(decls[i].cons) : decls[i].cons[q] = "any"}, g \in EGrounds}
  ELSE {<<>>}
SessPkgs(early) == MainPkgs \cup (IF Sw.isolated THEN {} ELSE EarlyPkgs(early))
DiscOpts(early) == IF Nd.discovery THEN Perms(SessPkgs(early)) ELSE {PkSeq(SessPkgs(early))}

(***************************************************************************)
(* the PASS-THROUGH family: n <= MaxDecls generic functions func G_i[T any] *)
(* in the packages of Bnd.pkgs (non-decreasing along i), each calling at   *)
(* most one G_j (j >= i, visible from its package) with its own parameter  *)
(* T; one or two roots G_j[g], g in Bnd.grounds, in the packages of        *)
(* Bnd.rootPkgs.  It is the smallest family that contains the shape of     *)
(* defect F6 and is enumerated as ONE choice (action PickShape).           *)
(***************************************************************************)
PassPkgs(n) == {ps \in [1..n -> GPkgs] : \A i, j \in 1..n : i < j => POrd(ps[i]) <= POrd(ps[j])}
PassUse(j) == <<[tgt |-> j, args |-> <<TP(1)>>, site |-> "body", style |-> "i"]>>
PassUses(ps, n) == {us \in [1..n -> {<<>>} \cup {PassUse(j) : j \in 1..n}] :
                      \A i \in 1..n : us[i] # <<>> => (us[i][1].tgt >= i /\ CanSee(ps[i], ps[us[i][1].tgt]))}
PassDecls == UNION {UNION {{[i \in 1..n |-> [kind |-> "func", pkg |-> ps[i], np |-> 1, cons |-> <<"any">>, host |-> 0, uses |-> us[i]]]
                            : us \in PassUses(ps, n)} : ps \in PassPkgs(n)} : n \in 1..MaxDecls}
PassRootOpts(ds) == UNION {{[pkg |-> pk, tgt |-> j, args |-> <<TG(g)>>, style |-> "i"] :
                                j \in {i \in 1..Len(ds) : CanSee(pk, ds[i].pkg)}, g \in Grounds} : pk \in RPkgs}
PassRoots(ds) == LET q == SetToSeq(PassRootOpts(ds)) IN
                 {<<q[i]>> : i \in 1..Len(q)}
                 \cup (IF MaxRoots >= 2 THEN {<<q[ij[1]], q[ij[2]]>> : ij \in {x \in (1..Len(q)) \X (1..Len(q)) : x[1] < x[2]}} ELSE {})

(***************************************************************************)
(* actions                                                                 *)
(***************************************************************************)
BInit == /\ (IF Family = "pass" /\ ~UseGiven /\ ~Scripted
             THEN /\ pc = "pass" /\ cid = 0 /\ decls = <<>> /\ roots = <<>>
                  /\ k = 1 /\ nd = 0 /\ ui = <<1, 1>> /\ fix = {} /\ rfix = {}
                  /\ sets = Empty /\ unproc = Empty /\ seen = Empty /\ scanned = 0 /\ round = {} /\ fresh = {} /\ cur = "" /\ rounds = 0
             ELSE Init)
         /\ stage = "gen" /\ rfile = <<>> /\ eff = <<>> /\ arch = Empty /\ out = <<>>

\* the pass-through family: the whole program is one choice
PickShape ==
  /\ stage = "gen" /\ pc = "pass"
  /\ \E ds \in PassDecls : \E rs \in PassRoots(ds) : decls' = ds /\ roots' = rs
  /\ pc' = "check"
  /\ UNCHANGED <<cid, k, nd, ui, fix, rfix>> /\ UNCHANGED cvars /\ UNCHANGED bvars

\* the program is built by the generator of Instances.tla
BGen == stage = "gen" /\ (GenN \/ GenHdr \/ GenUse \/ GenRoot \/ Check) /\ UNCHANGED bvars

\* the layout completes the SOURCES
Layout ==
  /\ stage = "gen" /\ pc = "scan"
  /\ \E rf \in LayoutOpts : rfile' = rf
  /\ stage' = "input"
  /\ UNCHANGED <<eff, arch, out>> /\ UNCHANGED vars

\* everything that is not part of the sources: listed file order, discovery order, map order of the
\* escaping variables, the session's history.  Each sort of the code is applied where the code applies it.
Input ==
  /\ stage = "input"
  /\ \E listed \in ListedOpts, es \in EscOpts, early \in EarlyOpts :
       \E disc \in DiscOpts(early) :
         /\ eff' = [fo    |-> IF Sw.sortFiles THEN DescSeq(Range(listed)) ELSE listed,
                    so    |-> IF Sw.sortPkgs THEN PkSeq(Range(disc)) ELSE disc,
                    esc   |-> IF Sw.sortEsc THEN StrSeq(Range(es)) ELSE es,
                    early |-> IF Sw.isolated THEN <<>> ELSE early]
         /\ arch' = IF early = <<>> \/ Sw.isolated THEN Empty ELSE EarlyArch(early)
  /\ stage' = "scan"
  /\ UNCHANGED <<rfile, out>> /\ UNCHANGED vars

\* PrepareAllSources: Collector.Scan of every package the session holds, in the order of allSources
BScan ==
  /\ stage = "scan" /\ pc = "scan"
  /\ LET st == ScanSeq(AllRoots(eff.fo, eff.early), EmptySt, eff.so) IN
     /\ sets' = st.sets /\ unproc' = st.unproc /\ seen' = st.seen
  /\ scanned' = Len(eff.so) /\ pc' = "finish" /\ stage' = "collect"
  /\ UNCHANGED <<k, ui, round, fresh, cur, rounds, rfile, eff, arch, out>> /\ UNCHANGED gvars

\* Collector.Finish: the actions of Instances.tla
BCollect == stage = "collect" /\ (BeginRange \/ Pick \/ PropStep \/ EndProp) /\ UNCHANGED bvars

\* compilePackage for every package without an archive, then WriteCommandPackage
Archive(p) == IF p \in DOMAIN arch THEN arch[p] ELSE PkgToks(p, sets, FileOrder(p, eff.fo), eff.esc, Sw.sortImports)
Compile ==
  /\ stage = "collect" /\ pc = "done"
  /\ out' = LinkUnits(Flat([q \in 1..Len(LinkSeq) |-> Archive(LinkSeq[q])]))
  /\ stage' = "done"
  /\ UNCHANGED <<rfile, eff, arch>> /\ UNCHANGED vars

BNext == PickShape \/ BGen \/ Layout \/ Input \/ BScan \/ BCollect \/ Compile
BSpec == BInit /\ [][BNext]_<<vars, bvars>>

(***************************************************************************)
(* properties                                                              *)
(***************************************************************************)
Final == stage = "done"
Reproducible == Final => out = RefOut
Dangling(o) == \E q \in 1..Len(o) : /\ o[q][1] = "ref"
                                     /\ ~ \E r \in 1..Len(o) : o[r][1] = "inst" /\ o[r][2] = o[q][2] /\ o[r][3] = o[q][3]
                                                                /\ o[r][4] = o[q][4] /\ o[r][5] = o[q][5] /\ o[r][6] = o[q][6]
NoDangling == Final => ~Dangling(out)
\* the collector invariants of Instances.tla apply while no foreign seeds are present
NoEarly == stage \in {"gen", "input"} \/ eff.early = <<>>
BSound == NoEarly => Sound
BConfluent == NoEarly => Confluent
BSeenOK == SeenOK

(***************************************************************************)
(* emission                                                                *)
(***************************************************************************)
OrdOf(S) == [q \in 1..Len(PkgSeq) |-> IF PkgSeq[q] \in DOMAIN S THEN S[PkgSeq[q]] ELSE <<>>]
WitFile == BOut \o ".wit.ndjson"
FinFile == BOut \o ".fin.ndjson"
EmitWit ==
  CSVWrite("%1$s", <<ToJson([cid |-> ProgKey, decls |-> decls, roots |-> roots, rfile |-> rfile,
                              early |-> eff.early, fo |-> eff.fo, so |-> eff.so, esc |-> eff.esc,
                              idsDiffer |-> (\E p \in DOMAIN RefSets : sets[p] # RefSets[p]),
                              dangling |-> Dangling(out),
                              ord |-> OrdOf(sets), ref |-> OrdOf(RefSets)])>>, WitFile)
EmitFin ==
  CSVWrite("%1$s", <<ToJson([cid |-> ProgKey, decls |-> IF UseGiven THEN <<>> ELSE decls, roots |-> IF UseGiven THEN <<>> ELSE roots,
                              rfile |-> rfile, early |-> eff.early, fo |-> eff.fo,
                              same |-> (out = RefOut), dangling |-> Dangling(out), ord |-> OrdOf(sets)])>>, FinFile)
BEmit ==
  /\ (Final /\ (out # RefOut \/ Dangling(out))) => EmitWit
  /\ (Final /\ EmitAll) => EmitFin
=============================================================================
