------------------------------ MODULE Blocking ------------------------------
(***************************************************************************)
(* C02, the blocking analysis: which functions must be compiled in their   *)
(* resumable form.                                                         *)
(*                                                                         *)
(* A goroutine that is suspended deep inside a call chain is resumed by    *)
(* re-entering every function of the chain at a numbered resumption point  *)
(* (`$r = f(); $s = N; case N:`).  That only works when every function on  *)
(* the chain was compiled as resumable, i.e. the compiler knew that it MAY *)
(* yield.  A function that can yield but is not marked is called like a    *)
(* plain JavaScript function: its caller receives the `$blk` resume object *)
(* instead of the result.  The property therefore needs                    *)
(*                                                                         *)
(*        SOUNDNESS     MayYield(f)  =>  Marked(f)     for every function  *)
(*                                                                         *)
(* (the converse is precision only: a marked function that never yields is *)
(* slower, not wrong).                                                     *)
(*                                                                         *)
(* This module has two parts over one call-graph vocabulary.               *)
(*                                                                         *)
(* REFERENCE.  A call graph G is a record                                  *)
(*   nodes  : set of function names                                        *)
(*   pkg    : [nodes -> package index]                                     *)
(*   op     : [nodes -> "none" | a blocking operation of BlockingOps]      *)
(*   kindOf : [nodes -> "func" | "lit" | "bodyless"]                       *)
(*   edges  : sequence of [from, tgt, kind, defer, go]                     *)
(* An edge is a call site in `from`; `tgt` is the SET of functions the     *)
(* call can reach at run time (one for static calls; every implementation  *)
(* in the program for an interface method call; every function that flows  *)
(* into the variable for a call of a function value).  `go` call sites do  *)
(* not suspend the caller; `defer` call sites run at every `return` of the *)
(* caller.  A body-less (go:linkname) declaration reaches its              *)
(* implementation through a "linkimpl" edge that exists only at link time. *)
(* MayYield is the least fixpoint of                                       *)
(*   f contains a blocking operation, or                                   *)
(*   f has a call site without `go` that can reach some g with MayYield(g).*)
(*                                                                         *)
(* IMPLEMENTATION-SHAPED.  compiler/internal/analysis/info.go:             *)
(*  - AnalyzePkg: every FuncInfo marks itself for a blocking operation, a  *)
(*    missing body, a call of an interface method and a call of a function *)
(*    value (variable, field, element, result, parameter, method value);   *)
(*    calls of named functions / methods / method expressions / generic    *)
(*    instances are recorded in `instCallees`, function literals called in *)
(*    place in `literalFuncCallees`; `go` statements record nothing;       *)
(*  - PropagateAnalysis: rounds over ALL packages; in each round every     *)
(*    package runs propagateFunctionBlocking (callers in order; a callee   *)
(*    found blocking marks the caller and is deleted from the work list);  *)
(*    rounds repeat until one round changed nothing;                       *)
(*  - propagateControlStatementBlocking: every `return` of a function with *)
(*    a deferred call that is blocking (or dynamic) becomes blocking.      *)
(* The order in which the packages are visited inside a round is left open *)
(* (the code uses the import-path order; any order must give the same      *)
(* result).                                                                *)
(*                                                                         *)
(* TLC checks, on every call graph that BlockingScen.tla enumerates and    *)
(* for every visiting order:                                               *)
(*   Sound         MayYield(f) => marked(f) at the end                     *)
(*   OrderIndep    the final marking is the declarative least fixpoint     *)
(*                 ImplFixSet(G), whatever the order                       *)
(*   StaticClosed  every caller of a marked function along a recorded      *)
(*                 (static / literal) edge is marked                       *)
(*   DeferSound    a deferred call that may yield makes the returns of the *)
(*                 deferring function resumable                            *)
(*   Terminates    the number of rounds is bounded by the number of        *)
(*                 recorded edges + 1, and no state other than the final   *)
(*                 one lacks a successor (deadlock check)                  *)
(* `Variant` selects deliberately wrong analyses (the mutants the harness  *)
(* must catch); BlockingScen reports per call graph which of them the      *)
(* soundness check rejects, so the evidence shows the check is not vacuous.*)
(***************************************************************************)
EXTENDS Integers, Sequences, FiniteSets, TLC

StaticKinds  == {"direct", "mval", "mptr", "mexpr", "inst", "tpmeth"}
LitKinds     == {"lit"}
DynamicKinds == {"iface", "fvar", "ffield", "felem", "fresult", "fparam", "mvalue"}
LinkKinds    == {"linkimpl"}
BlockingOps  == {"send", "recv", "select", "rangechan", "rangetp", "unknownfv"}

Edge(from, tgt, kind, df, g) == [from |-> from, tgt |-> tgt, kind |-> kind, defer |-> df, go |-> g]
EdgeIdx(G) == DOMAIN G.edges

(********************************* REFERENCE *******************************)
RECURSIVE YieldFix(_, _)
YieldStep(G, Y) ==
  Y \cup {G.edges[i].from : i \in {j \in EdgeIdx(G) : ~G.edges[j].go /\ G.edges[j].tgt \cap Y # {}}}
YieldFix(G, Y) == LET Z == YieldStep(G, Y) IN IF Z = Y THEN Y ELSE YieldFix(G, Z)
MayYieldSet(G) == YieldFix(G, {n \in G.nodes : G.op[n] \in BlockingOps})

(***************************** IMPLEMENTATION ******************************)
\* what a wrong analysis forgets (Variant # "ok")
DynKindsOf(v) ==
  CASE v = "iface_not_blocking" -> DynamicKinds \ {"iface"}
    [] v = "funcvalue_not_blocking" -> {"iface"}
    [] OTHER -> DynamicKinds
StaticKindsOf(v) == IF v = "mexpr_dropped" THEN StaticKinds \ {"mexpr"} ELSE StaticKinds
OpsOf(v) == IF v = "rangetp_not_blocking" THEN BlockingOps \ {"rangetp"} ELSE BlockingOps

\* AnalyzePkg: local marking and the work lists
LocalMark(G, v) ==
  {n \in G.nodes : G.op[n] \in OpsOf(v) \/ G.kindOf[n] = "bodyless"}
  \cup {G.edges[i].from : i \in {j \in EdgeIdx(G) : G.edges[j].kind \in DynKindsOf(v) /\ ~G.edges[j].go}}
Tracked(G, v) == {i \in EdgeIdx(G) : G.edges[i].kind \in StaticKindsOf(v) \cup LitKinds /\ ~G.edges[i].go}

\* the declarative result: least fixpoint of "a recorded callee is marked"
RECURSIVE ImplFix(_, _, _)
ImplStep(G, v, M) == M \cup {G.edges[i].from : i \in {j \in Tracked(G, v) : G.edges[j].tgt \cap M # {}}}
ImplFix(G, v, M) == LET Z == ImplStep(G, v, M) IN IF Z = M THEN M ELSE ImplFix(G, v, Z)
ImplFixSet(G, v) == ImplFix(G, v, LocalMark(G, v))

\* one propagateFunctionBlocking pass over the callers of one package, in order
\* st = <<marked, pending edge indices, done>>
RECURSIVE Pass(_, _, _, _)
Pass(G, callers, st, k) ==
  IF k > Len(callers) THEN st
  ELSE LET c == callers[k]
           hit == {i \in st[2] : G.edges[i].from = c /\ G.edges[i].tgt \cap st[1] # {}}
       IN IF hit = {} THEN Pass(G, callers, st, k + 1)
          ELSE Pass(G, callers, <<st[1] \cup {c}, st[2] \ hit, FALSE>>, k + 1)

RECURSIVE SeqOfSet(_)
SeqOfSet(S) == IF S = {} THEN <<>> ELSE LET x == CHOOSE y \in S : TRUE IN <<x>> \o SeqOfSet(S \ {x})
CallersOf(G, p) == SeqOfSet({n \in G.nodes : G.pkg[n] = p})
PkgsOf(G) == {G.pkg[n] : n \in G.nodes}
\* packages that own a recorded call site; a pass over any other package does
\* nothing in any state, so the state machine leaves those passes out
ActivePkgs(G, v) == {G.pkg[G.edges[i].from] : i \in Tracked(G, v)}

\* the wrong analysis "one_round": every package is propagated to its OWN
\* fixpoint, but the packages are visited only once
RECURSIVE PassFix(_, _, _)
PassFix(G, callers, st) ==
  LET r == Pass(G, callers, <<st[1], st[2], TRUE>>, 1)
  IN IF r[3] THEN <<r[1], r[2], st[3]>> ELSE PassFix(G, callers, <<r[1], r[2], FALSE>>)
RECURSIVE RoundIn(_, _, _, _)
RoundIn(G, order, st, k) ==
  IF k > Len(order) THEN st ELSE RoundIn(G, order, PassFix(G, CallersOf(G, order[k]), st), k + 1)

\* returns that become resumable because of a deferred call
RetBlocking(G, M) ==
  {G.edges[i].from : i \in {j \in EdgeIdx(G) :
      G.edges[j].defer /\ (G.edges[j].kind \in DynamicKinds \/ G.edges[j].tgt \cap M # {})}}

CONSTANT Variant

VARIABLES g, marked, pend, visited, rdone, rounds, phase, retBlk
vars == <<g, marked, pend, visited, rdone, rounds, phase, retBlk>>

\* Init is given by the scenario module (it chooses g); this is the rest of it
InitAnalysis(G) ==
  /\ g = G
  /\ marked = LocalMark(G, Variant)
  /\ pend = Tracked(G, Variant)
  /\ visited = {}
  /\ rdone = TRUE
  /\ rounds = 1
  /\ phase = "round"
  /\ retBlk = {}

VisitPkg(p) ==
  /\ phase = "round"
  /\ p \in ActivePkgs(g, Variant) \ visited
  /\ LET r == IF Variant = "one_round" THEN PassFix(g, CallersOf(g, p), <<marked, pend, TRUE>>)
                ELSE Pass(g, CallersOf(g, p), <<marked, pend, TRUE>>, 1) IN
       /\ marked' = r[1]
       /\ pend' = r[2]
       /\ rdone' = (rdone /\ r[3])
  /\ visited' = visited \cup {p}
  /\ UNCHANGED <<g, rounds, phase, retBlk>>

EndRound ==
  /\ phase = "round"
  /\ visited = ActivePkgs(g, Variant)
  /\ IF rdone \/ Variant = "one_round"
     THEN phase' = "returns" /\ UNCHANGED <<visited, rdone, rounds>>
     ELSE phase' = phase /\ visited' = {} /\ rdone' = TRUE /\ rounds' = rounds + 1
  /\ UNCHANGED <<g, marked, pend, retBlk>>

Returns ==
  /\ phase = "returns"
  /\ retBlk' = (IF Variant = "defer_returns_not_marked" THEN {} ELSE RetBlocking(g, marked))
  /\ marked' = marked \cup retBlk'
  /\ phase' = "end"
  /\ UNCHANGED <<g, pend, visited, rdone, rounds>>

Finished == phase = "end" /\ UNCHANGED vars

Next == (phase = "round" /\ \E p \in ActivePkgs(g, Variant) \ visited : VisitPkg(p)) \/ EndRound \/ Returns \/ Finished

(******************************* PROPERTIES ********************************)
Sound        == phase = "end" => MayYieldSet(g) \subseteq marked
OrderIndep   == phase = "end" => marked = ImplFixSet(g, Variant)
StaticClosed == phase = "end" =>
                  \A i \in Tracked(g, Variant) : g.edges[i].tgt \cap marked # {} => g.edges[i].from \in marked
DeferSound   == phase = "end" =>
                  \A i \in EdgeIdx(g) : (g.edges[i].defer /\ g.edges[i].tgt \cap MayYieldSet(g) # {})
                                          => g.edges[i].from \in retBlk
Terminates   == rounds <= Cardinality(Tracked(g, Variant)) + 1
\* the marking only grows, the work list only shrinks
Monotone     == [][phase # "start" => (marked \subseteq marked' /\ pend' \subseteq pend)]_vars
TypeOK       == /\ marked \subseteq g.nodes
                /\ pend \subseteq EdgeIdx(g)
                /\ phase \in {"start", "round", "returns", "end"}
=============================================================================
