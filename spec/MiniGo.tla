------------------------------- MODULE MiniGo -------------------------------
(***************************************************************************)
(* Reference semantics of the sequential core of Go used by C01 (compiled  *)
(* programs behave like the reference), C02 (suspending a goroutine is     *)
(* invisible) and C16 (minification preserves behaviour).  "MiniGo v2".    *)
(*                                                                         *)
(* A program is a JSON record [funcs, globals]:                            *)
(*   funcs[i]   = [name, params, locals, body, pt, lt, rt, named, vari]    *)
(*                pt/lt/rt: type tags of parameters / locals / results;    *)
(*                named: names of the named results (also listed in        *)
(*                locals) or <<>>; vari: last parameter is variadic;       *)
(*                funcs[1] is the entry (no parameters, one int result);   *)
(*                methods are functions whose first parameter is the       *)
(*                receiver; function literals are functions referred to by *)
(*                <<"funclit", name>>                                       *)
(*   globals[i] = <<name, type>>   package-level variables                  *)
(* Type tags: "int" "bool" "sl" ([]int) "arr" ([3]int) "map" (map[int]int)  *)
(*   "str" (string, ASCII) "T" (struct{a, b int}) "fn" "fn1" (func() int,   *)
(*   func(int) int) and "p..." (pointer to ...).                            *)
(*                                                                         *)
(* Expressions (tuples; the fragment of version 1 is unchanged):           *)
(*   int   <<"lit", n>> <<"var", x>> <<"add"|"sub"|"mul", a, b>>             *)
(*         <<"tr", k, e>>         trace point: prints "t k v", value of e    *)
(*         <<"call", f, args>>    <<"callsp", f, args>> (last arg is s...)   *)
(*         <<"callv", c>>         call of the closure stored in variable c   *)
(*         <<"callf", fe, args>>  call of a function value                   *)
(*         <<"mcall", recv, m, args>>  method call; recv is the receiver     *)
(*                                value (struct for value receivers, pointer  *)
(*                                for pointer receivers)                      *)
(*         <<"idx", kind, base, i>>  kind: sl arr pa map str                 *)
(*         <<"len"|"cap", kind, e>>  <<"fld", e, f>> <<"pfld", p, f>> <<"deref", p>> *)
(*         <<"copy", dst, src>>                                             *)
(*   bool  <<"lt", a, b>> <<"eq", a, b>> <<"in">> (next input bit) <<"not", c>> *)
(*         <<"and", c, d>> <<"or", c, d>> (short circuit) <<"trb", k, c>> (prints "b k 0|1") *)
(*         <<"bvar", x>> <<"streq", a, b>> <<"peq", p, q>>                   *)
(*   slice <<"mk", n, c|<<>> >> <<"sllit", es>> <<"slice", kind, base, lo, hi, max>> *)
(*         (kind sl | arrv: base is an array LVALUE | pa | str; absent bound = <<>>) *)
(*         <<"append", s, es>> <<"appendsl", s, t>> <<"nilsl">>              *)
(*   other <<"arrlit", es>> <<"tlit", a, b>> <<"strlit", bytes>> <<"concat", a, b>> *)
(*         <<"mkmap">> <<"maplit", kvs>> <<"nil">> <<"addr", <<"var", x>> >>  *)
(*         <<"newT", a, b>> <<"funclit", name>> <<"fnref", name>> <<"mval", recv, m>> *)
(* L-values: <<"var", x>> <<"idx", kind, base, i>> (kind arr: base is an    *)
(*         l-value) <<"fld", lv, f>> <<"pfld", p, f>> <<"deref", p>> <<"blank">> *)
(* Statements:                                                             *)
(*   <<"emit", k, e>>  <<"assign", x, e>>  <<"swap", x, y>>  <<"inc", x>>  <<"addto", x, e>> *)
(*   <<"if", c, then, else>>                                                *)
(*   <<"for", label, init, c, post, body>>   init/post: statement lists      *)
(*   <<"switch", hasTag, tag, clauses, label>> clauses[i] = <<isDefault, exprs, body, fallthrough>> *)
(*   <<"break", label>> <<"continue", label>>  (label "" = innermost)        *)
(*   <<"return", e>>  <<"expr", e>>                                          *)
(*   <<"closure", c, body>>   c := func() int { body }  (captures by reference) *)
(*   <<"set", lv, e>>  <<"massign", lvs, es>>  <<"assignN", lvs, call>>       *)
(*   <<"opset", op, lv, e>>  <<"incdec", lv, d>>  <<"bassign", x, c>>         *)
(*   <<"commaok", lv, okvar, m, k>>  <<"delete", m, k>>                       *)
(*   <<"range", label, kind, key, val, define, x, body>>  kind: sl arr pa str map *)
(*   <<"defer", call>>  <<"deferemit", k, e>>  <<"panic", e>>                 *)
(*   <<"goto", L>>  <<"label", L>>  <<"returnN", es>>  <<"ret0">>             *)
(*   <<"dump", k, kind, e>>   prints the contents of a composite value        *)
(*                                                                         *)
(* Store.  Every variable is a cell of st.mem; an environment maps names   *)
(* to cells (names are unique per program, so environments are flat).      *)
(* Arrays and structs are tuples stored IN a cell (assignment copies);     *)
(* a slice is [a, o, n, c]: backing cell, offset, length, capacity; the    *)
(* backing cell holds a tuple (an array variable can be the backing cell   *)
(* of a slice); a map is the number of a cell holding a function; a        *)
(* pointer is a cell number (0 = nil); a function value is [f, env, b,     *)
(* body]: function number, captured environment, bound receiver.           *)
(*                                                                         *)
(* Evaluation order is the Go specification's: operands left to right;     *)
(* an assignment first evaluates the index and pointer operands on the     *)
(* left and all right-hand sides, then assigns left to right (run-time      *)
(* checks of the left-hand sides happen at the assignment); the range       *)
(* expression is evaluated once, the length of a slice is fixed at loop      *)
(* entry, the iteration variables are per loop (language version 1.20);      *)
(* arguments of a deferred call are evaluated at the defer statement;        *)
(* a method value binds its receiver when it is evaluated.                   *)
(* Programs whose result depends on what Go leaves open are rejected        *)
(* (ok = FALSE): the capacity chosen by append when it reallocates          *)
(* (three growth policies must agree), the iteration order of maps          *)
(* (ascending and descending must agree), insertion into a map that is       *)
(* being ranged over, arithmetic beyond +-Limit, fuel.                       *)
(*                                                                         *)
(* Yield points (C02) are the trace points tr/trb: suspending there must   *)
(* be a stuttering step, so the semantics does not mention them at all.    *)
(*                                                                         *)
(* Eval functions thread a state st:                                       *)
(*   env  names -> cells of the current activation   mem  the cells        *)
(*   obs  printed tuples   ip  input position   fuel  remaining iterations *)
(*   dfr  deferred calls of the current activation   pan  panic class or <<>> *)
(*   depth call depth   grew/mapr/nd  a policy-dependent step happened       *)
(*   rng  maps being ranged over   wf  slice well-formedness held so far     *)
(***************************************************************************)
EXTENDS Integers, Sequences, FiniteSets, TLC

RECURSIVE Eval(_, _, _), EvalList(_, _, _, _, _), EvalLV(_, _, _), EvalLVs(_, _, _, _, _),
          Exec(_, _, _), ExecList(_, _, _, _), Loop(_, _, _), RangeIter(_, _, _, _, _, _, _),
          Clauses(_, _, _, _, _, _), MatchAny(_, _, _, _, _, _), RunClauses(_, _, _, _),
          CallFn(_, _, _, _, _), CallVal(_, _, _, _), RunDefers(_, _, _), StoreAll(_, _, _, _)

\* results
IR(v, st) == [v |-> v, st |-> st]
\* statement outcome: sig \in {"norm", "break", "continue", "return", "return0", "goto", "panic"}
SR(st, sig, lbl, rv) == [st |-> st, sig |-> sig, lbl |-> lbl, rv |-> rv]

Bad(r) == r.st.pan # <<>>
Panic(st, cls) == [st EXCEPT !.pan = cls]
PanicIR(st, cls) == IR(0, Panic(st, cls))
PanicSR(st) == SR(st, "panic", "", 0)
\* out of fuel / out of range: the scenario is discarded (fuel = -1), unwinding like a panic
OutOfFuel(st) == [st EXCEPT !.fuel = -1, !.pan = <<"fuel">>]

\* Values are kept far inside the 32-bit range (int is 32 bits wide under GopherJS and
\* 64 bits under the reference toolchain; wrap-around is the business of Bits.tla):
\* a scenario whose arithmetic leaves +-Limit is discarded (fuel = -1).
Limit == 1000000
MaxDepth == 24
Chk(v, st) == IF v > Limit \/ v < -Limit THEN IR(0, OutOfFuel(st)) ELSE IR(v, st)

NilSlice == [a |-> 0, o |-> 0, n |-> 0, c |-> 0]
NilFn == [f |-> 0, env |-> <<>>, b |-> <<>>, body |-> <<>>]
Zero(t) == CASE t = "int" -> 0 [] t = "bool" -> 0 [] t = "sl" -> NilSlice [] t = "arr" -> <<0, 0, 0>>
             [] t = "T" -> <<0, 0>> [] t = "str" -> <<>> [] t = "map" -> 0
             [] t \in {"fn", "fn1", "fnsl", "fnarr", "fnparr", "fnstr", "fnmap", "fnpT", "fnpint"} -> NilFn [] OTHER -> 0

Min2(a, b) == IF a < b THEN a ELSE b

RECURSIVE SortKeys(_, _)
SortKeys(S, ord) ==
  IF S = {} THEN <<>>
  ELSE LET m == IF ord = 1 THEN CHOOSE x \in S : \A y \in S : x <= y ELSE CHOOSE x \in S : \A y \in S : x >= y
       IN <<m>> \o SortKeys(S \ {m}, ord)

\* ---- capacity chosen by append when it must reallocate: 1 = the reference toolchain
\* (double, then round up to an allocation size class of 8-byte elements), 2 = GopherJS's
\* run time (double), 3 = exact fit.  A program is accepted only if all three agree.
GcRound(n) == IF n <= 4 THEN n ELSE IF n <= 32 THEN n + (n % 2) ELSE IF n <= 64 THEN n + ((4 - (n % 4)) % 4) ELSE n
NewCap(pol, oldc, need) ==
  LET dbl == IF need > 2 * oldc THEN need ELSE 2 * oldc
  IN CASE pol = 1 -> GcRound(dbl) [] pol = 2 -> dbl [] OTHER -> need

\* ---- slices
SliceWF(s, st) == \/ (s.a = 0 /\ s.o = 0 /\ s.n = 0 /\ s.c = 0)
                  \/ (s.a \in 1..Len(st.mem) /\ s.o >= 0 /\ s.n >= 0 /\ s.n <= s.c /\ s.o + s.c <= Len(st.mem[s.a]))
\* every slice value the semantics constructs goes through here
MkSlice(s, st) == IR(s, IF SliceWF(s, st) THEN st ELSE [st EXCEPT !.wf = FALSE])

SliceElems(s, st) == IF s.n = 0 THEN <<>> ELSE SubSeq(st.mem[s.a], s.o + 1, s.o + s.n)
\* write the values vs into the backing cell of s starting at element index i (0-based, inside the capacity)
SliceWrite(s, i, vs, st) ==
  LET arr == st.mem[s.a]
      lo == s.o + i
  IN [st EXCEPT !.mem[s.a] = [j \in 1..Len(arr) |-> IF j > lo /\ j <= lo + Len(vs) THEN vs[j - lo] ELSE arr[j]]]

AppendVals(C, s, vs, st) ==
  IF Len(vs) = 0 THEN IR(s, st)
  ELSE LET nl == s.n + Len(vs) IN
       IF nl <= s.c THEN MkSlice([s EXCEPT !.n = nl], SliceWrite(s, s.n, vs, st))
       ELSE LET nc == NewCap(C.grow, s.c, nl)
                cell == SliceElems(s, st) \o vs \o [i \in 1..(nc - nl) |-> 0]
                st1 == [st EXCEPT !.mem = Append(@, cell), !.grew = TRUE]
            IN MkSlice([a |-> Len(st1.mem), o |-> 0, n |-> nl, c |-> nc], st1)

\* s[lo:hi:max] on a slice value; lo/hi/max already defaulted
SliceOf(s, lo, hi, max, st) ==
  IF lo < 0 \/ lo > hi \/ hi > max \/ max > s.c THEN PanicIR(st, <<"bounds">>)
  ELSE IF s.a = 0 THEN IR(NilSlice, st)
  ELSE MkSlice([a |-> s.a, o |-> s.o + lo, n |-> hi - lo, c |-> max - lo], st)

\* ---- references to storage: <<"loc", cell, 0>> <<"el", cell, component>> <<"sl", slice, index>>
\* <<"map", cell, key>> <<"blank", 0, 0>>; the run-time checks happen when the reference is used
Load(ref, st) ==
  CASE ref[1] = "loc" -> IF ref[2] = 0 THEN PanicIR(st, <<"nilptr">>) ELSE IR(st.mem[ref[2]], st)
    [] ref[1] = "el" -> IF ref[2] = 0 THEN PanicIR(st, <<"nilptr">>)
                        ELSE IF ref[3] < 1 \/ ref[3] > Len(st.mem[ref[2]]) THEN PanicIR(st, <<"index">>)
                        ELSE IR(st.mem[ref[2]][ref[3]], st)
    [] ref[1] = "sl" -> IF ref[3] < 0 \/ ref[3] >= ref[2].n THEN PanicIR(st, <<"index">>)
                        ELSE IR(st.mem[ref[2].a][ref[2].o + ref[3] + 1], st)
    [] ref[1] = "map" -> IF ref[2] = 0 THEN IR(0, st)
                         ELSE LET f == st.mem[ref[2]] IN IR(IF ref[3] \in DOMAIN f THEN f[ref[3]] ELSE 0, st)
    [] OTHER -> IR(0, st)

Store(ref, v, st) ==
  CASE ref[1] = "loc" -> IF ref[2] = 0 THEN Panic(st, <<"nilptr">>) ELSE [st EXCEPT !.mem[ref[2]] = v]
    [] ref[1] = "el" -> IF ref[2] = 0 THEN Panic(st, <<"nilptr">>)
                        ELSE IF ref[3] < 1 \/ ref[3] > Len(st.mem[ref[2]]) THEN Panic(st, <<"index">>)
                        ELSE [st EXCEPT !.mem[ref[2]][ref[3]] = v]
    [] ref[1] = "sl" -> IF ref[3] < 0 \/ ref[3] >= ref[2].n THEN Panic(st, <<"index">>)
                        ELSE [st EXCEPT !.mem[ref[2].a][ref[2].o + ref[3] + 1] = v]
    [] ref[1] = "map" -> IF ref[2] = 0 THEN Panic(st, <<"nilmap">>)
                         ELSE LET f == st.mem[ref[2]]
                                  k == ref[3]
                                  new == k \notin DOMAIN f
                              IN [st EXCEPT !.mem[ref[2]] = TLCEval([x \in DOMAIN f \cup {k} |-> IF x = k THEN v ELSE f[x]]),
                                            !.nd = @ \/ (new /\ ref[2] \in st.rng)]
    [] OTHER -> st

\* assign vals[i..] to refs[i..] left to right; stops at the first run-time panic
StoreAll(refs, vals, i, st) ==
  IF i > Len(refs) THEN st
  ELSE LET s1 == Store(refs[i], vals[i], st) IN IF s1.pan # <<>> THEN s1 ELSE StoreAll(refs, vals, i + 1, s1)

Arith(op, a, b) == CASE op = "add" -> a + b [] op = "sub" -> a - b [] op = "mul" -> a * b

Opt(C, e, dflt, st) == IF e = <<>> THEN IR(dflt, st) ELSE Eval(C, e, st)

FnVal(C, name) == [f |-> C.fi[name], env |-> C.genv, b |-> <<>>, body |-> <<>>]

\* the extra arguments of a variadic function become a fresh slice (nil when there are none)
PackArgs(C, f, vals, spread, st) ==
  LET fn == C.fs[f] IN
  IF ~fn.vari \/ spread THEN IR(vals, st)
  ELSE LET np == Len(fn.params)
           fixed == SubSeq(vals, 1, np - 1)
           extra == SubSeq(vals, np, Len(vals))
       IN IF extra = <<>> THEN IR(Append(fixed, NilSlice), st)
          ELSE LET st1 == [st EXCEPT !.mem = Append(@, extra)]
               IN IR(Append(fixed, [a |-> Len(st1.mem), o |-> 0, n |-> Len(extra), c |-> Len(extra)]), st1)

\* evaluate es[i..] left to right; v = sequence of values
EvalList(C, es, i, acc, st) ==
  IF i > Len(es) THEN IR(acc, st)
  ELSE LET a == Eval(C, es[i], st) IN IF Bad(a) THEN a ELSE EvalList(C, es, i + 1, Append(acc, a.v), a.st)

EvalLVs(C, lvs, i, acc, st) ==
  IF i > Len(lvs) THEN IR(acc, st)
  ELSE LET a == EvalLV(C, lvs[i], st) IN IF Bad(a) THEN a ELSE EvalLVs(C, lvs, i + 1, Append(acc, a.v), a.st)

\* the operands of an l-value, left to right; no run-time check yet
EvalLV(C, lv, st) ==
  LET k == lv[1] IN
  CASE k = "var" -> IR(<<"loc", st.env[lv[2]], 0>>, st)
    [] k = "blank" -> IR(<<"blank", 0, 0>>, st)
    [] k = "idx" ->
         IF lv[2] = "arr"
         THEN LET b == EvalLV(C, lv[3], st) IN IF Bad(b) THEN b ELSE
              LET i == Eval(C, lv[4], b.st) IN IF Bad(i) THEN i ELSE IR(<<"el", b.v[2], i.v + 1>>, i.st)
         ELSE LET r == EvalList(C, <<lv[3], lv[4]>>, 1, <<>>, st) IN IF Bad(r) THEN r ELSE
              IR(CASE lv[2] = "sl" -> <<"sl", r.v[1], r.v[2]>>
                   [] lv[2] = "map" -> <<"map", r.v[1], r.v[2]>>
                   [] lv[2] = "pa" -> <<"el", r.v[1], r.v[2] + 1>>, r.st)
    [] k = "fld" -> LET b == EvalLV(C, lv[2], st) IN IF Bad(b) THEN b ELSE IR(<<"el", b.v[2], lv[3]>>, b.st)
    [] k = "pfld" -> LET p == Eval(C, lv[2], st) IN IF Bad(p) THEN p ELSE IR(<<"el", p.v, lv[3]>>, p.st)
    [] k = "deref" -> LET p == Eval(C, lv[2], st) IN IF Bad(p) THEN p ELSE IR(<<"loc", p.v, 0>>, p.st)

Eval(C, e, st) ==
  LET k == e[1] IN
  CASE k = "lit" -> IR(e[2], st)
    [] k = "var" -> IR(st.mem[st.env[e[2]]], st)
    [] k \in {"add", "sub", "mul"} ->
         LET r == EvalList(C, <<e[2], e[3]>>, 1, <<>>, st) IN IF Bad(r) THEN r ELSE Chk(Arith(k, r.v[1], r.v[2]), r.st)
    [] k = "tr" ->
         LET a == Eval(C, e[3], st)
         IN IF Bad(a) THEN a ELSE IR(a.v, [a.st EXCEPT !.obs = Append(@, <<"t", e[2], a.v>>)])
    [] k \in {"call", "callsp"} ->
         LET as == EvalList(C, e[3], 1, <<>>, st) IN IF Bad(as) THEN as ELSE
         LET pk == PackArgs(C, C.fi[e[2]], as.v, k = "callsp", as.st)
         IN CallFn(C, C.fi[e[2]], pk.v, C.genv, pk.st)
    [] k = "callv" -> CallVal(C, st.mem[st.env[e[2]]], <<>>, st)
    [] k = "callf" ->
         LET f == Eval(C, e[2], st) IN IF Bad(f) THEN f ELSE
         LET as == EvalList(C, e[3], 1, <<>>, f.st) IN IF Bad(as) THEN as ELSE CallVal(C, f.v, as.v, as.st)
    [] k = "mcall" ->
         LET r == Eval(C, e[2], st) IN IF Bad(r) THEN r ELSE
         LET as == EvalList(C, e[4], 1, <<>>, r.st) IN IF Bad(as) THEN as ELSE
         CallFn(C, C.fi[e[3]], <<r.v>> \o as.v, C.genv, as.st)
    \* ---- booleans are 0 / 1
    [] k = "lt" -> LET r == EvalList(C, <<e[2], e[3]>>, 1, <<>>, st) IN IF Bad(r) THEN r ELSE IR(IF r.v[1] < r.v[2] THEN 1 ELSE 0, r.st)
    [] k \in {"eq", "peq"} -> LET r == EvalList(C, <<e[2], e[3]>>, 1, <<>>, st) IN IF Bad(r) THEN r ELSE IR(IF r.v[1] = r.v[2] THEN 1 ELSE 0, r.st)
    [] k = "streq" -> LET r == EvalList(C, <<e[2], e[3]>>, 1, <<>>, st) IN IF Bad(r) THEN r ELSE
                      IR(IF Len(r.v[1]) = Len(r.v[2]) /\ \A i \in 1..Len(r.v[1]) : r.v[1][i] = r.v[2][i] THEN 1 ELSE 0, r.st)
    [] k = "in" -> IR(IF st.ip <= Len(C.inp) THEN C.inp[st.ip] ELSE 0, [st EXCEPT !.ip = @ + 1])
    [] k = "not" -> LET a == Eval(C, e[2], st) IN IF Bad(a) THEN a ELSE IR(1 - a.v, a.st)
    [] k = "and" -> LET a == Eval(C, e[2], st) IN IF Bad(a) \/ a.v = 0 THEN a ELSE Eval(C, e[3], a.st)
    [] k = "or"  -> LET a == Eval(C, e[2], st) IN IF Bad(a) \/ a.v = 1 THEN a ELSE Eval(C, e[3], a.st)
    [] k = "trb" -> LET a == Eval(C, e[3], st) IN IF Bad(a) THEN a ELSE IR(a.v, [a.st EXCEPT !.obs = Append(@, <<"b", e[2], a.v>>)])
    [] k = "bvar" -> IR(st.mem[st.env[e[2]]], st)
    \* ---- composite values
    [] k = "idx" ->
         (LET r == EvalList(C, <<e[3], e[4]>>, 1, <<>>, st) IN IF Bad(r) THEN r ELSE
          CASE e[2] = "sl" -> Load(<<"sl", r.v[1], r.v[2]>>, r.st)
            [] e[2] = "map" -> Load(<<"map", r.v[1], r.v[2]>>, r.st)
            [] e[2] = "pa" -> Load(<<"el", r.v[1], r.v[2] + 1>>, r.st)
            [] e[2] \in {"arr", "str"} ->
                 IF r.v[2] < 0 \/ r.v[2] >= Len(r.v[1]) THEN PanicIR(r.st, <<"index">>) ELSE IR(r.v[1][r.v[2] + 1], r.st))
    [] k = "len" ->
         LET a == Eval(C, e[3], st) IN IF Bad(a) THEN a ELSE
         IR(CASE e[2] = "sl" -> a.v.n
              [] e[2] = "map" -> IF a.v = 0 THEN 0 ELSE Cardinality(DOMAIN a.st.mem[a.v])
              [] e[2] = "pa" -> 3
              [] OTHER -> Len(a.v), a.st)
    [] k = "cap" -> LET a == Eval(C, e[3], st) IN IF Bad(a) THEN a ELSE IR(IF e[2] = "sl" THEN a.v.c ELSE 3, a.st)
    [] k = "fld" -> LET a == Eval(C, e[2], st) IN IF Bad(a) THEN a ELSE IR(a.v[e[3]], a.st)
    [] k = "pfld" -> LET p == Eval(C, e[2], st) IN IF Bad(p) THEN p ELSE Load(<<"el", p.v, e[3]>>, p.st)
    [] k = "deref" -> LET p == Eval(C, e[2], st) IN IF Bad(p) THEN p ELSE Load(<<"loc", p.v, 0>>, p.st)
    [] k = "addr" -> IR(st.env[e[2][2]], st)
    [] k \in {"nil", "nilmap"} -> IR(0, st)
    [] k = "nilsl" -> IR(NilSlice, st)
    [] k = "newT" ->
         LET r == EvalList(C, <<e[2], e[3]>>, 1, <<>>, st) IN IF Bad(r) THEN r ELSE
         IR(Len(r.st.mem) + 1, [r.st EXCEPT !.mem = Append(@, r.v)])
    [] k \in {"arrlit", "tlit"} -> EvalList(C, e[2], 1, <<>>, st)
    [] k = "strlit" -> IR(e[2], st)
    [] k = "concat" -> LET r == EvalList(C, <<e[2], e[3]>>, 1, <<>>, st) IN IF Bad(r) THEN r ELSE IR(r.v[1] \o r.v[2], r.st)
    [] k = "mk" ->
         LET n == Eval(C, e[2], st) IN IF Bad(n) THEN n ELSE
         LET c == Opt(C, e[3], n.v, n.st) IN IF Bad(c) THEN c ELSE
         IF n.v < 0 \/ c.v < n.v THEN PanicIR(c.st, <<"makeslice">>) ELSE
         LET st1 == [c.st EXCEPT !.mem = Append(@, [i \in 1..c.v |-> 0])]
         IN MkSlice([a |-> Len(st1.mem), o |-> 0, n |-> n.v, c |-> c.v], st1)
    [] k = "sllit" ->
         LET r == EvalList(C, e[2], 1, <<>>, st) IN IF Bad(r) THEN r ELSE
         LET st1 == [r.st EXCEPT !.mem = Append(@, r.v)]
         IN MkSlice([a |-> Len(st1.mem), o |-> 0, n |-> Len(r.v), c |-> Len(r.v)], st1)
    [] k = "slice" ->
         (IF e[2] = "arrv"
         THEN \* slicing an array variable: the variable's cell becomes the backing store
              LET b == EvalLV(C, e[3], st) IN IF Bad(b) THEN b ELSE
              LET lo == Opt(C, e[4], 0, b.st) IN IF Bad(lo) THEN lo ELSE
              LET hi == Opt(C, e[5], 3, lo.st) IN IF Bad(hi) THEN hi ELSE
              LET mx == Opt(C, e[6], 3, hi.st) IN IF Bad(mx) THEN mx ELSE
              IF b.v[2] = 0 THEN PanicIR(mx.st, <<"nilptr">>)
              ELSE SliceOf([a |-> b.v[2], o |-> 0, n |-> 3, c |-> 3], lo.v, hi.v, mx.v, mx.st)
         ELSE
         LET b == Eval(C, e[3], st) IN IF Bad(b) THEN b ELSE
         LET lo == Opt(C, e[4], 0, b.st) IN IF Bad(lo) THEN lo ELSE
         LET hi == Opt(C, e[5], CASE e[2] = "sl" -> b.v.n [] e[2] = "pa" -> 3 [] OTHER -> Len(b.v), lo.st) IN IF Bad(hi) THEN hi ELSE
         LET mx == Opt(C, e[6], CASE e[2] = "sl" -> b.v.c [] e[2] = "pa" -> 3 [] OTHER -> Len(b.v), hi.st) IN IF Bad(mx) THEN mx ELSE
         CASE e[2] = "sl" -> SliceOf(b.v, lo.v, hi.v, mx.v, mx.st)
           [] e[2] = "pa" -> IF b.v = 0 THEN PanicIR(mx.st, <<"nilptr">>)
                             ELSE SliceOf([a |-> b.v, o |-> 0, n |-> 3, c |-> 3], lo.v, hi.v, mx.v, mx.st)
           [] e[2] = "str" -> IF lo.v < 0 \/ lo.v > hi.v \/ hi.v > Len(b.v) THEN PanicIR(mx.st, <<"bounds">>)
                              ELSE IR(SubSeq(b.v, lo.v + 1, hi.v), mx.st))
    [] k = "append" ->
         LET s == Eval(C, e[2], st) IN IF Bad(s) THEN s ELSE
         LET r == EvalList(C, e[3], 1, <<>>, s.st) IN IF Bad(r) THEN r ELSE AppendVals(C, s.v, r.v, r.st)
    [] k = "appendsl" ->
         LET r == EvalList(C, <<e[2], e[3]>>, 1, <<>>, st) IN IF Bad(r) THEN r ELSE
         AppendVals(C, r.v[1], SliceElems(r.v[2], r.st), r.st)
    [] k = "copy" ->
         LET r == EvalList(C, <<e[2], e[3]>>, 1, <<>>, st) IN IF Bad(r) THEN r ELSE
         LET n == Min2(r.v[1].n, r.v[2].n)
         IN IF n = 0 THEN IR(0, r.st)
            ELSE IR(n, SliceWrite(r.v[1], 0, SubSeq(SliceElems(r.v[2], r.st), 1, n), r.st))
    [] k = "mkmap" -> IR(Len(st.mem) + 1, [st EXCEPT !.mem = Append(@, <<>>)])
    [] k = "maplit" ->
         LET r == EvalList(C, e[2], 1, <<>>, st) IN IF Bad(r) THEN r ELSE
         LET n == Len(r.v) \div 2
             ks == {r.v[2 * i - 1] : i \in 1..n}
             f == TLCEval([x \in ks |-> r.v[2 * (CHOOSE i \in 1..n : r.v[2 * i - 1] = x)]])
         IN IR(Len(r.st.mem) + 1, [r.st EXCEPT !.mem = Append(@, f)])
    [] k = "funclit" -> IR([f |-> C.fi[e[2]], env |-> st.env, b |-> <<>>, body |-> <<>>], st)
    [] k = "fnref" -> IR(FnVal(C, e[2]), st)
    [] k = "mval" ->
         \* the receiver is evaluated (a struct: copied) when the method value is
         LET r == Eval(C, e[2], st) IN IF Bad(r) THEN r ELSE
         IR([f |-> C.fi[e[3]], env |-> C.genv, b |-> <<r.v>>, body |-> <<>>], r.st)

\* call a function value
CallVal(C, fv, args, st) ==
  IF fv.f = 0 THEN PanicIR(st, <<"nilptr">>)
  ELSE IF fv.f = -2 THEN IR(0, [st EXCEPT !.obs = Append(@, <<"e", fv.body, args[1]>>)])     \* deferred println
  ELSE IF fv.f = -1
  THEN \* closure statement of version 1: the body runs in the creating activation's environment
       IF st.depth >= MaxDepth THEN PanicIR(OutOfFuel(st), <<"fuel">>) ELSE
       LET r == ExecList(C, fv.body, 1, [st EXCEPT !.env = fv.env, !.dfr = <<>>, !.depth = @ + 1])
           s1 == RunDefers(C, r.st.dfr, r.st)
       IN IR(IF r.sig = "return" THEN r.rv ELSE 0, [s1 EXCEPT !.env = st.env, !.dfr = st.dfr, !.depth = st.depth])
  ELSE CallFn(C, fv.f, fv.b \o args, fv.env, st)

\* run the deferred calls ds (last first); a panic raised by one replaces the current one
RunDefers(C, ds, st) ==
  IF ds = <<>> THEN st
  ELSE LET d == ds[Len(ds)]
           r == CallVal(C, d[1], d[2], [st EXCEPT !.pan = <<>>])
           pan1 == IF r.st.pan # <<>> THEN r.st.pan ELSE st.pan
       IN RunDefers(C, SubSeq(ds, 1, Len(ds) - 1), [r.st EXCEPT !.pan = pan1])

\* call function number f with argument values (receiver first); cenv = environment the
\* function was created in (package level variables, plus the captured variables of a literal)
CallFn(C, f, argv, cenv, st) ==
  IF st.depth >= MaxDepth THEN PanicIR(OutOfFuel(st), <<"fuel">>) ELSE
  LET fn == C.fs[f]
      names == fn.params \o fn.locals
      nameset == {names[i] : i \in DOMAIN names}
      base == Len(st.mem)
      vals == argv \o [i \in 1..Len(fn.locals) |-> Zero(fn.lt[i])]
      env0 == TLCEval([x \in (DOMAIN cenv) \cup nameset |->
                 IF x \in nameset THEN base + (CHOOSE i \in DOMAIN names : names[i] = x) ELSE cenv[x]])
      r == ExecList(C, fn.body, 1, [st EXCEPT !.env = env0, !.mem = @ \o vals, !.dfr = <<>>, !.depth = @ + 1])
      nres == Len(fn.rt)
      named == fn.named # <<>>
      \* an explicit return first assigns the result variables
      s1 == IF r.sig = "return" /\ named
            THEN [r.st EXCEPT !.mem = [j \in DOMAIN @ |->
                    IF \E i \in 1..nres : env0[fn.named[i]] = j
                    THEN (IF nres = 1 THEN r.rv ELSE r.rv[CHOOSE i \in 1..nres : env0[fn.named[i]] = j])
                    ELSE @[j]]]
            ELSE r.st
      s2 == RunDefers(C, s1.dfr, s1)
      res == IF named THEN (IF nres = 1 THEN s2.mem[env0[fn.named[1]]] ELSE [i \in 1..nres |-> s2.mem[env0[fn.named[i]]]])
             ELSE IF r.sig = "return" THEN r.rv
             ELSE IF nres = 1 THEN Zero(fn.rt[1]) ELSE [i \in 1..nres |-> Zero(fn.rt[i])]
  IN IR(IF s2.pan # <<>> THEN 0 ELSE res, [s2 EXCEPT !.env = st.env, !.dfr = st.dfr, !.depth = st.depth])

LabelPos(ss, l) == IF \E j \in DOMAIN ss : ss[j][1] = "label" /\ ss[j][2] = l
                   THEN CHOOSE j \in DOMAIN ss : ss[j][1] = "label" /\ ss[j][2] = l ELSE 0

ExecList(C, ss, i, st) ==
  IF i > Len(ss) THEN SR(st, "norm", "", 0)
  ELSE LET r == Exec(C, ss[i], st)
       IN IF r.sig = "norm" THEN ExecList(C, ss, i + 1, r.st)
          ELSE IF r.sig = "goto" /\ LabelPos(ss, r.lbl) > 0
          THEN (IF r.st.fuel <= 0 THEN PanicSR(OutOfFuel(r.st))
                ELSE ExecList(C, ss, LabelPos(ss, r.lbl) + 1, [r.st EXCEPT !.fuel = @ - 1]))
          ELSE r

\* for loop: s = <<"for", label, init, cond, post, body>>; init already executed
Loop(C, s, st) ==
  IF st.fuel <= 0 THEN PanicSR(OutOfFuel(st))        \* out of fuel: scenario discarded
  ELSE
  LET c == IF s[4] = <<>> THEN IR(1, st) ELSE Eval(C, s[4], st) IN
  IF Bad(c) THEN PanicSR(c.st)
  ELSE IF c.v = 0 THEN SR(c.st, "norm", "", 0)
  ELSE
    LET b == ExecList(C, s[6], 1, [c.st EXCEPT !.fuel = @ - 1])
        mine(r) == r.lbl = "" \/ r.lbl = s[2]
    IN
    IF b.sig = "break" /\ mine(b) THEN SR(b.st, "norm", "", 0)
    ELSE IF b.sig = "norm" \/ (b.sig = "continue" /\ mine(b))
    THEN LET p == ExecList(C, s[5], 1, b.st) IN IF p.sig = "panic" THEN p ELSE Loop(C, s, p.st)
    ELSE b                                         \* return, panic, goto, or break/continue of an outer loop

\* range loop: s = <<"range", label, kind, key, val, define, x, body>>; x0 = value of x (evaluated
\* once; an array is a copy, a slice keeps its length), keys = key order of a map, i = next position
RangeIter(C, s, x0, keys, n, i, st) ==
  IF i > n THEN SR(st, "norm", "", 0)
  ELSE IF s[3] = "map" /\ keys[i] \notin DOMAIN st.mem[x0] THEN RangeIter(C, s, x0, keys, n, i + 1, st)   \* deleted before reached
  ELSE IF st.fuel <= 0 THEN PanicSR(OutOfFuel(st))
  ELSE IF s[3] = "pa" /\ s[5] # "" /\ x0 = 0 THEN PanicSR(Panic(st, <<"nilptr">>))
  ELSE
    LET kval == IF s[3] = "map" THEN keys[i] ELSE i - 1
        vval == IF s[5] = "" THEN 0
                ELSE CASE s[3] = "sl" -> st.mem[x0.a][x0.o + i]
                       [] s[3] = "pa" -> st.mem[x0][i]
                       [] s[3] = "map" -> st.mem[x0][keys[i]]
                       [] OTHER -> x0[i]
        s1 == IF s[4] = "" THEN st ELSE [st EXCEPT !.mem[st.env[s[4]]] = kval]
        s2 == IF s[5] = "" THEN s1 ELSE [s1 EXCEPT !.mem[st.env[s[5]]] = vval]
        b == ExecList(C, s[8], 1, [s2 EXCEPT !.fuel = @ - 1])
        mine(r) == r.lbl = "" \/ r.lbl = s[2]
    IN
    IF b.sig = "break" /\ mine(b) THEN SR(b.st, "norm", "", 0)
    ELSE IF b.sig = "norm" \/ (b.sig = "continue" /\ mine(b)) THEN RangeIter(C, s, x0, keys, n, i + 1, b.st)
    ELSE b

\* does any expression of clause list es match (tag v / tagless: is any true)? evaluated left to right
MatchAny(C, hasTag, v, es, i, st) ==
  IF i > Len(es) THEN IR(0, st)
  ELSE LET a == Eval(C, es[i], st)
           hit == IF hasTag THEN a.v = v ELSE a.v = 1
       IN IF Bad(a) THEN a ELSE IF hit THEN IR(1, a.st) ELSE MatchAny(C, hasTag, v, es, i + 1, a.st)

\* find the clause to run: first matching non-default clause in source order, else default
\* returns [v |-> clause index or 0, st]
Clauses(C, hasTag, v, cls, i, st) ==
  IF i > Len(cls)
  THEN IR(IF \E j \in DOMAIN cls : cls[j][1] THEN CHOOSE j \in DOMAIN cls : cls[j][1] ELSE 0, st)
  ELSE IF cls[i][1] THEN Clauses(C, hasTag, v, cls, i + 1, st)
  ELSE LET m == MatchAny(C, hasTag, v, cls[i][2], 1, st)
       IN IF Bad(m) THEN m ELSE IF m.v = 1 THEN IR(i, m.st) ELSE Clauses(C, hasTag, v, cls, i + 1, m.st)

RunClauses(C, cls, i, st) ==
  LET r == ExecList(C, cls[i][3], 1, st) IN
  IF r.sig = "norm" /\ cls[i][4] /\ i < Len(cls) THEN RunClauses(C, cls, i + 1, r.st)   \* fallthrough
  ELSE r

Norm(st) == SR(st, "norm", "", 0)
\* outcome of a statement that ends after evaluating into state st
After(st) == IF st.pan # <<>> THEN PanicSR(st) ELSE Norm(st)

DumpLines(k, kind, v, st) ==
  CASE kind = "sl" -> <<<<"d", k, v.n>>>> \o [i \in 1..v.n |-> <<"d", k, i - 1, st.mem[v.a][v.o + i]>>]
    [] kind = "map" -> IF v = 0 THEN <<<<"d", k, 0>>>>
                       ELSE LET ks == SortKeys(DOMAIN st.mem[v], 1)
                            IN <<<<"d", k, Len(ks)>>>> \o [i \in 1..Len(ks) |-> <<"d", k, ks[i], st.mem[v][ks[i]]>>]
    [] OTHER -> <<<<"d", k, Len(v)>>>> \o [i \in 1..Len(v) |-> <<"d", k, i - 1, v[i]>>]      \* arr, T, str

Exec(C, s, st) ==
  LET k == s[1] IN
  CASE k = "emit" -> LET a == Eval(C, s[3], st) IN IF Bad(a) THEN PanicSR(a.st) ELSE Norm([a.st EXCEPT !.obs = Append(@, <<"e", s[2], a.v>>)])
    [] k = "assign" -> LET a == Eval(C, s[3], st) IN IF Bad(a) THEN PanicSR(a.st) ELSE Norm([a.st EXCEPT !.mem[st.env[s[2]]] = a.v])
    [] k = "addto" -> LET a == Eval(C, s[3], st) IN IF Bad(a) THEN PanicSR(a.st) ELSE
                      LET b == Chk(a.st.mem[st.env[s[2]]] + a.v, a.st)
                      IN After([b.st EXCEPT !.mem[st.env[s[2]]] = b.v])
    [] k = "inc" -> Norm([st EXCEPT !.mem[st.env[s[2]]] = @ + 1])
    [] k = "swap" -> Norm([st EXCEPT !.mem[st.env[s[2]]] = st.mem[st.env[s[3]]], !.mem[st.env[s[3]]] = st.mem[st.env[s[2]]]])
    [] k = "expr" -> LET a == Eval(C, s[2], st) IN After(a.st)
    [] k = "return" -> LET a == Eval(C, s[2], st) IN IF Bad(a) THEN PanicSR(a.st) ELSE SR(a.st, "return", "", a.v)
    [] k = "returnN" -> LET a == EvalList(C, s[2], 1, <<>>, st) IN IF Bad(a) THEN PanicSR(a.st) ELSE SR(a.st, "return", "", a.v)
    [] k = "ret0" -> SR(st, "return0", "", 0)
    [] k = "break" -> SR(st, "break", s[2], 0)
    [] k = "continue" -> SR(st, "continue", s[2], 0)
    [] k = "goto" -> SR(st, "goto", s[2], 0)
    [] k = "label" -> Norm(st)
    [] k = "closure" ->
         \* c := func() int { body }: a new variable holding a function value over the current environment
         LET l == Len(st.mem) + 1
             env1 == TLCEval([x \in (DOMAIN st.env) \cup {s[2]} |-> IF x = s[2] THEN l ELSE st.env[x]])
         IN Norm([st EXCEPT !.env = env1, !.mem = Append(@, [f |-> -1, env |-> env1, b |-> <<>>, body |-> s[3]])])
    [] k = "if" -> LET c == Eval(C, s[2], st) IN IF Bad(c) THEN PanicSR(c.st) ELSE ExecList(C, IF c.v = 1 THEN s[3] ELSE s[4], 1, c.st)
    [] k = "for" -> LET i0 == ExecList(C, s[3], 1, st) IN IF i0.sig = "panic" THEN i0 ELSE Loop(C, s, i0.st)
    [] k = "switch" ->
         LET t == IF s[2] THEN Eval(C, s[3], st) ELSE IR(0, st) IN IF Bad(t) THEN PanicSR(t.st) ELSE
         LET c == Clauses(C, s[2], t.v, s[4], 1, t.st)
         IN IF Bad(c) THEN PanicSR(c.st)
            ELSE IF c.v = 0 THEN Norm(c.st)
            ELSE LET r == RunClauses(C, s[4], c.v, c.st)
                 IN IF r.sig = "break" /\ (r.lbl = "" \/ r.lbl = s[5]) THEN Norm(r.st) ELSE r
    \* ---- version 2
    [] k = "set" ->
         LET l == EvalLV(C, s[2], st) IN IF Bad(l) THEN PanicSR(l.st) ELSE
         LET a == Eval(C, s[3], l.st) IN IF Bad(a) THEN PanicSR(a.st) ELSE After(Store(l.v, a.v, a.st))
    [] k = "massign" ->
         \* phase 1: operands of the left-hand sides, then the right-hand sides; phase 2: assign left to right
         LET l == EvalLVs(C, s[2], 1, <<>>, st) IN IF Bad(l) THEN PanicSR(l.st) ELSE
         LET a == EvalList(C, s[3], 1, <<>>, l.st) IN IF Bad(a) THEN PanicSR(a.st) ELSE After(StoreAll(l.v, a.v, 1, a.st))
    [] k = "assignN" ->
         LET l == EvalLVs(C, s[2], 1, <<>>, st) IN IF Bad(l) THEN PanicSR(l.st) ELSE
         LET a == Eval(C, s[3], l.st) IN IF Bad(a) THEN PanicSR(a.st) ELSE After(StoreAll(l.v, a.v, 1, a.st))
    [] k = "opset" ->
         \* the operands of the left-hand side are evaluated once
         LET l == EvalLV(C, s[3], st) IN IF Bad(l) THEN PanicSR(l.st) ELSE
         LET a == Eval(C, s[4], l.st) IN IF Bad(a) THEN PanicSR(a.st) ELSE
         LET o == Load(l.v, a.st) IN IF Bad(o) THEN PanicSR(o.st) ELSE
         LET v == Chk(Arith(s[2], o.v, a.v), o.st) IN IF Bad(v) THEN PanicSR(v.st) ELSE After(Store(l.v, v.v, v.st))
    [] k = "incdec" ->
         LET l == EvalLV(C, s[2], st) IN IF Bad(l) THEN PanicSR(l.st) ELSE
         LET o == Load(l.v, l.st) IN IF Bad(o) THEN PanicSR(o.st) ELSE After(Store(l.v, o.v + s[3], o.st))
    [] k = "bassign" -> LET a == Eval(C, s[3], st) IN IF Bad(a) THEN PanicSR(a.st) ELSE Norm([a.st EXCEPT !.mem[st.env[s[2]]] = a.v])
    [] k = "commaok" ->
         LET l == EvalLV(C, s[2], st) IN IF Bad(l) THEN PanicSR(l.st) ELSE
         LET r == EvalList(C, <<s[4], s[5]>>, 1, <<>>, l.st) IN IF Bad(r) THEN PanicSR(r.st) ELSE
         LET has == r.v[1] # 0 /\ r.v[2] \in DOMAIN r.st.mem[r.v[1]]
             s1 == Store(l.v, IF has THEN r.st.mem[r.v[1]][r.v[2]] ELSE 0, r.st)
         IN IF s1.pan # <<>> THEN PanicSR(s1) ELSE Norm([s1 EXCEPT !.mem[st.env[s[3]]] = IF has THEN 1 ELSE 0])
    [] k = "delete" ->
         LET r == EvalList(C, <<s[2], s[3]>>, 1, <<>>, st) IN IF Bad(r) THEN PanicSR(r.st) ELSE
         IF r.v[1] = 0 THEN Norm(r.st)
         ELSE LET f == r.st.mem[r.v[1]]
              IN Norm([r.st EXCEPT !.mem[r.v[1]] = TLCEval([x \in (DOMAIN f) \ {r.v[2]} |-> f[x]])])
    [] k = "range" ->
         LET x == Eval(C, s[7], st) IN IF Bad(x) THEN PanicSR(x.st) ELSE
         LET \* := declares one fresh pair of variables for the whole loop
             l == Len(x.st.mem)
             env1 == IF s[6] THEN TLCEval([y \in (DOMAIN x.st.env) \cup ({s[4], s[5]} \ {""}) |->
                                     IF y = s[4] THEN l + 1 ELSE IF y = s[5] THEN l + 2 ELSE x.st.env[y]])
                     ELSE x.st.env
             st1 == IF s[6] THEN [x.st EXCEPT !.env = env1, !.mem = @ \o <<0, 0>>] ELSE x.st
             ismap == s[3] = "map"
             keys == IF ismap /\ x.v # 0 THEN SortKeys(DOMAIN st1.mem[x.v], C.ord) ELSE <<>>
             n == CASE s[3] = "sl" -> x.v.n [] s[3] = "pa" -> 3 [] ismap -> Len(keys) [] OTHER -> Len(x.v)
             st2 == IF ismap /\ x.v # 0 THEN [st1 EXCEPT !.rng = @ \cup {x.v}, !.mapr = @ \/ n > 1] ELSE st1
             r == RangeIter(C, s, x.v, keys, n, 1, st2)
         IN [r EXCEPT !.st.rng = st.rng]
    [] k = "defer" ->
         (LET ce == s[2] IN
          CASE ce[1] \in {"call", "callsp"} ->
                LET as == EvalList(C, ce[3], 1, <<>>, st) IN IF Bad(as) THEN PanicSR(as.st) ELSE
                LET pk == PackArgs(C, C.fi[ce[2]], as.v, ce[1] = "callsp", as.st)
                IN Norm([pk.st EXCEPT !.dfr = Append(@, <<FnVal(C, ce[2]), pk.v>>)])
           [] ce[1] = "callv" -> Norm([st EXCEPT !.dfr = Append(@, <<st.mem[st.env[ce[2]]], <<>> >>)])
           [] ce[1] = "callf" ->
                LET f == Eval(C, ce[2], st) IN IF Bad(f) THEN PanicSR(f.st) ELSE
                LET as == EvalList(C, ce[3], 1, <<>>, f.st) IN IF Bad(as) THEN PanicSR(as.st) ELSE
                Norm([as.st EXCEPT !.dfr = Append(@, <<f.v, as.v>>)])
           [] ce[1] = "mcall" ->
                LET r == Eval(C, ce[2], st) IN IF Bad(r) THEN PanicSR(r.st) ELSE
                LET as == EvalList(C, ce[4], 1, <<>>, r.st) IN IF Bad(as) THEN PanicSR(as.st) ELSE
                Norm([as.st EXCEPT !.dfr = Append(@, <<[f |-> C.fi[ce[3]], env |-> C.genv, b |-> <<r.v>>, body |-> <<>>], as.v>>)]))
    [] k = "deferemit" ->
         LET a == Eval(C, s[3], st) IN IF Bad(a) THEN PanicSR(a.st) ELSE
         Norm([a.st EXCEPT !.dfr = Append(@, <<[f |-> -2, env |-> <<>>, b |-> <<>>, body |-> s[2]], <<a.v>> >>)])
    [] k = "panic" -> LET a == Eval(C, s[2], st) IN IF Bad(a) THEN PanicSR(a.st) ELSE PanicSR(Panic(a.st, <<"v", a.v>>))
    [] k = "dump" -> LET a == Eval(C, s[4], st) IN IF Bad(a) THEN PanicSR(a.st) ELSE
                     Norm([a.st EXCEPT !.obs = @ \o DumpLines(s[2], s[3], a.v, a.st)])

\* one run under one policy (growth policy of append, iteration order of maps)
RunOnce(P, I, fuel, grow, ord) ==
  LET fs == P.funcs
      ng == Len(P.globals)
      genv == TLCEval([x \in {P.globals[i][1] : i \in 1..ng} |-> CHOOSE i \in 1..ng : P.globals[i][1] = x])
      C == [fs |-> fs, inp |-> I, grow |-> grow, ord |-> ord, genv |-> genv,
            fi |-> TLCEval([x \in {fs[i].name : i \in DOMAIN fs} |-> CHOOSE i \in DOMAIN fs : fs[i].name = x])]
      st0 == [env |-> genv, mem |-> [i \in 1..ng |-> Zero(P.globals[i][2])], obs |-> <<>>, ip |-> 1, fuel |-> fuel,
              dfr |-> <<>>, pan |-> <<>>, depth |-> 0, grew |-> FALSE, mapr |-> FALSE, nd |-> FALSE, rng |-> {}, wf |-> TRUE]
      r == CallFn(C, 1, <<>>, genv, st0)
      last == IF r.st.pan = <<>> THEN <<"ret", r.v>> ELSE <<"panic">> \o r.st.pan
  IN [obs |-> Append(r.st.obs, last), used |-> r.st.ip - 1, ok |-> r.st.fuel >= 0 /\ ~r.st.nd,
      dep |-> r.st.grew \/ r.st.mapr, wf |-> r.st.wf, depth |-> r.st.depth, dfr |-> r.st.dfr]

\* the whole program on input vector I (sequence of 0/1); entry function has no parameters
RunProgram(P, I, fuel) ==
  LET r1 == RunOnce(P, I, fuel, 1, 1)
      r2 == RunOnce(P, I, fuel, 2, -1)
      r3 == RunOnce(P, I, fuel, 3, -1)
      indep == ~r1.dep \/ (r2.obs = r1.obs /\ r3.obs = r1.obs /\ r2.ok /\ r3.ok)
  IN [obs |-> r1.obs, used |-> r1.used, ok |-> r1.ok /\ indep, indep |-> indep,
      wf |-> r1.wf /\ r1.depth = 0 /\ r1.dfr = <<>>]

\* ---- laws of the store the semantics must satisfy (checked once by TLC, see MiniGoScen)
\* two windows [o1, o1+n1) and [o2, o2+n2) into one backing cell of 4 elements: a write through
\* the first at index i is seen through the second at index j iff they name the same element
AliasLaw ==
  LET st0 == [mem |-> << <<10, 20, 30, 40>> >>, pan |-> <<>>, nd |-> FALSE, rng |-> {}, wf |-> TRUE]
      W == {w \in [o : 0..4, n : 0..4] : w.o + w.n <= 4}
      sl(w) == [a |-> 1, o |-> w.o, n |-> w.n, c |-> 4 - w.o]
  IN \A w1, w2 \in W : \A i \in 0..(w1.n - 1) : \A j \in 0..(w2.n - 1) :
       LET st1 == Store(<<"sl", sl(w1), i>>, 99, st0)
           seen == Load(<<"sl", sl(w2), j>>, st1).v = 99
       IN /\ st1.pan = <<>>
          /\ seen <=> (w1.o + i = w2.o + j)
          /\ Load(<<"sl", sl(w1), w1.n>>, st0).st.pan = <<"index">>          \* one past the length panics
\* append within the capacity writes into the shared cell (visible through a longer alias),
\* append beyond it leaves the old cell untouched
AppendLaw ==
  LET st0 == [mem |-> << <<10, 20, 30, 40>> >>, pan |-> <<>>, nd |-> FALSE, rng |-> {}, wf |-> TRUE, grew |-> FALSE]
      whole == [a |-> 1, o |-> 0, n |-> 4, c |-> 4]
  IN \A pol \in 1..3 : \A o \in 0..3 : \A n \in 0..(4 - o) : \A c \in n..(4 - o) :
       LET s == [a |-> 1, o |-> o, n |-> n, c |-> c]
           r == AppendVals([grow |-> pol], s, <<77>>, st0)
       IN /\ r.st.wf
          /\ r.v.n = n + 1
          /\ Load(<<"sl", r.v, n>>, r.st).v = 77
          /\ IF n < c THEN /\ r.v.a = 1 /\ r.v.c = c /\ ~r.st.grew
                           /\ Load(<<"sl", whole, o + n>>, r.st).v = 77
                      ELSE /\ r.v.a = 2 /\ r.st.grew /\ r.v.c >= n + 1
                           /\ r.st.mem[1] = st0.mem[1]
                           /\ \A i \in 0..(n - 1) : Load(<<"sl", r.v, i>>, r.st).v = Load(<<"sl", s, i>>, st0).v
=============================================================================
