------------------------------- MODULE MiniGo -------------------------------
(***************************************************************************)
(* Reference semantics of the sequential core of Go used by C01 (compiled  *)
(* programs behave like the reference), C02 (suspending a goroutine is     *)
(* invisible) and C16 (minification preserves behaviour).                  *)
(*                                                                         *)
(* A program is a JSON AST (tuples of strings, numbers, tuples):           *)
(*   program   <<funcs>>      funcs[i] = <<name, params, locals, body>>; funcs[1] is the entry *)
(*   int expr  <<"lit", n>> <<"var", x>> <<"add", a, b>> <<"sub", a, b>> <<"mul", a, b>>      *)
(*             <<"tr", k, e>>        trace point: prints "t k v", value of e                  *)
(*             <<"call", f, args>>   args evaluated left to right                             *)
(*             <<"callv", c>>        call of the closure stored in local c                    *)
(*   bool expr <<"lt", a, b>> <<"eq", a, b>> <<"in">> (next input bit) <<"not", c>>           *)
(*             <<"and", c, d>> <<"or", c, d>> (short circuit) <<"trb", k, c>> (prints "b k 0|1") *)
(*   stmt      <<"emit", k, e>>  <<"assign", x, e>>  <<"swap", x, y>>  <<"inc", x>>  <<"addto", x, e>> *)
(*             <<"if", c, then, else>>                                                        *)
(*             <<"for", label, init, c, post, body>>   init/post: statement lists             *)
(*             <<"switch", hasTag, tag, clauses, label>> clauses[i] = <<isDefault, exprs, body, fallthrough>> *)
(*             <<"break", label>> <<"continue", label>>  (label "" = innermost)               *)
(*             <<"return", e>>  <<"expr", e>>                                                 *)
(*             <<"closure", c, body>>   c := func() int { body }  (captures locals by reference) *)
(* Variables are declared once per function (unique names), so an          *)
(* environment is a flat function from names to ints; a closure body runs  *)
(* against the environment of the function that created it.  Loop          *)
(* variables are shared by all iterations (language version 1.20).          *)
(*                                                                         *)
(* Yield points (C02) are the trace points tr/trb: suspending there must   *)
(* be a stuttering step, so the semantics does not mention them at all.    *)
(*                                                                         *)
(* Eval functions thread a state st = [env, clo, obs, ip, fuel]:           *)
(*   env  locals of the current activation   clo  closure bodies by name   *)
(*   obs  printed tuples   ip  input position   fuel  remaining loop iterations *)
(***************************************************************************)
EXTENDS Integers, Sequences, TLC

RECURSIVE EvalI(_, _, _, _), EvalB(_, _, _, _), EvalArgs(_, _, _, _, _, _),
          Exec(_, _, _, _), ExecList(_, _, _, _, _), Loop(_, _, _, _),
          Clauses(_, _, _, _, _, _, _), MatchAny(_, _, _, _, _, _, _), CallFn(_, _, _, _, _)

\* results
IR(v, st) == [v |-> v, st |-> st]
\* statement outcome: sig \in {"norm", "break", "continue", "return", "fall"}
SR(st, sig, lbl, rv) == [st |-> st, sig |-> sig, lbl |-> lbl, rv |-> rv]

\* Values are kept far inside the 32-bit range (int is 32 bits wide under GopherJS and
\* 64 bits under the reference toolchain; wrap-around is the business of Bits.tla):
\* a scenario whose arithmetic leaves +-Limit is discarded (fuel = -1).
Limit == 1000000
Chk(v, st) == IF v > Limit \/ v < -Limit THEN IR(0, [st EXCEPT !.fuel = -1]) ELSE IR(v, st)

FuncIndex(P, name) == CHOOSE i \in DOMAIN P : P[i][1] = name

EvalI(P, I, e, st) ==
  CASE e[1] = "lit" -> IR(e[2], st)
    [] e[1] = "var" -> IR(st.env[e[2]], st)
    [] e[1] \in {"add", "sub", "mul"} ->
         LET a == EvalI(P, I, e[2], st)
             b == EvalI(P, I, e[3], a.st)
         IN Chk(CASE e[1] = "add" -> a.v + b.v [] e[1] = "sub" -> a.v - b.v [] e[1] = "mul" -> a.v * b.v, b.st)
    [] e[1] = "tr" ->
         LET a == EvalI(P, I, e[3], st)
         IN IR(a.v, [a.st EXCEPT !.obs = Append(@, <<"t", e[2], a.v>>)])
    [] e[1] = "call" ->
         LET as == EvalArgs(P, I, e[3], 1, <<>>, st)
         IN CallFn(P, I, FuncIndex(P, e[2]), as.v, as.st)
    [] e[1] = "callv" ->
         \* the closure body runs in the creating activation's environment
         LET r == ExecList(P, I, st.clo[e[2]], 1, st)
         IN IR(IF r.sig = "return" THEN r.rv ELSE 0, r.st)

EvalArgs(P, I, args, i, acc, st) ==
  IF i > Len(args) THEN IR(acc, st)
  ELSE LET a == EvalI(P, I, args[i], st) IN EvalArgs(P, I, args, i + 1, Append(acc, a.v), a.st)

\* bools are 0 / 1
EvalB(P, I, c, st) ==
  CASE c[1] = "lt" -> LET a == EvalI(P, I, c[2], st) b == EvalI(P, I, c[3], a.st) IN IR(IF a.v < b.v THEN 1 ELSE 0, b.st)
    [] c[1] = "eq" -> LET a == EvalI(P, I, c[2], st) b == EvalI(P, I, c[3], a.st) IN IR(IF a.v = b.v THEN 1 ELSE 0, b.st)
    [] c[1] = "in" -> IR(IF st.ip <= Len(I) THEN I[st.ip] ELSE 0, [st EXCEPT !.ip = @ + 1])
    [] c[1] = "not" -> LET a == EvalB(P, I, c[2], st) IN IR(1 - a.v, a.st)
    [] c[1] = "and" -> LET a == EvalB(P, I, c[2], st) IN IF a.v = 0 THEN a ELSE EvalB(P, I, c[3], a.st)
    [] c[1] = "or"  -> LET a == EvalB(P, I, c[2], st) IN IF a.v = 1 THEN a ELSE EvalB(P, I, c[3], a.st)
    [] c[1] = "trb" -> LET a == EvalB(P, I, c[3], st) IN IR(a.v, [a.st EXCEPT !.obs = Append(@, <<"b", c[2], a.v>>)])

\* call function number f with argument values; the callee gets a fresh environment
CallFn(P, I, f, argv, st) ==
  LET fn == P[f]
      names == fn[2] \o fn[3]
      env0 == [x \in {names[i] : i \in DOMAIN names} |->
                 IF \E i \in DOMAIN fn[2] : fn[2][i] = x
                 THEN argv[CHOOSE i \in DOMAIN fn[2] : fn[2][i] = x] ELSE 0]
      r == ExecList(P, I, fn[4], 1, [st EXCEPT !.env = env0, !.clo = <<>>])
  IN IR(IF r.sig = "return" THEN r.rv ELSE 0,
        [r.st EXCEPT !.env = st.env, !.clo = st.clo])

ExecList(P, I, ss, i, st) ==
  IF i > Len(ss) THEN SR(st, "norm", "", 0)
  ELSE LET r == Exec(P, I, ss[i], st)
       IN IF r.sig = "norm" THEN ExecList(P, I, ss, i + 1, r.st) ELSE r

\* for loop: s = <<"for", label, init, cond, post, body>>; init already executed
Loop(P, I, s, st) ==
  IF st.fuel <= 0 THEN SR([st EXCEPT !.fuel = -1], "return", "", 0)        \* out of fuel: scenario discarded
  ELSE
  LET c == IF s[4] = <<>> THEN IR(1, st) ELSE EvalB(P, I, s[4], st) IN
  IF c.v = 0 THEN SR(c.st, "norm", "", 0)
  ELSE
    LET b == ExecList(P, I, s[6], 1, [c.st EXCEPT !.fuel = @ - 1])
        mine(r) == r.lbl = "" \/ r.lbl = s[2]
    IN
    IF b.sig = "break" /\ mine(b) THEN SR(b.st, "norm", "", 0)
    ELSE IF b.sig = "norm" \/ (b.sig = "continue" /\ mine(b))
    THEN LET p == ExecList(P, I, s[5], 1, b.st) IN Loop(P, I, s, p.st)
    ELSE b                                         \* return, or break/continue of an outer loop

\* does any expression of clause list es match (tag v / tagless: is any true)? evaluated left to right
MatchAny(P, I, hasTag, v, es, i, st) ==
  IF i > Len(es) THEN IR(0, st)
  ELSE LET a == IF hasTag THEN EvalI(P, I, es[i], st) ELSE EvalB(P, I, es[i], st)
           hit == IF hasTag THEN a.v = v ELSE a.v = 1
       IN IF hit THEN IR(1, a.st) ELSE MatchAny(P, I, hasTag, v, es, i + 1, a.st)

\* find the clause to run: first matching non-default clause in source order, else default
\* returns [v |-> clause index or 0, st]
Clauses(P, I, hasTag, v, cls, i, st) ==
  IF i > Len(cls)
  THEN IR(IF \E j \in DOMAIN cls : cls[j][1] THEN CHOOSE j \in DOMAIN cls : cls[j][1] ELSE 0, st)
  ELSE IF cls[i][1] THEN Clauses(P, I, hasTag, v, cls, i + 1, st)
  ELSE LET m == MatchAny(P, I, hasTag, v, cls[i][2], 1, st)
       IN IF m.v = 1 THEN IR(i, m.st) ELSE Clauses(P, I, hasTag, v, cls, i + 1, m.st)

RECURSIVE RunClauses(_, _, _, _, _)
RunClauses(P, I, cls, i, st) ==
  LET r == ExecList(P, I, cls[i][3], 1, st) IN
  IF r.sig = "norm" /\ cls[i][4] /\ i < Len(cls) THEN RunClauses(P, I, cls, i + 1, r.st)   \* fallthrough
  ELSE r

Exec(P, I, s, st) ==
  CASE s[1] = "emit" -> LET a == EvalI(P, I, s[3], st) IN SR([a.st EXCEPT !.obs = Append(@, <<"e", s[2], a.v>>)], "norm", "", 0)
    [] s[1] = "assign" -> LET a == EvalI(P, I, s[3], st) IN SR([a.st EXCEPT !.env[s[2]] = a.v], "norm", "", 0)
    [] s[1] = "addto" -> LET a == EvalI(P, I, s[3], st)
                             b == Chk(a.st.env[s[2]] + a.v, a.st)
                         IN SR([b.st EXCEPT !.env[s[2]] = b.v], "norm", "", 0)
    [] s[1] = "inc" -> SR([st EXCEPT !.env[s[2]] = @ + 1], "norm", "", 0)
    [] s[1] = "swap" -> SR([st EXCEPT !.env[s[2]] = st.env[s[3]], !.env[s[3]] = st.env[s[2]]], "norm", "", 0)
    [] s[1] = "expr" -> LET a == EvalI(P, I, s[2], st) IN SR(a.st, "norm", "", 0)
    [] s[1] = "return" -> LET a == EvalI(P, I, s[2], st) IN SR(a.st, "return", "", a.v)
    [] s[1] = "break" -> SR(st, "break", s[2], 0)
    [] s[1] = "continue" -> SR(st, "continue", s[2], 0)
    [] s[1] = "closure" -> SR([st EXCEPT !.clo = [x \in DOMAIN st.clo \cup {s[2]} |-> IF x = s[2] THEN s[3] ELSE st.clo[x]]], "norm", "", 0)
    [] s[1] = "if" -> LET c == EvalB(P, I, s[2], st) IN ExecList(P, I, IF c.v = 1 THEN s[3] ELSE s[4], 1, c.st)
    [] s[1] = "for" -> LET i0 == ExecList(P, I, s[3], 1, st) IN Loop(P, I, s, i0.st)
    [] s[1] = "switch" ->
         LET t == IF s[2] THEN EvalI(P, I, s[3], st) ELSE IR(0, st)
             k == Clauses(P, I, s[2], t.v, s[4], 1, t.st)
         IN IF k.v = 0 THEN SR(k.st, "norm", "", 0)
            ELSE LET r == RunClauses(P, I, s[4], k.v, k.st)
                 IN IF r.sig = "break" /\ (r.lbl = "" \/ r.lbl = s[5]) THEN SR(r.st, "norm", "", 0) ELSE r

\* the whole program on input vector I (sequence of 0/1); entry function has no parameters
RunProgram(P, I, fuel) ==
  LET r == CallFn(P, I, 1, <<>>, [env |-> <<>>, clo |-> <<>>, obs |-> <<>>, ip |-> 1, fuel |-> fuel])
  IN [obs |-> Append(r.st.obs, <<"ret", r.v>>), used |-> r.st.ip - 1, ok |-> r.st.fuel >= 0]
=============================================================================
