----------------------------- MODULE JsMapping -----------------------------
(***************************************************************************)
(* Reference semantics of the Go <-> JavaScript value mapping (C11).       *)
(*                                                                         *)
(* The specification transcribed here is the documentation of package      *)
(* github.com/gopherjs/gopherjs/js (the conversion table at the top of     *)
(* js/js.go and the doc comments of the *js.Object accessor methods),      *)
(* together with the parts of ECMAScript the documentation refers to       *)
(* ("according to JavaScript type conversions (parseInt)", ToBoolean,      *)
(* ToString) and the definitions of UTF-8 (module Utf8) and UTF-16.        *)
(*                                                                         *)
(*   Externalize(v, t)   the JavaScript value that arrives when the Go     *)
(*                       value v of static type t is passed to JavaScript  *)
(*                       ("Ext" of DESIGN.md)                              *)
(*   Internalize(j, t)   the Go value of type t that arrives when the      *)
(*                       JavaScript value j is read back ("Int"); the      *)
(*                       accessors Bool/String/Int/Int64/Uint64/Float/     *)
(*                       Interface are Internalize at the types bool/      *)
(*                       string/int/int64/uint64/float64/interface{}       *)
(*   Unspec              the documentation does not define the result      *)
(*                       (parseInt yielding NaN for an int, an unpaired    *)
(*                       surrogate, a number outside the integer type,     *)
(*                       undefined read as interface{}, ...): never judged *)
(*   Representable(v,t)  the documentation calls v representable on both   *)
(*                       sides; JsMappingScen checks IN THE MODEL that     *)
(*                       Internalize(Externalize(v,t),t) = v for every     *)
(*                       enumerated representable value, and that boxing   *)
(*                       in interface{} does not change what arrives.      *)
(*                                                                         *)
(* Numbers.  TLC has neither floating point nor 64-bit integers.  A        *)
(* JavaScript number (IEEE-754 double) is one of                           *)
(*     <<"nan">>   <<"inf", s>>   <<"zero", s>>   <<"fin", s, m, e>>       *)
(* meaning (-1)^s * m * 2^e, with m an ODD natural below 2^53 held as four *)
(* 16-bit limbs (least significant first): every finite double has exactly *)
(* one such form, so equality of doubles (with -0 # +0 and NaN = NaN, i.e. *)
(* Object.is) is equality of tuples.  A Go integer is sign and magnitude   *)
(* <<"i", s, limbs>> (no negative zero).  Conversion of a 64-bit integer   *)
(* to a number rounds to 53 significant bits, ties to even (RoundSig), the *)
(* way every JavaScript integer->Number conversion does; float32 rounds to *)
(* 24 bits.  The arithmetic is done on bit vectors (module Bits).          *)
(*                                                                         *)
(* Strings.  A Go string is a byte sequence (module Utf8); a JavaScript    *)
(* string is a sequence of UTF-16 code units.  Go -> JS decodes UTF-8 the  *)
(* way Go does (every byte that starts no encoding becomes U+FFFD) and     *)
(* encodes code points above U+FFFF as surrogate pairs; JS -> Go decodes   *)
(* surrogate pairs and encodes UTF-8 (unpaired surrogates: Unspec).        *)
(*                                                                         *)
(* Wrapper structs.  "For a struct containing a *js.Object field, only the  *)
(* content of the field will be passed to JavaScript and vice versa":      *)
(* JsFieldIdx(t) is the (first) field of that type, wherever it stands;    *)
(* such a struct externalises to the object it wraps and internalises by   *)
(* wrapping.  null read at a pointer to such a struct is left undefined    *)
(* (nil pointer and pointer to a wrapper of null are both null).           *)
(*                                                                         *)
(* State: the cache that makes the same Go function externalise to the     *)
(* same JavaScript function (pure form ExternalizeFuncs here) and the      *)
(* callback guard ("cannot block in JavaScript callback"); the state       *)
(* machine over both, with its invariants, is module JsMappingState.       *)
(*                                                                         *)
(* Terms (tuples, tag first; emitted as JSON arrays by JsMappingScen):     *)
(*  types   <<"bool">> <<"int",k>> <<"i64">> <<"u64">> <<"f32">> <<"f64">> *)
(*          <<"str">> <<"slice",T>> <<"arr",n,T>> <<"map",T>>              *)
(*          <<"struct",name,<<<<field,exported,T>>,...>>>> <<"ptr",T>>     *)
(*          <<"func">> <<"js">> (pointer to js.Object) <<"any">> (interface{}) *)
(*          <<"wrap">> (struct{ *js.Object }) <<"wrap2">> (struct{ N int;  *)
(*          O *js.Object }: the *js.Object field is not the first one)     *)
(*  Go      <<"b",0|1>> <<"i",s,limbs>> <<"f",num>> <<"s",bytes>>          *)
(*          <<"sl",nil,elems>> <<"ar",elems>> <<"m",nil,<<<<key,v>>..>>>>  *)
(*          <<"st",vals>> <<"p",nil,structval>> <<"fn",id>> (0 = nil)      *)
(*          <<"fj",id>> (Go func that calls JS function id)                *)
(*          <<"o",j>> <<"w",j>> <<"w2",n,j>> <<"if",T,v>> <<"ifnil">>      *)
(*  JS      <<"jb",0|1>> <<"jn",num>> <<"js",units>> <<"jnull">>           *)
(*          <<"jundef">> <<"ja",elems>> <<"jt",kind,nums>>                 *)
(*          <<"jo",<<<<keyunits,j>>,...>>>> <<"jf","go"|"js",id>>          *)
(*          <<"jd",ms>> (Date)  <<"jw",T,v>> (MakeWrapper object of v)     *)
(***************************************************************************)
EXTENDS Utf8, FiniteSets

Bv == INSTANCE Bits

Unspec == <<"unspec">>
IsUnspec(x) == x = Unspec          \* for tagged terms and <<sign, limbs>> pairs (never for code unit sequences)
UnspecStr == <<-1>>                \* "not defined" in the domain of code unit sequences (TLC cannot compare 120 with "unspec")

(***************************************************************************)
(* 64-bit naturals as limbs / bit vectors                                  *)
(***************************************************************************)
Z4 == <<0, 0, 0, 0>>
BitsOf(l)  == Bv!FromLimbs(l, 64)
LimbsOf(b) == Bv!ToLimbs(b)
NatLimbs(n) == LimbsOf(Bv!FromNat(n, 64))            \* n < 2^31

BitLen(b) == IF Bv!IsZero(b) THEN 0
             ELSE CHOOSE i \in 1..Len(b) : b[i] = 1 /\ \A j \in (i+1)..Len(b) : b[j] = 0
TrailZ(b) == (CHOOSE i \in 1..Len(b) : b[i] = 1 /\ \A j \in 1..(i-1) : b[j] = 0) - 1

\* b # 0: <<odd mantissa (bit vector), exponent>> of b rounded to p
\* significant bits, ties to even (IEEE-754 roundTiesToEven)
RoundSig(b, p) ==
  LET n == BitLen(b) IN
  IF n <= p THEN LET tz == TrailZ(b) IN <<Bv!ShrU(b, tz), tz>>
  ELSE LET d    == n - p
           q    == Bv!ShrU(b, d)
           rem  == TLCEval([i \in 1..Len(b) |-> IF i <= d THEN b[i] ELSE 0])
           half == TLCEval([i \in 1..Len(b) |-> IF i = d THEN 1 ELSE 0])
           up   == Bv!ULess(half, rem) \/ (rem = half /\ q[1] = 1)
           q2   == IF up THEN Bv!Add(q, Bv!FromNat(1, Len(b))) ELSE q
           tz   == TrailZ(q2)
       IN <<Bv!ShrU(q2, tz), d + tz>>

(***************************************************************************)
(* Numbers                                                                 *)
(***************************************************************************)
NaN        == <<"nan">>
Inf(s)     == <<"inf", s>>
Zero(s)    == <<"zero", s>>
Fin(s, m, e) == <<"fin", s, m, e>>

IsNum(x) == \/ x = NaN
            \/ (x[1] = "inf" /\ x[2] \in {0, 1})
            \/ (x[1] = "zero" /\ x[2] \in {0, 1})
            \/ (x[1] = "fin" /\ x[2] \in {0, 1} /\ x[3][1] % 2 = 1 /\ BitLen(BitsOf(x[3])) <= 53)

\* integer (sign, magnitude) -> the nearest double
IntToNum(s, l) ==
  IF l = Z4 THEN Zero(0)
  ELSE LET r == RoundSig(BitsOf(l), 53) IN Fin(s, LimbsOf(r[1]), r[2])

\* the natural n (< 2^31) scaled by 2^e, as a number of sign s (n = 0: signed zero)
NatToNum(s, n, e) ==
  IF n = 0 THEN Zero(s)
  ELSE LET r == RoundSig(Bv!FromNat(n, 64), 53) IN Fin(s, LimbsOf(r[1]), r[2] + e)

\* the integer is exactly representable as a double
IntExact(l) == l = Z4 \/ LET b == BitsOf(l) IN BitLen(b) - TrailZ(b) <= 53

\* float32(x): round to 24 significant bits.  Overflow to infinity and the
\* subnormal range are left undefined here (never enumerated).
RoundF32(x) ==
  IF x[1] # "fin" THEN x
  ELSE LET b == BitsOf(x[3])
           r == RoundSig(b, 24)
           e == x[4] + r[2]
           top == BitLen(r[1]) + e          \* value < 2^top
       IN IF top > 128 \/ e < -149 THEN Unspec ELSE Fin(x[2], LimbsOf(r[1]), e)
IsF32(x) == RoundF32(x) = x

\* Truncation toward zero, the value parseInt yields for a number whose
\* decimal string has no exponent (1e-6 <= |x| < 1e21): <<s, limbs>>, or
\* Unspec when |x| >= 2^64, or |x| < 2^-18 (parseInt reads the mantissa digit
\* of "5e-7"; outside the modelled range).
TruncNum(x) ==
  CASE x[1] = "zero" -> <<0, Z4>>
    [] x[1] = "fin" ->
         LET b == BitsOf(x[3]) n == BitLen(b) e == x[4] IN
         IF e >= 0 THEN (IF n + e <= 64 THEN <<x[2], LimbsOf(Bv!Shl(b, e))>> ELSE Unspec)
         ELSE IF n + e < -17 THEN Unspec
         ELSE LET m == LimbsOf(Bv!ShrU(b, -e)) IN <<IF m = Z4 THEN 0 ELSE x[2], m>>
    [] OTHER -> Unspec                              \* parseInt(NaN / Infinity) = NaN: no integer

IntKinds == {"int8", "int16", "int32", "int", "uint8", "uint16", "uint32", "uint", "uintptr"}
KindW(k) == CASE k \in {"int8", "uint8"} -> 8 [] k \in {"int16", "uint16"} -> 16
              [] k \in {"i64", "u64"} -> 64 [] OTHER -> 32
KindSigned(k) == k \in {"int8", "int16", "int32", "int", "i64"}
KindOf(t) == IF t[1] = "int" THEN t[2] ELSE t[1]     \* "i64" / "u64" / the int kind

\* the integer (s, l) is a value of kind k
InRange(k, s, l) ==
  LET b == BitsOf(l) n == BitLen(b) w == KindW(k) IN
  IF KindSigned(k)
    THEN (IF s = 0 THEN n <= w - 1 ELSE n <= w - 1 \/ (n = w /\ TrailZ(b) = w - 1))
    ELSE (s = 0 \/ l = Z4) /\ n <= w

I(s, l) == <<"i", s, l>>
\* a number read as an integer of kind k
NumToInt(x, k) ==
  IF IsUnspec(x) THEN Unspec
  ELSE LET tr == TruncNum(x) IN
       IF IsUnspec(tr) THEN Unspec
       ELSE IF InRange(k, tr[1], tr[2]) THEN I(tr[1], tr[2]) ELSE Unspec

(***************************************************************************)
(* Strings: UTF-8 <-> UTF-16                                               *)
(***************************************************************************)
IsHigh(u) == 55296 <= u /\ u <= 56319            \* D800..DBFF
IsLow(u)  == 56320 <= u /\ u <= 57343            \* DC00..DFFF
Utf16OfRune(r) ==
  IF r <= 65535 THEN <<r>>
  ELSE <<55296 + ((r - 65536) \div 1024), 56320 + ((r - 65536) % 1024)>>

RECURSIVE Utf16OfRunes(_)
Utf16OfRunes(rs) == IF rs = <<>> THEN <<>> ELSE Utf16OfRune(Head(rs)) \o Utf16OfRunes(Tail(rs))

\* Go string (bytes) -> JavaScript string (code units)
ExtString(s) == Utf16OfRunes(ToRunes(s))

\* code units -> code points from position p (1-based); <<-1>> marks an unpaired surrogate
RECURSIVE RunesOfUtf16(_, _)
RunesOfUtf16(u, p) ==
  IF p > Len(u) THEN <<>>
  ELSE IF IsHigh(u[p]) /\ p < Len(u) /\ IsLow(u[p + 1])
    THEN <<(u[p] - 55296) * 1024 + (u[p + 1] - 56320) + 65536>> \o RunesOfUtf16(u, p + 2)
  ELSE IF IsHigh(u[p]) \/ IsLow(u[p]) THEN <<-1>> \o RunesOfUtf16(u, p + 1)
  ELSE <<u[p]>> \o RunesOfUtf16(u, p + 1)
WellFormed16(u) == \A i \in DOMAIN RunesOfUtf16(u, 1) : RunesOfUtf16(u, 1)[i] # -1

\* JavaScript string -> Go string
IntString(u) ==
  LET rs == RunesOfUtf16(u, 1) IN
  IF \E i \in DOMAIN rs : rs[i] = -1 THEN Unspec ELSE <<"s", FromRunes(rs)>>

(***************************************************************************)
(* ECMAScript conversions the documentation refers to, on the modelled     *)
(* fragment of values                                                      *)
(***************************************************************************)
Ascii(str) == \* the code units of a TLA+ string constant of the few words needed
  CASE str = "true" -> <<116, 114, 117, 101>> [] str = "false" -> <<102, 97, 108, 115, 101>>
    [] str = "null" -> <<110, 117, 108, 108>> [] str = "undefined" -> <<117, 110, 100, 101, 102, 105, 110, 101, 100>>
    [] str = "NaN" -> <<78, 97, 78>> [] str = "Infinity" -> <<73, 110, 102, 105, 110, 105, 116, 121>>
    [] str = "[object Object]" -> <<91, 111, 98, 106, 101, 99, 116, 32, 79, 98, 106, 101, 99, 116, 93>>

RECURSIVE DecDigits(_)
DecDigits(n) == IF n < 10 THEN <<48 + n>> ELSE Append(DecDigits(n \div 10), 48 + (n % 10))
\* n with exactly k digits (leading zeros)
RECURSIVE DecPad(_, _)
DecPad(n, k) == IF k = 0 THEN <<>> ELSE Append(DecPad(n \div 10, k - 1), 48 + (n % 10))
Pow5(k) == 5 ^ k
Pow10(k) == 10 ^ k

\* Number::toString for the numbers whose digits fit TLC's integers: integers
\* below 2^31 and dyadic fractions m/2^k with k <= 6 and m * 5^k < 2^31
NumToString(x) ==
  CASE x[1] = "nan" -> Ascii("NaN")
    [] x[1] = "inf" -> (IF x[2] = 1 THEN <<45>> ELSE <<>>) \o Ascii("Infinity")
    [] x[1] = "zero" -> <<48>>
    [] x[1] = "fin" ->
         LET b == BitsOf(x[3]) n == BitLen(b) e == x[4]
             sign == IF x[2] = 1 THEN <<45>> ELSE <<>> IN
         IF e >= 0 THEN (IF n + e <= 30 THEN sign \o DecDigits(Bv!NatOf(Bv!Shl(b, e), 1, 31)) ELSE UnspecStr)
         ELSE IF -e <= 6 /\ n <= 16
           THEN LET k == -e
                    m == Bv!NatOf(b, 1, 31)          \* < 2^16
                    scaled == m * Pow5(k)            \* m / 2^k = scaled / 10^k ; < 2^16 * 15625 < 2^31
                IN sign \o DecDigits(scaled \div Pow10(k)) \o <<46>> \o DecPad(scaled % Pow10(k), k)
         ELSE UnspecStr

RECURSIVE JToString(_)
RECURSIVE JoinStr(_, _)
\* Array.prototype.join(","): null and undefined elements give the empty string
JoinStr(es, i) ==
  IF i > Len(es) THEN <<>>
  ELSE LET e == es[i]
           one == IF e[1] \in {"jnull", "jundef"} THEN <<>> ELSE JToString(e)
           rest == JoinStr(es, i + 1) IN
       IF one = UnspecStr \/ rest = UnspecStr THEN UnspecStr
       ELSE IF i < Len(es) THEN one \o <<44>> \o rest ELSE one
JToString(j) ==
  CASE j[1] = "jb" -> (IF j[2] = 1 THEN Ascii("true") ELSE Ascii("false"))
    [] j[1] = "jn" -> NumToString(j[2])
    [] j[1] = "js" -> j[2]
    [] j[1] = "jnull" -> Ascii("null")
    [] j[1] = "jundef" -> Ascii("undefined")
    [] j[1] = "ja" -> JoinStr(j[2], 1)
    [] j[1] = "jt" -> JoinStr([i \in DOMAIN j[3] |-> <<"jn", j[3][i]>>], 1)
    [] j[1] = "jo" -> Ascii("[object Object]")
    [] OTHER -> UnspecStr                               \* functions (source text), Date, wrappers

\* ToBoolean
JToBoolean(j) ==
  CASE j[1] = "jb" -> j[2]
    [] j[1] = "jn" -> (IF j[2][1] \in {"nan", "zero"} THEN 0 ELSE 1)
    [] j[1] = "js" -> (IF j[2] = <<>> THEN 0 ELSE 1)
    [] j[1] \in {"jnull", "jundef"} -> 0
    [] OTHER -> 1

IsWs(c) == c \in {9, 10, 11, 12, 13, 32, 160, 65279, 8232, 8233}
IsDigit(c) == 48 <= c /\ c <= 57
HexVal(c) == IF 48 <= c /\ c <= 57 THEN c - 48
             ELSE IF 97 <= c /\ c <= 102 THEN c - 87
             ELSE IF 65 <= c /\ c <= 70 THEN c - 55 ELSE -1
RECURSIVE SkipWs(_, _)
SkipWs(u, p) == IF p <= Len(u) /\ IsWs(u[p]) THEN SkipWs(u, p + 1) ELSE p
\* <<value, number of digits>> of the longest digit run of the radix from p (value < 2^31: at most 9 / 7 digits read)
RECURSIVE DigitRun(_, _, _, _, _)
DigitRun(u, p, radix, acc, n) ==
  IF p <= Len(u) /\ HexVal(u[p]) >= 0 /\ HexVal(u[p]) < radix
    THEN DigitRun(u, p + 1, radix, acc * radix + HexVal(u[p]), n + 1)
    ELSE <<acc, n>>
MaxDigits(radix) == IF radix = 10 THEN 9 ELSE 7

\* parseInt(string) (radix argument absent): a number
ParseIntStr(u) ==
  LET p0 == SkipWs(u, 1)
      neg == p0 <= Len(u) /\ u[p0] = 45
      p1 == IF p0 <= Len(u) /\ u[p0] \in {43, 45} THEN p0 + 1 ELSE p0
      hex == p1 + 1 <= Len(u) /\ u[p1] = 48 /\ u[p1 + 1] \in {120, 88}
      radix == IF hex THEN 16 ELSE 10
      p2 == IF hex THEN p1 + 2 ELSE p1
      \* count the digits first so that the value stays inside TLC's integers
      cnt == LET RECURSIVE C(_) C(p) == IF p <= Len(u) /\ HexVal(u[p]) >= 0 /\ HexVal(u[p]) < radix THEN 1 + C(p + 1) ELSE 0 IN C(p2)
  IN IF cnt = 0 THEN NaN
     ELSE IF cnt > MaxDigits(radix) THEN Unspec
     ELSE NatToNum(IF neg THEN 1 ELSE 0, DigitRun(u, p2, radix, 0, 0)[1], 0)

StartsWith(u, p, w) == p + Len(w) - 1 <= Len(u) /\ SubSeq(u, p, p + Len(w) - 1) = w

\* parseFloat(string) for decimal literals whose value is a dyadic rational
\* with few digits (anything else that parses: Unspec)
ParseFloatStr(u) ==
  LET p0 == SkipWs(u, 1)
      neg == p0 <= Len(u) /\ u[p0] = 45
      s   == IF neg THEN 1 ELSE 0
      p1  == IF p0 <= Len(u) /\ u[p0] \in {43, 45} THEN p0 + 1 ELSE p0
      CntD(p) == LET RECURSIVE C(_) C(q) == IF q <= Len(u) /\ IsDigit(u[q]) THEN 1 + C(q + 1) ELSE 0 IN C(p)
      ni  == CntD(p1)
      pd  == p1 + ni                                     \* position of a possible "."
      hasDot == pd <= Len(u) /\ u[pd] = 46
      nf  == IF hasDot THEN CntD(pd + 1) ELSE 0
      pe  == IF hasDot THEN pd + 1 + nf ELSE pd          \* position of a possible exponent
      esgn == pe + 1 <= Len(u) /\ u[pe] \in {101, 69} /\ u[pe + 1] \in {43, 45}
      pxd == IF esgn THEN pe + 2 ELSE pe + 1
      nx  == IF pe <= Len(u) /\ u[pe] \in {101, 69} THEN CntD(pxd) ELSE 0
      xneg == esgn /\ u[pe + 1] = 45
  IN IF StartsWith(u, p1, Ascii("Infinity")) THEN Inf(s)
     ELSE IF ni + nf = 0 THEN NaN
     ELSE IF ni + nf > 8 \/ nx > 1 THEN Unspec
     ELSE LET ip == IF ni = 0 THEN 0 ELSE DigitRun(u, p1, 10, 0, 0)[1]
              fp == IF nf = 0 THEN 0 ELSE DigitRun(u, pd + 1, 10, 0, 0)[1]
              N  == ip * Pow10(nf) + fp                  \* all digits as one natural (< 10^8)
              x  == IF nx = 0 THEN 0 ELSE (IF xneg THEN -1 ELSE 1) * (u[pxd] - 48)
              k  == nf - x                               \* value = N / 10^k
          IN IF k <= 0 THEN (IF -k <= 1 /\ N < 100000000 THEN NatToNum(s, N * Pow10(-k), 0) ELSE Unspec)
             ELSE IF k > 9 THEN Unspec
             ELSE IF N % Pow5(k) # 0 THEN Unspec         \* not a dyadic rational: needs decimal rounding
             ELSE NatToNum(s, N \div Pow5(k), -k)

\* parseInt(j), parseFloat(j) for any value (ToString first)
JParseInt(j) ==
  IF j[1] = "jn" THEN (LET tr == TruncNum(j[2]) IN
                       IF j[2][1] \in {"nan", "inf"} THEN NaN
                       ELSE IF IsUnspec(tr) THEN Unspec ELSE IntToNum(tr[1], tr[2]))
  ELSE LET str == JToString(j) IN IF str = UnspecStr THEN Unspec ELSE ParseIntStr(str)
JParseFloat(j) ==
  IF j[1] = "jn" THEN j[2]                               \* parseFloat(String(x)) = x for every double
  ELSE LET str == JToString(j) IN IF str = UnspecStr THEN Unspec ELSE ParseFloatStr(str)

(***************************************************************************)
(* Types                                                                   *)
(***************************************************************************)
TBool == <<"bool">>   TInt(k) == <<"int", k>>   TI64 == <<"i64">>   TU64 == <<"u64">>
TF32 == <<"f32">>     TF64 == <<"f64">>         TStr == <<"str">>
TSlice(t) == <<"slice", t>>      TArr(n, t) == <<"arr", n, t>>   TMap(t) == <<"map", t>>
TStruct(name, fs) == <<"struct", name, fs>>     TPtr(t) == <<"ptr", t>>
TFunc == <<"func">>   TJs == <<"js">>   TAny == <<"any">>   TWrap == <<"wrap">>   TWrap2 == <<"wrap2">>

\* documentation table, rows "[]int8 | Int8Array" ... "[]float64 | Float64Array";
\* "" = "all other slices | Array" (the table lists neither []uintptr nor 64-bit
\* elements among the typed rows)
TypedKind(t) ==
  CASE t = TInt("int8") -> "Int8Array"     [] t = TInt("int16") -> "Int16Array"
    [] t = TInt("int32") -> "Int32Array"   [] t = TInt("int") -> "Int32Array"
    [] t = TInt("uint8") -> "Uint8Array"   [] t = TInt("uint16") -> "Uint16Array"
    [] t = TInt("uint32") -> "Uint32Array" [] t = TInt("uint") -> "Uint32Array"
    [] t = TF32 -> "Float32Array"          [] t = TF64 -> "Float64Array"
    [] OTHER -> ""
\* column "Conversions back to any" of the same rows
TypedBack(kind) ==
  CASE kind = "Int8Array" -> TInt("int8")     [] kind = "Int16Array" -> TInt("int16")
    [] kind = "Int32Array" -> TInt("int")     [] kind = "Uint8Array" -> TInt("uint8")
    [] kind = "Uint16Array" -> TInt("uint16") [] kind = "Uint32Array" -> TInt("uint")
    [] kind = "Float32Array" -> TF32          [] kind = "Float64Array" -> TF64

IsIntType(t) == t[1] \in {"int", "i64", "u64"}

\* "for a struct containing a *js.Object field, only the content of the field will
\* be passed to JavaScript and vice versa": index of the (first) such field, 0 if none
JsFieldIdx(t) ==
  IF t[1] = "struct" /\ \E i \in DOMAIN t[3] : t[3][i][3] = <<"js">>
    THEN CHOOSE i \in DOMAIN t[3] : t[3][i][3] = <<"js">> /\ \A k \in 1..(i - 1) : t[3][k][3] # <<"js">>
    ELSE 0

RECURSIVE ZeroVal(_)
ZeroVal(t) ==
  CASE t[1] = "bool" -> <<"b", 0>>
    [] IsIntType(t) -> I(0, Z4)
    [] t[1] \in {"f32", "f64"} -> <<"f", Zero(0)>>
    [] t[1] = "str" -> <<"s", <<>>>>
    [] t[1] = "slice" -> <<"sl", 1, <<>>>>
    [] t[1] = "arr" -> <<"ar", [i \in 1..t[2] |-> ZeroVal(t[3])]>>
    [] t[1] = "map" -> <<"m", 1, <<>>>>
    [] t[1] = "struct" -> <<"st", [i \in DOMAIN t[3] |-> ZeroVal(t[3][i][3])]>>
    [] t[1] = "ptr" -> <<"p", 1, ZeroVal(t[2])>>
    [] t[1] = "func" -> <<"fn", 0>>
    [] t[1] = "js" -> <<"o", <<"jnull">>>>
    [] t[1] = "any" -> <<"ifnil">>
    [] t[1] = "wrap" -> <<"w", <<"jnull">>>>
    [] t[1] = "wrap2" -> <<"w2", I(0, Z4), <<"jnull">>>>

JNull == <<"jnull">>
JUndef == <<"jundef">>

(***************************************************************************)
(* Go -> JavaScript                                                        *)
(***************************************************************************)
RECURSIVE Externalize(_, _)
Externalize(v, t) ==
  CASE t[1] = "bool" -> <<"jb", v[2]>>
    [] IsIntType(t) -> <<"jn", IntToNum(v[2], v[3])>>           \* "integers and floats | Number"
    [] t[1] \in {"f32", "f64"} -> <<"jn", v[2]>>
    [] t[1] = "str" -> <<"js", ExtString(v[2])>>
    [] t[1] \in {"slice", "arr"} ->
         LET et == IF t[1] = "slice" THEN t[2] ELSE t[3]
             es == IF t[1] = "slice" THEN v[3] ELSE v[2] IN
         IF t[1] = "slice" /\ v[2] = 1 THEN JNull                \* nil slice
         ELSE IF TypedKind(et) # ""
           THEN <<"jt", TypedKind(et), TLCEval([i \in DOMAIN es |-> Externalize(es[i], et)[2]])>>
           ELSE <<"ja", TLCEval([i \in DOMAIN es |-> Externalize(es[i], et)])>>
    [] t[1] = "map" ->
         IF v[2] = 1 THEN JNull
         ELSE <<"jo", TLCEval([i \in DOMAIN v[3] |-> <<ExtString(v[3][i][1]), Externalize(v[3][i][2], t[2])>>])>>
    [] t[1] = "struct" /\ JsFieldIdx(t) # 0 -> v[2][JsFieldIdx(t)][2]   \* the content of the *js.Object field
    [] t[1] = "struct" ->                                        \* exported fields only
         LET fs == t[3]
             idx == LET RECURSIVE Sel(_) Sel(i) == IF i > Len(fs) THEN <<>> ELSE (IF fs[i][2] = 1 THEN <<i>> ELSE <<>>) \o Sel(i + 1) IN Sel(1)
         IN <<"jo", TLCEval([k \in DOMAIN idx |-> <<fs[idx[k]][1], Externalize(v[2][idx[k]], fs[idx[k]][3])>>])>>
    [] t[1] = "ptr" -> IF v[2] = 1 THEN JNull ELSE Externalize(v[3], t[2])
    [] t[1] = "func" -> IF v[1] = "fj" THEN <<"jf", "js", v[2]>>
                        ELSE IF v[2] = 0 THEN JNull ELSE <<"jf", "go", v[2]>>
    [] t[1] = "js" -> v[2]                                       \* the object itself
    [] t[1] = "wrap" -> v[2]                                     \* "only the content of the field will be passed"
    [] t[1] = "wrap2" -> v[3]
    [] t[1] = "any" -> IF v = <<"ifnil">> THEN JNull ELSE Externalize(v[3], v[2])

(***************************************************************************)
(* JavaScript -> Go                                                        *)
(***************************************************************************)
\* own enumerable property name of a "jo" value: index or 0
PropIndex(j, name) ==
  IF \E i \in DOMAIN j[2] : j[2][i][1] = name THEN CHOOSE i \in DOMAIN j[2] : j[2][i][1] = name ELSE 0

RECURSIVE Internalize(_, _)
RECURSIVE HasUnspec(_)
Internalize(j, t) ==
  CASE t[1] = "js" -> <<"o", j>>
    [] t[1] = "wrap" -> <<"w", j>>
    [] t[1] = "wrap2" -> <<"w2", I(0, Z4), j>>
    [] t[1] = "struct" /\ JsFieldIdx(t) # 0 ->
         <<"st", TLCEval([i \in DOMAIN t[3] |-> IF i = JsFieldIdx(t) THEN <<"o", j>> ELSE ZeroVal(t[3][i][3])])>>
    [] j[1] = "jw" /\ t[1] # "js" ->                             \* MakeWrapper object: the wrapped Go value
         IF t = j[2] THEN j[3] ELSE IF t[1] = "any" THEN <<"if", j[2], j[3]>> ELSE Unspec
    [] t[1] = "bool" -> <<"b", JToBoolean(j)>>
    [] IsIntType(t) -> NumToInt(JParseInt(j), KindOf(t))         \* "(parseInt)"
    [] t[1] = "f64" -> LET x == JParseFloat(j) IN IF IsUnspec(x) THEN Unspec ELSE <<"f", x>>
    [] t[1] = "f32" -> LET x == JParseFloat(j) IN
                       IF IsUnspec(x) \/ IsUnspec(RoundF32(x)) THEN Unspec ELSE <<"f", RoundF32(x)>>
    [] t[1] = "str" -> LET str == JToString(j) IN IF str = UnspecStr THEN Unspec ELSE IntString(str)
    [] t[1] = "slice" ->
         IF j[1] \in {"jnull", "jundef"} THEN <<"sl", 1, <<>>>>
         ELSE IF j[1] = "ja" THEN <<"sl", 0, TLCEval([i \in DOMAIN j[2] |-> Internalize(j[2][i], t[2])])>>
         ELSE IF j[1] = "jt" THEN <<"sl", 0, TLCEval([i \in DOMAIN j[3] |-> Internalize(<<"jn", j[3][i]>>, t[2])])>>
         ELSE Unspec
    [] t[1] = "arr" ->
         IF j[1] = "ja" /\ Len(j[2]) = t[2] THEN <<"ar", TLCEval([i \in DOMAIN j[2] |-> Internalize(j[2][i], t[3])])>>
         ELSE IF j[1] = "jt" /\ Len(j[3]) = t[2] THEN <<"ar", TLCEval([i \in DOMAIN j[3] |-> Internalize(<<"jn", j[3][i]>>, t[3])])>>
         ELSE Unspec
    [] t[1] = "map" ->
         IF j[1] = "jnull" THEN <<"m", 1, <<>>>>                  \* nil <-> null
         ELSE IF j[1] = "jo" THEN
           LET ks == TLCEval([i \in DOMAIN j[2] |-> IntString(j[2][i][1])]) IN
           IF \E i \in DOMAIN ks : IsUnspec(ks[i]) THEN Unspec
           ELSE <<"m", 0, TLCEval([i \in DOMAIN j[2] |-> <<ks[i][2], Internalize(j[2][i][2], t[2])>>])>>
         ELSE Unspec
    [] t[1] = "struct" ->
         IF j[1] = "jo" THEN
           <<"st", TLCEval([i \in DOMAIN t[3] |->
                     IF t[3][i][2] = 0 THEN ZeroVal(t[3][i][3])
                     ELSE LET k == PropIndex(j, t[3][i][1]) IN
                          Internalize(IF k = 0 THEN JUndef ELSE j[2][k][2], t[3][i][3])])>>
         ELSE Unspec
    [] t[1] = "ptr" ->
         IF j[1] = "jnull" /\ JsFieldIdx(t[2]) # 0 THEN Unspec   \* nil pointer or pointer to a wrapper of null: both are null
         ELSE IF j[1] = "jnull" THEN <<"p", 1, ZeroVal(t[2])>>    \* nil <-> null
         ELSE LET sv == Internalize(j, t[2]) IN IF IsUnspec(sv) THEN Unspec ELSE <<"p", 0, sv>>
    [] t[1] = "func" ->
         IF j[1] = "jf" THEN (IF j[2] = "go" THEN <<"fn", j[3]>> ELSE <<"fj", j[3]>>)
         ELSE IF j[1] = "jnull" THEN <<"fn", 0>>                  \* nil <-> null
         ELSE Unspec
    [] t[1] = "any" ->                                           \* column "Conversions back to any"
         CASE j[1] = "jb" -> <<"if", TBool, Internalize(j, TBool)>>
           [] j[1] = "jn" -> <<"if", TF64, Internalize(j, TF64)>>
           [] j[1] = "js" -> LET str == Internalize(j, TStr) IN IF IsUnspec(str) THEN Unspec ELSE <<"if", TStr, str>>
           [] j[1] = "jt" -> <<"if", TSlice(TypedBack(j[2])), Internalize(j, TSlice(TypedBack(j[2])))>>
           [] j[1] = "ja" -> <<"if", TSlice(TAny), Internalize(j, TSlice(TAny))>>
           [] j[1] = "jo" -> LET m == Internalize(j, TMap(TAny)) IN IF IsUnspec(m) THEN Unspec ELSE <<"if", TMap(TAny), m>>
           [] j[1] = "jf" -> <<"if", TFunc, Internalize(j, TFunc)>>
           [] j[1] = "jnull" -> <<"ifnil">>
           [] OTHER -> Unspec                                    \* undefined; Date needs package time
    [] OTHER -> Unspec

\* a Go / JS term mentions Unspec somewhere
HasUnspec(x) ==
  IF x = Unspec THEN TRUE
  ELSE CASE x[1] \in {"sl"} -> \E i \in DOMAIN x[3] : HasUnspec(x[3][i])
         [] x[1] \in {"ar", "st", "ja"} -> \E i \in DOMAIN x[2] : HasUnspec(x[2][i])
         [] x[1] = "m" -> \E i \in DOMAIN x[3] : HasUnspec(x[3][i][2])
         [] x[1] = "jo" -> \E i \in DOMAIN x[2] : HasUnspec(x[2][i][2])
         [] x[1] = "p" -> HasUnspec(x[3])
         [] x[1] = "if" -> HasUnspec(x[3])
         [] x[1] = "f" -> x[2] = Unspec
         [] OTHER -> FALSE

(***************************************************************************)
(* What the documentation calls representable on both sides                *)
(***************************************************************************)
RECURSIVE Representable(_, _)
Representable(v, t) ==
  CASE t[1] = "bool" -> TRUE
    [] IsIntType(t) -> IntExact(v[3])                            \* "integers within range"
    [] t[1] \in {"f32", "f64"} -> TRUE                           \* NaN stays NaN, the sign of zero is kept
    [] t[1] = "str" -> Valid(v[2])
    [] t[1] = "slice" -> \A i \in DOMAIN v[3] : Representable(v[3][i], t[2])
    [] t[1] = "arr" -> \A i \in DOMAIN v[2] : Representable(v[2][i], t[3])
    [] t[1] = "map" -> /\ \A i \in DOMAIN v[3] : Valid(v[3][i][1]) /\ Representable(v[3][i][2], t[2])
                       /\ \A i, k \in DOMAIN v[3] : i # k => v[3][i][1] # v[3][k][1]
    [] t[1] = "struct" /\ JsFieldIdx(t) # 0 -> \A i \in DOMAIN t[3] : i = JsFieldIdx(t) \/ v[2][i] = ZeroVal(t[3][i][3])
    [] t[1] = "struct" -> \A i \in DOMAIN t[3] :
                            IF t[3][i][2] = 1 THEN Representable(v[2][i], t[3][i][3])
                            ELSE v[2][i] = ZeroVal(t[3][i][3])   \* unexported fields do not travel
    [] t[1] = "ptr" -> \/ (v[2] = 1 /\ JsFieldIdx(t[2]) = 0)                                          \* null is the nil pointer
                       \/ (v[2] = 0 /\ Representable(v[3], t[2]) /\ Externalize(v[3], t[2]) # JNull)
    [] t[1] = "func" -> TRUE                                     \* up to behaviour: the id is kept
    [] t[1] \in {"js", "wrap"} -> TRUE
    [] t[1] = "wrap2" -> v[2] = I(0, Z4)
    [] t[1] = "any" ->                                           \* only the types of the third column come back unchanged
         \/ v = <<"ifnil">>
         \/ /\ v[2] \in {TBool, TF64, TStr} \cup {TSlice(TypedBack(k)) : k \in {"Int8Array", "Int16Array", "Int32Array", "Uint8Array", "Uint16Array", "Uint32Array", "Float32Array", "Float64Array"}}
            /\ (v[2][1] = "slice" => v[3][2] = 0)                \* a nil slice comes back as a nil interface
            /\ Representable(v[3], v[2])
         \/ /\ v[2] \in {TSlice(TAny), TMap(TAny)} /\ v[3][2] = 0 /\ Representable(v[3], v[2])

(***************************************************************************)
(* State: the function wrapper cache and the callback guard                *)
(*                                                                         *)
(* Cache: externalising Go function f allocates a JavaScript function the  *)
(* first time and returns the same one ever after.  Guard: Go code runs    *)
(* either inside a goroutine (cur # None) or directly from the JavaScript  *)
(* event loop (cur = None); an operation that has to block suspends the    *)
(* current goroutine in the first case and fails with ErrBlock in the      *)
(* second, leaving every goroutine as it was.                              *)
(***************************************************************************)
ErrBlock == "cannot block in JavaScript callback, fix by wrapping code in goroutine"

\* pure form used for scenarios: the JS function ids produced by externalising
\* the Go functions fs[1], fs[2], ... in this order with an initially empty cache
RECURSIVE CacheRun(_, _, _)
CacheRun(fs, cache, next) ==
  IF fs = <<>> THEN <<>>
  ELSE LET f == Head(fs) IN
       IF f \in DOMAIN cache THEN <<cache[f]>> \o CacheRun(Tail(fs), cache, next)
       ELSE <<next>> \o CacheRun(Tail(fs), [x \in DOMAIN cache \cup {f} |-> IF x = f THEN next ELSE cache[x]], next + 1)
ExternalizeFuncs(fs) == CacheRun(fs, << >>, 1)

=============================================================================
