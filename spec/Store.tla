------------------------------- MODULE Store -------------------------------
(***************************************************************************)
(* Reference semantics for C07: arrays and structs are values; pointers,   *)
(* slices and maps alias.                                                  *)
(*                                                                         *)
(* The store is an object graph: a heap of locations, each location holding*)
(* one NODE (an array, a struct, the backing array of a slice, the entry   *)
(* table of a map, or a one-cell box for a pointed-to scalar).  A node has *)
(* a sequence of SLOTS.  A slot is                                         *)
(*    <<"i", n>>                 an integer                                *)
(*    <<"r", loc>>               a nested array/struct held BY VALUE: the  *)
(*                               slot owns location loc (ownership is a    *)
(*                               tree: invariant NoSharing)                *)
(*    <<"p", loc, k>>            a Go pointer: to the array/struct at loc  *)
(*                               (k = 0) or to slot k of the node at loc   *)
(*    <<"sl", loc, off, len, cap>> a slice of the backing node loc         *)
(*    <<"m", loc>>               a map (reference to its entry table)      *)
(*    <<"nil">>                  nil pointer / slice / map, absent entry   *)
(* Variables are slots of the environment env (name -> slot).              *)
(*                                                                         *)
(* Go's value semantics is the operator CopySlot: it duplicates along "r"  *)
(* edges (array and struct constructors) and stops at every reference leaf *)
(* ("p", "sl", "m"), which is copied as the same reference.  CopyInto is   *)
(* the same copy performed in place (assignment to existing storage keeps  *)
(* the identity of the destination, so pointers into it stay valid).       *)
(* Every copying context of Go (assignment, define, argument, result,      *)
(* range value, send/receive, map store/load, element/field store,         *)
(* composite literal element, boxing/unboxing, method value capture,       *)
(* value receiver, array range snapshot, append beyond capacity) is the    *)
(* instruction "cp"; every aliasing context (&x, &x.f, &a[i], &s[i],       *)
(* address of a package variable, sub-slice, append within capacity,       *)
(* closure capture, pointer receiver) creates a reference to an EXISTING   *)
(* cell ("addr", "sub", "app" within capacity) and never copies.           *)
(*                                                                         *)
(* A scenario program is a sequence of instructions (see Exec1).  The      *)
(* parameter skip is a set of context tags whose "cp" does NOT copy but    *)
(* shares the source node (what JavaScript does when the translator forgot *)
(* a clone): StoreScen uses it to mark the scenarios on which a missing    *)
(* copy in that context is observable, and the harness uses the same mark  *)
(* as "non-trivial".  The reference semantics is skip = {}.                *)
(*                                                                         *)
(* The harness (harness/props/c07) renders every scenario that StoreScen   *)
(* enumerates as a Go function from per-context templates, compiles it with*)
(* the compiler under test and compares the printed probe integers with    *)
(* st.out computed here; native Go guards the specification.               *)
(***************************************************************************)
EXTENDS Integers, Sequences, FiniteSets, TLC

\* ---------------------------------------------------------------- types
\* <<"int">>  <<"arr", T>> = [2]T   <<"st", T1, T2>> = struct{a T1; b T2}
\* <<"emb", T1, T2>> = struct{E; b T2} with E a named struct type of shape T1
\* <<"ptr", T>> = *T   <<"sl", T>> = []T (two elements)   <<"mp", T>> = map[int32]T (keys 1, 2)
IsAgg(t) == t[1] \in {"arr", "st", "emb"}
KidTypes(t) == IF t[1] = "arr" THEN <<t[2], t[2]>> ELSE <<t[2], t[3]>>
NodeKind(t) == IF t[1] = "arr" THEN "a" ELSE "s"

\* ---------------------------------------------------------------- heap
Alloc(h, node) == Append(h, node)          \* the new location is Len(h) + 1
Kids(h, loc) == h[loc][2]
SetKid(h, loc, i, slot) == [h EXCEPT ![loc] = <<h[loc][1], [h[loc][2] EXCEPT ![i] = slot]>>]

\* Fresh(h, t, n): a value of type t whose integer leaves are n, n+1, ... in
\* depth-first order (through pointers, slices and maps).  Result <<h', slot, n'>>.
RECURSIVE Fresh(_, _, _), FreshSeq(_, _, _, _, _)
FreshSeq(h, ts, i, n, acc) ==
  IF i > Len(ts) THEN <<h, acc, n>>
  ELSE LET r == Fresh(h, ts[i], n) IN FreshSeq(r[1], ts, i + 1, r[3], Append(acc, r[2]))
Fresh(h, t, n) ==
  CASE t[1] = "int" -> <<h, <<"i", n>>, n + 1>>
    [] IsAgg(t) -> LET r == FreshSeq(h, KidTypes(t), 1, n, <<>>)
                       h2 == Alloc(r[1], <<NodeKind(t), r[2]>>)
                   IN <<h2, <<"r", Len(h2)>>, r[3]>>
    [] t[1] = "ptr" -> LET r == Fresh(h, t[2], n) IN
                       IF r[2][1] = "r" THEN <<r[1], <<"p", r[2][2], 0>>, r[3]>>
                       ELSE LET h2 == Alloc(r[1], <<"b", <<r[2]>>>>) IN <<h2, <<"p", Len(h2), 1>>, r[3]>>
    [] t[1] = "sl" -> LET r == FreshSeq(h, <<t[2], t[2]>>, 1, n, <<>>)
                          h2 == Alloc(r[1], <<"a", r[2]>>)
                      IN <<h2, <<"sl", Len(h2), 0, 2, 2>>, r[3]>>
    [] t[1] = "mp" -> LET r == Fresh(h, t[2], n)            \* one entry, key 1; key 2 absent
                          h2 == Alloc(r[1], <<"m", <<r[2], <<"nil">>>>>>)
                      IN <<h2, <<"m", Len(h2)>>, r[3]>>

\* the zero value (only ever stored in the unobservable spare capacity of a slice)
RECURSIVE Zero(_, _), ZeroSeq(_, _, _, _)
ZeroSeq(h, ts, i, acc) ==
  IF i > Len(ts) THEN <<h, acc>>
  ELSE LET r == Zero(h, ts[i]) IN ZeroSeq(r[1], ts, i + 1, Append(acc, r[2]))
Zero(h, t) ==
  CASE t[1] = "int" -> <<h, <<"i", 0>>>>
    [] IsAgg(t) -> LET r == ZeroSeq(h, KidTypes(t), 1, <<>>)
                       h2 == Alloc(r[1], <<NodeKind(t), r[2]>>)
                   IN <<h2, <<"r", Len(h2)>>>>
    [] OTHER -> <<h, <<"nil">>>>

\* Leaves(h, slot): the integers a deep read of the value observes, depth first.
RECURSIVE Leaves(_, _), LeavesSeq(_, _, _, _)
LeavesSeq(h, slots, lo, hi) ==
  IF lo > hi THEN <<>> ELSE Leaves(h, slots[lo]) \o LeavesSeq(h, slots, lo + 1, hi)
Leaves(h, s) ==
  CASE s[1] = "i" -> <<s[2]>>
    [] s[1] = "r" -> LeavesSeq(h, Kids(h, s[2]), 1, Len(Kids(h, s[2])))
    [] s[1] = "p" -> IF s[3] = 0 THEN Leaves(h, <<"r", s[2]>>) ELSE Leaves(h, Kids(h, s[2])[s[3]])
    [] s[1] = "sl" -> LeavesSeq(h, Kids(h, s[2]), s[3] + 1, s[3] + s[4])
    [] s[1] = "m" -> LeavesSeq(h, Kids(h, s[2]), 1, Len(Kids(h, s[2])))
    [] s[1] = "nil" -> <<>>

\* ---------------------------------------------------------------- Copy
\* CopySlot(h, s) = <<h', s'>>: duplicate along "r" edges, stop at reference leaves.
RECURSIVE CopySlot(_, _), CopyKids(_, _, _, _)
CopyKids(h, kids, i, acc) ==
  IF i > Len(kids) THEN <<h, acc>>
  ELSE LET r == CopySlot(h, kids[i]) IN CopyKids(r[1], kids, i + 1, Append(acc, r[2]))
CopySlot(h, s) ==
  IF s[1] = "r"
  THEN LET r == CopyKids(h, Kids(h, s[2]), 1, <<>>)
           h2 == Alloc(r[1], <<h[s[2]][1], r[2]>>)
       IN <<h2, <<"r", Len(h2)>>>>
  ELSE <<h, s>>

\* CopyInto(h, d, s): the same copy, into the existing node d (both have one shape)
RECURSIVE CopyInto(_, _, _), CopyIntoFrom(_, _, _, _)
CopyIntoFrom(h, d, s, i) ==
  IF i > Len(Kids(h, s)) THEN h
  ELSE LET sk == Kids(h, s)[i]
           dk == Kids(h, d)[i]
       IN IF sk[1] = "r" /\ dk[1] = "r"
          THEN CopyIntoFrom(CopyInto(h, dk[2], sk[2]), d, s, i + 1)
          ELSE CopyIntoFrom(SetKid(h, d, i, sk), d, s, i + 1)
CopyInto(h, d, s) == IF d = s THEN h ELSE CopyIntoFrom(h, d, s, 1)

\* locations reachable from a slot along "r" edges only (the value itself)
RECURSIVE RReach(_, _), RReachSeq(_, _, _)
RReachSeq(h, slots, i) == IF i > Len(slots) THEN {} ELSE RReach(h, slots[i]) \cup RReachSeq(h, slots, i + 1)
RReach(h, s) == IF s[1] = "r" THEN {s[2]} \cup RReachSeq(h, Kids(h, s[2]), 1) ELSE {}

\* reference leaves of a value, in order (they must be preserved by Copy)
RECURSIVE RefLeaves(_, _), RefLeavesSeq(_, _, _)
RefLeavesSeq(h, slots, i) == IF i > Len(slots) THEN <<>> ELSE RefLeaves(h, slots[i]) \o RefLeavesSeq(h, slots, i + 1)
RefLeaves(h, s) ==
  CASE s[1] = "r" -> RefLeavesSeq(h, Kids(h, s[2]), 1)
    [] s[1] \in {"p", "sl", "m", "nil"} -> <<s>>
    [] OTHER -> <<>>

\* Post-condition of Copy, checked by TLC on every enumerated shape (StoreScen.CopyOK):
\* the copy shares no array/struct location with the original, allocates only,
\* observes the same integers and holds the very same references.
CopyPost(h, s) ==
  LET r == CopySlot(h, s) IN
  /\ RReach(r[1], r[2]) \cap RReach(r[1], s) = {}
  /\ \A l \in 1..Len(h) : r[1][l] = h[l]
  /\ Leaves(r[1], r[2]) = Leaves(h, s)
  /\ RefLeaves(r[1], r[2]) = RefLeaves(h, s)
  /\ Cardinality(RReach(r[1], r[2])) = Cardinality(RReach(h, s))

\* ---------------------------------------------------------------- state, cells, places
\* st = [h |-> heap, env |-> [name -> slot], out |-> printed integers, ok |-> invariants so far]
St0 == [h |-> <<>>, env |-> <<>>, out |-> <<>>, ok |-> TRUE]
Bound(st, name) == name \in DOMAIN st.env
Bind(st, name, slot) == [st EXCEPT !.env = (name :> slot) @@ st.env]

\* A cell is an addressable slot: <<"var", name>>, <<"kid", loc, i>>, or
\* <<"node", loc>> (the array/struct at loc as a whole, reached through a pointer).
ReadCell(st, c) ==
  CASE c[1] = "var" -> st.env[c[2]]
    [] c[1] = "kid" -> Kids(st.h, c[2])[c[3]]
    [] c[1] = "node" -> <<"r", c[2]>>

\* one step of an access path.  <<"f", i>> field i, <<"e", i>> array element i,
\* <<"k", i>> map entry with key i, <<"s", i>> slice element i (all 1-based), <<"d", 0>> dereference
StepCell(st, c, step) ==
  LET v == ReadCell(st, c) IN
  CASE step[1] \in {"f", "e", "k"} -> <<"kid", v[2], step[2]>>
    [] step[1] = "s" -> <<"kid", v[2], v[3] + step[2]>>
    [] step[1] = "d" -> IF v[3] = 0 THEN <<"node", v[2]>> ELSE <<"kid", v[2], v[3]>>

RECURSIVE WalkCell(_, _, _, _)
WalkCell(st, c, path, i) == IF i > Len(path) THEN c ELSE WalkCell(st, StepCell(st, c, path[i]), path, i + 1)
\* a place is <<variable name, path>>
Resolve(st, pl) == WalkCell(st, <<"var", pl[1]>>, pl[2], 1)
Read(st, pl) == ReadCell(st, Resolve(st, pl))
\* identity of storage: two places denote the same location
\* (a variable holding an array/struct IS that array/struct's location)
Canon(st, c) == LET v == ReadCell(st, c) IN IF v[1] = "r" THEN <<"node", v[2]>> ELSE c
SameStorage(st, p, q) == Canon(st, Resolve(st, p)) = Canon(st, Resolve(st, q))

WriteRaw(st, c, slot) ==
  CASE c[1] = "var" -> Bind(st, c[2], slot)
    [] c[1] = "kid" -> [st EXCEPT !.h = SetKid(st.h, c[2], c[3], slot)]

HoldsAgg(st, c) ==
  CASE c[1] = "node" -> TRUE
    [] c[1] = "var" -> Bound(st, c[2]) /\ st.env[c[2]][1] = "r"
    [] c[1] = "kid" -> ReadCell(st, c)[1] = "r"

\* store a COPY of the value v into cell c (Go: c = v)
WriteCopy(st, c, v) ==
  IF v[1] = "r"
  THEN IF HoldsAgg(st, c)
       THEN [st EXCEPT !.h = CopyInto(st.h, ReadCell(st, c)[2], v[2])]
       ELSE LET r == CopySlot(st.h, v) IN WriteRaw([st EXCEPT !.h = r[1]], c, r[2])
  ELSE WriteRaw(st, c, v)

\* what a translator that forgot the copy does: the destination shares v's node
WriteShare(st, c, v) ==
  IF c[1] = "node" THEN WriteCopy(st, c, v) ELSE WriteRaw(st, c, v)

\* pointer to a cell
AddrOf(st, c) ==
  LET v == ReadCell(st, c) IN
  IF v[1] = "r" THEN <<"p", v[2], 0>>
  ELSE <<"p", c[2], c[3]>>          \* only cells inside nodes hold pointed-to scalars

\* ---------------------------------------------------------------- invariant of the store
\* every array/struct location is owned by at most one "r" slot: values never share structure
MaxKids == 4      \* no node of a scenario has more slots
EnvR(st) == {x \in DOMAIN st.env : st.env[x][1] = "r"}
HeapR(st) == {e \in (1..Len(st.h)) \X (1..MaxKids) : e[2] <= Len(Kids(st.h, e[1])) /\ Kids(st.h, e[1])[e[2]][1] = "r"}
\* the owning edges have pairwise different targets
NoSharing(st) ==
  Cardinality({st.env[x][2] : x \in EnvR(st)} \cup {Kids(st.h, e[1])[e[2]][2] : e \in HeapR(st)})
    = Cardinality(EnvR(st)) + Cardinality(HeapR(st))

\* ---------------------------------------------------------------- instructions
\* <<"new", x, T, n>>            x := fresh value of type T, leaves n, n+1, ...
\* <<"cp", dst, src, tag>>       dst = src        (a COPYING context named tag)
\* <<"addr", x, src>>            x := &src        (an ALIASING context)
\* <<"set", pl, n>>              pl = n           (integer leaf)
\* <<"out", pl>>                 print the leaves of pl
\* <<"mksl", x, T, len, cap, n>> x := make([]T, len, cap); elements fresh from n
\* <<"sub", x, src, lo, hi, max>> x := src[lo:hi:max]   (0-based, max = -1: src[lo:hi])
\* <<"app", x, src, elem, tagElem, tagGrow>>  x := append(src, elem)
\* <<"cpsl", dst, src, tag>>     copy(dst, src)
\* <<"bind", x, src>>            x := src for a reference value (pointer, slice, map)
\* <<"mkmap", x>>                x := map[int32]T{}        <<"nil", x>>   x := nil slice
RECURSIVE MkSlice(_, _, _, _, _, _)
MkSlice(h, t, len, cap, n, acc) ==
  IF Len(acc) = cap THEN LET h2 == Alloc(h, <<"a", acc>>) IN <<h2, <<"sl", Len(h2), 0, len, cap>>>>
  ELSE IF Len(acc) < len
       THEN LET r == Fresh(h, t, n) IN MkSlice(r[1], t, len, cap, r[3], Append(acc, r[2]))
       ELSE LET r == Zero(h, t) IN MkSlice(r[1], t, len, cap, n, Append(acc, r[2]))

RECURSIVE CopyElems(_, _, _, _, _, _)
\* element-wise copy of k elements from slice s to slice d (skipping: share)
CopyElems(st, d, s, i, k, share) ==
  IF i > k THEN st
  ELSE LET v == Kids(st.h, s[2])[s[3] + i]
           c == <<"kid", d[2], d[3] + i>>
       IN CopyElems(IF share THEN WriteShare(st, c, v) ELSE WriteCopy(st, c, v), d, s, i + 1, k, share)

Min(a, b) == IF a < b THEN a ELSE b

Exec1(st, ins, skip) ==
  CASE ins[1] = "new" -> LET r == Fresh(st.h, ins[3], ins[4]) IN Bind([st EXCEPT !.h = r[1]], ins[2], r[2])
    [] ins[1] = "cp" -> LET v == Read(st, ins[3])
                            c == Resolve(st, ins[2])
                        IN IF ins[4] \in skip THEN WriteShare(st, c, v) ELSE WriteCopy(st, c, v)
    [] ins[1] = "addr" -> Bind(st, ins[2], AddrOf(st, Resolve(st, ins[3])))
    [] ins[1] = "bind" -> Bind(st, ins[2], Read(st, ins[3]))
    [] ins[1] = "set" -> WriteRaw(st, Resolve(st, ins[2]), <<"i", ins[3]>>)
    [] ins[1] = "out" -> [st EXCEPT !.out = st.out \o Leaves(st.h, Read(st, ins[2]))]
    [] ins[1] = "mksl" -> LET r == MkSlice(st.h, ins[3], ins[4], ins[5], ins[6], <<>>)
                          IN Bind([st EXCEPT !.h = r[1]], ins[2], r[2])
    [] ins[1] = "mkmap" -> LET h2 == Alloc(st.h, <<"m", <<<<"nil">>, <<"nil">>>>>>)
                           IN Bind([st EXCEPT !.h = h2], ins[2], <<"m", Len(h2)>>)
    [] ins[1] = "nil" -> Bind(st, ins[2], <<"nil">>)
    [] ins[1] = "sub" -> LET s0 == Read(st, ins[3])
                             \* slicing an array (variable or through a pointer) makes it the backing node
                             s == IF s0[1] = "r" THEN <<"sl", s0[2], 0, Len(Kids(st.h, s0[2])), Len(Kids(st.h, s0[2]))>> ELSE s0
                             mx == IF ins[6] < 0 THEN s[5] ELSE ins[6]
                         IN Bind(st, ins[2], <<"sl", s[2], s[3] + ins[4], ins[5] - ins[4], mx - ins[4]>>)
    [] ins[1] = "app" ->
         LET s == Read(st, ins[3])
             v == Read(st, ins[4])
         IN IF s[1] = "sl" /\ s[4] < s[5]
            THEN \* within capacity: the backing array is shared, the new element is stored into it
                 LET c == <<"kid", s[2], s[3] + s[4] + 1>>
                     st2 == IF ins[5] \in skip THEN WriteShare(st, c, v) ELSE WriteCopy(st, c, v)
                 IN Bind(st2, ins[2], <<"sl", s[2], s[3], s[4] + 1, s[5]>>)
            ELSE \* beyond capacity (or nil): a new backing array receives copies of the old elements
                 LET n == IF s[1] = "sl" THEN s[4] ELSE 0
                     ncap == IF n = 0 THEN 1 ELSE 2 * n
                     h2 == Alloc(st.h, <<"a", [i \in 1..ncap |-> <<"nil">>]>>)
                     d == <<"sl", Len(h2), 0, n + 1, ncap>>
                     st2 == CopyElems([st EXCEPT !.h = h2], d, s, 1, n, ins[6] \in skip)
                     c == <<"kid", d[2], n + 1>>
                     st3 == IF ins[5] \in skip THEN WriteShare(st2, c, v) ELSE WriteCopy(st2, c, v)
                 IN Bind(st3, ins[2], d)
    [] ins[1] = "cpsl" -> LET d == Read(st, ins[2])
                              s == Read(st, ins[3])
                          IN CopyElems(st, d, s, 1, Min(d[4], s[4]), ins[4] \in skip)

RECURSIVE ExecFrom(_, _, _, _)
ExecFrom(st, prog, i, skip) ==
  IF i > Len(prog) THEN st
  ELSE LET st2 == Exec1(st, prog[i], skip)
           st3 == [st2 EXCEPT !.ok = st2.ok /\ (skip # {} \/ NoSharing(st2))]
       IN ExecFrom(st3, prog, i + 1, skip)
Exec(prog, skip) == ExecFrom(St0, prog, 1, skip)
=============================================================================
