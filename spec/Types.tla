------------------------------- MODULE Types -------------------------------
(***************************************************************************)
(* Reference semantics of Go's dynamic types (C09): what the language      *)
(* specification says about                                                 *)
(*   - selectors through embedded fields (depth, shadowing, ambiguity),    *)
(*   - method sets of T and *T, interface method sets, `implements`,       *)
(*   - type assertions / type switches on interface values,                *)
(*   - which concrete method a call reaches and whether it works on the    *)
(*     original object or on a copy (calls, interface calls, method        *)
(*     values, method expressions),                                        *)
(*   - type identity (named types are identical only to themselves,        *)
(*     whatever they are called; unnamed types are identical by structure, *)
(*     non-exported names of different packages differ),                   *)
(*   - equality of interface values.                                       *)
(*                                                                         *)
(* Nothing here is shaped after GopherJS: every operator is a transcription *)
(* of a paragraph of the Go specification ("Selectors", "Method sets",     *)
(* "Struct types", "Interface types", "Type identity", "Comparison         *)
(* operators", "Method values", "Method expressions", "Calls").            *)
(*                                                                         *)
(* A *family* F is a record                                                 *)
(*   names  : sequence of method names ("M","N" exported, "m" unexported)   *)
(*   types  : sequence of declarations of named struct types                *)
(*              [name, pkg, fn, decl, emb]                                  *)
(*            name  Go identifier of the type                               *)
(*            pkg   declaring package: "main" | "pa" | "pb"                 *)
(*                  ("pa" = vp/pa, "pb" = vp/alt/pa: both have the package  *)
(*                   NAME pa, so their types print alike)                   *)
(*            fn    "" for a package-level type, else the function of       *)
(*                  package main the type is declared in (local type)       *)
(*            decl  decl[k] in {"-","v","p"}: method names[k] not declared, *)
(*                  declared with value receiver, with pointer receiver     *)
(*            emb   sequence of embedded fields <<kind, j>>, kind "v"       *)
(*                  (field T_j) or "p" (field *T_j); field order = order    *)
(*                  in the struct                                           *)
(*   ifaces : sequence of interface types [pkg, form, own, emb]             *)
(*            form "named" | "anon", own = sequence of method names,        *)
(*            emb = sequence of (smaller) indices of embedded interfaces    *)
(*                                                                         *)
(* TypesScen.tla enumerates families, checks the meta-properties at the     *)
(* end of this module on every one of them and emits the predicted tables;  *)
(* harness/props/c09 renders the families as Go programs.                   *)
(***************************************************************************)
EXTENDS Integers, Sequences, FiniteSets, TLC, Functions   \* Functions (CommunityModules): Range

MinOf(S) == CHOOSE x \in S : \A y \in S : x <= y

-----------------------------------------------------------------------------
(* Names.  "Non-exported method names from different packages are always    *)
(* different": a method identifier is the name, qualified by the package it *)
(* is written in unless it is exported.                                     *)
Exported(n) == n \in {"M", "N", "P", "X", "Y", "A", "B", "C", "D", "T"}     \* the upper-case names of the scenarios
MId(pkg, n) == IF Exported(n) THEN <<"", n>> ELSE <<pkg, n>>

\* package NAME (last element of the import path): what type strings show
PkgName(pkg) == IF pkg = "main" THEN "main" ELSE "pa"
\* import DAG of the scenario programs: main imports pa and pb, pa imports pb
PkgRank(pkg) == CASE pkg = "main" -> 0 [] pkg = "pa" -> 1 [] pkg = "pb" -> 2

NT(F) == Len(F.types)
Ty(F, i) == F.types[i]
DeclKey(F, i) == <<Ty(F, i).name, Ty(F, i).pkg, Ty(F, i).fn>>
\* the string run-time type descriptions carry (reflect's Type.String()):
\* NOT an identity - local types and equally named packages collide
TypeString(F, i) == <<PkgName(Ty(F, i).pkg), Ty(F, i).name>>

(* Type identity of named types: "A named type is always different from any *)
(* other type": two declarations are the same type only if they are the     *)
(* same declaration (same identifier, same scope).                          *)
IdenticalNamed(F, i, j) == DeclKey(F, i) = DeclKey(F, j)

\* methods declared on type i, as identifiers
DeclIdx(F, i) == {k \in DOMAIN F.names : Ty(F, i).decl[k] # "-"}
Declared(F, i) == {MId(Ty(F, i).pkg, F.names[k]) : k \in DeclIdx(F, i)}
RecvOf(F, i, mid) ==
  LET k == CHOOSE k \in DeclIdx(F, i) : MId(Ty(F, i).pkg, F.names[k]) = mid IN Ty(F, i).decl[k]

-----------------------------------------------------------------------------
(* Selectors.  "The depth of a field or method f declared in T is zero.     *)
(* The depth of a field or method f declared in an embedded field A in T is *)
(* the depth of f in A plus one.  For a value x of type T or *T, x.f        *)
(* denotes the field or method at the shallowest depth in T where there is  *)
(* such an f.  If there is not exactly one f with shallowest depth, the     *)
(* selector expression is illegal."                                         *)
(*                                                                         *)
(* Level(F,i,d) = the embedded fields at depth d below T_i, one entry per   *)
(* PATH (a type reached along two paths gives two f's: ambiguous).  `ind`   *)
(* records whether the path goes through an embedded pointer.               *)
MaxDepth == 3
Root(i) == [ty |-> i, ind |-> FALSE, path |-> <<>>]
Children(F, e) ==
  {[ty   |-> Ty(F, e.ty).emb[k][2],
    ind  |-> e.ind \/ Ty(F, e.ty).emb[k][1] = "p",
    path |-> Append(e.path, Ty(F, e.ty).emb[k][2])] : k \in DOMAIN Ty(F, e.ty).emb}
RECURSIVE Level(_, _, _)
Level(F, i, d) == IF d = 0 THEN {Root(i)} ELSE UNION {Children(F, e) : e \in Level(F, i, d - 1)}

Cands(F, i, mid, d) == {e \in Level(F, i, d) : mid \in Declared(F, e.ty)}

NoLookup(st, d) == [st |-> st, depth |-> d, ty |-> 0, ind |-> FALSE, path |-> <<>>, recv |-> "-"]
LookupDef(F, i, mid) ==
  LET ds == {d \in 0..MaxDepth : Cands(F, i, mid, d) # {}} IN
  IF ds = {} THEN NoLookup("none", 0)
  ELSE LET d == MinOf(ds)
           c == Cands(F, i, mid, d) IN
       IF Cardinality(c) > 1 THEN NoLookup("ambig", d)
       ELSE LET e == CHOOSE e \in c : TRUE IN
            [st |-> "found", depth |-> d, ty |-> e.ty, ind |-> e.ind, path |-> e.path,
             recv |-> RecvOf(F, e.ty, mid)]

(* Evaluation aid, not semantics: the operators below ask for the same       *)
(* selector thousands of times per family.  A family may carry the table of  *)
(* all its lookups (field lkc, built by Cached(F) below                     *)
(* from LookupDef and nothing else); Lookup reads it when it is there.       *)
(* SpecOK re-derives every entry from Cands on every family.                 *)
Lookup(F, i, mid) == IF "lkc" \in DOMAIN F THEN F.lkc[i][mid] ELSE LookupDef(F, i, mid)

-----------------------------------------------------------------------------
(* Interfaces: "the type set / method set of an interface is the union of   *)
(* its explicitly declared methods and those of its embedded interfaces".   *)
RECURSIVE IMethods(_, _)
IMethods(F, q) ==
  LET I == F.ifaces[q] IN
  {MId(I.pkg, I.own[k]) : k \in DOMAIN I.own} \cup UNION {IMethods(F, I.emb[k]) : k \in DOMAIN I.emb}

AllMIdsDef(F) == UNION {Declared(F, i) : i \in 1..NT(F)} \cup UNION {IMethods(F, q) : q \in DOMAIN F.ifaces}
AllMIds(F) == IF "mids" \in DOMAIN F THEN F.mids ELSE AllMIdsDef(F)

\* the family with its lookup table attached (see Lookup)
Cached(F) ==
  [names |-> F.names, types |-> F.types, ifaces |-> F.ifaces,
   mids  |-> AllMIdsDef(F),
   lkc   |-> TLCEval([i \in 1..NT(F) |-> [mid \in AllMIdsDef(F) |-> LookupDef(F, i, mid)]])]

(* Method sets.  A dynamic type is <<i, ptr>>: T_i or *T_i.  "The method    *)
(* set of a defined type T consists of all methods declared with receiver   *)
(* type T.  The method set of a pointer to a defined type T is the set of   *)
(* all methods declared with receiver *T or T."  Promoted methods belong to *)
(* it when the selector is legal and the receiver can be formed: a method   *)
(* with receiver *S reached from a VALUE of T needs an embedded pointer on  *)
(* the path (the embedded S inside an interface's copy is not addressable). *)
InMethodSet(r, ptr) == r.st = "found" /\ (ptr \/ r.ind \/ r.recv = "v")
MethodSet(F, i, ptr) == {mid \in AllMIds(F) : InMethodSet(Lookup(F, i, mid), ptr)}

(* The same, transcribed from the *other* formulation in the specification  *)
(* ("Struct types"): "Given a struct type S and a named type T, promoted    *)
(* methods are included in the method set of the struct as follows: if S    *)
(* contains an embedded field T, the method sets of S and *S both include   *)
(* promoted methods with receiver T; the method set of *S also includes     *)
(* promoted methods with receiver *T.  If S contains an embedded field *T,  *)
(* the method sets of S and *S both include promoted methods with receiver  *)
(* T or *T."  A method of the field is *promoted* when x.f is a legal       *)
(* selector that denotes it.  MethodSet = MethodSetRec is checked by TLC on *)
(* every enumerated family (SpecOK below).                                  *)
RECURSIVE MethodSetRec(_, _, _)
MethodSetRec(F, i, ptr) ==
  LET own == {mid \in Declared(F, i) : ptr \/ RecvOf(F, i, mid) = "v"}
      via(k) == LET kind == Ty(F, i).emb[k][1]
                    j == Ty(F, i).emb[k][2] IN
                {mid \in MethodSetRec(F, j, ptr \/ kind = "p") :
                   LET r == Lookup(F, i, mid) IN r.st = "found" /\ r.depth >= 1 /\ r.path[1] = j}
  IN own \cup UNION {via(k) : k \in DOMAIN Ty(F, i).emb}

(* "A type T implements an interface I if the method set of T includes the  *)
(* interface's": x.(I) on an interface value succeeds iff the dynamic type  *)
(* implements I.                                                            *)
Implements(F, i, ptr, q) == IMethods(F, q) \subseteq MethodSet(F, i, ptr)

(* The run time reports the missing method of a failed x.(I) in its panic   *)
(* message: the first one in the interface's sorted method list (by name,   *)
(* exported and unexported alike - byte order puts upper case first).       *)
NameRank(n) == CASE n = "M" -> 1 [] n = "N" -> 2 [] n = "P" -> 3 [] n = "m" -> 4 [] n = "n" -> 5 [] OTHER -> 9
Missing(F, i, ptr, q) ==
  LET miss == IMethods(F, q) \ MethodSet(F, i, ptr) IN
  IF miss = {} THEN "ok"
  ELSE (CHOOSE m \in miss : \A o \in miss : NameRank(m[2]) <= NameRank(o[2]))[2]

(* Type switch: "cases are matched top to bottom": an arm is                *)
(* <<"i", q>> (interface type) or <<"t", j, ptr>> (concrete type T_j/*T_j). *)
ArmMatches(F, i, ptr, arm) ==
  IF arm[1] = "i" THEN Implements(F, i, ptr, arm[2])
  ELSE IdenticalNamed(F, i, arm[2]) /\ ptr = arm[3]
SwitchArm(F, i, ptr, arms) ==
  LET hit == {a \in DOMAIN arms : ArmMatches(F, i, ptr, arms[a])} IN
  IF hit = {} THEN 0 ELSE MinOf(hit)

-----------------------------------------------------------------------------
(* Calls.  x.f() with a promoted f is x.A.B.f(): the method is the one the  *)
(* selector denotes (Lookup) and its receiver is that embedded object -     *)
(* itself when the method has a pointer receiver, a copy of it otherwise.   *)
(* Every method of the scenario programs increments the counter of its      *)
(* receiver and returns the counter it then sees, so a program observes     *)
(* whether two successive calls worked on the same object.  A probe is a    *)
(* short sequence of steps on ONE target object (the embedded object the     *)
(* selector's path leads to; afterwards the program reads that object's      *)
(* counter again through the variable, so a call that reached the right     *)
(* method of the WRONG embedded object is seen too):                         *)
(*   "bind"  evaluate a method value f := x.m   (Method values: "the        *)
(*           expression x is evaluated and saved during the evaluation of   *)
(*           the method value; the saved copy is then used as the receiver  *)
(*           in any calls" - for an interface operand the saved thing is    *)
(*           the interface value, i.e. the pointer when it holds one)       *)
(*   "bump"  the program increments the object's counter directly           *)
(*   "call"  call the method (or the saved method value)                    *)
(* Forms: direct x.m() on a variable; ifaceV / ifaceP through an interface  *)
(* holding T / *T; mvalV, mvalP method value of a variable / a pointer;     *)
(* mvalIV, mvalIP method value of an interface holding T / *T; mexprV       *)
(* T.m(x); mexprP ( *T).m(&x).                                             *)
Forms == <<"direct", "ifaceV", "ifaceP", "mvalV", "mvalP", "mvalIV", "mvalIP", "mexprV", "mexprP">>
Steps(form) ==
  CASE form \in {"mvalV", "mvalP", "mvalIP"} -> <<"bind", "bump", "call", "call">>
    [] form = "mvalIV" -> <<"bind", "call", "call">>
    [] OTHER -> <<"call", "call">>
\* does the operand of the form have the method? (value operands: method set of T;
\* addressable variables and pointers: method set of *T - "x.m() is shorthand for (&x).m()")
NeedsPtrSet(form) == form \in {"direct", "ifaceP", "mvalV", "mvalP", "mvalIP", "mexprP"}
\* a bound method value with a VALUE receiver holds a copy of the receiver unless the
\* saved operand is an interface holding a pointer (then the copy is made at each call)
BindCopies(form, recv) == recv = "v" /\ form \in {"mvalV", "mvalP", "mvalIV"}

\* st = [c: counter of the target object, saved: counter inside the bound copy or -1, out: results];
\* the observation is <<result of call 1, result of call 2, counter of the object afterwards>>
RECURSIVE RunSteps(_, _, _, _, _)
RunSteps(steps, k, form, recv, st) ==
  IF k > Len(steps) THEN <<st.out[1], st.out[2], st.c>>
  ELSE LET s == steps[k] IN
    RunSteps(steps, k + 1, form, recv,
      CASE s = "bind" -> [st EXCEPT !.saved = IF BindCopies(form, recv) THEN st.c ELSE -1]
        [] s = "bump" -> [st EXCEPT !.c = st.c + 1]
        [] s = "call" ->
             IF recv = "p" THEN [st EXCEPT !.c = st.c + 1, !.out = Append(st.out, st.c + 1)]      \* shared: the increment stays
             ELSE IF st.saved >= 0 THEN [st EXCEPT !.out = Append(st.out, st.saved + 1)]          \* copy made at bind time
             ELSE [st EXCEPT !.out = Append(st.out, st.c + 1)])                                   \* copy made now, increment lost
Observe(form, recv) == RunSteps(Steps(form), 1, form, recv, [c |-> 0, saved |-> -1, out |-> <<>>])

\* the probes of a family: every (type, method, form) whose operand has the method
Applicable(F, i, mid, form) == InMethodSet(Lookup(F, i, mid), NeedsPtrSet(form))
Dispatch(F, i, mid, form) ==
  LET r == Lookup(F, i, mid) IN [target |-> r.ty, recv |-> r.recv, path |-> r.path, seen |-> Observe(form, r.recv)]

-----------------------------------------------------------------------------
(* Interface equality: "Two interface values are equal if they have         *)
(* identical dynamic types and equal dynamic values".  The values of the    *)
(* scenario programs: <<i, "v", n>> the struct value made by the n-th call  *)
(* of T_i's constructor (all counters 0, every embedded pointer freshly     *)
(* allocated), <<i, "p", n>> the address of the n-th variable of type T_i.  *)
(* Struct values are equal field by field; pointers are equal when they     *)
(* point to the same variable: two constructions are equal iff the value    *)
(* contains no pointer.                                                     *)
RECURSIVE HasPtrInValue(_, _)
HasPtrInValue(F, i) ==
  \E k \in DOMAIN Ty(F, i).emb : Ty(F, i).emb[k][1] = "p" \/ HasPtrInValue(F, Ty(F, i).emb[k][2])
IfaceEq(F, a, b) ==
  /\ IdenticalNamed(F, a[1], b[1]) /\ a[2] = b[2]
  /\ (a[3] = b[3] \/ (a[2] = "v" /\ ~HasPtrInValue(F, a[1])))

-----------------------------------------------------------------------------
(* Type expressions and the identity of unnamed types ("Type identity").    *)
(* D is a sequence of declarations [name, pkg, fn, under] of named types, a *)
(* site [pkg, fn] is where an expression is written.  Expressions:          *)
(*   <<"basic", b>>                                                         *)
(*   <<"id", qual, name>>      identifier; qual = "" or the imported package *)
(*   <<"ptr", e>> <<"slice", e>> <<"chan", e>> <<"func", e>> (= func(e))    *)
(*   <<"array", n, e>>  <<"map", k, e>>                                      *)
(*   <<"struct", << <<fname, e, embedded, tag>>, ... >> >>                   *)
(*   <<"iface", <<method names>> >>                                          *)
(* Resolution of an identifier follows Go's block scoping: the innermost    *)
(* declaration wins, a qualified identifier names a package-level           *)
(* declaration of that package.                                             *)
DeclAt(D, name, pkg, fn) == {d \in DOMAIN D : D[d].name = name /\ D[d].pkg = pkg /\ D[d].fn = fn}
Resolvable(D, site, qual, name) ==
  IF qual # "" THEN DeclAt(D, name, qual, "") # {}
  ELSE DeclAt(D, name, site.pkg, site.fn) # {} \/ DeclAt(D, name, site.pkg, "") # {}
ResolveId(D, site, qual, name) ==
  IF qual # "" THEN CHOOSE d \in DeclAt(D, name, qual, "") : TRUE
  ELSE IF site.fn # "" /\ DeclAt(D, name, site.pkg, site.fn) # {} THEN CHOOSE d \in DeclAt(D, name, site.pkg, site.fn) : TRUE
  ELSE CHOOSE d \in DeclAt(D, name, site.pkg, "") : TRUE

\* resolved type: identifiers replaced by <<"named", d>>, non-exported field and
\* method names qualified by the package of the site
RECURSIVE Res(_, _, _)
ResField(D, site, f) ==
  LET t == Res(D, site, f[2]) IN
  <<(IF f[3] THEN <<"", D[(IF t[1] = "ptr" THEN t[2] ELSE t)[2]].name>> ELSE MId(site.pkg, f[1])), t, f[3], f[4]>>
Res(D, site, e) ==
  CASE e[1] = "basic" -> e
    [] e[1] = "id" -> <<"named", ResolveId(D, site, e[2], e[3])>>
    [] e[1] \in {"ptr", "slice", "chan", "func"} -> <<e[1], Res(D, site, e[2])>>
    [] e[1] = "array" -> <<"array", e[2], Res(D, site, e[3])>>
    [] e[1] = "map" -> <<"map", Res(D, site, e[2]), Res(D, site, e[3])>>
    [] e[1] = "struct" -> <<"struct", [k \in DOMAIN e[2] |-> ResField(D, site, e[2][k])]>>
    [] e[1] = "iface" -> <<"iface", {MId(site.pkg, e[2][k]) : k \in DOMAIN e[2]}>>

(* "Two types are either identical or different.  A named type is always    *)
(* different from any other type.  Otherwise, two types are identical if    *)
(* their underlying type literals are structurally equivalent":             *)
RECURSIVE Identical(_, _)
Identical(a, b) ==
  IF a[1] # b[1] THEN FALSE
  ELSE CASE a[1] = "basic" -> a[2] = b[2]
    [] a[1] = "named" -> a[2] = b[2]                                   \* same declaration
    [] a[1] \in {"ptr", "slice", "chan", "func"} -> Identical(a[2], b[2])
    [] a[1] = "array" -> a[2] = b[2] /\ Identical(a[3], b[3])          \* same length, identical elements
    [] a[1] = "map" -> Identical(a[2], b[2]) /\ Identical(a[3], b[3])
    [] a[1] = "struct" ->                                              \* same sequence of fields: names (non-exported names of
         /\ Len(a[2]) = Len(b[2])                                      \* different packages differ), types, tags, embedded-ness
         /\ \A k \in DOMAIN a[2] :
              /\ a[2][k][1] = b[2][k][1] /\ a[2][k][3] = b[2][k][3] /\ a[2][k][4] = b[2][k][4]
              /\ Identical(a[2][k][2], b[2][k][2])
    [] a[1] = "iface" -> a[2] = b[2]                                   \* same method set (all scenario methods have one signature)

(* "Comparison operators": slice, map and function types are not            *)
(* comparable; structs and arrays are if their fields / elements are.       *)
(* Comparing two interface values with identical dynamic types that are not *)
(* comparable "causes a run-time panic".                                    *)
RECURSIVE Comparable(_, _)
Comparable(D, t) ==
  CASE t[1] \in {"basic", "ptr", "chan", "iface"} -> TRUE
    [] t[1] \in {"slice", "map", "func"} -> FALSE
    [] t[1] = "array" -> Comparable(D, t[3])
    [] t[1] = "struct" -> \A k \in DOMAIN t[2] : Comparable(D, t[2][k][2])
    [] t[1] = "named" -> LET d == D[t[2]] IN Comparable(D, Res(D, [pkg |-> d.pkg, fn |-> d.fn], d.under))
\* x == y for the zero values of two dynamic types, boxed in interfaces
ZeroEq(D, a, b) == IF ~Identical(a, b) THEN "F" ELSE IF Comparable(D, a) THEN "T" ELSE "P"

\* meta-properties over a set S of resolved types: identity is an equivalence and
\* coincides with equality of resolved types (they are canonical forms)
IdentOK(S) ==
  /\ \A a \in S : Identical(a, a)
  /\ \A a, b \in S : Identical(a, b) = Identical(b, a)
  /\ \A a, b \in S : Identical(a, b) = (a = b)
  /\ \A a, b, c \in S : Identical(a, b) /\ Identical(b, c) => Identical(a, c)

-----------------------------------------------------------------------------
(* Well-formed families = programs the Go compiler accepts.                 *)
Reach(F, i) == UNION {{e.ty : e \in Level(F, i, d)} : d \in 0..MaxDepth}
WellFormed(F) ==
  /\ \A i, j \in 1..NT(F) : i # j => DeclKey(F, i) # DeclKey(F, j)             \* no redeclaration in one scope
  /\ \A i \in 1..NT(F) :
       LET t == Ty(F, i) IN
       /\ (t.fn # "" => t.pkg = "main" /\ DeclIdx(F, i) = {})                     \* local types have no methods
       /\ \A k \in DOMAIN t.emb :
            LET j == t.emb[k][2] IN
            /\ j > i /\ j <= NT(F)                                                \* no recursive struct types
            /\ PkgRank(t.pkg) <= PkgRank(Ty(F, j).pkg)                            \* importable
            /\ (Ty(F, j).fn # "" => t.fn = Ty(F, j).fn)                           \* local types are visible in their function only
            /\ (t.fn # "" /\ Ty(F, j).fn = "" /\ Ty(F, j).pkg = "main" =>             \* ... and shadow package-level types of the same name
                  \A l \in 1..NT(F) : Ty(F, l).fn = t.fn => Ty(F, l).name # Ty(F, j).name)
       /\ \A k, l \in DOMAIN t.emb : k # l => Ty(F, t.emb[k][2]).name # Ty(F, t.emb[l][2]).name  \* field names unique
  /\ \A q \in DOMAIN F.ifaces : \A k \in DOMAIN F.ifaces[q].emb :
       /\ F.ifaces[q].emb[k] < q
       /\ F.ifaces[F.ifaces[q].emb[k]].form = "named"
       /\ PkgRank(F.ifaces[q].pkg) <= PkgRank(F.ifaces[F.ifaces[q].emb[k]].pkg)

-----------------------------------------------------------------------------
(* Meta-properties of the definitions above; TLC evaluates SpecOK on every  *)
(* family it enumerates (TypesScen: INVARIANT SpecInv).                     *)
SpecOK(F) ==
  \A i \in 1..NT(F) :
    /\ MethodSet(F, i, FALSE) \subseteq MethodSet(F, i, TRUE)                    \* MethodSet(T) is part of MethodSet of *T
    /\ \A ptr \in BOOLEAN : MethodSet(F, i, ptr) = MethodSetRec(F, i, ptr)       \* the two formulations of the spec agree
    /\ \A mid \in AllMIds(F) :
         LET r == Lookup(F, i, mid) IN
         /\ r = LookupDef(F, i, mid)                                              \* an attached table holds the definition's values
         /\ (r.st = "found" =>
               /\ \A d \in 0..(r.depth - 1) : Cands(F, i, mid, d) = {}           \* never a deeper method when a shallower one exists
               /\ Cands(F, i, mid, r.depth) = {[ty |-> r.ty, ind |-> r.ind, path |-> r.path]}
               /\ Len(r.path) = r.depth
               /\ mid \in Declared(F, r.ty))
         /\ (r.st = "ambig" => mid \notin MethodSet(F, i, TRUE))                 \* an ambiguous selector promotes nothing
         /\ (mid \in MethodSet(F, i, FALSE) /\ r.recv = "p" => r.ind)            \* pointer receivers on values only behind a pointer
         /\ (mid \in Declared(F, i) => r.st = "found" /\ r.depth = 0)            \* own methods shadow everything
    /\ \A q \in DOMAIN F.ifaces :
         /\ (Implements(F, i, FALSE, q) => Implements(F, i, TRUE, q))
         /\ \A ptr \in BOOLEAN : (Missing(F, i, ptr, q) = "ok") = Implements(F, i, ptr, q)
         /\ \A k \in DOMAIN F.ifaces[q].emb :                                    \* embedding an interface only adds requirements
              \A ptr \in BOOLEAN : Implements(F, i, ptr, q) => Implements(F, i, ptr, F.ifaces[q].emb[k])
    /\ \A j \in 1..NT(F) : IdenticalNamed(F, i, j) = (i = j)                     \* distinct declarations, distinct types
    /\ \A form \in Range(Forms) :                                                \* a pointer receiver always shares, a value receiver never
         /\ Observe(form, "p")[2] = Observe(form, "p")[1] + 1 /\ Observe(form, "p")[3] = Observe(form, "p")[2]
         /\ Observe(form, "v")[2] = Observe(form, "v")[1] /\ Observe(form, "v")[3] \in {0, 1}

=============================================================================
