---------------------------- MODULE SyncPrimsScen ----------------------------
(***************************************************************************)
(* Scenario enumeration for the stateful part of C13: ALL histories of     *)
(* length <= maxlen over the operation alphabet of each primitive, with    *)
(* the outcome SyncPrims.tla predicts for every step, for package sync     *)
(* (ref) and for its single-threaded replacement (impl).                   *)
(*                                                                         *)
(* A state is one history (the history is part of the state, so nothing is *)
(* merged): the reachable states are exactly the histories, for Pool the   *)
(* (history, resolution of Get) pairs.  The invariants are evaluated on    *)
(* every history; Emit writes one line per history of full length          *)
(* (shorter histories are prefixes of those, with the same outcomes):      *)
(*     <<primitive index, op indices, ref outcomes, impl outcomes>>        *)
(* The harness replays every line on gopherjs/nosync (native and compiled  *)
(* with GopherJS) against `impl`, and on the host's package sync against   *)
(* `ref` (specification guard).                                            *)
(*                                                                         *)
(* Parameters: SyncCfgs of module C13Params (written by the harness for    *)
(* each run; the copy in spec/ holds the quick-tier values):               *)
(*    << [name |-> ..., maxlen |-> n, ops |-> << <<name, a, b>>, ... >>] >> *)
(* output: c13_sync.<index>.ndjson                                         *)
(***************************************************************************)
EXTENDS SyncPrims, C13Params, Json, CSV

\* (A JSON parameter file read with JsonDeserialize would be parsed again on
\* every use of the definition: TLC does not cache definitions that call a Java
\* module override.  The parameters are therefore a generated TLA+ module.)
Cfgs == SyncCfgs

ASSUME \A i \in 1..Len(Cfgs) : /\ Cfgs[i].name \in Prims
                                /\ \A j \in 1..Len(Cfgs[i].ops) : Cfgs[i].ops[j][1] \in OpsOf(Cfgs[i].name)

VARIABLES pi, hist, st, prev, ref, impl
vars == <<pi, hist, st, prev, ref, impl>>

P == Cfgs[pi].name
PMax == Cfgs[pi].maxlen
POps == Cfgs[pi].ops

Init == /\ pi \in 1..Len(Cfgs)
        /\ hist = <<>> /\ ref = <<>> /\ impl = <<>>
        /\ st = InitOf(P) /\ prev = InitOf(P)

Next == /\ Len(hist) < PMax
        /\ \E j \in 1..Len(POps) :
             \E r \in Step(P, st, POps[j]) :
               /\ hist' = Append(hist, j)
               /\ prev' = st
               /\ st' = r.st
               /\ ref' = Append(ref, r.ref)
               /\ impl' = Append(impl, r.impl)
        /\ UNCHANGED pi

Spec == Init /\ [][Next]_vars

(***************************************************************************)
(* Invariants of the specification itself                                  *)
(***************************************************************************)
N == Len(hist)
LastOp == POps[hist[N]]
LastRef == ref[N]
LastImpl == impl[N]
OpAt(i) == POps[hist[i]]

TypeOK == TypeOKOf(P, st) /\ Len(ref) = N /\ Len(impl) = N

\* a contended or fatal step changes nothing; the replacement panics exactly there
NoEffect == N > 0 /\ LastRef[1] \in {BLOCK, FATAL} => st = prev /\ LastImpl[1] = PANIC
\* the two predictions differ only where sync blocks or aborts (directly, or
\* in the nested Do of Once)
ModesAgree == \A i \in 1..N : ref[i] # impl[i] =>
                 \/ ref[i][1] \in {BLOCK, FATAL}
                 \/ P = "Once" /\ ref[i][3] = BLOCK /\ impl[i][3] = PANIC

MutexInv == P = "Mutex" /\ N > 0 =>
  /\ (LastOp[1] = "Lock" /\ LastRef = <<OK>> => ~prev.locked /\ st.locked)        \* acquired only when free
  /\ (LastOp[1] = "TryLock" => (LastRef = <<OK, 1>>) = ~prev.locked /\ st.locked)
  /\ (LastOp[1] = "Unlock" /\ LastRef = <<OK>> => prev.locked /\ ~st.locked)

RWInv == P = "RWMutex" =>
  /\ RWExclusion(st)
  /\ (N > 0 /\ LastOp[1] = "Lock" /\ LastRef = <<OK>> => ~prev.w /\ prev.r = 0)
  /\ (N > 0 /\ LastOp[1] \in {"RLock", "RLocker.Lock"} /\ LastRef = <<OK>> => ~prev.w /\ st.r = prev.r + 1)

\* the counter goes negative only in a step that panics; Wait returns only at zero
WGInv == P = "WaitGroup" /\ N > 0 =>
  /\ (LastOp[1] \in {"Add", "Done"} => (st.n < 0) = (LastRef = <<PANIC>>))
  /\ (LastOp[1] = "Wait" => (LastRef = <<OK>>) = (st.n = 0) /\ st = prev)

\* f runs at most once over the whole history, and not at all once a Do has completed
OnceInv == P = "Once" =>
  /\ OnceAtMostOnce(st)
  /\ (N > 0 => st.done /\ st.calls = 1)
  /\ \A i \in 2..N : ref[i] = <<OK, 1, None>>

MapInv == P = "Map" =>
  /\ MapFunctional(st)
  /\ (N > 0 /\ LastOp[1] = "Load" /\ LastOp[2] # 0 => (LastRef[2] = 1) = Has(st, LastOp[2]))
  /\ (N > 0 /\ LastOp[1] \in {"Store", "Swap"} /\ LastOp[2] # 0 => <<LastOp[2], LastOp[3]>> \in st)
  /\ (N > 0 /\ LastOp[1] \in {"Delete", "LoadAndDelete"} => ~Has(st, LastOp[2]))

\* conservation: every value handed out by Get from the pool was put before and not handed out since
PoolInv == P = "Pool" =>
  \A v \in PoolVals :
     Cardinality({i \in 1..N : OpAt(i)[1] = "Put" /\ OpAt(i)[2] = v})
       = st.bag[v] + Cardinality({i \in 1..N : OpAt(i)[1] = "Get" /\ ref[i] = <<OK, v>>})

(***************************************************************************)
(* Emission (an "invariant" evaluated for its side effect).                *)
(***************************************************************************)
OutFile(i) == "c13_sync." \o ToString(i) \o ".ndjson"
Emit == N = PMax => CSVWrite("%1$s", <<ToJson(<<pi, hist, ref, impl>>)>>, OutFile(pi))
=============================================================================
