--------------------------- MODULE JsMappingState ---------------------------
(***************************************************************************)
(* State part of the Go <-> JavaScript mapping (C11): one action per       *)
(* critical step of                                                        *)
(*   - $externalizeFunction: the wrapper cache (v.$externalizeWrapper)     *)
(*     that makes the same Go function arrive as the same JavaScript       *)
(*     function however often and by whatever route it is handed over;     *)
(*   - $block / $schedule as far as the callback guard is concerned: Go    *)
(*     code runs either inside a goroutine (cur # None) or directly from   *)
(*     the JavaScript event loop (cur = None); an operation that has to    *)
(*     block suspends the current goroutine in the first case and fails    *)
(*     with ErrBlock in the second, leaving every goroutine as it was.     *)
(* TLC checks (cfg written by the harness: SPECIFICATION StateSpec)        *)
(*   CacheFunctional, CacheAgreesWithPure  (the pure ExternalizeFuncs of   *)
(*     JsMapping, which predicts the identity scenarios, is the same       *)
(*     relation as the stateful cache),                                    *)
(*   GuardConsistent, and the action property GuardNoCorruption.           *)
(***************************************************************************)
EXTENDS JsMapping

CONSTANTS GoFuncs,       \* Go function values
          Goroutines,    \* goroutine identities
          MaxExt         \* bound on externalisations / callbacks explored
None == "none"

VARIABLES cache,         \* Go function -> JavaScript function id (partial)
          handed,        \* sequence of <<Go function, JS function id>> handed to JavaScript so far
          cur,           \* current goroutine or None
          asleep,        \* [Goroutines -> BOOLEAN]
          awake,         \* the run time's counter of goroutines that are not asleep
          waiting,       \* goroutines blocked on the (single, unbuffered) channel as receivers
          err,           \* error raised by the last callback ("" = none)
          steps
svars == <<cache, handed, cur, asleep, awake, waiting, err, steps>>

StateInit ==
  /\ cache = << >> /\ handed = <<>> /\ cur = None
  /\ asleep = [g \in Goroutines |-> FALSE] /\ awake = Cardinality(Goroutines)
  /\ waiting = {} /\ err = "" /\ steps = 0

ExternalizeFunc(f) ==
  /\ steps < MaxExt /\ steps' = steps + 1
  /\ (IF f \in DOMAIN cache
        THEN /\ cache' = cache
             /\ handed' = Append(handed, <<f, cache[f]>>)
        ELSE LET id == Cardinality(DOMAIN cache) + 1 IN
             /\ cache' = [x \in DOMAIN cache \cup {f} |-> IF x = f THEN id ELSE cache[x]]
             /\ handed' = Append(handed, <<f, id>>))
  /\ UNCHANGED <<cur, asleep, awake, waiting, err>>

\* the scheduler resumes a goroutine that is not asleep
Resume(g) == /\ cur = None /\ ~asleep[g] /\ cur' = g /\ err' = ""
             /\ UNCHANGED <<cache, handed, asleep, awake, waiting, steps>>
\* the running goroutine yields
Yield == /\ cur # None /\ cur' = None /\ UNCHANGED <<cache, handed, asleep, awake, waiting, err, steps>>
\* the running code receives from the empty channel: $block
BlockingRecv ==
  /\ steps < MaxExt /\ steps' = steps + 1
  /\ (IF cur = None
        THEN /\ err' = ErrBlock                                   \* JavaScript callback: documented error,
             /\ UNCHANGED <<cur, asleep, awake, waiting>>         \* nothing else changes
        ELSE /\ asleep' = [asleep EXCEPT ![cur] = TRUE] /\ awake' = awake - 1
             /\ waiting' = waiting \cup {cur} /\ cur' = None /\ err' = "")
  /\ UNCHANGED <<cache, handed>>
\* the running code (goroutine or callback) sends: wakes one waiting receiver, never blocks here
SendWake(g) ==
  /\ g \in waiting /\ waiting' = waiting \ {g}
  /\ asleep' = [asleep EXCEPT ![g] = FALSE] /\ awake' = awake + 1
  /\ UNCHANGED <<cache, handed, cur, err, steps>>

StateNext ==
  \/ \E f \in GoFuncs : ExternalizeFunc(f)
  \/ \E g \in Goroutines : Resume(g) \/ SendWake(g)
  \/ Yield \/ BlockingRecv
StateSpec == StateInit /\ [][StateNext]_svars

\* the same Go function always arrives as the same JavaScript function,
\* different functions as different ones
CacheFunctional == \A i, k \in DOMAIN handed : handed[i][1] = handed[k][1] <=> handed[i][2] = handed[k][2]
CacheAgreesWithPure ==
  LET fs == [i \in DOMAIN handed |-> handed[i][1]] IN
  /\ Len(ExternalizeFuncs(fs)) = Len(handed)
  /\ \A i, k \in DOMAIN handed : (ExternalizeFuncs(fs)[i] = ExternalizeFuncs(fs)[k]) <=> (handed[i][2] = handed[k][2])
\* goroutine bookkeeping is never corrupted, in particular not by a blocked callback
GuardConsistent ==
  /\ awake = Cardinality({g \in Goroutines : ~asleep[g]})
  /\ waiting = {g \in Goroutines : asleep[g]}
  /\ (cur # None => ~asleep[cur])
  /\ (err = ErrBlock => cur = None)
\* action property: a callback that blocks changes nothing but err
GuardNoCorruption ==
  [][(cur = None /\ err' = ErrBlock /\ err # ErrBlock) => (asleep' = asleep /\ awake' = awake /\ waiting' = waiting /\ cur' = None)]_svars
=============================================================================
