-------------------------------- MODULE Init --------------------------------
(***************************************************************************)
(* C10 -- packages are linked and initialised in Go order; linknames       *)
(* resolve.  REFERENCE semantics of program initialisation (Go spec,       *)
(* "Package initialization" and "Program execution") and of the documented *)
(* go:linkname directive of GopherJS (doc/pargma.md).                      *)
(*                                                                         *)
(* WHAT IS MODELLED                                                        *)
(*                                                                         *)
(* A PROGRAM (scenario) S is a record                                      *)
(*   np     number of packages, package 1 is main                          *)
(*   imp    imp[p] = sequence of the packages p imports (acyclic; every    *)
(*          package is reachable from main)                                *)
(*   files  files[p] = sequence of file-name indices of p, ASCENDING; an   *)
(*          index refers to the name pool of the harness, which is sorted  *)
(*          bytewise, so comparing indices is comparing names              *)
(*   decls  sequence of package-level declarations; the position i of a    *)
(*          declaration is its identity (the marker it prints); two        *)
(*          declarations of the same file appear in source order           *)
(* and a declaration is a record                                           *)
(*   pk, fi package and file (fi indexes files[pk])                        *)
(*   kind   var   variable with an initialisation expression               *)
(*          zvar  variable without one (it still takes part in the order)  *)
(*          func  function or method (fk = func | vmeth | pmeth, receiver  *)
(*                kind rk = struct | int)                                  *)
(*          init  an init function                                         *)
(*          main  main.main                                                *)
(*          lref  body-less function declared through //go:linkname, tg =  *)
(*                the declaration it names (bad # "" : one of the three    *)
(*                unsupported uses of the directive)                       *)
(*   sty    (var) direct: the initialiser mentions variables directly,     *)
(*          func: it is a call of a function that does                     *)
(*   blk    none | yield | trip | srv : the body first suspends the        *)
(*          running goroutine (runtime.Gosched; a channel round trip       *)
(*          through a goroutine started by the call; a round trip through  *)
(*          a server goroutine started earlier)                            *)
(*   ex     exported name                                                  *)
(*   refs   what the body mentions, in evaluation order: read of a         *)
(*          variable, call of a function / method / linknamed function,    *)
(*          fref = mention of a function without calling it                *)
(*                                                                         *)
(* Observable behaviour: every evaluated body prints one marker            *)
(*   <<tag, i, a>>   tag = v f i m for var / func / init / main, i = the   *)
(*   declaration, a = the sum of the values of its refs at that moment     *)
(* (a variable's value is i + a once initialised and 0 before, a call      *)
(* returns i + a, methods add the receiver field RecvX), a round trip      *)
(* prints <<"h", i, 0>> from the helper goroutine while the initialising   *)
(* goroutine is suspended, a call through a linkname to a method prints    *)
(* <<"r", l, x>> with the receiver field after the call (pointer receiver: *)
(* updated by the method; value receiver: untouched).  So the trace shows  *)
(* the order AND, through the sums, that every dependency was initialised. *)
(*                                                                         *)
(* REFERENCE ORDER (functional definition, section "order")                *)
(*   within a package  VarOrder: repeatedly the earliest variable in       *)
(*          declaration order that is ready; declaration order = files in  *)
(*          the fixed file order fo (asc | desc by name -- the PARAMETER   *)
(*          of the property), source order inside a file; ready = not      *)
(*          depending on an uninitialised variable of the package, where   *)
(*          dependencies are the references of the initialiser, followed   *)
(*          transitively through the bodies of referenced functions and    *)
(*          methods (of any file; body-less functions have none).          *)
(*          Variables without initialiser are selected like all others     *)
(*          (Go spec; go/types does the same) -- they delay their readers. *)
(*          Then the init functions in declaration order; main.main last.  *)
(*   across packages   any order in which a package comes after all its    *)
(*          imports, every package exactly once (TopoOrders).              *)
(*                                                                         *)
(* STATE MACHINE (section "machine"; one action per step)                  *)
(*   MStartPkg a package whose imports are done begins (only when no other *)
(*             package is running: initialisation is sequential)           *)
(*   MBegin    the next declaration of the running package per the rule    *)
(*             above is entered; its events are computed by Eval           *)
(*   MEmit     the running body prints its next marker; with the last one  *)
(*             the declaration is done (a variable gets its value)         *)
(*   MSuspend  the running body reaches its suspension point               *)
(*   MHelper   the helper goroutine serves the round trip and prints h     *)
(*   MResume   a yielded goroutine continues                               *)
(*   MEndPkg   nothing left in the package                                 *)
(* While the initialising goroutine is suspended nothing but MHelper/MResume *)
(* is enabled: a suspended initialiser suspends everything behind it.      *)
(* The machine is written as set-valued successor functions over a record  *)
(* m so that InitScen (forward exploration) and InitTrace (validation of   *)
(* recorded executions) share the very same actions.                       *)
(*                                                                         *)
(* LINKNAMES.  A call of an lref declaration is a call of the declaration  *)
(* it names (Eval), whatever the import direction; a body-less function    *)
(* has no references, so it creates no initialisation dependency.  The     *)
(* unsupported uses (directive on a variable, file without import of       *)
(* unsafe, local body pushed into another package) make the build fail     *)
(* (Rejected).  An implementation named by a linkname must not read        *)
(* package variables in these scenarios and must not suspend through the   *)
(* server goroutine of vp/rt (state of a package that is not initialised   *)
(* yet -- zero in Go, undefined in the compiled program -- is outside the  *)
(* property).                                                              *)
(*                                                                         *)
(* HOW THE HARNESS USES IT.  harness/props/c10: InitScen enumerates the    *)
(* families and decodes VERIF_SEED codes into programs, checks the         *)
(* invariants below on every one, and writes program + allowed traces;     *)
(* the harness renders each as a Go module (packages vp, vp/p2..), builds  *)
(* it with the compiler under test, runs it under Node and natively, and   *)
(* compares; InitTrace validates the recorded traces against the machine.  *)
(***************************************************************************)
EXTENDS Integers, Sequences, FiniteSets, TLC, SequencesExt, FiniteSetsExt

RecvX == 1000                     \* field value of every receiver passed to a method

FileOrders == {"asc", "desc"}

(***************************************************************************)
(* structure                                                               *)
(***************************************************************************)
Pkgs(S)         == 1..S.np
ImpSet(S, p)    == {S.imp[p][k] : k \in DOMAIN S.imp[p]}
DeclsOf(S, p)   == {i \in DOMAIN S.decls : S.decls[i].pk = p}
KindIn(S, p, K) == {i \in DeclsOf(S, p) : S.decls[i].kind \in K}
RefSet(S, i)    == {S.decls[i].refs[k].d : k \in DOMAIN S.decls[i].refs}
VarKinds        == {"var", "zvar"}
SuspTags        == {"yield", "trip", "srv"}

\* transitive import closure
RECURSIVE ImpClose(_, _, _)
ImpClose(S, front, acc) ==
  IF front = {} THEN acc
  ELSE LET nxt == (UNION {ImpSet(S, q) : q \in front}) \ acc
       IN ImpClose(S, nxt, acc \cup nxt)
ImpStar(S, p) == ImpClose(S, ImpSet(S, p), ImpSet(S, p))

\* everything a body mentions, following the bodies of mentioned functions
RECURSIVE Close(_, _, _)
Close(S, front, acc) ==
  IF front = {} THEN acc
  ELSE LET fs  == {g \in front : S.decls[g].kind = "func"}
           nxt == (UNION {RefSet(S, f) : f \in fs}) \ acc
       IN Close(S, nxt, acc \cup nxt)
Reached(S, i) == Close(S, RefSet(S, i), RefSet(S, i))

\* the variables of its own package the initialiser of i depends on
VarDepsDef(S, i) ==
  IF S.decls[i].kind # "var" THEN {}
  ELSE {j \in Reached(S, i) : S.decls[j].pk = S.decls[i].pk /\ S.decls[j].kind \in VarKinds}

\* Prep attaches the dependency sets to the program once (S.deps), so that the
\* order and the machine do not recompute the closure at every step; InitScen
\* checks S.deps[i] = VarDepsDef(S, i) on every program.
Prep(S) == [np |-> S.np, imp |-> S.imp, files |-> S.files, decls |-> S.decls,
            deps |-> [i \in DOMAIN S.decls |-> VarDepsDef(S, i)]]
VarDeps(S, i) == S.deps[i]

(***************************************************************************)
(* well-formed programs (what the generators may produce; ill-formed ones  *)
(* are dropped and counted)                                                *)
(***************************************************************************)
Rejected(S) == \E i \in DOMAIN S.decls : S.decls[i].kind = "lref" /\ S.decls[i].bad # ""

WellFormed(S) ==
  /\ S.np >= 1
  /\ \A p \in Pkgs(S) : p \notin ImpStar(S, p) /\ ImpSet(S, p) \subseteq Pkgs(S)
  /\ ImpStar(S, 1) = Pkgs(S) \ {1}
  /\ \A p \in Pkgs(S) : Len(S.files[p]) >= 1
        /\ \A a, b \in DOMAIN S.files[p] : a < b => S.files[p][a] < S.files[p][b]
  /\ Cardinality({i \in DOMAIN S.decls : S.decls[i].kind = "main"}) = 1
  /\ \A i \in DOMAIN S.decls :
       LET d == S.decls[i] IN
       /\ d.pk \in Pkgs(S) /\ d.fi \in DOMAIN S.files[d.pk]
       /\ d.kind = "main" => d.pk = 1
       /\ i \notin Reached(S, i)                     \* no initialisation cycle, no recursion
       /\ d.kind = "lref" =>
            /\ d.refs = <<>>
            /\ d.tg \in DOMAIN S.decls /\ S.decls[d.tg].pk \notin {1, d.pk}   \* not into main: its link name is tool specific
            /\ (d.bad # "var" => S.decls[d.tg].kind = "func" /\ S.decls[d.tg].refs = <<>>)
            /\ S.decls[d.tg].blk # "srv"     \* vp/rt has state and is initialised with the implementation's package
       /\ d.kind = "zvar" => d.refs = <<>>
       /\ \A k \in DOMAIN d.refs :
            LET r == d.refs[k] t == S.decls[r.d] IN
            /\ r.d \in DOMAIN S.decls
            /\ t.pk = d.pk \/ (t.pk \in ImpSet(S, d.pk) /\ t.ex)
            /\ r.k = "read" => t.kind \in VarKinds
            /\ r.k = "call" => t.kind \in {"func", "lref"} /\ (t.kind = "lref" => t.bad = "")
            /\ r.k = "fref" => t.kind = "func" /\ t.fk = "func" /\ t.pk = d.pk
            /\ (d.kind = "var" /\ d.sty = "direct") => r.k = "read"

(***************************************************************************)
(* order                                                                   *)
(***************************************************************************)
FRank(S, fo, i) == IF fo = "asc" THEN S.decls[i].fi ELSE 0 - S.decls[i].fi
\* declaration order of two declarations of one package
Before(S, fo, i, j) ==
  \/ FRank(S, fo, i) < FRank(S, fo, j)
  \/ S.decls[i].fi = S.decls[j].fi /\ i < j
First(S, fo, X) == CHOOSE i \in X : \A j \in X \ {i} : Before(S, fo, i, j)

\* "repeatedly the earliest variable in declaration order that is ready"
RECURSIVE VOrd(_, _, _, _)
VOrd(S, fo, todo, acc) ==
  IF todo = {} THEN acc
  ELSE LET ready == {i \in todo : VarDeps(S, i) \cap todo = {}} IN
       IF ready = {} THEN Append(acc, 0)                 \* cycle: ill-formed
       ELSE LET n == First(S, fo, ready) IN VOrd(S, fo, todo \ {n}, Append(acc, n))
VarOrder(S, p, fo) == VOrd(S, fo, KindIn(S, p, VarKinds), <<>>)

InitFns(S, p, fo) == SetToSortSeq(KindIn(S, p, {"init"}), LAMBDA i, j : Before(S, fo, i, j))

\* what package p executes, in order
PkgSeq(S, p, fo) ==
  SelectSeq(VarOrder(S, p, fo), LAMBDA i : i # 0 /\ S.decls[i].kind = "var")
  \o InitFns(S, p, fo)
  \o SetToSeq(KindIn(S, p, {"main"}))

\* cross-package orders: every package once, after its imports
TopoOrders(S) ==
  {f \in [Pkgs(S) -> Pkgs(S)] :
     /\ \A a, b \in Pkgs(S) : a # b => f[a] # f[b]
     /\ \A a, b \in Pkgs(S) : f[b] \in ImpSet(S, f[a]) => b < a}

(***************************************************************************)
(* evaluation of one body: <<events, value>>                               *)
(***************************************************************************)
Tag(kind) == CASE kind = "var" -> "v" [] kind = "func" -> "f" [] kind = "init" -> "i" [] kind = "main" -> "m"

RECURSIVE Eval(_, _, _), EvalRefs(_, _, _, _, _)
EvalRefs(S, i, k, val, acc) ==
  IF k > Len(S.decls[i].refs) THEN acc
  ELSE LET r == S.decls[i].refs[k]
           t == S.decls[r.d]
           one ==
             CASE r.k = "read" -> << <<>>, val[r.d] >>
               [] r.k = "fref" -> << <<>>, 0 >>
               [] r.k = "call" /\ t.kind = "func" -> Eval(S, r.d, val)
               [] r.k = "call" /\ t.kind = "lref" ->
                    \* the linknamed function IS the implementation it names
                    LET e  == Eval(S, t.tg, val)
                        fk == S.decls[t.tg].fk
                        rc == CASE fk = "pmeth" -> << <<"r", r.d, e[2]>> >>
                                [] fk = "vmeth" -> << <<"r", r.d, RecvX>> >>
                                [] OTHER -> <<>>
                    IN << e[1] \o rc, e[2] >>
       IN EvalRefs(S, i, k + 1, val, TLCEval(<< acc[1] \o one[1], acc[2] + one[2] >>))

Eval(S, i, val) ==
  LET d    == S.decls[i]
      pre  == IF d.blk = "none" THEN <<>> ELSE << <<d.blk, i, 0>> >>   \* suspension point
      base == IF d.kind = "func" /\ d.fk \in {"vmeth", "pmeth"} THEN RecvX ELSE 0
      rs   == EvalRefs(S, i, 1, val, << pre, base >>)
  IN IF d.kind = "zvar" THEN << <<>>, 0 >>
     ELSE << Append(rs[1], << Tag(d.kind), i, rs[2] >>), rs[2] + i >>

\* what is printed: suspension by a round trip shows the helper's marker
Printed(evs) ==
  LET vis == SelectSeq(evs, LAMBDA e : e[1] # "yield")
  IN [k \in DOMAIN vis |-> IF vis[k][1] \in {"trip", "srv"} THEN << "h", vis[k][2], 0 >> ELSE vis[k]]

ZeroVal(S) == [i \in DOMAIN S.decls |-> 0]

\* run a sequence of declarations: <<events, val>>
RECURSIVE RunSeq(_, _, _, _, _)
RunSeq(S, seq, k, val, evs) ==
  IF k > Len(seq) THEN << evs, val >>
  ELSE LET i  == seq[k]
           e  == Eval(S, i, val)
           v2 == IF S.decls[i].kind = "var" THEN [val EXCEPT ![i] = e[2]] ELSE val
       IN RunSeq(S, seq, k + 1, TLCEval(v2), TLCEval(evs \o e[1]))

\* the whole program for one cross-package order ord (a sequence of packages)
RECURSIVE RunPkgs(_, _, _, _, _, _)
RunPkgs(S, fo, ord, k, val, evs) ==
  IF k > Len(ord) THEN evs
  ELSE LET r == RunSeq(S, PkgSeq(S, ord[k], fo), 1, val, evs)
       IN RunPkgs(S, fo, ord, k + 1, r[2], r[1])
RefTrace(S, fo, ord) == Printed(RunPkgs(S, fo, ord, 1, ZeroVal(S), <<>>))

(***************************************************************************)
(* properties of the definitions themselves (checked by TLC on every       *)
(* enumerated program, see InitScen)                                       *)
(***************************************************************************)
Pos(seq, x) == CHOOSE k \in DOMAIN seq : seq[k] = x

\* VarOrder is a linear extension of the dependency relation, every variable once
LinearExt(S, p, fo) ==
  LET o == VarOrder(S, p, fo) vs == KindIn(S, p, VarKinds) IN
  /\ Len(o) = Cardinality(vs) /\ {o[k] : k \in DOMAIN o} = vs
  /\ \A i \in vs : \A j \in VarDeps(S, i) : Pos(o, j) < Pos(o, i)

\* ... and it is the least one in declaration order (independent characterisation
\* of "repeatedly the earliest that is ready": the lexicographically least
\* linear extension)
LexLess(S, fo, a, b) ==      \* sequences of equal length over the same set
  \E k \in DOMAIN a : (\A h \in 1..(k - 1) : a[h] = b[h]) /\ a[k] # b[k] /\ Before(S, fo, a[k], b[k])
GreedyLeast(S, p, fo) ==
  LET o == VarOrder(S, p, fo) vs == KindIn(S, p, VarKinds) n == Cardinality(vs) IN
  \A q \in [1..n -> vs] :
     (/\ {q[k] : k \in 1..n} = vs
      /\ \A i \in vs : \A j \in VarDeps(S, i) : Pos(q, j) < Pos(q, i)
      /\ q # o)
     => LexLess(S, fo, o, q)

\* a program whose packages have one file each does not depend on the file order
SingleFile(S) == \A p \in Pkgs(S) : Len(S.files[p]) = 1

(***************************************************************************)
(* machine                                                                 *)
(***************************************************************************)
NoBlock == [k |-> "", id |-> 0]

MInit(S) ==
  [pkst   |-> [p \in Pkgs(S) |-> "todo"],
   cur    |-> 0,                 \* the package being initialised, 0: none
   done   |-> {},                \* declarations executed
   val    |-> ZeroVal(S),
   run    |-> 0,                 \* declaration being evaluated, 0: none
   rv     |-> 0,                 \* its value
   queue  |-> <<>>,              \* its remaining events
   blk    |-> NoBlock,           \* why the initialising goroutine is suspended
   out    |-> <<>>,              \* markers printed so far
   porder |-> <<>>]              \* packages in the order they were started

\* the declaration the Go rules select next in the running package
\* (0: nothing left, -1: stuck on an initialisation cycle)
NextDecl(S, fo, m) ==
  LET p     == m.cur
      vs    == KindIn(S, p, VarKinds) \ m.done
      ready == {i \in vs : VarDeps(S, i) \cap vs = {}}
      ins   == KindIn(S, p, {"init"}) \ m.done
      mn    == KindIn(S, p, {"main"}) \ m.done
  IN IF ready # {} THEN First(S, fo, ready)
     ELSE IF vs # {} THEN 0 - 1
     ELSE IF ins # {} THEN First(S, fo, ins)
     ELSE IF mn # {} THEN First(S, fo, mn)
     ELSE 0

Idle(m) == m.run = 0 /\ m.blk.k = ""

MStartPkg(S, m) ==
  IF m.cur # 0 THEN {}
  ELSE {[m EXCEPT !.cur = p, !.pkst[p] = "run", !.porder = Append(@, p)] :
          p \in {q \in Pkgs(S) : m.pkst[q] = "todo" /\ \A r \in ImpSet(S, q) : m.pkst[r] = "done"}}

MBegin(S, fo, m) ==
  IF m.cur = 0 \/ ~Idle(m) THEN {}
  ELSE LET n == NextDecl(S, fo, m) IN
       IF n <= 0 THEN {}
       ELSE LET e == Eval(S, n, m.val) IN
            IF e[1] = <<>> THEN {[m EXCEPT !.done = @ \cup {n}]}       \* variable without initialiser
            ELSE {[m EXCEPT !.run = n, !.rv = e[2], !.queue = e[1]]}

\* the declaration is complete with its last marker
Complete(S, m) ==
  [m EXCEPT !.done = @ \cup {m.run}, !.run = 0, !.rv = 0,
            !.val = IF S.decls[m.run].kind = "var" THEN [@ EXCEPT ![m.run] = m.rv] ELSE @]

MEmit(S, m) ==
  IF m.run = 0 \/ m.blk.k # "" \/ m.queue = <<>> \/ Head(m.queue)[1] \in SuspTags THEN {}
  ELSE LET m2 == [m EXCEPT !.out = Append(@, Head(m.queue)), !.queue = Tail(@)]
       IN {IF m2.queue = <<>> THEN Complete(S, m2) ELSE m2}

MSuspend(S, m) ==
  IF m.run = 0 \/ m.blk.k # "" \/ m.queue = <<>> \/ Head(m.queue)[1] \notin SuspTags THEN {}
  ELSE {[m EXCEPT !.blk = [k |-> Head(m.queue)[1], id |-> Head(m.queue)[2]], !.queue = Tail(@)]}

MHelper(S, m) ==
  IF m.blk.k \notin {"trip", "srv"} THEN {}
  ELSE {[m EXCEPT !.out = Append(@, << "h", m.blk.id, 0 >>), !.blk = NoBlock]}

MResume(S, m) ==
  IF m.blk.k # "yield" THEN {} ELSE {[m EXCEPT !.blk = NoBlock]}

MEndPkg(S, fo, m) ==
  IF m.cur = 0 \/ ~Idle(m) \/ NextDecl(S, fo, m) # 0 THEN {}
  ELSE {[m EXCEPT !.pkst[m.cur] = "done", !.cur = 0]}

MSucc(S, fo, m) ==
  MStartPkg(S, m) \cup MBegin(S, fo, m) \cup MEmit(S, m) \cup MSuspend(S, m)
  \cup MHelper(S, m) \cup MResume(S, m) \cup MEndPkg(S, fo, m)

MDone(S, m) == \A p \in Pkgs(S) : m.pkst[p] = "done"

(***************************************************************************)
(* invariants of the machine                                               *)
(***************************************************************************)
\* at most one package runs; a package runs only when its imports are done;
\* an executed variable has all its dependencies executed; packages once
MachineInv(S, m) ==
  /\ Cardinality({p \in Pkgs(S) : m.pkst[p] = "run"}) = (IF m.cur = 0 THEN 0 ELSE 1)
  /\ m.cur # 0 => m.pkst[m.cur] = "run" /\ \A q \in ImpSet(S, m.cur) : m.pkst[q] = "done"
  /\ \A i \in m.done : VarDeps(S, i) \subseteq m.done
  /\ \A i \in m.done : m.pkst[S.decls[i].pk] \in {"run", "done"}
  /\ \A a, b \in DOMAIN m.porder : a # b => m.porder[a] # m.porder[b]
  \* a suspended goroutine has a body to return to, and nothing else may start
  /\ m.blk.k # "" => m.run # 0 /\ m.queue # <<>> /\ MStartPkg(S, m) = {} /\ MBegin(S, "asc", m) = {} /\ MEndPkg(S, "asc", m) = {}
  \* main.main is the last thing that runs
  /\ \A i \in m.done : S.decls[i].kind = "main" =>
        \A j \in DOMAIN S.decls : S.decls[j].kind \in {"var", "zvar", "init"} => j \in m.done

\* the machine and the functional definition agree
MachineRef(S, fo, m) ==
  MDone(S, m) =>
    /\ m.porder \in TopoOrders(S)
    /\ m.out = RefTrace(S, fo, m.porder)
    /\ m.done = {i \in DOMAIN S.decls : S.decls[i].kind \in {"var", "zvar", "init", "main"}}

\* no state of a well-formed program is stuck before the end
NotStuck(S, fo, m) == MDone(S, m) \/ MSucc(S, fo, m) # {}
=============================================================================
