------------------------------ MODULE FloatGrid ------------------------------
(***************************************************************************)
(* Exact reference semantics of the float64 functions of package math that *)
(* C13 lists (rounding, sign, bit-pattern, remainder, scaling,             *)
(* decomposition, classification), on a grid of values on which every      *)
(* result is exactly representable -- TLC has neither reals nor floats.    *)
(*                                                                         *)
(* A value is a tuple <<kind, s, m, e>>:                                   *)
(*   <<"nan", 0, 0, 0>>                                                    *)
(*   <<"inf", s, 0, 0>>     s = 1: negative                                *)
(*   <<"zero", s, 0, 0>>    signed zero                                    *)
(*   <<"fin", s, m, e>>     (-1)^s * m * 2^e, m odd, 0 < m < 2^30          *)
(* (dyadic rationals with a short mantissa and an arbitrary exponent; a    *)
(* float64 iff e >= -1074 and the leading bit's exponent is <= 1023).      *)
(* <<"skip", 0, 0, 0>> marks a result that is not exactly representable    *)
(* with these means: such cases are not enumerated.                        *)
(*                                                                         *)
(* All documented special cases of the Go sources (doc comments of         *)
(* GOROOT/src/math) are stated explicitly.  Enc64 / Enc32 give the IEEE    *)
(* 754 bit pattern of a value as a bit vector of Bits.tla; programs print  *)
(* results as bit patterns, so signed zeros and infinities are observable  *)
(* and NaN is compared payload-insensitively.                              *)
(*                                                                         *)
(* Operand bounds: unary functions m < 2^30; Mod/Remainder/Dim m < 2^14    *)
(* (intermediate products stay below 2^31, TLC's integer range).           *)
(***************************************************************************)
EXTENDS Bits

NaN == <<"nan", 0, 0, 0>>
Inf(s) == <<"inf", s, 0, 0>>
Zero0(s) == <<"zero", s, 0, 0>>
Skip == <<"skip", 0, 0, 0>>
IsNaNV(x) == x[1] = "nan"
IsInfV(x) == x[1] = "inf"
IsZeroV(x) == x[1] = "zero"
IsFin(x) == x[1] = "fin"

P2(k) == 2^k                                   \* 0 <= k <= 30

RECURSIVE NormR(_, _, _)
NormR(s, n, e) == IF n % 2 = 0 THEN NormR(s, n \div 2, e + 1) ELSE <<"fin", s, n, e>>
\* (-1)^s * n * 2^e for a natural n (n = 0: signed zero)
Norm(s, n, e) == IF n = 0 THEN Zero0(s) ELSE NormR(s, n, e)
FromInt(s, n) == Norm(s, n, 0)

RECURSIVE BL(_)
BL(n) == IF n = 0 THEN 0 ELSE 1 + BL(n \div 2)  \* bit length
TopExp(x) == x[4] + BL(x[3]) - 1               \* exponent of the leading bit of a finite value

Neg1(x) == IF IsNaNV(x) THEN x ELSE <<x[1], 1 - x[2], x[3], x[4]>>
AbsV(x) == IF IsNaNV(x) THEN x ELSE <<x[1], 0, x[3], x[4]>>

(***************************************************************************)
(* Order on non-NaN values (-0 = +0)                                       *)
(***************************************************************************)
\* magnitudes of two finite values: -1, 0, 1
MagCmp(x, y) ==
  LET tx == TopExp(x) ty == TopExp(y) IN
  IF tx # ty THEN (IF tx < ty THEN -1 ELSE 1)
  ELSE \* equal leading exponents: align (the shift is below 30)
       LET ex == x[4] ey == y[4]
           ax == IF ex > ey THEN x[3] * P2(ex - ey) ELSE x[3]
           ay == IF ey > ex THEN y[3] * P2(ey - ex) ELSE y[3]
       IN IF ax < ay THEN -1 ELSE IF ax > ay THEN 1 ELSE 0
\* rank of the kind for magnitude comparison
MagOf(x, y) == CASE IsZeroV(x) /\ IsZeroV(y) -> 0
                 [] IsZeroV(x) -> -1 [] IsZeroV(y) -> 1
                 [] IsInfV(x) /\ IsInfV(y) -> 0
                 [] IsInfV(x) -> 1 [] IsInfV(y) -> -1
                 [] OTHER -> MagCmp(x, y)
FCmp(x, y) ==    \* -1, 0, 1 for x < y, x = y, x > y (neither is NaN)
  IF IsZeroV(x) /\ IsZeroV(y) THEN 0
  ELSE IF IsZeroV(x) THEN (IF y[2] = 1 THEN 1 ELSE -1)
  ELSE IF IsZeroV(y) THEN (IF x[2] = 1 THEN -1 ELSE 1)
  ELSE IF x[2] # y[2] THEN (IF x[2] = 1 THEN -1 ELSE 1)
  ELSE IF x[2] = 0 THEN MagOf(x, y) ELSE -MagOf(x, y)
FLess(x, y) == FCmp(x, y) < 0
FLessEq(x, y) == FCmp(x, y) <= 0

(***************************************************************************)
(* Rounding to an integer.  For a finite x with e < 0 let k = -e,          *)
(* q = m div 2^k, r = m mod 2^k (k <= 30; for k > 30, |x| < 1/2).          *)
(* Special cases (all five): f(+-0) = +-0, f(+-Inf) = +-Inf, f(NaN) = NaN. *)
(***************************************************************************)
RoundWith(x, mode) ==
  IF ~IsFin(x) \/ x[4] >= 0 THEN x
  ELSE LET s == x[2] m == x[3] k == -x[4]
           small == k > 30
           q == IF small THEN 0 ELSE m \div P2(k)
           r == IF small THEN 1 ELSE m % P2(k)                 \* r > 0 always (m is odd, k >= 1)
           half == IF small THEN 2 ELSE P2(k - 1)               \* small: r < half
           n == CASE mode = "trunc" -> q
                  [] mode = "floor" -> IF s = 1 THEN q + 1 ELSE q
                  [] mode = "ceil"  -> IF s = 0 THEN q + 1 ELSE q
                  [] mode = "round" -> IF r >= half THEN q + 1 ELSE q            \* half away from zero
                  [] mode = "even"  -> IF r > half THEN q + 1
                                       ELSE IF r = half THEN q + (q % 2) ELSE q  \* half to even
       IN FromInt(s, n)
Floor(x) == RoundWith(x, "floor")
Ceil(x) == RoundWith(x, "ceil")
Trunc(x) == RoundWith(x, "trunc")
Round(x) == RoundWith(x, "round")
RoundToEven(x) == RoundWith(x, "even")

(***************************************************************************)
(* Sign and classification                                                 *)
(***************************************************************************)
Abs(x) == AbsV(x)                                    \* Abs(+-Inf) = +Inf, Abs(NaN) = NaN
Copysign(x, y) == IF IsNaNV(x) THEN x ELSE <<x[1], y[2], x[3], x[4]>>   \* y not NaN
Signbit(x) == x[2] = 1                               \* x not NaN
IsNaN(x) == IsNaNV(x)
IsInf(x, sign) == IsInfV(x) /\ (sign = 0 \/ (sign > 0 /\ x[2] = 0) \/ (sign < 0 /\ x[2] = 1))

(***************************************************************************)
(* Max, Min, Dim                                                           *)
(*   Max(x, +Inf) = Max(+Inf, x) = +Inf;  Max(x, NaN) = Max(NaN, x) = NaN  *)
(*   Max(+0, +-0) = Max(+-0, +0) = +0;  Max(-0, -0) = -0   (Min dually)    *)
(*   (named FMax / FMin here: Max and Min are taken by FiniteSetsExt)      *)
(*   Dim(+Inf, +Inf) = Dim(-Inf, -Inf) = NaN; Dim(x, NaN) = Dim(NaN, x) =  *)
(*   NaN; otherwise max(x-y, 0) with +0 whenever x <= y                    *)
(***************************************************************************)
FMax(x, y) ==
  IF x = Inf(0) \/ y = Inf(0) THEN Inf(0)
  ELSE IF IsNaNV(x) \/ IsNaNV(y) THEN NaN
  ELSE IF IsZeroV(x) /\ IsZeroV(y) THEN (IF x[2] = 1 THEN y ELSE x)
  ELSE IF FLess(y, x) THEN x ELSE y
FMin(x, y) ==
  IF x = Inf(1) \/ y = Inf(1) THEN Inf(1)
  ELSE IF IsNaNV(x) \/ IsNaNV(y) THEN NaN
  ELSE IF IsZeroV(x) /\ IsZeroV(y) THEN (IF x[2] = 1 THEN x ELSE y)
  ELSE IF FLess(x, y) THEN x ELSE y

\* x - y for finite non-zero x > y, when exactly computable here
SubPos(x, y) ==
  LET emin == IF x[4] < y[4] THEN x[4] ELSE y[4]
      dx == x[4] - emin dy == y[4] - emin
  IN IF dx <= 15 /\ dy <= 15 /\ x[3] < P2(14) /\ y[3] < P2(14)
     THEN LET ix == (IF x[2] = 1 THEN -1 ELSE 1) * x[3] * P2(dx)
              iy == (IF y[2] = 1 THEN -1 ELSE 1) * y[3] * P2(dy)
          IN Norm(0, ix - iy, emin)                          \* ix > iy
     ELSE LET tx == TopExp(x) ty == TopExp(y) IN
          \* far apart: the smaller term is below a quarter ulp of the larger one
          IF tx - ty >= 70 THEN x                             \* x > y and |x| dominates: x is positive
          ELSE IF ty - tx >= 70 THEN Neg1(y)                  \* |y| dominates and x > y: y is negative
          ELSE Skip
Dim(x, y) ==
  IF IsNaNV(x) \/ IsNaNV(y) THEN NaN
  ELSE IF IsInfV(x) /\ IsInfV(y) /\ x[2] = y[2] THEN NaN
  ELSE IF FLessEq(x, y) THEN Zero0(0)
  ELSE IF IsInfV(x) \/ IsInfV(y) THEN Inf(0)                  \* x = +Inf or y = -Inf
  ELSE IF IsZeroV(y) THEN x
  ELSE IF IsZeroV(x) THEN Neg1(y)
  ELSE SubPos(x, y)

(***************************************************************************)
(* Mod and Remainder (always exact).                                       *)
(*   Mod(+-Inf, y) = NaN; Mod(NaN, y) = NaN; Mod(x, 0) = NaN;              *)
(*   Mod(x, +-Inf) = x; Mod(x, NaN) = NaN; the result has the sign of x    *)
(*   (also a zero result) and a magnitude below |y|.                       *)
(*   Remainder: the same special cases; x - n*y with n the integer nearest *)
(*   to x/y, ties to even; a zero result has the sign of x.                *)
(***************************************************************************)
RECURSIVE PowMod(_, _)
PowMod(d, n) == \* 2^d mod n, n >= 1, n < 2^16
  IF n = 1 THEN 0 ELSE IF d = 0 THEN 1
  ELSE LET h == PowMod(d \div 2, n) hh == (h * h) % n IN IF d % 2 = 1 THEN (2 * hh) % n ELSE hh

\* |x| mod U and the parity of the quotient, in units of 2^unit, for finite
\* non-zero x, y with mantissas below 2^14; U = |y|.
\* Result <<r0, qodd, U in units or 0 if it does not matter, unit>>
ModParts(x, y) ==
  LET m1 == x[3] e1 == x[4] m2 == y[3] e2 == y[4] IN
  IF e1 >= e2
  THEN LET t == (m1 * PowMod(e1 - e2, 2 * m2)) % (2 * m2) IN <<t % m2, t >= m2, m2, e2>>
  ELSE LET d == e2 - e1 IN
       IF d >= 16 THEN <<m1, FALSE, 0, e1>>                     \* |x| < |y| / 4
       ELSE LET Y == m2 * P2(d) t == m1 % (2 * Y) IN <<t % Y, t >= Y, Y, e1>>
ModSpecial(x, y) == IsNaNV(x) \/ IsNaNV(y) \/ IsInfV(x) \/ IsZeroV(y)
Mod(x, y) ==
  IF ModSpecial(x, y) THEN NaN
  ELSE IF IsInfV(y) \/ IsZeroV(x) THEN x
  ELSE LET p == ModParts(x, y) IN Norm(x[2], p[1], p[4])
Remainder(x, y) ==
  IF ModSpecial(x, y) THEN NaN
  ELSE IF IsInfV(y) \/ IsZeroV(x) THEN x
  ELSE LET p == ModParts(x, y) r0 == p[1] U == p[3] IN
       IF U = 0 THEN x
       ELSE IF 2 * r0 > U \/ (2 * r0 = U /\ p[2])
            THEN Norm(1 - x[2], U - r0, p[4])                   \* r0 - U, sign flipped
            ELSE Norm(x[2], r0, p[4])

(***************************************************************************)
(* Decomposition and scaling                                               *)
(*   Modf(+-Inf) = +-Inf, NaN; Modf(NaN) = NaN, NaN; both parts have the   *)
(*   sign of x (also when they are zero).                                  *)
(*   Frexp(+-0) = +-0, 0; Frexp(+-Inf) = +-Inf, 0; Frexp(NaN) = NaN, 0;    *)
(*   else frac in [1/2, 1) and x = frac * 2^exp.                           *)
(*   Ldexp(+-0, e) = +-0; Ldexp(+-Inf, e) = +-Inf; Ldexp(NaN, e) = NaN;    *)
(*   overflow gives +-Inf, underflow rounds to the subnormal grid (ties to *)
(*   even), possibly to +-0.                                               *)
(***************************************************************************)
ModfInt(x) == Trunc(x)
ModfFrac(x) ==
  IF IsNaNV(x) \/ IsInfV(x) THEN NaN
  ELSE IF IsZeroV(x) \/ x[4] >= 0 THEN Zero0(x[2])
  ELSE LET k == -x[4] IN IF k > 30 THEN x ELSE Norm(x[2], x[3] % P2(k), x[4])
FrexpFrac(x) == IF IsFin(x) THEN <<"fin", x[2], x[3], -BL(x[3])>> ELSE x
FrexpExp(x) == IF IsFin(x) THEN x[4] + BL(x[3]) ELSE 0

MinExp == -1074
Representable(x) == ~IsFin(x) \/ (x[4] >= MinExp /\ TopExp(x) <= 1023)
\* round a finite dyadic to float64 (only range effects: the mantissa is short)
ToFloat64(x) ==
  IF ~IsFin(x) THEN x
  ELSE IF TopExp(x) > 1023 THEN Inf(x[2])
  ELSE IF x[4] >= MinExp THEN x
  ELSE LET k == MinExp - x[4] IN                               \* bits below the subnormal grid
       IF k > 30 THEN Zero0(x[2])                              \* below half of the smallest subnormal
       ELSE LET q == x[3] \div P2(k) r == x[3] % P2(k) half == P2(k - 1)
                n == IF r > half THEN q + 1 ELSE IF r = half THEN q + (q % 2) ELSE q
            IN Norm(x[2], n, MinExp)
Ldexp(x, n) == IF IsFin(x) THEN ToFloat64(<<"fin", x[2], x[3], x[4] + n>>) ELSE x

(***************************************************************************)
(* Sqrt on perfect squares: Sqrt(+Inf) = +Inf; Sqrt(+-0) = +-0;            *)
(* Sqrt(x < 0) = NaN; Sqrt(NaN) = NaN                                      *)
(***************************************************************************)
ISqrt(n) == CHOOSE r \in 0..64 : r * r <= n /\ (r + 1) * (r + 1) > n     \* n < 4096
Sqrt(x) ==
  IF IsNaNV(x) THEN NaN
  ELSE IF IsZeroV(x) THEN x
  ELSE IF x[2] = 1 THEN NaN
  ELSE IF IsInfV(x) THEN x
  ELSE IF x[4] % 2 = 0 /\ x[3] < 4096 /\ ISqrt(x[3]) * ISqrt(x[3]) = x[3]
       THEN <<"fin", 0, ISqrt(x[3]), x[4] \div 2>> ELSE Skip

(***************************************************************************)
(* IEEE 754 encodings (bit vectors, LSB first).  binary64: 1 sign, 11      *)
(* exponent (bias 1023), 52 fraction bits; binary32: 1, 8 (bias 127), 23.  *)
(* The NaN encoding is not fixed (payload-insensitive): EncNaN marks it.   *)
(***************************************************************************)
EncFin(x, w, fb, bias, minexp) ==
  LET s == x[2] m == x[3] e == x[4] bl == BL(m) top == e + bl - 1 IN
  IF top >= 1 - bias
  THEN \* normal: hidden leading bit, fraction = the other bl-1 bits left-aligned
       Or(Or(Shl(FromNat(m - P2(bl - 1), w), fb + 1 - bl), Shl(FromNat(top + bias, w), fb)), Shl(FromNat(s, w), w - 1))
  ELSE \* subnormal: fraction = m * 2^(e - minexp)
       Or(Shl(FromNat(m, w), e - minexp), Shl(FromNat(s, w), w - 1))
EncGen(x, w, fb, bias, minexp, expmax) ==
  CASE x[1] = "zero" -> Shl(FromNat(x[2], w), w - 1)
    [] x[1] = "inf"  -> Or(Shl(FromNat(expmax, w), fb), Shl(FromNat(x[2], w), w - 1))
    [] x[1] = "fin"  -> EncFin(x, w, fb, bias, minexp)
Enc64(x) == EncGen(x, 64, 52, 1023, -1074, 2047)
Enc32(x) == EncGen(x, 32, 23, 127, -149, 255)
Rep32(x) == ~IsFin(x) \/ (x[4] >= -149 /\ TopExp(x) <= 127 /\ BL(x[3]) <= 24)

\* decoding of a binary64 pattern whose fraction has at most 30 significant bits
Dec64(v) ==
  LET s == v[64]
      ex == NatOf(v, 53, 63)
      none == \A i \in 1..52 : v[i] = 0
      lo == IF none THEN 52 ELSE CHOOSE i \in 1..52 : v[i] = 1 /\ \A j \in 1..(i-1) : v[j] = 0     \* lowest set fraction bit
      hi == IF none THEN 52 ELSE CHOOSE i \in 1..52 : v[i] = 1 /\ \A j \in (i+1)..52 : v[j] = 0    \* highest set fraction bit
  IN IF ex = 2047 THEN (IF none THEN Inf(s) ELSE NaN)
     ELSE IF ex = 0 THEN (IF none THEN Zero0(s) ELSE Norm(s, NatOf(v, lo, hi), -1074 + lo - 1))
     ELSE IF none THEN <<"fin", s, 1, ex - 1023>>
     ELSE Norm(s, P2(53 - lo) + NatOf(v, lo, 52), ex - 1023 - (53 - lo))
=============================================================================
