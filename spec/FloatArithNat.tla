--------------------------- MODULE FloatArithNat ---------------------------
(***************************************************************************)
(* Natural numbers of unbounded size for the float reference of C06        *)
(* (FloatArith.tla).  TLC's integers have 32 bits; the exact sum, product  *)
(* and quotient of two binary64 values need up to 2100, 106 and 120 bits.  *)
(*                                                                         *)
(* A natural is the sequence of its base-2^LB digits ("limbs"), least      *)
(* significant first, WITHOUT leading zero limbs (canonical: equal numbers *)
(* are equal sequences; zero is <<>>).  Every operator is generic in LB:   *)
(* FloatArith uses LB = 15 (a product of two limbs plus a carry stays      *)
(* below 2^31), FloatArithValidate.tla checks the same operators with      *)
(* LB = 2 and LB = 3 against TLC's integers for ALL operand pairs below    *)
(* 2^8 resp. 2^9 (carries, borrows, multi-limb quotient digits and limb    *)
(* boundaries all occur there).                                            *)
(***************************************************************************)
EXTENDS Integers, Sequences, TLC

CONSTANT LB                     \* bits per limb, 1 <= LB <= 15
NBase == 2^LB

Limb(a, i) == IF i <= Len(a) THEN a[i] ELSE 0

RECURSIVE NTrim(_)
NTrim(a) == IF a = <<>> THEN a
            ELSE IF a[Len(a)] = 0 THEN NTrim(SubSeq(a, 1, Len(a) - 1)) ELSE a

\* n is a TLC integer, 0 <= n < 2^31
RECURSIVE NFromInt(_)
NFromInt(n) == IF n = 0 THEN <<>> ELSE <<n % NBase>> \o NFromInt(n \div NBase)
\* back to a TLC integer (the value must be below 2^31)
RECURSIVE NToInt(_)
NToInt(a) == IF a = <<>> THEN 0 ELSE a[1] + NBase * NToInt(Tail(a))

NOne == <<1>>
NIsZero(a) == a = <<>>

RECURSIVE NAddR(_, _, _, _, _)
NAddR(a, b, i, c, acc) ==
  IF i > Len(a) /\ i > Len(b) THEN (IF c = 0 THEN acc ELSE Append(acc, c))
  ELSE LET s == Limb(a, i) + Limb(b, i) + c
       IN NAddR(a, b, i + 1, s \div NBase, Append(acc, s % NBase))
NAdd(a, b) == NAddR(a, b, 1, 0, <<>>)

\* a - b for a >= b
RECURSIVE NSubR(_, _, _, _, _)
NSubR(a, b, i, br, acc) ==
  IF i > Len(a) THEN NTrim(acc)
  ELSE LET d == a[i] - Limb(b, i) - br
       IN NSubR(a, b, i + 1, IF d < 0 THEN 1 ELSE 0, Append(acc, IF d < 0 THEN d + NBase ELSE d))
NSub(a, b) == NSubR(a, b, 1, 0, <<>>)

\* -1, 0, 1
RECURSIVE NCmpR(_, _, _)
NCmpR(a, b, i) == IF i = 0 THEN 0
                  ELSE IF a[i] # b[i] THEN (IF a[i] < b[i] THEN -1 ELSE 1) ELSE NCmpR(a, b, i - 1)
NCmp(a, b) == IF Len(a) # Len(b) THEN (IF Len(a) < Len(b) THEN -1 ELSE 1) ELSE NCmpR(a, b, Len(a))

\* a * d for a single limb 0 <= d < 2^LB
RECURSIVE NMulSmallR(_, _, _, _, _)
NMulSmallR(a, d, i, c, acc) ==
  IF i > Len(a) THEN (IF c = 0 THEN acc ELSE Append(acc, c))
  ELSE LET s == a[i] * d + c IN NMulSmallR(a, d, i + 1, s \div NBase, Append(acc, s % NBase))
NMulSmall(a, d) == IF d = 0 THEN <<>> ELSE NMulSmallR(a, d, 1, 0, <<>>)

\* a * NBase^k
NShlLimbs(a, k) == IF a = <<>> \/ k = 0 THEN a ELSE [i \in 1..k |-> 0] \o a

RECURSIVE NMulR(_, _, _, _)
NMulR(a, b, j, acc) ==
  IF j > Len(b) THEN acc
  ELSE NMulR(a, b, j + 1, IF b[j] = 0 THEN acc ELSE NAdd(acc, NShlLimbs(NMulSmall(a, b[j]), j - 1)))
NMul(a, b) == NMulR(a, b, 1, <<>>)

\* a * 2^n and floor(a / 2^n), n >= 0
NShl(a, n) == NShlLimbs(NMulSmall(a, 2^(n % LB)), n \div LB)
NShr(a, n) ==
  LET k == n \div LB r == n % LB m == Len(a) - k IN
  IF m <= 0 THEN <<>>
  ELSE NTrim(TLCEval([i \in 1..m |-> (a[i + k] \div 2^r) + (Limb(a, i + k + 1) % 2^r) * 2^(LB - r)]))
\* a mod 2^n = 0
NLowZero(a, n) ==
  LET k == n \div LB r == n % LB IN
  /\ \A i \in 1..(IF k < Len(a) THEN k ELSE Len(a)) : a[i] = 0
  /\ Limb(a, k + 1) % 2^r = 0
\* bit i (i >= 0, bit 0 is the least significant)
NBit(a, i) == (Limb(a, (i \div LB) + 1) \div 2^(i % LB)) % 2

RECURSIVE ILen(_)
ILen(n) == IF n = 0 THEN 0 ELSE 1 + ILen(n \div 2)            \* bit length of a TLC integer
NBitLen(a) == IF a = <<>> THEN 0 ELSE (Len(a) - 1) * LB + ILen(a[Len(a)])
NPow2(k) == NShl(NOne, k)

\* number of trailing zero bits (a # 0)
RECURSIVE ITz(_)
ITz(n) == IF n % 2 = 1 THEN 0 ELSE 1 + ITz(n \div 2)
RECURSIVE NTzR(_, _)
NTzR(a, i) == IF a[i] = 0 THEN LB + NTzR(a, i + 1) ELSE ITz(a[i])
NTz(a) == NTzR(a, 1)

(***************************************************************************)
(* Long division, one quotient limb per step: the remainder r < b takes    *)
(* the next limb of a; the quotient digit is the largest d with b*d <= r   *)
(* (found by bisection: no estimate that could be off by one).  b # 0.     *)
(***************************************************************************)
RECURSIVE NDigitR(_, _, _, _)
NDigitR(r, b, lo, hi) ==
  IF lo = hi THEN lo
  ELSE LET mid == (lo + hi + 1) \div 2 IN
       IF NCmp(NMulSmall(b, mid), r) <= 0 THEN NDigitR(r, b, mid, hi) ELSE NDigitR(r, b, lo, mid - 1)
RECURSIVE NDivR(_, _, _, _, _)
NDivR(a, b, j, q, r) ==
  IF j = 0 THEN <<NTrim(q), r>>
  ELSE LET r1 == IF r = <<>> THEN NTrim(<<a[j]>>) ELSE <<a[j]>> \o r
           d == IF NCmp(r1, b) < 0 THEN 0 ELSE NDigitR(r1, b, 1, NBase - 1)
       IN NDivR(a, b, j - 1, <<d>> \o q, IF d = 0 THEN r1 ELSE NSub(r1, NMulSmall(b, d)))
NDivMod(a, b) == NDivR(a, b, Len(a), <<>>, <<>>)        \* <<quotient, remainder>>

\* canonical form, for checking results
NCanon(a) == a = <<>> \/ (a[Len(a)] # 0 /\ \A i \in 1..Len(a) : a[i] >= 0 /\ a[i] < NBase)
=============================================================================
