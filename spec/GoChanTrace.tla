---------------------------- MODULE GoChanTrace ----------------------------
(***************************************************************************)
(* Trace validation for C03: a recorded execution (program-level           *)
(* invocation / response lines of the real run time, or of the reference   *)
(* toolchain as guard) is accepted iff it is a behaviour of GoChan with    *)
(* the linearisation points as silent steps.                               *)
(*                                                                         *)
(* trace.ndjson holds many executions separated by "reset" events; every   *)
(* event carries all fields (unused ones are 0 / "" / <<>>):               *)
(*   e: reset | inv | resp | go | exit | end                               *)
(*   g, h: goroutine ids   k, c, v, offers, d: the invoked operation       *)
(*   t, i, v, ok: the observed result     caps: capacities (reset)         *)
(*   kind: exit | deadlock | silent | timeout (end)                        *)
(* Acceptance is reported by the violation of NotAccepted; register 1      *)
(* holds the high-water mark (index of the last consumed event) so that a  *)
(* rejected batch names its first unexplained event.                       *)
(***************************************************************************)
EXTENDS GoChan, Json

Trace == ndJsonDeserialize("trace.ndjson")
VARIABLE l
vars == <<cvars, l>>

Ev == Trace[l]
HasEv == l <= Len(Trace)

TraceOp(ev) == [k |-> ev.k, c |-> ev.c, v |-> ev.v, offers |-> ev.offers, dflt |-> ev.d]
TraceRes(ev) == [t |-> ev.t, i |-> ev.i, v |-> ev.v, ok |-> ev.ok]

ResetTo(ev) ==
  /\ cap' = [c \in Chans |-> ev.caps[c]]
  /\ st' = [g \in G |-> IF g = 1 THEN "run" ELSE "off"]
  /\ op' = [g \in G |-> NoOp]
  /\ res' = [g \in G |-> NoRes]
  /\ buf' = [c \in Chans |-> <<>>]
  /\ closed' = [c \in Chans |-> FALSE]
  /\ ended' = ""

TInit ==
  /\ TLCSet(1, 0)
  /\ l = 1
  /\ cap = [c \in Chans |-> 0]
  /\ st = [g \in G |-> "off"] /\ op = [g \in G |-> NoOp] /\ res = [g \in G |-> NoRes]
  /\ buf = [c \in Chans |-> <<>>] /\ closed = [c \in Chans |-> FALSE]
  /\ ended = "exit"

Step == l' = l + 1

TReset == HasEv /\ Ev.e = "reset" /\ ended # "" /\ ResetTo(Ev) /\ Step
TInv   == HasEv /\ Ev.e = "inv" /\ Invoke(Ev.g, TraceOp(Ev)) /\ Step
TResp  == HasEv /\ Ev.e = "resp" /\ st[Ev.g] = "res" /\ res[Ev.g] = TraceRes(Ev) /\ Respond(Ev.g) /\ Step
TGo    == HasEv /\ Ev.e = "go" /\ Spawn(Ev.g, Ev.h) /\ Step
TExit  == HasEv /\ Ev.e = "exit" /\ Exit(Ev.g) /\ Step
TEnd   == /\ HasEv /\ Ev.e = "end"
          /\ \/ Ev.kind = "exit" /\ ended = "exit" /\ UNCHANGED cvars
             \/ Ev.kind = "deadlock" /\ DeadlockStep
          /\ Step

Silent == Lin /\ UNCHANGED l

TNext == TReset \/ TInv \/ TResp \/ TGo \/ TExit \/ TEnd \/ Silent
TSpec == TInit /\ [][TNext]_vars

NotAccepted == l <= Len(Trace)
HW == IF l - 1 > TLCGet(1) THEN TLCSet(1, l - 1) ELSE TRUE
HWReport == PrintT(<<"HIGHWATER", TLCGet(1)>>)
=============================================================================
