------------------------------ MODULE Utf8Scen ------------------------------
(***************************************************************************)
(* Scenario enumeration for C14: TLC enumerates byte strings, integer and  *)
(* rune values, index and slice bounds, key sets and operand pairs inside  *)
(* the configured bounds and writes every case together with the result    *)
(* Utf8.tla defines for it (one JSON line per reachable "row" state, one   *)
(* file per unit).  The harness renders the cases as table-driven Go       *)
(* programs -- every string once as a Go literal and once built at run     *)
(* time from bytes --, compiles them with the compiler under test and      *)
(* compares what they print with the predictions; the same program built   *)
(* by the reference toolchain guards the specification.                    *)
(*                                                                         *)
(* On every row state TLC also checks SpecOK: properties of the reference  *)
(* definitions themselves on exactly the enumerated strings (range         *)
(* iteration consumes exactly all bytes, the operational decoder equals    *)
(* the declarative one at every offset, UTF-8 is prefix free, the          *)
(* []rune/string round trip is the identity exactly on valid strings,      *)
(* slices re-concatenate, the order is a strict total order).              *)
(*                                                                         *)
(* Params (c14_params.json, written by the harness):                       *)
(*   alphabet  sequence of bytes: the boundary alphabet                    *)
(*   maxlen    all strings over the alphabet up to this length (str, grp)  *)
(*   classes   classes to enumerate: str grp pair rune rand long           *)
(*   rand      seeded longer strings: [s: bytes, pairs: <<lo, hi>>...]      *)
(*   sample    strings whose pairs are compared and concatenated           *)
(*   ints      64-bit integers as four 16-bit limbs (string(integer))      *)
(*   runes     32-bit rune values (string([]rune{r1, r2}))                 *)
(*   longs     [n, pat, offs, pairs]: s[i] = pat[i % len(pat)], 0 <= i < n   *)
(*   out       output file prefix                                          *)
(***************************************************************************)
EXTENDS Utf8, Json, CSV, SequencesExt, FiniteSetsExt

Params   == JsonDeserialize("c14_params.json")
OutFile  == Params.out
Alphabet == Params.alphabet
MaxLen   == Params.maxlen
Classes  == Range(Params.classes)
Rand     == Params.rand
Sample   == Params.sample
Ints     == Params.ints
Runes    == Params.runes
Longs    == Params.longs

ASSUME /\ \A i \in DOMAIN Alphabet : Alphabet[i] \in Byte
       /\ \A i \in DOMAIN Rand : IsString(Rand[i].s)
       /\ \A i \in DOMAIN Sample : IsString(Sample[i])
       /\ MaxLen \in 1..5

AlphaIdx == DOMAIN Alphabet
AlphaSet == Range(Alphabet)
Fill == 170                                   \* 0xAA: content of copy destinations
ChunkSize == 8                                \* random strings per row

(***************************************************************************)
(* cases                                                                   *)
(***************************************************************************)
\* all (lo, hi) with 0 <= lo, hi <= n+1, lo-major
AllPairs(n) == [k \in 1..((n + 2) * (n + 2)) |-> <<(k - 1) \div (n + 2), (k - 1) % (n + 2)>>]
\* -1 .. n+2
Bounds(n) == [k \in 1..(n + 4) |-> k - 2]
B01(b) == IF b THEN 1 ELSE 0

\* one string with everything the specification says about it
StrCase(s, pairs, bounds) ==
  LET st == RangeSteps(s)
      rs == TLCEval([i \in 1..Len(st) |-> st[i][2]]) IN
  << s,
     [i \in 1..Len(st) |-> <<st[i][1], st[i][2]>>],                 \* 2: range: <<index, rune>>
     rs,                                                            \* 3: []rune(s)
     FromRunes(rs),                                                 \* 4: string([]rune(s))
     [k \in 1..Len(bounds) |-> <<bounds[k], Index(s, bounds[k])>>], \* 5: s[i], -1 = panic
     [k \in 1..Len(pairs) |-> <<pairs[k][1], pairs[k][2], Slice(s, pairs[k][1], pairs[k][2])>>],   \* 6: s[lo:hi]
     [k \in 1..Len(bounds) |-> <<bounds[k], SliceFrom(s, bounds[k])>>],                             \* 7: s[lo:]
     [k \in 1..Len(bounds) |-> <<bounds[k], SliceTo(s, bounds[k])>>],                               \* 8: s[:hi]
     Copy(<<Fill, Fill>>, s),                                       \* 9: copy into 2 bytes
     Copy(<<Fill, Fill, Fill, Fill, Fill>>, s),                     \* 10: copy into 5 bytes
     AppendStr(<<120>>, s),                                         \* 11: append([]byte{'x'}, s...)
     B01(Valid(s)),                                                 \* 12: valid UTF-8
     Cmp(s, s),                                                     \* 13: literal against run-time copy
     ToBytes(s)                                                     \* 14: []byte(s)
  >>

EnumCase(s) == StrCase(s, AllPairs(Len(s)), Bounds(Len(s)))

\* strings of length L that start with pre
Ext(pre, L) == {pre \o t : t \in [1..(L - Len(pre)) -> AlphaSet]}

\* a key set: a prefix and all its extensions by one alphabet byte; probes: all
\* keys, longer strings and the prefix without its last byte (absent)
GrpCase(p) ==
  LET keys == <<p>> \o [i \in AlphaIdx |-> p \o <<Alphabet[i]>>]
      absent == <<p \o <<Alphabet[1], Alphabet[1]>>, p \o <<Alphabet[Len(Alphabet)], Alphabet[1]>>, p \o <<0, 0, 0>>>>
                \o (IF p = <<>> THEN <<>> ELSE <<SubSeq(p, 1, Len(p) - 1)>>)
      probes == keys \o absent
  IN << keys, [i \in 1..Len(probes) |-> <<probes[i], Lookup(keys, probes[i]) - 1>>], Cardinality(Range(keys)) >>

PairCase(a, b) == <<b, Cmp(a, b), Concat(a, b)>>

\* a long string: the pattern l.pat repeated up to length l.n (longer than the
\* 10000-byte chunks in which the run time converts byte slices).
\* (SubSeq turns the function into a genuine tuple: Len of a function value costs O(n) in TLC)
LongStr(l) == TLCEval(SubSeq([k \in 1..l.n |-> l.pat[((k - 1) % Len(l.pat)) + 1]], 1, l.n))
Digest(r) == IF r = Panic THEN <<-1>> ELSE IF r = <<>> THEN <<0>> ELSE <<Len(r), r[1], r[Len(r)]>>
LongCase(l) ==
  LET s == LongStr(l) IN
  << l.n, l.pat, StrLen(s),
     \* <<offset, s[offset]>> and, in range, the rune and width decoded there
     [k \in DOMAIN l.offs |-> <<l.offs[k], Index(s, l.offs[k])>>
                               \o (IF IndexPanics(s, l.offs[k]) THEN <<>> ELSE DecodeRune(s, l.offs[k]))],
     [k \in DOMAIN l.pairs |-> <<l.pairs[k][1], l.pairs[k][2], Digest(Slice(s, l.pairs[k][1], l.pairs[k][2]))>>] >>

(***************************************************************************)
(* units and rows                                                          *)
(***************************************************************************)
Units ==
  (IF "str" \in Classes THEN {<<"str", 0, 0>>} \cup {<<"str", L, i>> : L \in 2..MaxLen, i \in AlphaIdx} ELSE {})
  \cup (IF "grp" \in Classes THEN {<<"grp", 0, 0>>} \cup {<<"grp", L, i>> : L \in 2..(MaxLen - 1), i \in AlphaIdx} ELSE {})
  \cup (IF "pair" \in Classes THEN {<<"pair", 0, 0>>} ELSE {})
  \cup (IF "rune" \in Classes THEN {<<"rune", 0, 0>>} ELSE {})
  \cup (IF "rand" \in Classes THEN {<<"rand", 0, 0>>} ELSE {})
  \cup (IF "long" \in Classes THEN {<<"long", 0, 0>>} ELSE {})

NumChunks == (Len(Rand) + ChunkSize - 1) \div ChunkSize

Rows(u) ==
  CASE u[1] \in {"str", "grp"} -> (IF u[2] = 0 THEN {0} ELSE AlphaIdx)
    [] u[1] = "pair" -> DOMAIN Sample
    [] u[1] = "rune" -> 0..Len(Runes)
    [] u[1] = "rand" -> 1..NumChunks
    [] u[1] = "long" -> DOMAIN Longs

\* the strings a row of a str/grp/rand unit talks about
RowStrings(u, r) ==
  CASE u[1] = "str" -> (IF u[2] = 0 THEN {<<>>} \cup {<<b>> : b \in AlphaSet}
                        ELSE Ext(<<Alphabet[u[3]], Alphabet[r]>>, u[2]))
    [] u[1] = "grp" -> (IF u[2] = 0 THEN {<<>>} \cup {<<b>> : b \in AlphaSet}     \* prefixes
                        ELSE Ext(<<Alphabet[u[3]], Alphabet[r]>>, u[2]))
    [] u[1] = "rand" -> {Rand[i].s : i \in ((r - 1) * ChunkSize + 1)..Min(r * ChunkSize, Len(Rand))}
    [] OTHER -> {}

RowCases(u, r) ==
  CASE u[1] = "str" -> LET ss == SetToSeq(RowStrings(u, r)) IN [i \in 1..Len(ss) |-> EnumCase(ss[i])]
    [] u[1] = "grp" -> LET ps == SetToSeq(RowStrings(u, r)) IN [i \in 1..Len(ps) |-> GrpCase(ps[i])]
    [] u[1] = "pair" -> <<Sample[r], [j \in DOMAIN Sample |-> PairCase(Sample[r], Sample[j])]>>
    [] u[1] = "rune" -> (IF r = 0 THEN [i \in DOMAIN Ints |-> <<Ints[i], StringFromInt(Ints[i])>>]
                         ELSE [j \in DOMAIN Runes |->
                                 LET rs == <<Runes[r], Runes[j]>> IN <<rs, FromRunes(rs), ToRunes(FromRunes(rs))>>])
    [] u[1] = "rand" -> LET lo == (r - 1) * ChunkSize + 1 hi == Min(r * ChunkSize, Len(Rand)) IN
                        [i \in 1..(hi - lo + 1) |->
                           LET e == Rand[lo + i - 1]
                               bs == [k \in 1..(2 * Len(e.pairs)) |-> e.pairs[(k + 1) \div 2][2 - (k % 2)]]
                           IN StrCase(e.s, e.pairs, bs)]
    [] u[1] = "long" -> LongCase(Longs[r])

(***************************************************************************)
(* properties of the reference definitions on the enumerated values        *)
(***************************************************************************)
StringOK(s) ==
  LET st == RangeSteps(s) n == Len(s) IN
  /\ \A i \in 1..Len(st) : /\ st[i][3] \in 1..4
                           /\ st[i][1] = (IF i = 1 THEN 0 ELSE st[i-1][1] + st[i-1][3])
  /\ (IF st = <<>> THEN n = 0 ELSE st[Len(st)][1] + st[Len(st)][3] = n)   \* decoding consumes exactly all bytes
  /\ \A p \in 0..(n - 1) : /\ DecodeRune(s, p) = DecodeSpec(s, p)
                           /\ Cardinality(EncodingsAt(s, p)) <= 1          \* prefix free
  /\ ((FromRunes(ToRunes(s)) = s) <=> Valid(s))
  /\ ToRunes(FromRunes(ToRunes(s))) = ToRunes(s)
  /\ RuneCount(s) <= n
  /\ \A k \in 0..n : Slice(s, 0, k) \o Slice(s, k, n) = s
  /\ Cmp(s, s) = 0 /\ ~Less(s, s)
  /\ (n > 0 => Less(SubSeq(s, 1, n - 1), s))

PairOK(a, b) ==
  /\ Cmp(a, b) = 0 - Cmp(b, a)
  /\ (Cmp(a, b) = 0) <=> (a = b)
  /\ Slice(Concat(a, b), 0, Len(a)) = a /\ SliceFrom(Concat(a, b), Len(a)) = b
  /\ RangeSteps(a) = RangeFrom(a, 0)
  \* a byte-wise order that coincides with code point order on valid strings
  /\ (Valid(a) /\ Valid(b) /\ Len(ToRunes(a)) = 1 /\ Len(ToRunes(b)) = 1 => ((ToRunes(a)[1] < ToRunes(b)[1]) <=> Less(a, b)))

RowOK(u, r) ==
  CASE u[1] \in {"str", "rand"} -> \A s \in RowStrings(u, r) : StringOK(s)
    [] u[1] = "grp" -> \A p \in RowStrings(u, r) : LET g == GrpCase(p) IN g[3] = Len(g[1])   \* keys are pairwise different
    [] u[1] = "pair" -> \A j \in DOMAIN Sample : PairOK(Sample[r], Sample[j])
    [] u[1] = "rune" -> (r > 0 => \A j \in DOMAIN Runes :
                           LET rs == <<Runes[r], Runes[j]>> IN
                           /\ Valid(FromRunes(rs))
                           /\ ToRunes(FromRunes(rs)) = [i \in 1..2 |-> IF IsScalar(rs[i]) THEN rs[i] ELSE RuneError])
    [] OTHER -> TRUE

VARIABLES unit, row
vars == <<unit, row>>
NoRow == -1

Init == unit \in Units /\ row = NoRow
Next == row = NoRow /\ row' \in Rows(unit) /\ UNCHANGED unit
Spec == Init /\ [][Next]_vars

SpecOK == row # NoRow => RowOK(unit, row)

\* "invariant" used for its side effect: one JSON line per row state; all rows of
\* a unit are successors of one state and therefore written by one worker
UnitFile(u) == OutFile \o "." \o u[1] \o "_" \o ToString(u[2]) \o "_" \o ToString(u[3]) \o ".ndjson"
Emit == row # NoRow => CSVWrite("%1$s", <<ToJson(RowCases(unit, row))>>, UnitFile(unit))
=============================================================================
