----------------------------- MODULE UnwindScen -----------------------------
(***************************************************************************)
(* Scenario enumeration for C08: function families are built operation by  *)
(* operation (FN first, F1 last; a body is closed by return / panic / a    *)
(* run-time error / Goexit or by the length bound), so that exhaustive     *)
(* model checking enumerates every family inside the bounds once and       *)
(* `-simulate` samples larger ones.  Every complete family is written as   *)
(* one JSON line together with the outcome Unwind.tla predicts.            *)
(*                                                                         *)
(* c08_params.json:  N (functions), L (max body length per function),      *)
(*                   ops (enabled operation kinds), out (file)             *)
(***************************************************************************)
EXTENDS Unwind, Json, CSV, FiniteSets

Params == JsonDeserialize("c08_params.json")
N == Params.N
L == Params.L
Ops == {Params.ops[i] : i \in DOMAIN Params.ops}
OutFile == Params.out

VARIABLES P, cur      \* cur: function being written, 0 = complete
vars == <<P, cur>>

Has(k) == k \in Ops

\* operations available at position i of function f
Callees(f) == (f + 1)..N
Deferred(f, i) ==
  LET k == f * 10 + i IN
  (IF Has("d.emit") THEN {<<"emit", k>>} ELSE {})
  \cup (IF Has("d.rec") THEN {<<"rec", k>>} ELSE {})
  \cup (IF Has("d.recnest") THEN {<<"recnest", k>>} ELSE {})
  \cup (IF Has("d.recbuiltin") THEN {<<"recbuiltin">>} ELSE {})
  \cup (IF Has("d.setres") THEN {<<"setres", 8>>} ELSE {})
  \cup (IF Has("d.recset") THEN {<<"recset", k, 9>>} ELSE {})
  \cup (IF Has("d.repanic") THEN {<<"repanic", k>>} ELSE {})
  \cup (IF Has("d.panic") THEN {<<"panic", 2>>} ELSE {})
  \cup (IF Has("d.call") THEN {<<"call", j>> : j \in Callees(f)} ELSE {})
Alphabet(f, i) ==
  LET k == f * 10 + i IN
  (IF Has("emit") THEN {<<"emit", k>>} ELSE {})
  \cup (IF Has("set") THEN {<<"set", 4>>} ELSE {})
  \cup (IF Has("ret") THEN {<<"ret", 6>>} ELSE {})
  \cup (IF Has("panic") THEN {<<"panic", v>> : v \in {1, 2, 3}} ELSE {})
  \cup (IF Has("rte") THEN {<<"rte", n>> : n \in {1, 2}} ELSE {})
  \cup (IF Has("call") THEN {<<"call", j>> : j \in Callees(f)} ELSE {})
  \cup (IF Has("recover") THEN {<<"recover", k>>} ELSE {})
  \cup (IF Has("goexit") /\ f = 1 THEN {<<"goexit">>} ELSE {})
  \cup {<<"defer", d>> : d \in Deferred(f, i)}

Terminator(op) == op[1] \in {"ret", "panic", "rte", "goexit"}
Closed(f) == Len(P[f]) = L[f] \/ (Len(P[f]) > 0 /\ Terminator(P[f][Len(P[f])]))

Init == P = [f \in 1..N |-> <<>>] /\ cur = N

AddOp == /\ cur > 0 /\ ~Closed(cur)
         /\ \E op \in Alphabet(cur, Len(P[cur]) + 1) : P' = [P EXCEPT ![cur] = Append(@, op)]
         /\ UNCHANGED cur
\* a function other than the entry point may be left unused (empty body) only if nothing refers to it;
\* bodies are closed explicitly so that shorter bodies are enumerated too
CloseFn == /\ cur > 0
           /\ cur' = cur - 1
           /\ UNCHANGED P
Next == AddOp \/ CloseFn
Spec == Init /\ [][Next]_vars

Done == cur = 0

\* Sanity of the reference semantics on every complete family:
\*  deferred prints appear in LIFO order within one activation; a program ends in
\*  exactly one way; a panic value that reaches the top was raised by some operation.
PanicVals == {1, 2, 3, RteBase + 1, RteBase + 2}
SemOK == Done =>
  LET o == Run(P) IN
  /\ o.end \in {"exit", "panic", "deadlock"}
  /\ (o.end = "panic" => o.val \in PanicVals)
  /\ (o.end = "deadlock" => \E i \in DOMAIN P[1] : P[1][i][1] = "goexit")
  /\ \A i \in DOMAIN o.obs : o.obs[i][1] \in {"e", "d", "rec", "c", "ret"}

Emit == Done => CSVWrite("%1$s", <<ToJson([P |-> P, out |-> Run(P)])>>, OutFile)
=============================================================================
