----------------------------- MODULE TypesScen -----------------------------
(***************************************************************************)
(* Scenario enumeration for C09.  TLC enumerates families of named struct  *)
(* types (methods, receivers, embedding graphs, scopes) inside the bounds  *)
(* given in c09_params.json, checks the meta-properties of Types.tla on    *)
(* every family (INVARIANT SpecInv) and writes, for every family, the      *)
(* tables the reference semantics predicts (INVARIANT Emit):                *)
(*   as    (dynamic type T_i / *T_i) x interface -> "ok" or the missing     *)
(*         method the failed assertion reports                              *)
(*   s1,s2 arm taken by two type switches (arms1: interfaces top-down;      *)
(*         arms2: concrete types, then interfaces bottom-up)                *)
(*   disp  (type, method, call form) -> concrete method reached, receiver   *)
(*         kind, the counters two successive calls see, the counter of the  *)
(*         target object afterwards and the path of embedded fields to it   *)
(*   eq    == on every pair of interface values of the family               *)
(*   lk    selector lookup facts (for classifying mismatches)               *)
(* A second kind of unit ("ident") enumerates unnamed type expressions      *)
(* written at sites of three packages and two functions and predicts ==     *)
(* on the boxed zero values of every pair: T(rue), F(alse), P(anic).        *)
(*                                                                         *)
(* Params:                                                                  *)
(*   out     prefix of the output files                                     *)
(*   spaces  sequence of bounds: [mode, names, ifaces, slots, rooted,       *)
(*           samples, nunits]                                               *)
(*           mode "exh": every family of the product of the slot choices    *)
(*             slots[i] = [names, scopes, decls, embt, orders]: allowed     *)
(*             type names, <<pkg,fn>> scopes, decl vectors, edge kinds      *)
(*             embt[j-i] ("-","v","p") towards later slot j, field orders   *)
(*           mode "sample": the families listed in `samples` (drawn by the  *)
(*             harness from VERIF_SEED) that lie inside the same bounds     *)
(*           rooted: keep only families whose every type is embedded        *)
(*             (transitively) in type 1                                     *)
(*   ident   [decls, sites, leafs, ctors, d2] (see below)                   *)
(* Work is split in units (one initial state each); the families / rows of  *)
(* a unit are its successor states and go to one file per unit.  A family   *)
(* state carries Types!Cached(F): the family plus the table of its selector *)
(* lookups, computed once from LookupDef (SpecOK re-checks every entry).    *)
(***************************************************************************)
EXTENDS Types, Json, CSV, SequencesExt, FiniteSetsExt

Params == JsonDeserialize("c09_params.json")
OutFile == Params.out
Spaces == Params.spaces

-----------------------------------------------------------------------------
\* families
NSlots(sp) == Len(Spaces[sp].slots)

Rev(s) == [k \in 1..Len(s) |-> s[Len(s) + 1 - k]]
EdgeSeq(ev, i, nt, o) ==
  LET all == [k \in 1..(nt - i) |-> <<ev[i + k], i + k>>]
      sel == SelectSeq(all, LAMBDA e : e[1] # "-") IN
  IF o = "desc" THEN Rev(sel) ELSE sel

SlotChoices(sp, i) ==
  LET sl == Spaces[sp].slots[i]
      nt == NSlots(sp) IN
  {[name |-> n, pkg |-> s[1], fn |-> s[2], decl |-> d, emb |-> EdgeSeq(ev, i, nt, o)] :
     n \in Range(sl.names), s \in Range(sl.scopes), d \in Range(sl.decls),
     ev \in {ev \in [(i + 1)..nt -> {"-", "v", "p"}] : \A j \in (i + 1)..nt : ev[j] \in Range(sl.embt[j - i])},
     o \in Range(sl.orders)}

RECURSIVE Tails(_, _)
Tails(sp, i) == IF i > NSlots(sp) THEN {<<>>} ELSE {<<t>> \o r : t \in SlotChoices(sp, i), r \in Tails(sp, i + 1)}

Fam(sp, ts) == [names |-> Spaces[sp].names, types |-> ts, ifaces |-> Spaces[sp].ifaces]

Rooted(F) == Reach(F, 1) = 1..NT(F)
Keep(sp, F) == WellFormed(F) /\ (Spaces[sp].rooted => Rooted(F))

\* a sampled family lies inside the bounds of its space
InSpace(sp, ts) ==
  /\ Len(ts) = NSlots(sp)
  /\ \A i \in DOMAIN ts :
       LET sl == Spaces[sp].slots[i] t == ts[i] IN
       /\ t.name \in Range(sl.names) /\ <<t.pkg, t.fn>> \in Range(sl.scopes) /\ t.decl \in Range(sl.decls)
       /\ \A k \in DOMAIN t.emb : t.emb[k][2] \in (i + 1)..Len(ts) /\ t.emb[k][1] \in Range(sl.embt[t.emb[k][2] - i]) \ {"-"}
       /\ \A k, l \in DOMAIN t.emb : k # l => t.emb[k][2] # t.emb[l][2]

FirstChoices(sp) == SetToSeq(SlotChoices(sp, 1))
NUnits(sp) == IF Spaces[sp].mode = "exh" THEN Len(FirstChoices(sp)) ELSE Spaces[sp].nunits

FamiliesOf(sp, u) ==
  IF Spaces[sp].mode = "exh"
  THEN {F \in {Fam(sp, <<FirstChoices(sp)[u]>> \o r) : r \in Tails(sp, 2)} : Keep(sp, F)}
  ELSE LET S == Spaces[sp].samples IN
       {F \in {Fam(sp, S[k]) : k \in {k \in DOMAIN S : k % Spaces[sp].nunits = u - 1 /\ InSpace(sp, S[k])}} : Keep(sp, F)}

-----------------------------------------------------------------------------
\* predicted tables of a family
Dyn(k) == <<(k + 1) \div 2, k % 2 = 0>>            \* 1: T_1, 2: *T_1, 3: T_2, ...

InMain(F, q) == F.ifaces[q].pkg = "main" \/ F.ifaces[q].form = "named"    \* can be written in package main
FirstOfItsKind(F, q) ==          \* identical interface literals may not be repeated in one switch
  F.ifaces[q].form = "named" \/ \A p \in 1..(q - 1) : F.ifaces[p].form = "named" \/ ~InMain(F, p) \/ IMethods(F, p) # IMethods(F, q)
IfaceArms(F) == SelectSeq([q \in DOMAIN F.ifaces |-> <<"i", q, FALSE>>], LAMBDA a : InMain(F, a[2]) /\ FirstOfItsKind(F, a[2]))
PkgLevel(F) == SelectSeq([i \in 1..NT(F) |-> i], LAMBDA i : Ty(F, i).fn = "")
Arms1(F) == IfaceArms(F)
Arms2(F) == Rev([k \in DOMAIN PkgLevel(F) |-> <<"t", PkgLevel(F)[k], TRUE>>])
            \o Rev([k \in DOMAIN PkgLevel(F) |-> <<"t", PkgLevel(F)[k], FALSE>>])
            \o Rev(IfaceArms(F))

LkInfo(F, i, mid) == LET r == Lookup(F, i, mid) IN <<r.st, r.depth, r.ty, r.recv, r.ind>>

Vals(F) == [k \in 1..(5 * NT(F)) |->
              LET i == ((k - 1) \div 5) + 1 IN
              CASE k % 5 = 1 -> <<i, "v", 1>>     \* V: x1 := mk()
                [] k % 5 = 2 -> <<i, "v", 1>>     \* W: a copy of x1
                [] k % 5 = 3 -> <<i, "v", 2>>     \* X: x2 := mk()
                [] k % 5 = 4 -> <<i, "p", 1>>     \* P: &x1
                [] k % 5 = 0 -> <<i, "p", 2>>]    \* Q: &x2

Table(sp, F) ==
  LET mids == SetToSeq(AllMIds(F))
      vals == Vals(F)
      a1 == Arms1(F)
      a2 == Arms2(F)
      probes == {<<i, m, f>> \in (1..NT(F)) \X (DOMAIN mids) \X (DOMAIN Forms) : Applicable(F, i, mids[m], Forms[f])}
  IN [sp    |-> sp,
      types |-> F.types,
      str   |-> [i \in 1..NT(F) |-> TypeString(F, i)],
      mids  |-> mids,
      imeth |-> [q \in DOMAIN F.ifaces |-> SetToSeq(IMethods(F, q))],
      lk    |-> [i \in 1..NT(F) |-> [m \in DOMAIN mids |-> LkInfo(F, i, mids[m])]],
      as    |-> [k \in 1..(2 * NT(F)) |-> [q \in DOMAIN F.ifaces |-> Missing(F, Dyn(k)[1], Dyn(k)[2], q)]],
      arms1 |-> a1,
      arms2 |-> a2,
      s1    |-> [k \in 1..(2 * NT(F)) |-> SwitchArm(F, Dyn(k)[1], Dyn(k)[2], a1)],
      s2    |-> [k \in 1..(2 * NT(F)) |-> SwitchArm(F, Dyn(k)[1], Dyn(k)[2], a2)],
      disp  |-> LET ps == SetToSeq(probes) IN
                [k \in DOMAIN ps |->
                   LET d == Dispatch(F, ps[k][1], mids[ps[k][2]], Forms[ps[k][3]]) IN
                   <<ps[k][1], ps[k][2], Forms[ps[k][3]], d.target, d.recv, d.seen[1], d.seen[2], d.seen[3], d.path>>],
      eq    |-> [a \in DOMAIN vals |-> [b \in DOMAIN vals |-> IF IfaceEq(F, vals[a], vals[b]) THEN 1 ELSE 0]]]

-----------------------------------------------------------------------------
(* ident units: unnamed type expressions at sites.                          *)
(*   decls  named types [name, pkg, fn, under]                               *)
(*   sites  [pkg, fn]                                                        *)
(*   leafs  <<qual, name>> identifiers (used where resolvable/importable)    *)
(*   ctors  depth-1 constructors applied to every leaf                       *)
(*   d2     <<outer, inner>> constructor pairs applied to every leaf         *)
ID == Params.ident
IDecls == ID.decls
ISites == ID.sites
I32 == <<"basic", "int32">>

Importable(site, qual) == qual = "" \/ PkgRank(site.pkg) < PkgRank(qual)
ILeafs(site) ==
  {I32} \cup {<<"id", l[1], l[2]>> : l \in {l \in Range(ID.leafs) : Importable(site, l[1]) /\ Resolvable(IDecls, site, l[1], l[2])}}

F1(n, e, emb, tag) == <<n, e, emb, tag>>
CtorOK(c, e) == c \in {"semb", "sembp", "snamed"} => e[1] = "id"
Apply(c, e) ==
  CASE c = "ptr" -> <<"ptr", e>>
    [] c = "slice" -> <<"slice", e>>
    [] c = "chan" -> <<"chan", e>>
    [] c = "func" -> <<"func", e>>
    [] c = "arr2" -> <<"array", 2, e>>
    [] c = "arr3" -> <<"array", 3, e>>
    [] c = "map" -> <<"map", I32, e>>
    [] c = "sX" -> <<"struct", <<F1("X", e, FALSE, "")>>>>
    [] c = "sx" -> <<"struct", <<F1("x", e, FALSE, "")>>>>
    [] c = "sXt" -> <<"struct", <<F1("X", e, FALSE, "t")>>>>
    [] c = "sxY" -> <<"struct", <<F1("x", e, FALSE, ""), F1("Y", I32, FALSE, "")>>>>
    [] c = "sYx" -> <<"struct", <<F1("Y", I32, FALSE, ""), F1("x", e, FALSE, "")>>>>
    [] c = "semb" -> <<"struct", <<F1("", e, TRUE, "")>>>>                 \* struct{ A }
    [] c = "sembp" -> <<"struct", <<F1("", <<"ptr", e>>, TRUE, "")>>>>     \* struct{ *A }
    [] c = "snamed" -> <<"struct", <<F1(e[3], e, FALSE, "")>>>>            \* struct{ A A }
    [] c = "pifM" -> <<"ptr", <<"iface", <<"M">>>>>>                       \* *interface{ M() int32 }
    [] c = "pifm" -> <<"ptr", <<"iface", <<"m">>>>>>                       \* *interface{ m() int32 }
    [] c = "pifMm" -> <<"ptr", <<"iface", <<"M", "m">>>>>>

IExprs(site) ==
  LET L == ILeafs(site)
      d1 == {<<c, l>> \in Range(ID.ctors) \X L : CtorOK(c, l)}
      d2 == {<<p, l>> \in Range(ID.d2) \X L : CtorOK(p[2], l) /\ CtorOK(p[1], Apply(p[2], l))}
  IN L \cup {Apply(x[1], x[2]) : x \in d1} \cup {Apply(x[1][1], Apply(x[1][2], x[2])) : x \in d2}

ISeq == SetToSeq(UNION {{<<s, e>> : e \in IExprs(ISites[s])} : s \in DOMAIN ISites})
IRes == TLCEval([k \in DOMAIN ISeq |-> Res(IDecls, ISites[ISeq[k][1]], ISeq[k][2])])

IRow(r) == [n |-> r, site |-> ISeq[r][1], expr |-> ISeq[r][2], res |-> IRes[r], total |-> Len(ISeq),
            row |-> [b \in DOMAIN ISeq |-> ZeroEq(IDecls, IRes[r], IRes[b])]]

\* identity is an equivalence that coincides with equality of the resolved (canonical) types
IRowOK(r) ==
  /\ Identical(IRes[r], IRes[r])
  /\ \A b \in DOMAIN ISeq :
       /\ Identical(IRes[r], IRes[b]) = Identical(IRes[b], IRes[r])
       /\ Identical(IRes[r], IRes[b]) = (ToJson(IRes[r]) = ToJson(IRes[b]))
       /\ (Identical(IRes[r], IRes[b]) => \A c \in DOMAIN ISeq : Identical(IRes[b], IRes[c]) => Identical(IRes[r], IRes[c]))
       /\ (Identical(IRes[r], IRes[b]) => Comparable(IDecls, IRes[r]) = Comparable(IDecls, IRes[b]))

-----------------------------------------------------------------------------
VARIABLES ph, unit, fam, row
vars == <<ph, unit, fam, row>>

Units == UNION {{<<sp, u>> : u \in 1..NUnits(sp)} : sp \in DOMAIN Spaces}
         \cup {<<0, s>> : s \in DOMAIN ISites}

Init == ph = "unit" /\ unit \in Units /\ fam = <<>> /\ row = 0
Next ==
  /\ ph = "unit"
  /\ UNCHANGED unit
  /\ (IF unit[1] = 0
      THEN ph' = "row" /\ row' \in {r \in DOMAIN ISeq : ISeq[r][1] = unit[2]} /\ UNCHANGED fam
      ELSE ph' = "fam" /\ fam' \in {Cached(F) : F \in FamiliesOf(unit[1], unit[2])} /\ UNCHANGED row)
Spec == Init /\ [][Next]_vars

SpecInv ==
  /\ (ph = "fam" => SpecOK(fam))
  /\ (ph = "row" => IRowOK(row))

UnitFile(u) == OutFile \o "." \o ToString(u[1]) \o "_" \o ToString(u[2]) \o ".ndjson"
Emit ==
  /\ (ph = "fam" => CSVWrite("%1$s", <<ToJson(Table(unit[1], fam))>>, UnitFile(unit)))
  /\ (ph = "row" => CSVWrite("%1$s", <<ToJson(IRow(row))>>, UnitFile(unit)))
=============================================================================
