------------------------------ MODULE InitTrace ------------------------------
(***************************************************************************)
(* Trace validation for C10: the marker trace printed by a real execution  *)
(* (the program compiled by the compiler under test and run under Node, or *)
(* the same program built by the reference toolchain, as guard) is         *)
(* accepted iff it is a complete behaviour of the initialisation machine   *)
(* of Init.tla for SOME cross-package order and the file order fo.         *)
(*                                                                         *)
(* c10_traces.json (written by the harness) is a sequence of records       *)
(*   [scen  |-> the program (as written by InitScen),                      *)
(*    lines |-> the printed markers <<tag, id, a>> in order]               *)
(* Every trace is explored with both file orders; the machine may only     *)
(* print what the trace shows next (l is the position in the trace), all   *)
(* other steps are silent.  A terminal state that has consumed the whole   *)
(* trace writes <<k, fo>> to accepted.ndjson; the harness reads for every  *)
(* trace the set of file orders under which it is accepted (empty: the     *)
(* observation is rejected) and requires that ONE file order explains all  *)
(* traces of the run.                                                      *)
(***************************************************************************)
EXTENDS Init, Json, CSV

Traces == JsonDeserialize("c10_traces.json")

VARIABLES k, fo, scen, m, l
vars == <<k, fo, scen, m, l>>

Lines == Traces[k].lines

TInit ==
  /\ k \in DOMAIN Traces
  /\ fo \in FileOrders
  /\ scen = Prep(Traces[k].scen)
  /\ m = MInit(scen)
  /\ l = 1

\* a step of the machine; if it prints, the trace must show exactly that next
TNext ==
  /\ \E n \in MSucc(scen, fo, m) :
       /\ m' = n
       /\ IF Len(n.out) > Len(m.out)
          THEN /\ l <= Len(Lines)
               /\ n.out[Len(n.out)] = <<Lines[l][1], Lines[l][2], Lines[l][3]>>
               /\ l' = l + 1
          ELSE l' = l
  /\ UNCHANGED <<k, fo, scen>>

TSpec == TInit /\ [][TNext]_vars

Accepted == MDone(scen, m) /\ l = Len(Lines) + 1

\* the machine's own invariants also hold along every validated execution
TInv == MachineInv(scen, m) /\ l = Len(m.out) + 1

Report == Accepted => CSVWrite("%1$s", <<ToJson(<<k, fo>>)>>, "accepted.ndjson")
=============================================================================
