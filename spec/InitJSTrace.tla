----------------------------- MODULE InitJSTrace -----------------------------
(***************************************************************************)
(* Trace validation for the implementation-shaped model InitJS.tla (code   *)
(* -> model): the events recorded from the REAL boot sequence and the REAL *)
(* $init functions of compiled programs (wrappers js/inittrace.js, inserted *)
(* by harness/props/c10/initjs.go before `$callForAllPackages("$finishSetup")`) *)
(* interleaved with the program's own println markers (same stdout: real   *)
(* order) must be behaviours of the machine of InitJS.tla with all         *)
(* deviation switches FALSE.                                               *)
(*                                                                         *)
(* c10_initjs_progs.json : sequence of programs [np, imp, alts]; imp[p] =  *)
(*   imports of p in emitted call order (ascending import path; the helper *)
(*   package vp/rt, if used, is package np with no items); alts = the      *)
(*   candidate item sequences per package (one per file order of Init.tla  *)
(*   -- the marker order inside a package is the reference's PkgSeq for    *)
(*   the file order; ONE alternative must explain the execution).          *)
(* c10_initjs_trace.ndjson : many executions concatenated; every line has  *)
(*   all fields [e, p, s, id, mf]:                                         *)
(*   reset p    the next execution starts (p = index into the programs)    *)
(*   the events of InitJS.tla (boot steps, I+ X I0 I- R+ R-; M id for the  *)
(*   markers v/i/m of declaration id)                                      *)
(*   H          marker of a helper goroutine (accepted only while the      *)
(*              initialising goroutine is parked)                          *)
(*   F          marker printed by a called function / after a linknamed    *)
(*              call (accepted only while an item is being executed)       *)
(*   end        the process exited normally (accepted only at exit)        *)
(* A step of the machine that emits events must find exactly these next in *)
(* the trace; other steps are silent (bounded: every loop of the machine   *)
(* emits).  Acceptance = violation of NotAccepted; register 1 holds the    *)
(* high-water mark (lines consumed) so that a rejected batch names its     *)
(* first unexplained line.  Run with -workers 1 and the depth-first queue. *)
(* The invariants of InitJS.tla are checked along every validated          *)
(* execution as well (TInv).                                               *)
(***************************************************************************)
EXTENDS InitJS, Json

Progs == JsonDeserialize("c10_initjs_progs.json")
Trace == ndJsonDeserialize("c10_initjs_trace.ndjson")

VARIABLE l
tvars == <<vars, l>>

HasEv == l <= Len(Trace)

ProgOf(k, a) == [np |-> Progs[k].np, imp |-> Progs[k].imp, items |-> Progs[k].alts[a], any |-> TRUE]

Explains(tr, m) == tr.e = m.e /\ tr.p = m.p /\ tr.s = m.s /\ tr.id = m.id /\ tr.mf = m.mf

Idle0 == [np |-> 1, imp |-> << <<>> >>, items |-> << <<1>> >>, any |-> TRUE]

TInit ==
  /\ TLCSet(1, 0)
  /\ l = 1
  /\ prog = Idle0 /\ phase = "idle" /\ loaded = {} /\ boot = 0 /\ bootDone = {}
  /\ initFn = [p \in 1..1 |-> "orig"] /\ gofn = "none"
  /\ stack = <<>> /\ saved = <<>> /\ lastChain = <<>> /\ resumed = <<>>
  /\ calls = [p \in 1..1 |-> 0] /\ done = {} /\ order = <<>>
  /\ left = <<>> /\ ran = {} /\ mainFinished = FALSE /\ hist = <<>> /\ ev = <<>>

\* the next execution starts: a fresh process
TReset ==
  /\ HasEv /\ Trace[l].e = "reset" /\ phase = "idle"
  /\ \E a \in DOMAIN Progs[Trace[l].p].alts :
       LET P == ProgOf(Trace[l].p, a) IN
       /\ prog' = P /\ phase' = "load" /\ loaded' = {} /\ boot' = 0 /\ bootDone' = {}
       /\ initFn' = [p \in 1..P.np |-> "orig"] /\ gofn' = "none"
       /\ stack' = <<>> /\ saved' = <<>> /\ lastChain' = <<>> /\ resumed' = <<>>
       /\ calls' = [p \in 1..P.np |-> 0] /\ done' = {} /\ order' = <<>>
       /\ left' = <<>> /\ ran' = {} /\ mainFinished' = FALSE /\ hist' = <<>> /\ ev' = <<>>
  /\ l' = l + 1

\* a step of the machine; the events it emits are the next lines of the trace
TStep ==
  /\ phase # "idle"
  /\ Step
  /\ l + Len(ev') - 1 <= Len(Trace)
  /\ \A k \in 1..Len(ev') : Explains(Trace[l + k - 1], ev'[k])
  /\ l' = l + Len(ev')

\* markers that are not statements of any $init
TNoise ==
  /\ HasEv
  /\ \/ Trace[l].e = "H" /\ phase = "parked"
     \/ /\ Trace[l].e = "F" /\ Running /\ Top.st = "body" /\ Top.r = "none"
        /\ IsItemPc(prog, Top.pkg, Top.pc)
  /\ l' = l + 1
  /\ UNCHANGED vars

TEnd ==
  /\ HasEv /\ Trace[l].e = "end" /\ phase = "exit"
  /\ phase' = "idle" /\ l' = l + 1
  /\ UNCHANGED <<prog, loaded, boot, bootDone, initFn, gofn, stack, saved, lastChain, resumed,
                 calls, done, order, left, ran, mainFinished, hist, ev>>

TNext == TReset \/ TStep \/ TNoise \/ TEnd
TSpec == TInit /\ [][TNext]_tvars

TInv == phase # "idle" => InvAll

NotAccepted == l <= Len(Trace)
HW == IF l - 1 > TLCGet(1) THEN TLCSet(1, l - 1) ELSE TRUE
HWReport == PrintT(<<"HIGHWATER", TLCGet(1)>>)
=============================================================================
