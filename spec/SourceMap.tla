------------------------------ MODULE SourceMap ------------------------------
(***************************************************************************)
(* C19: the source-map hint filter (internal/sourcemapx/filter.go).        *)
(*                                                                         *)
(* The compiler writes generated JavaScript as a byte stream in which      *)
(* source-map hints are embedded: 0x08 (magic), a 16-bit big-endian size,  *)
(* and `size` payload bytes (a type flag and a gob-encoded token.Pos or    *)
(* Identifier).  Filter.Write receives the stream cut into chunks (one     *)
(* chunk per Write call, a hint is never split), copies everything that is *)
(* not a hint to the underlying writer, counts lines and columns of what   *)
(* it copied, and records for every hint one mapping whose generated       *)
(* position is the current (line+1, column).  Filter.WriteJS passes a      *)
(* block of JavaScript (prelude, .inc.js) through esbuild, adds the        *)
(* block's own ("isolated") mappings shifted by the current (line, column) *)
(* and then writes the block through Write.  In minified builds each chunk *)
(* went through removeWhitespace (compiler/utils.go) before it reached the *)
(* filter; that scanner must carry hints over untouched.                   *)
(*                                                                         *)
(* This module contains                                                    *)
(*  (1) the REFERENCE: Ref, a fold over the ITEMS of a stream (code byte,  *)
(*      hint, JavaScript block) that says what the output and the mappings *)
(*      are -- it does not know about chunks;                              *)
(*  (2) the IMPLEMENTATION-SHAPED machine: one action per call (Write of a *)
(*      chunk chosen nondeterministically, WriteJS of a block) and, inside *)
(*      a call, the scan steps of Filter.Write as separate actions         *)
(*      (Scan: FindHint + copy + the newline loop; HintStep: ReadHint +    *)
(*      mapping callback), with the variables of the Go code (p, n, line,  *)
(*      column);                                                           *)
(*  (3) the properties TLC checks on every reachable state (cfg:           *)
(*      INVARIANTS): Refines (at every call boundary the machine equals    *)
(*      Ref of the items consumed -- hence the result is independent of    *)
(*      the chunking), OutputIsInputMinusHints, NoMagicInOutput,           *)
(*      MappingAtNextByte (stated against the output itself: the generated *)
(*      position of a mapping is the line/column of the output byte that   *)
(*      follows the place where its hint was consumed), ReturnsLen,        *)
(*      NoPanic, MinifyKeepsSkeleton (the model of removeWhitespace keeps  *)
(*      every hint, in order, between the same non-blank code bytes);      *)
(*  (4) Emit: every complete behaviour = one (stream, chunking) scenario   *)
(*      is written as a JSON line with the predicted output bytes and      *)
(*      mappings.  harness/props/c19 renders the tokens as real bytes      *)
(*      (hints packed by the real Hint.Pack/WriteTo), replays the calls    *)
(*      through the real Filter (and the real removeWhitespace / WriteJS), *)
(*      decodes the source map it produces and compares.                   *)
(*                                                                         *)
(* Tokens of a stream (token number idx = its position in the stream):     *)
(*   "x" one code byte, the letter chr(96+idx)      "n" newline            *)
(*   "s" a blank (only interesting for the minifier)                       *)
(*   "u" a two-byte UTF-8 character (U+00B7, which the compiler emits in   *)
(*       function names); a chunk boundary may fall between its bytes      *)
(*   "p" position hint   "q" position hint whose payload contains a magic  *)
(*       byte and a newline byte   "i" identifier hint   "z" hint carrying *)
(*       token.NoPos (the compiler emits one after every statement list)   *)
(*   "j", "m" a JavaScript block written with WriteJS (Blocks[1], [2])     *)
(* Columns are counted in BYTES, as the Go code does (see the module's     *)
(* harness for the consequences with non-ASCII output).                    *)
(*                                                                         *)
(* Params (c19_params.json, written by the harness):                       *)
(*   families  sequence of [alphabet, maxlen, mn]: all streams over the    *)
(*             alphabet of length 1..maxlen, mn = 1: stream is minified    *)
(*   extra     further scenarios [t, mn] (seeded longer streams)           *)
(*   blocks    [code, maps]: what esbuild made of the JavaScript snippets  *)
(*             (bytes; isolated mappings <<line0, column, id>>)            *)
(*   out       output file prefix                                          *)
(***************************************************************************)
EXTENDS Integers, Sequences, FiniteSets, TLC, Json, CSV

Params   == JsonDeserialize("c19_params.json")
OutFile  == Params.out
Families == Params.families
Extra    == Params.extra
Blocks   == Params.blocks

MAGIC == 8
NL    == 10
SP    == 32

Range(f) == {f[i] : i \in DOMAIN f}

(***************************************************************************)
(* Items                                                                   *)
(***************************************************************************)
Code(b)             == [k |-> "b", kind |-> 0, id |-> 0, bytes |-> <<b>>]
Hint(kind, id, fil) == [k |-> "h", kind |-> kind, id |-> id,
                        bytes |-> <<MAGIC, 0, 2 + Len(fil), kind, id>> \o fil]
JSBlock(b, idx)     == [k |-> "js", kind |-> b, id |-> idx, bytes |-> <<>>]

TokItems(t, idx) ==
  CASE t = "x" -> <<Code(96 + idx)>>
    [] t = "n" -> <<Code(NL)>>
    [] t = "s" -> <<Code(SP)>>
    [] t = "u" -> <<Code(194), Code(183)>>
    [] t = "p" -> <<Hint(1, idx, <<>>)>>
    [] t = "q" -> <<Hint(1, idx, <<MAGIC, NL>>)>>
    [] t = "i" -> <<Hint(2, idx, <<120>>)>>
    [] t = "z" -> <<Hint(1, 0, <<>>)>>
    [] t = "j" -> <<JSBlock(1, idx)>>
    [] t = "m" -> <<JSBlock(2, idx)>>

RECURSIVE ItemsFrom(_, _)
ItemsFrom(toks, i) == IF i > Len(toks) THEN <<>> ELSE TokItems(toks[i], i) \o ItemsFrom(toks, i + 1)
Items0(toks) == ItemsFrom(toks, 1)

RECURSIVE Flat(_)
Flat(its) == IF its = <<>> THEN <<>> ELSE Head(its).bytes \o Flat(Tail(its))

\* the inverse of Flat for streams without JavaScript blocks
RECURSIVE ParseItems(_)
ParseItems(b) ==
  IF b = <<>> THEN <<>>
  ELSE IF b[1] = MAGIC
       THEN LET len == b[2] * 256 + b[3] + 3 IN
            <<[k |-> "h", kind |-> b[4], id |-> b[5], bytes |-> SubSeq(b, 1, len)]>> \o ParseItems(SubSeq(b, len + 1, Len(b)))
       ELSE <<Code(b[1])>> \o ParseItems(Tail(b))

(***************************************************************************)
(* removeWhitespace (compiler/utils.go), restricted to the bytes of this   *)
(* module: letters, blanks, newlines, UTF-8 bytes, hints.  <<-1>> stands   *)
(* for the index-out-of-range panic of the Go code (b[1] read past the end *)
(* when a chunk ends in a blank after an identifier byte); the compiler    *)
(* never produces such a chunk and such scenarios are skipped.             *)
(***************************************************************************)
NeedsSpace(c) == (c >= 97 /\ c <= 122) \/ (c >= 65 /\ c <= 90) \/ (c >= 48 /\ c <= 57) \/ c = 95 \/ c = 36 \/ c = MAGIC

RECURSIVE RW(_, _, _)
RW(b, prev, acc) ==
  IF b = <<>> THEN acc
  ELSE IF b[1] = MAGIC
       THEN LET len == b[2] * 256 + b[3] + 3 IN RW(SubSeq(b, len + 1, Len(b)), prev, acc \o SubSeq(b, 1, len))
  ELSE IF b[1] \in {SP, NL}
       THEN IF ~NeedsSpace(prev) THEN RW(Tail(b), prev, acc)
            ELSE IF Len(b) < 2 THEN <<-1>>
            ELSE IF ~NeedsSpace(b[2]) THEN RW(Tail(b), prev, acc)
            ELSE RW(Tail(b), b[1], Append(acc, b[1]))
  ELSE RW(Tail(b), b[1], Append(acc, b[1]))

RemoveWhitespace(b) == RW(b, 0, <<>>)

IsBlank(it) == it.k = "b" /\ it.bytes[1] \in {SP, NL}
RECURSIVE Skeleton(_)
Skeleton(its) == IF its = <<>> THEN <<>>
                 ELSE IF IsBlank(Head(its)) THEN Skeleton(Tail(its)) ELSE <<Head(its)>> \o Skeleton(Tail(its))

(***************************************************************************)
(* Positions in a byte sequence                                            *)
(***************************************************************************)
RECURSIVE CountNL(_, _)
CountNL(s, upto) == IF upto = 0 THEN 0 ELSE CountNL(s, upto - 1) + (IF s[upto] = NL THEN 1 ELSE 0)
RECURSIVE LastNL(_, _)     \* index of the last newline among s[1..upto], 0 if none
LastNL(s, upto) == IF upto = 0 THEN 0 ELSE IF s[upto] = NL THEN upto ELSE LastNL(s, upto - 1)
\* <<1-based line, 0-based byte column>> of the byte that follows s[1..at]
LineCol(s, at) == <<1 + CountNL(s, at), at - LastNL(s, at)>>

RECURSIVE IndexFrom(_, _, _)   \* first index >= i with s[index] = b, 0 if none
IndexFrom(s, b, i) == IF i > Len(s) THEN 0 ELSE IF s[i] = b THEN i ELSE IndexFrom(s, b, i + 1)
IndexByte(s, b) == IndexFrom(s, b, 1)

\* byte offset of (0-based line l, byte column c) inside a block of code
RECURSIVE LineStart(_, _)
LineStart(code, l) == IF l = 0 THEN 0 ELSE IndexFrom(code, NL, LineStart(code, l - 1) + 1)
Off(code, l, c) == LineStart(code, l) + c

(***************************************************************************)
(* (1) Reference: what the filter must produce for a sequence of items     *)
(* mapping = <<generated line (1-based), generated column (bytes, 0-based),*)
(*             kind (1 position, 2 identifier, 3 JavaScript), id, at>>     *)
(* `at` = number of output bytes in front of the mapped place (history     *)
(* information for MappingAtNextByte, not part of the source map)          *)
(***************************************************************************)
RefInit == [line |-> 0, col |-> 0, out |-> <<>>, maps |-> <<>>]

AdvByte(a, b) == [line |-> IF b = NL THEN a.line + 1 ELSE a.line,
                  col  |-> IF b = NL THEN 0 ELSE a.col + 1,
                  out  |-> Append(a.out, b),
                  maps |-> a.maps]
RECURSIVE AdvBytes(_, _)
AdvBytes(a, bs) == IF bs = <<>> THEN a ELSE AdvBytes(AdvByte(a, Head(bs)), Tail(bs))

\* The isolated mappings of a JavaScript block, moved to where the block starts:
\* lines shift by the current line; columns shift by the current column only on
\* the block's first line.
JSMaps(a, it) ==
  LET blk == Blocks[it.kind] IN
  [j \in 1..Len(blk.maps) |->
     <<a.line + blk.maps[j][1] + 1,
       IF blk.maps[j][1] = 0 THEN a.col + blk.maps[j][2] ELSE blk.maps[j][2],
       3, it.id * 100 + blk.maps[j][3],
       Len(a.out) + Off(blk.code, blk.maps[j][1], blk.maps[j][2])>>]

RefStep(a, it) ==
  CASE it.k = "b"  -> AdvByte(a, it.bytes[1])
    [] it.k = "h"  -> [a EXCEPT !.maps = Append(@, <<a.line + 1, a.col, it.kind, it.id, Len(a.out)>>)]
    [] it.k = "js" -> AdvBytes([a EXCEPT !.maps = @ \o JSMaps(a, it)], Blocks[it.kind].code)

RECURSIVE Ref(_, _)
Ref(its, j) == IF j = 0 THEN RefInit ELSE RefStep(Ref(its, j - 1), its[j])

(***************************************************************************)
(* (2) The machine                                                         *)
(***************************************************************************)
VARIABLES toks, mn,        \* the scenario: tokens; 1 = the stream went through removeWhitespace
          items,           \* the items the calls consume (computed by Start)
          k,               \* items handed to calls so far
          cuts,            \* history: value of k at the end of every call = the chunking
          pc,              \* start | idle | scan | hint | panic | skip
          p, n, clen,      \* Filter.Write: rest of the chunk, bytes accounted for, len(chunk)
          line, col,       \* Filter.line, Filter.column
          out, maps        \* bytes given to Filter.Writer; mappings added to Filter.m

vars == <<toks, mn, items, k, cuts, pc, p, n, clen, line, col, out, maps>>

FamStreams(f) == UNION {[1..l -> Range(f.alphabet)] : l \in 1..f.maxlen}
Scenarios == UNION {{[t |-> s, mn |-> f.mn] : s \in FamStreams(f)} : f \in Range(Families)}
             \cup Range(Extra)

Init == /\ \E s \in Scenarios : toks = s.t /\ mn = s.mn
        /\ items = <<>> /\ k = 0 /\ cuts = <<>> /\ pc = "start"
        /\ p = <<>> /\ n = 0 /\ clen = 0 /\ line = 0 /\ col = 0 /\ out = <<>> /\ maps = <<>>

\* the stream as the compiler hands it over (minified builds: each piece of code
\* went through removeWhitespace first; here the whole stream is one piece)
Start == /\ pc = "start"
         /\ LET raw == Items0(toks)
                m   == IF mn = 1 THEN RemoveWhitespace(Flat(raw)) ELSE <<>> IN
            IF mn = 1 /\ m = <<-1>>
            THEN pc' = "skip" /\ items' = <<>>
            ELSE pc' = "idle" /\ items' = (IF mn = 1 THEN ParseItems(m) ELSE raw)
         /\ UNCHANGED <<toks, mn, k, cuts, p, n, clen, line, col, out, maps>>

\* one Write call: the chunk = items k+1..e (any e such that no JavaScript block is inside)
Write(e) == /\ pc = "idle" /\ e > k /\ e <= Len(items)
            /\ \A j \in (k + 1)..e : items[j].k # "js"
            /\ p' = Flat(SubSeq(items, k + 1, e))
            /\ clen' = Len(p') /\ n' = 0 /\ k' = e /\ cuts' = Append(cuts, e) /\ pc' = "scan"
            /\ UNCHANGED <<toks, mn, items, line, col, out, maps>>

\* one WriteJS call: the isolated mappings are moved and added, then the code is written
WriteJS == /\ pc = "idle" /\ k < Len(items) /\ items[k + 1].k = "js"
           /\ maps' = maps \o JSMaps([line |-> line, col |-> col, out |-> out, maps |-> maps], items[k + 1])
           /\ p' = Blocks[items[k + 1].kind].code
           /\ clen' = Len(p') /\ n' = 0 /\ k' = k + 1 /\ cuts' = Append(cuts, k + 1) /\ pc' = "scan"
           /\ UNCHANGED <<toks, mn, items, line, col, out>>

\* the newline loop of Filter.Write over the bytes just copied
RECURSIVE Count(_, _, _)
Count(w, l, c) == LET i == IndexByte(w, NL) IN
                  IF i = 0 THEN <<l, c + Len(w)>> ELSE Count(SubSeq(w, i + 1, Len(w)), l + 1, 0)

\* i := FindHint(p); w := p[:i]; Writer.Write(w); count; return if no hint
Scan == /\ pc = "scan"
        /\ LET i  == IndexByte(p, MAGIC)
               w  == IF i = 0 THEN p ELSE SubSeq(p, 1, i - 1)
               lc == Count(w, line, col) IN
           /\ out' = out \o w /\ line' = lc[1] /\ col' = lc[2] /\ n' = n + Len(w)
           /\ (IF i = 0 THEN pc' = "idle" /\ p' = <<>>
                        ELSE pc' = "hint" /\ p' = SubSeq(p, i, Len(p)))
        /\ UNCHANGED <<toks, mn, items, k, cuts, clen, maps>>

\* h, length := ReadHint(p[i:]); callback(line+1, column, ...); p = p[i+length:]
HintStep == /\ pc = "hint"
            /\ (IF Len(p) < 3 \/ Len(p) < p[2] * 256 + p[3] + 3
                THEN pc' = "panic" /\ UNCHANGED <<p, n, maps>>
                ELSE LET length == p[2] * 256 + p[3] + 3 IN
                     /\ maps' = Append(maps, <<line + 1, col, p[4], p[5], Len(out)>>)
                     /\ p' = SubSeq(p, length + 1, Len(p)) /\ n' = n + length /\ pc' = "scan")
            /\ UNCHANGED <<toks, mn, items, k, cuts, clen, line, col, out>>

Next == Start \/ (\E e \in 1..Len(items) : Write(e)) \/ WriteJS \/ Scan \/ HintStep
Spec == Init /\ [][Next]_vars

(***************************************************************************)
(* (3) Properties                                                          *)
(***************************************************************************)
Done == pc = "idle" /\ k = Len(items)

TypeOK == /\ pc \in {"start", "idle", "scan", "hint", "panic", "skip"}
          /\ k \in 0..Len(items) /\ n \in 0..clen /\ line >= 0 /\ col >= 0
          /\ \A j \in DOMAIN maps : Len(maps[j]) = 5

\* a hint is never split, so ReadHint never runs past the end of a chunk
NoPanic == pc # "panic"

\* at every call boundary the filter is where the reference says it is after the
\* items consumed so far: output, mappings, line and column do not depend on
\* how the items were cut into calls
Refines == pc = "idle" => [line |-> line, col |-> col, out |-> out, maps |-> maps] = Ref(items, k)

RECURSIVE CodeBytes(_)
CodeBytes(its) == IF its = <<>> THEN <<>>
                  ELSE (CASE Head(its).k = "b"  -> Head(its).bytes
                          [] Head(its).k = "h"  -> <<>>
                          [] Head(its).k = "js" -> Blocks[Head(its).kind].code) \o CodeBytes(Tail(its))
OutputIsInputMinusHints == pc = "idle" => out = CodeBytes(SubSeq(items, 1, k))

NoMagicInOutput == \A j \in DOMAIN out : out[j] # MAGIC

\* the generated position of a mapping is the position of the next output byte at
\* the moment its hint was consumed (for a JavaScript mapping: of the byte of the
\* block it points at), stated against the bytes actually written
MappingAtNextByte == \A j \in DOMAIN maps :
                        maps[j][5] <= Len(out) => <<maps[j][1], maps[j][2]>> = LineCol(out, maps[j][5])

\* io.Writer contract: a call returns the number of input bytes it consumed
ReturnsLen == pc = "idle" /\ k > 0 => n = clen

\* removeWhitespace drops blanks only: every hint survives, in order, between
\* the same non-blank code bytes
MinifyKeepsSkeleton == (mn = 1 /\ pc \notin {"start", "skip"}) => Skeleton(items) = Skeleton(Items0(toks))

(***************************************************************************)
(* (4) Scenario emission                                                   *)
(***************************************************************************)
Shard == OutFile \o "." \o ToString(mn) \o "_" \o ToString(Len(toks)) \o "_" \o toks[1] \o ".ndjson"
Rec == [t |-> toks, mn |-> mn, c |-> cuts, o |-> out,
        m |-> [j \in DOMAIN maps |-> <<maps[j][1], maps[j][2], maps[j][3], maps[j][4]>>]]
Emit == Done => CSVWrite("%1$s", <<ToJson(Rec)>>, Shard)
=============================================================================
