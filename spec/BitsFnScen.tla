----------------------------- MODULE BitsFnScen -----------------------------
(***************************************************************************)
(* math/bits part of C13.                                                  *)
(*                                                                         *)
(* (1) Validation of BitsFn.tla at width 8 against plain integer           *)
(*     arithmetic (rows of the unit "validate8": one row per first         *)
(*     operand -- thorough tier: every 4th value and 1, 127, 129, 254,     *)
(*     255; quick tier: 6 boundary values; the second operand always runs  *)
(*     over all of 0..255).  The operators are width-generic: this is the  *)
(*     evidence for their 32- and 64-bit instances.  In addition algebraic *)
(*     sanity of every enumerated 32/64-bit case (q*y + r = hi:lo, r < y,  *)
(*     Sub undoes Add, Mul commutes), invariant Sane.                      *)
(* (2) Enumeration: for every function of math/bits under test and every   *)
(*     argument tuple over the boundary grid (plus VERIF_SEED operands)    *)
(*     the predicted result; one JSON line per (function, first argument): *)
(*         << <<fn, args, result>>, ... >>                                 *)
(*     args: limb tuples (16-bit limbs, LSB first) or integers (rotate     *)
(*     count, carry); result: <<-1>> divide error, <<-2>> overflow error,  *)
(*     else the results in order, limb tuples flattened, counts as they    *)
(*     are.  The harness calls the functions in a program compiled by      *)
(*     GopherJS and natively (guard).                                      *)
(*                                                                         *)
(* Parameters (module C13Params): BitsTier, BitsRand32, BitsRand64 (limbs), *)
(* BitsFns (functions to enumerate).  Output: c13_bits.<fn>.<part>.ndjson  *)
(***************************************************************************)
EXTENDS BitsFn, C13Params, FiniteSets, Json, CSV, SequencesExt

Pow(k, w) == [i \in 1..w |-> IF i = k + 1 THEN 1 ELSE 0]
Alt(w, ph) == [i \in 1..w |-> (i + ph) % 2]
BoundaryBits(w) ==
  {FromNat(n, w) : n \in {0, 1, 2, 3, 7, 10, 255, 256, 65535}} \cup {Neg(FromNat(n, w)) : n \in {1, 2, 3}}
  \cup {Pow(w-1, w), Add(Pow(w-1, w), FromNat(1, w)), Not(Pow(w-1, w))}
  \cup {Pow(w \div 2, w), Sub(Pow(w \div 2, w), FromNat(1, w)), Neg(Pow(w \div 2, w))}
  \cup {Alt(w, 0), Alt(w, 1)}
SmallBits(w) ==
  {FromNat(n, w) : n \in {0, 1, 2, 3}} \cup {Ones(w), Sub(Ones(w), FromNat(1, w)), Pow(w-1, w), Not(Pow(w-1, w)),
   Pow(w \div 2, w), Sub(Pow(w \div 2, w), FromNat(1, w))}
TinyBits(w) == {FromNat(0, w), FromNat(1, w), Ones(w), Pow(w-1, w), Not(Pow(w-1, w)), Pow(w \div 2, w)}
RandOf(w) == IF w = 32 THEN Range(BitsRand32) ELSE Range(BitsRand64)
Quick == BitsTier = "quick"
G(w) == {ToLimbs(v) : v \in BoundaryBits(w)} \cup RandOf(w)
S(w) == {ToLimbs(v) : v \in SmallBits(w)} \cup RandOf(w)
\* the quick tier divides over a smaller grid (long division on bit vectors is the expensive operator)
LoGrid(w) == IF Quick \/ w = 64 THEN {ToLimbs(v) : v \in TinyBits(w)} \cup RandOf(w) ELSE S(w)
MulGrid(w) == IF w = 64 THEN S(w) ELSE G(w)
DivGrid(w) == IF Quick \/ w = 64 THEN S(w) ELSE G(w)
ValidateRows == IF Quick THEN {0, 1, 127, 128, 254, 255} ELSE {k \in 0..255 : k % 4 = 0} \cup {1, 127, 129, 254, 255}
ValidateLos(a, b) == IF Quick THEN {(a * 7 + b) % 256} ELSE {255, (a * 7 + b) % 256}
Rot == {0, 1, 7, 8, 31, 32, 33, 63, 64, 65, -1, -8, -33, 100}

Fns == Range(BitsFns)
WOf(fn) == IF fn \in {"Mul32", "Add32", "Sub32", "Div32", "Rem32", "LeadingZeros32", "TrailingZeros32", "OnesCount32",
                      "Len32", "RotateLeft32", "Reverse32", "ReverseBytes32"} THEN 32 ELSE 64
Base(fn) == CASE fn \in {"Mul32", "Mul64"} -> "Mul" [] fn \in {"Add32", "Add64"} -> "Add" [] fn \in {"Sub32", "Sub64"} -> "Sub"
              [] fn \in {"Div32", "Div64"} -> "Div" [] fn \in {"Rem32", "Rem64"} -> "Rem"
              [] fn \in {"LeadingZeros32", "LeadingZeros64"} -> "LeadingZeros" [] fn \in {"TrailingZeros32", "TrailingZeros64"} -> "TrailingZeros"
              [] fn \in {"OnesCount32", "OnesCount64"} -> "OnesCount" [] fn \in {"Len32", "Len64"} -> "Len"
              [] fn \in {"RotateLeft32", "RotateLeft64"} -> "RotateLeft" [] fn \in {"Reverse32", "Reverse64"} -> "Reverse"
              [] fn \in {"ReverseBytes32", "ReverseBytes64"} -> "ReverseBytes"
Ternary(fn) == Base(fn) \in {"Div", "Rem"}

V(l, w) == FromLimbs(l, w)
Flat(r) == IF r.p = 1 THEN <<-1>> ELSE IF r.p = 2 THEN <<-2>>
           ELSE FoldLeft(LAMBDA acc, v : acc \o ToLimbs(v), <<>>, r.r)

\* the cases of one (function, first argument) row: set of <<args, result>>
Cases(fn, a) ==
  LET w == WOf(fn) b == Base(fn) x == V(a, w) IN
  CASE b = "Mul" -> {<<<<a, y>>, Flat(MulW(x, V(y, w)))>> : y \in MulGrid(w)}
    [] b = "Add" -> {<<<<a, y, c>>, Flat(AddW(x, V(y, w), FromNat(c, w)))>> : y \in G(w), c \in {0, 1}}
    [] b = "Sub" -> {<<<<a, y, c>>, Flat(SubW(x, V(y, w), FromNat(c, w)))>> : y \in G(w), c \in {0, 1}}
    [] b = "Div" -> {<<<<a, lo, y>>, Flat(DivW(x, V(lo, w), V(y, w)))>> : lo \in LoGrid(w), y \in DivGrid(w)}
    [] b = "Rem" -> {<<<<a, lo, y>>, Flat(RemW(x, V(lo, w), V(y, w)))>> : lo \in LoGrid(w), y \in DivGrid(w)}
    [] b = "LeadingZeros" -> {<<<<a>>, <<LeadingZeros(x)>>>>}
    [] b = "TrailingZeros" -> {<<<<a>>, <<TrailingZeros(x)>>>>}
    [] b = "OnesCount" -> {<<<<a>>, <<OnesCount(x)>>>>}
    [] b = "Len" -> {<<<<a>>, <<BitLen(x)>>>>}
    [] b = "RotateLeft" -> {<<<<a, k>>, ToLimbs(RotateLeft(x, k))>> : k \in Rot}
    [] b = "Reverse" -> {<<<<a>>, ToLimbs(Reverse(x))>>}
    [] b = "ReverseBytes" -> {<<<<a>>, ToLimbs(ReverseBytes(x))>>}

FirstArgs(fn) == IF Ternary(fn) THEN (IF Quick \/ WOf(fn) = 64 THEN LoGrid(WOf(fn)) ELSE S(WOf(fn)))
                 ELSE IF Base(fn) = "Mul" THEN (IF Quick THEN S(WOf(fn)) ELSE MulGrid(WOf(fn)))
                 ELSE IF Quick /\ Base(fn) \in {"Add", "Sub"} THEN S(WOf(fn))
                 ELSE G(WOf(fn))

(***************************************************************************)
(* Validation at width 8                                                   *)
(***************************************************************************)
U(v) == NatOf(v, 1, Len(v))
B8(n) == FromNat(n, 8)
P2(k) == 2^k
NLen(n) == IF n = 0 THEN 0 ELSE CHOOSE k \in 1..8 : P2(k-1) <= n /\ n < P2(k)
NOnes(n) == Cardinality({k \in 0..7 : (n \div P2(k)) % 2 = 1})
NTz(n) == IF n = 0 THEN 8 ELSE CHOOSE k \in 0..7 : n % P2(k+1) = P2(k)
Validate8(a) ==
  LET x == B8(a) IN
  /\ \A b \in 0..255 :
       LET y == B8(b) IN
       /\ MulW(x, y) = RetV(<<B8((a * b) \div 256), B8((a * b) % 256)>>)
       /\ \A c \in {0, 1} :
            /\ AddW(x, y, B8(c)) = RetV(<<B8((a + b + c) % 256), B8((a + b + c) \div 256)>>)
            /\ SubW(x, y, B8(c)) = RetV(<<B8((a - b - c + 512) % 256), B8(IF a < b + c THEN 1 ELSE 0)>>)
       \* (a, lo) is the dividend a*256 + lo, b the divisor
       /\ \A lo \in ValidateLos(a, b) :
            /\ DivW(x, B8(lo), y) = (IF b = 0 THEN PanicDivide ELSE IF b <= a THEN PanicOverflow
                                     ELSE RetV(<<B8((a * 256 + lo) \div b), B8((a * 256 + lo) % b)>>))
            /\ RemW(x, B8(lo), y) = (IF b = 0 THEN PanicDivide ELSE RetV(<<B8((a * 256 + lo) % b)>>))
  /\ LeadingZeros(x) = 8 - NLen(a) /\ BitLen(x) = NLen(a)
  /\ TrailingZeros(x) = NTz(a) /\ OnesCount(x) = NOnes(a)
  /\ \A k \in -17..17 : U(RotateLeft(x, k)) = LET s == k % 8 IN ((a * P2(s)) % 256) + (a \div P2(8 - s))
  /\ Reverse(Reverse(x)) = x /\ \A i \in 1..8 : Reverse(x)[i] = x[9 - i]
  /\ ReverseBytes(x) = x
  /\ \A h \in {0, 1, 128, 255} : U(ReverseBytes(FromNat(h * 256 + a, 16))) = a * 256 + h

(***************************************************************************)
(* Algebraic sanity of the enumerated 32/64-bit cases                      *)
(***************************************************************************)
SaneCase(fn, args, res) ==
  LET w == WOf(fn) b == Base(fn) IN
  CASE b = "Div" ->
         LET hi == V(args[1], w) lo == V(args[2], w) y == V(args[3], w) IN
         IF res[1] < 0 THEN (res = <<-1>>) = IsZero(y) /\ (res = <<-2>>) = (~IsZero(y) /\ ~ULess(hi, y))
         ELSE LET n == w \div 16
                  q == V(SubSeq(res, 1, n), w) r == V(SubSeq(res, n + 1, 2 * n), w)
              IN /\ ULess(r, y)                                           \* r < y
                 /\ Add(Mul(ZX(q, 2 * w), ZX(y, 2 * w)), ZX(r, 2 * w)) = Cat(hi, lo)   \* q*y + r = hi:lo
    [] b = "Add" ->
         LET x == V(args[1], w) y == V(args[2], w) n == w \div 16
             s == V(SubSeq(res, 1, n), w) c == V(SubSeq(res, n + 1, 2 * n), w)
         IN SubW(s, y, FromNat(args[3], w)) = RetV(<<x, c>>)              \* Sub undoes Add, borrow = carry
    [] b = "Mul" ->
         MulW(V(args[2], w), V(args[1], w)) = MulW(V(args[1], w), V(args[2], w))   \* commutative
    [] OTHER -> TRUE

\* A unit is <<function or "validate8", part>>; its rows are the first arguments
\* of that part.  All rows of a unit are successors of one initial state, hence
\* generated and checked by ONE worker: a file per unit needs no synchronisation
\* and the parts spread the heavy functions over the workers.
VARIABLES unit, row
vars == <<unit, row>>
NoRow == <<-1>>
NParts == 4
PartOf(set, p) == LET s == SetToSeq(set) IN {s[i] : i \in {j \in 1..Len(s) : j % NParts = p}}

Init == /\ unit \in ((Fns \cup {"validate8"}) \X (0..NParts-1))
        /\ row = NoRow
Next == /\ row = NoRow
        /\ row' \in (IF unit[1] = "validate8" THEN {<<k>> : k \in {j \in ValidateRows : j % NParts = unit[2]}}
                      ELSE PartOf(FirstArgs(unit[1]), unit[2]))
        /\ UNCHANGED unit
Spec == Init /\ [][Next]_vars

Valid == unit[1] = "validate8" /\ row # NoRow => Validate8(row[1])
Sane == unit[1] # "validate8" /\ row # NoRow => \A cs \in Cases(unit[1], row) : SaneCase(unit[1], cs[1], cs[2])

Recs(fn, a) == LET cs == SetToSeq(Cases(fn, a)) IN [i \in 1..Len(cs) |-> <<fn, cs[i][1], cs[i][2]>>]
Emit == unit[1] # "validate8" /\ row # NoRow =>
          CSVWrite("%1$s", <<ToJson(Recs(unit[1], row))>>, "c13_bits." \o unit[1] \o "." \o ToString(unit[2]) \o ".ndjson")
=============================================================================
