------------------------------- MODULE GoChan -------------------------------
(***************************************************************************)
(* Reference semantics of Go channels, select and goroutine blocking (C03) *)
(* in invocation / linearisation / response form.                          *)
(*                                                                         *)
(* A goroutine invokes an operation (Invoke), the operation takes effect   *)
(* atomically at some later point (one of the Lin actions, which are the   *)
(* language semantics), and the goroutine then observes the result         *)
(* (Respond).  The forward model GoChanProg.tla drives these actions from  *)
(* lazily constructed programs; GoChanTrace.tla drives the same actions    *)
(* from a recorded execution of the real run time, with the Lin actions    *)
(* as silent steps.                                                        *)
(*                                                                         *)
(* Which of several pending goroutines is served first is deliberately     *)
(* unconstrained (the language does not say); values in a channel keep     *)
(* their send order.                                                       *)
(***************************************************************************)
EXTENDS Integers, Sequences, FiniteSets, TLC, GoChanDefs

CONSTANTS NG,      \* goroutines 1..NG, 1 is main
          NC,      \* channels 1..NC; channel 0 is the nil channel
          Strict   \* TRUE: an invoked operation is already at the channel (single-threaded run time);
                   \* FALSE: invocation and arrival are not atomic (preemptive reference run time)

G == 1..NG
Chans == 1..NC

VARIABLES cap,     \* cap[c]: capacity of channel c (fixed per program)
          st,      \* st[g] \in {"off", "run", "pend", "res", "done"}
          op,      \* op[g]: the invoked operation while st[g] \in {"pend", "res"}
          res,     \* res[g]: its result while st[g] = "res"
          buf,     \* buf[c]: buffered values, oldest first
          closed,  \* closed[c]
          ended    \* "" | "exit" | "deadlock"

cvars == <<cap, st, op, res, buf, closed, ended>>

CInit ==
  /\ st = [g \in G |-> IF g = 1 THEN "run" ELSE "off"]
  /\ op = [g \in G |-> NoOp]
  /\ res = [g \in G |-> NoRes]
  /\ buf = [c \in Chans |-> <<>>]
  /\ closed = [c \in Chans |-> FALSE]
  /\ ended = ""

Live == ended = ""

Invoke(g, o) ==
  /\ Live /\ st[g] = "run"
  /\ st' = [st EXCEPT ![g] = "pend"]
  /\ op' = [op EXCEPT ![g] = o]
  /\ UNCHANGED <<cap, res, buf, closed, ended>>

Respond(g) ==
  /\ Live /\ st[g] = "res"
  /\ st' = [st EXCEPT ![g] = "run"]
  /\ UNCHANGED <<cap, op, res, buf, closed, ended>>

Spawn(g, h) ==
  /\ Live /\ st[g] = "run" /\ st[h] = "off"
  /\ st' = [st EXCEPT ![h] = "run"]
  /\ UNCHANGED <<cap, op, res, buf, closed, ended>>

Exit(g) ==
  /\ Live /\ st[g] = "run"
  /\ st' = [st EXCEPT ![g] = "done"]
  /\ ended' = IF g = 1 THEN "exit" ELSE ended      \* the program ends when main returns
  /\ UNCHANGED <<cap, op, res, buf, closed>>

(***************************************************************************)
(* Linearisation points                                                    *)
(***************************************************************************)
\* an offer that can proceed without a partner
ReadyAlone(o) ==
  /\ o[2] # 0
  /\ IF o[1] = "s" THEN closed[o[2]] \/ Len(buf[o[2]]) < cap[o[2]]
                   ELSE Len(buf[o[2]]) > 0 \/ closed[o[2]]

\* result of operation of kind k whose offer number i (1-based) fired with received (v, b)
OfferRes(g, i, v, b) ==
  IF op[g].k = "sel" THEN [t |-> "sel", i |-> i - 1, v |-> v, ok |-> b]
  ELSE IF op[g].k = "send" THEN Ok ELSE ValRes(v, b)

Resolve(g, r) == /\ st' = [st EXCEPT ![g] = "res"]
                 /\ res' = [res EXCEPT ![g] = r]

LinAlone(g, i) ==
  /\ Live /\ st[g] = "pend" /\ i \in DOMAIN op[g].offers
  /\ LET o == op[g].offers[i] c == o[2] IN
     /\ ReadyAlone(o)
     /\ IF o[1] = "s"
        THEN IF closed[c]
             THEN /\ Resolve(g, PanicRes("panic_send_closed")) /\ UNCHANGED <<cap, buf, closed>>
             ELSE /\ buf' = [buf EXCEPT ![c] = Append(@, o[3])]
                  /\ Resolve(g, OfferRes(g, i, 0, TRUE)) /\ UNCHANGED closed
        ELSE IF Len(buf[c]) > 0
             THEN /\ buf' = [buf EXCEPT ![c] = Tail(@)]
                  /\ Resolve(g, OfferRes(g, i, Head(buf[c]), TRUE)) /\ UNCHANGED closed
             ELSE /\ Resolve(g, OfferRes(g, i, 0, FALSE)) /\ UNCHANGED <<cap, buf, closed>>
  /\ UNCHANGED <<cap, op, ended>>

\* rendezvous on an open channel whose buffer is empty and cannot take the value
CanPair(gs, i, gr, j) ==
  /\ gs # gr /\ st[gs] = "pend" /\ st[gr] = "pend"
  /\ i \in DOMAIN op[gs].offers /\ j \in DOMAIN op[gr].offers
  /\ LET o == op[gs].offers[i] q == op[gr].offers[j] IN
     /\ o[1] = "s" /\ q[1] = "r" /\ o[2] = q[2] /\ o[2] # 0
     /\ ~closed[o[2]] /\ Len(buf[o[2]]) = 0 /\ cap[o[2]] = 0

LinPair(gs, i, gr, j) ==
  /\ Live /\ CanPair(gs, i, gr, j)
  /\ st' = [st EXCEPT ![gs] = "res", ![gr] = "res"]
  /\ res' = [res EXCEPT ![gs] = OfferRes(gs, i, 0, TRUE), ![gr] = OfferRes(gr, j, op[gs].offers[i][3], TRUE)]
  /\ UNCHANGED <<cap, op, buf, closed, ended>>

\* some offer of g could fire now (alone or with a pending partner)
CanFire(g) ==
  \/ \E i \in DOMAIN op[g].offers : ReadyAlone(op[g].offers[i])
  \/ \E i \in DOMAIN op[g].offers, h \in G, j \in 1..2 :
        CanPair(g, i, h, j) \/ CanPair(h, j, g, i)

LinDefault(g) ==
  /\ Live /\ st[g] = "pend" /\ op[g].k = "sel" /\ op[g].dflt
  /\ IF Strict THEN ~CanFire(g)
     ELSE ~\E i \in DOMAIN op[g].offers : ReadyAlone(op[g].offers[i])
  /\ Resolve(g, [t |-> "sel", i |-> -1, v |-> 0, ok |-> FALSE])
  /\ UNCHANGED <<cap, op, buf, closed, ended>>

LinClose(g) ==
  /\ Live /\ st[g] = "pend" /\ op[g].k = "close"
  /\ LET c == op[g].c IN
     IF c = 0 THEN /\ Resolve(g, PanicRes("panic_close_nil")) /\ UNCHANGED closed
     ELSE IF closed[c] THEN /\ Resolve(g, PanicRes("panic_close_closed")) /\ UNCHANGED closed
     ELSE /\ closed' = [closed EXCEPT ![c] = TRUE] /\ Resolve(g, Ok)
  /\ UNCHANGED <<cap, op, buf, ended>>

LinLen(g) ==
  /\ Live /\ st[g] = "pend" /\ op[g].k = "len"
  /\ Resolve(g, [t |-> "len", i |-> 0, v |-> IF op[g].c = 0 THEN 0 ELSE Len(buf[op[g].c]), ok |-> TRUE])
  /\ UNCHANGED <<cap, op, buf, closed, ended>>

LinYield(g) ==
  /\ Live /\ st[g] = "pend" /\ op[g].k = "yield"
  /\ Resolve(g, Ok)
  /\ UNCHANGED <<cap, op, buf, closed, ended>>

MaxOffers == 2
Lin ==
  \/ \E g \in G : \/ \E i \in 1..MaxOffers : LinAlone(g, i)
                  \/ LinDefault(g) \/ LinClose(g) \/ LinLen(g) \/ LinYield(g)
  \/ \E gs \in G, gr \in G, i \in 1..MaxOffers, j \in 1..MaxOffers : LinPair(gs, i, gr, j)

LinEnabled ==
  \/ \E g \in G : /\ st[g] = "pend"
                  /\ \/ op[g].k \in {"close", "len", "yield"}
                     \/ CanFire(g)
                     \/ (op[g].k = "sel" /\ op[g].dflt)

\* "all goroutines are asleep": main has not returned, nobody is running or
\* about to observe a result, and no pending operation can ever proceed
AllAsleep ==
  /\ Live /\ st[1] # "done"
  /\ \A g \in G : st[g] \in {"off", "pend", "done"}
  /\ ~LinEnabled

DeadlockStep ==
  /\ AllAsleep
  /\ ended' = "deadlock"
  /\ UNCHANGED <<cap, st, op, res, buf, closed>>

(***************************************************************************)
(* Invariants of the reference semantics (sanity of the specification)     *)
(***************************************************************************)
TypeOK ==
  /\ \A c \in Chans : Len(buf[c]) <= cap[c]
  /\ \A g \in G : st[g] \in {"off", "run", "pend", "res", "done"}
  /\ ended \in {"", "exit", "deadlock"}
=============================================================================
