------------------------------ MODULE UnwindJS ------------------------------
(***************************************************************************)
(* Implementation-shaped model of defer / panic / recover / Goexit as the  *)
(* emitted JavaScript and the run time REALLY execute them (C08, C02):     *)
(*                                                                         *)
(*   compiler/prelude/goroutines.js  $callDeferred, $runDeferred, $panic,  *)
(*        $recover, $getStackDepth, $stackDepthOffset, $panicStackDepth,   *)
(*        $panicValue, $curGoroutine.{deferStack,panicStack,exit,asleep},  *)
(*        the $goroutine wrapper of $go (exit / uncaught errors)           *)
(*   compiler/prelude/prelude.js     $methodExpr ($stackDepthOffset--/++), *)
(*        $methodVal (bound function: no frame)                            *)
(*   compiler/functions.go           the try/catch/finally skeleton of a   *)
(*        function with `defer`, `$deferred`, `$curGoroutine.asleep`, the  *)
(*        saved frame {$blk, $c, $s, ...}, the forwarding proxy of value-  *)
(*        receiver methods (proxyFunction)                                 *)
(*   compiler/natives/src/runtime    Goexit (exit = true; throw null),     *)
(*        $throwRuntimeError -> runtime.throw -> $panic                    *)
(*                                                                         *)
(* State: an abstract JavaScript call stack (`stack`, one record per JS    *)
(* frame; Len(stack) is the depth that $getStackDepth measures), the       *)
(* exception in flight (`exc`: none | null | Error), the value returned by *)
(* the frame that was popped last (`retv`: value | saved frame chain {$blk}*)
(* | undefined), the goroutine's deferStack / panicStack, the `$deferred`  *)
(* lists by identity (`dl`), and the globals $panicStackDepth, $panicValue,*)
(* $stackDepthOffset, asleep, exit.  One action per statement group of the *)
(* code (see the labels in the action comments).                            *)
(*                                                                         *)
(* Programs: the function families of UnwindScen.tla (same JSON alphabet), *)
(* read from c08_impl_params.json together with the rendering dimensions   *)
(* of harness/props/c08:                                                   *)
(*   V  call kind (0 direct, 1 method expression on a value receiver,      *)
(*      2 method expression on a pointer receiver, 3 method value,         *)
(*      4 interface method, 5 function value): which wrapper frames        *)
(*      ($methodExpr closure, forwarding proxy) stand between a call and   *)
(*      the function, for calls of Fj and for `defer <recovering method>`  *)
(*   Y  suspension level (0 none, 1 every deferred closure starts with     *)
(*      runtime.Gosched(), 2 additionally before every body operation).    *)
(* The scheduler is abstracted to one action (Wake); JSRuntime.tla is the  *)
(* model of the scheduler.                                                  *)
(*                                                                         *)
(* What TLC checks here:                                                   *)
(*  (1) invariants of the machine: a returned family leaves no trace       *)
(*      (LeavesNoTrace), $stackDepthOffset is determined by the frames on  *)
(*      the stack (OffsetBalance), $panicStackDepth is null outside        *)
(*      $runDeferred (PsdScoped), the list popped from deferStack is the   *)
(*      list being run (ListOnTop), every deferred record is invoked at    *)
(*      most once (RunOnce), captured results stay reachable (OwnerAlive); *)
(*  (2) REFINEMENT: the observable outcome (printed tuples, termination,   *)
(*      panic value) of every complete behaviour that took no deviation    *)
(*      action equals Unwind!Run(P).                                        *)
(* Deviation actions are the NAMED places where the pinned tree is known   *)
(* to leave the reference semantics (known_findings.txt):                  *)
(*   proxy    $recover's depth test fails only because forwarding proxy    *)
(*            frames stand between $runDeferred and the deferred method    *)
(*            (recover_in_deferred_value_receiver_method:..)              *)
(*   suspend  a deferred call suspends while $runDeferred(fromPanic) runs  *)
(*            it: `throw null`, the catch clause clears $panicStackDepth   *)
(*            and the popped panic record is not pushed back               *)
(*            (suspension_in_deferred_call_during_panic)                   *)
(*   goexit   $callDeferred rethrows null for a frame that was entered     *)
(*            AFTER Goexit began (a function with defer called by a        *)
(*            deferred function while the goroutine exits)                 *)
(*            (goexit_unwinds_function_called_by_deferred_call)            *)
(* The constants DevProxy / DevSuspend / DevGoexit say whether a deviation  *)
(* exists (TRUE = the pinned tree).  With FALSE the deviation action is    *)
(* not part of the machine: at that step the machine does what the         *)
(* reference prescribes (FixRecoverThroughProxy, FixLateFrameReturns) or,  *)
(* for `suspend`, for which no repaired run time is modelled, has no step  *)
(* at all (the behaviour is cut there, predicate Cut, and never completes).*)
(* With TRUE the machine does what the real code does and records the name *)
(* in `dev`.  Branch = TRUE explores both at every deviation point in one  *)
(* run (variable `mode`: "" no deviation point met yet, "real", "fixed";   *)
(* a behaviour never mixes the two).  The reference is never bent: Refines *)
(* quantifies over the behaviours with dev = {} only, and with the three   *)
(* constants FALSE every complete behaviour has dev = {}.                  *)
(* Call kinds 3 and 5 of the harness (method value: a bound function adds  *)
(* no frame; function value) have the frames of the direct call: the       *)
(* harness explores them as V = 0 and replays V = 0 in all three forms.    *)
(*                                                                         *)
(* The harness (harness/props/c08/impl.go) runs this module on exhaustive  *)
(* small configurations and a seeded sample, requires the outcome with the *)
(* deviations ON to equal what the compiled programs print (otherwise      *)
(* MODEL-DRIFT / a C08 violation, decided by the reference), and validates *)
(* event sequences recorded from the real $callDeferred/$panic/$recover    *)
(* (js/unwind_trace.js) against this machine through UnwindJSTrace.tla.    *)
(***************************************************************************)
EXTENDS Integers, Sequences, FiniteSets, TLC, Json, CSV

CONSTANTS DevProxy, DevSuspend, DevGoexit,   \* TRUE = the deviation exists (the pinned tree)
          Branch,                            \* TRUE = at a deviation point explore the real step AND the step the reference prescribes
          Runs                               \* how often the goroutine calls the family (1 or 2)

Unwind == INSTANCE Unwind

Params == JsonDeserialize("c08_impl_params.json")
Progs == Params.progs          \* sequence of [id, P, vs, ys]
OutFile == Params.out

VARIABLES
  pid, V, Y, fam,              \* the program (index and family) and its rendering
  stack, exc, retv,            \* JS call stack, exception in flight, last returned value
  dl, dstack, pstack,          \* $deferred lists by identity, deferStack (list ids), panicStack
  psd, pval, off,              \* $panicStackDepth, $panicValue, $stackDepthOffset
  asleep, exitf,               \* $curGoroutine.asleep / .exit
  gsusp,                       \* the suspended goroutine: chain of saved frames (fun = () => r.$blk())
  run, ended, endval,          \* completed runs of the family; "" | exit | panic | deadlock | jserror
  obs,                         \* printed tuples
  ev,                          \* events of the last step (sequence; for UnwindJSTrace)
  dev, mode,                   \* names of the deviation actions taken; "" | "real" | "fixed": what was chosen at deviation points
  ran, dup,                    \* ids of deferred records invoked; a record invoked twice
  nid, gxAt                    \* id counter (activations, records); value of nid when Goexit was called

vars == <<pid, V, Y, fam, stack, exc, retv, dl, dstack, pstack, psd, pval, off, asleep, exitf,
          gsusp, run, ended, endval, obs, ev, dev, mode, ran, dup, nid, gxAt>>

P == fam        \* carried in the state: Params is read by Init only
NF == Len(P)

(***************************************************************************)
(* Values                                                                  *)
(***************************************************************************)
NullD == -1000000          \* $panicStackDepth === null
Undef == -1                \* localPanicValue === undefined
JsErrBase == 1000          \* panic value new $jsErrorPtr(Error(v)) is JsErrBase + v
RteBase == 10

NoExc == [t |-> "none", v |-> 0]
NullExc == [t |-> "null", v |-> 0]        \* `throw null` (recovered-panic unwinding, Goexit); also JS null as $err
ErrExc(v) == [t |-> "err", v |-> v]       \* the Error thrown for a panic that reached the top

RUndef == [t |-> "undef", v |-> 0, ch |-> <<>>]
RVal(v) == [t |-> "val", v |-> v, ch |-> <<>>]
RBlk(ch) == [t |-> "blk", v |-> 0, ch |-> ch]     \* an object with $blk: the chain of saved frames, outermost first

\* what pv() of the scenario programs prints for a recovered value
PrintVal(v) == IF v >= JsErrBase THEN 98 ELSE v

HasDefer(f) == \E i \in DOMAIN P[f] : P[f][i][1] = "defer"

\* wrapper frames between a call site and a method, by call kind
Wrappers(v) == CASE v = 1 -> <<"mexpr", "proxy">>     \* $methodExpr(T,"m") on a value receiver: closure, then T.prototype.m = forwarding proxy
                 [] v = 2 -> <<"mexpr">>              \* $methodExpr(ptrType,"m"): closure, primary function
                 [] v = 4 -> <<"proxy">>              \* interface holding a struct value: forwarding proxy
                 [] OTHER -> <<>>                     \* direct, method value (bound primary), function value

\* deferred record on a $deferred list
D0 == [k |-> "", a |-> 0, b |-> 0, c |-> 0, own |-> 0, id |-> 0, v |-> 0, ch |-> <<>>]
\* which deferred functions are rendered as `defer func(...) {` (they start with yield() when Y >= 1)
IsClosure(d) == d.k \in {"emit", "recnest", "setres", "recset", "repanic", "panic"} \/ (d.k = "rec" /\ d.v = 0)

\* JS frame
F0 == [k |-> "", pc |-> "enter", f |-> 0, i |-> 0, r |-> 0, did |-> 0, aid |-> 0,
       err |-> NullExc, c |-> FALSE, sub |-> <<>>, fin |-> FALSE, rp |-> "",
       wr |-> <<>>, tk |-> "", d |-> D0,
       dfr |-> 0, jse |-> NullExc, fp |-> FALSE, lpv |-> Undef, opsd |-> NullD, opv |-> 0,
       e |-> NoExc, pend |-> NoExc, v |-> 0]

Top == stack[Len(stack)]
Depth == Len(stack)
Front(s) == SubSeq(s, 1, Len(s) - 1)
Last(s) == s[Len(s)]
SetTop(fr) == [stack EXCEPT ![Len(stack)] = fr]
PushOn(st, fr) == Append(st, fr)
Running == ended = "" /\ stack # <<>>
At(k, pc) == Running /\ Top.k = k /\ Top.pc = pc
Quiet == exc = NoExc

\* $getStackDepth() called by the frame at depth d: the stack holds d + 1 frames then, err.stack has one
\* more line ("Error")
GSD(d) == off + d + 2

\* target of a call: a Go function of the family or a deferred function
TargetFrame(tk, f, d, aid) ==
  IF tk = "fn" THEN [F0 EXCEPT !.k = "fn", !.f = f, !.aid = aid]
               ELSE [F0 EXCEPT !.k = "dfn", !.d = d, !.aid = aid]
\* the frame a call through the wrapper list wr pushes first
CallFrame(wr, tk, f, d, aid) ==
  IF wr = <<>> THEN TargetFrame(tk, f, d, aid)
  ELSE [F0 EXCEPT !.k = Head(wr), !.wr = Tail(wr), !.tk = tk, !.f = f, !.d = d, !.aid = aid]

\* resuming a chain of saved frames: X.$blk() re-enters the outermost saved frame, which holds the rest
ResumeFrame(ch) == [Head(ch) EXCEPT !.c = TRUE, !.sub = Tail(ch)]

Event(name, x) == [e |-> name, ps |-> Len(pstack), ds |-> Len(dstack), pn |-> (psd = NullD), off |-> off, x |-> x, t |-> <<>>]
EventP(name, x, p) == [Event(name, x) EXCEPT !.pn = (p = NullD)]
PrintEv(t) == [e |-> "print", ps |-> 0, ds |-> 0, pn |-> TRUE, off |-> 0, x |-> 0, t |-> t]
B2N(b) == IF b THEN 1 ELSE 0

\* variable groups for UNCHANGED
CV == <<pid, V, Y, fam>>
RT == <<dl, dstack, pstack, psd, pval, off>>
FL == <<asleep, exitf>>
EN == <<gsusp, run, ended, endval>>
HI == <<dev, mode, ran, dup, nid, gxAt>>

Init ==
  /\ pid \in 1..Len(Progs)
  /\ fam = Progs[pid].P
  /\ V \in {Progs[pid].vs[i] : i \in DOMAIN Progs[pid].vs}
  /\ Y \in {Progs[pid].ys[i] : i \in DOMAIN Progs[pid].ys}
  \* $go(fun): the goroutine is scheduled and started
  /\ stack = << [F0 EXCEPT !.k = "goroutine"] >>
  /\ exc = NoExc /\ retv = RUndef
  /\ dl = <<>> /\ dstack = <<>> /\ pstack = <<>>
  /\ psd = NullD /\ pval = 0 /\ off = 0
  /\ asleep = FALSE /\ exitf = FALSE
  /\ gsusp = <<>> /\ run = 0 /\ ended = "" /\ endval = 0
  /\ obs = <<>> /\ ev = <<>> /\ dev = {} /\ mode = "" /\ ran = {} /\ dup = FALSE /\ nid = 1 /\ gxAt = 0

(***************************************************************************)
(* Generic control flow                                                    *)
(***************************************************************************)
\* pop the top frame returning rv
PopRet(rv) == /\ stack' = Front(stack) /\ retv' = rv
\* a frame without try/catch is left by an exception: the kinds listed here
PlainKinds == {"proxy", "dfn", "inner", "rtthrow", "resume", "top", "run", "panic", "recover"}

\* an exception passes through a frame that has no handler
Propagate ==
  /\ Running /\ ~Quiet
  /\ \/ Top.k \in PlainKinds \ {"panic"}
     \/ Top.k = "fn" /\ ~HasDefer(Top.f)
     \/ Top.k = "fn" /\ HasDefer(Top.f) /\ Top.pc = "aftercd"      \* thrown by $callDeferred inside `finally`
     \/ Top.k = "rd" /\ Top.pc = "jsret"                            \* $runDeferred(deferred, newErr) at l.30 is outside the try
  /\ stack' = Front(stack) /\ ev' = <<>>
  /\ UNCHANGED <<CV, exc, retv, RT, FL, EN, obs, HI>>

\* saving a suspended frame: var $f = {$blk: F, $c: true, $r, ...locals}; return $f
Saved(fr, pc) == [fr EXCEPT !.pc = pc, !.c = TRUE, !.sub = <<>>]
SaveAndReturn(fr, pc) == PopRet(RBlk(<<Saved(fr, pc)>> \o fr.sub))

\* `if ($c) { $c = false; _r = _r.$blk(); }` in a resumed frame whose callee had suspended
ResumeCallee ==
  /\ Running /\ Quiet /\ Top.c /\ Top.k \in {"fn", "top", "run"} /\ Top.pc = "callret" /\ Top.sub # <<>>
  /\ stack' = Append(SetTop([Top EXCEPT !.c = FALSE, !.sub = <<>>]), ResumeFrame(Top.sub))
  /\ ev' = <<>>
  /\ UNCHANGED <<CV, exc, retv, RT, FL, EN, obs, HI>>

\* the resumed runtime.Gosched() returns (leaf of a saved chain)
ResumeYield ==
  /\ Running /\ Quiet /\ Top.c /\ Top.k \in {"fn", "dfn"} /\ Top.pc = "yret"
  /\ stack' = SetTop([Top EXCEPT !.c = FALSE, !.pc = IF Top.k = "fn" THEN "op" ELSE "body"])
  /\ ev' = <<>>
  /\ UNCHANGED <<CV, exc, retv, RT, FL, EN, obs, HI>>

(***************************************************************************)
(* $go wrapper ($goroutine), the scheduler, the goroutine's function       *)
(***************************************************************************)
\* $curGoroutine = $goroutine; var r = fun(...args)     (fresh: the goroutine closure; resumed: () => r.$blk())
GoStart ==
  /\ At("goroutine", "enter") /\ Quiet
  /\ stack' = Append(SetTop([Top EXCEPT !.pc = "ret"]),
                     IF gsusp = <<>> THEN [F0 EXCEPT !.k = "top"] ELSE [F0 EXCEPT !.k = "resume"])
  /\ ev' = <<>>
  /\ UNCHANGED <<CV, exc, retv, RT, FL, EN, obs, HI>>

\* fun = () => { return r.$blk(); }
ResumeArrow ==
  /\ At("resume", "enter") /\ Quiet
  /\ stack' = Append(SetTop([Top EXCEPT !.pc = "ret"]), ResumeFrame(gsusp))
  /\ gsusp' = <<>> /\ ev' = <<>>
  /\ UNCHANGED <<CV, exc, retv, RT, FL, run, ended, endval, obs, HI>>
ResumeArrowRet ==
  /\ At("resume", "ret") /\ Quiet
  /\ stack' = Front(stack) /\ ev' = <<>>
  /\ UNCHANGED <<CV, exc, retv, RT, FL, EN, obs, HI>>

\* if (r && r.$blk !== undefined) { fun = ...; return; }   finally: asleep => $awakeGoroutines-- (the Gosched timer
\* keeps the count above zero: no deadlock report)
GoSuspended ==
  /\ At("goroutine", "ret") /\ Quiet /\ retv.t = "blk"
  /\ stack' = <<>> /\ gsusp' = retv.ch /\ retv' = RUndef /\ ev' = <<>>
  /\ UNCHANGED <<CV, exc, RT, FL, run, ended, endval, obs, HI>>
\* the timer of Gosched closes its channel: $schedule(goroutine): asleep = false; $runScheduled -> $goroutine()
Wake ==
  /\ ended = "" /\ stack = <<>> /\ gsusp # <<>>
  /\ asleep' = FALSE
  /\ stack' = << [F0 EXCEPT !.k = "goroutine"] >> /\ ev' = <<>>
  /\ UNCHANGED <<CV, exc, retv, RT, exitf, EN, obs, HI>>
\* $goroutine.exit = true (the function returned: it sent on `done`, main finishes)
GoReturned ==
  /\ At("goroutine", "ret") /\ Quiet /\ retv.t # "blk"
  /\ stack' = <<>> /\ exitf' = TRUE /\ asleep' = TRUE /\ ended' = "exit" /\ ev' = <<>>
  /\ UNCHANGED <<CV, exc, retv, RT, gsusp, run, endval, obs, HI>>
\* catch (err) { if (!$goroutine.exit || err !== null) { exit = false; throw err; } }  finally { ... deadlock check }
GoCaught ==
  /\ Running /\ Top.k = "goroutine" /\ ~Quiet
  /\ stack' = <<>> /\ exc' = NoExc /\ ev' = <<>>
  /\ IF exitf /\ exc = NullExc
     THEN /\ ended' = "deadlock" /\ endval' = 0 /\ asleep' = TRUE /\ UNCHANGED exitf     \* Goexit: main waits for ever
     ELSE /\ ended' = (IF exc = NullExc THEN "jserror" ELSE "panic") /\ endval' = exc.v
          /\ exitf' = FALSE /\ UNCHANGED asleep
  /\ UNCHANGED <<CV, retv, RT, gsusp, run, obs, HI>>

\* the goroutine closure of the scenario program: x := run(n); println("ret", x); [again;] done <- true
TopCall ==
  /\ At("top", "enter") /\ Quiet
  /\ stack' = Append(SetTop([Top EXCEPT !.pc = "callret"]), [F0 EXCEPT !.k = "run"])
  /\ ev' = <<>>
  /\ UNCHANGED <<CV, exc, retv, RT, FL, EN, obs, HI>>
TopRet ==
  /\ At("top", "callret") /\ Quiet /\ ~Top.c
  /\ IF retv.t = "blk"
     THEN /\ SaveAndReturn([Top EXCEPT !.sub = retv.ch], "callret") /\ ev' = <<>> /\ UNCHANGED <<obs, run>>
     ELSE /\ obs' = Append(obs, <<"ret", retv.v>>) /\ ev' = <<PrintEv(<<"ret", retv.v>>)>>
          /\ run' = run + 1 /\ retv' = RUndef
          /\ stack' = (IF run + 1 < Runs THEN SetTop([Top EXCEPT !.pc = "enter"]) ELSE Front(stack))
  /\ UNCHANGED <<CV, exc, RT, FL, gsusp, ended, endval, HI>>
\* func run(n): return callExpr(V, n, 1)
RunCall ==
  /\ At("run", "enter") /\ Quiet
  /\ stack' = Append(SetTop([Top EXCEPT !.pc = "callret"]), CallFrame(Wrappers(V), "fn", 1, D0, nid))
  /\ nid' = nid + 1 /\ ev' = <<>>
  /\ UNCHANGED <<CV, exc, retv, RT, FL, EN, obs, dev, mode, ran, dup, gxAt>>
RunRet ==
  /\ At("run", "callret") /\ Quiet /\ ~Top.c
  /\ (IF retv.t = "blk" THEN SaveAndReturn([Top EXCEPT !.sub = retv.ch], "callret")
                        ELSE stack' = Front(stack) /\ UNCHANGED retv)
  /\ ev' = <<>>
  /\ UNCHANGED <<CV, exc, RT, FL, EN, obs, HI>>

(***************************************************************************)
(* Wrapper frames                                                          *)
(***************************************************************************)
\* method.$expr = (...args) => { $stackDepthOffset--; try { return Function.call.apply(method, args); } ...
MexprCall ==
  /\ At("mexpr", "enter") /\ Quiet
  /\ off' = off - 1
  /\ stack' = Append(SetTop([Top EXCEPT !.pc = "ret"]), CallFrame(Top.wr, Top.tk, Top.f, Top.d, Top.aid))
  /\ ev' = <<>>
  /\ UNCHANGED <<CV, exc, retv, dl, dstack, pstack, psd, pval, FL, EN, obs, HI>>
\* ... } finally { $stackDepthOffset++; }      (value, saved frame chain or exception pass through)
MexprFinally ==
  /\ At("mexpr", "ret")
  /\ off' = off + 1
  /\ stack' = Front(stack) /\ ev' = <<>>
  /\ UNCHANGED <<CV, exc, retv, dl, dstack, pstack, psd, pval, FL, EN, obs, HI>>
\* T.prototype.m = function(...$args) { return $clone(this.$val, T).m(...$args); }
ProxyCall ==
  /\ At("proxy", "enter") /\ Quiet
  /\ stack' = Append(SetTop([Top EXCEPT !.pc = "ret"]), CallFrame(Top.wr, Top.tk, Top.f, Top.d, Top.aid))
  /\ ev' = <<>>
  /\ UNCHANGED <<CV, exc, retv, RT, FL, EN, obs, HI>>
ProxyRet ==
  /\ At("proxy", "ret") /\ Quiet
  /\ stack' = Front(stack) /\ ev' = <<>>
  /\ UNCHANGED <<CV, exc, retv, RT, FL, EN, obs, HI>>

(***************************************************************************)
(* A Go function of the family (compiler/functions.go translateFunctionBody)*)
(***************************************************************************)
Op(fr) == P[fr.f][fr.i]
AtEnd(fr) == fr.i > Len(P[fr.f])
\* after operation i: at Y = 2 the next operation is preceded by yield() (the closing `return` is not)
NextOp(fr) == [fr EXCEPT !.i = @ + 1, !.pc = IF Y = 2 /\ fr.i + 1 <= Len(P[fr.f]) THEN "y" ELSE "op"]

\* prologue: r = 0; with defer: $deferred = []; $curGoroutine.deferStack.push($deferred)
FnEnter ==
  /\ At("fn", "enter") /\ Quiet
  /\ LET f == Top.f
         first == IF Y = 2 /\ Len(P[f]) >= 1 THEN "y" ELSE "op" IN
     IF HasDefer(f)
     THEN /\ dl' = Append(dl, <<>>) /\ dstack' = Append(dstack, Len(dl) + 1)
          /\ stack' = SetTop([Top EXCEPT !.pc = first, !.i = 1, !.did = Len(dl) + 1])
     ELSE /\ stack' = SetTop([Top EXCEPT !.pc = first, !.i = 1]) /\ UNCHANGED <<dl, dstack>>
  /\ ev' = <<>>
  /\ UNCHANGED <<CV, exc, retv, pstack, psd, pval, off, FL, EN, obs, HI>>

\* yield(): runtime.Gosched() -> $recv -> $block(): asleep = true; every frame up to the goroutine returns a saved frame
FnYield ==
  /\ At("fn", "y") /\ Quiet
  /\ asleep' = TRUE
  /\ stack' = SetTop([Top EXCEPT !.pc = "blk", !.rp = "yret", !.sub = <<>>])
  /\ ev' = <<>>
  /\ UNCHANGED <<CV, exc, retv, RT, exitf, EN, obs, HI>>
\* `if ($r && $r.$blk !== undefined) { break s; }`: without defer the suffix saves the frame; with defer the
\* try block is left normally and `finally` runs first
FnBlk ==
  /\ At("fn", "blk") /\ Quiet
  /\ (IF HasDefer(Top.f) THEN stack' = SetTop([Top EXCEPT !.pc = "finally"]) /\ UNCHANGED retv
                         ELSE SaveAndReturn(Top, Top.rp))
  /\ ev' = <<>>
  /\ UNCHANGED <<CV, exc, RT, FL, EN, obs, HI>>

FnOpSimple ==
  /\ At("fn", "op") /\ Quiet /\ ~AtEnd(Top) /\ Op(Top)[1] \in {"emit", "set"}
  /\ LET op == Op(Top) IN
     IF op[1] = "emit"
     THEN /\ obs' = Append(obs, <<"e", op[2]>>) /\ ev' = <<PrintEv(<<"e", op[2]>>)>> /\ stack' = SetTop(NextOp(Top))
     ELSE /\ stack' = SetTop(NextOp([Top EXCEPT !.r = op[2]])) /\ ev' = <<>> /\ UNCHANGED obs
  /\ UNCHANGED <<CV, exc, retv, RT, FL, EN, HI>>

\* return v / the closing return: r = v; $s = -1; return r  (with defer: into `finally`)
FnReturn ==
  /\ At("fn", "op") /\ Quiet /\ (IF AtEnd(Top) THEN TRUE ELSE Op(Top)[1] = "ret")
  /\ LET rv == IF AtEnd(Top) THEN Top.r ELSE Op(Top)[2] IN
     IF HasDefer(Top.f)
     THEN stack' = SetTop([Top EXCEPT !.r = rv, !.fin = TRUE, !.pc = "finally"]) /\ UNCHANGED retv
     ELSE PopRet(RVal(rv))
  /\ ev' = <<>>
  /\ UNCHANGED <<CV, exc, RT, FL, EN, obs, HI>>

\* panic(v)  ->  $panic(v);   a run-time error -> $throwRuntimeError -> runtime.throw -> $panic
FnPanic ==
  /\ At("fn", "op") /\ Quiet /\ ~AtEnd(Top) /\ Op(Top)[1] \in {"panic", "rte"}
  /\ LET op == Op(Top) IN
     IF op[1] = "panic"
     THEN /\ stack' = Append(SetTop([Top EXCEPT !.pc = "dead"]), [F0 EXCEPT !.k = "panic", !.v = op[2]])
          /\ ev' = <<Event("panic.in", 0)>>
     ELSE /\ stack' = Append(SetTop([Top EXCEPT !.pc = "dead"]), [F0 EXCEPT !.k = "rtthrow", !.v = RteBase + op[2]])
          /\ ev' = <<>>
  /\ UNCHANGED <<CV, exc, retv, RT, FL, EN, obs, HI>>
RtThrow ==
  /\ At("rtthrow", "enter") /\ Quiet
  /\ stack' = Append(SetTop([Top EXCEPT !.pc = "dead"]), [F0 EXCEPT !.k = "panic", !.v = Top.v])
  /\ ev' = <<Event("panic.in", 0)>>
  /\ UNCHANGED <<CV, exc, retv, RT, FL, EN, obs, HI>>

\* x := Fj(); println("c", j, x)
FnCall ==
  /\ At("fn", "op") /\ Quiet /\ ~AtEnd(Top) /\ Op(Top)[1] = "call"
  /\ stack' = Append(SetTop([Top EXCEPT !.pc = "callret"]), CallFrame(Wrappers(V), "fn", Op(Top)[2], D0, nid))
  /\ nid' = nid + 1 /\ ev' = <<>>
  /\ UNCHANGED <<CV, exc, retv, RT, FL, EN, obs, dev, mode, ran, dup, gxAt>>
FnCallRet ==
  /\ At("fn", "callret") /\ Quiet /\ ~Top.c
  /\ IF retv.t = "blk"
     THEN /\ stack' = SetTop([Top EXCEPT !.pc = "blk", !.rp = "callret", !.sub = retv.ch])
          /\ retv' = RUndef /\ ev' = <<>> /\ UNCHANGED obs
     ELSE /\ obs' = Append(obs, <<"c", Op(Top)[2], retv.v>>) /\ ev' = <<PrintEv(<<"c", Op(Top)[2], retv.v>>)>>
          /\ stack' = SetTop(NextOp(Top)) /\ retv' = RUndef
  /\ UNCHANGED <<CV, exc, RT, FL, EN, HI>>

\* v := recover(); println("rec", k, pv(v))      (in a function body)
CallRecover(k) ==
  /\ Running /\ Quiet /\ Top.k = k
  /\ stack' = Append(SetTop([Top EXCEPT !.pc = "recret"]), [F0 EXCEPT !.k = "recover"])
  /\ ev' = <<Event("recover.in", 0)>>
  /\ UNCHANGED <<CV, exc, retv, RT, FL, EN, obs, HI>>
FnRecover == At("fn", "op") /\ ~AtEnd(Top) /\ Op(Top)[1] = "recover" /\ CallRecover("fn")
FnRecoverRet ==
  /\ At("fn", "recret") /\ Quiet
  /\ LET t == <<"rec", Op(Top)[2], PrintVal(retv.v)>> IN obs' = Append(obs, t) /\ ev' = <<PrintEv(t)>>
  /\ stack' = SetTop(NextOp(Top)) /\ retv' = RUndef
  /\ UNCHANGED <<CV, exc, RT, FL, EN, HI>>

\* runtime.Goexit(): $curGoroutine.exit = true; $throw(null)
FnGoexit ==
  /\ At("fn", "op") /\ Quiet /\ ~AtEnd(Top) /\ Op(Top)[1] = "goexit"
  /\ exitf' = TRUE /\ exc' = NullExc /\ gxAt' = nid
  /\ stack' = SetTop([Top EXCEPT !.pc = "dead"]) /\ ev' = <<>>
  /\ UNCHANGED <<CV, retv, RT, asleep, EN, obs, dev, mode, ran, dup, nid>>

\* defer ...: $deferred.push([fn, args])   (function value and arguments evaluated now)
FnDefer ==
  /\ At("fn", "op") /\ Quiet /\ ~AtEnd(Top) /\ Op(Top)[1] = "defer"
  /\ LET d == Op(Top)[2]
         rcd == [D0 EXCEPT !.k = d[1], !.a = IF Len(d) >= 2 THEN d[2] ELSE 0, !.b = IF Len(d) >= 3 THEN d[3] ELSE 0,
                           !.c = Top.r, !.own = Top.aid, !.id = nid,
                           !.v = IF d[1] \in {"rec", "call"} THEN V ELSE 0]
     IN dl' = [dl EXCEPT ![Top.did] = Append(@, rcd)]
  /\ nid' = nid + 1
  /\ stack' = SetTop(NextOp(Top)) /\ ev' = <<>>
  /\ UNCHANGED <<CV, exc, retv, dstack, pstack, psd, pval, off, FL, EN, obs, dev, mode, ran, dup, gxAt>>

\* } catch(err) { $err = err; $s = -1; }
FnCatch ==
  /\ Running /\ ~Quiet /\ Top.k = "fn" /\ HasDefer(Top.f) /\ Top.pc # "aftercd"
  /\ stack' = SetTop([Top EXCEPT !.err = exc, !.fin = TRUE, !.pc = "finally"])
  /\ exc' = NoExc /\ ev' = <<>>
  /\ UNCHANGED <<CV, retv, RT, FL, EN, obs, HI>>
\* } finally { $callDeferred($deferred, $err);
FnFinally ==
  /\ At("fn", "finally") /\ Quiet
  /\ stack' = Append(SetTop([Top EXCEPT !.pc = "aftercd"]),
                     [F0 EXCEPT !.k = "cd", !.dfr = Top.did, !.jse = Top.err, !.fp = FALSE])
  /\ ev' = <<Event("cd.in", 0)>>
  /\ UNCHANGED <<CV, exc, retv, RT, FL, EN, obs, HI>>
\*   if (!$curGoroutine.asleep) { return r; }  if ($curGoroutine.asleep) { var $f = {...}; return $f; } }
FnAfterDeferred ==
  /\ At("fn", "aftercd") /\ Quiet
  /\ (IF ~asleep THEN PopRet(RVal(Top.r))
                 ELSE SaveAndReturn(Top, IF Top.fin THEN "resumefin" ELSE Top.rp))
  /\ ev' = <<>>
  /\ UNCHANGED <<CV, exc, RT, FL, EN, obs, HI>>
\* F.$blk(): $s is -1 (or the case of a resumable `return`): var $err = null; try { ... return; } finally ...
FnResumeFin ==
  /\ At("fn", "resumefin") /\ Quiet /\ Top.c
  /\ stack' = SetTop([Top EXCEPT !.c = FALSE, !.err = NullExc, !.pc = "finally"])
  /\ ev' = <<>>
  /\ UNCHANGED <<CV, exc, retv, RT, FL, EN, obs, HI>>

(***************************************************************************)
(* Deferred functions                                                      *)
(***************************************************************************)
\* index of the activation that owns the captured result r
OwnerIdx(aid) == CHOOSE j \in DOMAIN stack : stack[j].k = "fn" /\ stack[j].aid = aid
SetOwnerR(st, aid, v) == [st EXCEPT ![OwnerIdx(aid)].r = v]

DfnEnter ==
  /\ At("dfn", "enter") /\ Quiet
  /\ IF Y >= 1 /\ IsClosure(Top.d)
     THEN \* yield() as the first statement: the closure has no defer, its suffix returns the saved frame
          /\ asleep' = TRUE /\ SaveAndReturn(Top, "yret")
     ELSE /\ stack' = SetTop([Top EXCEPT !.pc = "body"]) /\ UNCHANGED <<asleep, retv>>
  /\ ev' = <<>>
  /\ UNCHANGED <<CV, exc, RT, exitf, EN, obs, HI>>

DfnEmit ==
  /\ At("dfn", "body") /\ Quiet /\ Top.d.k = "emit"
  /\ LET t == <<"d", Top.d.a, Top.d.c>> IN obs' = Append(obs, t) /\ ev' = <<PrintEv(t)>>
  /\ PopRet(RUndef)
  /\ UNCHANGED <<CV, exc, RT, FL, EN, HI>>
\* function() { }  (defer recover())
DfnNop ==
  /\ At("dfn", "body") /\ Quiet /\ Top.d.k = "recbuiltin"
  /\ PopRet(RUndef) /\ ev' = <<>>
  /\ UNCHANGED <<CV, exc, RT, FL, EN, obs, HI>>
DfnSetres ==
  /\ At("dfn", "body") /\ Quiet /\ Top.d.k = "setres"
  /\ stack' = Front(SetOwnerR(stack, Top.d.own, Top.d.a)) /\ retv' = RUndef /\ ev' = <<>>
  /\ UNCHANGED <<CV, exc, RT, FL, EN, obs, HI>>
DfnPanic ==
  /\ At("dfn", "body") /\ Quiet /\ Top.d.k = "panic"
  /\ stack' = Append(SetTop([Top EXCEPT !.pc = "dead"]), [F0 EXCEPT !.k = "panic", !.v = Top.d.a])
  /\ ev' = <<Event("panic.in", 0)>>
  /\ UNCHANGED <<CV, exc, retv, RT, FL, EN, obs, HI>>
DfnRecover == At("dfn", "body") /\ Top.d.k \in {"rec", "recset", "repanic"} /\ CallRecover("dfn")
DfnRecoverRet ==
  /\ At("dfn", "recret") /\ Quiet
  /\ LET d == Top.d
         x == retv.v
         t == <<"rec", d.a, PrintVal(x)>> IN
     CASE d.k = "rec" ->
            /\ obs' = Append(obs, t) /\ ev' = <<PrintEv(t)>> /\ PopRet(RUndef)
       [] d.k = "recset" ->
            IF x # 0 THEN /\ obs' = Append(obs, t) /\ ev' = <<PrintEv(t)>>
                          /\ stack' = Front(SetOwnerR(stack, d.own, d.b)) /\ retv' = RUndef
                     ELSE /\ PopRet(RUndef) /\ ev' = <<>> /\ UNCHANGED obs
       [] d.k = "repanic" ->
            /\ obs' = Append(obs, t)
            /\ IF x # 0 THEN /\ stack' = Append(SetTop([Top EXCEPT !.pc = "dead"]), [F0 EXCEPT !.k = "panic", !.v = x])
                             /\ ev' = <<PrintEv(t), Event("panic.in", 0)>> /\ retv' = RUndef
                        ELSE /\ PopRet(RUndef) /\ ev' = <<PrintEv(t)>>
  /\ UNCHANGED <<CV, exc, RT, FL, EN, HI>>
\* func() { func() { v := recover(); println(...) }() }()
DfnNest ==
  /\ At("dfn", "body") /\ Quiet /\ Top.d.k = "recnest"
  /\ stack' = Append(SetTop([Top EXCEPT !.pc = "innerret"]), [F0 EXCEPT !.k = "inner", !.d = Top.d])
  /\ ev' = <<>>
  /\ UNCHANGED <<CV, exc, retv, RT, FL, EN, obs, HI>>
DfnNestRet ==
  /\ At("dfn", "innerret") /\ Quiet
  /\ PopRet(RUndef) /\ ev' = <<>>
  /\ UNCHANGED <<CV, exc, RT, FL, EN, obs, HI>>
InnerRecover == At("inner", "enter") /\ CallRecover("inner")
InnerRecoverRet ==
  /\ At("inner", "recret") /\ Quiet
  /\ LET t == <<"rec", Top.d.a, PrintVal(retv.v)>> IN obs' = Append(obs, t) /\ ev' = <<PrintEv(t)>>
  /\ PopRet(RUndef)
  /\ UNCHANGED <<CV, exc, RT, FL, EN, HI>>

(***************************************************************************)
(* $recover                                                                *)
(***************************************************************************)
\* the caller of $recover is the frame below the $recover frame
RdBelow == {j \in 1..(Depth - 2) : stack[j].k = "rd"}
TopRd == CHOOSE j \in RdBelow : \A j2 \in RdBelow : j2 <= j
Between == (TopRd + 1)..(Depth - 2)
\* what the language asks: the caller was invoked (through forwarding wrappers only) by the $runDeferred
\* activation that processes a panic which is not yet recovered
StructLegit ==
  /\ RdBelow # {} /\ stack[TopRd].pc = "ret" /\ stack[TopRd].lpv # Undef /\ psd # NullD
  /\ \A j \in Between : stack[j].k \in {"mexpr", "proxy"}
NProxy == Cardinality({j \in Between : stack[j].k = "proxy"})
\* if ($panicStackDepth === null || $panicStackDepth !== $getStackDepth() - 2) return $ifaceNil;
RealPass == psd # NullD /\ psd = GSD(Depth) - 2
ProxyMiss == ~RealPass /\ StructLegit /\ NProxy > 0 /\ psd = GSD(Depth) - 2 - NProxy

\* at a deviation point: may the real / the prescribed step be taken?
MayReal(d) == d /\ mode # "fixed"
MayFixed(d) == (~d \/ Branch) /\ mode # "real"

RecoverReturn(hit) ==
  /\ (IF hit THEN /\ psd' = NullD /\ retv' = RVal(pval)                 \* $panicStackDepth = null; return $panicValue
                  /\ ev' = <<EventP("recover.out", 1, NullD)>>
             ELSE /\ retv' = RVal(0) /\ UNCHANGED psd                     \* return $ifaceNil
                  /\ ev' = <<Event("recover.out", 0)>>)
  /\ stack' = Front(stack)
  /\ UNCHANGED <<CV, exc, dl, dstack, pstack, pval, off, FL, EN, obs, ran, dup, nid, gxAt>>
RecoverTest ==
  /\ At("recover", "enter") /\ Quiet /\ ~ProxyMiss
  /\ RecoverReturn(RealPass) /\ UNCHANGED <<dev, mode>>
\* DEVIATION proxy: the depth test counts the forwarding proxy frames: recover() returns nil in a deferred method
DevRecoverBlindToProxy ==
  /\ At("recover", "enter") /\ Quiet /\ ProxyMiss /\ MayReal(DevProxy)
  /\ RecoverReturn(FALSE) /\ dev' = dev \cup {"proxy"} /\ mode' = "real"
\* what the reference prescribes at this step (a run time that discounts forwarding frames)
FixRecoverThroughProxy ==
  /\ At("recover", "enter") /\ Quiet /\ ProxyMiss /\ MayFixed(DevProxy)
  /\ RecoverReturn(TRUE) /\ mode' = "fixed" /\ UNCHANGED dev

(***************************************************************************)
(* $panic, $callDeferred, $runDeferred                                     *)
(***************************************************************************)
\* $curGoroutine.panicStack.push(value); $callDeferred(null, null, true);
PanicPush ==
  /\ At("panic", "enter") /\ Quiet
  /\ pstack' = Append(pstack, Top.v)
  /\ stack' = Append(SetTop([Top EXCEPT !.pc = "aftercd"]), [F0 EXCEPT !.k = "cd", !.dfr = 0, !.jse = NullExc, !.fp = TRUE])
  /\ ev' = <<[Event("cd.in", 1) EXCEPT !.ps = Len(pstack) + 1]>>
  /\ UNCHANGED <<CV, exc, retv, dl, dstack, psd, pval, off, FL, EN, obs, HI>>
\* $panic is left by an exception (it cannot return: with fromPanic $runDeferred only throws)
PanicOut ==
  /\ Running /\ Top.k = "panic" /\ (~Quiet \/ Top.pc = "aftercd")
  /\ stack' = Front(stack) /\ ev' = <<Event("panic.out", B2N(~Quiet))>>
  /\ UNCHANGED <<CV, exc, retv, RT, FL, EN, obs, HI>>

\* $runDeferred(deferred, jsErr, fromPanic);
CdCall ==
  /\ At("cd", "enter") /\ Quiet
  /\ stack' = Append(SetTop([Top EXCEPT !.pc = "after"]),
                     [F0 EXCEPT !.k = "rd", !.dfr = Top.dfr, !.jse = Top.jse, !.fp = Top.fp])
  /\ ev' = <<>>
  /\ UNCHANGED <<CV, exc, retv, RT, FL, EN, obs, HI>>
\* if (!fromPanic && $curGoroutine.exit && !$curGoroutine.asleep) throw null;
\* deviation `goexit`: the frame whose deferred calls just ran was entered after Goexit began
Rethrow == ~Top.fp /\ exitf /\ ~asleep
Late == Rethrow /\ stack[Depth - 1].k = "fn" /\ stack[Depth - 1].aid >= gxAt
CdLeave(doThrow) ==
  /\ exc' = (IF doThrow THEN NullExc ELSE NoExc)
  /\ ev' = <<Event("cd.out", B2N(doThrow))>>
  /\ stack' = Front(stack) /\ retv' = RUndef
  /\ UNCHANGED <<CV, RT, FL, EN, obs, ran, dup, nid, gxAt>>
CdAfter ==
  /\ At("cd", "after") /\ Quiet /\ ~Late
  /\ CdLeave(Rethrow) /\ UNCHANGED <<dev, mode>>
\* DEVIATION goexit: a function with defer that was called by a deferred function while the goroutine exits does
\* not return to its caller
DevGoexitUnwindsLateFrame ==
  /\ At("cd", "after") /\ Quiet /\ Late /\ MayReal(DevGoexit)
  /\ CdLeave(TRUE) /\ dev' = dev \cup {"goexit"} /\ mode' = "real"
\* Since /repo commit 177c15f (exitDepth) this IS what the code does: with DevGoexit = FALSE the step belongs to
\* the real behaviour (mode unchanged); with DevGoexit = TRUE (the tree before the repair) it is the prescribed step.
FixLateFrameReturns ==
  /\ At("cd", "after") /\ Quiet /\ Late /\ (IF DevGoexit THEN MayFixed(DevGoexit) ELSE TRUE)
  /\ CdLeave(FALSE) /\ mode' = (IF DevGoexit THEN "fixed" ELSE mode) /\ UNCHANGED dev
CdThrown ==
  /\ Running /\ Top.k = "cd" /\ ~Quiet
  /\ stack' = Front(stack) /\ ev' = <<Event("cd.out", 1)>>
  /\ UNCHANGED <<CV, exc, retv, RT, FL, EN, obs, HI>>

OnStack(id) == \E j \in DOMAIN dstack : dstack[j] = id
\* l.20  if (!fromPanic && deferred !== null && deferStack.indexOf(deferred) == -1) throw jsErr;
RdRethrow ==
  /\ At("rd", "enter") /\ Quiet /\ ~Top.fp /\ Top.dfr # 0 /\ ~OnStack(Top.dfr)
  /\ exc' = Top.jse /\ stack' = Front(stack) /\ ev' = <<>>
  /\ UNCHANGED <<CV, retv, RT, FL, EN, obs, HI>>
RdStays == Top.fp \/ Top.dfr = 0 \/ OnStack(Top.dfr)
\* l.23  if (jsErr !== null) { try { $panic(new $jsErrorPtr(jsErr)); } catch (err) { newErr = err; } ...
RdJsErr ==
  /\ At("rd", "enter") /\ Quiet /\ RdStays /\ Top.jse # NullExc
  /\ stack' = Append(SetTop([Top EXCEPT !.pc = "jspanic"]), [F0 EXCEPT !.k = "panic", !.v = JsErrBase + Top.jse.v])
  /\ ev' = <<Event("panic.in", 0)>>
  /\ UNCHANGED <<CV, exc, retv, RT, FL, EN, obs, HI>>
\* l.30  $runDeferred(deferred, newErr); return;
RdJsErrCaught ==
  /\ At("rd", "jspanic") /\ ~Quiet
  /\ stack' = Append(SetTop([Top EXCEPT !.pc = "jsret"]), [F0 EXCEPT !.k = "rd", !.dfr = Top.dfr, !.jse = exc, !.fp = FALSE])
  /\ exc' = NoExc /\ ev' = <<>>
  /\ UNCHANGED <<CV, retv, RT, FL, EN, obs, HI>>
RdJsErrRet ==
  /\ At("rd", "jsret") /\ Quiet
  /\ PopRet(RUndef) /\ ev' = <<>>
  /\ UNCHANGED <<CV, exc, RT, FL, EN, obs, HI>>
\* l.33  if ($curGoroutine.asleep) return;
RdAsleep ==
  /\ At("rd", "enter") /\ Quiet /\ RdStays /\ Top.jse = NullExc /\ asleep
  /\ PopRet(RUndef) /\ ev' = <<>>
  /\ UNCHANGED <<CV, exc, RT, FL, EN, obs, HI>>
\* l.37-45  $stackDepthOffset--; outer = ...; localPanicValue = panicStack.pop(); if defined: $panicStackDepth = $getStackDepth(); $panicValue = ...
RdBegin ==
  /\ At("rd", "enter") /\ Quiet /\ RdStays /\ Top.jse = NullExc /\ ~asleep
  /\ off' = off - 1
  /\ LET has == pstack # <<>>
         lpv == IF has THEN Last(pstack) ELSE Undef IN
     /\ pstack' = IF has THEN Front(pstack) ELSE pstack
     /\ psd' = IF has THEN (off - 1) + Depth + 2 ELSE psd
     /\ pval' = IF has THEN lpv ELSE pval
     /\ stack' = SetTop([Top EXCEPT !.pc = "loop", !.lpv = lpv, !.opsd = psd, !.opv = pval])
  /\ ev' = <<>>
  /\ UNCHANGED <<CV, exc, retv, dl, dstack, FL, EN, obs, HI>>
\* l.49-51  if (deferred === null) { deferred = deferStack[deferStack.length - 1]; ...
RdPickList ==
  /\ At("rd", "loop") /\ Quiet /\ Top.dfr = 0 /\ dstack # <<>>
  /\ stack' = SetTop([Top EXCEPT !.dfr = Last(dstack)]) /\ ev' = <<>>
  /\ UNCHANGED <<CV, exc, retv, RT, FL, EN, obs, HI>>
\* l.51-67  the panic reached the top of the stack: $panicStackDepth = null; throw [the Error of the panic value]
RdTopOfStack ==
  /\ At("rd", "loop") /\ Quiet /\ Top.dfr = 0 /\ dstack = <<>>
  /\ psd' = NullD
  /\ stack' = SetTop([Top EXCEPT !.pc = "catch", !.e = ErrExc(IF Top.lpv >= JsErrBase THEN Top.lpv - JsErrBase ELSE Top.lpv)])
  /\ ev' = <<>>
  /\ UNCHANGED <<CV, exc, retv, dl, dstack, pstack, pval, off, FL, EN, obs, HI>>
\* l.70-77  call = deferred.pop(); if (call === undefined) { deferStack.pop(); if (localPanicValue !== undefined) { deferred = null; continue; } return; }
RdListEmpty ==
  /\ At("rd", "loop") /\ Quiet /\ Top.dfr # 0 /\ dl[Top.dfr] = <<>>
  /\ dstack' = Front(dstack)
  /\ stack' = SetTop(IF Top.lpv # Undef THEN [Top EXCEPT !.dfr = 0] ELSE [Top EXCEPT !.pc = "finally", !.pend = NoExc])
  /\ ev' = <<>>
  /\ UNCHANGED <<CV, exc, retv, dl, pstack, psd, pval, off, FL, EN, obs, HI>>
\* l.79  var r = call[0].apply(call[2], call[1]);
RdInvoke ==
  /\ At("rd", "loop") /\ Quiet /\ Top.dfr # 0 /\ dl[Top.dfr] # <<>>
  /\ LET d == Last(dl[Top.dfr])
         me == [Top EXCEPT !.pc = "ret", !.d = d] IN
     /\ dl' = [dl EXCEPT ![Top.dfr] = Front(@)]
     /\ stack' = Append(SetTop(me),
                        CASE d.k = "cont" -> ResumeFrame(d.ch)                       \* [r.$blk, [], r]
                          [] d.k = "call" -> CallFrame(Wrappers(d.v), "fn", d.a, D0, nid)
                          [] d.k = "rec" -> CallFrame(Wrappers(d.v), "dfn", 0, d, nid)
                          [] OTHER -> CallFrame(<<>>, "dfn", 0, d, nid))
     /\ dup' = (dup \/ (d.k # "cont" /\ d.id \in ran))
     /\ ran' = ran \cup {d.id}
  /\ nid' = nid + 1 /\ ev' = <<>>
  /\ UNCHANGED <<CV, exc, retv, dstack, pstack, psd, pval, off, FL, EN, obs, dev, mode, gxAt>>
\* l.80-86  if (r && r.$blk !== undefined) { deferred.push([r.$blk, [], r]); if (fromPanic) throw null; return; }
Drops == Top.fp /\ Top.lpv # Undef /\ psd # NullD
RdKeepSuspended ==
  /\ dl' = [dl EXCEPT ![Top.dfr] = Append(@, [Top.d EXCEPT !.k = "cont", !.ch = retv.ch])]
  /\ stack' = SetTop(IF Top.fp THEN [Top EXCEPT !.pc = "catch", !.e = NullExc]
                               ELSE [Top EXCEPT !.pc = "finally", !.pend = NoExc])
  /\ retv' = RUndef /\ ev' = <<>>
  /\ UNCHANGED <<CV, exc, dstack, pstack, psd, pval, off, FL, EN, obs, ran, dup, nid, gxAt>>
RdSuspended ==
  /\ At("rd", "ret") /\ Quiet /\ retv.t = "blk" /\ ~Drops
  /\ RdKeepSuspended /\ UNCHANGED <<dev, mode>>
\* DEVIATION suspend: with fromPanic the `throw null` is taken by the catch clause for "recovered further up":
\* $panicStackDepth = null, so `finally` does not push the panic record back: the panic is lost.
\* No prescribed counterpart is modelled: without this action the behaviour is cut here (see Cut).
DevSuspendDropsPanic ==
  /\ At("rd", "ret") /\ Quiet /\ retv.t = "blk" /\ Drops /\ MayReal(DevSuspend)
  /\ RdKeepSuspended /\ dev' = dev \cup {"suspend"} /\ mode' = "real"
\* l.88-94  if (localPanicValue !== undefined && $panicStackDepth === null) { if (fromPanic) throw null; return; }   else: next iteration
RdCallReturned ==
  /\ At("rd", "ret") /\ Quiet /\ retv.t # "blk"
  /\ stack' = SetTop(IF Top.lpv # Undef /\ psd = NullD
                     THEN (IF Top.fp THEN [Top EXCEPT !.pc = "catch", !.e = NullExc]
                                     ELSE [Top EXCEPT !.pc = "finally", !.pend = NoExc])
                     ELSE [Top EXCEPT !.pc = "loop"])
  /\ retv' = RUndef /\ ev' = <<>>
  /\ UNCHANGED <<CV, exc, RT, FL, EN, obs, HI>>
\* } catch (e) {      (the deferred call threw)
RdCaught ==
  /\ At("rd", "ret") /\ ~Quiet
  /\ stack' = SetTop([Top EXCEPT !.pc = "catch", !.e = exc])
  /\ exc' = NoExc /\ ev' = <<>>
  /\ UNCHANGED <<CV, retv, RT, FL, EN, obs, HI>>
\* l.99-108  if (fromPanic) { if (e === null) $panicStackDepth = null; throw e; }
RdCatchFromPanic ==
  /\ At("rd", "catch") /\ Quiet /\ Top.fp
  /\ psd' = IF Top.e = NullExc THEN NullD ELSE psd
  /\ stack' = SetTop([Top EXCEPT !.pc = "finally", !.pend = Top.e])
  /\ ev' = <<>>
  /\ UNCHANGED <<CV, exc, retv, dl, dstack, pstack, pval, off, FL, EN, obs, HI>>
\* l.112  $runDeferred(deferred, e, fromPanic);
RdCatchAtEnd ==
  /\ At("rd", "catch") /\ Quiet /\ ~Top.fp
  /\ stack' = Append(SetTop([Top EXCEPT !.pc = "catchret"]), [F0 EXCEPT !.k = "rd", !.dfr = Top.dfr, !.jse = Top.e, !.fp = FALSE])
  /\ ev' = <<>>
  /\ UNCHANGED <<CV, exc, retv, RT, FL, EN, obs, HI>>
RdCatchRet ==
  /\ At("rd", "catchret")
  /\ stack' = SetTop([Top EXCEPT !.pc = "finally", !.pend = exc])
  /\ exc' = NoExc /\ retv' = RUndef /\ ev' = <<>>
  /\ UNCHANGED <<CV, RT, FL, EN, obs, HI>>
\* } finally { if (localPanicValue !== undefined) { if ($panicStackDepth !== null) panicStack.push(localPanicValue);
\*             $panicStackDepth = outer...; $panicValue = outer...; } $stackDepthOffset++; }
RdFinally ==
  /\ At("rd", "finally") /\ Quiet
  /\ (IF Top.lpv # Undef
      THEN /\ pstack' = IF psd # NullD THEN Append(pstack, Top.lpv) ELSE pstack
           /\ psd' = Top.opsd /\ pval' = Top.opv
      ELSE UNCHANGED <<pstack, psd, pval>>)
  /\ off' = off + 1
  /\ stack' = Front(stack) /\ exc' = Top.pend /\ retv' = RUndef /\ ev' = <<>>
  /\ UNCHANGED <<CV, dl, dstack, FL, EN, obs, HI>>

\* grouped by the kind of the top frame so that TLC evaluates few guards per state
Unwinding == Propagate \/ GoCaught \/ FnCatch \/ MexprFinally \/ PanicOut \/ CdThrown \/ RdCaught \/ RdJsErrCaught \/ RdCatchRet
ByKind ==
  \/ Top.k = "fn" /\ (\/ ResumeCallee \/ ResumeYield \/ FnEnter \/ FnYield \/ FnBlk \/ FnOpSimple \/ FnReturn \/ FnPanic
                      \/ FnCall \/ FnCallRet \/ FnRecover \/ FnRecoverRet \/ FnGoexit \/ FnDefer \/ FnFinally
                      \/ FnAfterDeferred \/ FnResumeFin)
  \/ Top.k = "rd" /\ (\/ RdRethrow \/ RdJsErr \/ RdJsErrRet \/ RdAsleep \/ RdBegin \/ RdPickList \/ RdTopOfStack \/ RdListEmpty
                      \/ RdInvoke \/ RdSuspended \/ DevSuspendDropsPanic \/ RdCallReturned \/ RdCatchFromPanic \/ RdCatchAtEnd \/ RdCatchRet \/ RdFinally)
  \/ Top.k = "cd" /\ (CdCall \/ CdAfter \/ DevGoexitUnwindsLateFrame \/ FixLateFrameReturns)
  \/ Top.k = "dfn" /\ (\/ ResumeYield \/ DfnEnter \/ DfnEmit \/ DfnNop \/ DfnSetres \/ DfnPanic \/ DfnRecover \/ DfnRecoverRet
                       \/ DfnNest \/ DfnNestRet)
  \/ Top.k = "recover" /\ (RecoverTest \/ DevRecoverBlindToProxy \/ FixRecoverThroughProxy)
  \/ Top.k = "panic" /\ (PanicPush \/ PanicOut)
  \/ Top.k = "rtthrow" /\ RtThrow
  \/ Top.k = "inner" /\ (InnerRecover \/ InnerRecoverRet)
  \/ Top.k = "mexpr" /\ (MexprCall \/ MexprFinally)
  \/ Top.k = "proxy" /\ (ProxyCall \/ ProxyRet)
  \/ Top.k = "run" /\ (ResumeCallee \/ RunCall \/ RunRet)
  \/ Top.k = "top" /\ (ResumeCallee \/ TopCall \/ TopRet)
  \/ Top.k = "resume" /\ (ResumeArrow \/ ResumeArrowRet)
  \/ Top.k = "goroutine" /\ (GoStart \/ GoSuspended \/ GoReturned)
Next ==
  \/ Wake
  \/ Running /\ ~Quiet /\ Unwinding
  \/ Running /\ Quiet /\ ByKind

Spec == Init /\ [][Next]_vars

(***************************************************************************)
(* Invariants of the machine                                               *)
(***************************************************************************)
Kinds == {"goroutine", "resume", "top", "run", "fn", "mexpr", "proxy", "dfn", "inner", "rtthrow", "panic", "recover", "cd", "rd"}
TypeOK ==
  /\ \A j \in DOMAIN stack : stack[j].k \in Kinds
  /\ exc.t \in {"none", "null", "err"} /\ retv.t \in {"undef", "val", "blk"}
  /\ ended \in {"", "exit", "panic", "deadlock", "jserror"}
  /\ \A j \in DOMAIN dstack : dstack[j] \in DOMAIN dl
  /\ (ended # "" => stack = <<>>)

\* the family returned to the goroutine's function: nothing of it is left in the run time
Returned == Running /\ Quiet /\ Top.k = "top" /\ Top.pc = "callret" /\ ~Top.c /\ retv.t = "val"
LeavesNoTrace ==
  (Returned \/ ended = "exit") =>
     /\ dstack = <<>> /\ pstack = <<>> /\ off = 0 /\ psd = NullD
     /\ (Returned => ~asleep)
     /\ \A id \in DOMAIN dl : dl[id] = <<>>

\* $stackDepthOffset is determined by the frames on the stack
OffsetBalance ==
  off = 0 - Cardinality({j \in DOMAIN stack : stack[j].k = "mexpr" /\ stack[j].pc = "ret"})
          - Cardinality({j \in DOMAIN stack : stack[j].k = "rd" /\ stack[j].pc \in {"loop", "ret", "catch", "catchret", "finally"}})

\* $panicStackDepth is non-null only while a $runDeferred activation that popped a panic is on the stack
PsdScoped ==
  psd # NullD => \E j \in DOMAIN stack : stack[j].k = "rd" /\ stack[j].lpv # Undef /\ stack[j].pc \in {"loop", "ret", "catch", "catchret", "finally"}

\* deferStack.pop() removes the list that is being run
ListOnTop ==
  (Running /\ Quiet /\ Top.k = "rd" /\ Top.pc = "loop" /\ Top.dfr # 0 /\ dl[Top.dfr] = <<>>) => (dstack # <<>> /\ Last(dstack) = Top.dfr)

RunOnce == ~dup

\* a deferred closure that assigns the named result finds the deferring activation on the stack
OwnerAlive ==
  (Running /\ Top.k = "dfn" /\ Top.d.k \in {"setres", "recset"}) =>
      \E j \in DOMAIN stack : stack[j].k = "fn" /\ stack[j].aid = Top.d.own

\* in this alphabet every panic goes through $panic: the native-JavaScript-error branch of $runDeferred (l.23-31)
\* is not reachable (reported as information by the harness when violated, not required)
NoJsErrBranch == \A j \in DOMAIN stack : ~(stack[j].k = "rd" /\ stack[j].pc \in {"jspanic", "jsret"})

(***************************************************************************)
(* Refinement: observable outcome = Unwind!Run(P)                          *)
(***************************************************************************)
Ref == Unwind!Run(P)
Expected ==
  [obs |-> IF Ref.end = "exit" /\ Runs = 2 THEN Ref.obs \o Ref.obs ELSE Ref.obs, end |-> Ref.end, val |-> Ref.val]
Outcome == [obs |-> obs, end |-> ended, val |-> IF ended = "panic" THEN endval ELSE 0]
Agrees == Outcome = Expected

Refines == (ended # "" /\ dev = {}) => Agrees

\* every complete behaviour is written out: the harness compares it with the compiled program
DevSeq == (IF "proxy" \in dev THEN <<"proxy">> ELSE <<>>) \o (IF "suspend" \in dev THEN <<"suspend">> ELSE <<>>)
          \o (IF "goexit" \in dev THEN <<"goexit">> ELSE <<>>)
\* with DevSuspend = FALSE the deviation action is disabled: the behaviour is cut at this state
Cut == At("rd", "ret") /\ Quiet /\ retv.t = "blk" /\ Drops /\ MayFixed(DevSuspend)
Emit == (ended # "" \/ Cut) =>
  CSVWrite("%1$s", <<ToJson([id |-> pid - 1, V |-> V, Y |-> Y,
                            out |-> IF Cut THEN [Outcome EXCEPT !.end = "cut"] ELSE Outcome,
                            dev |-> DevSeq, mode |-> (IF Cut THEN "fixed" ELSE mode), agrees |-> (~Cut /\ Agrees),
                            ref |-> Ref])>>,
           OutFile \o "." \o ToString(pid % 64) \o ".ndjson")
=============================================================================
