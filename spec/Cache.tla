------------------------------- MODULE Cache -------------------------------
(***************************************************************************)
(* C20 - the build cache (build/cache/cache.go of the compiler under test) *)
(* as a state machine of the cache DIRECTORY.                              *)
(*                                                                         *)
(* What is modelled                                                        *)
(*   - a configuration is the record (goos, goarch, goroot, gopath, tags,  *)
(*     version, tested); the first six fields form the KEY of the build    *)
(*     configuration, `tested` (the package under test) is not part of     *)
(*     the key: it excludes one import path (and its external test         *)
(*     package path_test) from the cache altogether;                       *)
(*   - the directory holds FINAL files, named by (key, import path), and   *)
(*     TEMPORARY files with unique names that no Load ever opens;          *)
(*   - Store(cfg, path, buildTime) is the four steps of the code           *)
(*         CreateTemp -> Write -> Close -> Rename (-> Return)              *)
(*     executed by a process; a process may CRASH after any step (and in   *)
(*     the middle of Write, leaving a partial temporary file), and the     *)
(*     serialiser may fail (WriteFail: the temporary file is removed);     *)
(*     several processes may store concurrently (Procs);                   *)
(*   - the environment damages final files: Damage(file, kind) with kind   *)
(*         cut0 / cuthdr / cutmid / cuttail   truncation at offset 0,      *)
(*                   inside the gzip header, in the middle, inside the     *)
(*                   last bytes (the gzip trailer: CRC-32 and size)        *)
(*         payload / trailer                  a flipped bit/byte inside    *)
(*                   the compressed stream resp. inside the trailer        *)
(*         slack                              a flipped bit in a header    *)
(*                   byte that carries no information (MTIME, XFL, OS):    *)
(*                   the file still verifies and decodes to the same       *)
(*                   package, it is NOT damaged;                           *)
(*   - Touch(path): the sources of a package are modified (their           *)
(*     modification time moves past every build time handed out so far);   *)
(*   - Load(cfg, path, srcModTime) does not change the directory; it is    *)
(*     the operator LoadOut(state, cfg, path, srcModTime) and is checked   *)
(*     in every reachable state for every argument triple.                 *)
(*                                                                         *)
(* Two formulations are kept apart and compared by TLC:                    *)
(*   LoadOut  - operational: what reading the file found under the final   *)
(*              name yields (header readable? build time readable? stale?  *)
(*              stream verifies?), as the code is meant to work;           *)
(*   SpecOut  - declarative (the property text): hit(id) iff a Store with  *)
(*              the same key and import path completed its rename, no      *)
(*              later completed Store replaced it, its build time is not   *)
(*              older than the sources, nothing damaged the file since,    *)
(*              and the path is not the package under test.  It is         *)
(*              computed from the history variables `commit` and `hurt`    *)
(*              only, never from the files.                                *)
(*                                                                         *)
(* Invariants (checked by TLC on this module, cfg written by the harness): *)
(*   LoadIffSpec      LoadOut = SpecOut for all arguments, in all states   *)
(*                    including those with stores in flight or crashed     *)
(*   NeverOtherKey    a hit delivers content stored under the same key     *)
(*                    and import path                                      *)
(*   NoPartial        a hit delivers a completely written, undamaged file  *)
(*   TestNever        the package under test is neither stored nor loaded  *)
(*   VisibleComplete  every file visible under a final name was completely *)
(*                    written (whatever crashed, whenever)                 *)
(*                                                                         *)
(* Variant (parameter) selects seeded WRONG semantics; the harness runs    *)
(* TLC on each of them and requires an invariant violation (the invariants *)
(* are not vacuous): "inplace" (no temporary file), "dropfield" (version   *)
(* left out of the file name), "staleinv" (staleness comparison inverted), *)
(* "notest" (no test-package exclusion), "nocrc" (damage in the trailer    *)
(* not noticed - the behaviour of the pinned tree, finding F14).           *)
(*                                                                         *)
(* The harness (harness/props/c20) uses the pure step functions below      *)
(* through CacheScen.tla, which enumerates histories with the predicted    *)
(* outcome of every step and of every Load, and replays them on the real   *)
(* cache.BuildCache with real process kills.                               *)
(*                                                                         *)
(* Parameters (c20_params.json): cfgs (sequence of configuration records   *)
(* over small integers: equal integers = equal field values), npaths,      *)
(* xtest (xtest[p] = q when path p is q's external test package, else 0),  *)
(* variant, procs, maxStores, maxTime, maxDamage.                          *)
(***************************************************************************)
EXTENDS Integers, Sequences, FiniteSets, TLC, Json

P == JsonDeserialize("c20_params.json")

CfgSeq    == P.cfgs
CfgIx     == 1..Len(CfgSeq)
Paths     == 1..P.npaths
XTest     == P.xtest
Variant   == P.variant
Procs     == 1..P.procs
MaxStores == P.maxStores
MaxTime   == P.maxTime
MaxDamage == P.maxDamage

(***************************************************************************)
(* keys and names                                                          *)
(***************************************************************************)
Key6(i) == LET c == CfgSeq[i] IN <<c.goos, c.goarch, c.goroot, c.gopath, c.tags, c.version>>
\* the part of the file name derived from the configuration
NameOfKey(k) == IF Variant = "dropfield" THEN [k EXCEPT ![6] = 0] ELSE k
LK(i, p)   == <<Key6(i), p>>              \* logical key: what "same configuration and import path" means
Name(i, p) == <<NameOfKey(Key6(i)), p>>   \* the final file name
NameOfLK(k) == <<NameOfKey(k[1]), k[2]>>
LKeys == {LK(i, p) : i \in CfgIx, p \in Paths}
Names == {Name(i, p) : i \in CfgIx, p \in Paths}

\* path p is the package under test of configuration i, or its external test package
IsTest(i, p) == LET t == CfgSeq[i].tested IN t # 0 /\ (p = t \/ XTest[p] = t)
Excluded(i, p) == Variant # "notest" /\ IsTest(i, p)

(***************************************************************************)
(* files                                                                   *)
(***************************************************************************)
NoFile == [id |-> 0, bt |-> 0, st |-> "none", dmg |-> "none", cfg |-> 0, path |-> 0]
Idle   == [pc |-> "idle", cfg |-> 0, path |-> 0, id |-> 0, bt |-> 0]

DamageKinds == {"slack", "trailer", "cuttail", "payload", "cutmid", "cuthdr", "cut0"}
Rank(d) == CASE d = "none" -> 0 [] d = "slack" -> 0 [] d = "trailer" -> 1 [] d = "cuttail" -> 2
             [] d = "payload" -> 3 [] d = "cutmid" -> 4 [] d = "cuthdr" -> 5 [] d = "cut0" -> 6
Intact(f) == f.dmg \in {"none", "slack"}

S0 == [final  |-> [n \in Names |-> NoFile],
       temps  |-> {},
       run    |-> [pr \in Procs |-> Idle],
       src    |-> [p \in Paths |-> 1],
       now    |-> 1,
       nid    |-> 1,
       nd     |-> 0,
       \* history variables of the declarative specification
       commit |-> [k \in LKeys |-> [id |-> 0, bt |-> 0]],
       hurt   |-> [k \in LKeys |-> FALSE]]

(***************************************************************************)
(* the steps of Store, as functions on the state                           *)
(***************************************************************************)
NewFile(r, st) == [id |-> r.id, bt |-> r.bt, st |-> st, dmg |-> "none", cfg |-> r.cfg, path |-> r.path]

\* os.CreateTemp(dir, base): a fresh, empty file with a unique name
CreateTemp(s, pr, i, p) ==
  LET r == [pc |-> "created", cfg |-> i, path |-> p, id |-> s.nid, bt |-> s.now] IN
  IF Variant = "inplace"
  THEN [s EXCEPT !.run[pr] = r, !.nid = @ + 1, !.final[Name(i, p)] = NewFile(r, "empty")]
  ELSE [s EXCEPT !.run[pr] = r, !.nid = @ + 1, !.temps = @ \cup {[id |-> r.id, st |-> "empty"]}]

TempOf(s, id) == CHOOSE t \in s.temps : t.id = id

\* serialize: how = "full" (returned without error) or "partial" (some bytes are out)
Write(s, pr, how) ==
  LET r == s.run[pr]
      n == Name(r.cfg, r.path) IN
  IF Variant = "inplace"
  THEN [s EXCEPT !.run[pr].pc = IF how = "full" THEN "written" ELSE "writing",
                 !.final[n] = IF @.id = r.id THEN [@ EXCEPT !.st = how] ELSE @]
  ELSE [s EXCEPT !.run[pr].pc = IF how = "full" THEN "written" ELSE "writing",
                 !.temps = (@ \ {TempOf(s, r.id)}) \cup {[id |-> r.id, st |-> how]}]

\* serialize returned an error: the temporary file is removed, Store returns false
WriteFail(s, pr) ==
  LET r == s.run[pr]
      n == Name(r.cfg, r.path) IN
  IF Variant = "inplace"
  THEN [s EXCEPT !.run[pr] = Idle, !.final[n] = IF @.id = r.id THEN NoFile ELSE @]
  ELSE [s EXCEPT !.run[pr] = Idle, !.temps = @ \ {TempOf(s, r.id)}]

Close(s, pr) == [s EXCEPT !.run[pr].pc = "closed"]

\* os.Rename(temp, final): atomic replacement; this is the moment the Store "completed"
Rename(s, pr) ==
  LET r == s.run[pr]
      n == Name(r.cfg, r.path)
      k == LK(r.cfg, r.path) IN
  IF Variant = "inplace"
  THEN [s EXCEPT !.run[pr].pc = "renamed",
                 !.commit[k] = [id |-> r.id, bt |-> r.bt], !.hurt[k] = FALSE]
  ELSE [s EXCEPT !.run[pr].pc = "renamed",
                 !.final[n] = NewFile(r, TempOf(s, r.id).st),
                 !.temps = @ \ {TempOf(s, r.id)},
                 !.commit[k] = [id |-> r.id, bt |-> r.bt], !.hurt[k] = FALSE]

Return(s, pr) == [s EXCEPT !.run[pr] = Idle]

\* the process dies: nothing is cleaned up
Crash(s, pr) == [s EXCEPT !.run[pr] = Idle]

(***************************************************************************)
(* the environment                                                         *)
(***************************************************************************)
Damage(s, n, d) ==
  [s EXCEPT !.final[n].dmg = IF Rank(d) > Rank(@) THEN d ELSE @,
            !.nd = @ + 1,
            !.hurt = [k \in LKeys |-> IF NameOfLK(k) = n /\ d # "slack" THEN TRUE ELSE s.hurt[k]]]

Touch(s, p) == [s EXCEPT !.now = @ + 1, !.src[p] = s.now + 1]

(***************************************************************************)
(* Load                                                                    *)
(***************************************************************************)
Miss == 0                           \* a hit is the id (>= 1) of the Store whose package is returned
Stale(srcT, bt) == IF Variant = "staleinv" THEN bt > srcT ELSE srcT > bt

LoadOut(s, i, p, srcT) ==
  IF Excluded(i, p) THEN Miss
  ELSE LET f == s.final[Name(i, p)] IN
       IF f.id = 0 THEN Miss                                  \* os.Open: not exist
       ELSE IF f.st = "empty" \/ f.dmg \in {"cut0", "cuthdr"} THEN Miss   \* gzip.NewReader fails
       ELSE IF f.st = "partial" THEN Miss                      \* unexpected EOF
       ELSE IF Stale(srcT, f.bt) THEN Miss                     \* checked before the package is decoded
       ELSE IF ~Intact(f) THEN
              (IF Variant = "nocrc" /\ f.dmg \in {"trailer", "cuttail"} THEN f.id ELSE Miss)
       ELSE f.id

SpecOut(s, i, p, srcT) ==
  LET k == LK(i, p) IN
  IF ~IsTest(i, p) /\ s.commit[k].id # 0 /\ ~s.hurt[k] /\ s.commit[k].bt >= srcT
  THEN s.commit[k].id ELSE Miss

(***************************************************************************)
(* the state machine                                                       *)
(***************************************************************************)
VARIABLE st

Init == st = S0

StoreBegin(pr, i, p) ==
  /\ st.run[pr].pc = "idle" /\ st.nid <= MaxStores
  /\ ~Excluded(i, p)            \* on an excluded path Store returns false at once: a stuttering step
  /\ st' = CreateTemp(st, pr, i, p)
StoreWrite(pr)     == st.run[pr].pc \in {"created", "writing"} /\ st' = Write(st, pr, "full")
StoreWritePart(pr) == st.run[pr].pc = "created" /\ st' = Write(st, pr, "partial")
StoreWriteFail(pr) == st.run[pr].pc \in {"created", "writing"} /\ st' = WriteFail(st, pr)
StoreClose(pr)     == st.run[pr].pc = "written" /\ st' = Close(st, pr)
StoreRename(pr)    == st.run[pr].pc = "closed" /\ st' = Rename(st, pr)
StoreReturn(pr)    == st.run[pr].pc = "renamed" /\ st' = Return(st, pr)
ProcCrash(pr)      == st.run[pr].pc # "idle" /\ st' = Crash(st, pr)
EnvDamage(n, d)    == st.nd < MaxDamage /\ st.final[n].id # 0 /\ st' = Damage(st, n, d)
EnvTouch(p)        == st.now < MaxTime /\ st' = Touch(st, p)

Next ==
  \/ \E pr \in Procs, i \in CfgIx, p \in Paths : StoreBegin(pr, i, p)
  \/ \E pr \in Procs : \/ StoreWrite(pr) \/ StoreWritePart(pr) \/ StoreWriteFail(pr) \/ StoreClose(pr)
                       \/ StoreRename(pr) \/ StoreReturn(pr) \/ ProcCrash(pr)
  \/ \E n \in Names, d \in DamageKinds : EnvDamage(n, d)
  \/ \E p \in Paths : EnvTouch(p)

Spec == Init /\ [][Next]_st

(***************************************************************************)
(* invariants                                                              *)
(***************************************************************************)
Times == 0..(MaxTime + 1)

LoadIffSpecAt(s) == \A i \in CfgIx, p \in Paths, t \in Times : LoadOut(s, i, p, t) = SpecOut(s, i, p, t)
NeverOtherKeyAt(s) ==
  \A i \in CfgIx, p \in Paths, t \in Times :
    LoadOut(s, i, p, t) # Miss =>
      LET f == s.final[Name(i, p)] IN f.id = LoadOut(s, i, p, t) /\ LK(f.cfg, f.path) = LK(i, p)
NoPartialAt(s) ==
  \A i \in CfgIx, p \in Paths, t \in Times :
    LoadOut(s, i, p, t) # Miss => LET f == s.final[Name(i, p)] IN f.st = "full" /\ Intact(f)
TestNeverAt(s) ==
  /\ \A i \in CfgIx, p \in Paths, t \in Times : IsTest(i, p) => LoadOut(s, i, p, t) = Miss
  /\ \A n \in Names : s.final[n].id # 0 => ~IsTest(s.final[n].cfg, s.final[n].path)
  /\ \A pr \in Procs : s.run[pr].pc # "idle" => ~IsTest(s.run[pr].cfg, s.run[pr].path)
VisibleCompleteAt(s) == \A n \in Names : s.final[n].id # 0 => s.final[n].st = "full"

LoadIffSpec     == LoadIffSpecAt(st)
NeverOtherKey   == NeverOtherKeyAt(st)
NoPartial       == NoPartialAt(st)
TestNever       == TestNeverAt(st)
VisibleComplete == VisibleCompleteAt(st)
=============================================================================
