---------------------------- MODULE BitsValidate ----------------------------
(***************************************************************************)
(* The bit-vector operators of Bits.tla agree with plain integer           *)
(* arithmetic for ALL pairs of 8-bit operands (signed and unsigned), all   *)
(* shift counts 0..10 and all conversions 8 <-> 16 bit.  The operators are  *)
(* generic in the width, so this is the evidence that their 16/32/64-bit   *)
(* instances (which TLC's 32-bit integers cannot cross-check) are right.   *)
(* State = (hi, lo) nibbles of the first operand so that the 256 checks    *)
(* are spread over TLC's workers.                                          *)
(***************************************************************************)
EXTENDS Bits

VARIABLES hi, lo
vars == <<hi, lo>>

U(v) == NatOf(v, 1, Len(v))                       \* unsigned value (w <= 16)
S(v) == IF v[Len(v)] = 1 THEN U(v) - 2^Len(v) ELSE U(v)
B8(n) == FromNat(n % 256, 8)                       \* n >= 0
SB8(n) == B8((n + 1024) % 256)                     \* any small n, two's complement
Abs(x) == IF x < 0 THEN -x ELSE x
TQuo(x, y) == LET q == Abs(x) \div Abs(y) IN IF (x < 0) # (y < 0) THEN -q ELSE q
TRem(x, y) == LET r == Abs(x) % Abs(y) IN IF x < 0 THEN -r ELSE r

AgreeU(a, b) ==
  LET x == B8(a) y == B8(b) IN
  /\ Add(x, y) = B8(a + b)
  /\ Sub(x, y) = B8(a - b + 256)
  /\ Mul(x, y) = B8(a * b)
  /\ (b # 0 => UDivMod(x, y) = <<B8(a \div b), B8(a % b)>>)
  /\ ULess(x, y) = (a < b)
  /\ U(And(x, y)) + U(Or(x, y)) = a + b
  /\ U(Xor(x, y)) = U(Or(x, y)) - U(And(x, y))
  /\ U(AndNot(x, y)) = a - U(And(x, y))
  /\ Neg(x) = B8(256 - a)
  /\ U(Not(x)) = 255 - a

AgreeS(a, b) ==      \* a, b in -128..127
  LET x == SB8(a) y == SB8(b) IN
  /\ S(x) = a
  /\ S(Add(x, y)) = S(SB8(a + b))
  /\ S(Sub(x, y)) = S(SB8(a - b))
  /\ S(Mul(x, y)) = S(SB8(((a * b) % 256)))
  /\ (b # 0 => /\ S(SDivMod(x, y)[1]) = S(SB8(TQuo(a, b)))
               /\ S(SDivMod(x, y)[2]) = TRem(a, b))
  /\ SLess(x, y) = (a < b)
  /\ S(Neg(x)) = S(SB8(-a))
  /\ S(Not(x)) = -a - 1

AgreeShift(a) ==
  LET x == B8(a) IN
  \A n \in 0..10 :
    /\ Shl(x, n) = B8((a * 2^n) % 256)
    /\ U(ShrU(x, n)) = a \div 2^n
    /\ S(ShrS(x, n)) = S(x) \div 2^n              \* floor division = arithmetic shift
AgreeBig(a) ==
  LET x == B8(a) IN
  /\ Shl(x, 2147483647) = Zero(8) /\ ShrU(x, 2147483647) = Zero(8)
  /\ ShrS(x, 2147483647) = IF a >= 128 THEN Ones(8) ELSE Zero(8)

AgreeConv(a) ==
  LET x == B8(a) IN
  /\ U(Conv(x, FALSE, 16)) = a
  /\ S(Conv(x, TRUE, 16)) = S(x)
  /\ \A h \in {0, 1, 127, 128, 255} : Conv(FromNat(h * 256 + a, 16), TRUE, 8) = x
  /\ ToLimbs(x) = <<a>> /\ FromLimbs(<<a>>, 8) = x
  /\ \A h \in {0, 1, 255} : /\ ToLimbs(FromNat(h * 256 + a, 16)) = <<h * 256 + a>>
                             /\ FromLimbs(<<a, h>>, 32) = [i \in 1..32 |-> IF i <= 8 THEN x[i] ELSE IF i >= 17 /\ i <= 24 THEN B8(h)[i-16] ELSE 0]
                             /\ ToLimbs(FromLimbs(<<a, h, 7, a>>, 64)) = <<a, h, 7, a>>
  /\ CountOf(x) = a
  /\ CountOf(Conv(x, FALSE, 64)) = a
  /\ CountOf([i \in 1..64 |-> IF i = 40 THEN 1 ELSE 0]) = 2147483647

Agree ==
  (lo >= 0) =>
    LET a == hi * 16 + lo IN
    /\ \A b \in 0..255 : AgreeU(a, b) /\ AgreeS(a - 128, b - 128)
    /\ AgreeShift(a) /\ AgreeBig(a) /\ AgreeConv(a)

Init == hi \in 0..15 /\ lo = -1
Next == lo = -1 /\ lo' \in 0..15 /\ UNCHANGED hi
Spec == Init /\ [][Next]_vars
=============================================================================
