---------------------------- MODULE FloatArithScen ----------------------------
(***************************************************************************)
(* Scenario enumeration for the float / complex part of C06, and the laws  *)
(* TLC checks on the reference itself.                                     *)
(*                                                                         *)
(* Like BitsScen: a unit is <<class, type, op, x1, x2>> (strings); every   *)
(* row state (unit, first operand) writes one JSON line, a sequence of     *)
(*     <<expression, result, alternatives, tags>>                          *)
(* with the expression trees of FloatArith.tla, the result FloatArith      *)
(* defines (IEEE 754 bit patterns as 16-bit limbs, <<-1>> = NaN of any     *)
(* payload; or <<"excluded", why>> where Go defines no unique result),     *)
(* the other results Go permits (fused multiply-add) and tags (the         *)
(* double-rounding cases of 64-bit integer -> float32).  The harness       *)
(* renders the expressions as Go -- run-time operands as parameters of a   *)
(* function, constants as typed hexadecimal literals -- compiles them with *)
(* the compiler under test, prints math.Float64bits / Float32bits of the   *)
(* values and compares (guard: the same program built by the reference     *)
(* toolchain).                                                             *)
(*                                                                         *)
(* Operand shapes (the property: "the result does not depend on whether an *)
(* operand is a constant, a variable or a sub-expression"):                *)
(*   vv  variable op variable          vl / lv  one typed constant         *)
(*   ll  both typed constants (folded at compile time: exact arithmetic,   *)
(*       rounded to the type; no -0; overflow and /0 do not compile)       *)
(*   untyped   T(u1 op u2): untyped constants, ONE rounding at T(...)      *)
(*   nest  (a op1 b) op2 c and a op2 (b op1 c);  asg  a op= b              *)
(*   neg, conv (every integer type <-> float32/float64, float32 <->        *)
(*   float64, round trips), complex: cvv cvl clv cparts                    *)
(*                                                                         *)
(* Pools (Pool, Lits, NestPool, ConvPool, IntPool, CPool): the boundary    *)
(* values listed below plus VERIF_SEED-derived operands (Params.rand).     *)
(*                                                                         *)
(* Laws (INVARIANT Laws; evaluated on every operand tuple of the "laws"    *)
(* units, which range over the same pools):                                *)
(*   L1  + and * commute; x - y = x + (-y); -(-x) = x                      *)
(*   L2  the exact arithmetic is consistent: (x + y) - y = x,              *)
(*       (x * y) / y = x without remainder, q*y + r = x*2^k with r < y     *)
(*       and at least p+2 quotient bits, the quotient is exact iff y's     *)
(*       (odd) mantissa divides x's                                        *)
(*   L3  results are values of the format; rounding is idempotent; every   *)
(*       float32 is a float64; rounding is monotone                        *)
(*   L4  float32 arithmetic through float64 is innocuous: for float32      *)
(*       operands, round32(round64(exact)) = round32(exact) for + - * /    *)
(*       (so `fround` of a double result is correct) -- whereas for        *)
(*       integers wider than 53 bits round32(round64(v)) differs from      *)
(*       round32(v) EXACTLY when round64 moves v onto a float32 midpoint   *)
(*       from the side opposite to where ties-to-even sends the midpoint   *)
(*       (these conversions are tagged "double_rounding_via_float64")      *)
(*   L5  comparison: trichotomy off NaN, antisymmetry, le/ge/ne derived,   *)
(*       NaN unordered, the order agrees with the sign of the exact        *)
(*       difference and with the order of the bit patterns                 *)
(*   L6  conversions: float(int) -> int round trip for representable       *)
(*       integers; truncation never increases the magnitude and is within  *)
(*       one unit; float64(float32(x)) = x                                 *)
(*   L7  x - x = +0, x * 1 = x, x / 1 = x, x / x = 1 for finite x          *)
(*   L8  agreement with FloatGrid.tla (C13's reference) on values with a   *)
(*       short mantissa: FCmp, Enc64 / Enc32 bit patterns, ToFloat64       *)
(*       (range rounding), Trunc                                           *)
(***************************************************************************)
EXTENDS FloatArith, FiniteSets, Json, CSV, SequencesExt

Params == JsonDeserialize("c06f_params.json")
OutFile == Params.out
Classes == Range(Params.classes)
Level == Params.level               \* 0: quick pools, 1: thorough pools
Nest1 == Range(Params.nest1)
Nest2 == Range(Params.nest2)

D(s, m, e) == XNorm(s, NFromInt(m), e)                                     \* m < 2^31
DW(s, hi, lo, e) == XNorm(s, NAdd(NShl(NFromInt(hi), 30), NFromInt(lo)), e)   \* (hi * 2^30 + lo) * 2^e
P2m1(k) == NSub(NPow2(k), NOne)                                            \* 2^k - 1
Specials == {NaN, Inf(0), Inf(1), Zero0(0), Zero0(1)}
WithNeg(S) == S \cup {Neg1(x) : x \in S}

(***************************************************************************)
(* float64 operands                                                        *)
(***************************************************************************)
Core64 ==
  Specials \cup WithNeg({D(0, 1, 0), DW(0, 3355443, 214748365, -55)})          \* +-1, +-0.1
  \cup { D(0, 3, -1), D(0, 1, 1), D(0, 3, 0), D(0, 5, -1), D(1, 5, 1),           \* 1.5 2 3 2.5 -10
         XNorm(0, NAdd(NPow2(52), NOne), -52),                                  \* 1 + ulp
         XNorm(0, P2m1(53), -53),                                              \* 1 - ulp/2
         DW(0, 5592405, 357913941, -54),                                       \* 1/3 (rounded)
         D(0, 1, 24), D(0, 16777217, 0), D(0, 1, 53), XNorm(0, P2m1(53), 0),    \* 2^24, 2^24+1, 2^53, 2^53-1
         XNorm(0, NAdd(NPow2(52), NOne), 1),                                    \* 2^53 + 2
         XNorm(0, P2m1(53), 971), XNorm(1, P2m1(53), 971),                      \* +-max finite
         D(0, 1, -1022), D(0, 1, -1074), D(1, 1, -1074), XNorm(0, P2m1(52), -1074),   \* min normal, +-min subnormal, max subnormal
         D(0, 1, 1023), D(0, 1, 512), D(0, 1, -537), D(0, 3, -1073),
         \* around float32: midpoints, the subnormal and overflow thresholds
         XNorm(0, NAdd(NPow2(24), NOne), -24),                                  \* 1 + 2^-24: float32 tie (to 1)
         XNorm(0, NAdd(NPow2(52), NAdd(NPow2(28), NOne)), -52),                 \* 1 + 2^-24 + 2^-52: just above it
         D(0, 16777219, -24),                                                   \* 1 + 3*2^-24: tie (up, to even)
         D(0, 1, -150), XNorm(0, NAdd(NPow2(52), NOne), -202), D(0, 3, -150),   \* half the least float32 subnormal, above it, 1.5 of it
         XNorm(0, P2m1(24), 104),                                               \* max float32
         XNorm(0, P2m1(25), 103),                                               \* midpoint to 2^128: overflows float32
         XNorm(0, NSub(P2m1(52), NPow2(27)), 76),                               \* just below that midpoint
         D(0, 13421773, -27) }                                                  \* float32(0.1)
Extra64 ==
  WithNeg({D(0, 3, -1), XNorm(0, NAdd(NPow2(52), NOne), -52), D(0, 1, -1022), XNorm(0, P2m1(24), 104)})
  \cup { D(0, 7, -2), D(0, 1, -1), D(0, 1, 31), D(0, 1, 32), D(0, 1, 63), D(0, 1, 64), D(0, 1, -1023),
         XNorm(0, P2m1(53), -1075 + 1), D(0, 1, 1022), D(0, 5, 1021), DW(0, 823543, 282475249, 22),
         DW(0, 2935890, 503282867, -52), D(0, 1, 127), D(0, 1, 128), D(0, 1, -126), D(0, 1, -149) }
Rand64 == {v \in Range(Params.rand.f64) : Rep(F64, v)}
Pool64 == Core64 \cup (IF Level >= 1 THEN Extra64 ELSE {}) \cup Rand64

(***************************************************************************)
(* float32 operands                                                        *)
(***************************************************************************)
Core32 ==
  Specials \cup WithNeg({D(0, 1, 0), D(0, 13421773, -27)})                      \* +-1, +-float32(0.1)
  \cup { D(0, 3, -1), D(0, 1, 1), D(0, 3, 0), D(0, 5, -1), D(1, 5, 1),
         D(0, 8388609, -23), D(0, 16777215, -24),                               \* 1 + ulp, 1 - ulp/2
         D(0, 11184811, -25),                                                   \* float32(1/3)
         D(0, 1, 24), D(0, 16777215, 0), D(0, 8388609, 1), D(0, 8388609, 0),     \* 2^24, 2^24-1, 2^24+2, 2^23+1
         D(0, 16777215, 104), D(1, 16777215, 104),                              \* +-max
         D(0, 1, -126), D(0, 1, -149), D(1, 1, -149), D(0, 8388607, -149),       \* min normal, +-min subnormal, max subnormal
         D(0, 1, 127), D(0, 1, 64), D(0, 1, -64), D(0, 3, -148),
         D(0, 1, -24), D(0, 8388609, -47), D(0, 1, -25), D(0, 3, -25),           \* half ulps of 1: ties and near-ties of 1 + y
         D(0, 4097, 0), D(0, 4097, 12), D(0, 12289, -13) }                       \* (2^12+1)^2 needs 25 bits
Extra32 ==
  WithNeg({D(0, 3, -1), D(0, 8388609, -23), D(0, 1, -126), D(0, 1, 24)})
  \cup { D(0, 7, -2), D(0, 1, -1), D(0, 1, 31), D(0, 1, 32), D(0, 1, 63), D(0, 1, -127), D(0, 1, 126),
         D(0, 5, 125), D(0, 11863283, -22), D(0, 16777213, 3), D(0, 1, 23), D(0, 8388607, 0) }
Rand32 == {v \in Range(Params.rand.f32) : Rep(F32, v)}
Pool32 == Core32 \cup (IF Level >= 1 THEN Extra32 ELSE {}) \cup Rand32

Pool(t) == IF t = "f32" THEN Pool32 ELSE Pool64
\* second operands of the vv units: the whole pool (thorough), or the boundary core plus the seeded values
Cols(t) == IF Level >= 1 THEN Pool(t) ELSE (IF t = "f32" THEN Core32 \cup Rand32 ELSE Core64 \cup Rand64)
\* typed constants: finite, no negative zero
IsLit(v) == IsFin(v) \/ v = Zero0(0)
Lits(t) ==
  LET base == IF t = "f32"
              THEN {Zero0(0), D(0, 1, 0), D(1, 1, 0), D(0, 13421773, -27), D(0, 3, 0), D(0, 1, 24), D(0, 8388609, -23),
                    D(0, 16777215, 104), D(0, 1, -149), D(0, 1, -126), D(0, 1, -24), D(1, 3, -1)}
              ELSE {Zero0(0), D(0, 1, 0), D(1, 1, 0), DW(0, 3355443, 214748365, -55), D(0, 3, 0), D(0, 1, 53),
                    XNorm(0, NAdd(NPow2(52), NOne), -52), XNorm(0, P2m1(53), 971), D(0, 1, -1074), D(0, 1, -1022),
                    D(0, 16777217, 0), D(1, 3, -1)}
  IN base \cup {v \in (IF t = "f32" THEN Rand32 ELSE Rand64) : IsLit(v)}
NestPool(t) ==
  IF t = "f32" THEN {Zero0(1), D(0, 1, 0), D(0, 13421773, -27), D(1, 3, 0), D(0, 1, 24), D(0, 16777215, 104), D(0, 1, -149), Inf(0)}
  ELSE {Zero0(1), D(0, 1, 0), DW(0, 3355443, 214748365, -55), D(1, 3, 0), D(0, 1, 53), XNorm(0, P2m1(53), 971), D(0, 1, -1074), Inf(0)}

(***************************************************************************)
(* conversions: fractional and boundary values for float -> integer, and   *)
(* integers (16-bit limbs of Bits.tla) for integer -> float                *)
(***************************************************************************)
TenE15hi == 1862645
TenE15lo == 160235521
Fracs ==
  WithNeg({D(0, 1, -1), D(0, 3, -1), D(0, 5, -1), D(0, 255, -1), D(0, 257, -1), D(0, 511, -1), D(0, 513, -1),
           D(0, 65535, -1), D(0, 131071, -1), D(0, 16383, -7), D(0, 32767, -7), D(0, 1, 7), D(0, 129, 0), D(0, 1, 8),
           D(0, 1, 15), D(0, 32769, 0), D(0, 1, 16), D(0, 1, 31), D(0, 1, 32), D(0, 1, 63), D(0, 1, 64),
           XNorm(0, P2m1(32), -1), XNorm(0, NAdd(NPow2(32), NOne), -1),          \* 2^31 -+ 1/2
           XNorm(0, P2m1(33), -1), XNorm(0, NAdd(NPow2(33), NOne), -1),          \* 2^32 -+ 1/2
           XNorm(0, P2m1(24), 7), XNorm(0, P2m1(24), 8),                         \* the float32 below 2^31, 2^32
           XNorm(0, P2m1(24), 39), XNorm(0, P2m1(24), 40),                       \* the float32 below 2^63, 2^64
           XNorm(0, P2m1(53), 10), XNorm(0, P2m1(53), 11),                       \* the float64 below 2^63, 2^64
           DW(0, TenE15hi, TenE15lo, -1) })                                      \* 10^15 + 1/2
ConvPool(t) == {v \in Pool(t) \cup Fracs : Rep(Fmt(t), v)}

BPow(k, w) == [i \in 1..w |-> IF i = k + 1 THEN 1 ELSE 0]
BAlt(w, ph) == [i \in 1..w |-> (i + ph) % 2]
BN(n, w) == FromNat(n, w)
IntBits(t) ==
  LET w == W(t) IN
  {BN(n, w) : n \in {0, 1, 2, 3, 7, 100}} \cup {Neg(BN(n, w)) : n \in {1, 2, 3}}
  \cup {BPow(w - 1, w), Add(BPow(w - 1, w), BN(1, w)), Not(BPow(w - 1, w)), Sub(Not(BPow(w - 1, w)), BN(1, w))}
  \cup {BPow(w \div 2, w), Add(BPow(w \div 2, w), BN(1, w)), BAlt(w, 0), BAlt(w, 1), BPow(w - 2, w)}
  \cup (IF w >= 32 THEN {BN(16777216, w), BN(16777217, w), BN(16777218, w), BN(16777219, w), BN(33554433, w), BN(33554434, w),
                         Neg(BN(16777217, w)), Neg(BN(16777219, w)), BN(2147483520, w), BN(2147483583, w), BN(2147483584, w),
                         Sub(Zero(w), BN(129, w)), Sub(Zero(w), BN(128, w))} ELSE {})        \* 2^32-129 .. (unsigned), -129, -128
  \cup (IF w = 64 THEN
          LET p(k) == BPow(k, 64) one == BN(1, 64) IN
          {Add(p(53), one), Add(p(53), BN(2, 64)), Add(p(53), BN(3, 64)), Neg(Add(p(53), one)), Sub(p(53), one),
           Add(Add(p(63), p(39)), one),                           \* 2^63 + 2^39 + 1: above a float32 midpoint by less than a float64 ulp
           Add(Add(p(62), p(38)), one), Neg(Add(Add(p(62), p(38)), one)),
           Sub(Add(p(60), Add(p(37), p(36))), one),               \* 2^60 + 3*2^36 - 1: just below a midpoint whose even neighbour is above
           Add(Add(p(55), p(31)), one), Add(p(62), p(38)),        \* ... and a midpoint itself
           Sub(Zero(64), Shl(one, 10)), Sub(Zero(64), Shl(one, 11)), Sub(Zero(64), Add(Shl(one, 10), one)),   \* 2^64 - 2^10, ...
           Sub(p(63), Shl(one, 9)), Sub(p(63), Add(Shl(one, 9), one)),
           Add(Add(p(40), p(16)), one), Add(p(62), Add(p(38), p(8)))}
        ELSE {})
WKey(w) == CASE w = 8 -> "w8" [] w = 16 -> "w16" [] w = 32 -> "w32" [] w = 64 -> "w64"
IntPool(t) == {ToLimbs(v) : v \in IntBits(t)} \cup Range(Params.rand[WKey(W(t))])

(***************************************************************************)
(* complex operands                                                        *)
(***************************************************************************)
Comps(t) ==      \* component values (t = component type)
  IF t = "f32" THEN {Zero0(0), Zero0(1), D(0, 1, 0), D(1, 1, 1), D(0, 3, -1), D(0, 4097, 0), D(0, 13421773, -27), Inf(0), NaN}
  ELSE {Zero0(0), Zero0(1), D(0, 1, 0), D(1, 1, 1), D(0, 3, -1), D(0, 16777217, 0), DW(0, 3355443, 214748365, -55), Inf(0), NaN}
CRand(t) == {v \in Range(Params.rand[IF t = "c64" THEN "c64" ELSE "c128"]) : Rep(Fmt(CompOf(t)), v[2]) /\ Rep(Fmt(CompOf(t)), v[3])}
CPool(t) == {Cx(a, b) : a \in Comps(CompOf(t)), b \in Comps(CompOf(t))} \cup CRand(t)
CFinite(t) == {v \in CPool(t) : FinOrZero(v[2]) /\ FinOrZero(v[3])}
CCols(t) ==
  LET c == CompOf(t)
      tenth == IF c = "f32" THEN D(0, 13421773, -27) ELSE DW(0, 3355443, 214748365, -55)
      big == IF c = "f32" THEN D(0, 4097, 0) ELSE D(0, 16777217, 0)
  IN { Cx(D(0, 1, 0), Zero0(0)), Cx(D(1, 1, 1), Zero0(0)), Cx(D(0, 1, -1), Zero0(1)), Cx(D(0, 3, 0), Zero0(0)),   \* real divisors
       Cx(Zero0(0), D(0, 3, -1)), Cx(Zero0(1), D(1, 1, 1)), Cx(Zero0(0), tenth),                                  \* imaginary
       Cx(D(0, 1, 0), D(1, 1, 0)), Cx(D(1, 1, 0), D(0, 1, 0)), Cx(D(0, 3, -1), D(0, 3, -1)), Cx(tenth, Neg1(tenth)),   \* |re| = |im|
       Cx(D(0, 3, -1), D(1, 1, 1)), Cx(tenth, D(0, 3, 0)), Cx(big, D(0, 1, 0)), Cx(D(0, 1, 0), big),               \* general
       Cx(Zero0(0), Zero0(0)), Cx(Zero0(1), Zero0(0)), Cx(Inf(0), D(0, 1, 0)), Cx(D(0, 1, 0), NaN) }               \* excluded for /
     \cup CRand(t)
CLits(t) == {v \in CCols(t) : IsLit(v[2]) /\ IsLit(v[3])}

(***************************************************************************)
(* Units and rows                                                          *)
(***************************************************************************)
FOps == {"add", "sub", "mul", "quo"}
NoRow == <<"none">>
One0 == <<"one">>

Units ==
  (IF "vv" \in Classes THEN {<<"vv", t, op, "", "">> : t \in FloatTypes, op \in FOps \cup CmpOps} ELSE {})
  \cup (IF "vl" \in Classes THEN {<<sh, t, op, "", "">> : sh \in {"vl", "lv"}, t \in FloatTypes, op \in FOps \cup CmpOps} ELSE {})
  \cup (IF "ll" \in Classes THEN {<<"ll", t, op, "", "">> : t \in FloatTypes, op \in FOps} ELSE {})
  \cup (IF "untyped" \in Classes THEN {<<"untyped", t, op, "", "">> : t \in FloatTypes, op \in FOps} ELSE {})
  \cup (IF "asg" \in Classes THEN {<<"asg", t, op, "", "">> : t \in FloatTypes \cup ComplexTypes, op \in FOps} ELSE {})
  \cup (IF "neg" \in Classes THEN {<<"neg", t, "", "", "">> : t \in FloatTypes \cup ComplexTypes} ELSE {})
  \cup (IF "nest" \in Classes THEN {<<"nest", t, op1, op2, f>> : t \in FloatTypes, op1 \in Nest1, op2 \in Nest2, f \in {"l", "r"}} ELSE {})
  \cup (IF "conv" \in Classes THEN {<<"conv", t, "", t2, "">> : t \in FloatTypes \cup IntTypes, t2 \in FloatTypes \cup IntTypes} ELSE {})
  \cup (IF "cvv" \in Classes THEN {<<"cvv", t, op, "", "">> : t \in ComplexTypes, op \in FOps \cup {"eq", "ne"}} ELSE {})
  \cup (IF "cvl" \in Classes THEN {<<sh, t, op, "", "">> : sh \in {"cvl", "clv"}, t \in ComplexTypes, op \in {"add", "sub", "mul", "quo", "eq"}} ELSE {})
  \cup (IF "cparts" \in Classes THEN {<<"cparts", t, "", "", "">> : t \in ComplexTypes} ELSE {})
  \cup (IF "laws" \in Classes THEN {<<"laws", t, k, "", "">> : t \in FloatTypes, k \in {"pair", "unary"}}
                                   \cup {<<"laws", t, "int", "", "">> : t \in IntTypes} ELSE {})

Rows(u) ==
  LET t == u[2] IN
  CASE u[1] = "vv" -> Pool(t)
    [] u[1] \in {"vl", "lv", "ll"} -> Lits(t)
    [] u[1] = "untyped" -> {v \in Pool64 : IsLit(v)}
    [] u[1] = "asg" -> IF IsF(t) THEN NestPool(t) ELSE CCols(t)
    [] u[1] \in {"neg", "conv", "cparts"} -> {One0}
    [] u[1] = "nest" -> NestPool(t)
    [] u[1] = "cvv" -> IF u[3] = "quo" THEN CFinite(t) ELSE CPool(t)
    [] u[1] \in {"cvl", "clv"} -> CLits(t)
    [] u[1] = "laws" -> IF u[3] = "int" THEN {One0} ELSE Pool(t)

BinKind(op) == IF op \in CmpOps THEN "cmp" ELSE "bin"
V(t, v) == <<"var", t, v>>
L(t, v) == <<"lit", t, v>>
UntypedCols == {D(0, 1, 0), DW(0, 3355443, 214748365, -55), D(0, 3, 0), XNorm(0, NAdd(NPow2(24), NOne), -24),
                XNorm(0, NAdd(NPow2(52), NAdd(NPow2(28), NOne)), -52), D(0, 1, -150), XNorm(0, P2m1(25), 103), D(1, 1, -1074), D(0, 1, 512)}

Exprs(u, r) ==
  LET t == u[2] op == u[3] IN
  CASE u[1] = "vv" -> {<<BinKind(op), op, V(t, r), V(t, b)>> : b \in Cols(t)}
    [] u[1] = "vl" -> {<<BinKind(op), op, V(t, a), L(t, r)>> : a \in Pool(t)}
    [] u[1] = "lv" -> {<<BinKind(op), op, L(t, r), V(t, b)>> : b \in Pool(t)}
    [] u[1] = "ll" -> {<<"bin", op, L(t, r), L(t, b)>> : b \in Lits(t)}
    [] u[1] = "untyped" -> {<<"untyped", t, op, r, b>> : b \in UntypedCols}
    [] u[1] = "asg" -> IF IsF(t) THEN {<<"asg", op, V(t, r), V(t, b)>> : b \in Pool(t)}
                       ELSE {<<"asg", op, V(t, a), V(t, r)>> : a \in CCols(t)}
    [] u[1] = "neg" ->
         IF IsF(t) THEN {<<"neg", V(t, a)>> : a \in Pool(t)} \cup {<<"neg", L(t, a)>> : a \in Lits(t)}
                        \cup {<<"neg", <<"neg", V(t, a)>>>> : a \in NestPool(t)}
                        \cup {<<"bin", "sub", V(t, a), <<"neg", V(t, b)>>>> : a \in NestPool(t), b \in NestPool(t)}
         ELSE {<<"neg", V(t, a)>> : a \in CCols(t)}
    [] u[1] = "nest" ->
         IF u[5] = "l" THEN {<<"bin", u[4], <<"bin", op, V(t, r), V(t, b)>>, V(t, c)>> : b \in NestPool(t), c \in NestPool(t)}
         ELSE {<<"bin", u[4], V(t, r), <<"bin", op, V(t, b), V(t, c)>>>> : b \in NestPool(t), c \in NestPool(t)}
    [] u[1] = "conv" ->
         LET t2 == u[4] IN
         IF t = t2 \/ (IsI(t) /\ IsI(t2)) THEN {}
         ELSE IF IsI(t) THEN {<<"conv", t2, V(t, a)>> : a \in IntPool(t)} \cup {<<"conv", t2, L(t, a)>> : a \in IntPool(t)}
                             \cup {<<"conv", t, <<"conv", t2, V(t, a)>>>> : a \in IntPool(t)}                      \* int -> float -> int
         ELSE IF IsI(t2) THEN {<<"conv", t2, V(t, a)>> : a \in ConvPool(t)}
                              \cup {<<"conv", t2, <<"bin", "mul", V(t, a), V(t, D(0, 1, -1))>>>> : a \in NestPool(t)}  \* integer of a sub-expression
         ELSE {<<"conv", t2, V(t, a)>> : a \in Pool(t)} \cup {<<"conv", t2, L(t, a)>> : a \in Lits(t)}
              \cup {<<"conv", t, <<"conv", t2, V(t, a)>>>> : a \in Pool(t)}                                         \* there and back
              \cup {<<"conv", t2, <<"bin", o, V(t, a), V(t, b)>>>> : o \in {"add", "mul"}, a \in NestPool(t), b \in NestPool(t)}
    [] u[1] = "cvv" -> {<<BinKind(op), op, V(t, r), V(t, b)>> : b \in CCols(t)}
    [] u[1] = "cvl" -> {<<BinKind(op), op, V(t, a), L(t, r)>> : a \in CCols(t)}
    [] u[1] = "clv" -> {<<BinKind(op), op, L(t, r), V(t, b)>> : b \in CCols(t)}
    [] u[1] = "cparts" ->
         LET c == CompOf(t) o == IF t = "c64" THEN "c128" ELSE "c64" IN
         {<<"real", V(t, a)>> : a \in CPool(t)} \cup {<<"imag", V(t, a)>> : a \in CPool(t)}
         \cup {<<"cplx", V(c, a), V(c, b)>> : a \in Comps(c), b \in Comps(c)}
         \cup {<<"cplx", L(c, a), V(c, b)>> : a \in {x \in Comps(c) : IsLit(x)}, b \in Comps(c)}
         \cup {<<"conv", o, V(t, a)>> : a \in CPool(t)}
         \cup {<<"conv", t, <<"conv", o, V(t, a)>>>> : a \in CCols(t)}
         \cup {<<"real", <<"bin", "mul", V(t, a), V(t, b)>>>> : a \in CCols(t), b \in CLits(t)}
         \cup {<<"cplx", <<"imag", V(t, a)>>, <<"real", V(t, a)>>>> : a \in CCols(t)}
    [] u[1] = "laws" -> {}

\* 64-bit integer -> float32 (possibly through further conversions at the root) that the
\* detour through float64 would round differently
DoubleRounds(e) ==
  e[1] = "conv" /\ e[2] = "f32" /\ e[3][1] \in {"var", "lit"} /\ IsI(e[3][2]) /\
  LET v == IntExact(e[3][2], LeafVal(e[3][2], e[3][3])) IN RoundTo(F32, RoundTo(F64, v)) # RoundTo(F32, v)
RECURSIVE TagsOf(_)
TagsOf(e) == IF DoubleRounds(e) THEN <<"double_rounding_via_float64">>
             ELSE IF e[1] = "conv" /\ e[3][1] = "conv" THEN TagsOf(e[3]) ELSE <<>>

Recs(u, r) == LET es == SetToSeq(Exprs(u, r)) IN
              [i \in 1..Len(es) |-> <<es[i], FResult(es[i]), SetToSeq(FAltResults(es[i])), TagsOf(es[i])>>]

(***************************************************************************)
(* Laws                                                                    *)
(***************************************************************************)
Fin3(r) == <<"fin", r[1], r[2], r[3]>>
SameVal(a, b) == a = b
OneV == D(0, 1, 0)

\* a failing law stops TLC with its name and the operands
Chk(c, name, args) == IF c THEN TRUE ELSE Assert(FALSE, "law " \o name \o " fails for " \o ToString(args))

PairLaws(f, x, y) ==
  LET C(c, name) == Chk(c, name, <<x, y>>) IN
  /\ C(FlAdd(f, x, y) = FlAdd(f, y, x), "L1 add commutes")
  /\ C(FlMul(f, x, y) = FlMul(f, y, x), "L1 mul commutes")
  /\ C(FlSub(f, x, y) = FlAdd(f, x, FlNeg(y)), "L1 x-y = x+(-y)")
  /\ \A op \in FOps : LET r == FlBin(f, op, x, y) IN C(Rep(f, r) /\ RoundTo(f, r) = r, "L3 result in format " \o op)
  /\ (IsFin(x) /\ IsFin(y) =>
        LET s == XAdd(x, y)
            p == XMul(x, y)
            k == XQuoK(f, x, y)
            qr == NDivMod(NShl(x[3], k), y[3])
            d == XAdd(x, Neg1(y))
        IN /\ C(s[2] # <<>> => LET b == XAdd(Fin3(s), Neg1(y)) IN XNorm(b[1], b[2], b[3]) = x, "L2 (x+y)-y = x")
           /\ C(NCanon(s[2]) /\ NCanon(p[2]) /\ NCanon(qr[1]) /\ NCanon(qr[2]), "L2 canonical")
           /\ C(NDivMod(p[2], y[3]) = <<x[3], <<>>>>, "L2 (x*y)/y = x")
           /\ C(NAdd(NMul(qr[1], y[3]), qr[2]) = NShl(x[3], k) /\ NCmp(qr[2], y[3]) < 0, "L2 q*y+r = x*2^k")
           /\ C(NBitLen(qr[1]) >= f.p + 2, "L2 quotient bits")
           /\ C((qr[2] = <<>>) <=> (NDivMod(x[3], y[3])[2] = <<>>), "L2 quotient exact iff y's (odd) mantissa divides x's")
           \* L5: the order is the sign of the exact difference
           /\ C(FlCmp(x, y) = (IF d[2] = <<>> THEN 0 ELSE IF d[1] = 1 THEN -1 ELSE 1), "L5 order = sign of difference")
           \* L4: float32 arithmetic computed in float64 and rounded again
           /\ (f.p = 24 =>
                 /\ C(s[2] # <<>> => RoundTo(F32, RoundX(F64, s[1], s[2], s[3], FALSE)) = RoundX(F32, s[1], s[2], s[3], FALSE), "L4 add")
                 /\ C(d[2] # <<>> => RoundTo(F32, RoundX(F64, d[1], d[2], d[3], FALSE)) = RoundX(F32, d[1], d[2], d[3], FALSE), "L4 sub")
                 /\ C(RoundTo(F32, RoundX(F64, p[1], p[2], p[3], FALSE)) = RoundX(F32, p[1], p[2], p[3], FALSE), "L4 mul")
                 /\ C(RoundTo(F64, Fin3(p)) = Fin3(p) \/ XTop(Fin3(p)) < -1022, "L4 product of two float32 exact in float64")
                 /\ C(LET q == XQuo(F64, x, y) IN RoundTo(F32, RoundX(F64, q[1], q[2], q[3], q[4])) = FlQuo(F32, x, y), "L4 quo")))
  /\ LET c == FlCmp(x, y) IN
     /\ C(IsNaNV(x) \/ IsNaNV(y) <=> c = 2, "L5 NaN unordered")
     /\ (c # 2 => /\ C(FlCmp(y, x) = -c, "L5 antisymmetry")
                  /\ C(Cardinality({op \in {"lt", "eq", "gt"} : FlRel(op, x, y)}) = 1, "L5 trichotomy")
                  /\ C(FlRel("le", x, y) <=> FlRel("lt", x, y) \/ FlRel("eq", x, y), "L5 le")
                  /\ C(FlRel("ge", x, y) <=> FlRel("gt", x, y) \/ FlRel("eq", x, y), "L5 ge")
                  /\ C(c = 0 <=> x = y \/ (IsZeroV(x) /\ IsZeroV(y)), "L5 eq")
                  /\ C(c <= 0 => FlCmp(RoundTo(F32, x), RoundTo(F32, y)) <= 0, "L3 rounding monotone")
                  /\ C(x[2] = 0 /\ y[2] = 0 => NCmp(PatNat(f, x), PatNat(f, y)) = c, "L5 bit patterns ordered"))
     /\ C(c = 2 => \A op \in CmpOps : FlRel(op, x, y) = (op = "ne"), "L5 NaN relations")
     /\ C(FlRel("ne", x, y) <=> ~FlRel("eq", x, y), "L5 ne")
     /\ C(c # 2 /\ IsSmall(x) /\ IsSmall(y) => FCmp(Small(x), Small(y)) = c, "L8 FloatGrid order")

\* values outside the float64 range with a short mantissa, for the cross-check of the range rounding
OffGrid == {<<"fin", s, m, e>> : s \in {0, 1}, m \in {1, 3, 5, 7, 1023}, e \in {-1085, -1080, -1077, -1076, -1075, 1014, 1021, 1022, 1023, 1024}}

UnaryLaws(t, x) ==
  LET f == Fmt(t)
      C(c, name) == Chk(c, name, <<t, x>>) IN
  /\ C(Rep(f, x) /\ RoundTo(f, x) = x /\ RoundTo(F64, x) = x, "L3 pool value in format, rounding idempotent")
  /\ C(~IsMid(f, x), "L3 not a midpoint")
  /\ C(FlNeg(FlNeg(x)) = x, "L1 neg neg")
  /\ (IsFin(x) =>
        /\ C(FlSub(f, x, x) = Zero0(0) /\ FlAdd(f, x, FlNeg(x)) = Zero0(0), "L7 x-x = +0")
        /\ C(FlMul(f, x, OneV) = x /\ FlQuo(f, x, OneV) = x /\ FlQuo(f, x, x) = OneV, "L7 x*1, x/1, x/x")
        /\ C(FlAdd(f, x, x) = FlMul(f, x, D(0, 1, 1)), "L7 x+x = 2x")
        /\ LET tr == XTrunc(x) IN
           C(/\ FlCmp(AbsV(tr), AbsV(x)) <= 0
             /\ (IsFin(tr) => tr[4] >= 0 /\ tr[2] = x[2])
             /\ FlCmp(AbsV(x), IF IsZeroV(tr) THEN OneV ELSE Fin3(XAdd(AbsV(tr), OneV))) < 0, "L6 truncation")
        /\ \A it \in {"i8", "u8", "i32", "u32", "i64", "u64"} :
              LET b == FlToInt(it, x) IN
              C(b # <<>> => IntExact(it, b) = (IF IsZeroV(XTrunc(x)) THEN Zero0(0) ELSE XTrunc(x)), "L6 float->int is the truncation " \o it))
  /\ (~IsNaNV(x) =>
        /\ C(IsSmall(x) /\ t = "f64" => Pat("f64", x) = ToLimbs(Enc64(Small(x))), "L8 Enc64")
        /\ C(IsSmall(x) /\ t = "f32" => Pat("f32", x) = ToLimbs(Enc32(Small(x))) /\ Rep32(Small(x)), "L8 Enc32")
        /\ C(IsSmall(x) => Small(XTrunc(x)) = Trunc(Small(x)), "L8 Trunc"))
  /\ C(IsMid(F32, x) => RoundTo(F32, x) # x /\ ~Rep(F32, x), "L3 midpoints are not values")
  /\ (x = D(0, 1, 0) =>
        \A v \in OffGrid : Chk(Small(RoundTo(F64, Big(v))) = ToFloat64(v), "L8 ToFloat64", v))

IntLaws(t) ==
  \A l \in IntPool(t) :
    LET b == FromLimbs(l, W(t))
        v == IntExact(t, b)
        d == RoundTo(F64, v)
        twice == RoundTo(F32, d)
        once == RoundTo(F32, v)
        C(c, name) == Chk(c, name, <<t, l>>)
    IN /\ C(IntToFl(F64, t, b) = d /\ IntToFl(F32, t, b) = once, "L6 IntToFl")
       /\ C(Rep(F64, v) => FlToInt(t, d) = b, "L6 round trip float64")
       /\ C(Rep(F32, v) => FlToInt(t, once) = b, "L6 round trip float32")
       /\ C(NFromBits(NToBits(NFromBits(b), 64)) = NFromBits(b), "L6 bits")
       \* L4: when does the detour through float64 change the float32 result?
       /\ C((twice # once) <=> /\ d # v /\ IsMid(F32, d)
                               /\ \/ (FlCmp(v, d) = 1 /\ FlCmp(twice, d) = -1)
                                  \/ (FlCmp(v, d) = -1 /\ FlCmp(twice, d) = 1), "L4 double rounding characterisation")
       /\ C(W(t) <= 32 => twice = once, "L4 no double rounding below 54 bits")

VARIABLES unit, row
vars == <<unit, row>>

Init == unit \in Units /\ row = NoRow
Next == row = NoRow /\ row' \in Rows(unit) /\ UNCHANGED unit
Spec == Init /\ [][Next]_vars

Laws ==
  (row # NoRow /\ unit[1] = "laws") =>
    CASE unit[3] = "pair" -> \A y \in Cols(unit[2]) : PairLaws(Fmt(unit[2]), row, y)
      [] unit[3] = "unary" -> UnaryLaws(unit[2], row)
      [] unit[3] = "int" -> IntLaws(unit[2])

UnitFile(u) == OutFile \o "." \o u[1] \o "_" \o u[2] \o "_" \o u[3] \o "_" \o u[4] \o "_" \o u[5] \o ".ndjson"
Emit == (row # NoRow /\ unit[1] # "laws") =>
          (Exprs(unit, row) = {} \/ CSVWrite("%1$s", <<ToJson(Recs(unit, row))>>, UnitFile(unit)))
=============================================================================
