---------------------------- MODULE Utf8Validate ----------------------------
(***************************************************************************)
(* Cross-check of the two UTF-8 definitions of Utf8.tla for EVERY code     *)
(* point 0..0x10FFFF (and the 21-bit values above it), in blocks of 256    *)
(* code points per state so that the work spreads over TLC's workers:      *)
(*   - scalar values: EncodeScalar has the documented length, Payload      *)
(*     inverts it, DecodeRune and DecodeSpec return (r, length) and        *)
(*     consume exactly the encoding, no proper prefix is an encoding or    *)
(*     decodes to anything but (U+FFFD, 1), and the byte-wise order of     *)
(*     encodings is the order of the code points;                          *)
(*   - surrogates and values above U+10FFFF: EncodeRune gives EF BF BD and *)
(*     the would-be bit packing is rejected by both decoders;              *)
(*   - overlong forms of every value are rejected by both decoders.        *)
(* The harness runs this module before the scenarios (cfg: INVARIANT       *)
(* RoundTrip).  Blocks: hi*64+lo, 0..4351 = U+0000..U+10FFFF, 4352..8191   *)
(* = 0x110000..0x1FFFFF (the rest of what four bytes can pack).            *)
(***************************************************************************)
EXTENDS Utf8

CONSTANT MaxBlock        \* 8191 = everything; the quick tier may stop at 4351 + a few

VARIABLES hi, lo
vars == <<hi, lo>>

FFFD == <<239, 191, 189>>
Err  == <<RuneError, 1>>

Pack2(r) == <<192 + (r \div 64), 128 + (r % 64)>>
Pack3(r) == <<224 + (r \div 4096), 128 + ((r \div 64) % 64), 128 + (r % 64)>>
Pack4(r) == <<240 + (r \div 262144), 128 + ((r \div 4096) % 64), 128 + ((r \div 64) % 64), 128 + (r % 64)>>

Rejected(b) == /\ ~IsEncoding(b)
               /\ DecodeRune(b, 0) = Err
               /\ DecodeSpec(b, 0) = Err

ScalarOK(r) ==
  LET e == EncodeScalar(r) n == Len(e) IN
  /\ n = RuneLen(r) /\ IsString(e)
  /\ EncodeRune(r) = e
  /\ Payload(e) = r /\ IsEncoding(e)
  /\ DecodeRune(e, 0) = <<r, n>> /\ DecodeSpec(e, 0) = <<r, n>>
  /\ DecodeRune(e \o <<128>>, 0) = <<r, n>> /\ DecodeSpec(e \o <<191>>, 0) = <<r, n>>   \* a trailing continuation byte is not consumed
  /\ EncodingsAt(e \o <<128, 128, 128>>, 0) = {n}
  /\ \A w \in 1..(n - 1) : Rejected(SubSeq(e, 1, w))                      \* truncated
  /\ RangeSteps(e) = <<<<0, r, n>>>> /\ ToRunes(e) = <<r>> /\ FromRunes(<<r>>) = e /\ Valid(e)
  /\ StringFromInt(<<r % 65536, r \div 65536, 0, 0>>) = e
  /\ (IsScalar(r + 1) => Less(e, EncodeScalar(r + 1)) /\ Cmp(EncodeScalar(r + 1), e) = 1)

Overlong(r) ==
  /\ (r <= 127 => Rejected(Pack2(r)))
  /\ (r <= 2047 => Rejected(Pack3(r)))
  /\ (r <= 65535 => Rejected(Pack4(r)))

NonScalarOK(r) ==
  /\ EncodeRune(r) = FFFD /\ RuneLen(r) = -1
  /\ StringFromInt(<<r % 65536, r \div 65536, 0, 0>>) = FFFD
  /\ (r <= 65535 => Rejected(Pack3(r)))                 \* surrogates
  /\ Rejected(Pack4(r))                                  \* surrogates as overlong 4-byte forms, and > U+10FFFF
  /\ ~Valid(Pack4(r)) /\ RuneCount(Pack4(r)) = 4 /\ FromRunes(ToRunes(Pack4(r))) = FFFD \o FFFD \o FFFD \o FFFD

BlockOK(b) ==
  \A r \in (b * 256)..(b * 256 + 255) :
    IF IsScalar(r) THEN ScalarOK(r) /\ Overlong(r) ELSE NonScalarOK(r)

\* other integers that are not code points
Misc ==
  /\ EncodeRune(-1) = FFFD /\ EncodeRune(-2147483647) = FFFD /\ EncodeRune(2147483647) = FFFD
  /\ StringFromInt(<<65, 0, 1, 0>>) = FFFD                       \* 2^32 + 'A'
  /\ StringFromInt(<<65535, 65535, 65535, 65535>>) = FFFD        \* -1 / 2^64-1
  /\ StringFromInt(<<0, 0, 0, 32768>>) = FFFD                    \* -2^63
  /\ StringFromInt(<<65535, 16, 0, 0>>) = <<244, 143, 191, 191>> /\ StringFromInt(<<0, 17, 0, 0>>) = FFFD
  /\ \A b \in {128, 191, 192, 193, 245, 248, 255} : Rejected(<<b>>) /\ Rejected(<<b, 128>>) /\ Rejected(<<b, 128, 128, 128>>)
  /\ Rejected(<<248, 136, 128, 128, 128>>)                       \* five-byte form

RoundTrip == (lo >= 0) => (BlockOK(hi * 64 + lo) /\ (hi = 0 /\ lo = 0 => Misc))

Init == hi \in 0..(MaxBlock \div 64) /\ lo = -1
Next == lo = -1 /\ lo' \in {l \in 0..63 : hi * 64 + l <= MaxBlock} /\ UNCHANGED hi
Spec == Init /\ [][Next]_vars
=============================================================================
