----------------------------- MODULE CacheScen -----------------------------
(***************************************************************************)
(* Scenario enumeration for C20.  A UNIT is a pair of configurations       *)
(* (a, b) - the base configuration and one that differs from it in one     *)
(* field (or an adversarial pair) - and a pair of import paths (p1, p2).   *)
(* A HISTORY is a sequence of at most L directory-changing operations      *)
(*     <<"store",  ci, pi, mode>>   Store by configuration ci on path pi;  *)
(*                                  mode ok | werr (serialiser error) |    *)
(*                                  created | writing | written | closed | *)
(*                                  renamed (the process is killed at that *)
(*                                  step of Store)                         *)
(*     <<"damage", ci, pi, kind>>   the final file of (ci, pi) is damaged  *)
(*     <<"touch",  0,  pi, "">>     the sources of pi are modified         *)
(* executed with the step functions of Cache.tla (one process).  After     *)
(* every operation the specification predicts                              *)
(*     ret     what Store returned: "true" | "false" | "crash"             *)
(*     probes  the result of Load for the four (configuration, path)       *)
(*             pairs of the unit with srcModTime = the current source time *)
(*             of the path: 0 = miss, n = hit delivering the package       *)
(*             written by the n-th store operation of the history          *)
(*     nf, nt  the number of final-name files and of temporary files       *)
(*     dm      per (configuration, path): 0 no file, 1 file that must      *)
(*             verify, 2 file damaged by the environment                   *)
(* One JSON line <<unit, slots, history>> is written per reachable state   *)
(* (slots: which pairs name the same file); the                            *)
(* harness replays the maximal histories (a prefix is covered by its       *)
(* extension) and compares every predicted item with the real directory    *)
(* and the real Load.                                                      *)
(*                                                                         *)
(* Sampling.  The successor for operation number k at depth d is taken iff *)
(* a hash of the history (seeded by the harness from VERIF_SEED) modulo    *)
(* 1000 is below thrC[cls][d] (crashing stores) resp. thrN[cls][d] (all     *)
(* others), cls being the sampling class of the unit; 1000 = all           *)
(* successors.  The enumeration of a unit is complete up to the depth      *)
(* where its thresholds drop below 1000 and seed-sampled beyond.           *)
(*                                                                         *)
(* TLC checks on every state: the predictions are the DECLARATIVE          *)
(* SpecOut; ProbeOK requires the operational LoadOut to agree with it for  *)
(* the unit's pairs and all source times, and the visible-complete and     *)
(* test-never invariants of Cache.tla to hold.                             *)
(*                                                                         *)
(* Extra parameters: units (records a, b, p1, p2, cls), L, thrN, thrC       *)
(* (per class a sequence of L thresholds), seed, out.                      *)
(***************************************************************************)
EXTENDS Cache, CSV, SequencesExt

Units   == P.units
L       == P.L
ThrN    == P.thrN
ThrC    == P.thrC
OutFile == P.out

Modes  == <<"ok", "werr", "created", "writing", "written", "closed", "renamed">>
DKinds == <<"slack", "payload", "trailer", "cut0", "cuthdr", "cutmid", "cuttail">>
IsCrashMode(m) == m \in {"created", "writing", "written", "closed", "renamed"}

Ops == [k \in 1..28 |-> <<"store",  ((k-1) \div 14) + 1, (((k-1) \div 7) % 2) + 1, Modes[((k-1) % 7) + 1]>>]
    \o [k \in 1..28 |-> <<"damage", ((k-1) \div 14) + 1, (((k-1) \div 7) % 2) + 1, DKinds[((k-1) % 7) + 1]>>]
    \o << <<"touch", 0, 1, "">>, <<"touch", 0, 2, "">> >>

CfgOf(u, ci)  == IF ci = 1 THEN Units[u].a ELSE Units[u].b
PathOf(u, pi) == IF pi = 1 THEN Units[u].p1 ELSE Units[u].p2

Enabled(u, s, op) ==
  IF op[1] = "damage"
  THEN LET n == Name(CfgOf(u, op[2]), PathOf(u, op[3])) IN
       /\ s.final[n].id # 0
       \* both configurations may name the same file (they differ in `tested` only): one operation per file
       /\ (op[2] = 1 \/ n # Name(CfgOf(u, 1), PathOf(u, op[3])))
  ELSE TRUE

StoreOp(s, i, p, mode) ==
  IF Excluded(i, p) THEN [s EXCEPT !.nid = @ + 1]     \* returns false at once; the history still counts it
  ELSE LET s1 == CreateTemp(s, 1, i, p) IN
       CASE mode = "created" -> Crash(s1, 1)
         [] mode = "writing" -> Crash(Write(s1, 1, "partial"), 1)
         [] mode = "werr"    -> WriteFail(Write(s1, 1, "partial"), 1)
         [] mode = "written" -> Crash(Write(s1, 1, "full"), 1)
         [] mode = "closed"  -> Crash(Close(Write(s1, 1, "full"), 1), 1)
         [] mode = "renamed" -> Crash(Rename(Close(Write(s1, 1, "full"), 1), 1), 1)
         [] mode = "ok"      -> Return(Rename(Close(Write(s1, 1, "full"), 1), 1), 1)

Apply(u, s, op) ==
  CASE op[1] = "store"  -> StoreOp(s, CfgOf(u, op[2]), PathOf(u, op[3]), op[4])
    [] op[1] = "damage" -> Damage(s, Name(CfgOf(u, op[2]), PathOf(u, op[3])), op[4])
    [] op[1] = "touch"  -> Touch(s, PathOf(u, op[3]))

Ret(u, op) ==
  IF op[1] # "store" THEN ""
  ELSE IF Excluded(CfgOf(u, op[2]), PathOf(u, op[3])) THEN "false"
  ELSE IF op[4] = "ok" THEN "true"
  ELSE IF op[4] = "werr" THEN "false"
  ELSE "crash"

Pairs == << <<1, 1>>, <<1, 2>>, <<2, 1>>, <<2, 2>> >>

View(u, s) ==
  << [k \in 1..4 |-> LET i == CfgOf(u, Pairs[k][1]) p == PathOf(u, Pairs[k][2]) IN SpecOut(s, i, p, s.src[p])],
     Cardinality({n \in Names : s.final[n].id # 0}),
     Cardinality(s.temps),
     [k \in 1..4 |-> LET f == s.final[Name(CfgOf(u, Pairs[k][1]), PathOf(u, Pairs[k][2]))] IN
                     IF f.id = 0 THEN 0 ELSE IF Intact(f) THEN 1 ELSE 2] >>

\* the directory state is the variable st of Cache.tla
VARIABLES unit, h, hh
vars == <<unit, st, h, hh>>

InitS == unit \in 1..Len(Units) /\ st = S0 /\ h = <<>> /\ hh = (P.seed + 7919 * unit) % 1000003

NextS ==
  /\ Len(h) < L
  /\ \E k \in 1..Len(Ops) :
       LET op == Ops[k]
           d  == Len(h) + 1
           nh == (hh * 131 + k * 7919) % 1000003 IN
       /\ Enabled(unit, st, op)
       /\ (nh % 1000) < (IF op[1] = "store" /\ IsCrashMode(op[4]) THEN ThrC[Units[unit].cls][d] ELSE ThrN[Units[unit].cls][d])
       /\ st' = Apply(unit, st, op)
       /\ h' = Append(h, <<op, Ret(unit, op), View(unit, st')>>)
       /\ hh' = nh
       /\ UNCHANGED unit

SpecS == InitS /\ [][NextS]_vars

ProbeOK ==
  /\ \A k \in 1..4, t \in 0..(L + 2) :
       LET i == CfgOf(unit, Pairs[k][1]) p == PathOf(unit, Pairs[k][2]) IN
       /\ LoadOut(st, i, p, t) = SpecOut(st, i, p, t)
       /\ (IsTest(i, p) => LoadOut(st, i, p, t) = Miss)
       /\ (LoadOut(st, i, p, t) # Miss =>
             LET f == st.final[Name(i, p)] IN f.st = "full" /\ Intact(f) /\ LK(f.cfg, f.path) = LK(i, p))
  /\ VisibleCompleteAt(st)

\* Slots(u)[k]: the first pair that names the same file as pair k (configurations that differ
\* in `tested` only share their files)
Slots(u) == [k \in 1..4 |-> CHOOSE j \in 1..4 :
                 /\ Name(CfgOf(u, Pairs[j][1]), PathOf(u, Pairs[j][2])) = Name(CfgOf(u, Pairs[k][1]), PathOf(u, Pairs[k][2]))
                 /\ \A i \in 1..(j-1) : Name(CfgOf(u, Pairs[i][1]), PathOf(u, Pairs[i][2])) # Name(CfgOf(u, Pairs[k][1]), PathOf(u, Pairs[k][2]))]

Emit == h # <<>> => CSVWrite("%1$s", <<ToJson(<<unit, Slots(unit), h>>)>>, OutFile \o "." \o ToString(unit) \o ".ndjson")
=============================================================================
