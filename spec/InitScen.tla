------------------------------ MODULE InitScen ------------------------------
(***************************************************************************)
(* Scenario enumeration for C10.  TLC builds every program of the families *)
(* below (one UNIT each), checks the definitions of Init.tla on it, runs   *)
(* the initialisation machine over every cross-package order and both file *)
(* orders, and writes                                                      *)
(*   scen.<sid>.ndjson   the program, its well-formedness, the cross-      *)
(*                       package orders and for each file order the        *)
(*                       allowed marker traces (RefTrace), one per order   *)
(*   term.ndjson         <<sid, fo, porder>> for every terminal state of   *)
(*                       the machine (the harness checks that these are    *)
(*                       exactly the orders of the scenario record)        *)
(*                                                                         *)
(* FAMILIES (Params.fams selects; each is enumerated completely)           *)
(*   dag    every import DAG of 1..maxPk packages (edges from lower to     *)
(*          higher index, every package imported by someone) x the deepest *)
(*          package's initialiser suspends or not; one variable (reading   *)
(*          the variables of the imports) and one init per package         *)
(*   vars   one package, two files; three variables placed in the files in *)
(*          every way x every acyclic choice of none/direct/through-a-     *)
(*          function dependency for each ordered pair x which of them has  *)
(*          no initialiser (0..3); the functions sit in the other file     *)
(*   inits  two packages with the same pair of file names (every pair of   *)
(*          Params.pairs) x 0..2 init functions per file                   *)
(*   link   the linkname table: target kind (function, value method,       *)
(*          pointer method) x receiver kind x reference exported x         *)
(*          implementation exported x import direction (with, against,     *)
(*          none) x suspending implementation; every program calls the     *)
(*          reference from an init function and a function of the          *)
(*          declaring package and, if exported, from main (third package); *)
(*          a decoy package declares equally named functions/methods       *)
(*   bad    the three unsupported uses x direction x exported              *)
(*   code   programs decoded from the digit strings Params.codes (seeded   *)
(*          by the harness): <= maxPk packages, <= 2 files, per file       *)
(*          `slots` declaration slots of kind var/zvar/func/init/lref with *)
(*          caps 3 vars + 1 zvar + 3 funcs + 1 lref per package and 2      *)
(*          inits per file, references between them (acyclic by rank),     *)
(*          suspension points, exported names, cross-package references    *)
(*          along the import edges, linkname edges in any direction        *)
(*   given  programs passed in verbatim (replay)                           *)
(***************************************************************************)
EXTENDS Init, Json, CSV

Params == JsonDeserialize("c10_params.json")
OutFile == Params.out
Fams    == {Params.fams[i] : i \in DOMAIN Params.fams}
NPool   == Params.npool          \* size of the (ascending) file-name pool
Pairs   == Params.pairs          \* pairs <<i, j>>, i < j, of name indices
OneFile == Params.one            \* name index used by single-file packages
MaxPk   == Params.bnd.maxPk
SL      == Params.bnd.slots + 1  \* declaration slots per file + the slot of main.main

(***************************************************************************)
(* constructors                                                            *)
(***************************************************************************)
D(pk, fi, kind, sty, blk, fk, rk, ex, tg, bad, refs) ==
  [pk |-> pk, fi |-> fi, kind |-> kind, sty |-> sty, blk |-> blk, fk |-> fk, rk |-> rk,
   ex |-> ex, tg |-> tg, bad |-> bad, refs |-> refs]
R(k, d) == [k |-> k, d |-> d]
Var(pk, fi, sty, blk, ex, refs) == D(pk, fi, "var", sty, blk, "", "", ex, 0, "", refs)
ZVar(pk, fi, ex)                == D(pk, fi, "zvar", "", "none", "", "", ex, 0, "", <<>>)
Fn(pk, fi, blk, fk, rk, ex, refs) == D(pk, fi, "func", "", blk, fk, IF fk = "func" THEN "" ELSE rk, ex, 0, "", refs)
Ini(pk, fi, blk, refs)          == D(pk, fi, "init", "", blk, "", "", FALSE, 0, "", refs)
Mn(fi, blk, refs)               == D(1, fi, "main", "", blk, "", "", FALSE, 0, "", refs)
LRef(pk, fi, ex, tg, bad)       == D(pk, fi, "lref", "", "none", "", "", ex, tg, bad, <<>>)

Asc(X) == SetToSortSeq(X, LAMBDA a, b : a < b)
MethTable == <<"func", "vmeth", "pmeth">>
RkTable   == <<"struct", "int">>

(***************************************************************************)
(* family dag                                                              *)
(***************************************************************************)
AllEdges(np) == {<<i, j>> : i \in 1..np, j \in 1..np} \cap {e \in (1..np) \X (1..np) : e[1] < e[2]}
DagU ==
  IF "dag" \notin Fams THEN {}
  ELSE UNION {{<<"dag", np, E, b>> : E \in {X \in SUBSET AllEdges(np) : \A j \in 2..np : \E i \in 1..(j - 1) : <<i, j>> \in X},
                                    b \in {"none", "trip"}} : np \in 1..MaxPk}

BuildDag(u) ==
  LET np == u[2] E == u[3] b == u[4]
      imp == [p \in 1..np |-> Asc({j \in 1..np : <<p, j>> \in E})]
  IN [np |-> np, imp |-> imp, files |-> [p \in 1..np |-> <<OneFile>>],
      decls |-> [i \in 1..(2 * np + 1) |->
         IF i = 2 * np + 1 THEN Mn(1, "none", <<R("read", 1)>>)
         ELSE LET p == (i + 1) \div 2 IN
              IF i % 2 = 1
              THEN Var(p, 1, "func", IF p = np THEN b ELSE "none", TRUE,
                       [k \in DOMAIN imp[p] |-> R("read", 2 * imp[p][k] - 1)])
              ELSE Ini(p, 1, "none", <<R("read", i - 1)>>)]]

(***************************************************************************)
(* family vars                                                             *)
(***************************************************************************)
VP == << <<1, 2>>, <<1, 3>>, <<2, 1>>, <<2, 3>>, <<3, 1>>, <<3, 2>> >>
VIdx(i, j) == CHOOSE k \in 1..6 : VP[k] = <<i, j>>
VAcyclic(e) ==
  LET E(i, j) == e[VIdx(i, j)] # "n" IN
  /\ \A i, j \in 1..3 : i # j => ~(E(i, j) /\ E(j, i))
  /\ ~(E(1, 2) /\ E(2, 3) /\ E(3, 1))
  /\ ~(E(1, 3) /\ E(3, 2) /\ E(2, 1))
VarsU ==
  IF "vars" \notin Fams THEN {}
  ELSE {u \in {<<"vars", asg, e, z>> : asg \in [1..3 -> 1..2],
                                       e \in {x \in [1..6 -> {"n", "d", "f"}] : VAcyclic(x)},
                                       z \in 0..3} :
          \* a variable without initialiser has no dependencies
          u[4] = 0 \/ \A k \in 1..6 : VP[k][1] = u[4] => u[3][k] = "n"}

BuildVars(u) ==
  LET asg == u[2] e == u[3] z == u[4]
      fks == {k \in 1..6 : e[k] = "f"}
      FIdx(k) == 3 + Cardinality({h \in fks : h <= k})
      nf == Cardinality(fks)
      fseq == Asc(fks)
      VRefs(i) == LET ks == Asc({k \in 1..6 : VP[k][1] = i /\ e[k] # "n"})
                  IN [h \in DOMAIN ks |-> IF e[ks[h]] = "d" THEN R("read", VP[ks[h]][2]) ELSE R("call", FIdx(ks[h]))]
      VarD(i) == IF z = i THEN ZVar(1, asg[i], FALSE)
                 ELSE Var(1, asg[i], IF \E k \in fks : VP[k][1] = i THEN "func" ELSE "direct", "none", FALSE, VRefs(i))
      FnD(h) == LET k == fseq[h] IN
                Fn(1, 3 - asg[VP[k][1]], "none", MethTable[1 + (k % 3)], RkTable[1 + (k % 2)], FALSE,
                   <<R("read", VP[k][2])>>)
  IN [np |-> 1, imp |-> << <<>> >>, files |-> << Pairs[1] >>,
      decls |-> [i \in 1..(3 + nf + 2) |->
         IF i <= 3 THEN VarD(i)
         ELSE IF i <= 3 + nf THEN FnD(i - 3)
         ELSE IF i = 3 + nf + 1 THEN Ini(1, 1, "none", <<R("read", 1), R("read", 2), R("read", 3)>>)
         ELSE Mn(2, "none", <<>>)]]

(***************************************************************************)
(* family inits                                                            *)
(***************************************************************************)
InitsU ==
  IF "inits" \notin Fams THEN {}
  ELSE {<<"inits", pr, n1, n2>> : pr \in DOMAIN Pairs, n1 \in 0..2, n2 \in 0..2}

BuildInits(u) ==
  LET pr == u[2] n1 == u[3] n2 == u[4]
      ds == << Var(1, 1, "direct", "none", FALSE, <<>>), Ini(1, 1, "none", <<>>) >>
            \o << Var(1, 2, "direct", "none", FALSE, <<>>), Ini(1, 2, "none", <<>>), Mn(2, "none", <<>>) >>
            \o << Var(2, 1, "direct", "none", TRUE, <<>>) >> \o [k \in 1..n1 |-> Ini(2, 1, "none", <<>>)]
            \o << Var(2, 2, "direct", "none", TRUE, <<>>) >> \o [k \in 1..n2 |-> Ini(2, 2, "none", <<>>)]
  IN [np |-> 2, imp |-> << <<2>>, <<>> >>, files |-> << Pairs[pr], Pairs[pr] >>, decls |-> ds]

(***************************************************************************)
(* families link and bad                                                   *)
(***************************************************************************)
TKinds == {<<"func", "">>, <<"vmeth", "struct">>, <<"vmeth", "int">>, <<"pmeth", "struct">>, <<"pmeth", "int">>}
LinkU ==
  (IF "link" \notin Fams THEN {}
   ELSE {<<"link", t[1], t[2], rex, iex, dir, blk, "">> :
           t \in TKinds, rex \in BOOLEAN, iex \in BOOLEAN, dir \in {"with", "against", "none"}, blk \in {"none", "trip"}})
  \cup
  (IF "bad" \notin Fams THEN {}
   ELSE {<<"link", "func", "", rex, TRUE, dir, "none", bad>> :
           rex \in BOOLEAN, dir \in {"with", "against"}, bad \in {"var", "nounsafe", "push"}})

BuildLink(u) ==
  LET tk == u[2] rk == u[3] rex == u[4] iex == u[5] dir == u[6] blk == u[7] bad == u[8]
      A == IF dir = "against" THEN 3 ELSE 2          \* declares the reference
      B == IF dir = "against" THEN 2 ELSE 3          \* holds the implementation
      imp == << <<2, 3, 4>>, IF dir = "none" THEN <<>> ELSE <<3>>, <<>>, <<>> >>
      call == IF bad = "" THEN <<R("call", 5)>> ELSE <<>>
  IN [np |-> 4, imp |-> imp, files |-> [p \in 1..4 |-> <<OneFile>>],
      decls |-> <<
        Fn(B, 1, "none", tk, rk, iex, <<>>),          \* 1 decoy, first function/type of B
        Fn(B, 1, blk, tk, rk, iex, <<>>),             \* 2 THE IMPLEMENTATION, second of B
        Fn(4, 1, "none", tk, rk, iex, <<>>),          \* 3 decoy package: the same names
        Fn(4, 1, "none", tk, rk, iex, <<>>),          \* 4
        LRef(A, 1, rex, 2, bad),                      \* 5 the reference
        Fn(A, 1, "none", "func", "", TRUE, call),     \* 6 called from main: reference used inside the declaring package
        Ini(A, 1, "none", call),                      \* 7 reference used during initialisation
        Mn(1, "none", <<R("call", 6)>> \o (IF rex /\ bad = "" THEN <<R("call", 5)>> ELSE <<>>)
                      \o (IF iex THEN <<R("call", 1), R("call", 4)>> ELSE <<>>))
      >>]

(***************************************************************************)
(* family code: a program decoded from a digit string                      *)
(***************************************************************************)
Dg(c, k) == c[1 + ((k % Len(c)))]
NpTable   == <<1, 2, 2, 3, 3, 3, 4, 4, 4, 4>>
KindTable == <<"none", "var", "var", "var", "zvar", "func", "func", "func", "init", "init", "lref">>
BlkTable  == <<"none", "none", "none", "none", "none", "yield", "trip", "srv">>
FkTable   == <<"func", "func", "vmeth", "pmeth">>
Cap(kind) == CASE kind = "var" -> 3 [] kind = "zvar" -> 1 [] kind = "func" -> 3
               [] kind = "init" -> 2 [] kind = "lref" -> 1 [] kind = "main" -> 1

SlotP(n) == 1 + (((n - 1) \div SL) \div 2)
SlotF(n) == 1 + (((n - 1) \div SL) % 2)
SlotS(n) == 1 + ((n - 1) % SL)

Decode(c) ==
  LET np    == Min({NpTable[1 + (Dg(c, 1) % Len(NpTable))], MaxPk})
      ERaw(i, j) == Dg(c, 2 + 5 * i + j) % 2 = 1
      Edge(i, j) == i < j /\ j <= np /\ (ERaw(i, j) \/ (i = j - 1 /\ ~\E h \in 1..(j - 1) : ERaw(h, j)))
      Nf(p)  == 1 + (Dg(c, 30 + p) % 2)
      Files(p) == IF Nf(p) = 1 THEN <<1 + (Dg(c, 40 + p) % NPool)>> ELSE Pairs[1 + (Dg(c, 40 + p) % Len(Pairs))]
      mainF  == 1 + (Dg(c, 50) % Nf(1))
      Slots  == 1..(np * 2 * SL)
      kind   == TLCEval([n \in Slots |->
                  IF SlotF(n) > Nf(SlotP(n)) THEN "none"
                  ELSE IF SlotS(n) = SL THEN (IF SlotP(n) = 1 /\ SlotF(n) = mainF THEN "main" ELSE "none")
                  ELSE KindTable[1 + (Dg(c, 60 + n) % Len(KindTable))]])
      Same(n) == {h \in 1..(n - 1) : SlotP(h) = SlotP(n) /\ kind[h] = kind[n] /\ (kind[n] = "init" => SlotF(h) = SlotF(n))}
      on0    == TLCEval([n \in Slots |-> kind[n] # "none" /\ Cardinality(Same(n)) < Cap(kind[n])])
      pure   == [n \in Slots |-> Dg(c, 200 + n) % 3 = 0]
      LT(n)  == {h \in Slots : on0[h] /\ kind[h] = "func" /\ SlotP(h) \notin {1, SlotP(n)} /\ pure[h]}
      on     == TLCEval([n \in Slots |-> on0[n] /\ (kind[n] = "lref" => LT(n) # {})])
      OnS    == {n \in Slots : on[n]}
      idx    == TLCEval([n \in OnS |-> Cardinality({h \in OnS : h <= n})])
      sty    == [n \in Slots |-> IF Dg(c, 320 + n) % 2 = 0 THEN "direct" ELSE "func"]
      blk    == [n \in Slots |-> BlkTable[1 + (Dg(c, 380 + n) % Len(BlkTable))]]
      fk     == [n \in Slots |-> FkTable[1 + (Dg(c, 440 + n) % Len(FkTable))]]
      rk     == [n \in Slots |-> RkTable[1 + (Dg(c, 500 + n) % 2)]]
      ex     == [n \in Slots |-> Dg(c, 560 + n) % 3 # 0]
      rank   == [n \in Slots |-> ((Dg(c, 620 + n) % 6) * 100) + n]
      HasRefs(x) == \/ kind[x] \in {"init", "main"}
                    \/ kind[x] = "var"
                    \/ kind[x] = "func" /\ ~pure[x]
      Cand(x) == {y \in OnS \ {x} :
                    /\ \/ /\ SlotP(y) = SlotP(x)
                          /\ kind[y] \in {"var", "zvar", "func", "lref"}
                          /\ (kind[x] \in {"var", "func"} /\ kind[y] \in {"var", "func"}) => rank[y] < rank[x]
                       \/ /\ Edge(SlotP(x), SlotP(y))
                          /\ kind[y] \in {"var", "zvar", "func", "lref"}
                          /\ ex[y]
                    /\ (kind[x] = "var" /\ sty[x] = "direct") => kind[y] \in {"var", "zvar"}
                    /\ Dg(c, 700 + 53 * x + y) % 3 = 0}
      RefK(x, y) == CASE kind[y] \in {"var", "zvar"} -> "read"
                      [] kind[y] = "lref" -> "call"
                      [] kind[y] = "func" ->
                           IF fk[y] = "func" /\ SlotP(y) = SlotP(x) /\ Dg(c, 4000 + 53 * x + y) % 4 = 0 THEN "fref" ELSE "call"
      Refs(x) == IF ~HasRefs(x) THEN <<>>
                 ELSE LET cs == Asc(Cand(x)) IN [k \in DOMAIN cs |-> R(RefK(x, cs[k]), idx[cs[k]])]
      Tgt(n)  == LET T == Asc(LT(n)) IN idx[T[1 + (Dg(c, 260 + n) % Len(T))]]
      Decl(n) ==
        CASE kind[n] = "var"  -> Var(SlotP(n), SlotF(n), sty[n], IF sty[n] = "direct" THEN "none" ELSE blk[n], ex[n], Refs(n))
          [] kind[n] = "zvar" -> ZVar(SlotP(n), SlotF(n), ex[n])
          [] kind[n] = "func" -> Fn(SlotP(n), SlotF(n), IF pure[n] /\ blk[n] = "srv" THEN "trip" ELSE blk[n], fk[n], rk[n], ex[n], Refs(n))
          [] kind[n] = "init" -> Ini(SlotP(n), SlotF(n), blk[n], Refs(n))
          [] kind[n] = "main" -> Mn(SlotF(n), blk[n], Refs(n))
          [] kind[n] = "lref" -> LRef(SlotP(n), SlotF(n), ex[n], Tgt(n), "")
      ons == Asc(OnS)
  IN [np |-> np,
      imp |-> [p \in 1..np |-> Asc({j \in 1..np : Edge(p, j)})],
      files |-> [p \in 1..np |-> Files(p)],
      decls |-> [i \in DOMAIN ons |-> Decl(ons[i])]]

CodeU  == IF "code" \notin Fams THEN {} ELSE {<<"code", k>> : k \in DOMAIN Params.codes}
GivenU == IF "given" \notin Fams THEN {} ELSE {<<"given", k>> : k \in DOMAIN Params.given}

(***************************************************************************)
(* units                                                                   *)
(***************************************************************************)
UnitSeq == SetToSeq(DagU) \o SetToSeq(VarsU) \o SetToSeq(InitsU) \o SetToSeq(LinkU) \o SetToSeq(CodeU) \o SetToSeq(GivenU)

Build0(u) ==
  CASE u[1] = "dag"   -> BuildDag(u)
    [] u[1] = "vars"  -> BuildVars(u)
    [] u[1] = "inits" -> BuildInits(u)
    [] u[1] = "link"  -> BuildLink(u)
    [] u[1] = "code"  -> Decode(Params.codes[u[2]])
    [] u[1] = "given" -> Params.given[u[2]]

Build(u) == Prep(Build0(u))

UnitKey(u) ==
  CASE u[1] = "link" -> [tk |-> u[2], rk |-> u[3], rex |-> u[4], iex |-> u[5], dir |-> u[6], blk |-> u[7], bad |-> u[8]]
    [] u[1] = "code" -> [k |-> u[2]]
    [] u[1] = "given" -> [k |-> u[2]]
    [] OTHER -> [k |-> 0]

VARIABLES sid, ph, scen, fo, m
vars == <<sid, ph, scen, fo, m>>

Init == sid \in DOMAIN UnitSeq /\ ph = "new" /\ scen = 0 /\ fo = "" /\ m = 0

Next ==
  \/ /\ ph = "new" /\ ph' = "scen" /\ scen' = Build(UnitSeq[sid]) /\ UNCHANGED <<sid, fo, m>>
  \/ /\ ph = "scen" /\ WellFormed(scen) /\ ~Rejected(scen)
     /\ ph' = "run" /\ fo' \in FileOrders /\ m' = MInit(scen) /\ UNCHANGED <<sid, scen>>
  \/ /\ ph = "run" /\ m' \in MSucc(scen, fo, m) /\ UNCHANGED <<sid, ph, scen, fo>>

Spec == Init /\ [][Next]_vars

(***************************************************************************)
(* what TLC checks                                                         *)
(***************************************************************************)
\* on the definitions, for every well-formed program and both file orders
ScenOK ==
  (ph = "scen" /\ WellFormed(scen) /\ ~Rejected(scen)) =>
     /\ \A f \in FileOrders : \A p \in Pkgs(scen) : LinearExt(scen, p, f) /\ GreedyLeast(scen, p, f)
     /\ \A i \in DOMAIN scen.decls : scen.deps[i] = VarDepsDef(scen, i)
     /\ TopoOrders(scen) # {}
     /\ \A o \in TopoOrders(scen) : o[scen.np] = 1                       \* main is initialised last
     /\ SingleFile(scen) => \A o \in TopoOrders(scen) : RefTrace(scen, "asc", o) = RefTrace(scen, "desc", o)

\* the generators of the enumerated families only produce well-formed programs
FamiliesWF == (ph = "scen" /\ UnitSeq[sid][1] \notin {"code", "given"}) => WellFormed(scen)

\* on the machine
MachOK ==
  ph = "run" => MachineInv(scen, m) /\ MachineRef(scen, fo, m) /\ NotStuck(scen, fo, m)

\* scenario emission (side effects; always TRUE)
OrdersOf(S) == SetToSeq(TopoOrders(S))
ScenRec ==
  LET S == scen
      wf == WellFormed(S)
      ok == wf /\ ~Rejected(S)
      os == IF ok THEN OrdersOf(S) ELSE <<>>
      asc == [k \in DOMAIN os |-> RefTrace(S, "asc", os[k])]
      desc == [k \in DOMAIN os |-> RefTrace(S, "desc", os[k])]
  IN [sid |-> sid, fam |-> UnitSeq[sid][1], key |-> UnitKey(UnitSeq[sid]), wf |-> wf,
      rejected |-> wf /\ Rejected(S), scen |-> S, orders |-> os, asc |-> asc, desc |-> desc]

Emit ==
  /\ ph = "scen" => CSVWrite("%1$s", <<ToJson(ScenRec)>>, OutFile \o "." \o ToString(sid) \o ".ndjson")
  /\ (ph = "run" /\ MDone(scen, m)) => CSVWrite("%1$s", <<ToJson(<<sid, fo, m.porder>>)>>, "term.ndjson")
=============================================================================
