-------------------------------- MODULE Dce --------------------------------
(***************************************************************************)
(* C05 -- dead-code elimination never changes behaviour.                   *)
(*                                                                         *)
(* IMPLEMENTATION-SHAPED PART: the selector of compiler/internal/dce       *)
(* (selector.go) over declarations that carry objectFilter, methodFilter,  *)
(* deps and the alive flag (info.go), one action per critical step:        *)
(*   Include   Selector.Include(decl, implementsLink) for the next         *)
(*             declaration in archive order: alive or unnamed -> pushed on *)
(*             pendingDecls; otherwise an info is registered in byFilter   *)
(*             under its object filter and under its method filter;        *)
(*             implementsLink -> pushed AND registered                     *)
(*   Pop       popPending (LIFO: the last element) + marking it selected   *)
(*   Release   one iteration of `for _, dep := range dce.getDeps()`: the   *)
(*             infos registered under dep are taken out of byFilter, the   *)
(*             matching filter of each is cleared, and an info whose two   *)
(*             filters are both clear is pushed on pendingDecls            *)
(* REFERENCE PART: Alive(G) = least fixpoint of "roots, plus every named   *)
(* declaration all of whose filters occur among the deps of alive          *)
(* declarations"; Needed(P) of DceTopo.tla = run-time reachability.        *)
(*                                                                         *)
(* What TLC checks (cfg: INVARIANT Sound Indexed AtDone Emit; PROPERTY     *)
(* Terminates), per mode of c05_params.json:                               *)
(*  enum      every declaration graph of the configured small space        *)
(*            (graphs are built on demand, <= n declarations over a filter *)
(*            alphabet) x EVERY pop order (popAny) x EVERY dep order       *)
(*            (depAny): the selected set is the least fixpoint (also       *)
(*            against the declarative definition: least of all             *)
(*            pre-fixpoints), hence independent of the orders; closed      *)
(*            under deps; no registered info is ever lost; termination     *)
(*  explicit  graphs handed over by the harness: seeded random graphs of   *)
(*            5-6 declarations (same checks, all orders) and the REAL      *)
(*            declaration graphs of built programs (exact LIFO/sorted-deps *)
(*            model; the selected set is written out and the harness       *)
(*            compares it with what the real selector kept = conformance)  *)
(*  topo      every dispatch topology of DceTopo: Executed <= Needed <=    *)
(*            selected(Compile(P)); scenario + predicted output emitted    *)
(*  vars      package variables: selected iff read or HasSideEffect; the   *)
(*            reference Needed differs exactly on the documented gap F4    *)
(***************************************************************************)
EXTENDS DceTopo, Json, CSV

Params  == JsonDeserialize("c05_params.json")
Mode    == Params.mode
PopAny  == Params.popAny       \* explore every pop order instead of LIFO
DepAny  == Params.depAny       \* explore every order of a declaration's deps instead of the given one
CheckLeast == Params.checkLeast \* evaluate the declarative least-pre-fixpoint definition (2^n subsets)
OutFile == Params.out

(* ----------------------------------------------------------------------- *)
(* Reference: the alive set of a declaration graph                         *)
(* G : Seq([id, of, mf, deps : Seq(STRING), alive, link])                  *)
(* ----------------------------------------------------------------------- *)
Idx(G) == 1..Len(G)
Unnamed(d) == d.of = "" /\ d.mf = ""
IsAliveDecl(d) == d.alive \/ Unnamed(d)                       \* Info.isAlive
Roots(G) == {i \in Idx(G) : IsAliveDecl(G[i]) \/ G[i].link}
DepsOf(G, S) == UNION {Range(G[i].deps) : i \in S}
\* both names of a declaration are depended upon
Released(G, i, D) ==
  /\ ~Unnamed(G[i])
  /\ (G[i].of # "" => G[i].of \in D)
  /\ (G[i].mf # "" => G[i].mf \in D)
Step(G, S) == Roots(G) \cup {i \in Idx(G) : Released(G, i, DepsOf(G, S))}
RECURSIVE Lfp(_, _)
Lfp(G, S) == LET T == Step(G, S) IN IF T = S THEN S ELSE Lfp(G, T)
Alive(G) == Lfp(G, {})
\* declarative: the least set closed under Step
PreFixpoints(G) == {S \in SUBSET Idx(G) : Step(G, S) \subseteq S}
IsLeast(G, A) == A \in PreFixpoints(G) /\ \A S \in PreFixpoints(G) : A \subseteq S
\* every declaration named (completely) by deps of selected declarations is selected
DepClosed(G, A) == \A i \in Idx(G) : Released(G, i, DepsOf(G, A)) => i \in A

Filters(G) == ({G[i].of : i \in Idx(G)} \cup {G[i].mf : i \in Idx(G)}) \ {""}

(* ----------------------------------------------------------------------- *)
(* Graph sources                                                           *)
(* ----------------------------------------------------------------------- *)
\* enum: declaration alphabet over Params.names / Params.mnames
Names  == Range(Params.names)
MNames == Range(Params.mnames)
RootKinds == Range(Params.roots)           \* subset of none | alive | link
NameShapes == {<<"", "">>} \cup {<<a, "">> : a \in Names} \cup {<<a, m>> : a \in Names, m \in MNames}
EnumDecl(sh, deps, rk) ==
  [id |-> "", of |-> sh[1], mf |-> sh[2], deps |-> SetToSeq(deps), alive |-> rk = "alive", link |-> rk = "link"]
EnumDecls == {EnumDecl(sh, deps, rk) : sh \in NameShapes, deps \in SUBSET (Names \cup MNames), rk \in RootKinds}
\* the first declaration is a root (a graph without roots selects nothing)
EnumFirst == {EnumDecl(<<"", "">>, deps, "none") : deps \in SUBSET (Names \cup MNames)}
MaxDecls == Params.n

SeqDeps(G) == [k \in 1..Len(G) |-> [G[k] EXCEPT !.deps = SetToSeq(@)]]

(* ----------------------------------------------------------------------- *)
(* The selector                                                            *)
(* ----------------------------------------------------------------------- *)
VARIABLES sc,        \* scenario: [fam, id, p]
          g,         \* the declaration graph (archive order)
          pc,        \* build | pick | include | pop | release | done
          nxt,       \* next declaration to Include
          pending,   \* Selector.pendingDecls (a stack)
          byFilter,  \* Selector.byFilter: filter name -> sequence of infos (declaration indices)
          rem,       \* declInfo.objectFilter / methodFilter still to be released, per declaration
          selected,  \* dceSelection
          cur,       \* declaration popped last
          todo,      \* its deps not yet looked at
          ref        \* auxiliary: Alive(g), evaluated once when the selector starts
vars == <<sc, g, pc, nxt, pending, byFilter, rem, selected, cur, todo, ref>>

NoRem == [of |-> "", mf |-> ""]
Start(G) ==
  /\ g = G /\ pc = "include" /\ nxt = 1 /\ pending = <<>>
  /\ byFilter = [f \in Filters(G) |-> <<>>]
  /\ rem = [i \in Idx(G) |-> NoRem]
  /\ selected = {} /\ cur = 0 /\ todo = <<>>
  /\ ref = Alive(G)
Idle == /\ g = <<>> /\ nxt = 1 /\ pending = <<>> /\ byFilter = <<>> /\ rem = <<>>
        /\ selected = {} /\ cur = 0 /\ todo = <<>> /\ ref = {}

\* topologies are enumerated in two levels (initial states are computed by one thread):
\* Init fixes (via, where), Pick chooses the rest.  The harness passes the value sets of the
\* dimensions (all of them in the thorough tier, a seeded slice in the quick tier).
VarSpace == {s \in VarParams(Range(Params.varkinds)) : VarOK(s)}
VarGraph(s) ==
  <<[id |-> "Run", of |-> FnF("Run"), mf |-> "", deps |-> IF s.used THEN <<FnF("v")>> ELSE <<>>, alive |-> TRUE, link |-> FALSE],
    [id |-> "var:v", of |-> FnF("v"), mf |-> "", deps |-> <<FnF("v")>>, alive |-> VarRoot(s), link |-> FALSE]>>

Init ==
  CASE Mode = "enum" ->
         /\ sc = [fam |-> "enum", id |-> "", p |-> <<>>]
         /\ g \in {<<d>> : d \in EnumFirst}
         /\ pc = "build" /\ nxt = 1 /\ pending = <<>> /\ byFilter = <<>> /\ rem = <<>>
         /\ selected = {} /\ cur = 0 /\ todo = <<>> /\ ref = {}
    [] Mode = "explicit" ->
         \E k \in DOMAIN Params.graphs :
           /\ sc = [fam |-> "explicit", id |-> Params.graphs[k].id, p |-> <<>>]
           /\ Start(Params.graphs[k].decls)
    [] Mode = "topo" ->
         \E via \in Range(Params.vias), where \in Range(Params.wheres) :
           /\ sc = [fam |-> "topo", id |-> "", p |-> [via |-> via, where |-> where]]
           /\ pc = "pick" /\ Idle
    [] Mode = "vars" ->
         \E s \in VarSpace :
           /\ sc = [fam |-> "vars", id |-> "", p |-> s]
           /\ Start(VarGraph(s))

Pick ==
  /\ pc = "pick"
  /\ \E s \in TopoParams({sc.p.via}, Range(Params.kinds), Range(Params.carriers),
                         Range(Params.d2s), Range(Params.i2s), {sc.p.where}) :
       /\ TopoOK(s)
       /\ LET G == TLCEval(SeqDeps(Compile(Build(s)))) IN
          /\ sc' = [sc EXCEPT !.p = s]
          /\ g' = G /\ pc' = "include"
          /\ byFilter' = [f \in Filters(G) |-> <<>>]
          /\ rem' = [i \in Idx(G) |-> NoRem]
          /\ ref' = Alive(G)
          /\ UNCHANGED <<nxt, pending, selected, cur, todo>>

\* enum: grow the graph by one declaration, or start the selector on it
Build1 ==
  /\ pc = "build" /\ Len(g) < MaxDecls
  /\ \E d \in EnumDecls : g' = Append(g, d)
  /\ UNCHANGED <<sc, pc, nxt, pending, byFilter, rem, selected, cur, todo, ref>>
BuildDone ==
  /\ pc = "build"
  /\ pc' = "include"
  /\ byFilter' = [f \in Filters(g) |-> <<>>]
  /\ rem' = [i \in Idx(g) |-> NoRem]
  /\ ref' = Alive(g)
  /\ UNCHANGED <<sc, g, nxt, pending, selected, cur, todo>>

AddIdx(bf, f, i) == IF f = "" THEN bf ELSE [bf EXCEPT ![f] = Append(@, i)]

Include ==
  /\ pc = "include"
  /\ (IF nxt > Len(g)
      THEN /\ pc' = "pop"
           /\ UNCHANGED <<nxt, pending, byFilter, rem>>
      ELSE LET d == g[nxt] IN
           /\ (IF IsAliveDecl(d)
               THEN /\ pending' = Append(pending, nxt)
                    /\ UNCHANGED <<byFilter, rem>>
               ELSE /\ pending' = (IF d.link THEN Append(pending, nxt) ELSE pending)
                    /\ byFilter' = AddIdx(AddIdx(byFilter, d.of, nxt), d.mf, nxt)
                    /\ rem' = [rem EXCEPT ![nxt] = [of |-> d.of, mf |-> d.mf]])
           /\ nxt' = nxt + 1
           /\ UNCHANGED pc)
  /\ UNCHANGED <<sc, g, selected, cur, todo, ref>>

Without(s, k) == SubSeq(s, 1, k - 1) \o SubSeq(s, k + 1, Len(s))

Pop ==
  /\ pc = "pop"
  /\ (IF pending = <<>>
      THEN /\ pc' = "done"
           /\ UNCHANGED <<pending, selected, cur, todo>>
      ELSE \E k \in (IF PopAny THEN 1..Len(pending) ELSE {Len(pending)}) :
           /\ cur' = pending[k]
           /\ pending' = Without(pending, k)
           /\ selected' = selected \cup {pending[k]}
           /\ todo' = g[pending[k]].deps
           /\ pc' = "release")
  /\ UNCHANGED <<sc, g, nxt, byFilter, rem, ref>>

\* the loop over the infos registered under dep; returns <<rem, pending>>
RECURSIVE RelInfos(_, _, _, _)
RelInfos(infos, dep, r, p) ==
  IF infos = <<>> THEN <<r, p>>
  ELSE LET e  == Head(infos)
           r1 == [of |-> IF r[e].of = dep THEN "" ELSE r[e].of,
                  mf |-> IF r[e].mf = dep THEN "" ELSE r[e].mf]
           \* the two-filter rule: pending only when BOTH names are cleared
           p1 == IF r1.of = "" /\ r1.mf = "" THEN Append(p, e) ELSE p
       IN RelInfos(Tail(infos), dep, TLCEval([r EXCEPT ![e] = r1]), p1)

Release ==
  /\ pc = "release"
  /\ (IF todo = <<>>
      THEN /\ pc' = "pop"
           /\ UNCHANGED <<todo, byFilter, rem, pending>>
      ELSE \E k \in (IF DepAny THEN 1..Len(todo) ELSE {1}) :
           LET dep   == todo[k]
               known == dep \in DOMAIN byFilter
               res   == RelInfos(IF known THEN byFilter[dep] ELSE <<>>, dep, rem, pending)
           IN /\ todo' = Without(todo, k)
              /\ byFilter' = (IF known THEN [byFilter EXCEPT ![dep] = <<>>] ELSE byFilter)   \* delete(s.byFilter, dep)
              /\ rem' = res[1]
              /\ pending' = res[2]
              /\ UNCHANGED pc)
  /\ UNCHANGED <<sc, g, nxt, selected, cur, ref>>

Next == Build1 \/ BuildDone \/ Pick \/ Include \/ Pop \/ Release
Spec == Init /\ [][Next]_vars /\ WF_vars(Next)

(* ----------------------------------------------------------------------- *)
(* Properties of the selector                                              *)
(* ----------------------------------------------------------------------- *)
Running == pc \in {"include", "pop", "release", "done"}

\* nothing is selected or queued that the reference does not call alive
Sound == Running => (selected \subseteq ref /\ Range(pending) \subseteq ref)

\* a registered info is never lost: a name not yet released is still indexed, and a
\* declaration all of whose names were released is queued or selected
Indexed ==
  pc \in {"pop", "release", "done"} =>
    \A i \in Idx(g) :
      ~IsAliveDecl(g[i]) =>
        /\ (rem[i].of # "" => i \in Range(byFilter[rem[i].of]))
        /\ (rem[i].mf # "" => i \in Range(byFilter[rem[i].mf]))
        /\ (rem[i] = NoRem => i \in selected \cup Range(pending))

NeededIdx(P) == {i \in Idx(g) : g[i].id \in Needed(P)}
VarIdx == 2

AtDone ==
  pc = "done" =>
    /\ ref = Alive(g)
    /\ selected = ref                                    \* the least fixpoint, whatever the orders were
    /\ DepClosed(g, selected)
    /\ (CheckLeast => IsLeast(g, selected))
    /\ (sc.fam = "topo" =>
          LET P == Build(sc.p) IN
          /\ Executed(P) \subseteq Needed(P)
          /\ \A n \in Needed(P) : \E i \in Idx(g) : g[i].id = n      \* every needed thing has a declaration
          /\ NeededIdx(P) \subseteq selected)
    /\ (sc.fam = "vars" =>
          /\ (VarIdx \in selected) = VarAlive(sc.p)
          /\ (VarNeeded(sc.p) => (VarIdx \in selected \/ VarGapF4(sc.p))))

Terminates == <>(pc = "done")

(* ----------------------------------------------------------------------- *)
(* Emission (an "invariant" evaluated for its side effect)                 *)
(* ----------------------------------------------------------------------- *)
SelIds == {g[i].id : i \in selected}
Emit ==
  pc = "done" =>
    CASE sc.fam = "explicit" ->
           CSVWrite("%1$s", <<ToJson([id |-> sc.id, sel |-> SetToSeq(selected)])>>, OutFile \o "." \o sc.id \o ".ndjson")
      [] sc.fam = "topo" ->
           LET P == Build(sc.p) IN
           CSVWrite("%1$s", <<ToJson([p |-> sc.p, prog |-> P, out |-> Output(P),
                                      alive |-> SetToSeq(SelIds), needed |-> SetToSeq(Needed(P)),
                                      graph |-> [k \in Idx(g) |-> [id |-> g[k].id, of |-> g[k].of, mf |-> g[k].mf]]])>>,
                    OutFile \o ".topo.ndjson")
      [] sc.fam = "vars" ->
           CSVWrite("%1$s", <<ToJson([p |-> sc.p, out |-> VarOutput(sc.p), end |-> VarEnd(sc.p),
                                      alive |-> VarAlive(sc.p), needed |-> VarNeeded(sc.p), gap |-> VarGapF4(sc.p)])>>,
                    OutFile \o ".vars.ndjson")
      [] OTHER -> TRUE
=============================================================================
