------------------------------ MODULE FloatArith ------------------------------
(***************************************************************************)
(* Reference semantics of Go's float32 / float64 / complex64 / complex128  *)
(* arithmetic, comparisons and conversions (C06), exact.                   *)
(*                                                                         *)
(* Values are those of FloatGrid.tla -- <<"nan",0,0,0>>, <<"inf",s,0,0>>,  *)
(* <<"zero",s,0,0>> -- and finite non-zero numbers                         *)
(*      <<"fin", s, M, e>>  =  (-1)^s * M * 2^e,   M odd,                  *)
(* where M is an UNBOUNDED natural (FloatArithNat.tla: base-2^15 limbs;    *)
(* FloatGrid's own finite values keep M below 2^30 as a TLC integer and    *)
(* are embedded by Big(_); FloatArithScen checks that this module and      *)
(* FloatGrid agree on them).  A complex value is <<"cx", re, im>>.         *)
(*                                                                         *)
(* Every binary64 / binary32 number is such a dyadic rational, and so are  *)
(* exact sums and products of them.  An exact quotient is not: XQuo        *)
(* returns floor(|x/y| * 2^k) for a k that leaves at least p+2 quotient   *)
(* bits, plus the "sticky" fact whether the remainder is non-zero; that is *)
(* all round-to-nearest-even needs, so RoundX gives the correctly rounded  *)
(* quotient by integer comparisons only.  An IEEE 754 operation is the     *)
(* exact result rounded ONCE to the format (RoundX: precision p, gradual   *)
(* underflow to the subnormal grid 2^emin, overflow to infinity when the   *)
(* rounded magnitude exceeds the largest finite number); the special       *)
(* cases (NaN, infinities, signed zeros) are stated explicitly per         *)
(* operator.                                                               *)
(*                                                                         *)
(* What the Go specification leaves open is not decided here:              *)
(*  - float -> integer conversion of NaN, infinities and values whose      *)
(*    truncation the target type cannot represent ("implementation-        *)
(*    dependent"): FlToInt yields <<>> and the expression is excluded;     *)
(*  - x*y + z may be fused: FAlts gives the other permitted results;       *)
(*  - complex multiplication: the spec gives no formula.  CMul is          *)
(*    (ac - bd, ad + bc) with every operation rounded; it is judged only   *)
(*    if the four partial products are exact in the component format --    *)
(*    then every evaluation strategy (fused, wider intermediates) yields   *)
(*    the same, correctly rounded value;                                   *)
(*  - complex division: the spec gives no formula either.  CQuo is the     *)
(*    algorithm of the reference implementation (runtime.complex128div,    *)
(*    Smith's method in float64, complex64 via complex128), without fused  *)
(*    operations, for finite operands and a non-zero divisor; division by  *)
(*    zero and non-finite operands are excluded ("not specified beyond     *)
(*    IEEE 754").                                                          *)
(* Constant expressions follow the constant rules: exact arithmetic, the   *)
(* value of a typed constant is rounded to its type at every typed         *)
(* operation, there is no negative zero, infinity or NaN (overflow and     *)
(* division by a zero constant do not compile: excluded).                  *)
(***************************************************************************)
EXTENDS FloatGrid, FloatArithNat

FloatTypes == {"f32", "f64"}
ComplexTypes == {"c64", "c128"}
IsF(t) == t \in FloatTypes
IsC(t) == t \in ComplexTypes
IsI(t) == t \in IntTypes
CompOf(t) == IF t = "c64" THEN "f32" ELSE "f64"
CplxOf(t) == IF t = "f32" THEN "c64" ELSE "c128"

\* precision, exponent of the smallest subnormal, exponent of the largest leading bit,
\* width, fraction bits, bias, all-ones exponent field
Fmt(t) == IF t = "f32" THEN [p |-> 24, emin |-> -149, emax |-> 127, w |-> 32, fb |-> 23, bias |-> 127, xmax |-> 255]
          ELSE [p |-> 53, emin |-> -1074, emax |-> 1023, w |-> 64, fb |-> 52, bias |-> 1023, xmax |-> 2047]
F32 == Fmt("f32")
F64 == Fmt("f64")

\* (-1)^s * M * 2^e for any natural M
XNorm(s, M, e) == IF M = <<>> THEN Zero0(s) ELSE LET tz == NTz(M) IN <<"fin", s, NShr(M, tz), e + tz>>
XTop(x) == x[4] + NBitLen(x[3]) - 1                  \* exponent of the leading bit
Big(v) == IF IsFin(v) THEN <<"fin", v[2], NFromInt(v[3]), v[4]>> ELSE v        \* a FloatGrid value here
Small(x) == IF IsFin(x) THEN <<"fin", x[2], NToInt(x[3]), x[4]>> ELSE x        \* back (M < 2^30)
IsSmall(x) == ~IsFin(x) \/ NBitLen(x[3]) <= 30
XInt(s, n) == XNorm(s, NFromInt(n), 0)
XPow2(s, k) == <<"fin", s, NOne, k>>

(***************************************************************************)
(* Rounding.  The real number to round is v = (-1)^s * (M + d) * 2^e with  *)
(* d = 0 if ~st and 0 < d < 1 if st (sticky: only XQuo produces it, with   *)
(* enough bits in M that at least one is dropped).                         *)
(* q = exponent of the last place of the result: the precision below the   *)
(* leading bit, but not below the subnormal grid.                          *)
(***************************************************************************)
RoundX(f, s, M, e, st) ==
  LET top == e + NBitLen(M) - 1
      q0 == top - f.p + 1
      q == IF q0 < f.emin THEN f.emin ELSE q0
      drop == q - e
  IN IF drop <= 0
     THEN (IF st THEN Assert(FALSE, "RoundX: sticky remainder without a dropped bit")
           ELSE IF top > f.emax THEN Inf(s) ELSE XNorm(s, M, e))
     ELSE LET keep == NShr(M, drop)
              half == NBit(M, drop - 1) = 1                   \* the dropped part is >= half a unit
              rest == st \/ ~NLowZero(M, drop - 1)            \* ... and not exactly half
              up == half /\ (rest \/ NBit(M, drop) = 1)       \* above the midpoint; or a tie and keep is odd
              n == IF up THEN NAdd(keep, NOne) ELSE keep
          IN IF n = <<>> THEN Zero0(s)
             ELSE IF q + NBitLen(n) - 1 > f.emax THEN Inf(s) ELSE XNorm(s, n, q)
RoundTo(f, x) == IF IsFin(x) THEN RoundX(f, x[2], x[3], x[4], FALSE) ELSE x
\* x is a value of the format
Rep(f, x) == ~IsFin(x) \/ (LET top == XTop(x) q0 == top - f.p + 1 IN
                           /\ top <= f.emax /\ x[4] >= f.emin /\ x[4] >= q0)
\* the midpoints of the format: one more bit than it holds
IsMid(f, x) == IsFin(x) /\ ~Rep(f, x) /\ (LET top == XTop(x) q0 == top - f.p + 1
                                              q == IF q0 < f.emin THEN f.emin ELSE q0 IN x[4] = q - 1)

(***************************************************************************)
(* Order (NaN unordered, -0 = +0); same structure as FloatGrid!FCmp.       *)
(***************************************************************************)
XMagCmp(x, y) ==
  LET tx == XTop(x) ty == XTop(y) IN
  IF tx # ty THEN (IF tx < ty THEN -1 ELSE 1)
  ELSE LET e == IF x[4] < y[4] THEN x[4] ELSE y[4] IN NCmp(NShl(x[3], x[4] - e), NShl(y[3], y[4] - e))
FlCmp(x, y) ==        \* -1, 0, 1, or 2 = unordered
  IF IsNaNV(x) \/ IsNaNV(y) THEN 2
  ELSE IF IsZeroV(x) /\ IsZeroV(y) THEN 0
  ELSE IF IsZeroV(x) THEN (IF y[2] = 1 THEN 1 ELSE -1)
  ELSE IF IsZeroV(y) THEN (IF x[2] = 1 THEN -1 ELSE 1)
  ELSE IF x[2] # y[2] THEN (IF x[2] = 1 THEN -1 ELSE 1)
  ELSE LET m == IF IsInfV(x) /\ IsInfV(y) THEN 0 ELSE IF IsInfV(x) THEN 1 ELSE IF IsInfV(y) THEN -1 ELSE XMagCmp(x, y)
       IN IF x[2] = 0 THEN m ELSE -m
FlRel(op, x, y) ==
  LET c == FlCmp(x, y) IN
  CASE op = "eq" -> c = 0 [] op = "ne" -> c # 0
    [] op = "lt" -> c = -1 [] op = "le" -> c \in {-1, 0}
    [] op = "gt" -> c = 1 [] op = "ge" -> c \in {0, 1}

(***************************************************************************)
(* Exact sum, product, quotient of finite non-zero values                  *)
(***************************************************************************)
\* <<s, M, e>> with M possibly zero (<<>>)
XAdd(x, y) ==
  LET e == IF x[4] < y[4] THEN x[4] ELSE y[4]
      ax == NShl(x[3], x[4] - e)
      ay == NShl(y[3], y[4] - e)
  IN IF x[2] = y[2] THEN <<x[2], NAdd(ax, ay), e>>
     ELSE LET c == NCmp(ax, ay) IN
          IF c = 0 THEN <<0, <<>>, e>>
          ELSE IF c > 0 THEN <<x[2], NSub(ax, ay), e>> ELSE <<y[2], NSub(ay, ax), e>>
SXor(x, y) == IF x[2] = y[2] THEN 0 ELSE 1
XMul(x, y) == <<SXor(x, y), NMul(x[3], y[3]), x[4] + y[4]>>           \* odd * odd: already normal
\* <<s, Q, e, st>>: |x/y| = (Q + d) * 2^e, d = 0 iff ~st, 0 <= d < 1; Q has at least p + 2 bits
XQuoK(f, x, y) == LET d == NBitLen(y[3]) - NBitLen(x[3]) + f.p + 3 IN IF d < 0 THEN 0 ELSE d
XQuo(f, x, y) ==
  LET k == XQuoK(f, x, y)
      qr == NDivMod(NShl(x[3], k), y[3])
  IN <<SXor(x, y), qr[1], x[4] - y[4] - k, qr[2] # <<>>>>

(***************************************************************************)
(* IEEE 754 operations in format f (operands are values of the format)     *)
(***************************************************************************)
FlNeg(x) == Neg1(x)                                   \* also flips -0/+0; NaN stays NaN
RoundSum(f, r) == IF r[2] = <<>> THEN Zero0(0)         \* exact cancellation: +0 (round to nearest)
                  ELSE RoundX(f, r[1], r[2], r[3], FALSE)
FlAdd(f, x, y) ==
  IF IsNaNV(x) \/ IsNaNV(y) THEN NaN
  ELSE IF IsInfV(x) THEN (IF IsInfV(y) /\ x[2] # y[2] THEN NaN ELSE x)      \* Inf + -Inf
  ELSE IF IsInfV(y) THEN y
  ELSE IF IsZeroV(x) /\ IsZeroV(y) THEN Zero0(IF x[2] = 1 /\ y[2] = 1 THEN 1 ELSE 0)
  ELSE IF IsZeroV(x) THEN y
  ELSE IF IsZeroV(y) THEN x
  ELSE RoundSum(f, XAdd(x, y))
FlSub(f, x, y) ==
  IF IsNaNV(x) \/ IsNaNV(y) THEN NaN
  ELSE IF IsInfV(x) THEN (IF IsInfV(y) /\ x[2] = y[2] THEN NaN ELSE x)      \* Inf - Inf
  ELSE IF IsInfV(y) THEN Inf(1 - y[2])
  ELSE IF IsZeroV(x) /\ IsZeroV(y) THEN Zero0(IF x[2] = 1 /\ y[2] = 0 THEN 1 ELSE 0)   \* only -0 - +0 is -0
  ELSE IF IsZeroV(x) THEN <<"fin", 1 - y[2], y[3], y[4]>>
  ELSE IF IsZeroV(y) THEN x
  ELSE RoundSum(f, XAdd(x, <<"fin", 1 - y[2], y[3], y[4]>>))
FlMul(f, x, y) ==
  IF IsNaNV(x) \/ IsNaNV(y) THEN NaN
  ELSE IF (IsInfV(x) /\ IsZeroV(y)) \/ (IsZeroV(x) /\ IsInfV(y)) THEN NaN   \* 0 * Inf
  ELSE IF IsInfV(x) \/ IsInfV(y) THEN Inf(SXor(x, y))
  ELSE IF IsZeroV(x) \/ IsZeroV(y) THEN Zero0(SXor(x, y))
  ELSE LET r == XMul(x, y) IN RoundX(f, r[1], r[2], r[3], FALSE)
FlQuo(f, x, y) ==                                                         \* never panics
  IF IsNaNV(x) \/ IsNaNV(y) THEN NaN
  ELSE IF (IsInfV(x) /\ IsInfV(y)) \/ (IsZeroV(x) /\ IsZeroV(y)) THEN NaN   \* Inf/Inf, 0/0
  ELSE IF IsInfV(x) \/ IsZeroV(y) THEN Inf(SXor(x, y))                      \* Inf/y, x/0
  ELSE IF IsInfV(y) \/ IsZeroV(x) THEN Zero0(SXor(x, y))                    \* x/Inf, 0/y
  ELSE LET r == XQuo(f, x, y) IN RoundX(f, r[1], r[2], r[3], r[4])
FlBin(f, op, x, y) ==
  CASE op = "add" -> FlAdd(f, x, y) [] op = "sub" -> FlSub(f, x, y)
    [] op = "mul" -> FlMul(f, x, y) [] op = "quo" -> FlQuo(f, x, y)
\* fused multiply-add: x*y + z rounded once
FlFma(f, x, y, z) ==
  IF IsFin(x) /\ IsFin(y)
  THEN (IF IsFin(z) THEN LET p == XMul(x, y) IN RoundSum(f, XAdd(<<"fin", p[1], p[2], p[3]>>, z))
        ELSE IF IsZeroV(z) THEN LET p == XMul(x, y) IN RoundX(f, p[1], p[2], p[3], FALSE)
        ELSE z)                                        \* NaN or an infinity: the finite product cannot change it
  ELSE FlAdd(f, FlMul(f, x, y), z)                     \* the product is NaN, infinite or zero: nothing to fuse

(***************************************************************************)
(* Conversions                                                             *)
(***************************************************************************)
NFromBits(v) ==        \* the natural an unsigned bit vector of Bits.tla denotes
  LET w == Len(v) n == (w + LB - 1) \div LB IN
  NTrim(TLCEval([k \in 1..n |-> NatOf(v, LB * (k - 1) + 1, IF LB * k < w THEN LB * k ELSE w)]))
NToBits(n, w) == TLCEval([i \in 1..w |-> NBit(n, i - 1)])
\* integer (bit vector v of integer type t) -> float: rounded once
IntToFl(f, t, v) ==
  LET neg == Signed(t) /\ v[W(t)] = 1
      mag == NFromBits(IF neg THEN Neg(v) ELSE v)
  IN IF mag = <<>> THEN Zero0(0) ELSE RoundX(f, IF neg THEN 1 ELSE 0, mag, 0, FALSE)
IntExact(t, v) ==      \* the integer as an exact value
  LET neg == Signed(t) /\ v[W(t)] = 1 IN XNorm(IF neg THEN 1 ELSE 0, NFromBits(IF neg THEN Neg(v) ELSE v), 0)
\* float -> integer type t: truncation toward zero; <<>> where Go leaves the result open
FlToInt(t, x) ==
  LET w == W(t) IN
  IF IsNaNV(x) \/ IsInfV(x) THEN <<>>
  ELSE IF IsZeroV(x) THEN Zero(w)
  ELSE IF XTop(x) >= w THEN <<>>
  ELSE LET n == IF x[4] >= 0 THEN NShl(x[3], x[4]) ELSE NShr(x[3], -x[4])
           bits == NToBits(n, w)
       IN IF n = <<>> THEN Zero(w)
          ELSE IF ~Signed(t) THEN (IF x[2] = 1 THEN <<>> ELSE bits)
          ELSE IF x[2] = 0 THEN (IF NBitLen(n) <= w - 1 THEN bits ELSE <<>>)
          ELSE (IF NBitLen(n) <= w - 1 \/ n = NPow2(w - 1) THEN Neg(bits) ELSE <<>>)
\* truncation as a value (for the cross-check with FloatGrid!Trunc)
XTrunc(x) == IF ~IsFin(x) \/ x[4] >= 0 THEN x ELSE XNorm(x[2], NShr(x[3], -x[4]), 0)

(***************************************************************************)
(* Complex                                                                 *)
(***************************************************************************)
Cx(re, im) == <<"cx", re, im>>
Excl(why) == <<"excluded", why>>
IsExcl(v) == v[1] = "excluded"
ProdExact(f, u, v) == ~(IsFin(u) /\ IsFin(v)) \/
                      (LET p == XMul(u, v) IN RoundX(f, p[1], p[2], p[3], FALSE) = <<"fin", p[1], p[2], p[3]>>)
CMul(f, x, y) ==
  LET a == x[2] b == x[3] c == y[2] d == y[3] IN
  IF ~(ProdExact(f, a, c) /\ ProdExact(f, b, d) /\ ProdExact(f, a, d) /\ ProdExact(f, b, c))
  THEN Excl("complex_mul_inexact_partial_products")
  ELSE Cx(FlSub(f, FlMul(f, a, c), FlMul(f, b, d)), FlAdd(f, FlMul(f, a, d), FlMul(f, b, c)))
FinOrZero(v) == IsFin(v) \/ IsZeroV(v)
\* runtime.complex128div on finite operands and a non-zero divisor (the final
\* correction of the Go source applies only to NaN+NaNi results of operands outside this domain)
CQuo128(x, y) ==
  LET a == x[2] b == x[3] c == y[2] d == y[3] IN
  IF FlCmp(AbsV(c), AbsV(d)) \in {0, 1}                 \* abs(real(m)) >= abs(imag(m))
  THEN LET ratio == FlQuo(F64, d, c)
           denom == FlAdd(F64, c, FlMul(F64, ratio, d))
       IN Cx(FlQuo(F64, FlAdd(F64, a, FlMul(F64, b, ratio)), denom),
             FlQuo(F64, FlSub(F64, b, FlMul(F64, a, ratio)), denom))
  ELSE LET ratio == FlQuo(F64, c, d)
           denom == FlAdd(F64, d, FlMul(F64, ratio, c))
       IN Cx(FlQuo(F64, FlAdd(F64, FlMul(F64, a, ratio), b), denom),
             FlQuo(F64, FlSub(F64, FlMul(F64, b, ratio), a), denom))
CQuo(t, x, y) ==
  IF ~(FinOrZero(x[2]) /\ FinOrZero(x[3]) /\ FinOrZero(y[2]) /\ FinOrZero(y[3])) THEN Excl("complex_quo_nonfinite_operand")
  ELSE IF IsZeroV(y[2]) /\ IsZeroV(y[3]) THEN Excl("complex_quo_by_zero")
  ELSE LET r == CQuo128(x, y) IN
       IF t = "c128" THEN r ELSE Cx(RoundTo(F32, r[2]), RoundTo(F32, r[3]))      \* complex64(complex128div(...))
CBin(t, op, x, y) ==
  LET f == Fmt(CompOf(t)) IN
  CASE op = "add" -> Cx(FlAdd(f, x[2], y[2]), FlAdd(f, x[3], y[3]))
    [] op = "sub" -> Cx(FlSub(f, x[2], y[2]), FlSub(f, x[3], y[3]))
    [] op = "mul" -> CMul(f, x, y)
    [] op = "quo" -> CQuo(t, x, y)
CEq(x, y) == FlCmp(x[2], y[2]) = 0 /\ FlCmp(x[3], y[3]) = 0

(***************************************************************************)
(* Constant expressions: exact values, no -0 / Inf / NaN                   *)
(***************************************************************************)
KZero == Zero0(0)
\* round an exact value to a typed float constant
KRound(f, x) == LET r == RoundTo(f, x) IN
                IF IsInfV(r) THEN Excl("constant_overflow") ELSE IF IsZeroV(r) THEN KZero ELSE r
KSum(r) == IF r[2] = <<>> THEN KZero ELSE <<"fin", r[1], r[2], r[3]>>
\* exact sum, difference, product of two exact values (zero or finite)
KExact(op, x, y) ==
  CASE op = "add" -> IF IsZeroV(x) THEN y ELSE IF IsZeroV(y) THEN x ELSE KSum(XAdd(x, y))
    [] op = "sub" -> IF IsZeroV(y) THEN x ELSE IF IsZeroV(x) THEN Neg1(y) ELSE KSum(XAdd(x, Neg1(y)))
    [] op = "mul" -> IF IsZeroV(x) \/ IsZeroV(y) THEN KZero ELSE LET p == XMul(x, y) IN <<"fin", p[1], p[2], p[3]>>
\* x op y for exact constant values x, y (typed constants of format f, or untyped
\* constants converted to f): the exact result rounded once
KBin(f, op, x, y) ==
  IF op # "quo" THEN KRound(f, KExact(op, x, y))
  ELSE IF IsZeroV(y) THEN Excl("constant_division_by_zero")
  ELSE IF IsZeroV(x) THEN KZero
  ELSE LET r == XQuo(f, x, y) q == RoundX(f, r[1], r[2], r[3], r[4]) IN
       IF IsInfV(q) THEN Excl("constant_overflow") ELSE IF IsZeroV(q) THEN KZero ELSE q

(***************************************************************************)
(* Expression trees (JSON friendly tuples)                                 *)
(*   <<"var", t, v>>  run-time operand     <<"lit", t, v>>  typed constant *)
(*      v: a float value, <<"cx", re, im>>, or the 16-bit limbs of an      *)
(*      integer (Bits.tla)                                                 *)
(*   <<"bin", op, e1, e2>>   op in add sub mul quo                         *)
(*   <<"asg", op, e1, e2>>   the same as a compound assignment e1 op= e2   *)
(*   <<"cmp", op, e1, e2>>   <<"neg", e>>   <<"conv", t2, e>>              *)
(*   <<"real", e>> <<"imag", e>> <<"cplx", e1, e2>>                        *)
(*   <<"untyped", t, op, u1, u2>>   t(u1 op u2) with untyped constants     *)
(*      u1, u2 (exact values): exact arithmetic, one rounding at the       *)
(*      conversion                                                         *)
(* FEval gives <<type, value>>; the value is <<"excluded", why>> where the *)
(* Go specification does not define a unique result (see the header).      *)
(***************************************************************************)
RECURSIVE FType(_)
FType(e) ==
  CASE e[1] \in {"var", "lit", "conv", "untyped"} -> e[2]
    [] e[1] = "cmp" -> "bool"
    [] e[1] \in {"bin", "asg"} -> FType(e[3])
    [] e[1] = "neg" -> FType(e[2])
    [] e[1] \in {"real", "imag"} -> CompOf(FType(e[2]))
    [] e[1] = "cplx" -> CplxOf(FType(e[2]))
RECURSIVE IsConst(_)
IsConst(e) ==
  CASE e[1] = "lit" -> TRUE
    [] e[1] = "var" -> FALSE
    [] e[1] = "untyped" -> TRUE
    [] e[1] \in {"bin", "cmp"} -> IsConst(e[3]) /\ IsConst(e[4])
    [] e[1] = "asg" -> FALSE
    [] e[1] \in {"neg", "real", "imag"} -> IsConst(e[2])
    [] e[1] = "conv" -> IsConst(e[3])
    [] e[1] = "cplx" -> IsConst(e[2]) /\ IsConst(e[3])

LeafVal(t, v) == IF IsI(t) THEN FromLimbs(v, W(t)) ELSE v
\* conversion to a float or complex type t2 of a value x of type t
ConvVal(t2, t, x) ==
  IF IsF(t2) THEN (IF IsI(t) THEN IntToFl(Fmt(t2), t, x) ELSE RoundTo(Fmt(t2), x))
  ELSE Cx(RoundTo(Fmt(CompOf(t2)), x[2]), RoundTo(Fmt(CompOf(t2)), x[3]))
\* the same for a constant x: the value is rounded, overflow does not compile
KConv(t2, t, x) ==
  IF IsF(t2) THEN (IF IsI(t) THEN KRound(Fmt(t2), IntExact(t, x)) ELSE KRound(Fmt(t2), x))
  ELSE LET r == KRound(Fmt(CompOf(t2)), x[2]) i == KRound(Fmt(CompOf(t2)), x[3]) IN
       IF IsExcl(r) THEN r ELSE IF IsExcl(i) THEN i ELSE Cx(r, i)

\* <<type, value, why>>: why = "" or the reason for which the expression is not judged
\* (v is a float or complex value, or <<"excluded", why>>)
Wrap(t, v) == IF IsExcl(v) THEN <<t, 0, v[2]>> ELSE <<t, v, "">>
Bad(t, why) == <<t, 0, why>>

RECURSIVE FEval(_)
FEval(e) ==
  LET k == IsConst(e) IN
  CASE e[1] \in {"var", "lit"} -> <<e[2], LeafVal(e[2], e[3]), "">>
    [] e[1] \in {"bin", "asg"} ->
         LET x == FEval(e[3]) y == FEval(e[4]) t == x[1] IN
         IF x[3] # "" THEN x ELSE IF y[3] # "" THEN Bad(t, y[3])
         ELSE IF IsF(t) THEN Wrap(t, IF k THEN KBin(Fmt(t), e[2], x[2], y[2]) ELSE FlBin(Fmt(t), e[2], x[2], y[2]))
         ELSE IF k THEN Bad(t, "complex_constant_arithmetic")
         ELSE Wrap(t, CBin(t, e[2], x[2], y[2]))
    [] e[1] = "cmp" ->
         LET x == FEval(e[3]) y == FEval(e[4]) IN
         IF x[3] # "" THEN Bad("bool", x[3]) ELSE IF y[3] # "" THEN Bad("bool", y[3])
         ELSE IF IsC(x[1]) THEN <<"bool", IF e[2] = "eq" THEN CEq(x[2], y[2]) ELSE ~CEq(x[2], y[2]), "">>
         ELSE <<"bool", FlRel(e[2], x[2], y[2]), "">>
    [] e[1] = "neg" ->
         LET x == FEval(e[2]) IN
         IF x[3] # "" THEN x
         ELSE IF IsC(x[1]) THEN (IF k THEN Bad(x[1], "complex_constant_arithmetic") ELSE <<x[1], Cx(FlNeg(x[2][2]), FlNeg(x[2][3])), "">>)
         ELSE <<x[1], IF k /\ IsZeroV(x[2]) THEN KZero ELSE FlNeg(x[2]), "">>      \* -0 as a constant is 0
    [] e[1] = "conv" ->
         LET x == FEval(e[3]) t == x[1] t2 == e[2] IN
         IF x[3] # "" THEN Bad(t2, x[3])
         ELSE IF IsI(t2) /\ IsI(t) THEN <<t2, Conv(x[2], Signed(t), W(t2)), "">>          \* Bits.tla
         ELSE IF IsI(t2) THEN                                                             \* float -> integer
              (IF k /\ IsFin(x[2]) /\ x[2][4] < 0 THEN Bad(t2, "constant_truncated")
               ELSE LET b == FlToInt(t2, x[2]) IN
                    IF b = <<>> THEN Bad(t2, IF k THEN "constant_overflow" ELSE "float_to_int_not_representable")
                    ELSE <<t2, b, "">>)
         ELSE Wrap(t2, IF k THEN KConv(t2, t, x[2]) ELSE ConvVal(t2, t, x[2]))
    [] e[1] = "real" -> LET x == FEval(e[2]) IN IF x[3] # "" THEN Bad(CompOf(x[1]), x[3]) ELSE <<CompOf(x[1]), x[2][2], "">>
    [] e[1] = "imag" -> LET x == FEval(e[2]) IN IF x[3] # "" THEN Bad(CompOf(x[1]), x[3]) ELSE <<CompOf(x[1]), x[2][3], "">>
    [] e[1] = "cplx" -> LET x == FEval(e[2]) y == FEval(e[3]) IN
                        IF x[3] # "" THEN Bad(CplxOf(x[1]), x[3]) ELSE IF y[3] # "" THEN Bad(CplxOf(x[1]), y[3])
                        ELSE <<CplxOf(x[1]), Cx(x[2], y[2]), "">>
    [] e[1] = "untyped" -> Wrap(e[2], KBin(Fmt(e[2]), e[3], e[4], e[5]))

\* further results the Go specification permits for e: x*y +- z fused (root level, float operands)
FAlts(e) ==
  IF e[1] \in {"bin", "asg"} /\ e[2] \in {"add", "sub"} /\ IsF(FType(e)) /\ ~IsConst(e)
  THEN LET f == Fmt(FType(e)) l == e[3] r == e[4]
           mulL == l[1] = "bin" /\ l[2] = "mul" /\ ~IsConst(l)
           mulR == r[1] = "bin" /\ r[2] = "mul" /\ ~IsConst(r)
           sg(v) == IF e[2] = "sub" THEN FlNeg(v) ELSE v
           ok(v) == v[3] = ""
       IN (IF mulL THEN LET a == FEval(l[3]) b == FEval(l[4]) z == FEval(r) IN
                        IF ok(a) /\ ok(b) /\ ok(z) THEN {FlFma(f, a[2], b[2], sg(z[2]))} ELSE {}
           ELSE {})
          \cup
          (IF mulR THEN LET a == FEval(r[3]) b == FEval(r[4]) z == FEval(l) IN
                        IF ok(a) /\ ok(b) /\ ok(z) THEN {FlFma(f, sg(a[2]), b[2], z[2])} ELSE {}
           ELSE {})
  ELSE {}

(***************************************************************************)
(* IEEE 754 bit patterns, as 16-bit limbs (least significant first) like   *)
(* Bits!ToLimbs; NaN (any payload) is <<-1>>.                              *)
(***************************************************************************)
PatNat(f, x) ==
  LET sign == IF x[2] = 1 THEN NPow2(f.w - 1) ELSE <<>> IN
  CASE x[1] = "zero" -> sign
    [] x[1] = "inf" -> NAdd(sign, NShl(NFromInt(f.xmax), f.fb))
    [] x[1] = "fin" ->
         LET top == XTop(x) IN
         IF top >= f.emin + f.fb                                            \* normal: hidden leading bit
         THEN NAdd(sign, NAdd(NShl(NFromInt(top + f.bias - 1), f.fb), NShl(x[3], x[4] - top + f.fb)))
         ELSE NAdd(sign, NShl(x[3], x[4] - f.emin))                         \* subnormal
Limbs16(n, cnt) == [k \in 1..cnt |-> LET s == NShr(n, 16 * (k - 1)) IN (Limb(s, 1) + Limb(s, 2) * NBase) % 65536]
Pat(t, x) == IF IsNaNV(x) THEN <<-1>> ELSE Limbs16(PatNat(Fmt(t), x), Fmt(t).w \div 16)

\* the result of an expression as emitted: a sequence of slots (bit patterns as 16-bit
\* limbs, <<-1>> for NaN, <<0>>/<<1>> for bool); <<"excluded", why>> if not judged.
\* A float32 (each part of a complex64) is given as its binary32 pattern AND as the binary64
\* pattern of the same number, which is what float64(x) must yield: an implementation that
\* computes in double precision and forgets to round shows in the second view only.
ResOf(tv) ==
  LET t == tv[1] v == tv[2] IN
  IF tv[3] # "" THEN <<"excluded", tv[3]>>
  ELSE IF t = "bool" THEN <<<<IF v THEN 1 ELSE 0>>>>
  ELSE IF t = "f32" THEN <<Pat("f32", v), Pat("f64", v)>>
  ELSE IF t = "f64" THEN <<Pat("f64", v)>>
  ELSE IF t = "c64" THEN <<Pat("f32", v[2]), Pat("f32", v[3]), Pat("f64", v[2]), Pat("f64", v[3])>>
  ELSE IF t = "c128" THEN <<Pat("f64", v[2]), Pat("f64", v[3])>>
  ELSE <<ToLimbs(v)>>
FResult(e) == ResOf(FEval(e))
FAltResults(e) == LET t == FType(e) IN {ResOf(<<t, v, "">>) : v \in FAlts(e)} \ {FResult(e)}
=============================================================================
