------------------------- MODULE FloatArithValidate -------------------------
(***************************************************************************)
(* The unbounded naturals of FloatArithNat.tla agree with TLC's integer    *)
(* arithmetic:                                                             *)
(*   limbs of 2 bits: ALL pairs a < 2^8, b < MaxB2 (up to 4 limbs per      *)
(*                    operand, multi-limb divisors and quotients)          *)
(*   limbs of 3 bits: ALL pairs a < 2^9, b < MaxB3                         *)
(*   (MaxB2, MaxB3 = 64, 32 in the quick tier, 256, 128 in the thorough)   *)
(*   limbs of 15 bits (the width FloatArith uses): all pairs of a grid     *)
(*                    around the limb boundaries 2^15 and 2^30             *)
(* and all shift counts for which the result stays below 2^31.  The        *)
(* operators are generic in the limb width, so this is the evidence for    *)
(* the instances FloatArith uses at sizes TLC's integers cannot check;     *)
(* FloatArithScen adds algebraic cross-checks on the operands it really    *)
(* enumerates ((x+y)-y = x, q*y+r = x*2^k, ...).                           *)
(* State = first operand, so that the checks spread over TLC's workers.    *)
(***************************************************************************)
EXTENDS Integers, Sequences, TLC

C2 == INSTANCE FloatArithNatCheck WITH LB <- 2
C3 == INSTANCE FloatArithNatCheck WITH LB <- 3
C15 == INSTANCE FloatArithNatCheck WITH LB <- 15

CONSTANTS MaxB2, MaxB3
VARIABLES a, go
vars == <<a, go>>

\* sums of two stay below 2^31
Grid15 == {0, 1, 2, 3, 7, 255, 32767, 32768, 32769, 46340, 65535, 65536, 65537, 1048575, 16777217,
           715827882, 1073709056, 1073741822, 1073741823}
Pow(n) == 2^n

Agree ==
  go = 1 =>
    /\ (a < 256 => \A b \in 0..(MaxB2 - 1) : C2!Agree(a, b) /\ C2!AgreeLin(b, a))
    /\ (a < 512 => \A b \in 0..(MaxB3 - 1) : C3!Agree(a, b) /\ C3!AgreeLin(b, a))
    /\ (a < 512 => \A n \in 0..21 : C2!AgreeShift(a, n) /\ C3!AgreeShift(a, n) /\ C15!AgreeShift(a, n))
    /\ (a \in Grid15 =>
          /\ \A b \in Grid15 : C15!AgreeLin(a, b) /\ (a <= 46340 /\ b <= 46340 => C15!AgreeMul(a, b))
          /\ \A n \in 0..30 : (a < Pow(30 - n) => C15!AgreeShift(a, n)))

Init == a \in (0..511) \cup Grid15 /\ go = 0
Next == go = 0 /\ go' = 1 /\ UNCHANGED a
Spec == Init /\ [][Next]_vars
=============================================================================
