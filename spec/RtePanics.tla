----------------------------- MODULE RtePanics -----------------------------
(***************************************************************************)
(* Operations that the Go specification says must raise a run-time panic   *)
(* (C08): which error they raise and WHERE in the evaluation order.        *)
(*                                                                         *)
(* An operation kind has n operands; in a scenario every operand is a call *)
(* o_i() that prints "o i" and returns a value that does (trig) or does    *)
(* not make the operation fail.  The language fixes the order of calls     *)
(* (lexical left to right) and, for assignments, evaluates the operands of *)
(* index expressions / pointer indirections on the left and all            *)
(* expressions on the right BEFORE the assignment (and its panic) happens. *)
(* So the prediction is: all operand prints in order, then either the      *)
(* panic of the kind's class (recovered by the scenario, printed as         *)
(* "P code isRuntimeError") followed by nothing else of the statement, or   *)
(* "ok" and the statement's continuation marker "after".                   *)
(*                                                                         *)
(* Kind table: <<name, number of operand calls, error code>>.  Codes are   *)
(* shared with the harness (message clause -> code).                       *)
(***************************************************************************)
EXTENDS Integers, Sequences, TLC, Json, CSV

Kinds == <<
  <<"index_array_read",   2, 1>>,    \* a()[i()]           index out of range
  <<"index_slice_read",   2, 1>>,    \* s()[i()]
  <<"index_string_read",  2, 1>>,    \* str()[i()]
  <<"index_arrptr_nil",   2, 4>>,    \* ap()[i()] with ap() == nil          nil dereference
  <<"index_slice_store",  3, 1>>,    \* s()[i()] = v()      (two-phase assignment)
  <<"index_array_store",  2, 1>>,    \* arr[i()] = v()
  <<"slice_bounds",       3, 2>>,    \* s()[i():j()]        slice bounds out of range
  <<"nil_map_store",      3, 3>>,    \* m()[k()] = v()      assignment to entry in nil map
  <<"nil_ptr_load",       1, 4>>,    \* p().f
  <<"nil_ptr_store",      2, 4>>,    \* p().f = v()
  <<"nil_func_call",      2, 4>>,    \* f()(a())
  <<"int_div_zero",       2, 5>>,    \* a() / b()
  <<"int_rem_zero",       2, 5>>,    \* a() % b()
  <<"assert_single",      1, 6>>,    \* x().(T)             interface conversion
  <<"iface_uncomparable", 2, 7>>,    \* a() == b()          comparing uncomparable type
  <<"make_negative",      1, 8>>,    \* make([]int, n())    makeslice: len out of range
  <<"slice_to_array",     1, 9>>,    \* [4]int(s())         cannot convert slice with length
  <<"close_nil",          1, 10>>,   \* close(c())
  <<"close_closed",       1, 11>>,   \* close(c())
  <<"send_closed",        2, 12>>    \* c() <- v()
>>

Operands(n) == [i \in 1..n |-> <<"o", i>>]

\* what one scenario prints
Predict(k, trig) ==
  Operands(Kinds[k][2]) \o
  (IF trig THEN << <<"P", Kinds[k][3], 1>> >> ELSE << <<"ok">>, <<"after">> >>)

\* ck: how the operands are called.  "direct": calls of package-level functions;
\* "value": calls through function values (which the compiler must treat as
\* possibly suspending the goroutine).  The language makes no difference.
VARIABLES k, trig, ck
vars == <<k, trig, ck>>
Init == k \in 1..Len(Kinds) /\ trig \in BOOLEAN /\ ck \in {"direct", "value"}
Next == UNCHANGED vars
Spec == Init /\ [][Next]_vars

\* sanity of the table: codes identify classes, every kind has operands
TableOK == /\ Kinds[k][2] >= 1 /\ Kinds[k][3] \in 1..12
           /\ Len(Predict(k, trig)) = Kinds[k][2] + (IF trig THEN 1 ELSE 2)
Emit == CSVWrite("%1$s", <<ToJson([kind |-> Kinds[k][1], n |-> Kinds[k][2], code |-> Kinds[k][3], trig |-> trig, ck |-> ck, obs |-> Predict(k, trig)])>>, "rte.ndjson")
=============================================================================
