--------------------------- MODULE ConstraintsScen ---------------------------
(***************************************************************************)
(* Scenario enumeration for C18.  TLC enumerates //go:build expressions of *)
(* depth <= 2 over the vocabulary, crosses every expression with the       *)
(* file-name forms, and writes for every resulting file its name, the text *)
(* of its constraint, the list of the loaded package it must appear in when *)
(* selected / when not selected, and - for every tag environment and every  *)
(* user tag set - whether Constraints!Selected holds (one bit per user tag  *)
(* set).  The harness writes the files into package directories, loads the  *)
(* directories with the real build context of /repo under every             *)
(* (environment, user tag set) and compares the lists.                      *)
(*                                                                         *)
(* && and || are enumerated over UNORDERED pairs of distinct operands; the  *)
(* invariant Algebra checks on every enumerated expression that the operand *)
(* order cannot matter (and De Morgan, double negation), and the parameter  *)
(* flip decides the order in which operands are written.  "!!x" is not Go   *)
(* syntax: negation is applied to tags and to binary expressions only.      *)
(*                                                                         *)
(* Params (c18_params.json, written by the harness):                        *)
(*   voc       sequence of tags (the vocabulary)                            *)
(*   usersets  sequence of user tag sets (each a sequence of tags)          *)
(*   envs      sequence of [std |-> BOOLEAN, goos, goarch]                  *)
(*   mod, salt depth-2 binary expressions (i, j, op) are kept iff           *)
(*             (31 i + 17 j + 7 op + salt) % mod = 0  (mod = 1: all)        *)
(*   xmod      rows k of the "extra" class are kept iff (k + salt) % xmod = 0 *)
(*   nforms    core file-name forms per depth-2 binary expression: the      *)
(*             plain name plus a rotating window of nforms-1 of the eight   *)
(*             suffix forms (9 = all)                                       *)
(*   flip, min concrete syntax (Constraints!Show)                           *)
(*   out       prefix of the output files                                   *)
(*                                                                         *)
(* Output: <out>.env.ndjson (the tag set of every (env, user set), written  *)
(* once, used by the harness for the specification guard) and one           *)
(* <out>.<unit>.ndjson per unit with a line                                 *)
(*   <<text, <<evalmask_env1, ..>>,                                          *)
(*     << <<name, listWhenSelected, listWhenNot, <<mask_env1, ..>>, cgo>>, ..>>>> *)
(* per expression (bit i-1 of a mask: user tag set i; evalmask: Eval of the *)
(* expression, mask: Selected of the file).                                 *)
(***************************************************************************)
EXTENDS Constraints, Json, CSV, SequencesExt

Params == JsonDeserialize("c18_params.json")
OutFile == Params.out
Voc == Params.voc
VocSet == Range(Voc)
NV == Len(Voc)
UserSets == TLCEval([i \in DOMAIN Params.usersets |-> Range(Params.usersets[i])])
NU == Len(UserSets)
Envs == Params.envs
NE == Len(Envs)
FlipOps == Params.flip
MinParens == Params.min

\* TS[e][i]: satisfied tags of environment e with user tag set i
TS == TLCEval([e \in 1..NE |-> [i \in 1..NU |->
         PkgTags(Envs[e].std, [goos |-> Envs[e].goos, goarch |-> Envs[e].goarch], UserSets[i])]])
AllTS == TLCEval({TS[e][i] : e \in 1..NE, i \in 1..NU})
CheckSets == TLCEval(AllTS \cup {{}, VocSet})

----------------------------------------------------------------------------
(* Expressions of depth <= 1 (canonical: operands of a binary operator in   *)
(* vocabulary order).                                                       *)
S1set ==
  {Tag(Voc[i]) : i \in 1..NV} \cup {Not(Tag(Voc[i])) : i \in 1..NV}
  \cup {And(Tag(Voc[p[1]]), Tag(Voc[p[2]])) : p \in {q \in (1..NV) \X (1..NV) : q[1] < q[2]}}
  \cup {Or(Tag(Voc[p[1]]), Tag(Voc[p[2]])) : p \in {q \in (1..NV) \X (1..NV) : q[1] < q[2]}}
S1 == TLCEval(SetToSeq(S1set))
N1 == Len(S1)
IsTag(e) == e[1] = "tag"
IsLit(e) == e[1] = "tag" \/ (e[1] = "not" /\ e[2][1] = "tag")

----------------------------------------------------------------------------
(* File-name forms: [kind, pre, stem ("" = generated), suf, cgo].           *)
F(kind, pre, stem, suf, cgo) == [kind |-> kind, pre |-> pre, stem |-> stem, suf |-> suf, cgo |-> cgo]
G(suf) == F("go", "", "", suf, FALSE)
CoreForms == <<
  G(<<>>), G(<<"js">>), G(<<"linux">>), G(<<"wasm">>), G(<<"amd64">>),
  G(<<"js", "wasm">>), G(<<"linux", "amd64">>), G(<<"js", "ecmascript">>), G(<<"ecmascript">>) >>
ExtraForms == <<
  G(<<"js", "amd64">>), G(<<"linux", "wasm">>), G(<<"wasm", "js">>), G(<<"amd64", "linux">>),
  G(<<"test">>), G(<<"js", "test">>), G(<<"linux", "test">>), G(<<"js", "wasm", "test">>),
  G(<<"unix">>), G(<<"gopherjs">>), G(<<"js", "x">>), G(<<"x", "linux">>), G(<<"linux", "js", "wasm">>),
  G(<<"linux", "ecmascript">>),
  F("go", "_", "", <<>>, FALSE), F("go", ".", "", <<>>, FALSE),
  F("go", "", "", <<>>, TRUE), F("go", "", "", <<"js">>, TRUE),
  F("incjs", "", "", <<>>, FALSE), F("incjs", "", "", <<"linux">>, FALSE), F("incjs", "", "", <<"linux", "amd64">>, FALSE),
  F("incjs", "", "", <<"test">>, FALSE), F("incjs", "_", "", <<>>, FALSE), F("incjs", ".", "", <<>>, FALSE) >>
\* names whose FIRST part is an operating system or architecture (constrains nothing)
StemForms == <<
  F("go", "", "js", <<>>, FALSE), F("go", "", "linux", <<>>, FALSE), F("go", "", "wasm", <<>>, FALSE),
  F("go", "", "js", <<"linux">>, FALSE), F("go", "", "linux", <<"js">>, FALSE), F("go", "", "test", <<>>, FALSE) >>

MkFile(form, stem, e) ==
  [kind |-> form.kind, pre |-> form.pre, parts |-> <<IF form.stem = "" THEN stem ELSE form.stem>> \o form.suf,
   expr |-> e, cgo |-> form.cgo]

----------------------------------------------------------------------------
(* Units and rows.  A unit is <<class, i>>; a row is an integer.  All rows   *)
(* of a unit are successors of one initial state (written by one worker     *)
(* into the unit's own file); the small classes are split into NB buckets.  *)
NoRow == -1
NB == 8
Units == {<<c, b>> : c \in {"d1", "neg", "extra"}, b \in 0..(NB - 1)} \cup {<<"stem", 0>>}
         \cup {<<"bin", i>> : i \in 1..(N1 - 1)}

Keep(i, j, op) == (31 * i + 17 * j + 7 * op + Params.salt) % Params.mod = 0
Rows(u) ==
  CASE u[1] = "d1"    -> {k \in 0..N1 : k % NB = u[2]}                        \* 0: no //go:build line
    [] u[1] = "neg"   -> {k \in 1..N1 : k % NB = u[2] /\ S1[k][1] \in {"and", "or"}}   \* "!!x" is not Go syntax
    [] u[1] = "extra" -> {k \in 1..N1 : k % NB = u[2] /\ (k + Params.salt) % Params.xmod = 0}
    [] u[1] = "stem"  -> {k \in 1..N1 : IsLit(S1[k])}
    [] u[1] = "bin"   -> {2 * j + op : j \in (u[2] + 1)..N1, op \in {0, 1}}
ValidRow(u, r) ==
  u[1] = "bin" => LET j == r \div 2 op == r % 2 IN
                  /\ ~(IsTag(S1[u[2]]) /\ IsTag(S1[j]))          \* that is a depth-1 expression
                  /\ Keep(u[2], j, op)

ExprOf(u, r) ==
  CASE u[1] \in {"d1", "extra", "stem"} -> IF r = 0 THEN NoExpr ELSE S1[r]
    [] u[1] = "neg" -> Not(S1[r])
    [] u[1] = "bin" -> IF r % 2 = 0 THEN And(S1[u[2]], S1[r \div 2]) ELSE Or(S1[u[2]], S1[r \div 2])
NF == Params.nforms
Window(rot) == SelectSeq([k \in 1..Len(CoreForms) |-> k], LAMBDA k : k = 1 \/ ((k - 2 + rot) % 8) < NF - 1)
FormsOf(u, r) ==
  CASE u[1] \in {"d1", "neg"} -> CoreForms
    [] u[1] = "bin" -> IF NF >= 9 THEN CoreForms
                       ELSE LET w == Window((u[2] + r) % 8) IN [k \in 1..Len(w) |-> CoreForms[w[k]]]
    [] u[1] = "extra" -> ExtraForms
    [] u[1] = "stem" -> StemForms
StemOf(u, r) ==
  CASE u[1] = "d1" -> "d" \o ToString(r)
    [] u[1] = "neg" -> "n" \o ToString(r)
    [] u[1] = "extra" -> "e" \o ToString(r)
    [] u[1] = "stem" -> "s" \o ToString(r)
    [] u[1] = "bin" -> "b" \o ToString(u[2]) \o "x" \o ToString(r \div 2) \o (IF r % 2 = 0 THEN "a" ELSE "o")

FilesOf(u, r) == LET fs == FormsOf(u, r) IN TLCEval([k \in DOMAIN fs |-> MkFile(fs[k], StemOf(u, r), ExprOf(u, r))])

----------------------------------------------------------------------------
(* Predictions.  The truth value of the expression (per tag set) and the    *)
(* tags required by the file name are computed once per row / per file and  *)
(* handed to Constraints!SelectedBy; the invariant SelectedAgrees checks on  *)
(* every row that this is Constraints!Selected.                              *)
RECURSIVE MaskFrom(_, _, _, _, _)
MaskFrom(f, ev, req, e, i) ==
  IF i > NU THEN 0
  ELSE (IF SelectedBy(f, TS[e][i], ev[e][i], req) THEN 2^(i-1) ELSE 0) + MaskFrom(f, ev, req, e, i + 1)

RECURSIVE EvMaskFrom(_, _, _)
EvMaskFrom(ev, e, i) == IF i > NU THEN 0 ELSE (IF ev[e][i] THEN 2^(i-1) ELSE 0) + EvMaskFrom(ev, e, i + 1)

TextOf(x) == IF x = NoExpr THEN "" ELSE Show(x, FlipOps, MinParens)
FileRec(f, ev) ==
  LET req == TLCEval(NameReq(f.parts))
  IN <<FileName(f), ListWhen(f, TRUE), ListWhen(f, FALSE), [e \in 1..NE |-> MaskFrom(f, ev, req, e, 1)], f.cgo>>
Rec(u, r) ==
  LET x  == ExprOf(u, r)
      ev == TLCEval([e \in 1..NE |-> TLCEval([i \in 1..NU |-> Eval(x, TS[e][i])])])
      fs == FilesOf(u, r)
  IN <<TextOf(x), [e \in 1..NE |-> EvMaskFrom(ev, e, 1)], [k \in DOMAIN fs |-> FileRec(fs[k], ev)]>>

VARIABLES unit, row
vars == <<unit, row>>
Init == unit \in Units /\ row = NoRow
Next == row = NoRow /\ row' \in Rows(unit) /\ ValidRow(unit, row') /\ UNCHANGED unit
Spec == Init /\ [][Next]_vars

UnitFile(u) == OutFile \o "." \o u[1] \o ToString(u[2]) \o ".ndjson"
Emit == row # NoRow => CSVWrite("%1$s", <<ToJson(Rec(unit, row))>>, UnitFile(unit))

----------------------------------------------------------------------------
(* Properties of the specification itself, checked on every enumerated     *)
(* expression / file.                                                       *)

\* what the emission computes is Constraints!Selected
SelectedAgrees ==
  row # NoRow => LET fs == FilesOf(unit, row) IN
    \A k \in DOMAIN fs : \A T \in AllTS :
      SelectedBy(fs[k], T, Eval(fs[k].expr, T), NameReq(fs[k].parts)) = Selected(fs[k], T)

\* De Morgan, commutativity, double negation on the enumerated expression
Algebra ==
  row # NoRow =>
    LET x == ExprOf(unit, row) IN
    \A T \in CheckSets :
      CASE x[1] = "and" -> /\ Eval(Not(x), T) = Eval(Or(Not(x[2]), Not(x[3])), T)
                           /\ Eval(x, T) = Eval(And(x[3], x[2]), T)
        [] x[1] = "or"  -> /\ Eval(Not(x), T) = Eval(And(Not(x[2]), Not(x[3])), T)
                           /\ Eval(x, T) = Eval(Or(x[3], x[2]), T)
        [] x[1] = "not" -> /\ Eval(Not(x), T) = Eval(x[2], T)
                           /\ (x[2][1] = "and" => Eval(x, T) = Eval(Or(Not(x[2][2]), Not(x[2][3])), T))
                           /\ (x[2][1] = "or"  => Eval(x, T) = Eval(And(Not(x[2][2]), Not(x[2][3])), T))
        [] OTHER -> TRUE

\* adding or removing a tag a file does not mention never changes its selection
\* (checked under the smallest and the largest user tag set of the user, the
\* standard-library and the GOOS/GOARCH-override environment; for the "bin"
\* class on the plain file name only - the small-universe ASSUME below covers
\* every name form under every tag set)
ProbeSets == TLCEval({TS[e][i] : e \in 1..(IF NE >= 3 THEN 3 ELSE NE), i \in {1, NU}})
Independence ==
  row # NoRow =>
    LET fs == FilesOf(unit, row)
        ks == IF unit[1] = "bin" THEN {1} ELSE DOMAIN fs
    IN \A k \in ks : \A x \in (VocSet \cup {"unix"}) \ Mentions(fs[k]) : \A T \in ProbeSets :
         /\ Selected(fs[k], T \cup {x}) = Selected(fs[k], T)
         /\ Selected(fs[k], T \ {x}) = Selected(fs[k], T)

\* the clauses of the property statement that do not depend on the expression
ClauseSets == TLCEval(ProbeSets \cup {{}, VocSet})
Clauses ==
  row # NoRow =>
    LET fs == FilesOf(unit, row) IN
    /\ Depth(ExprOf(unit, row)) <= 2
    /\ \A k \in DOMAIN fs : \A T \in ClauseSets :
         /\ fs[k].cgo => ~Selected(fs[k], T)
         /\ Hidden(fs[k]) => (~Selected(fs[k], T) /\ ListOf(fs[k], T) = "none")
         /\ (fs[k].kind = "incjs" /\ ~Hidden(fs[k])) => (Selected(fs[k], T) /\ ListOf(fs[k], T) = "JSFiles")
         /\ (ListOf(fs[k], T) \in {"GoFiles", "TestGoFiles"}) <=> (fs[k].kind = "go" /\ Selected(fs[k], T))

----------------------------------------------------------------------------
(* The same algebra, exhaustively in a small universe: every expression of  *)
(* depth <= 2 over three tags, every core file-name form, EVERY set of      *)
(* satisfied tags over the universe (not only the environments).            *)
SV == <<"js", "wasm", "u1">>
SU == SUBSET {"js", "wasm", "u1", "linux"}
SS1 == {Tag(SV[i]) : i \in 1..3} \cup {Not(Tag(SV[i])) : i \in 1..3}
       \cup {And(Tag(SV[p[1]]), Tag(SV[p[2]])) : p \in {q \in (1..3) \X (1..3) : q[1] < q[2]}}
       \cup {Or(Tag(SV[p[1]]), Tag(SV[p[2]])) : p \in {q \in (1..3) \X (1..3) : q[1] < q[2]}}
SS2 == SS1 \cup {Not(a) : a \in SS1} \cup {And(a, b) : a \in SS1, b \in SS1} \cup {Or(a, b) : a \in SS1, b \in SS1}
ASSUME \A x \in SS2 : \A T \in SU :
  /\ Eval(Not(Not(x)), T) = Eval(x, T)
  /\ x[1] = "and" => (Eval(Not(x), T) = Eval(Or(Not(x[2]), Not(x[3])), T) /\ Eval(x, T) = Eval(And(x[3], x[2]), T))
  /\ x[1] = "or"  => (Eval(Not(x), T) = Eval(And(Not(x[2]), Not(x[3])), T) /\ Eval(x, T) = Eval(Or(x[3], x[2]), T))
  /\ \A t \in {"js", "wasm", "u1", "linux"} \ TagsOf(x) : Eval(x, T \cup {t}) = Eval(x, T \ {t})
ASSUME \A x \in SS1 : \A k \in DOMAIN CoreForms : \A T \in SU :
  LET f == MkFile(CoreForms[k], "f", x) IN
  /\ Selected(f, T) = (NameOK(f.parts, T) /\ Eval(x, T))
  /\ \A t \in {"js", "wasm", "u1", "linux"} \ Mentions(f) : Selected(f, T \cup {t}) = Selected(f, T \ {t})

----------------------------------------------------------------------------
(* Facts about the tag environment (evaluated once).                        *)
ASSUME Cardinality(ReleaseTags) = SupportedGoMinor
ASSUME "go1.20" \in UserPkgTags(DefaultEnv, {}) /\ "go1.21" \notin UserPkgTags(DefaultEnv, {})
ASSUME "go1.1" \in StdPkgTags(DefaultEnv, {}) /\ "go1.21" \notin StdPkgTags(DefaultEnv, {})
ASSUME \A i \in 1..NU : ("cgo" \in UserPkgTags(DefaultEnv, UserSets[i])) <=> ("cgo" \in UserSets[i])
ASSUME {"js", "ecmascript", "gc", "gopherjs", "netgo", "purego", "math_big_pure_go"} \subseteq UserPkgTags(DefaultEnv, {})
ASSUME "wasm" \notin UserPkgTags(DefaultEnv, {}) /\ "ecmascript" \notin StdPkgTags(DefaultEnv, {})
ASSUME \A g \in {"js", "linux", "windows"}, a \in {"ecmascript", "amd64", "wasm"}, i \in 1..NU :
         StdPkgTags([goos |-> g, goarch |-> a], UserSets[i]) = StdPkgTags(DefaultEnv, UserSets[i])
ASSUME \A i \in 1..NU : StdPkgTags(DefaultEnv, UserSets[i]) \ {"wasm", "ecmascript"} = UserPkgTags(DefaultEnv, UserSets[i]) \ {"wasm", "ecmascript"}
ASSUME "unix" \in UserPkgTags([goos |-> "linux", goarch |-> "amd64"], {}) /\ "unix" \notin UserPkgTags(DefaultEnv, {})

\* the environment table for the harness (specification guard)
ASSUME CSVWrite("%1$s", <<ToJson([e \in 1..NE |-> [i \in 1..NU |-> SetToSeq(TS[e][i])]])>>, OutFile \o ".env.ndjson")
=============================================================================
