---------------------------- MODULE BlockingScen ----------------------------
(***************************************************************************)
(* Scenario enumeration for the call-kind part of C02.                     *)
(*                                                                         *)
(* A scenario is a CALL CHAIN  R -> F0 -k1-> F1 -k2-> ... -kd-> Fd  (d <= 3)*)
(*   ks    the edge kinds k1..kd (Kinds below)                             *)
(*   leaf  what the last function does: "none" or a blocking operation     *)
(*         ("gosched" = a call of y.Y, which calls runtime.Gosched behind  *)
(*         a run-time switch: the only leaf that really suspends)          *)
(*   use   where every caller on the chain uses the result of its call:    *)
(*         stmt | assign | operand | arg | cond | ret | defer              *)
(*   place how the functions are spread over packages main(0) a(1) b(2)    *)
(*         c(3) y(4) runtime(5): same | down (every static edge goes one   *)
(*         package down the import graph) | up (edges through values that  *)
(*         main stores into package variables go UP: callbacks)            *)
(* From it the module builds the call graph of Blocking.tla (the chain     *)
(* functions plus the helpers a kind needs: the second implementation of   *)
(* the interface, both instances of the generic function, the getter, the  *)
(* function with the function-typed parameter, the goroutine literal, the  *)
(* body-less linknamed declaration, y.Y / runtime.Gosched / y.T / y.Pick / *)
(* y.Drain), runs the implementation-shaped analysis on it in every        *)
(* package order (Blocking!Next) and emits, from the initial state, one    *)
(* JSON line:                                                              *)
(*   ks, leaf, use, place,                                                 *)
(*   nodes: <<[n name, p package, k kind, y MayYield, m marked by model]>> *)
(*   out:   the integers the program prints for this scenario              *)
(*   det:   the wrong analyses (Variants) whose unsoundness this call      *)
(*          graph exposes                                                  *)
(* The harness renders the chain as Go (names F<s>_<i>, T<s>_<i>.M, ...),  *)
(* reads Decl.Blocking of every declared function from the real archives   *)
(* (MayYield => Blocking is the verdict; Blocking # m is model drift) and  *)
(* runs the program with the yield switch off and on: both must print out. *)
(*                                                                         *)
(* What every function prints / returns (c = depth + 1, x = argument):     *)
(*   leaf:    print 10c+1; leaf operation; return 2x + c                   *)
(*   caller:  print 10c+1; use CALL(x+1) = r; print 10c+2; return          *)
(*     stmt 3x+c | assign 3r+x+c | operand, arg 5x+2r+T(10c+5)+c (T prints *)
(*     its argument after the call) | cond 3(x+7 or x+9 by parity of r)+c  *)
(*     | ret r+c (no second print) | defer 3x+c (callee runs after 10c+2)  *)
(*   go edge: the callee runs in a new goroutine that waits for the driver *)
(*     (after the root returned) and prints its own result; caller 3x+c    *)
(* Params (c02_blocking_params.json): out, exh_depth (chains up to this    *)
(* depth are enumerated completely by TLC), extra (further scenarios       *)
(* chosen by the harness by VERIF_SEED), kinds/leaves/uses/places.         *)
(***************************************************************************)
EXTENDS Blocking, Json, CSV, SequencesExt

Params   == JsonDeserialize("c02_blocking_params.json")
OutFile  == Params.out
ExhDepth == Params.exh_depth
Kinds    == Range(Params.kinds)
Leaves   == Range(Params.leaves)
Uses     == Range(Params.uses)
Places   == Range(Params.places)

AllKinds == {"direct", "mval", "mptr", "mvalue", "mexpr", "iface", "fvar", "ffield", "felem",
             "fresult", "fparam", "lit", "generic", "go", "link"}
AllLeaves == {"none", "gosched", "send", "recv", "select", "rangechan", "rangetp"}
AllUses == {"stmt", "assign", "operand", "arg", "cond", "ret", "defer"}
ASSUME Kinds \subseteq AllKinds /\ Leaves \subseteq AllLeaves /\ Uses \subseteq AllUses
ASSUME Places \subseteq {"same", "down", "up"}

\* kinds whose callee is reached through a value stored by main: may go up
UpKinds == {"iface", "fvar", "ffield", "felem", "fresult", "fparam"}

Scen(ks, l, u, p) == [ks |-> ks, leaf |-> l, use |-> u, place |-> p]
ExhScens ==
  UNION {{Scen(ks, l, u, p) : ks \in [1..d -> Kinds], l \in Leaves, u \in Uses, p \in Places} : d \in 1..ExhDepth}
ExtraScens == {Scen(Params.extra[i].ks, Params.extra[i].leaf, Params.extra[i].use, Params.extra[i].place) :
                 i \in DOMAIN Params.extra}
Scens == ExhScens \cup ExtraScens

FN  == <<"F0", "F1", "F2", "F3">>
NN  == <<"N1", "N2", "N3">>
GTN == <<"GT1", "GT2", "GT3">>
GNN == <<"GN1", "GN2", "GN3">>
RN  == <<"R1", "R2", "R3">>
PN  == <<"P1", "P2", "P3">>
QN  == <<"Q1", "Q2", "Q3">>
LN  == <<"L1", "L2", "L3">>

Min2(a, b) == IF a < b THEN a ELSE b
Max2(a, b) == IF a > b THEN a ELSE b

RECURSIVE PkgOf(_, _)
PkgOf(s, i) ==
  IF i = 0 THEN (IF s.place = "up" THEN 2 ELSE 1)
  ELSE LET p == PkgOf(s, i - 1)
           k == s.ks[i]
       IN IF k = "lit" THEN p
          ELSE IF k = "link" THEN (IF p < 3 THEN p + 1 ELSE 2)
          ELSE IF s.place = "same" THEN p
          ELSE IF s.place = "down" THEN Min2(p + 1, 3)
          ELSE IF k \in UpKinds THEN Max2(p - 1, 1) ELSE Min2(p + 1, 3)

Depth(s) == Len(s.ks)

\* nodes: records [n, p, k, op]
Node(n, p, k, op) == [n |-> n, p |-> p, k |-> k, op |-> op]

LeafOpOf(s) == IF s.leaf \in {"none", "gosched", "rangetp"} THEN "none" ELSE s.leaf

ChainNodes(s) ==
  {Node(FN[i + 1], PkgOf(s, i),
        IF i > 0 /\ s.ks[i] = "lit" THEN "lit" ELSE "func",
        IF i = Depth(s) THEN LeafOpOf(s) ELSE "none") : i \in 0..Depth(s)}

HelperNodesAt(s, i) ==
  LET k == s.ks[i]
      pc == PkgOf(s, i - 1)   \* package of the caller
      pt == PkgOf(s, i)       \* package of the callee
  IN CASE k = "iface"   -> {Node(NN[i], pt, "func", "none")}
       [] k = "generic" -> {Node(NN[i], pt, "func", "none"), Node(GTN[i], pc, "func", "none"), Node(GNN[i], pc, "func", "none")}
       [] k = "fresult" -> {Node(RN[i], pc, "func", "none")}
       [] k = "fparam"  -> {Node(PN[i], pc, "func", "none")}
       [] k = "go"      -> {Node(QN[i], pc, "lit", "recv")}
       [] k = "link"    -> {Node(LN[i], pc, "bodyless", "none")}
       [] OTHER -> {}

UsesT(s)    == s.use \in {"operand", "arg"} /\ \E i \in 1..Depth(s) : s.ks[i] # "go"
UsesPick(s) == s.use = "arg" /\ \E i \in 1..Depth(s) : s.ks[i] # "go"

GlobalNodes(s) ==
  {Node("R", 0, "func", "none")}
  \cup (IF s.leaf = "gosched" THEN {Node("Y", 4, "func", "none"), Node("Gosched", 5, "func", "recv")} ELSE {})
  \cup (IF s.leaf = "rangetp" THEN {Node("Drain", 4, "func", "rangetp")} ELSE {})
  \cup (IF UsesT(s) THEN {Node("T", 4, "func", "none")} ELSE {})
  \cup (IF UsesPick(s) THEN {Node("Pick", 4, "func", "none")} ELSE {})

NodeRecs(s) == ChainNodes(s) \cup GlobalNodes(s) \cup UNION {HelperNodesAt(s, i) : i \in 1..Depth(s)}

EdgesAt(s, i) ==
  LET a == FN[i]
      b == FN[i + 1]
      k == s.ks[i]
      df == (s.use = "defer")
  IN CASE k \in {"direct", "mval", "mptr", "mexpr", "mvalue", "fvar", "ffield", "felem", "lit"} -> <<Edge(a, {b}, k, df, FALSE)>>
       [] k = "iface"   -> <<Edge(a, {b, NN[i]}, "iface", df, FALSE)>>
       [] k = "fresult" -> <<Edge(a, {RN[i]}, "direct", FALSE, FALSE), Edge(a, {b}, "fresult", df, FALSE)>>
       [] k = "fparam"  -> <<Edge(a, {PN[i]}, "direct", df, FALSE), Edge(PN[i], {b}, "fparam", FALSE, FALSE)>>
       [] k = "generic" -> <<Edge(a, {GTN[i]}, "inst", df, FALSE), Edge(a, {GNN[i]}, "inst", FALSE, FALSE),
                             Edge(GTN[i], {b}, "tpmeth", FALSE, FALSE), Edge(GNN[i], {NN[i]}, "tpmeth", FALSE, FALSE)>>
       [] k = "go"      -> <<Edge(a, {QN[i]}, "lit", FALSE, TRUE), Edge(QN[i], {b}, "direct", FALSE, FALSE)>>
       [] k = "link"    -> <<Edge(a, {LN[i]}, "direct", df, FALSE), Edge(LN[i], {b}, "linkimpl", FALSE, FALSE)>>

UseEdgesAt(s, i) ==   \* helper calls of the caller F(i-1)
  IF s.ks[i] = "go" THEN <<>>
  ELSE (IF s.use \in {"operand", "arg"} THEN <<Edge(FN[i], {"T"}, "direct", FALSE, FALSE)>> ELSE <<>>)
       \o (IF s.use = "arg" THEN <<Edge(FN[i], {"Pick"}, "direct", FALSE, FALSE)>> ELSE <<>>)

RECURSIVE ChainEdges(_, _)
ChainEdges(s, i) == IF i > Depth(s) THEN <<>> ELSE EdgesAt(s, i) \o UseEdgesAt(s, i) \o ChainEdges(s, i + 1)

LeafEdges(s) ==
  LET f == FN[Depth(s) + 1] IN
  CASE s.leaf = "gosched" -> <<Edge(f, {"Y"}, "direct", FALSE, FALSE), Edge("Y", {"Gosched"}, "direct", FALSE, FALSE)>>
    [] s.leaf = "rangetp" -> <<Edge(f, {"Drain"}, "inst", FALSE, FALSE)>>
    [] OTHER -> <<>>

GraphOf(s) ==
  LET recs == NodeRecs(s)
      names == {r.n : r \in recs}
      rec(n) == CHOOSE r \in recs : r.n = n
  IN [nodes  |-> names,
      pkg    |-> TLCEval([n \in names |-> rec(n).p]),
      op     |-> TLCEval([n \in names |-> rec(n).op]),
      kindOf |-> TLCEval([n \in names |-> rec(n).k]),
      edges  |-> <<Edge("R", {"F0"}, "direct", FALSE, FALSE)>> \o ChainEdges(s, 1) \o LeafEdges(s)]

(************************** predicted behaviour ****************************)
RECURSIVE Ev(_, _, _)
Ev(s, i, x) ==
  LET c == i + 1 IN
  IF i = Depth(s) THEN [tr |-> <<10 * c + 1>>, v |-> 2 * x + c, q |-> <<>>]
  ELSE
    LET k == s.ks[i + 1] IN
    IF k = "go" THEN [tr |-> <<10 * c + 1, 10 * c + 2>>, v |-> 3 * x + c, q |-> << <<i + 1, x + 1>> >>]
    ELSE
      LET r == Ev(s, i + 1, x + 1)
          e == <<10 * c + 1>>
          a == <<10 * c + 2>>
          t == 10 * c + 5
      IN CASE s.use = "stmt"   -> [tr |-> e \o r.tr \o a, v |-> 3 * x + c, q |-> r.q]
           [] s.use = "assign" -> [tr |-> e \o r.tr \o a, v |-> 3 * r.v + x + c, q |-> r.q]
           [] s.use \in {"operand", "arg"} -> [tr |-> e \o r.tr \o <<t>> \o a, v |-> 5 * x + 2 * r.v + t + c, q |-> r.q]
           [] s.use = "cond"   -> [tr |-> e \o r.tr \o a, v |-> 3 * (IF r.v % 2 = 0 THEN x + 7 ELSE x + 9) + c, q |-> r.q]
           [] s.use = "ret"    -> [tr |-> e \o r.tr, v |-> r.v + c, q |-> r.q]
           [] s.use = "defer"  -> [tr |-> e \o a \o r.tr, v |-> 3 * x + c, q |-> r.q]

RECURSIVE RunQ(_, _)
RunQ(s, q) ==
  IF q = <<>> THEN <<>>
  ELSE LET r == Ev(s, q[1][1], q[1][2]) IN r.tr \o <<r.v>> \o RunQ(s, Tail(q) \o r.q)

Predicted(s) == LET r == Ev(s, 0, 1) IN r.tr \o <<r.v>> \o RunQ(s, r.q)

(**************** which wrong analyses this graph exposes *******************)
WrongVariants == {"iface_not_blocking", "funcvalue_not_blocking", "one_round", "defer_returns_not_marked",
                  "mexpr_dropped", "rangetp_not_blocking"}
\* the order of the code: import paths sorted (main, runtime, vp/a, vp/b, vp/c, vp/y)
RealOrder == <<0, 5, 1, 2, 3, 4>>
WouldMark(G, v) ==
  IF v = "one_round"
  THEN RoundIn(G, SelectSeq(RealOrder, LAMBDA p : p \in PkgsOf(G)), <<LocalMark(G, "ok"), Tracked(G, "ok"), TRUE>>, 1)[1]
  ELSE ImplFixSet(G, v)
Exposes(G, Y, v) ==
  IF v = "defer_returns_not_marked"
  THEN \E i \in EdgeIdx(G) : G.edges[i].defer /\ G.edges[i].tgt \cap Y # {}
  ELSE ~(Y \subseteq WouldMark(G, v))

Rec(s) ==
  LET G == TLCEval(GraphOf(s))
      Y == TLCEval(MayYieldSet(G))
      M == TLCEval(ImplFixSet(G, "ok"))
      ns == SetToSeq(G.nodes)
  IN [ks |-> s.ks, leaf |-> s.leaf, use |-> s.use, place |-> s.place,
      nodes |-> TLCEval([j \in 1..Len(ns) |-> [n |-> ns[j], p |-> G.pkg[ns[j]], k |-> G.kindOf[ns[j]],
                                        y |-> ns[j] \in Y, m |-> ns[j] \in M]]),
      out |-> Predicted(s),
      det |-> SetToSeq({v \in WrongVariants : Exposes(G, Y, v)})]

(****************************** state machine ******************************)
\* A behaviour starts in phase "start" with a scenario (its JSON line is
\* written from that state); the first step builds the call graph and FORGETS
\* the scenario, so that scenarios with the same call graph (the use sites
\* stmt / assign / cond / ret do not change it) share the rest of the search.
VARIABLE scen
svars == <<scen, g, marked, pend, visited, rdone, rounds, phase, retBlk>>
NoScen == Scen(<<>>, "", "", "")
NoGraph == [nodes |-> {}, pkg |-> <<>>, op |-> <<>>, kindOf |-> <<>>, edges |-> <<>>]

Init == /\ scen \in Scens
        /\ g = NoGraph /\ marked = {} /\ pend = {} /\ visited = {} /\ rdone = TRUE /\ rounds = 1
        /\ phase = "start" /\ retBlk = {}
Start == /\ phase = "start"
         /\ scen' = NoScen
         /\ LET G == TLCEval(GraphOf(scen)) IN
              /\ g' = G
              /\ marked' = LocalMark(G, Variant)
              /\ pend' = Tracked(G, Variant)
         /\ phase' = "round"
         /\ UNCHANGED <<visited, rdone, rounds, retBlk>>
SNext == Start \/ (Next /\ UNCHANGED scen)
Spec == Init /\ [][SNext]_svars

\* side effect: one JSON line per scenario, written from its initial state
\* (initial states are generated and checked by one thread: no interleaving)
Emit == phase = "start" => CSVWrite("%1$s", <<ToJson(Rec(scen))>>, OutFile)
=============================================================================
