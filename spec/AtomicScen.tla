------------------------------ MODULE AtomicScen ------------------------------
(***************************************************************************)
(* Scenario enumeration for the sync/atomic part of C13: ALL histories of  *)
(* length maxlen over the operation alphabet of each cell kind, with the   *)
(* result Atomic.tla predicts for every step.  A state is one history.     *)
(* Emit writes one line per full-length history:                           *)
(*     <<configuration index, op indices, outcomes>>                       *)
(* The harness runs every history on sync/atomic compiled by GopherJS      *)
(* (function form and typed-wrapper form) and, as guard, natively.         *)
(*                                                                         *)
(* Parameters: AtomicCfgs of module C13Params (generated per run):         *)
(*   << [kind |-> ..., maxlen |-> n, ops |-> << <<name, a, b>>, ... >>] >>  *)
(* (boundary operands and VERIF_SEED operands; limb tuples for integer     *)
(* kinds).  Output: c13_atomic.<index>.ndjson                              *)
(***************************************************************************)
EXTENDS Atomic, C13Params, Json, CSV

Cfgs == AtomicCfgs

ASSUME \A i \in 1..Len(Cfgs) : /\ Cfgs[i].kind \in Kinds
                                /\ \A j \in 1..Len(Cfgs[i].ops) : Cfgs[i].ops[j][1] \in AOps

VARIABLES ai, hist, st, prev, outs
vars == <<ai, hist, st, prev, outs>>

K == Cfgs[ai].kind
KMax == Cfgs[ai].maxlen
KOps == Cfgs[ai].ops

Init == /\ ai \in 1..Len(Cfgs)
        /\ hist = <<>> /\ outs = <<>>
        /\ st = InitCell(K) /\ prev = InitCell(K)

Next == /\ Len(hist) < KMax
        /\ \E j \in 1..Len(KOps) :
             LET r == AStep(K, st, KOps[j]) IN
               /\ hist' = Append(hist, j)
               /\ prev' = st
               /\ st' = r.st
               /\ outs' = Append(outs, r.out)
        /\ UNCHANGED ai

Spec == Init /\ [][Next]_vars

(***************************************************************************)
(* Invariants of the specification itself                                  *)
(***************************************************************************)
N == Len(hist)
LastOp == KOps[hist[N]]
LastOut == outs[N]

TypeOK == ATypeOK(K, st) /\ Len(outs) = N

\* wrap-around stated independently of Bits!Add: limb-wise integer addition with carry
RECURSIVE LimbAdd(_, _, _, _)
LimbAdd(a, b, i, c) == IF i > Len(a) THEN <<>>
                       ELSE LET s == a[i] + b[i] + c IN <<s % 65536>> \o LimbAdd(a, b, i + 1, s \div 65536)
AddWraps == K \in IntKinds /\ N > 0 /\ LastOp[1] = "Add" =>
              /\ ToLimbs(st) = LimbAdd(ToLimbs(prev), LastOp[2], 1, 0)
              /\ LastOut = <<AOK>> \o ToLimbs(st)

\* reads do not write; Swap and Load report the previous content; CAS succeeds iff the cell held `old`
ReadsAndSwaps == K \in IntKinds /\ N > 0 =>
  /\ (LastOp[1] = "Load" => st = prev /\ LastOut = <<AOK>> \o ToLimbs(prev))
  /\ (LastOp[1] = "Swap" => ToLimbs(st) = LastOp[2] /\ LastOut = <<AOK>> \o ToLimbs(prev))
  /\ (LastOp[1] = "Store" => ToLimbs(st) = LastOp[2])
  /\ (LastOp[1] = "CAS" => /\ (LastOut = <<AOK, 1>>) = (ToLimbs(prev) = LastOp[2])
                           /\ ToLimbs(st) = (IF ToLimbs(prev) = LastOp[2] THEN LastOp[3] ELSE ToLimbs(prev)))

\* a Value never changes the dynamic type it holds, never holds nil again, and a failed step changes nothing
ValueInv == K = "value" /\ N > 0 =>
  /\ (prev # 0 => st # 0 /\ TypeOfVal(st) = TypeOfVal(prev))
  /\ (LastOut = <<APANIC>> => st = prev)
  /\ (LastOp[1] = "CAS" /\ LastOut = <<AOK, 1>> => prev = LastOp[2] /\ st = LastOp[3])

OutFile(i) == "c13_atomic." \o ToString(i) \o ".ndjson"
Emit == N = KMax => CSVWrite("%1$s", <<ToJson(<<ai, hist, outs>>)>>, OutFile(ai))
=============================================================================
