----------------------------- MODULE GoChanDefs -----------------------------
(***************************************************************************)
(* Operation and result records shared by the reference semantics          *)
(* (GoChan.tla), the forward model (GoChanProg.tla), the trace module      *)
(* (GoChanTrace.tla) and the implementation-shaped model (JSRuntime.tla).  *)
(***************************************************************************)
EXTENDS Integers, Sequences

NoOp  == [k |-> "none", c |-> 0, v |-> 0, offers |-> <<>>, dflt |-> FALSE]
NoRes == [t |-> "none", i |-> 0, v |-> 0, ok |-> FALSE]

\* operations (offers: sequence of <<dir, chan, value>>, dir \in {"s", "r"})
SendOp(c, v)  == [k |-> "send", c |-> c, v |-> v, offers |-> << <<"s", c, v>> >>, dflt |-> FALSE]
RecvOp(c)     == [k |-> "recv", c |-> c, v |-> 0, offers |-> << <<"r", c, 0>> >>, dflt |-> FALSE]
SelOp(offs, d) == [k |-> "sel", c |-> 0, v |-> 0, offers |-> offs, dflt |-> d]
CloseOp(c)    == [k |-> "close", c |-> c, v |-> 0, offers |-> <<>>, dflt |-> FALSE]
LenOp(c)      == [k |-> "len", c |-> c, v |-> 0, offers |-> <<>>, dflt |-> FALSE]
YieldOp       == [k |-> "yield", c |-> 0, v |-> 0, offers |-> <<>>, dflt |-> FALSE]

Ok           == [t |-> "ok", i |-> 0, v |-> 0, ok |-> TRUE]
ValRes(v, b) == [t |-> "val", i |-> 0, v |-> v, ok |-> b]
PanicRes(w)  == [t |-> w, i |-> 0, v |-> 0, ok |-> FALSE]


\* instruction of a goroutine program -> operation (values are distinct per
\* goroutine g, instruction index p and offer i)
WithVals(g, p, offs) == [i \in DOMAIN offs |-> <<offs[i][1], offs[i][2], IF offs[i][1] = "s" THEN g * 100 + p * 10 + i ELSE 0>>]
OpOf(g, p, ins) ==
  CASE ins[1] = "send" -> SendOp(ins[2], g * 100 + p * 10 + 1)
    [] ins[1] \in {"recv", "range"} -> RecvOp(ins[2])
    [] ins[1] = "close" -> CloseOp(ins[2])
    [] ins[1] = "len" -> LenOp(ins[2])
    [] ins[1] = "yield" -> YieldOp
    [] ins[1] = "sel" -> SelOp(WithVals(g, p, ins[2]), ins[3])
=============================================================================
