------------------------------- MODULE Atomic -------------------------------
(***************************************************************************)
(* Sequential specification of sync/atomic cells (C13).                    *)
(*                                                                         *)
(* Integer cells (kinds i32 u32 i64 u64 uptr; uptr is 32 bits wide under   *)
(* GopherJS) hold a bit vector of Bits.tla; Add wraps around modulo 2^w    *)
(* (Bits!Add), so no operation on an integer cell can fail:                *)
(*   Load        -> the value                                              *)
(*   Store(v)    -> nothing                                                *)
(*   Swap(v)     -> the old value                                          *)
(*   Add(d)      -> the NEW value                                          *)
(*   CAS(o, n)   -> whether the cell held o (then it holds n)              *)
(* The same five operations exist as functions on a plain variable         *)
(* (atomic.AddInt32(&x, d)) and as methods of the typed wrappers           *)
(* (atomic.Int32); both forms have this one specification.                 *)
(*                                                                         *)
(* bool and ptr cells (atomic.Bool, atomic.Pointer[T], *Pointer functions) *)
(* hold a small integer (ptr: 0 = nil, 1, 2 = two distinct objects).       *)
(*                                                                         *)
(* A value cell (atomic.Value) holds nil or a value with a dynamic type.   *)
(* Values are ids: 0 = nil, 1, 2 of type int, 3 of type string.            *)
(*   Load        -> the value (nil before the first Store)                 *)
(*   Store(x)    panics if x = nil or type(x) # type(stored)               *)
(*   Swap(x)     the same panics, -> the old value                         *)
(*   CAS(o, n)   panics if n = nil, if o # nil and type(o) # type(n), or   *)
(*               if something is stored and type(n) # type(stored);        *)
(*               otherwise succeeds iff stored = o                         *)
(*                                                                         *)
(* Operations are tuples <<name, a, b>>; for integer cells a and b are     *)
(* limb tuples (16-bit limbs, least significant first, as Bits!ToLimbs),   *)
(* for the other kinds integers.  Outcomes: <<0>> \o results, or <<1>> for *)
(* a panic; integer results are limb tuples flattened into the outcome.    *)
(***************************************************************************)
EXTENDS Bits

IntKinds == {"i32", "u32", "i64", "u64", "uptr"}
Kinds == IntKinds \cup {"bool", "ptr", "value"}

AOK == 0
APANIC == 1

InitCell(k) == IF k \in IntKinds THEN Zero(W(k)) ELSE 0

AR(st, out) == [st |-> st, out |-> out]

IntStep(k, s, op) ==
  LET w == W(k) IN
  CASE op[1] = "Load"  -> AR(s, <<AOK>> \o ToLimbs(s))
    [] op[1] = "Store" -> AR(FromLimbs(op[2], w), <<AOK>>)
    [] op[1] = "Swap"  -> AR(FromLimbs(op[2], w), <<AOK>> \o ToLimbs(s))
    [] op[1] = "Add"   -> LET n == Add(s, FromLimbs(op[2], w)) IN AR(n, <<AOK>> \o ToLimbs(n))
    [] op[1] = "CAS"   -> IF s = FromLimbs(op[2], w) THEN AR(FromLimbs(op[3], w), <<AOK, 1>>) ELSE AR(s, <<AOK, 0>>)

SmallStep(s, op) ==
  CASE op[1] = "Load"  -> AR(s, <<AOK, s>>)
    [] op[1] = "Store" -> AR(op[2], <<AOK>>)
    [] op[1] = "Swap"  -> AR(op[2], <<AOK, s>>)
    [] op[1] = "CAS"   -> IF s = op[2] THEN AR(op[3], <<AOK, 1>>) ELSE AR(s, <<AOK, 0>>)

TypeOfVal(x) == CASE x = 0 -> 0 [] x \in {1, 2} -> 1 [] x = 3 -> 2
ValueStep(s, op) ==
  CASE op[1] = "Load"  -> AR(s, <<AOK, s>>)
    [] op[1] \in {"Store", "Swap"} ->
         LET x == op[2] IN
         IF x = 0 \/ (s # 0 /\ TypeOfVal(x) # TypeOfVal(s)) THEN AR(s, <<APANIC>>)
         ELSE AR(x, IF op[1] = "Swap" THEN <<AOK, s>> ELSE <<AOK>>)
    [] op[1] = "CAS" ->
         LET o == op[2] n == op[3] IN
         IF n = 0 \/ (o # 0 /\ TypeOfVal(o) # TypeOfVal(n)) \/ (s # 0 /\ TypeOfVal(n) # TypeOfVal(s))
         THEN AR(s, <<APANIC>>)
         ELSE IF s = o THEN AR(n, <<AOK, 1>>) ELSE AR(s, <<AOK, 0>>)

AStep(k, s, op) == IF k \in IntKinds THEN IntStep(k, s, op)
                   ELSE IF k = "value" THEN ValueStep(s, op) ELSE SmallStep(s, op)

AOps == {"Load", "Store", "Swap", "Add", "CAS"}

ATypeOK(k, s) == IF k \in IntKinds THEN Len(s) = W(k) /\ \A i \in 1..Len(s) : s[i] \in Bit
                 ELSE IF k = "bool" THEN s \in {0, 1} ELSE IF k = "ptr" THEN s \in 0..2 ELSE s \in 0..3
=============================================================================
