---------------------------- MODULE FloatGridScen ----------------------------
(***************************************************************************)
(* math part of C13: for every function of FloatGrid.tla and every         *)
(* argument tuple over the grid, the exact result as an IEEE 754 bit       *)
(* pattern; and algebraic sanity of the specification itself on every      *)
(* enumerated argument (invariant Sane):                                   *)
(*   Floor(x) <= x < Floor(x)+1, Floor(x) integral, Ceil(x) = -Floor(-x),  *)
(*   Trunc(x) = copysign(Floor|x|, x), Round and RoundToEven pick Floor or *)
(*   Ceil, the rounding functions are idempotent; the parts of Modf sum to *)
(*   x; Ldexp(Frexp(x)) = x with |frac| in [1/2, 1); Dec64(Enc64(x)) = x   *)
(*   and Enc64 is monotone on positive values; |Mod(x,y)| < |y| with the   *)
(*   sign of x, Mod idempotent, 2|Remainder(x,y)| <= |y|, |Remainder| <=   *)
(*   |Mod|; Min <= Max, both among their arguments, both commutative.      *)
(*                                                                         *)
(* One JSON line per (function, first argument):                           *)
(*     << <<fn, args, results>>, ... >>                                    *)
(* args: values <<kind, s, m, e>> or integers <<n>>; results: per result   *)
(* slot a tuple: limbs of the bit pattern (4 limbs binary64, 2 limbs       *)
(* binary32), <<-1>> for NaN, <<n>> for int and bool results.              *)
(* The harness renders arguments as exact Go literals, calls the function  *)
(* in a program compiled by GopherJS (and natively: guard) and prints      *)
(* math.Float64bits of the results.                                        *)
(*                                                                         *)
(* Parameters (C13Params): FloatMants, FloatExps (unary grid), FloatMants2,*)
(* FloatExps2 (binary grid, mantissas < 2^14; FloatMants2Y: mantissas of   *)
(* the second argument), FloatLdexp (exponent arguments), FloatFns.        *)
(* Output: c13_float.<fn>.<part>.ndjson                                    *)
(***************************************************************************)
EXTENDS FloatGrid, C13Params, FiniteSets, Json, CSV, SequencesExt

Specials == {NaN, Inf(0), Inf(1), Zero0(0), Zero0(1)}
FinOf(ms, es) == {v \in {<<"fin", s, m, e>> : s \in {0, 1}, m \in ms, e \in es} : Representable(v)}
UGrid == Specials \cup FinOf(Range(FloatMants), Range(FloatExps))
BGrid == Specials \cup FinOf(Range(FloatMants2), Range(FloatExps2))
\* second arguments of the binary functions (a subset of BGrid in the quick tier)
YGrid == Specials \cup FinOf(Range(FloatMants2Y), Range(FloatExps2))

Fns == Range(FloatFns)
Binary == {"Max", "Min", "Dim", "Mod", "Remainder", "Copysign"}

Pat(v) == IF IsNaNV(v) THEN <<-1>> ELSE ToLimbs(Enc64(v))
Pat32(v) == IF IsNaNV(v) THEN <<-1>> ELSE ToLimbs(Enc32(v))
B(b) == <<IF b THEN 1 ELSE 0>>

\* set of <<args, results>> for first argument x; a Skip result drops the case
Cases(fn, x) ==
  LET un(r) == IF r = Skip THEN {} ELSE {<<<<x>>, <<Pat(r)>>>>} IN
  CASE fn = "Floor" -> un(Floor(x)) [] fn = "Ceil" -> un(Ceil(x)) [] fn = "Trunc" -> un(Trunc(x))
    [] fn = "Round" -> un(Round(x)) [] fn = "RoundToEven" -> un(RoundToEven(x))
    [] fn = "Abs" -> un(Abs(x)) [] fn = "Sqrt" -> un(Sqrt(x))
    [] fn = "Modf" -> {<<<<x>>, <<Pat(ModfInt(x)), Pat(ModfFrac(x))>>>>}
    [] fn = "Frexp" -> {<<<<x>>, <<Pat(FrexpFrac(x)), <<FrexpExp(x)>>>>>>}
    [] fn = "Signbit" -> IF IsNaNV(x) THEN {} ELSE {<<<<x>>, <<B(Signbit(x))>>>>}
    [] fn = "IsNaN" -> {<<<<x>>, <<B(IsNaN(x))>>>>}
    [] fn = "IsInf" -> {<<<<x, <<sg>>>>, <<B(IsInf(x, sg))>>>> : sg \in {-1, 0, 1}}
    [] fn = "Ldexp" -> {<<<<x, <<n>>>>, <<Pat(Ldexp(x, n))>>>> : n \in Range(FloatLdexp)}
    [] fn \in {"Float64bits", "Float64frombits"} -> {<<<<x>>, <<Pat(x)>>>>}
    [] fn = "Float32bits" -> IF Rep32(x) THEN {<<<<x>>, <<Pat32(x)>>>>} ELSE {}
    \* the float32 value converted to float64 is the same number: second slot = its binary64 pattern
    [] fn = "Float32frombits" -> IF Rep32(x) THEN {<<<<x>>, <<Pat32(x), Pat(x)>>>>} ELSE {}
    [] fn = "Max" -> {<<<<x, y>>, <<Pat(FMax(x, y))>>>> : y \in YGrid}
    [] fn = "Min" -> {<<<<x, y>>, <<Pat(FMin(x, y))>>>> : y \in YGrid}
    [] fn = "Dim" -> {<<<<x, y>>, <<Pat(Dim(x, y))>>>> : y \in {z \in YGrid : Dim(x, z) # Skip}}
    [] fn = "Mod" -> {<<<<x, y>>, <<Pat(Mod(x, y))>>>> : y \in YGrid}
    [] fn = "Remainder" -> {<<<<x, y>>, <<Pat(Remainder(x, y))>>>> : y \in YGrid}
    [] fn = "Copysign" -> {<<<<x, y>>, <<Pat(Copysign(x, y))>>>> : y \in YGrid \ {NaN}}

FirstArgs(fn) == IF fn \in Binary THEN BGrid ELSE UGrid

(***************************************************************************)
(* Algebraic sanity                                                        *)
(***************************************************************************)
Integral(v) == ~IsFin(v) \/ v[4] >= 0
\* n + 1 for an integral value of small magnitude (else the value itself: not needed)
SmallInt(v) == IsZeroV(v) \/ (IsFin(v) /\ v[4] >= 0 /\ TopExp(v) < 29)
IntOf(v) == IF IsZeroV(v) THEN 0 ELSE (IF v[2] = 1 THEN -1 ELSE 1) * v[3] * P2(v[4])
OfInt(n) == IF n < 0 THEN FromInt(1, -n) ELSE FromInt(0, n)
Double(v) == IF IsFin(v) THEN <<"fin", v[2], v[3], v[4] + 1>> ELSE v
\* mantissa of v in units of 2^e (v zero, or finite with exponent >= e and small)
Scaled(v, e) == IF IsZeroV(v) THEN 0 ELSE v[3] * P2(v[4] - e)
SameNum(a, b) == a = b \/ (IsZeroV(a) /\ IsZeroV(b))

SaneUnary(x) ==
  /\ \A f \in {"floor", "ceil", "trunc", "round", "even"} :
       /\ Integral(RoundWith(x, f))
       /\ RoundWith(RoundWith(x, f), f) = RoundWith(x, f)
       /\ (~IsFin(x) => RoundWith(x, f) = x)
  /\ (IsFin(x) =>
       /\ FLessEq(Floor(x), x) /\ FLessEq(x, Ceil(x))
       /\ (SmallInt(Floor(x)) => FLess(x, OfInt(IntOf(Floor(x)) + 1)))
       /\ (SmallInt(Ceil(x)) => FLess(OfInt(IntOf(Ceil(x)) - 1), x))
       /\ Ceil(x) = Neg1(Floor(Neg1(x)))
       /\ Trunc(x) = Copysign(Floor(Abs(x)), x)
       /\ SameNum(Trunc(x), IF x[2] = 0 THEN Floor(x) ELSE Ceil(x))
       /\ Round(x) \in {Floor(x), Ceil(x)} /\ RoundToEven(x) \in {Floor(x), Ceil(x)}
       /\ (Round(x) # RoundToEven(x) => SmallInt(RoundToEven(x)) /\ IntOf(RoundToEven(x)) % 2 = 0)
       \* Modf: both parts carry the sign of x, |frac| < 1, and they sum to x
       /\ ModfInt(x)[2] = x[2] /\ ModfFrac(x)[2] = x[2]
       /\ FLess(AbsV(ModfFrac(x)), OfInt(1))
       /\ (x[4] < 0 /\ x[4] >= -30 => Scaled(ModfInt(x), x[4]) + Scaled(ModfFrac(x), x[4]) = x[3])
       /\ (x[4] >= 0 => ModfInt(x) = x /\ IsZeroV(ModfFrac(x)))
       /\ (x[4] < -30 => ModfFrac(x) = x /\ IsZeroV(ModfInt(x)))
       \* Frexp / Ldexp
       /\ TopExp(FrexpFrac(x)) = -1 /\ FrexpFrac(x)[2] = x[2]
       /\ Ldexp(FrexpFrac(x), FrexpExp(x)) = x
       /\ Ldexp(x, 0) = x)
  /\ (~IsNaNV(x) => Dec64(Enc64(x)) = x)
  /\ (Sqrt(x) # Skip /\ IsFin(x) /\ x[2] = 0 => LET r == Sqrt(x) IN r[3] * r[3] = x[3] /\ 2 * r[4] = x[4])

SaneBinary(x, y) ==
  /\ FMax(x, y) = FMax(y, x) /\ FMin(x, y) = FMin(y, x)
  /\ (~IsNaNV(x) /\ ~IsNaNV(y) =>
        /\ FMax(x, y) \in {x, y} /\ FMin(x, y) \in {x, y}
        /\ FLessEq(FMin(x, y), FMax(x, y)) /\ FLessEq(x, FMax(x, y)) /\ FLessEq(FMin(x, y), x))
  /\ (IsFin(x) /\ IsFin(y) =>
        LET mm == Mod(x, y) rr == Remainder(x, y) IN
        /\ mm[2] = x[2] /\ FLess(AbsV(mm), AbsV(y))
        /\ Mod(mm, y) = mm
        /\ FLessEq(Double(AbsV(rr)), AbsV(y))
        /\ FLessEq(AbsV(rr), AbsV(mm))
        /\ (IsZeroV(rr) <=> IsZeroV(mm))
        /\ (FLess(AbsV(x), AbsV(y)) => mm = x)
        /\ (x[2] = 0 /\ y[2] = 0 /\ FLess(x, y) => ULess(Enc64(x), Enc64(y))))     \* the encoding is monotone
  /\ (Dim(x, y) # Skip /\ ~IsNaNV(Dim(x, y)) => Dim(x, y)[2] = 0)

VARIABLES unit, row
vars == <<unit, row>>
NoRow == <<"none", 0, 0, 0>>
NParts == 4
PartOf(set, p) == LET s == SetToSeq(set) IN {s[i] : i \in {j \in 1..Len(s) : j % NParts = p}}

\* unit "sane1" / "sane2": the sanity predicates over the unary / binary grid
Init == /\ unit \in ((Fns \cup {"sane1", "sane2"}) \X (0..NParts-1))
        /\ row = NoRow
Next == /\ row = NoRow
        /\ row' \in PartOf(IF unit[1] = "sane1" THEN UGrid ELSE IF unit[1] = "sane2" THEN BGrid ELSE FirstArgs(unit[1]), unit[2])
        /\ UNCHANGED unit
Spec == Init /\ [][Next]_vars

Sane == row # NoRow =>
          /\ (unit[1] = "sane1" => SaneUnary(row))
          /\ (unit[1] = "sane2" => \A y \in YGrid : SaneBinary(row, y) /\ SaneBinary(y, row))

Recs(fn, x) == LET cs == SetToSeq(Cases(fn, x)) IN [i \in 1..Len(cs) |-> <<fn, cs[i][1], cs[i][2]>>]
Emit == unit[1] \notin {"sane1", "sane2"} /\ row # NoRow /\ Cases(unit[1], row) # {} =>
          CSVWrite("%1$s", <<ToJson(Recs(unit[1], row))>>, "c13_float." \o unit[1] \o "." \o ToString(unit[2]) \o ".ndjson")
=============================================================================
