------------------------------ MODULE DceTopo ------------------------------
(***************************************************************************)
(* Reference part of C05 (dead-code elimination never changes behaviour):  *)
(* a small model of Go programs that is only as rich as DCE needs --       *)
(* "dispatch topologies".  A topology has <= 3 struct/basic/generic types  *)
(* (with methods, embedding by value or pointer, declared at package level *)
(* or inside the function that uses them), <= 2 interfaces, and a list of  *)
(* acts executed by a "holder" (the package's Run function, its init       *)
(* function, a variable initialiser with a side effect, or a function      *)
(* literal stored in a package variable).  Every method body prints one    *)
(* token "<Type>.<name>", so the observable behaviour of a topology is the *)
(* sequence of tokens.                                                     *)
(*                                                                         *)
(* For a topology P this module defines                                    *)
(*   Output(P)   what Go prints (method resolution through embedding,      *)
(*               dynamic dispatch through interfaces),                     *)
(*   Executed(P) the declarations that run,                                *)
(*   Needed(P)   run-time reachability (the reference notion of "alive"):  *)
(*               roots and edges as listed in DESIGN.md section 4/C05,     *)
(*   Compile(P)  the declaration graph (objectFilter, methodFilter, deps,  *)
(*               alive flag) that the compiler's naming scheme             *)
(*               (compiler/internal/dce/filters.go) and its dependency     *)
(*               recording sites (objectName, instName, makeReceiver,      *)
(*               method expressions, local type declarations) produce,     *)
(* and Dce.tla checks Executed <= Needed <= Alive(Compile(P)) for every    *)
(* enumerated topology, where Alive is computed by the model of the real   *)
(* selector.  The harness renders P as a Go package, and compares          *)
(* (a) the program output with Output(P), with and without DCE,            *)
(* (b) the real filters / selection of the method declarations with        *)
(*     Compile(P) / the model's alive set.                                 *)
(*                                                                         *)
(* Second family: package variables and their initialisers (roots by side  *)
(* effect), including initialisers that can only panic (defect F4).        *)
(***************************************************************************)
EXTENDS Integers, Sequences, FiniteSets, TLC, SequencesExt, FiniteSetsExt, Functions

(* ----------------------------------------------------------------------- *)
(* Names.  TLC cannot look inside strings, so exportedness and signature   *)
(* spelling are tables.                                                    *)
(* ----------------------------------------------------------------------- *)
ExportedNames == {"M", "K"}
IsExported(n) == n \in ExportedNames
\* signature identities; the filter spelling is that of filterGen.Signature
SigStr(s) == CASE s = "A" -> "(int32) int32" [] s = "B" -> "()"

Pkg == "p"     \* the package path is a parameter of the harness: it substitutes the real one

(* ----------------------------------------------------------------------- *)
(* Program structure                                                       *)
(*   types : Seq([name, kind in {struct,basic,generic}, embed (""=none),   *)
(*                eptr, local, meths : Seq([name, sig, ptr])])             *)
(*   ifaces: Seq([name, meths : Seq([name, sig]), embed])                  *)
(*   acts  : Seq([op, c, i, n]) op in                                      *)
(*           mk scall mval mexpr defer icall imval imexpr assert anonassert*)
(*           tswitch gcall iembed                                          *)
(*   where : run | init | varinit | closurevar                            *)
(*   hgen  : the holder function is generic (instantiated at int32)        *)
(* ----------------------------------------------------------------------- *)
NoMeths == <<>>
Ty(name, kind, embed, eptr, local, meths) ==
  [name |-> name, kind |-> kind, embed |-> embed, eptr |-> eptr, local |-> local, meths |-> meths]
Me(name, sig, ptr) == [name |-> name, sig |-> sig, ptr |-> ptr]
If(name, meths, embed) == [name |-> name, meths |-> meths, embed |-> embed]
Act(op, c, i, n) == [op |-> op, c |-> c, i |-> i, n |-> n]

TypeOf(P, n) == CHOOSE t \in Range(P.types) : t.name = n
IfaceOf(P, n) == CHOOSE t \in Range(P.ifaces) : t.name = n

RECURSIVE Chain(_, _)
Chain(P, n) == IF n = "" THEN <<>> ELSE <<n>> \o Chain(P, TypeOf(P, n).embed)

Declares(P, tn, mn) == \E m \in Range(TypeOf(P, tn).meths) : m.name = mn
MethOf(P, tn, mn) == CHOOSE m \in Range(TypeOf(P, tn).meths) : m.name = mn

\* the type whose method a selector c.n denotes (Go: shallowest depth; a chain
\* has one type per depth, so no ambiguity arises)
Resolve(P, c, mn) ==
  LET ch == Chain(P, c)
      idx == {k \in 1..Len(ch) : Declares(P, ch[k], mn)}
  IN IF idx = {} THEN "" ELSE ch[Min(idx)]

\* method set of an interface including its embedded interface
RECURSIVE IfaceMeths(_, _)
IfaceMeths(P, i) ==
  LET r == IfaceOf(P, i) IN
  Range(r.meths) \cup (IF r.embed = "" THEN {} ELSE IfaceMeths(P, r.embed))
\* the interface in which method n reachable through i is declared
RECURSIVE IfaceDeclaring(_, _, _)
IfaceDeclaring(P, i, n) ==
  LET r == IfaceOf(P, i) IN
  IF \E m \in Range(r.meths) : m.name = n THEN i ELSE IfaceDeclaring(P, r.embed, n)
IfaceSig(P, i, n) == (CHOOSE m \in IfaceMeths(P, i) : m.name = n).sig

StaticOps == {"scall", "mval", "mexpr", "defer"}
IfaceOps  == {"icall", "imval", "imexpr", "assert", "tswitch", "gcall", "iembed"}
AnonOps   == {"anonassert"}      \* interface written inline: interface{ n(int32) int32 }
CallOps   == StaticOps \cup IfaceOps \cup AnonOps

MethId(t, n) == t \o "." \o n

(* ----------------------------------------------------------------------- *)
(* Go semantics                                                            *)
(* ----------------------------------------------------------------------- *)
ActToken(P, a) ==
  IF a.op = "mk" THEN "mk " \o a.c ELSE MethId(Resolve(P, a.c, a.n), a.n)
Output(P) == [k \in 1..Len(P.acts) |-> ActToken(P, P.acts[k])]
Executed(P) == {MethId(Resolve(P, a.c, a.n), a.n) : a \in {x \in Range(P.acts) : x.op \in CallOps}}

\* static legality as far as the families need it: the selector resolves, and a
\* carrier converted to an interface has all its methods with equal signatures
Legal(P) ==
  \A a \in Range(P.acts) :
    /\ (a.op \in CallOps => Resolve(P, a.c, a.n) # "")
    /\ (a.op \in IfaceOps =>
          \A m \in IfaceMeths(P, a.i) :
            /\ Resolve(P, a.c, m.name) # ""
            /\ MethOf(P, Resolve(P, a.c, m.name), m.name).sig = m.sig)

\* types a value of which exists at run time: carriers and what they embed
Instantiated(P) == UNION {Range(Chain(P, a.c)) : a \in Range(P.acts)}
\* types converted to an interface somewhere in reachable code
Converted(P) == {a.c : a \in {x \in Range(P.acts) : x.op \in IfaceOps \cup AnonOps}}

\* Needed: reachability over run-time edges.
\*  - static selector / method value / method expression / deferred call: the resolved
\*    method (promotion through embedding included)
\*  - interface call on (name, sig): that method of EVERY type converted to an
\*    interface whose method set has it (rapid type analysis; the dynamic type of an
\*    interface value is not tracked)
ActSig(P, a) ==
  IF a.op \in IfaceOps THEN IfaceSig(P, a.i, a.n) ELSE MethOf(P, Resolve(P, a.c, a.n), a.n).sig
NeededMeths(P) ==
  {MethId(Resolve(P, a.c, a.n), a.n) : a \in {x \in Range(P.acts) : x.op \in StaticOps}}
  \cup UNION { {MethId(Resolve(P, t, a.n), a.n) :
                  t \in {u \in Converted(P) : /\ Resolve(P, u, a.n) # ""
                                              /\ MethOf(P, Resolve(P, u, a.n), a.n).sig = ActSig(P, a)}}
               : a \in {x \in Range(P.acts) : x.op \in IfaceOps \cup AnonOps} }
NeededTypes(P) == {"type:" \o t : t \in Instantiated(P)}
Needed(P) == NeededMeths(P) \cup NeededTypes(P) \cup {"holder"}

(* ----------------------------------------------------------------------- *)
(* The compiler's naming scheme and dependency recording                   *)
(* ----------------------------------------------------------------------- *)
HolderName(P) == CASE P.where = "run" -> "Run" [] P.where = "init" -> "init"
                   [] P.where = "varinit" -> "reach" [] P.where = "closurevar" -> "Run"
\* objectFilter of a named type (filterGen.Object): package path, nest, name, type arguments
TF(P, tn) ==
  LET t == TypeOf(P, tn) IN
  Pkg \o "." \o (IF t.local THEN HolderName(P) \o ":" ELSE "") \o tn
      \o (IF t.kind = "generic" THEN "[int32]"
          ELSE IF t.local /\ P.hgen THEN "[int32;]" ELSE "")
IFn(i) == Pkg \o "." \o i
MF(n, s) == Pkg \o "." \o n \o SigStr(s)
FnF(n) == Pkg \o "." \o n

Decl(id, of, mf, deps, alive, link) ==
  [id |-> id, of |-> of, mf |-> mf, deps |-> deps, alive |-> alive, link |-> link]

TypeDecl(P, t) ==
  Decl("type:" \o t.name, TF(P, t.name), "",
       {TF(P, t.name)} \cup (IF t.embed = "" THEN {} ELSE {TF(P, t.embed)}), FALSE, FALSE)
MethDecl(P, t, m) ==
  Decl(MethId(t.name, m.name), TF(P, t.name), IF IsExported(m.name) THEN "" ELSE MF(m.name, m.sig),
       {TF(P, t.name)}, FALSE, FALSE)
IfaceDecl(P, i) ==
  Decl("iface:" \o i.name, IFn(i.name), "",
       {IFn(i.name)} \cup (IF i.embed = "" THEN {} ELSE {IFn(i.embed)}), FALSE, FALSE)

\* dependencies an act leaves in the declaration that contains it
\* (addDep(sel.Obj()): receiver type name + signature name for unexported methods)
MethDep(P, a) ==
  LET r == Resolve(P, a.c, a.n) m == MethOf(P, r, a.n) IN
  {TF(P, r)} \cup (IF IsExported(a.n) THEN {} ELSE {MF(a.n, m.sig)})
IfaceMethDep(P, a) ==
  LET d == IfaceDeclaring(P, a.i, a.n) IN
  {IFn(d)} \cup (IF IsExported(a.n) THEN {} ELSE {MF(a.n, IfaceSig(P, a.i, a.n))})
ActDeps(P, a) ==
  {TF(P, a.c)} \cup
  (CASE a.op = "mk" -> {}
     \* makeReceiver: only unexported selections are recorded (exported methods live with their type)
     [] a.op \in {"scall", "mval", "defer"} -> (IF IsExported(a.n) THEN {} ELSE MethDep(P, a))
     \* method expression: always recorded
     [] a.op = "mexpr" -> MethDep(P, a)
     [] a.op \in {"icall", "imval", "assert", "tswitch", "iembed"} ->
          {IFn(a.i)} \cup (IF IsExported(a.n) THEN {} ELSE IfaceMethDep(P, a))
     [] a.op = "imexpr" -> {IFn(a.i)} \cup IfaceMethDep(P, a)
     \* method of an unnamed interface: no object filter, only the signature name
     [] a.op = "anonassert" ->
          (IF IsExported(a.n) THEN {} ELSE {MF(a.n, MethOf(P, Resolve(P, a.c, a.n), a.n).sig)})
     \* generic helper g[X I](v X) { v.n() } instantiated at *carrier: the call is inside the instance
     [] a.op = "gcall" -> {FnF("g") \o "[*" \o TF(P, a.c) \o "]"})

HolderDeps(P) == UNION {ActDeps(P, P.acts[k]) : k \in 1..Len(P.acts)}

GDecls(P) ==
  LET gs == {a \in Range(P.acts) : a.op = "gcall"} IN
  [k \in 1..Cardinality(gs) |->
     LET a == SetToSeq(gs)[k] IN
     Decl("g:" \o a.c, FnF("g") \o "[*" \o TF(P, a.c) \o "]", "",
          {IFn(a.i)} \cup (IF IsExported(a.n) THEN {} ELSE IfaceMethDep(P, a)), FALSE, FALSE)]

HolderDecls(P) ==
  CASE P.where = "run" -> <<Decl("holder", FnF("Run"), "", HolderDeps(P), TRUE, FALSE)>>
    [] P.where = "init" -> <<Decl("holder", FnF("init"), "", HolderDeps(P), TRUE, FALSE)>>
    \* var V = reach(): the initialiser contains a call => root; reach holds the acts
    [] P.where = "varinit" -> <<Decl("var:V", FnF("V"), "", {FnF("V"), FnF("reach")}, TRUE, FALSE),
                                Decl("holder", FnF("reach"), "", HolderDeps(P), FALSE, FALSE)>>
    \* var F = func() { acts }: no call in the initialiser => not a root; Run calls F()
    [] P.where = "closurevar" -> <<Decl("run", FnF("Run"), "", {FnF("F")}, TRUE, FALSE),
                                   Decl("holder", FnF("F"), "", {FnF("F")} \cup HolderDeps(P), FALSE, FALSE)>>

MethDecls(P) ==
  LET own == UNION {{<<t, m>> : m \in Range(t.meths)} : t \in Range(P.types)}
      s == SetToSeq(own)
  IN [k \in 1..Len(s) |-> MethDecl(P, s[k][1], s[k][2])]

\* deps are kept as sets here; Dce.tla orders them (the real selector iterates them sorted)
Compile(P) ==
  HolderDecls(P)
  \o [k \in 1..Len(P.types) |-> TypeDecl(P, P.types[k])]
  \o [k \in 1..Len(P.ifaces) |-> IfaceDecl(P, P.ifaces[k])]
  \o MethDecls(P) \o GDecls(P)

(* ----------------------------------------------------------------------- *)
(* Family 1: dispatch topologies                                           *)
(* ----------------------------------------------------------------------- *)
Vias     == {"scall", "mval", "mexpr", "defer", "icall", "imval", "imexpr", "assert", "anonassert", "tswitch", "gcall", "iembed"}
Kinds    == {"struct", "basic", "generic"}
Carriers == {"self", "embedval", "embedptr", "localval", "localptr", "localgenval"}
D2s      == {"none", "dead", "alive", "conv", "diffsig"}
I2s      == {"none", "diffsig", "embeds"}
Wheres   == {"run", "init", "varinit", "closurevar"}

TopoParams(vias, kinds, carriers, d2s, i2s, wheres) ==
  [via : vias, exp : BOOLEAN, ptr : BOOLEAN, kind : kinds, carrier : carriers, d2 : d2s, i2 : i2s, where : wheres]

\* Build the topology of a parameter record.
\*  T1   target type with the target method n (sig A)
\*  C    carrier: T1 itself, or a type embedding T1 (package level or local to the holder)
\*  D    distractor type with its own method n
\*  E/J  second interface J{ n() } (sig B) with a type E implementing it
Build(s) ==
  LET n  == IF s.exp THEN "M" ELSE "m"
      T1 == Ty("T1", s.kind, "", FALSE, FALSE, <<Me(n, "A", s.ptr)>>)
      cn == IF s.carrier = "self" THEN "T1" ELSE "C"
      C  == IF s.carrier = "self" THEN <<>>
            ELSE <<Ty("C", "struct", "T1", s.carrier \in {"embedptr", "localptr"},
                      s.carrier \in {"localval", "localptr", "localgenval"}, NoMeths)>>
      D  == CASE s.d2 = "none" -> <<>>
              [] s.d2 \in {"dead", "alive", "conv"} -> <<Ty("D", "struct", "", FALSE, FALSE, <<Me(n, "A", FALSE)>>)>>
              [] s.d2 = "diffsig" -> <<Ty("D", "struct", "", FALSE, FALSE, <<Me(n, "B", FALSE)>>)>>
      E  == IF s.i2 = "diffsig" THEN <<Ty("E", "struct", "", FALSE, FALSE, <<Me(n, "B", FALSE)>>)>> ELSE <<>>
      I1 == If("I1", <<[name |-> n, sig |-> "A"]>>, "")
      J  == CASE s.i2 = "none" -> <<>>
              [] s.i2 = "diffsig" -> <<If("J", <<[name |-> n, sig |-> "B"]>>, "")>>
              [] s.i2 = "embeds" -> <<If("J", <<>>, "I1")>>
      iu == IF s.i2 = "embeds" THEN "J" ELSE "I1"       \* interface the reach goes through
      dacts == (CASE s.d2 \in {"none", "dead"} -> <<>>
                  [] s.d2 = "alive" -> <<Act("mk", "D", "", "")>>
                  [] s.d2 = "conv" -> <<Act("icall", "D", "I1", n)>>
                  [] s.d2 = "diffsig" -> <<Act("scall", "D", "", n)>>)
               \o (IF s.i2 = "diffsig" THEN <<Act("icall", "E", "J", n)>> ELSE <<>>)
      reach == Act(s.via, cn, IF s.via \in IfaceOps THEN iu ELSE "", n)
  IN [types |-> <<T1>> \o C \o D \o E, ifaces |-> <<I1>> \o J, acts |-> dacts \o <<reach>>,
      where |-> s.where, hgen |-> s.carrier = "localgenval", n |-> n]

\* parameter records that denote a Go program worth rendering
TopoOK(s) ==
  /\ (s.carrier \in {"localval", "localptr", "localgenval"} => s.where \in {"run", "varinit"})
  /\ (s.i2 = "embeds" => s.via \in IfaceOps)        \* J is only interesting when the reach uses it
  /\ Legal(Build(s))

(* ----------------------------------------------------------------------- *)
(* Family 2: package variables (roots by side effect)                      *)
(*   kind : what the initialiser is                                        *)
(*   used : the variable is read by Run                                    *)
(*   form : "single" var v = e | "blank" var _ = e | "multi" var v, w = e2 *)
(* ----------------------------------------------------------------------- *)
VarKinds == {"const", "funclit", "mapread", "call", "closurecall", "methodcall", "recv", "convcall", "namedfunccall",
             "assertpanic", "indexpanic", "divpanic", "nilderef", "slicearrpanic"}
\* what evaluating the initialiser does in Go
VarEffect(k) ==
  CASE k \in {"const", "funclit", "mapread"} -> "none"
    [] k \in {"call", "closurecall", "methodcall", "convcall", "namedfunccall"} -> "print"   \* namedfunccall: fv() with fv of a defined function type
    [] k = "recv" -> "recv"                     \* takes the element out of a package-level channel
    [] k \in {"assertpanic", "indexpanic", "divpanic", "nilderef", "slicearrpanic"} -> "panic"
\* analysis.HasSideEffect: a call of a function (not a conversion), or a receive
VarHasCallOrRecv(k) == k \in {"call", "closurecall", "methodcall", "recv", "convcall", "namedfunccall"}
VarForms == {"single", "blank", "multi"}
VarParams(kinds) == [kind : kinds, used : BOOLEAN, form : VarForms]
VarOK(s) ==
  /\ (s.form = "blank" => ~s.used)
  /\ (s.form = "multi" => s.kind \in {"call", "mapread"})   \* var v, w = f2() ; var v, ok = m[k]
\* reference: an initialiser must run iff the variable is read or evaluating it is observable
VarNeeded(s) == s.used \/ VarEffect(s.kind) # "none"
\* implementation (decls.go newVarDecl): root iff several left-hand sides or HasSideEffect
VarRoot(s) == s.form = "multi" \/ VarHasCallOrRecv(s.kind)
VarAlive(s) == s.used \/ VarRoot(s)
\* the documented gap (defect F4): observable only by panicking, no call, not read
VarGapF4(s) == VarNeeded(s) /\ ~VarAlive(s)
\* Go: the initialiser runs before Run; Run prints "run", the channel length for recv,
\* and "used" after reading the variable
VarEnd(s) == IF VarEffect(s.kind) = "panic" THEN "panic" ELSE "exit"
VarOutput(s) ==
  IF VarEffect(s.kind) = "panic" THEN <<>>
  ELSE (IF VarEffect(s.kind) = "print" THEN <<"init">> ELSE <<>>)
       \o <<"run">>
       \o (IF s.kind = "recv" THEN <<"chlen 0">> ELSE <<>>)
       \o (IF s.used THEN <<"used">> ELSE <<>>)
=============================================================================
