#!/usr/bin/env python3
"""Writes /tmp/seed/prompt_<id>.txt for every property: the ONLY text a fault-injecting sub-agent receives
(property statement + sandbox facts + its own scratch worktree; nothing from /verif). See tools/seedwt.sh."""
import json, os, sys
root = os.path.dirname(os.path.dirname(os.path.abspath(__file__)))
tmpl = open(os.path.join(root, 'tools', 'seed_prompt_template.txt')).read()
os.makedirs('/tmp/seed', exist_ok=True)
for l in open(os.path.join(root, 'properties.jsonl')):
    p = json.loads(l)
    open('/tmp/seed/prompt_%s.txt' % p['id'], 'w').write(
        tmpl.replace('{pid}', p['id']).replace('{title}', p['title']).replace('{stmt}', p['statement']))
