#!/bin/bash
# tools/seedwt.sh <Cnn> <k>   creates a scratch worktree /tmp/seed/<Cnn>-<k>/repo of /repo HEAD and prints the
# fault-injector prompt for that property (see DESIGN.md section 11); the sub-agent gets nothing from /verif.
ID="$1"; K="$2"; WT=/tmp/seed/$ID-$K/repo; OUT=/tmp/seed-out/$ID-$K
mkdir -p /tmp/seed/$ID-$K "$OUT"
git -C /repo worktree add -q --detach "$WT" HEAD || exit 2
sed -e "s#{wt}#$WT#g" -e "s#{out}#$OUT#g" /tmp/seed/prompt_$ID.txt
