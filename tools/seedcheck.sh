#!/bin/bash
# tools/seedcheck.sh <seed-out-dir> <seeded-id> <Cnn> [tier...]
# Confirms a seeded change produced by a fault-injecting sub-agent, independently of that agent:
#   fresh scratch worktree of /repo HEAD + patch.diff -> builds (with and without -tags verif), the 777 baseline
#   tests still pass, demo/run.sh differs between the patched worktree and /repo; then runs ./check <Cnn> <tier>
#   against the patched worktree (VERIF_REPO). Writes /verif/seeded/<seeded-id>/{patch.diff,demo,meta.json draft}.
set -u
SRC="$(realpath "$1")"; SID="$2"; PID="$3"; shift 3; TIERS="${*:-quick}"
export GOFLAGS=-mod=mod GOPROXY=off GOSUMDB=off GOTOOLCHAIN=local GOPHERJS_SKIP_VERSION_CHECK=true
ROOT="$(cd "$(dirname "$0")/.." && pwd)"
WT="$(mktemp -d /tmp/verif-seed-XXXXXX)"
git -C /repo worktree add -q --detach "$WT/repo" HEAD || exit 2
cleanup() { git -C /repo worktree remove --force "$WT/repo" 2>/dev/null; git -C /repo worktree remove --force "$WT/orig" 2>/dev/null; rm -rf "$WT"; }
trap cleanup EXIT
git -C "$WT/repo" apply "$SRC/patch.diff" || { echo "patch does not apply"; exit 2; }
(cd "$WT/repo" && go build ./... && go build -tags verif ./...) || { echo "SEED-REJECT: does not build"; exit 3; }
if [ -z "${SEED_SKIP_BASELINE:-}" ]; then
  "$ROOT/tools/baseline.sh" "$WT/repo" | tee "$WT/baseline.txt" | tail -5
  grep -q "777/777" "$WT/baseline.txt" || { echo "SEED-REJECT: baseline tests fail"; exit 3; }
fi
if [ -x "$SRC/demo/run.sh" ]; then
  (cd "$WT/repo" && go build -o "$WT/gopherjs-patched" .) ; (cd /repo && go build -o "$WT/gopherjs-orig" .)
  rm -rf "$WT/demo"; cp -r "$SRC/demo" "$WT/demo"
  # go.mod replace directives of the demo may point at the agent's worktree: redirect them
  for pass in patched orig; do
    rm -rf "$WT/demo"; cp -r "$SRC/demo" "$WT/demo"
    tgt="$WT/repo"
    if [ $pass = orig ]; then
      # the unchanged tree: a second scratch worktree (test-style demonstrations copy files into it)
      git -C /repo worktree add -q --detach "$WT/orig" HEAD || exit 2
      tgt="$WT/orig"
    fi
    find "$WT/demo" -name go.mod -exec sed -i "s#=> /tmp/seed/[A-Za-z0-9_-]*/repo#=> $tgt#" {} \;
    arg="$WT/gopherjs-$pass"
    # demonstrations that are Go tests / drivers inside the repository take the worktree, not a compiler binary
    grep -q "go test\|go run" "$WT/demo/run.sh" && arg="$tgt"
    (cd "$WT/demo" && timeout 1800 ./run.sh "$arg") 2>&1 | sed -E 's/\(?[0-9]+\.[0-9]+s\)?//g; s#/tmp/verif-seed-[A-Za-z0-9]*/(repo|orig)#REPO#g; s#^ok .*#ok#' > "$WT/demo-$pass.txt"
  done
  if cmp -s "$WT/demo-patched.txt" "$WT/demo-orig.txt"; then echo "SEED-REJECT: demo output identical with and without the change"; cat "$WT/demo-orig.txt" | head; exit 3; fi
  echo "demo differs (confirmed):"; diff "$WT/demo-orig.txt" "$WT/demo-patched.txt" | head -12
else
  echo "no demo/run.sh: confirm the demonstration by hand"
fi
mkdir -p "$ROOT/seeded/$SID"; cp "$SRC/patch.diff" "$ROOT/seeded/$SID/"; rm -rf "$ROOT/seeded/$SID/demo"; cp -r "$SRC/demo" "$ROOT/seeded/$SID/demo" 2>/dev/null
[ -f "$SRC/README.md" ] && cp "$SRC/README.md" "$ROOT/seeded/$SID/AGENT_README.md"
cp "$WT"/demo-*.txt "$ROOT/seeded/$SID/" 2>/dev/null
for T in $TIERS; do
  OUT="$WT/check-$T.txt"
  s=$(date +%s)
  VERIF_REPO="$WT/repo" VERIF_SCRATCH="$WT" VERIF_NO_EVIDENCE=1 "$ROOT/check" "$PID" "$T" > "$OUT" 2>&1
  rc=$?
  echo "== ./check $PID $T on seeded $SID: exit=$rc wall=$(( $(date +%s)-s ))s"
  grep -E "^VIOLATION|^KNOWN-FINDING|held on everything|INFRASTRUCTURE" "$OUT" | cut -c1-300 | head -6
  grep -A2 "^VIOLATION" "$OUT" | grep "^  " | cut -c1-300 | head -4
  cp "$OUT" "$ROOT/seeded/$SID/check-$PID-$T.txt"
done
