#!/usr/bin/env python3
"""Regenerates /verif/MANIFEST.json from the table below (one entry per claimed property)."""
import json, os
ROOT = os.path.dirname(os.path.dirname(os.path.abspath(__file__)))

CHECKS = {
 "C06": dict(
   level="model_checking",
   text="TLC validates the width-generic bit-vector operators of Bits.tla against integer arithmetic for all 8-bit operand pairs and enumerates every (operator, type, operand shape, operand value) case of BitsScen.tla inside the bounds with the predicted result; every case is executed on JavaScript compiled by the working tree and compared (replay), with the reference toolchain as specification guard. Exhaustive inside the stated operand pools, not a proof for all 64-bit values.",
   note="Trusted: TLC, Node, the reference Go toolchain as guard, println of <=32-bit integers. Integer types only; float/complex arithmetic is not decided (DESIGN.md section 7).",
   technique="TLA+ reference semantics (Bits.tla) + TLC scenario enumeration replayed on compiled code",
   design="4/C06"),
}

NOT_YET = "check not built yet in this round (planned in DESIGN.md section 9)"
ALL = ["C%02d" % i for i in range(1, 21)]

def main():
    checks = []
    for pid in ALL:
        if pid not in CHECKS:
            continue
        c = CHECKS[pid]
        checks.append({
            "property_id": pid,
            "quick_cmd": "./check %s quick" % pid,
            "thorough_cmd": "./check %s thorough" % pid,
            "evidence_file": "/verif/evidence/%s.json" % pid,
            "replay_cmd_template": "./check %s --replay {path}" % pid,
            "engine": "vcheck",
            "level_claimed": {"category": c["level"], "text": c["text"], "design_ref": "DESIGN.md section " + c["design"]},
            "level_note": c["note"],
            "technique": c["technique"],
        })
    na = [{"property_id": p, "reason": NA.get(p, NOT_YET)} for p in ALL if p not in CHECKS]
    m = {
        "version": 1,
        "setup_cmd": "./check setup",
        "hooks": {
            "guard": "verif",
            "enable": "go build -tags verif (done by ./check when it links the harness against /repo)",
            "baseline_off_cmd": "cd /repo && go test -mod=mod -json -vet=off -count=1 -timeout 25m ./...",
            "source_commits": HOOK_COMMITS,
            "add_only": True,
        },
        "engines": [{"name": "vcheck", "path": "/verif/harness/cmd/vcheck", "serves_properties": sorted(CHECKS), "kind_free_text": "Go harness: runs TLC on /verif/spec, renders TLC-enumerated scenarios as Go programs / API calls, builds them with the compiler from /repo's working tree, runs them under Node and natively, validates recorded traces with TLC"}],
        "checks": checks,
        "not_applicable": na,
        "notes": "One TLA+ specification (spec/), bound to the code by replaying TLC-generated scenarios on the real compiler/run time and by validating recorded traces with TLC. See DESIGN.md.",
    }
    with open(os.path.join(ROOT, "MANIFEST.json"), "w") as f:
        json.dump(m, f, indent=1)
        f.write("\n")

NA = {}
HOOK_COMMITS = []
if __name__ == "__main__":
    main()
