#!/usr/bin/env python3
"""Regenerates /verif/MANIFEST.json from the table below (one entry per claimed property)."""
import json, os
ROOT = os.path.dirname(os.path.dirname(os.path.abspath(__file__)))

CHECKS = {
 "C01": dict(
   level="model_checking",
   text="TLC evaluates the reference semantics MiniGo.tla on every (program, 4-bit input vector) pair of an exhaustive switch/fallthrough family, an exhaustive nested-loop break/continue/return family and VERIF_SEED random programs of the fragment (closures, calls, short-circuit conditions, labelled jumps); every pair is executed on JavaScript compiled by the working tree (plain and resumable form) and must print exactly the predicted trace; the compiler must accept every program and node --check the output. Reference toolchain as specification guard. Bounded to the MiniGo fragment; other language areas are decided by C03, C06-C09, C14, C15.",
   note="Trusted: TLC, Node, the reference Go toolchain as guard, println of small ints. Programs outside the MiniGo fragment are not covered by this check.",
   technique="TLA+ reference interpreter (MiniGo.tla) evaluated by TLC, predictions replayed on compiled programs",
   design="4/C01"),
 "C02": dict(
   level="model_checking",
   text="The MiniGo programs are compiled with trace points that may suspend the goroutine (runtime.Gosched), so every function is emitted in its resumable form; for each of several yield masks (each a different suspend/resume schedule of the same computation, suspension inside arguments, conditions, case expressions, post statements, closures and callees) the compiled program must print exactly what MiniGo.tla predicts, in which a yield is a stuttering step. Exhaustive over the switch and loop families x input vectors x the sampled masks; not all 2^n masks.",
   note="Trusted: TLC, Node (vm-based runner cross-checked against stand-alone node by C03), native Go as guard. Suspension kinds other than Gosched and call kinds outside the fragment (methods, interfaces, generics, linkname) are not covered yet.",
   technique="TLA+ reference interpreter with yields as stuttering steps; compiled resumable code replayed under yield masks",
   design="4/C02"),
 "C03": dict(
   level="model_checking",
   text="GoChan.tla is the reference semantics of channels/select/blocking in invocation-linearisation-response form. TLC explores the forward model GoChanProg.tla (lazily constructed goroutine programs, exhaustive small configurations with invariants, plus -simulate with the full instruction alphabet) and emits programs; each program is compiled by the working tree and executed under Node with scripted scheduling choices (select pick, time-slice breaks, timer firing order); every recorded execution must be accepted by GoChanTrace.tla (TLC, silent linearisation steps), including the deadlock report being raised exactly when nothing can proceed. Native executions of the same programs guard the specification.",
   note="Trusted: TLC, Node's vm module (cross-checked against stand-alone node processes on a sample in every run), println ordering. Time is abstracted (all timers due at once, any firing order). JSRuntime-level implementation model not built yet.",
   technique="trace validation of real executions against a TLA+ reference (GoChanTrace.tla) + TLC forward model for scenario generation",
   design="4/C03"),
 "C06": dict(
   level="model_checking",
   text="TLC validates the width-generic bit-vector operators of Bits.tla against integer arithmetic for all 8-bit operand pairs and enumerates every (operator, type, operand shape, operand value) case of BitsScen.tla inside the bounds with the predicted result; every case is executed on JavaScript compiled by the working tree and compared (replay), with the reference toolchain as specification guard. Exhaustive inside the stated operand pools, not a proof for all 64-bit values.",
   note="Trusted: TLC, Node, the reference Go toolchain as guard, println of <=32-bit integers. Integer types only; float/complex arithmetic is not decided (DESIGN.md section 7).",
   technique="TLA+ reference semantics (Bits.tla) + TLC scenario enumeration replayed on compiled code",
   design="4/C06"),
 "C08": dict(
   level="model_checking",
   text="Unwind.tla is the reference semantics of defer/panic/recover/Goexit (denotational, rules 1-8 of the header); UnwindScen.tla enumerates every function family inside the bounds (exhaustive for one function, -simulate for three) with the predicted prints and termination; RtePanics.tla tabulates the operations that must raise run-time errors with their position in the evaluation order. Every scenario is compiled by the working tree, run once under Node and compared; native Go guards the specification.",
   note="Trusted: TLC, Node, native Go as guard. Panic values are compared as (class, value number), message tails are not compared. panic(nil) excluded. Goroutine-crossing panics only through the uncaught-panic path.",
   technique="TLA+ reference semantics (Unwind.tla, RtePanics.tla) + TLC scenario enumeration replayed on compiled code",
   design="4/C08"),
 "C16": dict(
   level="model_checking",
   text="The MiniGo programs built with minification (plain and resumable form, several yield masks) must print exactly what MiniGo.tla predicts - the same prediction the unminified builds are held to by C01/C02 - and node --check must accept the minified file.",
   note="Trusted: as C01. The whitespace scanner and the short-name allocator are not yet driven directly through the verif exports (planned: Minify.tla).",
   technique="TLA+ reference interpreter predictions replayed on minified compiled programs",
   design="4/C16"),
}


CHECKS.update({
 "C07": dict(
   level="model_checking",
   text="TLC executes every scenario of StoreScen.tla - 30 struct/array type shapes (nesting <= 2, embedded structs, pointer/slice/map fields) x 3 rendering variants x 108 copying and aliasing contexts x mutated side x mutated leaf path or whole value - on the abstract store of Store.tla, checks on the specification itself the post-condition of Copy, no structure sharing after every instruction, storage identity in aliasing contexts, the statement of C07 on the model and that every copying context is discriminated by some scenario, and emits the predicted probes; every scenario is rendered as Go, compiled by the working tree, run under Node and compared (replay), with the reference toolchain as specification guard. Exhaustive over the stated product in the thorough tier (about 70 000 scenarios), hash-sampled by seed in the quick tier; not a proof for arbitrary programs.",
   note="Trusted: TLC, Node, native Go as guard, println of <=32-bit integers, and the hand-written correspondence between a context's Go template and its instruction sequence (guarded per scenario by native Go). Leaves are int32/int64 only; one copy/alias step followed by one mutation per scenario.",
   technique="TLA+ reference semantics (Store.tla object-graph store with Copy) + TLC scenario enumeration and execution (StoreScen.tla) replayed on compiled code",
   design="4/C07"),
 "C15": dict(
   level="model_checking",
   text="TLC builds a catalog of comparable key types with adversarial value pools (all leaf kinds, named / array / struct versions, special shapes and seeded types to depth 3) and enumerates operation histories; it checks on every pool that key equality is an equivalence exactly on NaN-free keys and on every intermediate state that the entry-set model refines the map-over-equivalence-classes model (len = classes inserted and not deleted), and emits the predicted result of every step (range steps as first/must/may alternatives validated as bags). Every history is executed on JavaScript compiled from the working tree and validated, with the reference toolchain as specification guard. The pairs family is exhaustive inside the bounds; pools and longer histories are sampled by VERIF_SEED.",
   note="Trusted: TLC, Node, native Go as guard, println of int32/bool. Map values are int32 only; range mutation only in the first iteration; histories <= 6 operations. Known findings listed with classifiers.",
   technique="TLA+ reference semantics of Go map key equality and map operations (GoMap.tla) + TLC scenario enumeration (GoMapScen.tla) replayed on compiled code; range steps validated as bags",
   design="4/C15"),
 "C18": dict(
   level="model_checking",
   text="TLC enumerates //go:build expressions (every canonical expression of depth <= 2 over a 19-tag vocabulary in the thorough tier, seed-sampled in quick) x file-name forms x environments x user tag sets with the selection Constraints.tla predicts, and checks on the specification De Morgan/commutativity/double negation, independence of unmentioned tags and the cgo / hidden-file / .inc.js clauses; the harness writes the files into generated package directories and compares the prediction with what the real build.NewBuildContext().Import selects (user packages, GOPHERJS_GOROOT std packages, real GOROOT packages), and builds and runs a sample so that the run-time set of self-registering files equals the selected set. Guards: go/build/constraint and go/build.MatchFile under the specification's tag set.",
   note="Trusted: TLC, go/build/constraint and go/build.MatchFile as guards (.inc.js rule has no independent guard). Legacy // +build lines, vendor/GOPATH mode and the overlay context's own selection are not covered.",
   technique="TLA+ reference semantics of build constraints (Constraints.tla) + TLC enumeration replayed on the real file selection and on built programs",
   design="4/C18"),
})

CHECKS.update({
 "C04": dict(
   level="model_checking",
   text="Instances.tla holds the reference (least fixpoint of 'the code of an instance mentions an instance', type-term identity of instances, the observable behaviour Exec of the rendered program) and an implementation-shaped model of typeparams.Collector (Scan, Finish over a Go map with every iteration order, propagate with the unprocessed index, addInstance with methods). TLC checks on every program of an exhaustive small family and on VERIF_SEED-selected programs of the full bounds (<= 3 generic declarations incl. types local to generic functions, <= 2 type parameters, <= 2 uses per body, packages in both import directions, type expressions nested <= 2) that the collected set is the fixpoint for every iteration order and that the instance map agrees with equality of type terms, and emits the scenarios. Every scenario is rendered as a multi-package Go module, compiled by the working tree and run: the printed log (zero values, arithmetic width, method results, blocking methods, type identity by ==, map key, type switch, assertion) must equal Exec, the compiler's real instance sets and archive declarations must contain the fixpoint, the real set order must be one of the model's final orders (else MODEL-DRIFT). Reference toolchain as specification guard. Hand-written witness programs add shapes outside the declaration space.",
   note="Trusted: TLC, Node, native Go as guard, println of <= 32-bit integers. Struct types with one pointer-receiver method, functions, local struct types; constraints any and one numeric constraint. Two known compiler failures on valid generic programs are listed as findings.",
   technique="TLA+ model of the generic instance collector + reference fixpoint (Instances.tla), TLC-enumerated programs replayed on compiled code, real instance sets compared with the model",
   design="4/C04"),
 "C11": dict(
   level="model_checking",
   text="The documented Go<->JavaScript mapping of package js is a TLA+ specification (JsMapping.tla: Externalize/Internalize over tagged Go and JavaScript values, numbers as exact dyadic values rounded to 53/24 bits, strings UTF-8<->UTF-16 through Utf8.tla; JsMappingState.tla: wrapper cache and callback guard as a state machine with invariants). TLC checks round-trip identity on every representable enumerated value, box transparency, number and UTF-16 laws, and enumerates every (type, value, route, accessor) case inside the bounds (143 types with value pools; routes: Set/Get, arguments of Call/Invoke/New, results and parameters of exposed functions, js-tagged fields, MakeWrapper, Interface(), accessors Int/Int64/Uint64/Float/Bool/String/Length/Index/Delete) with the predicted descriptor; every case is replayed on programs compiled by the working tree (a JavaScript describe() helper and generated Go printers give canonical descriptors). Callback guard: Go callbacks run by a real setTimeout that block must fail with the documented error and leave the scheduler intact.",
   note="No native guard exists (gc cannot build package js): the guard is a second independent transcription of the documentation in Go; a case on which the two transcriptions disagree is discarded and counted (0 on this tree). Results the documentation leaves undefined are recorded, not judged (typed-array memory sharing, synchronous callbacks from inside a goroutine). time.Time<->Date and DOM classes are not covered.",
   technique="TLA+ reference semantics of the documented conversion (JsMapping.tla) + TLC scenario enumeration replayed on compiled programs; TLC-checked state machine for wrapper cache and callback guard",
   design="4/C11"),
 "C12": dict(
   level="model_checking",
   text="Overlay.tla is the reference semantics of the documented overlay merge (doc/pargma.md and the comments of parseAndAugment: override, keep-original, purge incl. methods of purged types, override-signature, import pruning, init never overridden); OverlayScen.tla makes TLC enumerate pairs (original side, overlay side) over a small name universe with kinds, receivers, grouped and multi-name specs and directives on declarations and specs, checks the theorems of the reference on every pair and emits the predicted item set Merged. Each pair is rendered as two Go files with provenance markers, parsed and run through the REAL augmentOverlayFile / augmentOriginalImports / augmentOriginalFile (guarded export build.VerifAugment, same order as parseAndAugment); the item set read back from the resulting ASTs must equal Merged and, when the reference says the pair is consistent, the merged package must type-check with go/types. A last phase merges every overlay package of compiler/natives with its GOROOT original and checks version-independent structural invariants.",
   note="Trusted: TLC, go/parser and go/types as guard of consistency. Known findings listed with classifiers (const groups with iota, free-floating linkname directives).",
   technique="TLA+ reference semantics of the overlay merge (Overlay.tla) + TLC pair enumeration replayed on the real augmentation functions",
   design="4/C12"),
 "C14": dict(
   level="model_checking",
   text="Utf8.tla is the reference semantics of Go strings as byte sequences (UTF-8 decoding given declaratively and as the table of well-formed sequences - Utf8Validate.tla checks the two against each other for every code point -, encoding, range, conversions, index/slice/compare/concat/copy/append, key identity); Utf8Scen.tla enumerates byte strings over a boundary alphabet (every string up to the configured length), boundary runes and slice index pairs with the predicted results and checks properties of the reference on each. The scenarios are rendered as table-driven Go programs (every string once as a literal and once built at run time), compiled by the working tree, run under Node and compared line by line; range loops are also run with other decoding work inside the body. Reference toolchain as specification guard.",
   note="Trusted: TLC, Node, native Go as guard, println of ASCII. Two known findings (s[lo:] beyond len, string(int64) high word).",
   technique="TLA+ reference semantics of UTF-8 strings (Utf8.tla) + TLC scenario enumeration replayed on compiled code",
   design="4/C14"),
})

CHECKS.update({
 "C13": dict(
   level="model_checking",
   text="SyncPrims.tla and Atomic.tla are sequential specifications (Mutex, RWMutex, WaitGroup, Once, Map, Pool with outcomes ok / panic / would-block / fatal, one prediction for package sync and one for the single-threaded replacement; atomic cells of 5 integer kinds in both API forms, Bool, Pointer, Value with wrap-around through Bits.tla); TLC enumerates ALL operation histories of bounded length per primitive with the predicted outcome of every step and checks the specifications' invariants. BitsFn.tla (math/bits, validated at 8 bits against integer arithmetic, algebraic sanity at 32/64 bits) and FloatGrid.tla (23 math functions with every documented special case on an exact dyadic grid with IEEE-754 encode/decode) are reference semantics enumerated over boundary grids. Every history is replayed natively against /repo/nosync and (sampled) compiled by the working tree under Node; sync/atomic, math/bits and math scenarios run compiled under Node. Guards: the host's package sync observed on the real scheduler (blocking detected by yielding under GOMAXPROCS(1), fatal errors in child processes) and native Go.",
   note="Decided only inside the bounds (history length 3-8 quick / 4-10 thorough; mantissas < 2^30 for unary math functions, < 2^14 for Mod/Remainder/Dim). Outside the specification and labelled so in the evidence: a seeded differential run of every overridden math, math/bits and unicode function against native Go, in which only the function classes the property lists are judged (transcendental functions are recorded only). sync.Pool by its documented contract; Map.Range order set-valued.",
   technique="TLA+ sequential specifications (SyncPrims.tla, Atomic.tla) with exhaustive bounded history enumeration by TLC + TLA+ reference semantics (BitsFn.tla, FloatGrid.tla) over boundary grids, replayed on the real packages natively and compiled",
   design="4/C13"),
})

CHECKS.update({
 "C10": dict(
   level="model_checking",
   text="Init.tla is the reference semantics of package initialisation and of go:linkname, given twice: as a functional definition (VarOrder, PkgSeq, TopoOrders, RefTrace) and as a step machine (start package, begin, emit, suspend, helper, resume, end package; while the initialising goroutine is suspended only the helper and the resumption are enabled); TLC checks them against each other and checks on every program that the variable order is the least linear extension of the dependencies, that main is last in every cross-package order and that single-file programs do not depend on the file order. InitScen.tla enumerates completely: every import DAG of <= 4 packages (with and without a suspending deepest initialiser), every placement of 3 variables in 2 files with every acyclic direct / through-function dependency shape, every file-name pair x init count, the linkname table (function, value method, pointer method x exported x direction x suspending) and the three rejected directive forms, plus VERIF_SEED-decoded programs over the full bounds. Programs are rendered as multi-package modules, built by the working tree and run under Node; the marker trace must be one the specification allows for some cross-package topological order and ONE file order (ascending or descending by name) that explains the whole run, and is validated by TLC (InitTrace.tla). Reference toolchain as guard.",
   note="Trusted: TLC, Node, the Go toolchain as guard (also for pull-style linknames where it builds them; the rejected directive forms are decided by doc/pargma.md alone), println markers. Not covered: file orders other than bytewise ascending/descending, multi-value initialisers, goroutines outliving init, state of packages not yet initialised, linkname targets in main or the standard library. The quick tier runs every dag/bad/code program and a seeded sample of the other families.",
   technique="TLA+ reference semantics of package initialisation and linkname resolution (Init.tla: functional definition and step machine checked against each other by TLC) + TLC-enumerated multi-package programs replayed on compiled code + TLC validation of recorded traces (InitTrace.tla)",
   design="4/C10"),
})

CHECKS.update({
 "C09": dict(
   level="model_checking",
   text="Types.tla is the reference semantics of selectors through embedded fields, method sets, implements, type switches, receiver passing, type identity and interface equality; TypesScen.tla enumerates families of named struct types (<= 4 types, <= 3 method names of which one unexported in two equally named packages, value/pointer receivers, value/pointer embedding up to depth 3 and chains of 4, duplicates at one depth, shadowing, equally named types in two functions and two packages, 2-7 named/anonymous interfaces), checks on every family the meta-properties of the specification (the two formulations of method sets of the Go specification agree, shallowest-unique selector rule, T's method set is part of *T's, ambiguity promotes nothing, receiver sharing) and emits the predicted tables: assertion / comma-ok / missing method for T and *T against every interface, two type switches, dispatch target and receiver sharing in 9 call forms, == on 5 interface values per type; plus == (true/false/panic) on the boxed zero values of every pair of unnamed type expressions written at 5 sites of 3 packages and 2 functions. Every family is rendered as Go, compiled by the working tree, run under Node and compared cell by cell, with the reference toolchain as specification guard. Exhaustive inside the depth, chain4, scopes and samename bounds; the 4-type/3-name space is a seed sample.",
   note="Trusted: TLC, Node, native Go as guard, println of bools/small ints/ASCII. All methods have signature func() int32; only struct types carry methods; no embedded interfaces in structs, no generics. On the current tree about 6% of the quick-tier cells deviate and are attributed to 9 known findings by a defect model (jsmodel.go) that only labels cells the verdict rule has already rejected and must reproduce the observed line exactly; a cell it does not reproduce is a VIOLATION.",
   technique="TLA+ reference semantics of selectors / method sets / type identity (Types.tla) + TLC scenario enumeration with predicted tables (TypesScen.tla) replayed on compiled code",
   design="4/C09"),
 "C17": dict(
   level="exploration",
   text="Build.tla (extending Instances.tla) models every container of the build pipeline whose iteration order reaches the emitted JavaScript: listed files and Sources.Sort, the session's source map and archives, Collector.Scan/Finish, instance ids, import list, escaping-variable map, anonymous-type numbering, link-time dead-code elimination. TLC checks 'Output is a function of (sources, options)' on an exhaustive family of <= 3 generic declarations in <= 3 packages and on the <= 2-declaration family with every layout, listing, discovery order and earlier command of the session: it holds for the current code with isolated sessions, fails with each load-bearing sort removed (sentinel shapes are emitted) and fails for a session that compiled another command before (witness shapes of that finding). The property itself is decided on the real compiler: every witness and sentinel shape and VERIF_SEED-selected decorated skeletons are built many times in fresh processes x listed file permutations x minify on/off x earlier commands in the same session; sha256 of out.js and out.js.map must be one value per (program, options), real instance orders must be final orders of the model, and a difference counts as a known finding only where the model predicts it.",
   note="The oracle is run-to-run equality on sampled map orders (probabilistic: the per-build divergence rate of an unsorted map range is about 1/8 per affected object; many groups per run). Trusted: TLC, Go's per-process map randomisation. Scenarios are resolved in GOPATH mode with a module-mode cross-check per run. The build cache, watch mode and test mains are not covered.",
   technique="implementation-shaped TLA+ model of order-bearing containers with repair/mutant switches (TLC enumerates witness and sentinel shapes) + differential fresh-process builds of the real compiler classified through the model's predictions",
   design="4/C17"),
})

CHECKS.update({
 "C05": dict(
   level="model_checking",
   text="Dce.tla models the selector of compiler/internal/dce step by step (Include with the two filters, the pending stack, AliveDecls releasing the infos registered under a dependency) and defines the reference alive set as the least fixpoint of a declaration graph; TLC checks on every small declaration graph of a configured space under every pop order and every dependency order, and on seeded graphs of 5-6 declarations: least fixpoint, order independence, closure under deps, no lost info, termination. DceTopo.tla is the reference semantics of dispatch topologies (reach kind: interface, method value, method expression, embedding by value/pointer, generic call, local type, side-effecting initialiser x exported x pointer receiver x type kind x carrier x distractor type x second interface x holder) and of package-variable scenarios (initialiser kind x form x read or not), with the declaration graph the compiler's naming scheme yields; TLC checks Executed <= Needed <= Alive on each and emits the predicted output. Every scenario is rendered as a Go package, batched into programs, compiled once and linked twice - normally and with every Decl.Dce().SetAsAlive() -; both are run under Node and must print the prediction (native Go as guard). Conformance: the REAL per-declaration DCE data of built programs is loaded into Dce.tla as constants and the alive set TLC computes must equal what the real selector kept (compiler.VerifAliveDecls) and what was emitted (else MODEL-DRIFT). go:linkname scenarios, hand-written witness packages and MiniGo programs are run the same way (DCE on/off must agree).",
   note="Trusted: TLC, Node, native Go as guard. A compiler failure before linking is not judged here (C01/C04). Known gap listed as finding: an unread variable whose initialiser is observable only by panicking is dropped.",
   technique="TLA+ model of the dead-code selector + reference fixpoint (Dce.tla), TLA+ reference of dispatch topologies (DceTopo.tla), TLC-enumerated scenarios linked with and without elimination, real DCE data checked against the model",
   design="4/C05"),
 "C19": dict(
   level="model_checking",
   text="SourceMap.tla models the hint filter (internal/sourcemapx/filter.go) as a state machine over token streams (code bytes, newlines, multi-byte characters, position hints, identifier hints) cut into Write calls at every place that does not split a hint, and states the reference result (output = input minus hints; a mapping's generated position = line/column of the next output byte when its hint is consumed; independent of the chunking; the offset rule of WriteJS; removeWhitespace keeps hints); TLC checks the machine against the reference while emitting every (stream, chunking) scenario with the predicted output bytes and mappings. Every scenario is replayed through the real Filter / removeWhitespace / WriteJS (guarded exports) and the bytes written and the decoded source map are compared with the prediction. Whole programs (MiniGo programs with stack-recording trace points, programs that panic on a known line, a program with an .inc.js file) are built with and without minification; out.js / out.js.map are validated against the mapping rule: no hint byte in the output, hint-free output identical to a build without mapping, every generated position exists, every original line exists, statement starts map to the first line of their Go statement, a thrown error's frames resolve through the map.",
   note="Trusted: TLC, Node, the source-map decoder of the harness. Identifier names after esbuild minification are not modelled. Three known findings (branch conditions mapped to no position, first-line column offset of WriteJS blocks, prelude source named numberic.js).",
   technique="TLA+ state machine of the source-map hint filter with its reference (SourceMap.tla) + TLC stream/chunking enumeration replayed on the real Filter + whole-program map validation",
   design="4/C19"),
 "C20": dict(
   level="model_checking",
   text="Cache.tla is a state machine of the cache directory (final and temporary files; Store as CreateTemp -> Write -> Close -> Rename with a crash after any step; damage by the environment; source modification; Load); TLC checks that the operational Load agrees with the declarative statement of the property in every reachable state (and that five seeded wrong variants of the model are rejected). CacheScen.tla enumerates histories over pairs of configurations that differ in exactly one key field (GOOS, GOARCH, GOROOT, GOPATH, build tags incl. {a,b} vs {\"a,b\"}, version, tested package, field-boundary and path-cleaning collisions) with the predicted outcome of every operation, of every Load and of the directory listing; the histories are replayed on the real cache.BuildCache in child processes whose cache root lies in the scratch directory - crashes are real process deaths at the fail points of Store, every other operation reuses one long-lived BuildCache value - and compared. A damage sweep truncates one stored entry at every byte offset and flips bits in it (must be a miss, never a panic, never altered content); a round trip stores, restores and compiles real packages through the build session and requires byte-identical JavaScript.",
   note="Trusted: TLC, the file system of the sandbox. The default cache is disabled by a constant in NewSession: the round trip installs the real BuildCache through a guarded export. One known finding (free-floating linkname directives are lost by the serialiser).",
   technique="TLA+ state machine of the cache directory with crash steps (Cache.tla) + TLC history enumeration (CacheScen.tla) replayed on the real BuildCache with real process deaths + damage sweep + round trip",
   design="4/C20"),
})
CHECKS["C12"]["text"] = "Overlay.tla is the reference semantics of the documented overlay merge (doc/pargma.md and the comments of parseAndAugment/overrideInfo/pruneImports: override, keep-original, purge incl. methods of purged types, override-signature, import pruning, init never overridden). Imports are used by function bodies, initialisers and function/method SIGNATURES (parameter, result and constraint types of imported packages, unsafe.Pointer); under override-signature the original signature's uses disappear and the overlay signature's uses count for the original file. OverlayScen.tla makes TLC enumerate pairs (original side, overlay side) exhaustively over two small universes and by seeded sampling over a 4-name universe, checks the theorems of the reference on every pair (every overlay declaration present, no duplicate keys, empty overlay is the identity, unrelated declarations untouched, only inputs, ImportsExact = no unused and no missing import after the merge, nothing added) and emits the predicted item set Merged. Each pair is rendered as two Go files with provenance markers, parsed and run through the REAL augmentOverlayFile / augmentOriginalImports / augmentOriginalFile (guarded export build.VerifAugment, same order as parseAndAugment); the item set read back from the ASTs (symbols, full signature text, bodies, initial values, order, imports, directives) must equal Merged and, when the reference says the pair is consistent, the merged package must type-check with go/types. A last phase merges every overlay package of compiler/natives with its GOROOT original and checks version-independent structural invariants."
CHECKS["C12"]["note"] = "Trusted: TLC, go/parser, go/types (with a fixed importer) as guard of consistency. Unspecified and not judged: an override-signature whose overlay signature names an import the original file lacks. Known findings with classifiers: const groups with iota, free-floating linkname directives."

NOT_YET = "check not built yet in this round (planned in DESIGN.md section 9)"
ALL = ["C%02d" % i for i in range(1, 21)]

def main():
    checks = []
    for pid in ALL:
        if pid not in CHECKS:
            continue
        c = CHECKS[pid]
        checks.append({
            "property_id": pid,
            "quick_cmd": "./check %s quick" % pid,
            "thorough_cmd": "./check %s thorough" % pid,
            "evidence_file": "/verif/evidence/%s.json" % pid,
            "replay_cmd_template": "./check %s --replay {path}" % pid,
            "engine": "vcheck",
            "level_claimed": {"category": c["level"], "text": c["text"], "design_ref": "DESIGN.md section " + c["design"]},
            "level_note": c["note"],
            "technique": c["technique"],
        })
    na = [{"property_id": p, "reason": NA.get(p, NOT_YET)} for p in ALL if p not in CHECKS]
    m = {
        "version": 1,
        "setup_cmd": "./check setup",
        "hooks": {
            "guard": "verif",
            "enable": "go build -tags verif (done by ./check when it links the harness against /repo)",
            "baseline_off_cmd": "cd /repo && go test -mod=mod -json -vet=off -count=1 -timeout 25m ./...",
            "source_commits": HOOK_COMMITS,
            "add_only": True,
        },
        "engines": [{"name": "vcheck", "path": "/verif/harness/cmd/vcheck", "serves_properties": sorted(CHECKS), "kind_free_text": "Go harness: runs TLC on /verif/spec, renders TLC-enumerated scenarios as Go programs / API calls, builds them with the compiler from /repo's working tree, runs them under Node and natively, validates recorded traces with TLC"}],
        "checks": checks,
        "not_applicable": na,
        "notes": "One TLA+ specification (spec/), bound to the code by replaying TLC-generated scenarios on the real compiler/run time and by validating recorded traces with TLC. See DESIGN.md.",
    }
    with open(os.path.join(ROOT, "MANIFEST.json"), "w") as f:
        json.dump(m, f, indent=1)
        f.write("\n")

NA = {}
HOOK_COMMITS = ["a1f8310", "a00bef2"]
if __name__ == "__main__":
    main()
