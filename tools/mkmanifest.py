#!/usr/bin/env python3
"""Regenerates /verif/MANIFEST.json from the table below (one entry per claimed property)."""
import json, os
ROOT = os.path.dirname(os.path.dirname(os.path.abspath(__file__)))

CHECKS = {
 "C01": dict(
   level="model_checking",
   text="TLC evaluates the reference semantics MiniGo.tla on every (program, 4-bit input vector) pair of an exhaustive switch/fallthrough family, an exhaustive nested-loop break/continue/return family and VERIF_SEED random programs of the fragment (closures, calls, short-circuit conditions, labelled jumps); every pair is executed on JavaScript compiled by the working tree (plain and resumable form) and must print exactly the predicted trace; the compiler must accept every program and node --check the output. Reference toolchain as specification guard. Bounded to the MiniGo fragment; other language areas are decided by C03, C06-C09, C14, C15.",
   note="Trusted: TLC, Node, the reference Go toolchain as guard, println of small ints. Programs outside the MiniGo fragment are not covered by this check.",
   technique="TLA+ reference interpreter (MiniGo.tla) evaluated by TLC, predictions replayed on compiled programs",
   design="4/C01"),
 "C02": dict(
   level="model_checking",
   text="The MiniGo programs are compiled with trace points that may suspend the goroutine (runtime.Gosched), so every function is emitted in its resumable form; for each of several yield masks (each a different suspend/resume schedule of the same computation, suspension inside arguments, conditions, case expressions, post statements, closures and callees) the compiled program must print exactly what MiniGo.tla predicts, in which a yield is a stuttering step. Exhaustive over the switch and loop families x input vectors x the sampled masks; not all 2^n masks.",
   note="Trusted: TLC, Node (vm-based runner cross-checked against stand-alone node by C03), native Go as guard. Suspension kinds other than Gosched and call kinds outside the fragment (methods, interfaces, generics, linkname) are not covered yet.",
   technique="TLA+ reference interpreter with yields as stuttering steps; compiled resumable code replayed under yield masks",
   design="4/C02"),
 "C03": dict(
   level="model_checking",
   text="GoChan.tla is the reference semantics of channels/select/blocking in invocation-linearisation-response form. TLC explores the forward model GoChanProg.tla (lazily constructed goroutine programs, exhaustive small configurations with invariants, plus -simulate with the full instruction alphabet) and emits programs; each program is compiled by the working tree and executed under Node with scripted scheduling choices (select pick, time-slice breaks, timer firing order); every recorded execution must be accepted by GoChanTrace.tla (TLC, silent linearisation steps), including the deadlock report being raised exactly when nothing can proceed. Native executions of the same programs guard the specification.",
   note="Trusted: TLC, Node's vm module (cross-checked against stand-alone node processes on a sample in every run), println ordering. Time is abstracted (all timers due at once, any firing order). JSRuntime-level implementation model not built yet.",
   technique="trace validation of real executions against a TLA+ reference (GoChanTrace.tla) + TLC forward model for scenario generation",
   design="4/C03"),
 "C06": dict(
   level="model_checking",
   text="TLC validates the width-generic bit-vector operators of Bits.tla against integer arithmetic for all 8-bit operand pairs and enumerates every (operator, type, operand shape, operand value) case of BitsScen.tla inside the bounds with the predicted result; every case is executed on JavaScript compiled by the working tree and compared (replay), with the reference toolchain as specification guard. Exhaustive inside the stated operand pools, not a proof for all 64-bit values.",
   note="Trusted: TLC, Node, the reference Go toolchain as guard, println of <=32-bit integers. Integer types only; float/complex arithmetic is not decided (DESIGN.md section 7).",
   technique="TLA+ reference semantics (Bits.tla) + TLC scenario enumeration replayed on compiled code",
   design="4/C06"),
 "C08": dict(
   level="model_checking",
   text="Unwind.tla is the reference semantics of defer/panic/recover/Goexit (denotational, rules 1-8 of the header); UnwindScen.tla enumerates every function family inside the bounds (exhaustive for one function, -simulate for three) with the predicted prints and termination; RtePanics.tla tabulates the operations that must raise run-time errors with their position in the evaluation order. Every scenario is compiled by the working tree, run once under Node and compared; native Go guards the specification.",
   note="Trusted: TLC, Node, native Go as guard. Panic values are compared as (class, value number), message tails are not compared. panic(nil) excluded. Goroutine-crossing panics only through the uncaught-panic path.",
   technique="TLA+ reference semantics (Unwind.tla, RtePanics.tla) + TLC scenario enumeration replayed on compiled code",
   design="4/C08"),
 "C16": dict(
   level="model_checking",
   text="The MiniGo programs built with minification (plain and resumable form, several yield masks) must print exactly what MiniGo.tla predicts - the same prediction the unminified builds are held to by C01/C02 - and node --check must accept the minified file.",
   note="Trusted: as C01. The whitespace scanner and the short-name allocator are not yet driven directly through the verif exports (planned: Minify.tla).",
   technique="TLA+ reference interpreter predictions replayed on minified compiled programs",
   design="4/C16"),
}

NOT_YET = "check not built yet in this round (planned in DESIGN.md section 9)"
ALL = ["C%02d" % i for i in range(1, 21)]

def main():
    checks = []
    for pid in ALL:
        if pid not in CHECKS:
            continue
        c = CHECKS[pid]
        checks.append({
            "property_id": pid,
            "quick_cmd": "./check %s quick" % pid,
            "thorough_cmd": "./check %s thorough" % pid,
            "evidence_file": "/verif/evidence/%s.json" % pid,
            "replay_cmd_template": "./check %s --replay {path}" % pid,
            "engine": "vcheck",
            "level_claimed": {"category": c["level"], "text": c["text"], "design_ref": "DESIGN.md section " + c["design"]},
            "level_note": c["note"],
            "technique": c["technique"],
        })
    na = [{"property_id": p, "reason": NA.get(p, NOT_YET)} for p in ALL if p not in CHECKS]
    m = {
        "version": 1,
        "setup_cmd": "./check setup",
        "hooks": {
            "guard": "verif",
            "enable": "go build -tags verif (done by ./check when it links the harness against /repo)",
            "baseline_off_cmd": "cd /repo && go test -mod=mod -json -vet=off -count=1 -timeout 25m ./...",
            "source_commits": HOOK_COMMITS,
            "add_only": True,
        },
        "engines": [{"name": "vcheck", "path": "/verif/harness/cmd/vcheck", "serves_properties": sorted(CHECKS), "kind_free_text": "Go harness: runs TLC on /verif/spec, renders TLC-enumerated scenarios as Go programs / API calls, builds them with the compiler from /repo's working tree, runs them under Node and natively, validates recorded traces with TLC"}],
        "checks": checks,
        "not_applicable": na,
        "notes": "One TLA+ specification (spec/), bound to the code by replaying TLC-generated scenarios on the real compiler/run time and by validating recorded traces with TLC. See DESIGN.md.",
    }
    with open(os.path.join(ROOT, "MANIFEST.json"), "w") as f:
        json.dump(m, f, indent=1)
        f.write("\n")

NA = {}
HOOK_COMMITS = ["a1f8310"]
if __name__ == "__main__":
    main()
