#!/usr/bin/env python3
"""Writes /verif/seeded/<id>/meta.json from the table below (one entry per seeded change that was confirmed
independently of the sub-agent that wrote it: fresh scratch worktree, patch applies, builds with and without
-tags verif, the 777 baseline tests still pass, the demonstration differs between the patched and the
unchanged tree). tools/seedcheck.sh does the confirmation and runs the check against the patched tree."""
import json, os
ROOT = os.path.dirname(os.path.dirname(os.path.abspath(__file__)))
RAN = ["tools/seedcheck.sh <agent output dir> <id> <Cnn> quick  (fresh scratch worktree of /repo HEAD; git apply patch.diff; go build ./... and go build -tags verif ./...; tools/baseline.sh = the 777 stable tests with the guard off; demo/run.sh on the patched and on an unchanged scratch worktree must differ; ./check <Cnn> quick with VERIF_REPO=<patched worktree>)"]
T = {
 "C01-a": dict(prop="C01", site="compiler/statements.go translateStmt RangeStmt (+ helper isLoopInvariantVar)",
   breaks="same sequence of printed values as the reference toolchain (the range expression is evaluated once)",
   needs="for ... range v over a slice/string/map/array-pointer VARIABLE that is not assigned in the loop body but is replaced during the loop from elsewhere (helper function or method assigning a package-level variable, closure created before the loop, store through a pointer, another goroutine while the body blocks)",
   first="missed by C01 quick (the MiniGo fragment had no composite values and no range)", now="see DESIGN.md section 11 (MiniGo v2 RangeFamily)"),
 "C02-a": dict(prop="C02", site="compiler/statements.go ReturnStmt (+ helper hasSideEffect)",
   breaks="after resumption every ... partially evaluated expression is exactly as it was, including suspensions inside deferred functions during a return",
   needs="return of a call-free expression (variable, field, index, arithmetic, tuple) with UNNAMED results from a function whose deferred call modifies what the expression reads and then really suspends",
   first="missed by C02 quick (no defer in the MiniGo fragment)", now="see DESIGN.md section 11 (MiniGo v2 DeferFamily)"),
 "C03-a": dict(prop="C03", site="compiler/prelude/goroutines.js $select removeFromQueues",
   breaks="no value is lost, duplicated or reordered; a blocked goroutine is eventually resumed; deadlock reported exactly when nothing can proceed",
   needs="a select that really parks and names the same channel in two same-direction cases, is woken through that channel (or by close), and the channel is used again afterwards",
   first="C03 quick ended with exit 2: the vm-based runner and the stand-alone node process disagreed on a program and the disagreement was treated as an infrastructure problem before the traces were validated",
   now="caught by C03 quick (6 violations): the stand-alone observation is validated against GoChanTrace.tla like every other execution; a disagreement is an infrastructure problem only if the specification accepts both observations"),
 "C06-a": dict(prop="C06", site="compiler/expressions.go formatExprInternal verb %h (constant branch)",
   breaks="comparison operations on int64 compute the value the Go specification defines; the result does not depend on whether an operand is a constant or a variable",
   needs="a DEFINED type whose underlying type is int64, a negative constant as immediate operand, a comparison operator",
   first="missed by C06 quick (operands had the predeclared integer types only)",
   now="caught by C06 quick: every table program of BitsScen.tla is also rendered with defined types n_T over every integer type"),
 "C07-a": dict(prop="C07", site="compiler/statements.go translateAssign (define from a CallExpr)",
   breaks="assigning an array or struct always produces an independent copy",
   needs="b := T(a) or var b = T(a) with T(a) an IDENTITY conversion (a already has type T, an alias of it, a parenthesised type, T(v) in generic code) followed by a mutation of one side",
   first="missed by C07 quick (conversion contexts converted to a different named type only)",
   now="caught by C07 quick (3 violations): contexts convert_same, convert_same_var, convert_same_paren, convert_same_assign, convert_same_arg, convert_same_field of StoreScen.tla"),
 "C08-a": dict(prop="C08", site="compiler/prelude/prelude.js $methodExpr (try/finally dropped)",
   breaks="recover returns the panic value only when called directly by a deferred function ... nested panics behave as in Go",
   needs="while a panic is in flight its deferred function first calls, through a method EXPRESSION, something that panics and is recovered below, then calls recover() directly ($stackDepthOffset leaks when a panic passes the wrapper)",
   first="missed by C08 quick (calls were rendered as direct calls only; every family ran once per JavaScript context)",
   now="caught by C08 quick: families are rendered in six call/deferred-function kinds (direct, method expression, pointer method expression, method value, interface, function value) and every family that returns is run twice in the same run time (Unwind.tla: a returned family leaves no state behind)"),
 "C09-a": dict(prop="C09", site="compiler/prelude/types.js $methodSet (indirect taken from the root type)",
   breaks="a type assertion or type-switch case to an interface succeeds exactly when the dynamic type's method set, including methods promoted through embedded fields and pointer indirection, implements it",
   needs="a struct VALUE whose embedding chain is value -> embedded pointer *A -> A embeds B by value, with a pointer-receiver method on *B, observed by x.(I), comma-ok, case I:, or a call through an interface of a by-value wrapper",
   first="not run (C09 was not integrated yet)", now="see DESIGN.md section 11"),
 "C14-a": dict(prop="C14", site="compiler/prelude/prelude.js $decodeRune (one shared result array)",
   breaks="range iteration (rune value and width, U+FFFD for each invalid byte)",
   needs="a range over a string whose body causes another rune decode (nested range in the same function, a callee or another goroutine; []rune(s)) whose last width differs from the outer rune's width",
   first="missed by C14 quick (range loops had no decoding work in the body)",
   now="caught by C14 quick: every range scenario is also run with a nested range, a []rune conversion and a ranging callee inside the body (Utf8.tla: Range(s) is a function of s alone)"),
 "C15-a": dict(prop="C15", site="compiler/prelude/numeric.js $int64Key + types.js keyFor of int64/uint64",
   breaks="two keys address the same map entry exactly when == says they are equal (all integer widths, inside arrays, structs, interfaces)",
   needs="two unequal 64-bit keys in [2^53, 2^53+2^32) (high word 2^21: neighbours collapse as float64)",
   first="missed by C15 quick (64-bit pools had small high words only)",
   now="caught by C15 quick (6 violations): int64/uint64 pools of GoMapScen.tla around +-2^53 and near the extremes, also as array/struct elements"),
 "C18-a": dict(prop="C18", site="build/context.go goCtx (+ helper withDefaultTags)",
   breaks="the always-on tags gopherjs, netgo, purego and math_big_pure_go",
   needs="the command line names gopherjs itself as a tag (then the other default tags are dropped) and a file is guarded by netgo/purego/math_big_pure_go",
   first="missed by C18 quick (user tag sets were subsets of {u1,u2,wasm,go1.21})",
   now="caught by C18 quick (6 violations): user tag sets that repeat default tags"),
 "C20-a": dict(prop="C20", site="build/cache/cache.go BuildCache.commonKey (memoised)",
   breaks="an entry is returned only if it was stored under the same build configuration",
   needs="one BuildCache value is used, then one of its configuration fields is changed (or a copy is edited) and used again",
   first="missed by C20 quick (every operation built a fresh BuildCache literal)",
   now="caught by C20 quick (6 violations): every other operation of a child process reuses one long-lived BuildCache value whose fields are rewritten in place"),
}
for sid, t in T.items():
    d = os.path.join(ROOT, "seeded", sid)
    if not os.path.isdir(d):
        continue
    meta = {"id": sid, "property": t["prop"], "changed": t["site"], "breaks": t["breaks"], "needs_to_manifest": t["needs"],
            "origin": "written by a fresh sub-agent that was given only the property text, sandbox facts and its own scratch worktree (tools/seed_prompt_template.txt)",
            "confirmed_by": RAN, "files": ["patch.diff", "demo/", "AGENT_README.md", "demo-orig.txt", "demo-patched.txt"],
            "first_result": t["first"], "result_now": t["now"]}
    json.dump(meta, open(os.path.join(d, "meta.json"), "w"), indent=1)
    open(os.path.join(d, "meta.json"), "a").write("\n")
print("ok")
