#!/usr/bin/env python3
"""Prints the markdown table of DESIGN.md section 11 from /verif/seeded/*/meta.json."""
import json, glob, os
ROOT = os.path.dirname(os.path.dirname(os.path.abspath(__file__)))
print("| id | property | changed | first verdict of the quick tier | now |")
print("|---|---|---|---|---|")
for f in sorted(glob.glob(os.path.join(ROOT, "seeded", "*", "meta.json"))):
    m = json.load(open(f))
    cell = lambda x: x.replace("|", "\\|").replace("\n", " ")
    print("| %s | %s | %s | %s | %s |" % (m["id"], m["property"], cell(m["changed"]), cell(m["first_result"]), cell(m["result_now"])))
