#!/bin/bash
# Runs the repository's test suite with the verif guard OFF and compares the set
# of passing tests with the 777 stable passes of /root/.vp/BASELINE.json.
# usage: tools/baseline.sh [repo-dir]
REPO="${1:-/repo}"
export GOFLAGS=-mod=mod GOPROXY=off GOSUMDB=off GOTOOLCHAIN=local
OUT=$(mktemp)
(cd "$REPO" && go test -mod=mod -json -vet=off -count=1 -timeout 25m ./... > "$OUT" 2>/dev/null)
python3 - "$OUT" <<'PY'
import json,sys
passed=set()
for l in open(sys.argv[1]):
    try: e=json.loads(l)
    except Exception: continue
    if e.get('Action')=='pass' and e.get('Test'):
        passed.add(e['Package']+'::'+e['Test'])
base=set(json.load(open('/root/.vp/BASELINE.json'))['stable_pass'])
missing=sorted(base-passed)
print("baseline: %d/%d stable tests pass"%(len(base)-len(missing),len(base)))
for m in missing[:40]: print("  MISSING",m)
sys.exit(1 if missing else 0)
PY
rc=$?
rm -f "$OUT"
exit $rc
