#!/bin/bash
# tools/mutant.sh <patch-file> <Cnn> [quick|thorough]
# Applies a patch to a scratch worktree of /repo (outside /repo and /verif), runs
# the check against it through VERIF_REPO, prints its verdict and removes the
# worktree. Exit 0 = the check caught the change (exit 1 with a VIOLATION line).
set -u
PATCH="$(realpath "$1")"; ID="$2"; TIER="${3:-quick}"
WT="$(mktemp -d /tmp/verif-mut-XXXXXX)"
git -C /repo worktree add -q --detach "$WT/repo" HEAD || exit 2
cleanup() { git -C /repo worktree remove --force "$WT/repo" 2>/dev/null; rm -rf "$WT"; }
trap cleanup EXIT
if ! git -C "$WT/repo" apply "$PATCH"; then echo "patch does not apply"; exit 2; fi
if ! (cd "$WT/repo" && GOFLAGS=-mod=mod go build ./... ) ; then echo "mutant does not build"; exit 2; fi
OUT="$WT/out.txt"
VERIF_REPO="$WT/repo" VERIF_SCRATCH="$WT" VERIF_NO_EVIDENCE=1 "$(dirname "$0")/../check" "$ID" "$TIER" > "$OUT" 2>&1
rc=$?
grep -E "^VIOLATION|^KNOWN-FINDING|held on everything|INFRASTRUCTURE" "$OUT" | head -5
grep -A1 "^VIOLATION" "$OUT" | grep "^  " | head -3
echo "exit=$rc"
[ $rc -eq 1 ] && { echo "CAUGHT $(basename "$PATCH") by $ID $TIER"; exit 0; }
echo "MISSED $(basename "$PATCH") by $ID $TIER"; exit 1
