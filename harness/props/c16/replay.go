package c16

import (
	"encoding/json"
	"fmt"
	"os"
	"path/filepath"

	"verif/core"
)

// replayDirect re-decides one recorded scenario of the direct half (a replay
// directory holding direct.json) on the current working tree of /repo.  It
// returns false if the directory is not of this form.
func replayDirect(c *core.Ctx, dir string) bool {
	b, err := os.ReadFile(filepath.Join(dir, "direct.json"))
	if err != nil {
		return false
	}
	var d struct {
		Kind      string
		Input     []int
		WantToks  []string `json:"want_tokens"`
		WantHints []int    `json:"want_hint_positions"`
		Minify    bool
		Steps     []step
	}
	if err := json.Unmarshal(b, &d); err != nil {
		c.Infra(fmt.Errorf("replay %s: %v", dir, err))
		return true
	}
	c.Set("evaluations", 1)
	switch d.Kind {
	case "scanner":
		in := intsToBytes(d.Input)
		out, pan := realScan(in)
		toks, hints, terr := tokenizeJS(out)
		if pan != nil || terr != nil || !sameStrings(toks, d.WantToks) || !sameHintPos(hints, d.WantHints) {
			c.Report(core.Case{Keys: []string{"scanner_replay"}, Summary: fmt.Sprintf("removeWhitespace(%q) = %q (panic %v): tokens %q, the input has %q", in, out, pan, toks, d.WantToks)})
		}
	case "allocator":
		names, err := replayExports(d.Minify, d.Steps)
		if err != nil {
			c.Infra(err)
			return true
		}
		t := analyse(d.Steps)
		pr := checkProperty(d.Steps, names, t)
		if constructible(d.Steps) {
			if n2, err := replayConstructors(d.Minify, d.Steps); err == nil {
				pr = append(pr, checkProperty(d.Steps, n2, t)...)
			}
		}
		if len(pr) > 0 {
			c.Report(core.Case{Keys: []string{"allocator_replay"}, Summary: fmt.Sprintf("minify=%v: %s name %q at step %d; history %s", d.Minify, pr[0].kind, pr[0].name, pr[0].step, showSteps(d.Steps, names, len(d.Steps)))})
		}
	default:
		c.Infra(fmt.Errorf("replay %s: unknown kind %q", dir, d.Kind))
	}
	return true
}
