package c16

// Allocator part of the direct half: the allocation histories enumerated (or
// followed, for the long runs) by spec/Minify.tla SpecAlloc are replayed on the
// real funcContext.newVariable through the verif exports of package compiler;
// the returned names are compared with the model's and the reference property
// (never reserved; no capture along the scope chain in histories that obey the
// stack discipline) is decided on the real names.  JavaScript is the guard: a
// history is rendered as nested functions whose variables hold their step
// number, and Node reports which variables no longer do.

import (
	"bytes"
	"encoding/json"
	"fmt"
	"math/rand"
	"os"
	"os/exec"
	"path/filepath"
	"sort"
	"strings"

	"github.com/gopherjs/gopherjs/compiler"

	"verif/core"
	"verif/tlcx"
)

// step is one action of a history: Op "c" (create a child of scope S), "l"
// (allocate a local in S for Go name G), "p" (allocate package-level from S).
type step struct {
	Op string
	S  int
	G  string
}

func (s step) MarshalJSON() ([]byte, error) { return json.Marshal([]any{s.Op, s.S, s.G}) }
func (s *step) UnmarshalJSON(b []byte) error {
	var f []json.RawMessage
	if err := json.Unmarshal(b, &f); err != nil {
		return err
	}
	if len(f) != 3 {
		return fmt.Errorf("step with %d fields", len(f))
	}
	if err := json.Unmarshal(f[0], &s.Op); err != nil {
		return err
	}
	if err := json.Unmarshal(f[1], &s.S); err != nil {
		return err
	}
	return json.Unmarshal(f[2], &s.G)
}

type script struct {
	Min   bool   `json:"min"`
	Steps []step `json:"steps"`
}

// longScripts builds the long runs (>= 800 allocations): fixed ones that cross
// the 26 and 702 name boundaries in one scope, in a nested scope and at package
// level, and seeded random walks that obey the stack discipline.
func longScripts(rng *rand.Rand, thorough bool) []script {
	rep := func(n int, st step) []step {
		var out []step
		for i := 0; i < n; i++ {
			out = append(out, st)
		}
		return out
	}
	cat := func(parts ...[]step) []step {
		var out []step
		for _, p := range parts {
			out = append(out, p...)
		}
		return out
	}
	var out []script
	// 1: one scope, past 26 and 702 locals (and past the reserved do, if, in)
	out = append(out, script{Min: true, Steps: rep(830, step{"l", 1, "x"})})
	// 2: nested function contexts as nestedFunctionContext creates them
	out = append(out, script{Min: true, Steps: cat(
		rep(5, step{"p", 1, "T"}), rep(20, step{"l", 1, "x"}),
		[]step{{"c", 1, ""}, {"p", 2, "f"}}, rep(760, step{"l", 2, "x"}), rep(40, step{"p", 2, "T"}),
		[]step{{"c", 2, ""}, {"p", 3, "g"}}, rep(60, step{"l", 3, "x"}), rep(10, step{"p", 3, "T"}),
		rep(20, step{"l", 2, "x"}), rep(20, step{"p", 1, "T"}), rep(20, step{"l", 1, "x"}))})
	// 3: package level past 702 names, allocated from a nested scope
	out = append(out, script{Min: true, Steps: cat(
		[]step{{"c", 1, ""}, {"p", 2, "f"}, {"c", 2, ""}, {"p", 3, "g"}}, rep(10, step{"l", 3, "x"}), rep(810, step{"p", 3, "T"}),
		rep(30, step{"l", 3, "x"}), rep(30, step{"l", 2, "x"}), rep(30, step{"l", 1, "x"}))})
	plainNames := []string{"x", "x", "x", "y", "in", "do", "x$ptr", "$r"}
	walk := func(min bool, n int) script {
		par := []int{0, 0} // 1-based
		closed := map[int]bool{}
		cur := 1
		var steps []step
		isAnc := func(a, s int) bool {
			for s = par[s]; s != 0; s = par[s] {
				if s == a {
					return true
				}
			}
			return false
		}
		for len(steps) < n {
			g := "x"
			if !min {
				g = plainNames[rng.Intn(len(plainNames))]
			}
			switch r := rng.Intn(100); {
			case r < 4 && len(par)-1 < 6:
				par = append(par, cur)
				steps = append(steps, step{"c", cur, ""})
				cur = len(par) - 1
				if rng.Intn(4) > 0 {
					steps = append(steps, step{"p", cur, g})
				}
			case r < 8 && par[cur] != 0:
				// return to the parent: the scope is closed for good
				closed[cur] = true
				for d := 1; d < len(par); d++ {
					if isAnc(cur, d) {
						closed[d] = true
					}
				}
				cur = par[cur]
			case r < 30:
				steps = append(steps, step{"p", cur, g})
			default:
				steps = append(steps, step{"l", cur, g})
			}
		}
		return script{Min: min, Steps: steps}
	}
	// 4: not minified, shadowed and reserved Go names, synthetic names with $
	out = append(out, walk(false, 820))
	out = append(out, walk(true, 820))
	if thorough {
		for i := 0; i < 4; i++ {
			out = append(out, walk(true, 900), walk(false, 900))
		}
	}
	return out
}

type allocCase struct {
	si    int
	min   bool
	steps []step
	names []string
	bad   int
}

func decodeAllocCase(raw json.RawMessage, scripts []script) (*allocCase, error) {
	var inner string
	if err := json.Unmarshal(raw, &inner); err != nil {
		return nil, err
	}
	var f []json.RawMessage
	if err := json.Unmarshal([]byte(inner), &f); err != nil {
		return nil, err
	}
	if len(f) != 5 {
		return nil, fmt.Errorf("allocator record with %d fields", len(f))
	}
	a := &allocCase{}
	if err := json.Unmarshal(f[0], &a.si); err != nil {
		return nil, err
	}
	if err := json.Unmarshal(f[1], &a.min); err != nil {
		return nil, err
	}
	if a.si == 0 {
		if err := json.Unmarshal(f[2], &a.steps); err != nil {
			return nil, err
		}
	} else {
		if a.si > len(scripts) {
			return nil, fmt.Errorf("script index %d", a.si)
		}
		a.steps = scripts[a.si-1].Steps
	}
	if err := json.Unmarshal(f[3], &a.names); err != nil {
		return nil, err
	}
	if err := json.Unmarshal(f[4], &a.bad); err != nil {
		return nil, err
	}
	if len(a.names) != len(a.steps) {
		return nil, fmt.Errorf("history of %d steps with %d names", len(a.steps), len(a.names))
	}
	return a, nil
}

// replayExports drives the real allocator through VerifNewNameScope / Nested /
// NewVariable.
func replayExports(min bool, steps []step) (names []string, err error) {
	defer func() {
		if r := recover(); r != nil {
			err = fmt.Errorf("panic: %v", r)
		}
	}()
	scopes := []*compiler.VerifNameScope{nil, compiler.VerifNewNameScope(min)}
	for _, st := range steps {
		switch st.Op {
		case "c":
			scopes = append(scopes, scopes[st.S].Nested())
			names = append(names, "")
		default:
			names = append(names, scopes[st.S].NewVariable(st.G, st.Op == "p"))
		}
	}
	return names, nil
}

// constructible reports whether every creation is directly followed by the
// package-level allocation in the new scope, which is how the compiler itself
// creates scopes (nestedFunctionContext allocates the function's own name).
func constructible(steps []step) bool {
	n := 1
	for i, st := range steps {
		if st.Op != "c" {
			continue
		}
		n++
		if i+1 >= len(steps) || steps[i+1].Op != "p" || steps[i+1].S != n || steps[i+1].G == "" {
			return false
		}
	}
	return true
}

// replayConstructors drives the allocator through the real newRootCtx and
// nestedFunctionContext (scope_verif.go); only for constructible histories.
func replayConstructors(min bool, steps []step) (names []string, err error) {
	defer func() {
		if r := recover(); r != nil {
			err = fmt.Errorf("panic: %v", r)
		}
	}()
	scopes := []*compiler.VerifNameScope{nil, compiler.VerifNewRootScope(min)}
	for i := 0; i < len(steps); i++ {
		st := steps[i]
		switch st.Op {
		case "c":
			child, ref := scopes[st.S].NestedFunc(steps[i+1].G)
			scopes = append(scopes, child)
			names = append(names, "", ref)
			i++
		default:
			names = append(names, scopes[st.S].NewVariable(st.G, st.Op == "p"))
		}
	}
	return names, nil
}

// tree is the scope tree of a history with the stack discipline evaluated.
type tree struct {
	par []int // 1-based, par[1] = 0
	bad int   // first undisciplined step (1-based), 0 if none
}

func (t *tree) isAnc(a, s int) bool {
	for s = t.par[s]; s != 0; s = t.par[s] {
		if s == a {
			return true
		}
	}
	return false
}

func analyse(steps []step) *tree {
	t := &tree{par: []int{0, 0}}
	closed := map[int]bool{}
	for k, st := range steps {
		if closed[st.S] && t.bad == 0 {
			t.bad = k + 1
		}
		for d := 1; d < len(t.par); d++ {
			if t.isAnc(st.S, d) {
				closed[d] = true
			}
		}
		if st.Op == "c" {
			t.par = append(t.par, st.S)
		}
	}
	return t
}

// esReserved: words a strict-mode JavaScript program cannot declare with var
// (ECMA-262 reserved words, strict-mode reserved words, eval and arguments).
var esReserved = map[string]bool{}

func init() {
	for _, w := range strings.Fields(`await break case catch class const continue debugger default delete do else enum export
		extends false finally for function if import in instanceof new null return super switch this throw true try typeof var void
		while with yield let static implements interface package private protected public eval arguments`) {
		esReserved[w] = true
	}
}

type allocProblem struct {
	kind string // reserved | capture
	step int    // 1-based
	with int    // the earlier step (capture)
	name string
}

// checkProperty decides the reference property on the names a history returned:
// never reserved (all steps), no capture (steps before the first undisciplined one).
func checkProperty(steps []step, names []string, t *tree) []allocProblem {
	var out []allocProblem
	owner := func(k int) int {
		if steps[k].Op == "p" {
			return 1
		}
		return steps[k].S
	}
	// per owner scope: name -> first step that returned it
	owned := map[int]map[string]int{}
	for k, st := range steps {
		if st.Op == "c" {
			continue
		}
		n := names[k]
		if compiler.VerifIsReserved(n) || esReserved[n] {
			out = append(out, allocProblem{kind: "reserved", step: k + 1, name: n})
		}
		if t.bad == 0 || k+1 < t.bad {
			for s := st.S; s != 0; s = t.par[s] {
				if j, ok := owned[s][n]; ok {
					out = append(out, allocProblem{kind: "capture", step: k + 1, with: j + 1, name: n})
					break
				}
			}
		}
		o := owner(k)
		if owned[o] == nil {
			owned[o] = map[string]int{}
		}
		if _, ok := owned[o][n]; !ok {
			owned[o][n] = k
		}
	}
	return out
}

// renderJS renders a disciplined history as JavaScript: every scope is a
// function, every allocation a variable declared in its owner's function (package
// level: the outermost one) and assigned its step number from the allocating
// scope; when a scope ends it verifies every variable it can see (its own and
// its ancestors', allocated so far).  The function returns the list of
// variables that do not hold their number: that is JavaScript's own answer to
// "did a name capture another variable".
func renderJS(steps []step, names []string, t *tree) string {
	n := len(t.par) - 1
	type scopeText struct {
		decl []string
		body strings.Builder
	}
	sc := make([]*scopeText, n+1)
	for i := 1; i <= n; i++ {
		sc[i] = &scopeText{}
	}
	type v struct {
		name  string
		id    int
		owner int
	}
	var vars []v
	endCheck := func(s int) string {
		var b strings.Builder
		for _, x := range vars {
			if x.owner == s || t.isAnc(x.owner, s) {
				fmt.Fprintf(&b, "if (%s !== %d) $bad.push(%d);\n", x.name, x.id, x.id)
			}
		}
		return b.String()
	}
	// children are spliced into their parent's body when they close; a scope closes
	// when a proper ancestor acts or the history ends
	open := []int{1}
	closeDownTo := func(s int) {
		for len(open) > 0 && open[len(open)-1] != s {
			d := open[len(open)-1]
			open = open[:len(open)-1]
			p := t.par[d]
			fmt.Fprintf(&sc[p].body, "(function () {\nvar %s;\n%s%s})();\n", strings.Join(append([]string{"$none"}, sc[d].decl...), ", "), sc[d].body.String(), endCheck(d))
		}
	}
	nscopes := 1
	for k, st := range steps {
		closeDownTo(st.S)
		if st.Op == "c" {
			nscopes++
			open = append(open, nscopes)
			continue
		}
		owner := st.S
		if st.Op == "p" {
			owner = 1
		}
		sc[owner].decl = append(sc[owner].decl, names[k])
		fmt.Fprintf(&sc[st.S].body, "%s = %d;\n", names[k], k+1)
		vars = append(vars, v{names[k], k + 1, owner})
	}
	closeDownTo(1)
	return fmt.Sprintf("\"use strict\";\nvar $bad = [];\nvar %s;\n%s%sreturn $bad;\n", strings.Join(append([]string{"$none"}, sc[1].decl...), ", "), sc[1].body.String(), endCheck(1))
}

type jsVerdict struct {
	ID     int
	Bad    []int
	Syntax string
}

const allocGuardScript = `
const fs = require('fs');
const lines = fs.readFileSync(process.argv[2], 'utf8').split('\n');
const out = [];
for (const l of lines) {
  if (!l) continue;
  const j = JSON.parse(l);
  let r = {ID: j.id, Bad: [], Syntax: ''};
  try { r.Bad = new Function(j.src)(); } catch (e) { r.Syntax = e.name + ': ' + e.message; }
  out.push(JSON.stringify(r));
}
process.stdout.write(out.join('\n') + '\n');
`

// jsGuard runs rendered histories under Node.
func jsGuard(c *core.Ctx, srcs map[int]string) (map[int]jsVerdict, error) {
	res := map[int]jsVerdict{}
	if len(srcs) == 0 {
		return res, nil
	}
	dir, err := os.MkdirTemp(c.Scratch, "allocguard-")
	if err != nil {
		return nil, err
	}
	var buf bytes.Buffer
	enc := json.NewEncoder(&buf)
	enc.SetEscapeHTML(false)
	ids := make([]int, 0, len(srcs))
	for id := range srcs {
		ids = append(ids, id)
	}
	sort.Ints(ids)
	for _, id := range ids {
		enc.Encode(map[string]any{"id": id, "src": srcs[id]})
	}
	if err := os.WriteFile(filepath.Join(dir, "histories.ndjson"), buf.Bytes(), 0o644); err != nil {
		return nil, err
	}
	if err := os.WriteFile(filepath.Join(dir, "guard.js"), []byte(allocGuardScript), 0o644); err != nil {
		return nil, err
	}
	cmd := exec.Command("node", "--max-old-space-size=4096", filepath.Join(dir, "guard.js"), filepath.Join(dir, "histories.ndjson"))
	var stderr bytes.Buffer
	cmd.Stderr = &stderr
	outb, err := cmd.Output()
	if err != nil {
		return nil, fmt.Errorf("%v: %s", err, stderr.String())
	}
	for _, l := range strings.Split(string(outb), "\n") {
		if l == "" {
			continue
		}
		var v jsVerdict
		if err := json.Unmarshal([]byte(l), &v); err != nil {
			return nil, fmt.Errorf("bad line from node: %q", l)
		}
		res[v.ID] = v
	}
	if len(res) != len(srcs) {
		return nil, fmt.Errorf("node answered %d of %d histories", len(res), len(srcs))
	}
	return res, nil
}

func showSteps(steps []step, names []string, upto int) string {
	var b strings.Builder
	for k, st := range steps {
		if k >= upto {
			break
		}
		if len(steps) > 40 && k < upto-12 && k > 6 {
			if k == 7 {
				b.WriteString("... ")
			}
			continue
		}
		switch st.Op {
		case "c":
			fmt.Fprintf(&b, "child(%d); ", st.S)
		case "l":
			fmt.Fprintf(&b, "local(%d,%q)=%s; ", st.S, st.G, names[k])
		case "p":
			fmt.Fprintf(&b, "pkg(%d,%q)=%s; ", st.S, st.G, names[k])
		}
	}
	return b.String()
}

func runAllocator(c *core.Ctx, dir string, p directParams, rng *rand.Rand) {
	files, _ := filepath.Glob(filepath.Join(dir, p.AOut+"*"))
	sort.Strings(files)
	var cases []*allocCase
	seen := map[string]bool{}
	for _, f := range files {
		err := tlcx.ReadNDJSON(f, func(raw json.RawMessage) error {
			a, err := decodeAllocCase(raw, p.Scripts)
			if err != nil {
				return err
			}
			key := string(raw)
			if a.si > 0 {
				key = fmt.Sprintf("script %d", a.si)
			}
			if seen[key] {
				return nil
			}
			seen[key] = true
			cases = append(cases, a)
			return nil
		})
		if err != nil {
			c.Infra(fmt.Errorf("decode %s: %v", f, err))
			return
		}
	}
	nscripts := 0
	for _, a := range cases {
		if a.si > 0 {
			nscripts++
		}
	}
	if nscripts != len(p.Scripts) {
		c.Infra(fmt.Errorf("TLC followed %d of %d long runs", nscripts, len(p.Scripts)))
		return
	}
	type result struct {
		drift, driftCtor string
		problems         []allocProblem
		real             []string
		t                *tree
		err              error
		disciplined      bool
		ctor             bool
	}
	results := make([]result, len(cases))
	c.ParMap(len(cases), func(i int) {
		a := cases[i]
		r := &results[i]
		r.t = analyse(a.steps)
		if r.t.bad != a.bad {
			r.err = fmt.Errorf("stack discipline: Minify.tla says first undisciplined step %d, the harness %d, history %s", a.bad, r.t.bad, showSteps(a.steps, a.names, len(a.steps)))
			return
		}
		r.disciplined = r.t.bad == 0
		real, err := replayExports(a.min, a.steps)
		if err != nil {
			r.err = fmt.Errorf("allocator %v on %s", err, showSteps(a.steps, a.names, len(a.steps)))
			return
		}
		r.real = real
		for k := range real {
			if real[k] != a.names[k] {
				r.drift = fmt.Sprintf("step %d: model %q, newVariable %q in %s", k+1, a.names[k], real[k], showSteps(a.steps, real, k+1))
				break
			}
		}
		r.problems = checkProperty(a.steps, real, r.t)
		if constructible(a.steps) {
			r.ctor = true
			real2, err := replayConstructors(a.min, a.steps)
			if err != nil {
				r.err = fmt.Errorf("allocator (real constructors) %v on %s", err, showSteps(a.steps, a.names, len(a.steps)))
				return
			}
			for k := range real2 {
				if real2[k] != a.names[k] {
					r.driftCtor = fmt.Sprintf("step %d: model %q, newRootCtx/nestedFunctionContext/newVariable %q in %s", k+1, a.names[k], real2[k], showSteps(a.steps, real2, k+1))
					break
				}
			}
			// the property is decided on these names too
			if pr := checkProperty(a.steps, real2, r.t); len(pr) > 0 && len(r.problems) == 0 {
				r.problems = pr
				r.real = real2
			}
		}
	})
	var ndisc, nctor, ndrift, nsteps, nlong int
	driftSample := ""
	// JavaScript guard: every history with a problem, all long runs that obey the
	// discipline, and a seeded sample of the enumerated disciplined histories
	guardSrc := map[int]string{}
	var pool []int
	for i, r := range results {
		if r.err != nil {
			c.Infra(r.err)
			return
		}
		a := cases[i]
		nsteps += len(a.steps)
		if a.si > 0 {
			nlong++
		}
		if r.disciplined {
			ndisc++
		}
		if r.ctor {
			nctor++
		}
		if r.drift != "" || r.driftCtor != "" {
			ndrift++
			if driftSample == "" {
				driftSample = r.drift
				if driftSample == "" {
					driftSample = r.driftCtor
				}
			}
		}
		c.Distinct("alloc:" + fmt.Sprint(a.min, a.steps))
		switch {
		case len(r.problems) > 0 && r.problems[0].kind == "reserved":
			guardSrc[i] = fmt.Sprintf("\"use strict\";\nvar %s;\nreturn [];\n", r.problems[0].name)
		case len(r.problems) > 0:
			guardSrc[i] = renderJS(prefix(a.steps, r.t), r.real, r.t)
		case r.disciplined && a.si > 0:
			guardSrc[i] = renderJS(a.steps, r.real, r.t)
		case r.disciplined:
			pool = append(pool, i)
		}
	}
	rng.Shuffle(len(pool), func(i, j int) { pool[i], pool[j] = pool[j], pool[i] })
	sampleN := c.Pick(4000, 20000)
	if len(pool) > sampleN {
		pool = pool[:sampleN]
	}
	for _, i := range pool {
		guardSrc[i] = renderJS(cases[i].steps, results[i].real, results[i].t)
	}
	verdicts, err := jsGuard(c, guardSrc)
	if err != nil {
		c.Infra(fmt.Errorf("JavaScript guard of the allocator: %v", err))
		return
	}
	discards := 0
	for i, r := range results {
		a := cases[i]
		v, guarded := verdicts[i]
		if len(r.problems) == 0 {
			if guarded && (len(v.Bad) > 0 || v.Syntax != "") {
				// JavaScript sees a capture the property does not: the guard disagrees with the specification
				discards++
				fmt.Printf("note: JavaScript reports %v %s on a history the property accepts: %s\n", v.Bad, v.Syntax, showSteps(a.steps, r.real, len(a.steps)))
			}
			continue
		}
		pr := r.problems[0]
		confirmed := false
		switch pr.kind {
		case "reserved":
			confirmed = v.Syntax != ""
		case "capture":
			confirmed = len(v.Bad) > 0
		}
		if !confirmed {
			discards++
			continue
		}
		var key, what string
		if pr.kind == "reserved" {
			key = "allocator_reserved_word"
			what = fmt.Sprintf("newVariable returned the reserved word %q at step %d (JavaScript: %s)", pr.name, pr.step, v.Syntax)
		} else {
			key = "allocator_name_capture"
			what = fmt.Sprintf("newVariable returned %q at step %d although step %d returned it for the same scope or an ancestor (JavaScript: variables of steps %v lost their value)", pr.name, pr.step, pr.with, v.Bad)
		}
		sj, _ := json.Marshal(map[string]any{"kind": "allocator", "minify": a.min, "steps": a.steps[:pr.step], "model_names": a.names[:pr.step], "real_names": r.real[:pr.step]})
		c.Report(core.Case{Keys: []string{key}, Summary: fmt.Sprintf("minify=%v: %s; history %s", a.min, what, showSteps(a.steps, r.real, pr.step)),
			Files: map[string]string{"direct.json": string(sj) + "\n", "history.js": guardSrc[i]}})
	}
	c.Add("evaluations", len(cases))
	c.Add("traces_validated_against_impl", len(cases)-discards)
	c.Add("spec_guard_discards", discards)
	c.Set("allocator_histories", len(cases))
	c.Set("allocator_histories_stack_disciplined", ndisc)
	c.Set("allocator_histories_through_real_constructors", nctor)
	c.Set("allocator_long_runs", nlong)
	c.Set("allocator_steps", nsteps)
	c.Set("allocator_model_drift", ndrift)
	c.Set("allocator_js_guard_histories", len(guardSrc))
	if ndrift > 0 {
		fmt.Printf("MODEL-DRIFT property=C16 part=allocator: newVariable returns other names than the implementation model of Minify.tla in %d histories (the property is decided on the real names regardless), e.g. %s\n", ndrift, driftSample)
		if driftFatal() {
			c.Report(core.Case{Keys: []string{"model_drift_allocator"}, Summary: "newVariable differs from the allocator model of Minify.tla: " + driftSample})
		}
	}
	for i, a := range cases {
		if a.si == 0 && results[i].disciplined && len(a.steps) > 0 && a.steps[0].Op == "c" && a.steps[len(a.steps)-1].Op == "p" {
			c.Sample(map[string]any{"part": "allocator", "minify": a.min, "history": showSteps(a.steps, results[i].real, len(a.steps))})
			break
		}
	}
}

// prefix returns the disciplined prefix of a history (all of it if disciplined).
func prefix(steps []step, t *tree) []step {
	if t.bad == 0 {
		return steps
	}
	return steps[:t.bad-1]
}
