// Package c16 decides C16 (see DESIGN.md section 4). Not built yet.
package c16
