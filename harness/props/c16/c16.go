// Package c16 decides C16 (minification preserves behaviour): the MiniGo
// programs built with Minify must print what spec/MiniGo.tla predicts (the same
// prediction the unminified builds are held to), in the plain and in the
// resumable form.  The scanner and the name allocator are additionally driven
// directly through the verif exports against spec/Minify.tla (scanner.go,
// tokenize.go, allocator.go).
package c16

import (
	"os"

	"verif/core"
	"verif/gjs"
	"verif/props/minigo"
	"verif/reg"
)

func init() { reg.Register("C16", "model_checking", Run) }

// Run is the C16 check.
func Run(c *core.Ctx, pool *gjs.Pool) {
	if rd := os.Getenv("VERIF_REPLAY"); rd != "" && replayDirect(c, rd) {
		return
	}
	if os.Getenv("VERIF_C16_DIRECT_ONLY") == "" { // development aid: skip the end-to-end half
		minigo.Check(c, pool, minigo.Config{Prop: "C16", Families: true, Random: c.Pick(250, 5000), Random2: c.Pick(120, 3000), NodeCheck: true,
			Modes: []minigo.Mode{{Name: "minified-plain", Minify: true}, {Name: "minified-resumable", Flat: true, Minify: true, Masks: c.Pick(2, 8)}}})
	}
	runDirect(c)
	runWitnesses(c, pool)
}
