package c16

// Witness programs for C16: small hand-written programs, one per place where the
// minifier interacts with the rest of the compiler in a way the MiniGo fragment
// cannot express (generic instances sharing cached names, identifiers and labels
// outside ASCII, string literals that end in a backslash, Go names that are
// JavaScript keywords, more locals than one-letter names, ...).  The statement of
// the property is the oracle: the minified build prints what the unminified build
// prints (the reference toolchain guards the program itself), and the name
// allocator's invariant of Minify.tla (Distinct: the names declared in one
// JavaScript scope are pairwise distinct) is read off the emitted `var` lists.

import (
	"fmt"
	"os"
	"path/filepath"
	"regexp"
	"sort"
	"strings"
	"time"

	"verif/core"
	"verif/gjs"
)

type witness struct {
	name string
	key  string // classifier key of a known finding the witness reproduces ("" = none)
	src  string
}

var witnesses = []witness{
	{name: "generic_ptr_of_local", key: "varptr_name_shared_by_generic_instances", src: `package main

func inc(p *int) { *p = *p + 1 }

func g[T any](v T, n int) int {
	x := n
	inc(&x)
	y := n * 100
	inc(&x)
	return x + y
}

func main() {
	println(g[int](1, 5))
	println(g[string]("a", 7))
	println(g[bool](true, 9))
}
`},
	{name: "nonascii_identifiers_and_labels", src: `package main

func main() {
	n := 0
äußere:
	for i := 0; i < 3; i++ {
		for j := 0; j < 3; j++ {
			if j == 1 {
				continue äußere
			}
			if i == 2 {
				break äußere
			}
			n++
		}
	}
	println(n)
	größe := 3
	return_ := größe + 1
	println(größe, return_)
	goto ende
ende:
	println("ende")
}
`},
	{name: "string_ending_in_backslash", src: `package main

func path() string {
	dir := "C:\\tmp\\"
	sep := " : "
	msg := "empty, skipped /* not a comment */ ( x ) - - y"
	return dir + "a.txt" + sep + msg
}

func quoted() string {
	q := "say \"hi\" \\"
	r := " + + ; { } "
	return q + r
}

func main() {
	s := path()
	for i := 0; i < len(s); i++ {
		print(int(s[i]), " ")
	}
	println()
	t := quoted()
	for i := 0; i < len(t); i++ {
		print(int(t[i]), " ")
	}
	println()
}
`},
	{name: "go_names_that_are_js_keywords", src: `package main

var new = 1
var typeof = 2
var delete_ = 3

func function(in, do, this int) (void int) {
	let := in + do
	yield := this * 2
	void = let + yield
	return
}

type class struct{ super, arguments int }

func (instanceof class) eval() int { return instanceof.super - instanceof.arguments }

func main() {
	var with, null, undefined = 4, 5, 6
	println(new, typeof, delete_, function(1, 2, 3), class{9, 4}.eval(), with, null, undefined)
	const enum, export = 7, 8
	println(enum + export)
}
`},
	{name: "operators_next_to_each_other", src: `package main

func main() {
	x, y := 7, 3
	p := &y
	a := x - -y
	b := x + +y
	c := x - -(-y)
	d := x / *p
	e := - -x
	f := -(-x) - -1
	g := x & ^y
	h := x &^ -y
	i := x<<1 - -y>>1
	x--
	j := x - -1
	y++
	k := y + +1
	println(a, b, c, d, e, f, g, h, i, j, k)
}
`},
	{name: "many_locals", src: manyLocals(60)},
	{name: "shadowing_and_closures", src: `package main

var a = 1

func f(a int) func() int {
	b := a
	return func() int {
		a := b + 1
		{
			a := a * 2
			b := a + 1
			_ = b
			func() { a := 100; _ = a }()
			return a + b
		}
	}
}

func main() {
	g := f(a + 1)
	println(g(), a)
	for a := 0; a < 2; a++ {
		a := a * 10
		println(a)
	}
}
`},
	// (takes the address of locals in a generic function as well: shows the same finding as the first witness)
	{name: "generic_instances_with_locals", key: "varptr_name_shared_by_generic_instances", src: `package main

type pair[T any] struct{ l, r T }

func (p *pair[T]) swap() { p.l, p.r = p.r, p.l }

func mk[T any](a, b T) pair[T] {
	t := pair[T]{a, b}
	q := &t
	q.swap()
	c := a
	d := &c
	*d = b
	_ = d
	return t
}

func main() {
	x := mk(1, 2)
	y := mk("a", "b")
	z := mk(1.5, 2.5)
	println(x.l, x.r, y.l, y.r, z.l == 2.5, z.r == 1.5)
}
`},
}

func manyLocals(n int) string {
	var b strings.Builder
	b.WriteString("package main\n\nfunc main() {\n")
	for i := 0; i < n; i++ {
		fmt.Fprintf(&b, "\tv%d := %d\n", i, i)
	}
	b.WriteString("\tsum := 0\n")
	for i := 0; i < n; i++ {
		fmt.Fprintf(&b, "\tsum += func() int { w%d := v%d * 2; return w%d }()\n", i, i, i)
	}
	b.WriteString("\tprintln(sum)\n}\n")
	return b.String()
}

var reVarList = regexp.MustCompile(`\bvar ([A-Za-z_$][A-Za-z0-9_$]*(?:,[A-Za-z_$][A-Za-z0-9_$]*)+);`)

// duplicateDecl returns a `var` list of the emitted program code that declares one
// name twice ("" if none). Only the code after the prelude is scanned.
func duplicateDecl(js string) string {
	if i := strings.Index(js, "$packages[\""); i >= 0 {
		js = js[i:]
	}
	for _, m := range reVarList.FindAllStringSubmatch(js, -1) {
		names := strings.Split(m[1], ",")
		sort.Strings(names)
		for i := 1; i < len(names); i++ {
			if names[i] == names[i-1] {
				return "var " + m[1] + ";  (" + names[i] + " twice)"
			}
		}
	}
	return ""
}

func runWitnesses(c *core.Ctx, pool *gjs.Pool) {
	type result struct {
		report *core.Case
		infra  error
		note   string
	}
	res := make([]result, len(witnesses))
	c.ParMap(len(witnesses), func(i int) {
		w := witnesses[i]
		prog := gjs.Prog{Files: map[string]string{"main.go": w.src}}
		plain := pool.RunBoth(c.Scratch, prog, gjs.Opts{}, time.Minute, true, false)
		if plain.BuildErr != nil || plain.NativeErr != "" {
			// the program itself is not accepted: not a question of minification
			res[i].note = "not built: " + fmt.Sprint(plain.BuildErr, plain.NativeErr)
			return
		}
		if !plain.JS.Same(plain.Native) {
			// the unminified build already differs from the reference toolchain: C01's business
			res[i].note = "unminified build differs from the reference toolchain (not judged here)"
			return
		}
		min := pool.RunBoth(c.Scratch, prog, gjs.Opts{Minify: true}, time.Minute, false, true)
		if min.Dir != "" {
			defer os.RemoveAll(min.Dir)
		}
		files := prog.ReplayFiles("prog")
		files["predicted.txt"] = strings.Join(plain.JS.Lines, "\n") + "\nend=" + plain.JS.End + "\n"
		keys := []string{}
		if w.key != "" {
			keys = append(keys, w.key)
		}
		if min.BuildErr != nil {
			if _, ok := min.BuildErr.(*gjs.BuildError); !ok {
				res[i].infra = min.BuildErr
				return
			}
			res[i].report = &core.Case{Keys: keys, Summary: fmt.Sprintf("witness %s: the minified build fails although the unminified build succeeds: %v", w.name, min.BuildErr), Files: files}
			return
		}
		js, _ := os.ReadFile(filepath.Join(min.Dir, "out.js"))
		if !min.JS.Same(plain.JS) {
			files["observed.txt"] = min.JS.Raw + "\nend=" + min.JS.End + " " + min.JS.Msg + "\n"
			res[i].report = &core.Case{Keys: keys, Summary: fmt.Sprintf("witness %s: the minified build prints %q (end=%s %s), the unminified build and the reference toolchain print %q", w.name, strings.Join(min.JS.Lines, "|"), min.JS.End, min.JS.Msg, strings.Join(plain.JS.Lines, "|")), Files: files}
			return
		}
		if d := duplicateDecl(string(js)); d != "" {
			res[i].report = &core.Case{Keys: keys, Summary: fmt.Sprintf("witness %s: the minified code declares one name twice in one scope (Minify.tla Distinct): %s", w.name, d), Files: files}
		}
	})
	judged := 0
	var notes []string
	for i, r := range res {
		if r.infra != nil {
			c.Infra(r.infra)
			return
		}
		if r.note != "" {
			notes = append(notes, witnesses[i].name+": "+r.note)
			continue
		}
		judged++
		c.Distinct("witness/" + witnesses[i].name)
		if r.report != nil {
			c.Report(*r.report)
		}
	}
	c.Set("witness_programs_judged", judged)
	if len(notes) > 0 {
		c.Set("witness_programs_not_judged", notes)
	}
	c.Add("evaluations", 2*judged)
	c.Add("traces_validated_against_impl", judged)
}
