package c16

// A small JavaScript tokenizer for the subset of the language the scanner cases
// are written in, independent of the one in spec/Minify.tla (RefTok): it first
// deletes the source-map hints (what sourcemapx.Filter does before the text
// reaches a JavaScript engine), then cuts the remaining text into identifiers,
// decimal numbers, double-quoted string literals and punctuators (`--`, `++`,
// `//` and single characters), dropping white space and /* */ comments.  No
// regular expression literals, no template literals, no line comments (`//`
// is returned as a token so that a `/ /` merged into `//` is seen).

import (
	"encoding/binary"
	"fmt"
)

// hintAt is a source-map hint found in a text: its bytes and its position,
// counted in token bytes in front of it.
type hintAt struct {
	pos   int
	bytes []byte
}

type rawHint struct {
	off   int // offset in the text without hints
	bytes []byte
}

// splitHints separates the hints (0x08, 16-bit big-endian size, payload) from
// the text.
func splitHints(b []byte) (text []byte, hints []rawHint, err error) {
	for i := 0; i < len(b); {
		if b[i] != 8 {
			text = append(text, b[i])
			i++
			continue
		}
		if i+3 > len(b) {
			return nil, nil, fmt.Errorf("truncated hint header at %d", i)
		}
		n := 3 + int(binary.BigEndian.Uint16(b[i+1:i+3]))
		if i+n > len(b) {
			return nil, nil, fmt.Errorf("truncated hint payload at %d", i)
		}
		hints = append(hints, rawHint{off: len(text), bytes: append([]byte(nil), b[i:i+n]...)})
		i += n
	}
	return text, hints, nil
}

func stripHints(b []byte) []byte {
	t, _, err := splitHints(b)
	if err != nil {
		return b
	}
	return t
}

func isIDStart(c byte) bool {
	return c == '_' || c == '$' || (c >= 'a' && c <= 'z') || (c >= 'A' && c <= 'Z') || c >= 0x80
}
func isDigit(c byte) bool { return c >= '0' && c <= '9' }

type span struct{ from, to int }

// tokenizeJS returns the tokens of b and its hints with their positions.
func tokenizeJS(b []byte) (toks []string, hints []hintAt, err error) {
	text, raw, err := splitHints(b)
	if err != nil {
		return nil, nil, err
	}
	var spans []span
	i := 0
	for i < len(text) {
		c := text[i]
		j := i
		switch {
		case c == ' ' || c == '\t' || c == '\n':
			i++
			continue
		case c == '/' && i+1 < len(text) && text[i+1] == '*':
			k := i + 2
			for ; k+1 < len(text); k++ {
				if text[k] == '*' && text[k+1] == '/' {
					break
				}
			}
			if k+1 >= len(text) {
				return nil, nil, fmt.Errorf("unterminated comment at %d", i)
			}
			i = k + 2
			continue
		case c == '/' && i+1 < len(text) && text[i+1] == '/':
			j = i + 2
		case c == '"':
			j = i + 1
			for {
				if j >= len(text) {
					return nil, nil, fmt.Errorf("unterminated string at %d", i)
				}
				if text[j] == '\\' {
					j += 2
					continue
				}
				if text[j] == '"' {
					j++
					break
				}
				j++
			}
		case isIDStart(c):
			for j < len(text) && (isIDStart(text[j]) || isDigit(text[j])) {
				j++
			}
		case isDigit(c):
			for j < len(text) && isDigit(text[j]) {
				j++
			}
		case (c == '-' || c == '+') && i+1 < len(text) && text[i+1] == c:
			j = i + 2
		default:
			j = i + 1
		}
		spans = append(spans, span{i, j})
		toks = append(toks, string(text[i:j]))
		i = j
	}
	for _, h := range raw {
		pos := 0
		for _, s := range spans {
			switch {
			case s.to <= h.off:
				pos += s.to - s.from
			case s.from < h.off:
				pos += h.off - s.from
			}
		}
		hints = append(hints, hintAt{pos: pos, bytes: h.bytes})
	}
	return toks, hints, nil
}

func sameHintPos(h []hintAt, pos []int) bool {
	if len(h) != len(pos) {
		return false
	}
	for i := range h {
		if h[i].pos != pos[i] {
			return false
		}
	}
	return true
}
