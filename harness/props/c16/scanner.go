package c16

// The direct half of C16: spec/Minify.tla enumerates (1) chunks of generated
// JavaScript for the whitespace/comment remover together with the token
// sequence the output must have, and (2) allocation histories for the name
// allocator together with the names the implementation model returns.  Both are
// replayed here on the real functions of /repo's compiler package (verif
// exports), and the reference properties are decided on what the real
// functions returned.
//
// There is no native Go guard for two internal functions; the guard is
// JavaScript itself: an independent tokenizer written here (tokenize.go) must
// agree with the specification about the INPUT of a scanner case before a
// difference on the output counts, Node evaluates input and output of every
// sampled case that is a valid expression, and allocation histories are
// rendered as nested JavaScript functions whose variables carry their step
// number (allocator.go).

import (
	"bytes"
	"encoding/json"
	"fmt"
	"math/rand"
	"os"
	"os/exec"
	"path/filepath"
	"sort"
	"strings"
	"sync"
	"time"

	"github.com/gopherjs/gopherjs/compiler"

	"verif/core"
	"verif/tlcx"
)

// driftFatal turns a divergence between the real function and the
// implementation-shaped model (which the reference property still accepts) into
// a reported case.  By the verdict rule of DESIGN 1.2 such a divergence is
// MODEL-DRIFT (stdout + evidence, exit 0); the switch exists to demonstrate the
// sensitivity of the binding.
func driftFatal() bool { return os.Getenv("VERIF_DRIFT_FATAL") != "" }

type directParams struct {
	SMax      int      `json:"smax"`
	SFull     int      `json:"sfull"`
	SCore     []int    `json:"score"`
	SOut      string   `json:"sout"`
	Free      []bool   `json:"free"`
	AMaxMin   int      `json:"amaxmin"`
	AMaxPlain int      `json:"amaxplain"`
	MaxScopes int      `json:"maxscopes"`
	Seeded    bool     `json:"seeded"`
	GoNames   []string `json:"gonames"`
	Scripts   []script `json:"scripts"`
	AOut      string   `json:"aout"`
	MaxIdx    int      `json:"maxidx"`
}

// runDirect is the second half of the C16 check (called by Run after the
// end-to-end half).
func runDirect(c *core.Ctx) {
	c.Assumef("scanner and allocator are internal functions without a native Go counterpart: the guard of the direct half is JavaScript itself (an independent tokenizer that must agree with Minify.tla on the input of a case; Node evaluating input and output of sampled cases; allocation histories rendered as nested JavaScript functions run under Node)")
	c.Assumef("scanner cases have the shapes the code generator emits (Minify.tla GenShape: chunk endings ;\\n }\\n {\\n :\\n, double-quoted strings, /* */ comments followed by white space, hints followed by an identifier or indentation, no `+ +`, no `/ /`); other enumerated cases are compared with the implementation model only")
	c.Assumef("allocator: the no-capture property is claimed for histories that obey the compiler's stack discipline (only the innermost open function context allocates; Minify.tla header); other interleavings are compared with the implementation model only")
	c.Assumef("a difference between a real function and the implementation-shaped model that the reference property accepts is MODEL-DRIFT (reported, exit 0), DESIGN 1.2")
	rng := rand.New(rand.NewSource(c.Seed))
	p := directParams{
		SMax: c.Pick(4, 5), SFull: c.Pick(4, 5), SCore: []int{1, 2, 4, 5, 6, 7, 9, 10, 13, 16, 18, 19, 20}, SOut: "scan",
		Free: []bool{true, false}, AMaxMin: c.Pick(6, 8), AMaxPlain: c.Pick(5, 6), MaxScopes: 3, Seeded: true,
		GoNames: []string{"x", "in"}, Scripts: longScripts(rng, c.Thorough()), AOut: "alloc.ndjson", MaxIdx: 1000,
	}
	if os.Getenv("VERIF_C16_SMALL") != "" { // development aid: smaller bounds than the quick tier
		p.SMax, p.SFull, p.AMaxMin, p.AMaxPlain = 3, 3, 5, 4
	}
	pj, _ := json.Marshal(p)
	files := map[string]string{"c16_params.json": string(pj)}
	var rs, ra *tlcx.Result
	var es, ea error
	var wg sync.WaitGroup
	wg.Add(2)
	go func() {
		defer wg.Done()
		rs, es = tlcx.Run(c, tlcx.Opts{Module: "Minify", Cfg: "SPECIFICATION SpecScan\nINVARIANT TokensPreserved EndsInCode EmitScan EmitAlphabet\nCHECK_DEADLOCK FALSE\n",
			Workers: (c.Workers*5 + 7) / 8, Timeout: 40 * time.Minute, Files: files, HeapMB: 6144})
	}()
	go func() {
		defer wg.Done()
		ra, ea = tlcx.Run(c, tlcx.Opts{Module: "Minify", Cfg: "SPECIFICATION SpecAlloc\nINVARIANT NeverReserved NoCapture AlphabetsDisjoint EmitAlloc\nCHECK_DEADLOCK FALSE\n",
			Workers: (c.Workers*3 + 7) / 8, Timeout: 40 * time.Minute, Files: files, HeapMB: 6144})
	}()
	wg.Wait()
	if !tlcx.MustComplete(c, rs, es, "Minify/SpecScan") || !tlcx.MustComplete(c, ra, ea, "Minify/SpecAlloc") {
		return
	}
	c.Phase("direct_tlc")
	c.Set("direct_tlc_wall_s", map[string]float64{"SpecScan": float64(int(rs.Wall.Seconds())), "SpecAlloc": float64(int(ra.Wall.Seconds()))})
	c.Set("direct_checker_cmd", "tlc Minify SpecScan (INVARIANT TokensPreserved EndsInCode EmitScan); tlc Minify SpecAlloc (INVARIANT NeverReserved NoCapture AlphabetsDisjoint EmitAlloc)")
	c.Set("direct_exhaustive", p.SFull >= p.SMax)
	c.Set("direct_rule", fmt.Sprintf("scanner: every sequence of <= %d items over the %d-item alphabet of Minify.tla (sequences longer than %d over a %d-item core alphabet) + one of 4 chunk endings by rotation; distinct non-trivial = generator-shaped cases holding at least one white-space, comment or hint item. allocator: every history of exactly %d (minified) / %d (not minified, Go names %v) create/alloc-local/alloc-package-level actions over <= %d scopes in every interleaving, plus %d long runs of >= 800 allocations from VERIF_SEED; every history is distinct non-trivial. An evaluation = one case or history replayed on the real function and compared",
		p.SMax, 20, p.SFull, len(p.SCore), p.AMaxMin, p.AMaxPlain, p.GoNames, p.MaxScopes, len(p.Scripts)))
	runScanner(c, rs.Dir, rng)
	c.Phase("direct_scanner")
	runAllocator(c, ra.Dir, p, rng)
	c.Phase("direct_allocator")
}

// ---------------------------------------------------------------- scanner

type scanCase struct {
	q       []int
	gen     bool
	toks    []string
	hintPos []int
	out     []byte
}

func intsToBytes(v []int) []byte {
	b := make([]byte, len(v))
	for i, x := range v {
		b[i] = byte(x)
	}
	return b
}

func decodeScanCase(raw json.RawMessage) (*scanCase, error) {
	var inner string
	if err := json.Unmarshal(raw, &inner); err != nil {
		return nil, err
	}
	var f []json.RawMessage
	if err := json.Unmarshal([]byte(inner), &f); err != nil {
		return nil, err
	}
	if len(f) != 5 {
		return nil, fmt.Errorf("scanner record with %d fields", len(f))
	}
	sc := &scanCase{}
	var toks [][]int
	var out []int
	if err := json.Unmarshal(f[0], &sc.q); err != nil {
		return nil, err
	}
	if err := json.Unmarshal(f[1], &sc.gen); err != nil {
		return nil, err
	}
	if err := json.Unmarshal(f[2], &toks); err != nil {
		return nil, err
	}
	if err := json.Unmarshal(f[3], &sc.hintPos); err != nil {
		return nil, err
	}
	if err := json.Unmarshal(f[4], &out); err != nil {
		return nil, err
	}
	for _, t := range toks {
		sc.toks = append(sc.toks, string(intsToBytes(t)))
	}
	sc.out = intsToBytes(out)
	return sc, nil
}

type alphabet struct {
	items   [][]byte
	kinds   []string
	endings [][]byte
}

func readAlphabet(path string) (*alphabet, error) {
	a := &alphabet{}
	err := tlcx.ReadNDJSON(path, func(raw json.RawMessage) error {
		if a.items != nil {
			return nil // the initial state may be evaluated more than once
		}
		var inner string
		if err := json.Unmarshal(raw, &inner); err != nil {
			return err
		}
		var f []json.RawMessage
		if err := json.Unmarshal([]byte(inner), &f); err != nil {
			return err
		}
		var items, ends [][]int
		if err := json.Unmarshal(f[0], &items); err != nil {
			return err
		}
		if err := json.Unmarshal(f[1], &ends); err != nil {
			return err
		}
		if err := json.Unmarshal(f[2], &a.kinds); err != nil {
			return err
		}
		for _, it := range items {
			a.items = append(a.items, intsToBytes(it))
		}
		for _, e := range ends {
			a.endings = append(a.endings, intsToBytes(e))
		}
		return nil
	})
	if err == nil && len(a.items) == 0 {
		err = fmt.Errorf("no alphabet emitted")
	}
	return a, err
}

// input renders a case: the items followed by the ending Minify.tla assigns.
func (a *alphabet) input(q []int) (body, ending []byte) {
	sum := len(q)
	for _, x := range q {
		sum += x
		body = append(body, a.items[x-1]...)
	}
	return body, a.endings[sum%4]
}

func (a *alphabet) show(q []int) string {
	var parts []string
	for _, x := range q {
		parts = append(parts, fmt.Sprintf("%q", a.items[x-1]))
	}
	return strings.Join(parts, " ")
}

func realScan(in []byte) (out []byte, panicked any) {
	defer func() {
		if r := recover(); r != nil {
			panicked = r
		}
	}()
	cp := append([]byte(nil), in...)
	return compiler.VerifRemoveWhitespace(cp), nil
}

func sameStrings(a, b []string) bool {
	if len(a) != len(b) {
		return false
	}
	for i := range a {
		if a[i] != b[i] {
			return false
		}
	}
	return true
}

func sameInts(a, b []int) bool {
	if len(a) != len(b) {
		return false
	}
	for i := range a {
		if a[i] != b[i] {
			return false
		}
	}
	return true
}

// scanVerdict is the outcome of one scanner case on the real function.
type scanFailure struct {
	keys    []string
	summary string
	files   map[string]string
}

// classifyScan names what went wrong between the predicted and the observed
// token sequence.
func classifyScan(want, got []string, wantHints, gotHints []hintAt) []string {
	if strings.Join(want, "") == strings.Join(got, "") && !sameStrings(want, got) {
		if len(got) < len(want) {
			return []string{"scanner_tokens_merged"}
		}
		return []string{"scanner_token_split"}
	}
	for _, t := range want {
		if strings.HasPrefix(t, "\"") {
			found := false
			for _, g := range got {
				if g == t {
					found = true
				}
			}
			if !found {
				return []string{"scanner_string_literal_changed"}
			}
		}
	}
	if sameStrings(want, got) {
		return []string{"scanner_hint_changed"}
	}
	return []string{"scanner_tokens_changed"}
}

type evalJob struct {
	ID  string `json:"id"`
	In  string `json:"in"`
	Out string `json:"out"`
}

func runScanner(c *core.Ctx, dir string, rng *rand.Rand) {
	alpha, err := readAlphabet(filepath.Join(dir, "scan.alphabet.json"))
	if err != nil {
		c.Infra(fmt.Errorf("scanner alphabet: %v", err))
		return
	}
	files, _ := filepath.Glob(filepath.Join(dir, "scan.*.ndjson"))
	sort.Strings(files)
	type shard struct {
		cases, gen, nongen, drift, discards, nontrivial int
		failures                                        []scanFailure
		evals                                           []evalJob
		driftSample                                     string
		samples                                         []any
		distinct                                        []string
		err                                             error
	}
	shards := make([]shard, len(files))
	evalCap := 20000
	seeds := make([]int64, len(files))
	for i := range seeds {
		seeds[i] = rng.Int63()
	}
	c.ParMap(len(files), func(i int) {
		sh := &shards[i]
		lrng := rand.New(rand.NewSource(seeds[i]))
		seen := map[string]bool{}
		sh.err = tlcx.ReadNDJSON(files[i], func(raw json.RawMessage) error {
			sc, err := decodeScanCase(raw)
			if err != nil {
				return err
			}
			key := fmt.Sprint(sc.q)
			if seen[key] {
				return nil
			}
			seen[key] = true
			sh.cases++
			body, ending := alpha.input(sc.q)
			in := append(append([]byte(nil), body...), ending...)
			out, pan := realScan(in)
			if !sc.gen {
				// outside the generator's shapes: binding of the implementation model only
				sh.nongen++
				if pan != nil || !bytes.Equal(out, sc.out) {
					sh.drift++
					if sh.driftSample == "" {
						sh.driftSample = fmt.Sprintf("%s: model %q, removeWhitespace %q (panic %v)", alpha.show(sc.q), sc.out, out, pan)
					}
				}
				return nil
			}
			sh.gen++
			nontrivial := false
			for _, x := range sc.q {
				if k := alpha.kinds[x-1]; k == "ws" || k == "com" || k == "hint" {
					nontrivial = true
				}
			}
			if nontrivial {
				sh.nontrivial++
				sh.distinct = append(sh.distinct, "scan:"+key)
			}
			wantHints := make([]hintAt, len(sc.hintPos))
			for j, p := range sc.hintPos {
				wantHints[j] = hintAt{pos: p}
			}
			// the guard: the independent tokenizer must read the INPUT as the specification does
			gToks, gHints, gErr := tokenizeJS(in)
			guardOK := gErr == nil && sameStrings(gToks, sc.toks) && sameHintPos(gHints, sc.hintPos)
			if pan != nil {
				if !guardOK {
					sh.discards++
					return nil
				}
				sh.failures = append(sh.failures, scanFailure{keys: []string{"scanner_panic"},
					summary: fmt.Sprintf("removeWhitespace panics on the generator-shaped chunk %q: %v", in, pan),
					files:   replayFilesScan(in, sc, nil)})
				return nil
			}
			if !bytes.Equal(out, sc.out) {
				sh.drift++
				if sh.driftSample == "" {
					sh.driftSample = fmt.Sprintf("%s: model %q, removeWhitespace %q", alpha.show(sc.q), sc.out, out)
				}
			}
			oToks, oHints, oErr := tokenizeJS(out)
			ok := oErr == nil && sameStrings(oToks, sc.toks) && sameHintPos(oHints, sc.hintPos)
			if ok {
				// hints byte for byte: the hints of the output are those of the input
				for j := range oHints {
					if !bytes.Equal(oHints[j].bytes, gHints[j].bytes) {
						ok = false
					}
				}
			}
			if !ok {
				if !guardOK {
					sh.discards++
					return nil
				}
				sh.failures = append(sh.failures, scanFailure{keys: classifyScan(sc.toks, oToks, gHints, oHints),
					summary: fmt.Sprintf("removeWhitespace(%q) = %q: JavaScript tokens %q, the input has %q (items %s)", in, out, oToks, sc.toks, alpha.show(sc.q)),
					files:   replayFilesScan(in, sc, out)})
			}
			// Node evaluates input and output where the input is a valid expression
			if len(sh.evals) < evalCap || lrng.Intn(sh.gen) < evalCap {
				if len(out) > 0 && out[len(out)-1] == ending[0] && !regexRisk(sc.toks) {
					j := evalJob{ID: key, In: string(stripHints(body)), Out: string(stripHints(out[:len(out)-1]))}
					if len(sh.evals) < evalCap {
						sh.evals = append(sh.evals, j)
					} else {
						sh.evals[lrng.Intn(evalCap)] = j
					}
				}
			}
			if len(sh.samples) < 1 && nontrivial && len(sc.q) >= 4 && lrng.Intn(50) == 0 {
				sh.samples = append(sh.samples, map[string]any{"part": "scanner", "input": string(in), "predicted_tokens": sc.toks, "observed_output": string(out)})
			}
			return nil
		})
	})
	var total, gen, nongen, drift, discards int
	var evals []evalJob
	driftSample := ""
	failed := map[string]bool{}
	for i := range shards {
		sh := &shards[i]
		if sh.err != nil {
			c.Infra(fmt.Errorf("decode %s: %v", files[i], sh.err))
			return
		}
		total += sh.cases
		gen += sh.gen
		nongen += sh.nongen
		drift += sh.drift
		discards += sh.discards
		evals = append(evals, sh.evals...)
		if driftSample == "" {
			driftSample = sh.driftSample
		}
		for _, d := range sh.distinct {
			c.Distinct(d)
		}
		for _, s := range sh.samples {
			if i%5 == 2 {
				c.Sample(s)
			}
		}
		for _, f := range sh.failures {
			failed[f.summary] = true
			c.Report(core.Case{Keys: f.keys, Summary: f.summary, Files: f.files})
		}
	}
	c.Add("evaluations", total)
	c.Add("traces_validated_against_impl", total-discards)
	c.Add("spec_guard_discards", discards)
	c.Set("scanner_cases", total)
	c.Set("scanner_cases_generator_shaped", gen)
	c.Set("scanner_cases_outside_generator_shapes", nongen)
	c.Set("scanner_model_drift", drift)
	if drift > 0 {
		fmt.Printf("MODEL-DRIFT property=C16 part=scanner: removeWhitespace differs from the implementation model of Minify.tla on %d cases (the token property is decided on the real output regardless), e.g. %s\n", drift, driftSample)
		if driftFatal() {
			c.Report(core.Case{Keys: []string{"model_drift_scanner"}, Summary: "removeWhitespace differs from the scanner model of Minify.tla: " + driftSample})
		}
	}
	// Node guard
	valid, mism, err := nodeEval(c, evals)
	if err != nil {
		c.Infra(fmt.Errorf("node evaluation guard: %v", err))
		return
	}
	c.Set("scanner_node_evaluated", len(evals))
	c.Set("scanner_node_valid_expressions", valid)
	nodeOnly := 0
	for _, m := range mism {
		// a case Node sees differently although the token sequences agree is a
		// disagreement between the guard and the specification
		already := false
		for s := range failed {
			if strings.Contains(s, m.In) {
				already = true
			}
		}
		if !already {
			nodeOnly++
			if nodeOnly <= 3 {
				fmt.Printf("note: Node evaluates input and output differently although the tokens agree: (%s) -> %s, (%s) -> %s\n", m.In, m.InRes, m.Out, m.OutRes)
			}
		}
	}
	c.Set("scanner_node_confirmed_differences", len(mism)-nodeOnly)
	c.Add("spec_guard_discards", nodeOnly)
}

func replayFilesScan(in []byte, sc *scanCase, out []byte) map[string]string {
	d := map[string]any{"kind": "scanner", "input": bytesToInts(in), "want_tokens": sc.toks, "want_hint_positions": sc.hintPos}
	b, _ := json.MarshalIndent(d, "", " ")
	return map[string]string{"direct.json": string(b) + "\n", "input.js": string(in), "observed.js": string(out), "expected.txt": fmt.Sprintf("%q\n", sc.toks)}
}

func bytesToInts(b []byte) []int {
	v := make([]int, len(b))
	for i, x := range b {
		v[i] = int(x)
	}
	return v
}

// regexRisk reports whether a `/` stands where JavaScript expects an operand
// (it would start a regular expression literal; the compiler emits none, so the
// evaluation guard leaves such cases to the token comparison).
func regexRisk(toks []string) bool {
	prev := ""
	for _, t := range toks {
		if t == "/" || t == "//" {
			switch prev {
			case "", "-", "+", "--", "++", "/", "in", "(", ",", "=", ":", ";", "{", "}":
				return true
			}
		}
		prev = t
	}
	return false
}

type evalMismatch struct {
	ID, In, Out, InRes, OutRes string
}

const evalScript = `
const fs = require('fs');
const lines = fs.readFileSync(process.argv[2], 'utf8').split('\n');
function ev(src) {
  try {
    const f = new Function('$y', '_Z', '"use strict"; return (' + src + '\n)');
    const v = f(7, {7: 1, valueOf() { return 5; }});
    return 'v:' + typeof v + ':' + String(v);
  } catch (e) { return 'e:' + e.name; }
}
let valid = 0, total = 0;
const out = [], wrapped = [];
for (const l of lines) {
  if (!l) continue;
  const j = JSON.parse(l);
  total++;
  const a = ev(j.in);
  if (a === 'e:SyntaxError') continue;
  valid++;
  const b = ev(j.out);
  if (b !== 'e:SyntaxError' && wrapped.length < 5000) wrapped.push('function f' + wrapped.length + '($y, _Z) { "use strict"; return (' + j.out + '\n); }');
  if (a !== b) out.push(JSON.stringify({ID: j.id, In: j.in, Out: j.out, InRes: a, OutRes: b}));
}
fs.writeFileSync(process.argv[3], wrapped.join('\n') + '\n');
out.push(JSON.stringify({summary: true, valid: valid, total: total, wrapped: wrapped.length}));
process.stdout.write(out.join('\n') + '\n');
`

// nodeEval lets JavaScript itself compare input and output of scanner cases:
// both are wrapped as `return ( ... )` of a strict function of $y and _Z;
// inputs that are not valid expressions are skipped.
func nodeEval(c *core.Ctx, jobs []evalJob) (valid int, mism []evalMismatch, err error) {
	if len(jobs) == 0 {
		return 0, nil, nil
	}
	defer func() {
		if err == nil && valid == 0 {
			err = fmt.Errorf("no sampled scanner case is a valid JavaScript expression")
		}
	}()
	dir, err := os.MkdirTemp(c.Scratch, "nodeeval-")
	if err != nil {
		return 0, nil, err
	}
	var buf bytes.Buffer
	enc := json.NewEncoder(&buf)
	enc.SetEscapeHTML(false)
	for _, j := range jobs {
		enc.Encode(j)
	}
	if err := os.WriteFile(filepath.Join(dir, "cases.ndjson"), buf.Bytes(), 0o644); err != nil {
		return 0, nil, err
	}
	if err := os.WriteFile(filepath.Join(dir, "eval.js"), []byte(evalScript), 0o644); err != nil {
		return 0, nil, err
	}
	wrappedFile := filepath.Join(dir, "wrapped_outputs.js")
	cmd := exec.Command("node", "--max-old-space-size=4096", filepath.Join(dir, "eval.js"), filepath.Join(dir, "cases.ndjson"), wrappedFile)
	var stderr bytes.Buffer
	cmd.Stderr = &stderr
	outb, err := cmd.Output()
	if err != nil {
		return 0, nil, fmt.Errorf("%v: %s", err, stderr.String())
	}
	sawSummary := false
	for _, l := range strings.Split(string(outb), "\n") {
		if l == "" {
			continue
		}
		var s struct {
			Summary bool
			Valid   int
			Wrapped int
		}
		if json.Unmarshal([]byte(l), &s) == nil && s.Summary {
			valid = s.Valid
			sawSummary = true
			// `node --check` on the minified outputs wrapped into function declarations
			if ob, err := exec.Command("node", "--check", wrappedFile).CombinedOutput(); err != nil {
				return 0, nil, fmt.Errorf("node --check rejects outputs that new Function accepted: %v %s", err, ob)
			}
			c.Set("scanner_node_check_wrapped_outputs", s.Wrapped)
			continue
		}
		var m evalMismatch
		if err := json.Unmarshal([]byte(l), &m); err != nil {
			return 0, nil, fmt.Errorf("bad line from node: %q", l)
		}
		mism = append(mism, m)
	}
	if !sawSummary {
		return 0, nil, fmt.Errorf("node printed no summary: %s", stderr.String())
	}
	return valid, mism, nil
}
