package minigo

// Constructors for the nodes of MiniGo version 2 (see spec/MiniGo.tla for the
// meaning of every node kind).

func lst(xs ...N) []any {
	o := make([]any, len(xs))
	for i, x := range xs {
		o[i] = []any(x)
	}
	return o
}

// none is an absent optional operand (slice bound, capacity).
var none = []any{}

func lit(n int) N                       { return N{"lit", n} }
func vr(x string) N                     { return N{"var", x} }
func add(x, y N) N                      { return N{"add", []any(x), []any(y)} }
func sub(x, y N) N                      { return N{"sub", []any(x), []any(y)} }
func mul(x, y N) N                      { return N{"mul", []any(x), []any(y)} }
func tr(k int, e N) N                   { return N{"tr", k, []any(e)} }
func trb(k int, c N) N                  { return N{"trb", k, []any(c)} }
func lt(x, y N) N                       { return N{"lt", []any(x), []any(y)} }
func eq(x, y N) N                       { return N{"eq", []any(x), []any(y)} }
func not(c N) N                         { return N{"not", []any(c)} }
func and(c, d N) N                      { return N{"and", []any(c), []any(d)} }
func or(c, d N) N                       { return N{"or", []any(c), []any(d)} }
func in() N                             { return N{"in"} }
func bvar(x string) N                   { return N{"bvar", x} }
func call(f string, as ...N) N          { return N{"call", f, lst(as...)} }
func callsp(f string, as ...N) N        { return N{"callsp", f, lst(as...)} }
func callv(c string) N                  { return N{"callv", c} }
func callf(f N, as ...N) N              { return N{"callf", []any(f), lst(as...)} }
func mcall(recv N, m string, as ...N) N { return N{"mcall", []any(recv), m, lst(as...)} }
func mval(recv N, m string) N           { return N{"mval", []any(recv), m} }
func idx(kind string, b, i N) N         { return N{"idx", kind, []any(b), []any(i)} }
func ln(kind string, e N) N             { return N{"len", kind, []any(e)} }
func cp(kind string, e N) N             { return N{"cap", kind, []any(e)} }
func fld(e N, f int) N                  { return N{"fld", []any(e), f} }
func pfld(p N, f int) N                 { return N{"pfld", []any(p), f} }
func deref(p N) N                       { return N{"deref", []any(p)} }
func addr(x string) N                   { return N{"addr", []any(vr(x))} }
func null() N                           { return N{"nil"} }
func nilsl() N                          { return N{"nilsl"} }
func nilmap() N                         { return N{"nilmap"} }
func newT(x, y N) N                     { return N{"newT", []any(x), []any(y)} }
func tlit(x, y N) N                     { return N{"tlit", lst(x, y)} }
func arrlit(x, y, z N) N                { return N{"arrlit", lst(x, y, z)} }
func sllit(es ...N) N                   { return N{"sllit", lst(es...)} }
func strlit(s string) N                 { return N{"strlit", Str(s)} }
func concat(x, y N) N                   { return N{"concat", []any(x), []any(y)} }
func streq(x, y N) N                    { return N{"streq", []any(x), []any(y)} }
func peq(x, y N) N                      { return N{"peq", []any(x), []any(y)} }
func makeSl(n N, c ...N) N {
	if len(c) > 0 {
		return N{"mk", []any(n), []any(c[0])}
	}
	return N{"mk", []any(n), none}
}

// slice builds base[lo:hi:max]; nil bounds are absent. kind: sl, arrv (base is an
// array variable or *p), pa, str.
func slice(kind string, b N, lo, hi, max N) N {
	o := func(x N) any {
		if x == nil {
			return none
		}
		return []any(x)
	}
	return N{"slice", kind, []any(b), o(lo), o(hi), o(max)}
}
func appendE(s N, es ...N) N { return N{"append", []any(s), lst(es...)} }
func appendSl(s, t N) N      { return N{"appendsl", []any(s), []any(t)} }
func copyE(d, s N) N         { return N{"copy", []any(d), []any(s)} }
func mkmap() N               { return N{"mkmap"} }
func maplit(kvs ...N) N      { return N{"maplit", lst(kvs...)} }
func funclit(name string) N  { return N{"funclit", name} }
func fnref(name string) N    { return N{"fnref", name} }
func blank() N               { return N{"blank"} }

// statements
func emit(k int, e N) N            { return N{"emit", k, []any(e)} }
func assign(x string, e N) N       { return N{"assign", x, []any(e)} }
func addto(x string, e N) N        { return N{"addto", x, []any(e)} }
func inc(x string) N               { return N{"inc", x} }
func exprS(e N) N                  { return N{"expr", []any(e)} }
func ret(e N) N                    { return N{"return", []any(e)} }
func retN(es ...N) N               { return N{"returnN", lst(es...)} }
func ret0() N                      { return N{"ret0"} }
func brk(l string) N               { return N{"break", l} }
func contS(l string) N             { return N{"continue", l} }
func gotoS(l string) N             { return N{"goto", l} }
func label(l string) N             { return N{"label", l} }
func ifS(c N, then []N, els []N) N { return N{"if", []any(c), nodes(then), nodes(els)} }
func forS(lbl string, init []N, c N, post []N, body []N) N {
	var cc any = []any{}
	if c != nil {
		cc = []any(c)
	}
	return N{"for", lbl, nodes(init), cc, nodes(post), nodes(body)}
}
func set(lv, e N) N                     { return N{"set", []any(lv), []any(e)} }
func massign(lvs []N, es []N) N         { return N{"massign", nodes(lvs), nodes(es)} }
func assignN(lvs []N, c N) N            { return N{"assignN", nodes(lvs), []any(c)} }
func opset(op string, lv, e N) N        { return N{"opset", op, []any(lv), []any(e)} }
func incdec(lv N, d int) N              { return N{"incdec", []any(lv), d} }
func bassign(x string, c N) N           { return N{"bassign", x, []any(c)} }
func commaok(lv N, ok string, m, k N) N { return N{"commaok", []any(lv), ok, []any(m), []any(k)} }
func del(m, k N) N                      { return N{"delete", []any(m), []any(k)} }
func rangeS(lbl, kind, k, v string, def bool, x N, body []N) N {
	return N{"range", lbl, kind, k, v, def, []any(x), nodes(body)}
}
func deferS(c N) N                   { return N{"defer", []any(c)} }
func deferEmit(k int, e N) N         { return N{"deferemit", k, []any(e)} }
func panicS(e N) N                   { return N{"panic", []any(e)} }
func dump(k int, kind string, e N) N { return N{"dump", k, kind, []any(e)} }

// sites hands out trace point / emit numbers.
type sites struct{ k int }

func (s *sites) next() int { s.k++; return s.k }

// fb builds one function.
type fb struct{ f *Func }

func newFunc(name string) *fb { return &fb{f: &Func{Name: name, LT: []string{}, PT: []string{}}} }

func (b *fb) param(name, typ string) *fb {
	b.f.Params = append(b.f.Params, name)
	b.f.PT = append(b.f.PT, typ)
	return b
}
func (b *fb) local(name, typ string) *fb {
	b.f.Locals = append(b.f.Locals, name)
	b.f.LT = append(b.f.LT, typ)
	return b
}
func (b *fb) locals(typ string, names ...string) *fb {
	for _, n := range names {
		b.local(n, typ)
	}
	return b
}
func (b *fb) results(ts ...string) *fb { b.f.RT = ts; return b }
func (b *fb) named(name, typ string) *fb {
	b.f.Named = append(b.f.Named, name)
	b.f.RT = append(b.f.RT, typ)
	b.local(name, typ)
	return b
}
func (b *fb) recv(kind, name string) *fb {
	b.f.Recv = kind
	t := "T"
	if kind == "ptr" {
		t = "pT"
	}
	b.f.Params = append([]string{name}, b.f.Params...)
	b.f.PT = append([]string{t}, b.f.PT...)
	return b
}
func (b *fb) lit() *fb           { b.f.Lit = true; return b }
func (b *fb) body(ss ...N) *Func { b.f.Body = ss; return b.f }
