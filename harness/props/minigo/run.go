package minigo

import (
	"encoding/json"
	"fmt"
	"math/rand"
	"os"
	"path/filepath"
	"sort"
	"strconv"
	"strings"
	"time"

	"verif/core"
	"verif/gjs"
	"verif/tlcx"
)

// Mode is one way of building and running the generated programs.
type Mode struct {
	Name   string
	Flat   bool // trace points may suspend the goroutine (functions are compiled in the resumable form)
	Minify bool
	Masks  int // number of yield masks to run (Flat only); mask 0 = never yield is always included
}

// Config selects what a property compares.
type Config struct {
	Prop      string
	Modes     []Mode
	Random    int  // number of random programs
	Families  bool // include the exhaustive switch / loop families
	NodeCheck bool // also require `node --check` to accept the emitted file
}

const ni = 4

type pred struct {
	P    int     `json:"p"`
	IV   []int   `json:"iv"`
	Obs  [][]any `json:"obs"`
	Used int     `json:"used"`
	OK   bool    `json:"ok"`
}

type caseT struct {
	iv   []int
	want []string
}

type progT struct {
	p     *Program
	js    string
	cases []caseT
}

func obsLines(obs [][]any) []string {
	var ls []string
	for _, t := range obs {
		var parts []string
		for _, x := range t {
			switch v := x.(type) {
			case string:
				parts = append(parts, v)
			case float64:
				parts = append(parts, strconv.Itoa(int(v)))
			default:
				parts = append(parts, fmt.Sprint(v))
			}
		}
		ls = append(ls, strings.Join(parts, " "))
	}
	return ls
}

const helpers = `package main

var inp []bool
var ip int
var mask uint32

func in() bool {
	if ip < len(inp) {
		b := inp[ip]
		ip++
		return b
	}
	ip++
	return false
}

func tr(k, v int) int {
	yield(k)
	println("t", k, v)
	return v
}

func trb(k int, b bool) bool {
	yield(k)
	if b {
		println("b", k, 1)
	} else {
		println("b", k, 0)
	}
	return b
}
`

const yieldFlat = `package main

import "runtime"

// a trace point suspends the goroutine when its bit is set in the mask
func yield(k int) {
	if mask>>(uint(k)%31)&1 == 1 {
		runtime.Gosched()
	}
}
`

const yieldDirect = `package main

func yield(k int) {}
`

const argsJS = `//go:build js

package main

import "github.com/gopherjs/gopherjs/js"

func argN() int { return js.Global.Get("process").Get("argv").Index(2).Int() }
`

const argsNative = `//go:build !js

package main

import "os"

func argN() int {
	n := 0
	for _, c := range os.Args[1] {
		n = n*10 + int(c-'0')
	}
	return n
}
`

func renderBatch(batch []*progT, flat bool) map[string]string {
	var b strings.Builder
	b.WriteString("package main\n\n")
	for n, pt := range batch {
		b.WriteString(RenderFuncs(pt.p, n))
	}
	b.WriteString("func main() {\n\tmask = uint32(argN())\n")
	for n, pt := range batch {
		for ci, cs := range pt.cases {
			var bits []string
			for _, x := range cs.iv {
				bits = append(bits, map[int]string{0: "false", 1: "true"}[x])
			}
			fmt.Fprintf(&b, "\tprintln(\"#\", %d, %d)\n\tinp, ip = []bool{%s}, 0\n\tprintln(\"ret\", p%d_f0())\n", n, ci, strings.Join(bits, ", "), n)
		}
	}
	b.WriteString("}\n")
	y := yieldDirect
	if flat {
		y = yieldFlat
	}
	return map[string]string{"main.go": b.String(), "helpers.go": helpers, "yield.go": y, "args_js.go": argsJS, "args_native.go": argsNative}
}

// sections splits the output into (program, case) -> lines.
func sections(lines []string) map[[2]int][]string {
	out := map[[2]int][]string{}
	cur := [2]int{-1, -1}
	for _, l := range lines {
		if strings.HasPrefix(l, "# ") {
			f := strings.Fields(l)
			if len(f) == 3 {
				a, _ := strconv.Atoi(f[1])
				b, _ := strconv.Atoi(f[2])
				cur = [2]int{a, b}
				out[cur] = []string{}
				continue
			}
		}
		out[cur] = append(out[cur], l)
	}
	return out
}

func same(a, b []string) bool {
	if len(a) != len(b) {
		return false
	}
	for i := range a {
		if a[i] != b[i] {
			return false
		}
	}
	return true
}

// Check runs the comparison for one property.
func Check(c *core.Ctx, pool *gjs.Pool, cfg Config) {
	rng := rand.New(rand.NewSource(c.Seed))
	var progs []*Program
	if cfg.Families {
		progs = append(progs, SwitchFamily()...)
		progs = append(progs, LoopFamily()...)
		progs = append(progs, CondFamily()...)
		progs = append(progs, OrderFamily()...)
	}
	for i := 0; i < cfg.Random; i++ {
		progs = append(progs, Random(rng))
	}
	var pj []any
	for _, p := range progs {
		p.Normalise()
		pj = append(pj, p.JSON())
	}
	params, _ := json.Marshal(map[string]any{"ni": ni, "fuel": 40, "out": "pred", "progs": pj})
	r, err := tlcx.Run(c, tlcx.Opts{Module: "MiniGoScen", Cfg: "SPECIFICATION Spec\nINVARIANT SemOK Emit\nCHECK_DEADLOCK FALSE\n", Workers: 8, Timeout: 30 * time.Minute,
		Files: map[string]string{"c01_params.json": string(params)}, HeapMB: 8192})
	if !tlcx.MustComplete(c, r, err, "MiniGoScen") {
		return
	}
	c.Phase("tlc_predictions")
	// collect predictions
	pts := make([]*progT, len(progs))
	for i, p := range progs {
		b, _ := json.Marshal(p.JSON())
		pts[i] = &progT{p: p, js: string(b)}
	}
	bad := map[int]bool{}
	files, _ := filepath.Glob(filepath.Join(r.Dir, "pred.*.ndjson"))
	for _, f := range files {
		seen := map[string]bool{}
		err := tlcx.ReadNDJSON(f, func(raw json.RawMessage) error {
			var inner string
			if err := json.Unmarshal(raw, &inner); err != nil {
				return err
			}
			var pr pred
			if err := json.Unmarshal([]byte(inner), &pr); err != nil {
				return err
			}
			if !pr.OK {
				bad[pr.P-1] = true
				return nil
			}
			used := pr.Used
			if used > len(pr.IV) {
				used = len(pr.IV)
			}
			key := fmt.Sprint(pr.IV[:used])
			if seen[key] {
				return nil
			}
			seen[key] = true
			pts[pr.P-1].cases = append(pts[pr.P-1].cases, caseT{iv: pr.IV[:used], want: obsLines(pr.Obs)})
			return nil
		})
		if err != nil {
			c.Infra(fmt.Errorf("reading predictions: %v", err))
			return
		}
	}
	var list []*progT
	ncases := 0
	for i, pt := range pts {
		if bad[i] || len(pt.cases) == 0 {
			continue
		}
		sort.Slice(pt.cases, func(a, b int) bool { return fmt.Sprint(pt.cases[a].iv) < fmt.Sprint(pt.cases[b].iv) })
		list = append(list, pt)
		ncases += len(pt.cases)
		c.Distinct(pt.js)
	}
	c.Set("programs", len(list))
	c.Set("program_input_pairs", ncases)
	c.Set("programs_discarded_out_of_fuel", len(bad))
	// masks
	maskList := []uint32{0, 0x7fffffff}
	for len(maskList) < 64 {
		maskList = append(maskList, rng.Uint32()&0x7fffffff)
	}
	const per = 60
	nb := (len(list) + per - 1) / per
	type viol struct {
		pt   *progT
		mode string
		mask uint32
		ci   int
		got  []string
	}
	vs := make([][]viol, nb)
	evals := make([]int, nb)
	discards := make([]int, nb)
	c.ParMap(nb, func(bi int) {
		lo, hi := bi*per, (bi+1)*per
		if hi > len(list) {
			hi = len(list)
		}
		batch := list[lo:hi]
		// guard: the reference toolchain, suspension enabled everywhere
		natOK := map[[2]int]bool{}
		{
			prog := gjs.Prog{Files: renderBatch(batch, true)}
			dir, err := prog.Materialise(c.Scratch)
			if err != nil {
				c.Infra(err)
				return
			}
			defer os.RemoveAll(dir)
			bin := filepath.Join(dir, "native.bin")
			if r := gjs.NativeBuild(dir, bin); r.ExitCode != 0 || r.Err != nil {
				c.Infra(fmt.Errorf("reference toolchain rejected a generated program batch: %s", tailStr(r.Out, 1500)))
				return
			}
			nat := gjs.ClassifyNative(gjs.NativeRun(bin, 2*time.Minute, nil, strconv.Itoa(0x7fffffff)))
			sec := sections(nat.Lines)
			for n, pt := range batch {
				for ci, cs := range pt.cases {
					if same(sec[[2]int{n, ci}], cs.want) {
						natOK[[2]int{n, ci}] = true
					} else {
						discards[bi]++
					}
				}
			}
		}
		for _, m := range cfg.Modes {
			prog := gjs.Prog{Files: renderBatch(batch, m.Flat)}
			dir, err := prog.Materialise(c.Scratch)
			if err != nil {
				c.Infra(err)
				return
			}
			out := filepath.Join(dir, "out.js")
			if err := pool.Build(dir, out, gjs.Opts{Minify: m.Minify}); err != nil {
				be, _ := err.(*gjs.BuildError)
				if be != nil {
					keys := []string{"compiler_rejects_valid_program"}
					if be.Panic {
						keys = []string{"compiler_panic"}
					}
					c.Report(core.Case{Keys: keys, Summary: fmt.Sprintf("mode %s: the compiler failed on a program batch the reference toolchain accepts: %s", m.Name, tailStr(be.Error(), 600)), Files: prog.ReplayFiles("prog")})
				} else {
					c.Infra(err)
				}
				os.RemoveAll(dir)
				continue
			}
			if cfg.NodeCheck {
				if r := gjs.NodeCheck(out); r.ExitCode != 0 {
					c.Report(core.Case{Keys: []string{"emitted_js_syntax_error"}, Summary: fmt.Sprintf("mode %s: node --check rejects the emitted file: %s", m.Name, tailStr(r.Out, 600)), Files: prog.ReplayFiles("prog")})
					os.RemoveAll(dir)
					continue
				}
			}
			masks := []uint32{0}
			if m.Flat {
				masks = maskList[:1+m.Masks]
			}
			jobs := make([]gjs.Job, len(masks))
			for i, mk := range masks {
				jobs[i] = gjs.Job{Args: []string{strconv.Itoa(int(mk))}, MaxSteps: 2000000}
			}
			obs, err := gjs.NodeMulti(out, jobs, 10*time.Minute)
			if err != nil {
				c.Infra(err)
				os.RemoveAll(dir)
				return
			}
			for i, o := range obs {
				sec := sections(o.Lines)
				for n, pt := range batch {
					for ci, cs := range pt.cases {
						if !natOK[[2]int{n, ci}] {
							continue
						}
						evals[bi]++
						got := sec[[2]int{n, ci}]
						if !same(got, cs.want) {
							vs[bi] = append(vs[bi], viol{pt, m.Name, masks[i], ci, append(got, "end="+o.End+" "+o.Msg)})
						}
					}
				}
			}
			os.RemoveAll(dir)
		}
	})
	if c.InfraErr != nil {
		return
	}
	ne, nd := 0, 0
	for i := range evals {
		ne += evals[i]
		nd += discards[i]
	}
	c.Set("evaluations", ne)
	c.Set("traces_validated_against_impl", ne)
	c.Set("spec_guard_discards", nd)
	c.Set("rule", "programs of the MiniGo fragment: exhaustive switch and loop/jump families plus VERIF_SEED random programs; TLC evaluates MiniGo.tla on every (program, input vector of 4 bits) pair; an evaluation = one (program, distinct consumed input prefix, build mode, yield mask) execution compared with the prediction; distinct_nontrivial = distinct programs")
	c.Set("checker_cmd", "tlc MiniGoScen (INVARIANT SemOK Emit)")
	var modes []string
	for _, m := range cfg.Modes {
		modes = append(modes, m.Name)
	}
	c.Set("modes", modes)
	reported := map[string]bool{}
	for _, bv := range vs {
		for _, v := range bv {
			if reported[v.pt.js+v.mode] {
				continue
			}
			reported[v.pt.js+v.mode] = true
			one := &progT{p: v.pt.p, js: v.pt.js, cases: []caseT{v.pt.cases[v.ci]}}
			files := map[string]string{"program.json": v.pt.js + "\n", "input.json": fmt.Sprint(v.pt.cases[v.ci].iv) + "\n",
				"predicted.txt": strings.Join(v.pt.cases[v.ci].want, "\n") + "\n", "observed.txt": strings.Join(v.got, "\n") + "\n",
				"mode.txt": fmt.Sprintf("%s mask=%d\n", v.mode, v.mask)}
			flat := false
			for _, m := range cfg.Modes {
				if m.Name == v.mode {
					flat = m.Flat
				}
			}
			for n, content := range renderBatch([]*progT{one}, flat) {
				files["prog/"+n] = content
			}
			c.Report(core.Case{Keys: Classify(v.pt.p, v.mode), Summary: fmt.Sprintf("mode %s (yield mask %d), %s program, input %v: compiled program printed %v, MiniGo.tla (and native Go) predict %v", v.mode, v.mask, v.pt.p.Tag, v.pt.cases[v.ci].iv, clip(v.got), clip(v.pt.cases[v.ci].want)), Files: files})
		}
	}
	for i, pt := range list {
		if i%(len(list)/3+1) == 0 {
			c.Sample(map[string]any{"program": json.RawMessage(pt.js), "inputs": len(pt.cases), "predicted_first": pt.cases[0].want})
		}
	}
}

func clip(s []string) []string {
	if len(s) > 14 {
		return append(append([]string{}, s[:14]...), "...")
	}
	return s
}

func tailStr(s string, n int) string {
	if len(s) > n {
		return s[len(s)-n:]
	}
	return s
}

// hasKind reports whether the expression tree contains a node of one of the kinds.
func hasKind(e []any, kinds ...string) bool {
	if len(e) == 0 {
		return false
	}
	if k, ok := e[0].(string); ok {
		for _, x := range kinds {
			if k == x {
				return true
			}
		}
	}
	for _, x := range e {
		if sub, ok := x.([]any); ok && hasKind(sub, kinds...) {
			return true
		}
	}
	return false
}

// callInfo classifies the calls of a program for one build mode: which functions
// can suspend (the compiler emits calls to them as separate resumable statements)
// and which cannot.
type callInfo struct {
	resumable bool
	blocking  map[string]bool // helper name -> may suspend
}

func newCallInfo(p *Program, resumable bool) *callInfo {
	ci := &callInfo{resumable: resumable, blocking: map[string]bool{}}
	for changed := true; changed; {
		changed = false
		for _, f := range p.Funcs {
			if !ci.blocking[f.Name] && ci.blockingExpr(nodes(f.Body)) {
				ci.blocking[f.Name] = true
				changed = true
			}
		}
	}
	return ci
}

// blockingExpr: the tree contains a call that may suspend.
func (ci *callInfo) blockingExpr(e []any) bool {
	if len(e) == 0 {
		return false
	}
	if k, ok := e[0].(string); ok {
		switch k {
		case "callv":
			return true
		case "tr", "trb":
			if ci.resumable {
				return true
			}
		case "call":
			if ci.blocking[e[1].(string)] {
				return true
			}
		}
	}
	for _, x := range e {
		if sub, ok := x.([]any); ok && ci.blockingExpr(sub) {
			return true
		}
	}
	return false
}

// directCall: the tree contains a call that cannot suspend.
func (ci *callInfo) directCall(e []any) bool {
	if len(e) == 0 {
		return false
	}
	if k, ok := e[0].(string); ok {
		switch k {
		case "tr", "trb":
			if !ci.resumable {
				return true
			}
		case "call":
			if !ci.blocking[e[1].(string)] {
				return true
			}
		}
	}
	for _, x := range e {
		if sub, ok := x.([]any); ok && ci.directCall(sub) {
			return true
		}
	}
	return false
}

// mixedOrder: somewhere an operand evaluated EARLIER contains a call that cannot
// suspend and a LATER operand of the same expression contains one that can.
func (ci *callInfo) mixedOrder(e []any) bool {
	if len(e) == 0 {
		return false
	}
	k, _ := e[0].(string)
	var operands [][]any
	switch k {
	case "add", "sub", "mul", "lt", "eq":
		// operands of binary operators only: argument lists are evaluated in order
		// by the compiler (translateArgs preserves the order when a later argument
		// can suspend), so they are not part of the finding
		operands = [][]any{e[1].([]any), e[2].([]any)}
	}
	for i := 0; i < len(operands); i++ {
		for j := i + 1; j < len(operands); j++ {
			if ci.directCall(operands[i]) && ci.blockingExpr(operands[j]) {
				return true
			}
		}
	}
	for _, x := range e {
		if sub, ok := x.([]any); ok && ci.mixedOrder(sub) {
			return true
		}
	}
	return false
}

// Classify returns known-finding keys for a failing program in a build mode.
func Classify(p *Program, mode string) []string {
	ci := newCallInfo(p, strings.Contains(mode, "resumable"))
	for _, f := range p.Funcs {
		if ci.mixedOrder(nodes(f.Body)) {
			return []string{"direct_call_reordered_after_later_suspending_call"}
		}
	}
	return nil
}
